
(** val negb : bool -> bool **)

let negb = function
| true -> false
| false -> true

type nat =
| O
| S of nat

(** val fst : ('a1 * 'a2) -> 'a1 **)

let fst = function
| (x, _) -> x

(** val snd : ('a1 * 'a2) -> 'a2 **)

let snd = function
| (_, y) -> y

(** val length : 'a1 list -> nat **)

let rec length = function
| [] -> O
| _ :: l' -> S (length l')

(** val app : 'a1 list -> 'a1 list -> 'a1 list **)

let rec app l m =
  match l with
  | [] -> m
  | a :: l1 -> a :: (app l1 m)

type comparison =
| Eq
| Lt
| Gt

(** val compOpp : comparison -> comparison **)

let compOpp = function
| Eq -> Eq
| Lt -> Gt
| Gt -> Lt

module Nat =
 struct
  (** val eqb : nat -> nat -> bool **)

  let rec eqb n0 m =
    match n0 with
    | O -> (match m with
            | O -> true
            | S _ -> false)
    | S n' -> (match m with
               | O -> false
               | S m' -> eqb n' m')

  (** val leb : nat -> nat -> bool **)

  let rec leb n0 m =
    match n0 with
    | O -> true
    | S n' -> (match m with
               | O -> false
               | S m' -> leb n' m')

  (** val ltb : nat -> nat -> bool **)

  let ltb n0 m =
    leb (S n0) m
 end

(** val nth_error : 'a1 list -> nat -> 'a1 option **)

let rec nth_error l = function
| O -> (match l with
        | [] -> None
        | x :: _ -> Some x)
| S n1 -> (match l with
           | [] -> None
           | _ :: l0 -> nth_error l0 n1)

(** val rev : 'a1 list -> 'a1 list **)

let rec rev = function
| [] -> []
| x :: l' -> app (rev l') (x :: [])

(** val map : ('a1 -> 'a2) -> 'a1 list -> 'a2 list **)

let rec map f = function
| [] -> []
| a :: t -> (f a) :: (map f t)

(** val flat_map : ('a1 -> 'a2 list) -> 'a1 list -> 'a2 list **)

let rec flat_map f = function
| [] -> []
| x :: t -> app (f x) (flat_map f t)

(** val fold_left : ('a1 -> 'a2 -> 'a1) -> 'a2 list -> 'a1 -> 'a1 **)

let rec fold_left f l a0 =
  match l with
  | [] -> a0
  | b :: t -> fold_left f t (f a0 b)

(** val fold_right : ('a2 -> 'a1 -> 'a1) -> 'a1 -> 'a2 list -> 'a1 **)

let rec fold_right f a0 = function
| [] -> a0
| b :: t -> f b (fold_right f a0 t)

(** val existsb : ('a1 -> bool) -> 'a1 list -> bool **)

let rec existsb f = function
| [] -> false
| a :: l0 -> (||) (f a) (existsb f l0)

(** val forallb : ('a1 -> bool) -> 'a1 list -> bool **)

let rec forallb f = function
| [] -> true
| a :: l0 -> (&&) (f a) (forallb f l0)

(** val filter : ('a1 -> bool) -> 'a1 list -> 'a1 list **)

let rec filter f = function
| [] -> []
| x :: l0 -> if f x then x :: (filter f l0) else filter f l0

(** val seq : nat -> nat -> nat list **)

let rec seq start0 = function
| O -> []
| S len0 -> start0 :: (seq (S start0) len0)

(** val repeat : 'a1 -> nat -> 'a1 list **)

let rec repeat x = function
| O -> []
| S k -> x :: (repeat x k)

type positive =
| XI of positive
| XO of positive
| XH

type n =
| N0
| Npos of positive

type z =
| Z0
| Zpos of positive
| Zneg of positive

module Pos =
 struct
  type mask =
  | IsNul
  | IsPos of positive
  | IsNeg
 end

module Coq_Pos =
 struct
  (** val succ : positive -> positive **)

  let rec succ = function
  | XI p -> XO (succ p)
  | XO p -> XI p
  | XH -> XO XH

  (** val add : positive -> positive -> positive **)

  let rec add x y =
    match x with
    | XI p ->
      (match y with
       | XI q -> XO (add_carry p q)
       | XO q -> XI (add p q)
       | XH -> XO (succ p))
    | XO p ->
      (match y with
       | XI q -> XI (add p q)
       | XO q -> XO (add p q)
       | XH -> XI p)
    | XH -> (match y with
             | XI q -> XO (succ q)
             | XO q -> XI q
             | XH -> XO XH)

  (** val add_carry : positive -> positive -> positive **)

  and add_carry x y =
    match x with
    | XI p ->
      (match y with
       | XI q -> XI (add_carry p q)
       | XO q -> XO (add_carry p q)
       | XH -> XI (succ p))
    | XO p ->
      (match y with
       | XI q -> XO (add_carry p q)
       | XO q -> XI (add p q)
       | XH -> XO (succ p))
    | XH ->
      (match y with
       | XI q -> XI (succ q)
       | XO q -> XO (succ q)
       | XH -> XI XH)

  (** val pred_double : positive -> positive **)

  let rec pred_double = function
  | XI p -> XI (XO p)
  | XO p -> XI (pred_double p)
  | XH -> XH

  type mask = Pos.mask =
  | IsNul
  | IsPos of positive
  | IsNeg

  (** val succ_double_mask : mask -> mask **)

  let succ_double_mask = function
  | IsNul -> IsPos XH
  | IsPos p -> IsPos (XI p)
  | IsNeg -> IsNeg

  (** val double_mask : mask -> mask **)

  let double_mask = function
  | IsPos p -> IsPos (XO p)
  | x0 -> x0

  (** val double_pred_mask : positive -> mask **)

  let double_pred_mask = function
  | XI p -> IsPos (XO (XO p))
  | XO p -> IsPos (XO (pred_double p))
  | XH -> IsNul

  (** val sub_mask : positive -> positive -> mask **)

  let rec sub_mask x y =
    match x with
    | XI p ->
      (match y with
       | XI q -> double_mask (sub_mask p q)
       | XO q -> succ_double_mask (sub_mask p q)
       | XH -> IsPos (XO p))
    | XO p ->
      (match y with
       | XI q -> succ_double_mask (sub_mask_carry p q)
       | XO q -> double_mask (sub_mask p q)
       | XH -> IsPos (pred_double p))
    | XH -> (match y with
             | XH -> IsNul
             | _ -> IsNeg)

  (** val sub_mask_carry : positive -> positive -> mask **)

  and sub_mask_carry x y =
    match x with
    | XI p ->
      (match y with
       | XI q -> succ_double_mask (sub_mask_carry p q)
       | XO q -> double_mask (sub_mask p q)
       | XH -> IsPos (pred_double p))
    | XO p ->
      (match y with
       | XI q -> double_mask (sub_mask_carry p q)
       | XO q -> succ_double_mask (sub_mask_carry p q)
       | XH -> double_pred_mask p)
    | XH -> IsNeg

  (** val mul : positive -> positive -> positive **)

  let rec mul x y =
    match x with
    | XI p -> add y (XO (mul p y))
    | XO p -> XO (mul p y)
    | XH -> y

  (** val compare_cont : comparison -> positive -> positive -> comparison **)

  let rec compare_cont r x y =
    match x with
    | XI p ->
      (match y with
       | XI q -> compare_cont r p q
       | XO q -> compare_cont Gt p q
       | XH -> Gt)
    | XO p ->
      (match y with
       | XI q -> compare_cont Lt p q
       | XO q -> compare_cont r p q
       | XH -> Gt)
    | XH -> (match y with
             | XH -> r
             | _ -> Lt)

  (** val compare : positive -> positive -> comparison **)

  let compare =
    compare_cont Eq

  (** val eqb : positive -> positive -> bool **)

  let rec eqb p q =
    match p with
    | XI p0 -> (match q with
                | XI q0 -> eqb p0 q0
                | _ -> false)
    | XO p0 -> (match q with
                | XO q0 -> eqb p0 q0
                | _ -> false)
    | XH -> (match q with
             | XH -> true
             | _ -> false)

  (** val of_succ_nat : nat -> positive **)

  let rec of_succ_nat = function
  | O -> XH
  | S x -> succ (of_succ_nat x)
 end

module N =
 struct
  (** val succ_double : n -> n **)

  let succ_double = function
  | N0 -> Npos XH
  | Npos p -> Npos (XI p)

  (** val double : n -> n **)

  let double = function
  | N0 -> N0
  | Npos p -> Npos (XO p)

  (** val sub : n -> n -> n **)

  let sub n0 m =
    match n0 with
    | N0 -> N0
    | Npos n' ->
      (match m with
       | N0 -> n0
       | Npos m' ->
         (match Coq_Pos.sub_mask n' m' with
          | Coq_Pos.IsPos p -> Npos p
          | _ -> N0))

  (** val compare : n -> n -> comparison **)

  let compare n0 m =
    match n0 with
    | N0 -> (match m with
             | N0 -> Eq
             | Npos _ -> Lt)
    | Npos n' -> (match m with
                  | N0 -> Gt
                  | Npos m' -> Coq_Pos.compare n' m')

  (** val leb : n -> n -> bool **)

  let leb x y =
    match compare x y with
    | Gt -> false
    | _ -> true

  (** val pos_div_eucl : positive -> n -> n * n **)

  let rec pos_div_eucl a b =
    match a with
    | XI a' ->
      let (q, r) = pos_div_eucl a' b in
      let r' = succ_double r in
      if leb b r' then ((succ_double q), (sub r' b)) else ((double q), r')
    | XO a' ->
      let (q, r) = pos_div_eucl a' b in
      let r' = double r in
      if leb b r' then ((succ_double q), (sub r' b)) else ((double q), r')
    | XH ->
      (match b with
       | N0 -> (N0, (Npos XH))
       | Npos p -> (match p with
                    | XH -> ((Npos XH), N0)
                    | _ -> (N0, (Npos XH))))
 end

module Z =
 struct
  (** val double : z -> z **)

  let double = function
  | Z0 -> Z0
  | Zpos p -> Zpos (XO p)
  | Zneg p -> Zneg (XO p)

  (** val succ_double : z -> z **)

  let succ_double = function
  | Z0 -> Zpos XH
  | Zpos p -> Zpos (XI p)
  | Zneg p -> Zneg (Coq_Pos.pred_double p)

  (** val pred_double : z -> z **)

  let pred_double = function
  | Z0 -> Zneg XH
  | Zpos p -> Zpos (Coq_Pos.pred_double p)
  | Zneg p -> Zneg (XI p)

  (** val pos_sub : positive -> positive -> z **)

  let rec pos_sub x y =
    match x with
    | XI p ->
      (match y with
       | XI q -> double (pos_sub p q)
       | XO q -> succ_double (pos_sub p q)
       | XH -> Zpos (XO p))
    | XO p ->
      (match y with
       | XI q -> pred_double (pos_sub p q)
       | XO q -> double (pos_sub p q)
       | XH -> Zpos (Coq_Pos.pred_double p))
    | XH ->
      (match y with
       | XI q -> Zneg (XO q)
       | XO q -> Zneg (Coq_Pos.pred_double q)
       | XH -> Z0)

  (** val add : z -> z -> z **)

  let add x y =
    match x with
    | Z0 -> y
    | Zpos x' ->
      (match y with
       | Z0 -> x
       | Zpos y' -> Zpos (Coq_Pos.add x' y')
       | Zneg y' -> pos_sub x' y')
    | Zneg x' ->
      (match y with
       | Z0 -> x
       | Zpos y' -> pos_sub y' x'
       | Zneg y' -> Zneg (Coq_Pos.add x' y'))

  (** val opp : z -> z **)

  let opp = function
  | Z0 -> Z0
  | Zpos x0 -> Zneg x0
  | Zneg x0 -> Zpos x0

  (** val sub : z -> z -> z **)

  let sub m n0 =
    add m (opp n0)

  (** val mul : z -> z -> z **)

  let mul x y =
    match x with
    | Z0 -> Z0
    | Zpos x' ->
      (match y with
       | Z0 -> Z0
       | Zpos y' -> Zpos (Coq_Pos.mul x' y')
       | Zneg y' -> Zneg (Coq_Pos.mul x' y'))
    | Zneg x' ->
      (match y with
       | Z0 -> Z0
       | Zpos y' -> Zneg (Coq_Pos.mul x' y')
       | Zneg y' -> Zpos (Coq_Pos.mul x' y'))

  (** val compare : z -> z -> comparison **)

  let compare x y =
    match x with
    | Z0 -> (match y with
             | Z0 -> Eq
             | Zpos _ -> Lt
             | Zneg _ -> Gt)
    | Zpos x' -> (match y with
                  | Zpos y' -> Coq_Pos.compare x' y'
                  | _ -> Gt)
    | Zneg x' ->
      (match y with
       | Zneg y' -> compOpp (Coq_Pos.compare x' y')
       | _ -> Lt)

  (** val leb : z -> z -> bool **)

  let leb x y =
    match compare x y with
    | Gt -> false
    | _ -> true

  (** val ltb : z -> z -> bool **)

  let ltb x y =
    match compare x y with
    | Lt -> true
    | _ -> false

  (** val eqb : z -> z -> bool **)

  let eqb x y =
    match x with
    | Z0 -> (match y with
             | Z0 -> true
             | _ -> false)
    | Zpos p -> (match y with
                 | Zpos q -> Coq_Pos.eqb p q
                 | _ -> false)
    | Zneg p -> (match y with
                 | Zneg q -> Coq_Pos.eqb p q
                 | _ -> false)

  (** val max : z -> z -> z **)

  let max n0 m =
    match compare n0 m with
    | Lt -> m
    | _ -> n0

  (** val of_nat : nat -> z **)

  let of_nat = function
  | O -> Z0
  | S n1 -> Zpos (Coq_Pos.of_succ_nat n1)

  (** val of_N : n -> z **)

  let of_N = function
  | N0 -> Z0
  | Npos p -> Zpos p

  (** val pos_div_eucl : positive -> z -> z * z **)

  let rec pos_div_eucl a b =
    match a with
    | XI a' ->
      let (q, r) = pos_div_eucl a' b in
      let r' = add (mul (Zpos (XO XH)) r) (Zpos XH) in
      if ltb r' b
      then ((mul (Zpos (XO XH)) q), r')
      else ((add (mul (Zpos (XO XH)) q) (Zpos XH)), (sub r' b))
    | XO a' ->
      let (q, r) = pos_div_eucl a' b in
      let r' = mul (Zpos (XO XH)) r in
      if ltb r' b
      then ((mul (Zpos (XO XH)) q), r')
      else ((add (mul (Zpos (XO XH)) q) (Zpos XH)), (sub r' b))
    | XH -> if leb (Zpos (XO XH)) b then (Z0, (Zpos XH)) else ((Zpos XH), Z0)

  (** val div_eucl : z -> z -> z * z **)

  let div_eucl a b =
    match a with
    | Z0 -> (Z0, Z0)
    | Zpos a' ->
      (match b with
       | Z0 -> (Z0, a)
       | Zpos _ -> pos_div_eucl a' b
       | Zneg b' ->
         let (q, r) = pos_div_eucl a' (Zpos b') in
         (match r with
          | Z0 -> ((opp q), Z0)
          | _ -> ((opp (add q (Zpos XH))), (add b r))))
    | Zneg a' ->
      (match b with
       | Z0 -> (Z0, a)
       | Zpos _ ->
         let (q, r) = pos_div_eucl a' b in
         (match r with
          | Z0 -> ((opp q), Z0)
          | _ -> ((opp (add q (Zpos XH))), (sub b r)))
       | Zneg b' -> let (q, r) = pos_div_eucl a' (Zpos b') in (q, (opp r)))

  (** val div : z -> z -> z **)

  let div a b =
    let (q, _) = div_eucl a b in q

  (** val modulo : z -> z -> z **)

  let modulo a b =
    let (_, r) = div_eucl a b in r

  (** val quotrem : z -> z -> z * z **)

  let quotrem a b =
    match a with
    | Z0 -> (Z0, Z0)
    | Zpos a0 ->
      (match b with
       | Z0 -> (Z0, a)
       | Zpos b0 ->
         let (q, r) = N.pos_div_eucl a0 (Npos b0) in ((of_N q), (of_N r))
       | Zneg b0 ->
         let (q, r) = N.pos_div_eucl a0 (Npos b0) in
         ((opp (of_N q)), (of_N r)))
    | Zneg a0 ->
      (match b with
       | Z0 -> (Z0, a)
       | Zpos b0 ->
         let (q, r) = N.pos_div_eucl a0 (Npos b0) in
         ((opp (of_N q)), (opp (of_N r)))
       | Zneg b0 ->
         let (q, r) = N.pos_div_eucl a0 (Npos b0) in
         ((of_N q), (opp (of_N r))))

  (** val quot : z -> z -> z **)

  let quot a b =
    fst (quotrem a b)

  (** val rem : z -> z -> z **)

  let rem a b =
    snd (quotrem a b)
 end

type 'a res =
| Ok of 'a
| Err of nat
| Panic of nat

(** val mulDiv : z -> z -> z -> z **)

let mulDiv v m d =
  Z.add (Z.mul (Z.quot v d) m) (Z.quot (Z.mul (Z.rem v d) m) d)

(** val second : z **)

let second =
  Zpos (XO (XO (XO (XO (XO (XO (XO (XO (XO (XI (XO (XI (XO (XO (XI (XI (XO
    (XI (XO (XI (XI (XO (XO (XI (XI (XI (XO (XI (XI
    XH)))))))))))))))))))))))))))))

(** val millisecond : z **)

let millisecond =
  Zpos (XO (XO (XO (XO (XO (XO (XI (XO (XO (XI (XO (XO (XO (XO (XI (XO (XI
    (XI (XI XH)))))))))))))))))))

(** val durationToTimestamp : z -> z -> z **)

let durationToTimestamp d rate =
  mulDiv d rate second

(** val timestampToDuration : z -> z -> z **)

let timestampToDuration t rate =
  mulDiv t second rate

(** val fmp4StartDTS : z **)

let fmp4StartDTS =
  Z.mul (Zpos (XO (XI (XO XH)))) second

(** val mpegtsSegmentMinAUCount : z **)

let mpegtsSegmentMinAUCount =
  Zpos (XO (XO (XI (XO (XO (XI XH))))))

(** val u32 : z -> z **)

let u32 x =
  Z.modulo x (Zpos (XO (XO (XO (XO (XO (XO (XO (XO (XO (XO (XO (XO (XO (XO
    (XO (XO (XO (XO (XO (XO (XO (XO (XO (XO (XO (XO (XO (XO (XO (XO (XO (XO
    XH)))))))))))))))))))))))))))))))))

(** val partDurationIsCompatible : z -> z -> bool **)

let partDurationIsCompatible partDuration sampleDuration =
  if Z.ltb partDuration sampleDuration
  then false
  else let f0 = Z.quot partDuration sampleDuration in
       let f1 =
         if Z.eqb (Z.rem partDuration sampleDuration) Z0
         then f0
         else Z.add f0 (Zpos XH)
       in
       let f = Z.mul f1 sampleDuration in
       Z.ltb
         (Z.quot (Z.mul f (Zpos (XI (XO (XI (XO (XI (XO XH)))))))) (Zpos (XO
           (XO (XI (XO (XO (XI XH)))))))) partDuration

(** val compatibleWithAll : z -> z list -> bool **)

let compatibleWithAll pd sds =
  forallb (partDurationIsCompatible pd) sds

(** val findCompat : nat -> z -> z list -> z **)

let rec findCompat fuel i sds =
  match fuel with
  | O -> i
  | S fuel' ->
    if Z.leb (Z.mul (Zpos (XI (XO XH))) second) i
    then i
    else if compatibleWithAll i sds
         then i
         else findCompat fuel'
                (Z.add i (Z.mul (Zpos (XI (XO XH))) millisecond)) sds

(** val findCompatiblePartDuration : z -> z list -> z **)

let findCompatiblePartDuration minPart sds =
  findCompat (S (S (S (S (S (S (S (S (S (S (S (S (S (S (S (S (S (S (S (S (S
    (S (S (S (S (S (S (S (S (S (S (S (S (S (S (S (S (S (S (S (S (S (S (S (S
    (S (S (S (S (S (S (S (S (S (S (S (S (S (S (S (S (S (S (S (S (S (S (S (S
    (S (S (S (S (S (S (S (S (S (S (S (S (S (S (S (S (S (S (S (S (S (S (S (S
    (S (S (S (S (S (S (S (S (S (S (S (S (S (S (S (S (S (S (S (S (S (S (S (S
    (S (S (S (S (S (S (S (S (S (S (S (S (S (S (S (S (S (S (S (S (S (S (S (S
    (S (S (S (S (S (S (S (S (S (S (S (S (S (S (S (S (S (S (S (S (S (S (S (S
    (S (S (S (S (S (S (S (S (S (S (S (S (S (S (S (S (S (S (S (S (S (S (S (S
    (S (S (S (S (S (S (S (S (S (S (S (S (S (S (S (S (S (S (S (S (S (S (S (S
    (S (S (S (S (S (S (S (S (S (S (S (S (S (S (S (S (S (S (S (S (S (S (S (S
    (S (S (S (S (S (S (S (S (S (S (S (S (S (S (S (S (S (S (S (S (S (S (S (S
    (S (S (S (S (S (S (S (S (S (S (S (S (S (S (S (S (S (S (S (S (S (S (S (S
    (S (S (S (S (S (S (S (S (S (S (S (S (S (S (S (S (S (S (S (S (S (S (S (S
    (S (S (S (S (S (S (S (S (S (S (S (S (S (S (S (S (S (S (S (S (S (S (S (S
    (S (S (S (S (S (S (S (S (S (S (S (S (S (S (S (S (S (S (S (S (S (S (S (S
    (S (S (S (S (S (S (S (S (S (S (S (S (S (S (S (S (S (S (S (S (S (S (S (S
    (S (S (S (S (S (S (S (S (S (S (S (S (S (S (S (S (S (S (S (S (S (S (S (S
    (S (S (S (S (S (S (S (S (S (S (S (S (S (S (S (S (S (S (S (S (S (S (S (S
    (S (S (S (S (S (S (S (S (S (S (S (S (S (S (S (S (S (S (S (S (S (S (S (S
    (S (S (S (S (S (S (S (S (S (S (S (S (S (S (S (S (S (S (S (S (S (S (S (S
    (S (S (S (S (S (S (S (S (S (S (S (S (S (S (S (S (S (S (S (S (S (S (S (S
    (S (S (S (S (S (S (S (S (S (S (S (S (S (S (S (S (S (S (S (S (S (S (S (S
    (S (S (S (S (S (S (S (S (S (S (S (S (S (S (S (S (S (S (S (S (S (S (S (S
    (S (S (S (S (S (S (S (S (S (S (S (S (S (S (S (S (S (S (S (S (S (S (S (S
    (S (S (S (S (S (S (S (S (S (S (S (S (S (S (S (S (S (S (S (S (S (S (S (S
    (S (S (S (S (S (S (S (S (S (S (S (S (S (S (S (S (S (S (S (S (S (S (S (S
    (S (S (S (S (S (S (S (S (S (S (S (S (S (S (S (S (S (S (S (S (S (S (S (S
    (S (S (S (S (S (S (S (S (S (S (S (S (S (S (S (S (S (S (S (S (S (S (S (S
    (S (S (S (S (S (S (S (S (S (S (S (S (S (S (S (S (S (S (S (S (S (S (S (S
    (S (S (S (S (S (S (S (S (S (S (S (S (S (S (S (S (S (S (S (S (S (S (S (S
    (S (S (S (S (S (S (S (S (S (S (S (S (S (S (S (S (S (S (S (S (S (S (S (S
    (S (S (S (S (S (S (S (S (S (S (S (S (S (S (S (S (S (S (S (S (S (S (S (S
    (S (S (S (S (S (S (S (S (S (S (S (S (S (S (S (S (S (S (S (S (S (S (S (S
    (S (S (S (S (S (S (S (S (S (S (S (S (S (S (S (S (S (S (S (S (S (S (S (S
    (S (S (S (S (S (S (S (S (S (S (S (S (S (S (S (S (S (S (S (S (S (S (S (S
    (S (S (S (S (S (S (S (S (S (S (S (S (S (S (S (S (S (S (S (S (S (S (S (S
    (S (S (S (S (S (S (S (S (S (S (S (S (S (S (S (S (S (S (S (S (S (S (S (S
    (S (S (S (S (S (S (S (S (S (S (S (S (S (S (S (S (S (S (S (S (S (S (S (S
    (S (S (S (S (S (S (S (S (S (S (S (S (S (S (S (S (S (S (S (S (S (S (S (S
    (S (S (S (S (S (S (S (S (S (S (S (S (S (S (S (S (S (S (S (S (S (S (S (S
    (S (S (S (S (S (S (S (S (S (S (S (S (S (S (S (S (S (S (S (S (S (S (S (S
    (S (S (S (S (S (S (S (S (S (S (S (S (S (S (S (S (S (S (S (S
    O)))))))))))))))))))))))))))))))))))))))))))))))))))))))))))))))))))))))))))))))))))))))))))))))))))))))))))))))))))))))))))))))))))))))))))))))))))))))))))))))))))))))))))))))))))))))))))))))))))))))))))))))))))))))))))))))))))))))))))))))))))))))))))))))))))))))))))))))))))))))))))))))))))))))))))))))))))))))))))))))))))))))))))))))))))))))))))))))))))))))))))))))))))))))))))))))))))))))))))))))))))))))))))))))))))))))))))))))))))))))))))))))))))))))))))))))))))))))))))))))))))))))))))))))))))))))))))))))))))))))))))))))))))))))))))))))))))))))))))))))))))))))))))))))))))))))))))))))))))))))))))))))))))))))))))))))))))))))))))))))))))))))))))))))))))))))))))))))))))))))))))))))))))))))))))))))))))))))))))))))))))))))))))))))))))))))))))))))))))))))))))))))))))))))))))))))))))))))))))))))))))))))))))))))))))))))))))))))))))))))))))))))))))))))))))))))))))))))))))))))))))))))))))))))))))))))))))))))))))))))))))))))))))))))))))))))))))))))))))))))))))))))))))))))))))))))))))))))))))))))))
    minPart sds

(** val roundSeconds : z -> z **)

let roundSeconds d =
  Z.div
    (Z.add d (Zpos (XO (XO (XO (XO (XO (XO (XO (XO (XI (XO (XI (XO (XO (XI
      (XI (XO (XI (XO (XI (XI (XO (XO (XI (XI (XI (XO (XI (XI
      XH)))))))))))))))))))))))))))))) second

(** val ceilMs : z -> z **)

let ceilMs d =
  Z.mul
    (Z.div
      (Z.add d (Zpos (XI (XI (XI (XI (XI (XI (XO (XO (XO (XI (XO (XO (XO (XO
        (XI (XO (XI (XI (XI XH))))))))))))))))))))) millisecond) millisecond

type variant =
| MPEGTS
| FMP4
| LL

type ckind =
| H264
| H265
| VP9
| AV1
| AAC
| OPUS

(** val variant_eqb : variant -> variant -> bool **)

let variant_eqb a b =
  match a with
  | MPEGTS -> (match b with
               | MPEGTS -> true
               | _ -> false)
  | FMP4 -> (match b with
             | FMP4 -> true
             | _ -> false)
  | LL -> (match b with
           | LL -> true
           | _ -> false)

(** val isVideo : ckind -> bool **)

let isVideo = function
| AAC -> false
| OPUS -> false
| _ -> true

type tcfg = { t_kind : ckind; t_rate : z; t_srate : z; t_name : z;
              t_lang : z; t_default : bool; t_params0 : z }

type cfg = { c_variant : variant; c_tracks : tcfg list; c_segcount : 
             z; c_segmin : z; c_partmin : z; c_segmax : z }

type au = { a_pts : z; a_dts : z; a_ntp : z; a_ra : bool; a_nonidr : 
            bool; a_params : z option; a_units : (((z * z) * z) * z) list }

type wop =
| WWrite of nat * au

type sample = { s_dts : z; s_ptsoff : z; s_dur : z; s_nonsync : bool;
                s_ntp : z; s_pay : z; s_size : z }

type part = { p_id : z; p_start : z; p_end : z; p_indep : bool;
              p_hastrack : bool; p_base : z; p_samples : sample list }

type tsunit = { u_track : nat; u_pts : z; u_dts : z; u_ra : bool;
                u_pays : (z * z) list }

type segrec = { sg_gap : bool; sg_id : z; sg_ntp : z; sg_start : z;
                sg_end : z; sg_forced : bool; sg_size : z;
                sg_parts : part list; sg_units : tsunit list; sg_aucount : 
                z }

(** val sg_dur : segrec -> z **)

let sg_dur s =
  Z.sub s.sg_end s.sg_start

(** val p_dur : part -> z **)

let p_dur p =
  Z.sub p.p_end p.p_start

(** val mkgap : z -> segrec **)

let mkgap d =
  { sg_gap = true; sg_id = (Zneg XH); sg_ntp = Z0; sg_start = Z0; sg_end = d;
    sg_forced = false; sg_size = Z0; sg_parts = []; sg_units = [];
    sg_aucount = Z0 }

type pathkey =
| KIndex
| KPlaylist of nat
| KInit of nat
| KSeg of nat * z
| KPart of nat * z

type hkind =
| HStatic
| HPart
| HHint

(** val pathkey_eqb : pathkey -> pathkey -> bool **)

let pathkey_eqb a b =
  match a with
  | KIndex -> (match b with
               | KIndex -> true
               | _ -> false)
  | KPlaylist x -> (match b with
                    | KPlaylist y -> Nat.eqb x y
                    | _ -> false)
  | KInit x -> (match b with
                | KInit y -> Nat.eqb x y
                | _ -> false)
  | KSeg (x, i) ->
    (match b with
     | KSeg (y, j) -> (&&) (Nat.eqb x y) (Z.eqb i j)
     | _ -> false)
  | KPart (x, i) ->
    (match b with
     | KPart (y, j) -> (&&) (Nat.eqb x y) (Z.eqb i j)
     | _ -> false)

type ptable = (pathkey * hkind) list

(** val unregister : ptable -> pathkey -> ptable **)

let rec unregister t k =
  match t with
  | [] -> []
  | p :: t' ->
    let (k', h) = p in
    if pathkey_eqb k k' then unregister t' k else (k', h) :: (unregister t' k)

(** val register : ptable -> pathkey -> hkind -> ptable **)

let register t k h =
  app (unregister t k) ((k, h) :: [])

type trk = { tk_cfg : tcfg; tk_leading : bool; tk_stream : nat;
             tk_firstRA : bool; tk_params : z; tk_next : sample option;
             tk_samples : sample list option; tk_start : z }

type stream = { st_tracks : nat list; st_isvideo : bool; st_num : z;
                st_leading : bool; st_rendition : bool; st_default : 
                bool; st_name : z; st_lang : z; st_nextSeg : z;
                st_nextPart : z; st_segments : segrec list;
                st_open : segrec option; st_openpart : part option;
                st_init : z list option; st_delcount : z; st_target : 
                z; st_parttarget : z; st_evicted : segrec list }

type mstate = { m_cfg : cfg; m_tracks : trk list; m_streams : stream list;
                m_pending : bool; m_sdurs : z list; m_adj : z;
                m_freeze : bool; m_paths : ptable; m_errs : z }

(** val upd : 'a1 list -> nat -> ('a1 -> 'a1) -> 'a1 list **)

let rec upd l i f =
  match l with
  | [] -> []
  | x :: l' -> (match i with
                | O -> (f x) :: l'
                | S i' -> x :: (upd l' i' f))

(** val set_stream : mstate -> stream list -> mstate **)

let set_stream m streams =
  { m_cfg = m.m_cfg; m_tracks = m.m_tracks; m_streams = streams; m_pending =
    m.m_pending; m_sdurs = m.m_sdurs; m_adj = m.m_adj; m_freeze = m.m_freeze;
    m_paths = m.m_paths; m_errs = m.m_errs }

(** val set_tracks : mstate -> trk list -> mstate **)

let set_tracks m tracks =
  { m_cfg = m.m_cfg; m_tracks = tracks; m_streams = m.m_streams; m_pending =
    m.m_pending; m_sdurs = m.m_sdurs; m_adj = m.m_adj; m_freeze = m.m_freeze;
    m_paths = m.m_paths; m_errs = m.m_errs }

(** val set_paths : mstate -> ptable -> mstate **)

let set_paths m p =
  { m_cfg = m.m_cfg; m_tracks = m.m_tracks; m_streams = m.m_streams;
    m_pending = m.m_pending; m_sdurs = m.m_sdurs; m_adj = m.m_adj; m_freeze =
    m.m_freeze; m_paths = p; m_errs = m.m_errs }

(** val set_pending : mstate -> bool -> mstate **)

let set_pending m b =
  { m_cfg = m.m_cfg; m_tracks = m.m_tracks; m_streams = m.m_streams;
    m_pending = b; m_sdurs = m.m_sdurs; m_adj = m.m_adj; m_freeze =
    m.m_freeze; m_paths = m.m_paths; m_errs = m.m_errs }

(** val set_adj : mstate -> z list -> z -> bool -> mstate **)

let set_adj m sdurs adj freeze =
  { m_cfg = m.m_cfg; m_tracks = m.m_tracks; m_streams = m.m_streams;
    m_pending = m.m_pending; m_sdurs = sdurs; m_adj = adj; m_freeze = freeze;
    m_paths = m.m_paths; m_errs = m.m_errs }

(** val add_err : mstate -> mstate **)

let add_err m =
  { m_cfg = m.m_cfg; m_tracks = m.m_tracks; m_streams = m.m_streams;
    m_pending = m.m_pending; m_sdurs = m.m_sdurs; m_adj = m.m_adj; m_freeze =
    m.m_freeze; m_paths = m.m_paths; m_errs = (Z.add m.m_errs (Zpos XH)) }

(** val upd_track : mstate -> nat -> (trk -> trk) -> mstate **)

let upd_track m i f =
  set_tracks m (upd m.m_tracks i f)

(** val upd_stream : mstate -> nat -> (stream -> stream) -> mstate **)

let upd_stream m i f =
  set_stream m (upd m.m_streams i f)

(** val tk_with :
    trk -> bool -> z -> sample option -> sample list option -> z -> trk **)

let tk_with t firstRA params next samples start0 =
  { tk_cfg = t.tk_cfg; tk_leading = t.tk_leading; tk_stream = t.tk_stream;
    tk_firstRA = firstRA; tk_params = params; tk_next = next; tk_samples =
    samples; tk_start = start0 }

type stmut = { x_nextSeg : z; x_nextPart : z; x_segments : segrec list;
               x_open : segrec option; x_openpart : part option;
               x_init : z list option; x_delcount : z; x_target : z;
               x_parttarget : z; x_evicted : segrec list }

(** val st_mut : stream -> stmut **)

let st_mut s =
  { x_nextSeg = s.st_nextSeg; x_nextPart = s.st_nextPart; x_segments =
    s.st_segments; x_open = s.st_open; x_openpart = s.st_openpart; x_init =
    s.st_init; x_delcount = s.st_delcount; x_target = s.st_target;
    x_parttarget = s.st_parttarget; x_evicted = s.st_evicted }

(** val st_with : stream -> stmut -> stream **)

let st_with s x =
  { st_tracks = s.st_tracks; st_isvideo = s.st_isvideo; st_num = s.st_num;
    st_leading = s.st_leading; st_rendition = s.st_rendition; st_default =
    s.st_default; st_name = s.st_name; st_lang = s.st_lang; st_nextSeg =
    x.x_nextSeg; st_nextPart = x.x_nextPart; st_segments = x.x_segments;
    st_open = x.x_open; st_openpart = x.x_openpart; st_init = x.x_init;
    st_delcount = x.x_delcount; st_target = x.x_target; st_parttarget =
    x.x_parttarget; st_evicted = x.x_evicted }

(** val count_video : tcfg list -> nat **)

let count_video ts =
  length (filter (fun t -> isVideo t.t_kind) ts)

(** val count_audio : tcfg list -> nat **)

let count_audio ts =
  length (filter (fun t -> negb (isVideo t.t_kind)) ts)

(** val count_default_audio : tcfg list -> nat **)

let count_default_audio ts =
  length (filter (fun t -> (&&) (negb (isVideo t.t_kind)) t.t_default) ts)

(** val norm_cfg : cfg -> cfg **)

let norm_cfg c =
  { c_variant = c.c_variant; c_tracks = c.c_tracks; c_segcount =
    (if Z.eqb c.c_segcount Z0 then Zpos (XI (XI XH)) else c.c_segcount);
    c_segmin = (if Z.eqb c.c_segmin Z0 then second else c.c_segmin);
    c_partmin =
    (if Z.eqb c.c_partmin Z0
     then Z.mul (Zpos (XO (XO (XO (XI (XO (XO (XI XH)))))))) millisecond
     else c.c_partmin); c_segmax =
    (if Z.eqb c.c_segmax Z0
     then Z.mul
            (Z.mul (Zpos (XO (XI (XO (XO (XI XH)))))) (Zpos (XO (XO (XO (XO
              (XO (XO (XO (XO (XO (XO XH)))))))))))) (Zpos (XO (XO (XO (XO
            (XO (XO (XO (XO (XO (XO XH)))))))))))
     else c.c_segmax) }

(** val start_ok : cfg -> bool **)

let start_ok c =
  (&&)
    ((&&)
      ((&&) (negb (Nat.eqb (length c.c_tracks) O))
        (match c.c_variant with
         | MPEGTS ->
           (&&)
             ((&&) (Nat.leb (count_video c.c_tracks) (S O))
               (Nat.leb (count_audio c.c_tracks) (S O)))
             (forallb (fun t ->
               match t.t_kind with
               | H264 -> true
               | AAC -> true
               | _ -> false) c.c_tracks)
         | _ -> Nat.leb (count_video c.c_tracks) (S O)))
      (Nat.leb (count_default_audio c.c_tracks) (S O)))
    (match c.c_variant with
     | LL -> Z.leb (Zpos (XI (XI XH))) c.c_segcount
     | _ -> Z.leb (Zpos (XI XH)) c.c_segcount)

(** val hasVideo : cfg -> bool **)

let hasVideo c =
  negb (Nat.eqb (count_video c.c_tracks) O)

(** val hasDefaultAudio : cfg -> bool **)

let hasDefaultAudio c =
  negb (Nat.eqb (count_default_audio c.c_tracks) O)

(** val track_leading : cfg -> nat -> tcfg -> bool **)

let track_leading c i t =
  (||) (isVideo t.t_kind) ((&&) (negb (hasVideo c)) (Nat.eqb i O))

(** val mk_stream :
    nat list -> bool -> z -> bool -> bool -> bool -> z -> z -> z -> stream **)

let mk_stream tracks isvideo num leading rendition dflt name lang nextSeg =
  { st_tracks = tracks; st_isvideo = isvideo; st_num = num; st_leading =
    leading; st_rendition = rendition; st_default = dflt; st_name = name;
    st_lang = lang; st_nextSeg = nextSeg; st_nextPart = Z0; st_segments = [];
    st_open = None; st_openpart = None; st_init = None; st_delcount = Z0;
    st_target = Z0; st_parttarget = Z0; st_evicted = [] }

(** val mk_streams : cfg -> nat -> tcfg list -> bool -> z -> stream list **)

let rec mk_streams c i ts chosen nextSeg =
  match ts with
  | [] -> []
  | t :: ts' ->
    let leading = track_leading c i t in
    let rendition =
      (||) (negb leading)
        ((&&) (negb (isVideo t.t_kind)) (Nat.ltb (S O) (length c.c_tracks)))
    in
    if rendition
    then if negb (hasDefaultAudio c)
         then let dflt = negb chosen in
              let chosen' = true in
              let name = if rendition then t.t_name else Z0 in
              (mk_stream (i :: []) (isVideo t.t_kind)
                (Z.add (Z.of_nat i) (Zpos XH)) leading rendition dflt name
                t.t_lang nextSeg) :: (mk_streams c (S i) ts' chosen' nextSeg)
         else let dflt = t.t_default in
              let name = if rendition then t.t_name else Z0 in
              (mk_stream (i :: []) (isVideo t.t_kind)
                (Z.add (Z.of_nat i) (Zpos XH)) leading rendition dflt name
                t.t_lang nextSeg) :: (mk_streams c (S i) ts' chosen nextSeg)
    else let dflt = false in
         let name = if rendition then t.t_name else Z0 in
         (mk_stream (i :: []) (isVideo t.t_kind)
           (Z.add (Z.of_nat i) (Zpos XH)) leading rendition dflt name
           t.t_lang nextSeg) :: (mk_streams c (S i) ts' chosen nextSeg)

(** val mk_tracks : cfg -> nat -> tcfg list -> trk list **)

let rec mk_tracks c i = function
| [] -> []
| t :: ts' ->
  { tk_cfg = t; tk_leading = (track_leading c i t); tk_stream =
    (match c.c_variant with
     | MPEGTS -> O
     | _ -> i); tk_firstRA = false; tk_params = t.t_params0; tk_next = None;
    tk_samples = None; tk_start = Z0 } :: (mk_tracks c (S i) ts')

(** val start : cfg -> mstate res **)

let start c0 =
  let c = norm_cfg c0 in
  if negb (start_ok c)
  then Err (S O)
  else let nextSeg = match c.c_variant with
                     | LL -> Zpos (XI (XI XH))
                     | _ -> Z0
       in
       let streams =
         match c.c_variant with
         | MPEGTS ->
           (mk_stream (seq O (length c.c_tracks)) false Z0 true false false
             Z0 Z0 nextSeg) :: []
         | _ -> mk_streams c O c.c_tracks false nextSeg
       in
       Ok { m_cfg = c; m_tracks = (mk_tracks c O c.c_tracks); m_streams =
       streams; m_pending = false; m_sdurs = []; m_adj = Z0; m_freeze =
       false; m_paths = ((KIndex,
       HStatic) :: (map (fun i -> ((KPlaylist i), HStatic))
                     (seq O (length streams)))); m_errs = Z0 }

(** val listed_parts : variant -> segrec -> part list **)

let listed_parts v s =
  match v with
  | LL -> s.sg_parts
  | _ -> []

(** val targetDuration : segrec list -> z **)

let targetDuration segs =
  fold_left (fun acc s -> Z.max acc (roundSeconds (sg_dur s))) segs Z0

(** val partTargetDuration : variant -> segrec list -> part list -> z **)

let partTargetDuration v segs openparts =
  let m1 =
    fold_left (fun acc s ->
      fold_left (fun a p -> Z.max a (p_dur p)) (listed_parts v s) acc) segs Z0
  in
  ceilMs (fold_left (fun a p -> Z.max a (p_dur p)) openparts m1)

(** val new_part : z -> z -> part **)

let new_part id start0 =
  { p_id = id; p_start = start0; p_end = Z0; p_indep = false; p_hastrack =
    false; p_base = Z0; p_samples = [] }

(** val new_seg : z -> z -> z -> bool -> segrec **)

let new_seg id ntp start0 forced =
  { sg_gap = false; sg_id = id; sg_ntp = ntp; sg_start = start0; sg_end = Z0;
    sg_forced = forced; sg_size = Z0; sg_parts = []; sg_units = [];
    sg_aucount = Z0 }

(** val sg_with_parts : segrec -> part list -> segrec **)

let sg_with_parts s parts =
  { sg_gap = s.sg_gap; sg_id = s.sg_id; sg_ntp = s.sg_ntp; sg_start =
    s.sg_start; sg_end = s.sg_end; sg_forced = s.sg_forced; sg_size =
    s.sg_size; sg_parts = parts; sg_units = s.sg_units; sg_aucount =
    s.sg_aucount }

(** val sg_with_end : segrec -> z -> segrec **)

let sg_with_end s e =
  { sg_gap = s.sg_gap; sg_id = s.sg_id; sg_ntp = s.sg_ntp; sg_start =
    s.sg_start; sg_end = e; sg_forced = s.sg_forced; sg_size = s.sg_size;
    sg_parts = s.sg_parts; sg_units = s.sg_units; sg_aucount = s.sg_aucount }

(** val sg_with_size : segrec -> z -> segrec **)

let sg_with_size s sz =
  { sg_gap = s.sg_gap; sg_id = s.sg_id; sg_ntp = s.sg_ntp; sg_start =
    s.sg_start; sg_end = s.sg_end; sg_forced = s.sg_forced; sg_size = sz;
    sg_parts = s.sg_parts; sg_units = s.sg_units; sg_aucount = s.sg_aucount }

(** val stream_createFirst : variant -> stream -> z -> z -> stream **)

let stream_createFirst v s dts ntp =
  let x = st_mut s in
  st_with s { x_nextSeg = x.x_nextSeg; x_nextPart = x.x_nextPart;
    x_segments = x.x_segments; x_open = (Some
    (new_seg x.x_nextSeg ntp dts false)); x_openpart =
    (match v with
     | MPEGTS -> None
     | _ -> Some (new_part x.x_nextPart dts)); x_init = x.x_init;
    x_delcount = x.x_delcount; x_target = x.x_target; x_parttarget =
    x.x_parttarget; x_evicted = x.x_evicted }

(** val createFirstSegment : mstate -> z -> z -> mstate **)

let createFirstSegment m dts ntp =
  set_stream m
    (map (fun s -> stream_createFirst m.m_cfg.c_variant s dts ntp)
      m.m_streams)

(** val part_finalize :
    part -> trk list -> nat list -> z -> part * trk list **)

let part_finalize p tracks stracks endDTS =
  match stracks with
  | [] -> (p, tracks)
  | ti :: _ ->
    (match nth_error tracks ti with
     | Some t ->
       (match t.tk_samples with
        | Some ss ->
          ({ p_id = p.p_id; p_start = p.p_start; p_end = endDTS; p_indep =
            p.p_indep; p_hastrack = true; p_base = t.tk_start; p_samples =
            ss },
            (upd tracks ti (fun t0 ->
              tk_with t0 t0.tk_firstRA t0.tk_params t0.tk_next None
                t0.tk_start)))
        | None ->
          ({ p_id = p.p_id; p_start = p.p_start; p_end = endDTS; p_indep =
            p.p_indep; p_hastrack = false; p_base = Z0; p_samples = [] },
            tracks))
     | None -> (p, tracks))

(** val stream_rotateParts : mstate -> nat -> z -> bool -> mstate **)

let stream_rotateParts m si nextDTS createNew =
  match nth_error m.m_streams si with
  | Some s ->
    let v = m.m_cfg.c_variant in
    let x = st_mut s in
    let nextPartID = Z.add x.x_nextPart (Zpos XH) in
    (match x.x_openpart with
     | Some p0 ->
       (match x.x_open with
        | Some seg ->
          let (p, tracks') = part_finalize p0 m.m_tracks s.st_tracks nextDTS
          in
          let seg' = sg_with_parts seg (app seg.sg_parts (p :: [])) in
          let paths' =
            match v with
            | LL ->
              register (register m.m_paths (KPart (si, p.p_id)) HPart) (KPart
                (si, nextPartID)) HHint
            | _ -> m.m_paths
          in
          let openpart' =
            if createNew then Some (new_part nextPartID nextDTS) else None
          in
          let pt = partTargetDuration v x.x_segments (listed_parts v seg') in
          if s.st_leading
          then if Z.eqb x.x_parttarget Z0
               then let bump = false in
                    let s' =
                      st_with s { x_nextSeg = x.x_nextSeg; x_nextPart =
                        nextPartID; x_segments = x.x_segments; x_open = (Some
                        seg'); x_openpart = openpart'; x_init = x.x_init;
                        x_delcount = x.x_delcount; x_target = x.x_target;
                        x_parttarget = pt; x_evicted = x.x_evicted }
                    in
                    let m1 =
                      set_paths
                        (set_tracks
                          (set_stream m (upd m.m_streams si (fun _ -> s')))
                          tracks') paths'
                    in
                    if bump then add_err m1 else m1
               else if Z.eqb pt x.x_parttarget
                    then let parttarget' = x.x_parttarget in
                         let bump = false in
                         let s' =
                           st_with s { x_nextSeg = x.x_nextSeg; x_nextPart =
                             nextPartID; x_segments = x.x_segments; x_open =
                             (Some seg'); x_openpart = openpart'; x_init =
                             x.x_init; x_delcount = x.x_delcount; x_target =
                             x.x_target; x_parttarget = parttarget';
                             x_evicted = x.x_evicted }
                         in
                         let m1 =
                           set_paths
                             (set_tracks
                               (set_stream m
                                 (upd m.m_streams si (fun _ -> s'))) tracks')
                             paths'
                         in
                         if bump then add_err m1 else m1
                    else let bump = true in
                         let s' =
                           st_with s { x_nextSeg = x.x_nextSeg; x_nextPart =
                             nextPartID; x_segments = x.x_segments; x_open =
                             (Some seg'); x_openpart = openpart'; x_init =
                             x.x_init; x_delcount = x.x_delcount; x_target =
                             x.x_target; x_parttarget = pt; x_evicted =
                             x.x_evicted }
                         in
                         let m1 =
                           set_paths
                             (set_tracks
                               (set_stream m
                                 (upd m.m_streams si (fun _ -> s'))) tracks')
                             paths'
                         in
                         if bump then add_err m1 else m1
          else let parttarget' = x.x_parttarget in
               let bump = false in
               let s' =
                 st_with s { x_nextSeg = x.x_nextSeg; x_nextPart =
                   nextPartID; x_segments = x.x_segments; x_open = (Some
                   seg'); x_openpart = openpart'; x_init = x.x_init;
                   x_delcount = x.x_delcount; x_target = x.x_target;
                   x_parttarget = parttarget'; x_evicted = x.x_evicted }
               in
               let m1 =
                 set_paths
                   (set_tracks
                     (set_stream m (upd m.m_streams si (fun _ -> s')))
                     tracks') paths'
               in
               if bump then add_err m1 else m1
        | None -> m)
     | None -> m)
  | None -> m

(** val unregister_parts : ptable -> nat -> part list -> ptable **)

let unregister_parts t si parts =
  fold_left (fun t0 p -> unregister t0 (KPart (si, p.p_id))) parts t

(** val stream_rotateSegments : mstate -> nat -> z -> z -> bool -> mstate **)

let stream_rotateSegments m0 si nextDTS nextNTP force =
  let v = m0.m_cfg.c_variant in
  let m =
    match v with
    | MPEGTS -> m0
    | _ -> stream_rotateParts m0 si nextDTS false
  in
  (match nth_error m.m_streams si with
   | Some s ->
     let x = st_mut s in
     (match x.x_open with
      | Some seg0 ->
        let nextSegID = Z.add x.x_nextSeg (Zpos XH) in
        let seg = sg_with_end seg0 nextDTS in
        let segs1 =
          app
            (match v with
             | LL ->
               (match x.x_segments with
                | [] ->
                  repeat (mkgap (sg_dur seg)) (S (S (S (S (S (S (S O)))))))
                | s0 :: l0 -> s0 :: l0)
             | _ -> x.x_segments) (seg :: [])
        in
        let paths1 = register m.m_paths (KSeg (si, seg.sg_id)) HStatic in
        let (p, ev2) =
          if Z.ltb m.m_cfg.c_segcount (Z.of_nat (length segs1))
          then (match segs1 with
                | [] -> (((segs1, paths1), x.x_delcount), x.x_evicted)
                | d :: rest ->
                  let p1 = unregister_parts paths1 si (listed_parts v d) in
                  let p2 =
                    if d.sg_gap
                    then p1
                    else unregister p1 (KSeg (si, d.sg_id))
                  in
                  (((rest, p2), (Z.add x.x_delcount (Zpos XH))),
                  (app x.x_evicted (d :: []))))
          else (((segs1, paths1), x.x_delcount), x.x_evicted)
        in
        let (p0, del2) = p in
        let (segs2, paths2) = p0 in
        let regen =
          (&&) (negb (variant_eqb v MPEGTS))
            ((||) (match x.x_init with
                   | Some _ -> false
                   | None -> true) seg.sg_forced)
        in
        let init' =
          if regen
          then Some
                 (map (fun ti ->
                   match nth_error m.m_tracks ti with
                   | Some t -> t.tk_params
                   | None -> Z0) s.st_tracks)
          else x.x_init
        in
        let paths3 =
          if regen then register paths2 (KInit si) HStatic else paths2
        in
        let open' =
          new_seg nextSegID nextNTP nextDTS
            (match v with
             | MPEGTS -> false
             | _ -> force)
        in
        let openpart' =
          match v with
          | MPEGTS -> None
          | _ -> Some (new_part x.x_nextPart nextDTS)
        in
        let td = targetDuration segs2 in
        if s.st_leading
        then if Z.eqb x.x_target Z0
             then let bump = false in
                  let s' =
                    st_with s { x_nextSeg = nextSegID; x_nextPart =
                      x.x_nextPart; x_segments = segs2; x_open = (Some
                      open'); x_openpart = openpart'; x_init = init';
                      x_delcount = del2; x_target = td; x_parttarget =
                      x.x_parttarget; x_evicted = ev2 }
                  in
                  let m1 =
                    set_paths
                      (set_stream m (upd m.m_streams si (fun _ -> s'))) paths3
                  in
                  if bump then add_err m1 else m1
             else if Z.ltb x.x_target td
                  then let bump = true in
                       let s' =
                         st_with s { x_nextSeg = nextSegID; x_nextPart =
                           x.x_nextPart; x_segments = segs2; x_open = (Some
                           open'); x_openpart = openpart'; x_init = init';
                           x_delcount = del2; x_target = td; x_parttarget =
                           x.x_parttarget; x_evicted = ev2 }
                       in
                       let m1 =
                         set_paths
                           (set_stream m (upd m.m_streams si (fun _ -> s')))
                           paths3
                       in
                       if bump then add_err m1 else m1
                  else let target' = x.x_target in
                       let bump = false in
                       let s' =
                         st_with s { x_nextSeg = nextSegID; x_nextPart =
                           x.x_nextPart; x_segments = segs2; x_open = (Some
                           open'); x_openpart = openpart'; x_init = init';
                           x_delcount = del2; x_target = target';
                           x_parttarget = x.x_parttarget; x_evicted = ev2 }
                       in
                       let m1 =
                         set_paths
                           (set_stream m (upd m.m_streams si (fun _ -> s')))
                           paths3
                       in
                       if bump then add_err m1 else m1
        else let target' = x.x_target in
             let bump = false in
             let s' =
               st_with s { x_nextSeg = nextSegID; x_nextPart = x.x_nextPart;
                 x_segments = segs2; x_open = (Some open'); x_openpart =
                 openpart'; x_init = init'; x_delcount = del2; x_target =
                 target'; x_parttarget = x.x_parttarget; x_evicted = ev2 }
             in
             let m1 =
               set_paths (set_stream m (upd m.m_streams si (fun _ -> s')))
                 paths3
             in
             if bump then add_err m1 else m1
      | None -> m)
   | None -> m)

(** val leading_index : mstate -> nat **)

let leading_index m =
  let rec go i = function
  | [] -> O
  | s :: l' -> if s.st_leading then i else go (S i) l'
  in go O m.m_streams

(** val nonleading_indices : mstate -> nat list **)

let nonleading_indices m =
  filter (fun i ->
    match nth_error m.m_streams i with
    | Some s -> negb s.st_leading
    | None -> false) (seq O (length m.m_streams))

(** val leading_stream : mstate -> stream option **)

let leading_stream m =
  nth_error m.m_streams (leading_index m)

(** val rotateParts : mstate -> z -> mstate **)

let rotateParts m nextDTS =
  let li = leading_index m in
  let m1 = stream_rotateParts m li nextDTS true in
  fold_left (fun m0 i ->
    let m' = stream_rotateParts m0 i nextDTS true in
    (match leading_stream m' with
     | Some l ->
       upd_stream m' i (fun s ->
         let x = st_mut s in
         st_with s { x_nextSeg = x.x_nextSeg; x_nextPart = x.x_nextPart;
           x_segments = x.x_segments; x_open = x.x_open; x_openpart =
           x.x_openpart; x_init = x.x_init; x_delcount = x.x_delcount;
           x_target = x.x_target; x_parttarget = l.st_parttarget; x_evicted =
           x.x_evicted })
     | None -> m')) (nonleading_indices m1) m1

(** val rotateSegments : mstate -> z -> z -> bool -> mstate **)

let rotateSegments m nextDTS nextNTP force =
  let li = leading_index m in
  let m1 = stream_rotateSegments m li nextDTS nextNTP force in
  fold_left (fun m0 i ->
    let m' = stream_rotateSegments m0 i nextDTS nextNTP force in
    (match leading_stream m' with
     | Some l ->
       upd_stream m' i (fun s ->
         let x = st_mut s in
         st_with s { x_nextSeg = x.x_nextSeg; x_nextPart = x.x_nextPart;
           x_segments = x.x_segments; x_open = x.x_open; x_openpart =
           x.x_openpart; x_init = x.x_init; x_delcount = x.x_delcount;
           x_target = l.st_target; x_parttarget = l.st_parttarget;
           x_evicted = x.x_evicted })
     | None -> m')) (nonleading_indices m1) m1

(** val fmp4AdjustPartDuration : mstate -> z -> mstate **)

let fmp4AdjustPartDuration m sampleDuration =
  match m.m_cfg.c_variant with
  | LL ->
    if m.m_freeze
    then m
    else if Z.eqb sampleDuration Z0
         then m
         else if existsb (Z.eqb sampleDuration) m.m_sdurs
              then m
              else let sds = sampleDuration :: m.m_sdurs in
                   set_adj m sds
                     (findCompatiblePartDuration m.m_cfg.c_partmin sds)
                     m.m_freeze
  | _ -> m

(** val stream_open_start : stream -> z **)

let stream_open_start s =
  match s.st_open with
  | Some g -> g.sg_start
  | None -> Z0

(** val stream_openpart_start : stream -> z **)

let stream_openpart_start s =
  match s.st_openpart with
  | Some p -> p.p_start
  | None -> Z0

(** val part_writeSample : mstate -> nat -> nat -> sample -> mstate res **)

let part_writeSample m ti si smp =
  match nth_error m.m_streams si with
  | Some s ->
    (match nth_error m.m_tracks ti with
     | Some t ->
       (match s.st_open with
        | Some seg ->
          (match s.st_openpart with
           | Some p ->
             if Z.ltb m.m_cfg.c_segmax (Z.add seg.sg_size smp.s_size)
             then Err (S (S O))
             else let seg' = sg_with_size seg (Z.add seg.sg_size smp.s_size)
                  in
                  let start' =
                    match t.tk_samples with
                    | Some _ -> t.tk_start
                    | None -> smp.s_dts
                  in
                  let indep' =
                    if (&&)
                         ((||) t.tk_leading
                           (Nat.eqb (length s.st_tracks) (S O)))
                         (negb smp.s_nonsync)
                    then true
                    else p.p_indep
                  in
                  let p' = { p_id = p.p_id; p_start = p.p_start; p_end =
                    p.p_end; p_indep = indep'; p_hastrack = p.p_hastrack;
                    p_base = p.p_base; p_samples = p.p_samples }
                  in
                  let samples' = Some
                    (app (match t.tk_samples with
                          | Some l -> l
                          | None -> []) (smp :: []))
                  in
                  let m1 =
                    upd_track m ti (fun t0 ->
                      tk_with t0 t0.tk_firstRA t0.tk_params t0.tk_next
                        samples' start')
                  in
                  Ok
                  (upd_stream m1 si (fun s0 ->
                    let x = st_mut s0 in
                    st_with s0 { x_nextSeg = x.x_nextSeg; x_nextPart =
                      x.x_nextPart; x_segments = x.x_segments; x_open = (Some
                      seg'); x_openpart = (Some p'); x_init = x.x_init;
                      x_delcount = x.x_delcount; x_target = x.x_target;
                      x_parttarget = x.x_parttarget; x_evicted = x.x_evicted }))
           | None -> Ok m)
        | None -> Ok m)
     | None -> Ok m)
  | None -> Ok m

type wres = mstate * unit res

(** val wok : mstate -> wres **)

let wok m =
  (m, (Ok ()))

(** val fmp4WriteSample : mstate -> nat -> bool -> bool -> sample -> wres **)

let fmp4WriteSample m ti ra paramsChanged smp0 =
  match nth_error m.m_tracks ti with
  | Some t ->
    let rate = t.tk_cfg.t_rate in
    let dts = Z.add smp0.s_dts (durationToTimestamp fmp4StartDTS rate) in
    if Z.ltb dts Z0
    then wok m
    else let incoming = { s_dts = dts; s_ptsoff = smp0.s_ptsoff; s_dur = Z0;
           s_nonsync = smp0.s_nonsync; s_ntp = smp0.s_ntp; s_pay =
           smp0.s_pay; s_size = smp0.s_size }
         in
         let m1 =
           upd_track m ti (fun t0 ->
             tk_with t0 t0.tk_firstRA t0.tk_params (Some incoming)
               t0.tk_samples t0.tk_start)
         in
         (match t.tk_next with
          | Some prev ->
            let duration = Z.sub dts prev.s_dts in
            let smp = { s_dts = prev.s_dts; s_ptsoff = prev.s_ptsoff; s_dur =
              (u32 duration); s_nonsync = prev.s_nonsync; s_ntp = prev.s_ntp;
              s_pay = prev.s_pay; s_size = prev.s_size }
            in
            let si = t.tk_stream in
            let opened =
              match nth_error m1.m_streams si with
              | Some s ->
                (match s.st_open with
                 | Some _ -> true
                 | None -> false)
              | None -> false
            in
            if (&&) (negb t.tk_leading) (negb opened)
            then wok m1
            else let m2 =
                   if (&&) t.tk_leading (negb opened)
                   then createFirstSegment m1
                          (timestampToDuration smp.s_dts rate) smp.s_ntp
                   else m1
                 in
                 let m3 =
                   if t.tk_leading
                   then fmp4AdjustPartDuration m2
                          (timestampToDuration duration rate)
                   else m2
                 in
                 (match part_writeSample m3 ti si smp with
                  | Ok m4 ->
                    if negb t.tk_leading
                    then wok m4
                    else (match nth_error m4.m_streams si with
                          | Some s ->
                            let nextD = timestampToDuration dts rate in
                            if (&&) ra
                                 ((||) paramsChanged
                                   (Z.leb m4.m_cfg.c_segmin
                                     (Z.sub nextD (stream_open_start s))))
                            then let m5 =
                                   rotateSegments m4 nextD incoming.s_ntp
                                     paramsChanged
                                 in
                                 wok
                                   (if paramsChanged
                                    then set_adj m5 [] m5.m_adj false
                                    else set_adj m5 m5.m_sdurs m5.m_adj true)
                            else if (&&) (variant_eqb m4.m_cfg.c_variant LL)
                                      (Z.leb m4.m_adj
                                        (Z.sub nextD
                                          (stream_openpart_start s)))
                                 then wok (rotateParts m4 nextD)
                                 else wok m4
                          | None -> wok m4)
                  | Err e -> (m3, (Err e))
                  | Panic p -> (m3, (Panic p)))
          | None -> wok m1)
  | None -> wok m

(** val sg_ts_write : segrec -> tsunit -> z -> z option -> bool -> segrec **)

let sg_ts_write seg u size endDTS incAU =
  { sg_gap = false; sg_id = seg.sg_id; sg_ntp = seg.sg_ntp; sg_start =
    seg.sg_start; sg_end =
    (match endDTS with
     | Some e -> e
     | None -> seg.sg_end); sg_forced = seg.sg_forced; sg_size =
    (Z.add seg.sg_size size); sg_parts = seg.sg_parts; sg_units =
    (app seg.sg_units (u :: [])); sg_aucount =
    (if incAU then Z.add seg.sg_aucount (Zpos XH) else seg.sg_aucount) }

(** val ts_write :
    mstate -> nat -> tsunit -> z -> z option -> bool -> wres **)

let ts_write m si u size endDTS incAU =
  match nth_error m.m_streams si with
  | Some s ->
    (match s.st_open with
     | Some seg ->
       if Z.ltb m.m_cfg.c_segmax (Z.add seg.sg_size size)
       then (m, (Err (S (S O))))
       else wok
              (upd_stream m si (fun s0 ->
                let x = st_mut s0 in
                st_with s0 { x_nextSeg = x.x_nextSeg; x_nextPart =
                  x.x_nextPart; x_segments = x.x_segments; x_open = (Some
                  (sg_ts_write seg u size endDTS incAU)); x_openpart =
                  x.x_openpart; x_init = x.x_init; x_delcount = x.x_delcount;
                  x_target = x.x_target; x_parttarget = x.x_parttarget;
                  x_evicted = x.x_evicted }))
     | None -> wok m)
  | None -> wok m

(** val sum4 : ((((z * z) * z) * z) -> z) -> (((z * z) * z) * z) list -> z **)

let sum4 f l =
  fold_left (fun a x -> Z.add a (f x)) l Z0

(** val u_id : (((z * z) * z) * z) -> z **)

let u_id = function
| (p, _) -> let (p0, _) = p in let (a, _) = p0 in a

(** val u_fsize : (((z * z) * z) * z) -> z **)

let u_fsize = function
| (p, _) -> let (p0, _) = p in let (_, b) = p0 in b

(** val u_tsize : (((z * z) * z) * z) -> z **)

let u_tsize = function
| (p, _) -> let (_, c) = p in c

(** val u_opusdur : (((z * z) * z) * z) -> z **)

let u_opusdur = function
| (_, d) -> d

(** val video_params : mstate -> nat -> trk -> au -> bool -> mstate * bool **)

let video_params m ti t a examine =
  let m1 =
    match a.a_params with
    | Some p ->
      if (&&) examine (negb (Z.eqb p t.tk_params))
      then set_pending
             (upd_track m ti (fun t0 ->
               tk_with t0 t0.tk_firstRA p t0.tk_next t0.tk_samples t0.tk_start))
             true
      else m
    | None -> m
  in
  if (&&) a.a_ra m1.m_pending
  then ((set_pending m1 false), true)
  else (m1, false)

(** val video_sample : au -> sample **)

let video_sample a =
  { s_dts = a.a_dts; s_ptsoff = (Z.sub a.a_pts a.a_dts); s_dur = Z0;
    s_nonsync = (negb a.a_ra); s_ntp = a.a_ntp; s_pay =
    (match a.a_units with
     | [] -> Z0
     | x :: _ -> u_id x); s_size =
    (match a.a_units with
     | [] -> Z0
     | x :: _ -> u_fsize x) }

(** val set_firstRA : mstate -> nat -> mstate **)

let set_firstRA m ti =
  upd_track m ti (fun t ->
    tk_with t true t.tk_params t.tk_next t.tk_samples t.tk_start)

(** val write_video : mstate -> nat -> trk -> au -> wres **)

let write_video m ti t a =
  let k = t.tk_cfg.t_kind in
  let rate = t.tk_cfg.t_rate in
  let examine = match k with
                | H264 -> true
                | H265 -> true
                | _ -> a.a_ra in
  let (m1, paramsChanged0) = video_params m ti t a examine in
  (match k with
   | H264 ->
     if (&&) (negb a.a_ra) (negb a.a_nonidr)
     then wok m1
     else if (&&) (negb t.tk_firstRA) (negb a.a_ra)
          then wok m1
          else let m2 = set_firstRA m1 ti in
               (match m.m_cfg.c_variant with
                | MPEGTS ->
                  let si = t.tk_stream in
                  let d = timestampToDuration a.a_dts rate in
                  let opened =
                    match nth_error m2.m_streams si with
                    | Some s ->
                      (match s.st_open with
                       | Some _ -> true
                       | None -> false)
                    | None -> false
                  in
                  let m3 =
                    if negb opened
                    then createFirstSegment m2 d a.a_ntp
                    else (match nth_error m2.m_streams si with
                          | Some s ->
                            if (&&) a.a_ra
                                 ((||)
                                   (Z.leb m2.m_cfg.c_segmin
                                     (Z.sub d (stream_open_start s)))
                                   paramsChanged0)
                            then rotateSegments m2 d a.a_ntp false
                            else m2
                          | None -> m2)
                  in
                  ts_write m3 si { u_track = ti; u_pts =
                    (mulDiv a.a_pts (Zpos (XO (XO (XO (XO (XI (XO (XO (XI (XI
                      (XI (XI (XI (XI (XO (XI (XO XH))))))))))))))))) rate);
                    u_dts =
                    (mulDiv a.a_dts (Zpos (XO (XO (XO (XO (XI (XO (XO (XI (XI
                      (XI (XI (XI (XI (XO (XI (XO XH))))))))))))))))) rate);
                    u_ra = a.a_ra; u_pays =
                    (map (fun x -> ((u_id x), (u_tsize x))) a.a_units) }
                    (sum4 u_tsize a.a_units) (Some d) false
                | _ ->
                  fmp4WriteSample m2 ti a.a_ra paramsChanged0 (video_sample a))
   | H265 ->
     if (&&) (negb t.tk_firstRA) (negb a.a_ra)
     then wok m1
     else fmp4WriteSample (set_firstRA m1 ti) ti a.a_ra paramsChanged0
            (video_sample a)
   | VP9 ->
     if (&&) (negb t.tk_firstRA) (negb a.a_ra)
     then wok m1
     else fmp4WriteSample (set_firstRA m1 ti) ti a.a_ra paramsChanged0
            (video_sample a)
   | _ -> fmp4WriteSample m1 ti a.a_ra paramsChanged0 (video_sample a))

(** val write_audio_units :
    mstate -> nat -> ckind -> z -> z -> z -> z -> z -> (((z * z) * z) * z)
    list -> wres **)

let rec write_audio_units m ti k rate srate i pts ntp = function
| [] -> wok m
| x :: units' ->
  (match k with
   | OPUS ->
     let (m', r0) =
       fmp4WriteSample m ti true false { s_dts = pts; s_ptsoff = Z0; s_dur =
         Z0; s_nonsync = false; s_ntp = ntp; s_pay = (u_id x); s_size =
         (u_fsize x) }
     in
     (match r0 with
      | Ok _ ->
        (match k with
         | OPUS ->
           write_audio_units m' ti k rate srate (Z.add i (Zpos XH))
             (Z.add pts (u_opusdur x))
             (Z.add ntp
               (timestampToDuration (u_opusdur x) (Zpos (XO (XO (XO (XO (XO
                 (XO (XO (XI (XI (XI (XO (XI (XI (XI (XO XH))))))))))))))))))
             units'
         | _ ->
           write_audio_units m' ti k rate srate (Z.add i (Zpos XH)) pts ntp
             units')
      | x0 -> (m', x0))
   | _ ->
     let upts =
       Z.add pts
         (Z.quot
           (Z.mul
             (Z.mul i (Zpos (XO (XO (XO (XO (XO (XO (XO (XO (XO (XO
               XH)))))))))))) rate) srate)
     in
     let untp =
       Z.add ntp
         (Z.quot
           (Z.mul
             (Z.mul i (Zpos (XO (XO (XO (XO (XO (XO (XO (XO (XO (XO
               XH)))))))))))) second) srate)
     in
     let (m', r0) =
       fmp4WriteSample m ti true false { s_dts = upts; s_ptsoff = Z0; s_dur =
         Z0; s_nonsync = false; s_ntp = untp; s_pay = (u_id x); s_size =
         (u_fsize x) }
     in
     (match r0 with
      | Ok _ ->
        (match k with
         | OPUS ->
           write_audio_units m' ti k rate srate (Z.add i (Zpos XH))
             (Z.add pts (u_opusdur x))
             (Z.add ntp
               (timestampToDuration (u_opusdur x) (Zpos (XO (XO (XO (XO (XO
                 (XO (XO (XI (XI (XI (XO (XI (XI (XI (XO XH))))))))))))))))))
             units'
         | _ ->
           write_audio_units m' ti k rate srate (Z.add i (Zpos XH)) pts ntp
             units')
      | x0 -> (m', x0)))

(** val write_audio : mstate -> nat -> trk -> au -> wres **)

let write_audio m ti t a =
  let rate = t.tk_cfg.t_rate in
  (match m.m_cfg.c_variant with
   | MPEGTS ->
     let si = t.tk_stream in
     let d = timestampToDuration a.a_pts rate in
     (match nth_error m.m_streams si with
      | Some s ->
        let opened = match s.st_open with
                     | Some _ -> true
                     | None -> false in
        if (&&) (negb t.tk_leading) (negb opened)
        then wok m
        else let m1 =
               if t.tk_leading
               then if negb opened
                    then createFirstSegment m d a.a_ntp
                    else (match s.st_open with
                          | Some seg ->
                            if (&&)
                                 (Z.leb mpegtsSegmentMinAUCount
                                   seg.sg_aucount)
                                 (Z.leb m.m_cfg.c_segmin
                                   (Z.sub d seg.sg_start))
                            then rotateSegments m d a.a_ntp false
                            else m
                          | None -> m)
               else m
             in
             ts_write m1 si { u_track = ti; u_pts =
               (mulDiv a.a_pts (Zpos (XO (XO (XO (XO (XI (XO (XO (XI (XI (XI
                 (XI (XI (XI (XO (XI (XO XH))))))))))))))))) rate); u_dts =
               (mulDiv a.a_pts (Zpos (XO (XO (XO (XO (XI (XO (XO (XI (XI (XI
                 (XI (XI (XI (XO (XI (XO XH))))))))))))))))) rate); u_ra =
               true; u_pays =
               (map (fun x -> ((u_id x), (u_tsize x))) a.a_units) }
               (sum4 u_tsize a.a_units)
               (if t.tk_leading then Some d else None) t.tk_leading
      | None -> wok m)
   | _ ->
     write_audio_units m ti t.tk_cfg.t_kind rate t.tk_cfg.t_srate Z0 a.a_pts
       a.a_ntp a.a_units)

(** val mux_write : mstate -> nat -> au -> wres **)

let mux_write m ti a =
  match nth_error m.m_tracks ti with
  | Some t ->
    if isVideo t.tk_cfg.t_kind
    then write_video m ti t a
    else write_audio m ti t a
  | None -> wok m

(** val mux_step : mstate -> wop -> wres **)

let mux_step m = function
| WWrite (ti, a) -> mux_write m ti a

(** val hasContent : variant -> stream -> bool **)

let hasContent v s =
  match v with
  | FMP4 -> Nat.leb (S (S O)) (length s.st_segments)
  | _ -> Nat.leb (S O) (length s.st_segments)

type plpart = { pp_id : z; pp_dur : z; pp_indep : bool }

type plseg = { ps_gap : bool; ps_id : z; ps_dur : z; ps_dt : z option;
               ps_parts : plpart list }

type mediapl = { pl_version : z; pl_msn : z; pl_target : z; pl_ll : bool;
                 pl_parttarget : z; pl_holdback : z; pl_skipuntil : z;
                 pl_map : bool; pl_segs : plseg list;
                 pl_trailing : plpart list; pl_hint : z option }

(** val mkplpart : part -> plpart **)

let mkplpart p =
  { pp_id = p.p_id; pp_dur = (p_dur p); pp_indep = p.p_indep }

(** val gen_segs : variant -> nat -> segrec list -> plseg list **)

let rec gen_segs v n0 segs = match segs with
| [] -> []
| s :: segs' ->
  let last2 = Nat.leb (length segs) (S (S O)) in
  (if s.sg_gap
   then { ps_gap = true; ps_id = (Zneg XH); ps_dur = (sg_dur s); ps_dt =
          None; ps_parts = [] }
   else { ps_gap = false; ps_id = s.sg_id; ps_dur = (sg_dur s); ps_dt =
          (match v with
           | MPEGTS -> Some s.sg_ntp
           | _ -> if last2 then Some s.sg_ntp else None); ps_parts =
          (match v with
           | LL -> if last2 then map mkplpart s.sg_parts else []
           | _ -> []) }) :: (gen_segs v n0 segs')

(** val gen_media_playlist : mstate -> nat -> mediapl option **)

let gen_media_playlist m si =
  match nth_error m.m_streams si with
  | Some s ->
    let v = m.m_cfg.c_variant in
    if negb (hasContent v s)
    then None
    else Some { pl_version =
           (match v with
            | MPEGTS -> Zpos (XI XH)
            | _ -> Zpos (XO (XI (XO XH)))); pl_msn = s.st_delcount;
           pl_target = s.st_target; pl_ll = (variant_eqb v LL);
           pl_parttarget = s.st_parttarget; pl_holdback =
           (Z.quot (Z.mul s.st_parttarget (Zpos (XI (XO (XO (XI XH))))))
             (Zpos (XO (XI (XO XH))))); pl_skipuntil =
           (Z.mul (Z.mul s.st_target (Zpos (XO (XI XH)))) second); pl_map =
           (negb (variant_eqb v MPEGTS)); pl_segs =
           (gen_segs v O s.st_segments); pl_trailing =
           (match v with
            | LL ->
              (match s.st_open with
               | Some g -> map mkplpart g.sg_parts
               | None -> [])
            | _ -> []); pl_hint =
           (match v with
            | LL -> Some s.st_nextPart
            | _ -> None) }
  | None -> None

(** val bandwidth : segrec list -> (z * z) res **)

let bandwidth segs = match segs with
| [] -> Ok (Z0, Z0)
| _ :: _ ->
  let real = filter (fun s -> negb s.sg_gap) segs in
  if existsb (fun s -> Z.eqb (sg_dur s) Z0) real
  then Panic (S O)
  else let mx =
         fold_left (fun a s ->
           Z.max a
             (Z.quot
               (Z.mul (Z.mul (Zpos (XO (XO (XO XH)))) s.sg_size) second)
               (sg_dur s))) real Z0
       in
       let sizes = fold_left (fun a s -> Z.add a s.sg_size) real Z0 in
       let durs = fold_left (fun a s -> Z.add a (sg_dur s)) real Z0 in
       if Z.eqb durs Z0
       then Panic (S O)
       else Ok (mx,
              (Z.quot (Z.mul (Z.mul (Zpos (XO (XO (XO XH)))) sizes) second)
                durs))

type mvrend = { r_isvideo : bool; r_num : z; r_name : z; r_lang : z;
                r_default : bool; r_hasuri : bool }

type multivariant = { mv_version : z; mv_bandwidth : z; mv_avg : z;
                      mv_codecs : (ckind * z) list;
                      mv_video : (ckind * z) option;
                      mv_uri : (bool * z) option; mv_audio : bool;
                      mv_renditions : mvrend list }

(** val ck_eqb : ckind -> ckind -> bool **)

let ck_eqb a b =
  match a with
  | H264 -> (match b with
             | H264 -> true
             | _ -> false)
  | H265 -> (match b with
             | H265 -> true
             | _ -> false)
  | VP9 -> (match b with
            | VP9 -> true
            | _ -> false)
  | AV1 -> (match b with
            | AV1 -> true
            | _ -> false)
  | AAC -> (match b with
            | AAC -> true
            | _ -> false)
  | OPUS -> (match b with
             | OPUS -> true
             | _ -> false)

(** val codec_key : trk -> ckind * z **)

let codec_key t =
  (t.tk_cfg.t_kind,
    (if isVideo t.tk_cfg.t_kind then t.tk_params else t.tk_cfg.t_params0))

(** val ckey_eqb : (ckind * z) -> (ckind * z) -> bool **)

let ckey_eqb a b =
  (&&) (ck_eqb (fst a) (fst b)) (Z.eqb (snd a) (snd b))

(** val all_stream_tracks : mstate -> trk list **)

let all_stream_tracks m =
  flat_map (fun s ->
    flat_map (fun ti ->
      match nth_error m.m_tracks ti with
      | Some t -> t :: []
      | None -> []) s.st_tracks) m.m_streams

(** val dedup_codecs : (ckind * z) list -> trk list -> (ckind * z) list **)

let rec dedup_codecs acc = function
| [] -> acc
| t :: ts' ->
  let k = codec_key t in
  dedup_codecs (if existsb (ckey_eqb k) acc then acc else app acc (k :: []))
    ts'

(** val gen_multivariant : mstate -> multivariant option res **)

let gen_multivariant m =
  match m.m_streams with
  | [] -> Ok None
  | s0 :: _ ->
    if negb (hasContent m.m_cfg.c_variant s0)
    then Ok None
    else (match bandwidth s0.st_segments with
          | Ok a ->
            let (mx, avg) = a in
            let ts = all_stream_tracks m in
            Ok (Some { mv_version =
            (match m.m_cfg.c_variant with
             | MPEGTS -> Zpos (XI XH)
             | _ -> Zpos (XI (XO (XO XH)))); mv_bandwidth = mx; mv_avg = avg;
            mv_codecs = (dedup_codecs [] ts); mv_video =
            (match filter (fun t -> isVideo t.tk_cfg.t_kind) ts with
             | [] -> None
             | t :: _ -> Some (t.tk_cfg.t_kind, t.tk_params)); mv_uri =
            (match filter (fun s -> s.st_leading) m.m_streams with
             | [] -> None
             | s :: _ -> Some (s.st_isvideo, s.st_num)); mv_audio =
            (existsb (fun s -> s.st_rendition) m.m_streams); mv_renditions =
            (map (fun s -> { r_isvideo = s.st_isvideo; r_num = s.st_num;
              r_name = s.st_name; r_lang = s.st_lang; r_default =
              s.st_default; r_hasuri = (negb s.st_leading) })
              (filter (fun s -> s.st_rendition) m.m_streams)) })
          | Err e -> Err e
          | Panic p -> Panic p)

(** val b2z : bool -> z **)

let b2z = function
| true -> Zpos XH
| false -> Z0

(** val zlen : 'a1 list -> z **)

let zlen l =
  Z.of_nat (length l)

(** val kind_code : ckind -> z **)

let kind_code = function
| H264 -> Zpos XH
| H265 -> Zpos (XO XH)
| VP9 -> Zpos (XI XH)
| AV1 -> Zpos (XO (XO XH))
| AAC -> Zpos (XI (XO XH))
| OPUS -> Zpos (XO (XI XH))

(** val res_code : 'a1 res -> z **)

let res_code = function
| Ok _ -> Z0
| Err e -> Z.add (Zpos (XO (XI (XO XH)))) (Z.of_nat e)
| Panic p -> Z.add (Zpos (XO (XO (XI (XO XH))))) (Z.of_nat p)

(** val stream_digest : variant -> stream -> z list **)

let stream_digest v s =
  s.st_nextSeg :: (s.st_nextPart :: (s.st_delcount :: ((zlen s.st_segments) :: (
    (zlen (filter (fun s0 -> s0.sg_gap) s.st_segments)) :: (s.st_target :: (s.st_parttarget :: (
    (b2z (match s.st_init with
          | Some _ -> true
          | None -> false)) :: ((b2z
                                  (match s.st_open with
                                   | Some _ -> true
                                   | None -> false)) :: ((match s.st_open with
                                                          | Some g ->
                                                            zlen
                                                              (listed_parts v
                                                                g)
                                                          | None -> Z0) :: [])))))))))

(** val digest_line : z -> variant -> mstate -> z list **)

let digest_line k v m =
  app ((Zpos (XO
    XH)) :: (k :: ((b2z m.m_pending) :: (m.m_adj :: ((b2z m.m_freeze) :: (
    (zlen m.m_paths) :: [])))))) (flat_map (stream_digest v) m.m_streams)

(** val enc_part : plpart -> z list **)

let enc_part p =
  p.pp_id :: (p.pp_dur :: ((b2z p.pp_indep) :: []))

(** val enc_seg : plseg -> z list **)

let enc_seg s =
  app
    ((b2z s.ps_gap) :: (s.ps_id :: (s.ps_dur :: ((match s.ps_dt with
                                                  | Some _ -> Zpos XH
                                                  | None -> Z0) :: ((
    match s.ps_dt with
    | Some t ->
      Z.div t (Zpos (XO (XO (XO (XO (XO (XO (XI (XO (XO (XI (XO (XO (XO (XO
        (XI (XO (XI (XI (XI XH))))))))))))))))))))
    | None -> Z0) :: ((zlen s.ps_parts) :: []))))))
    (flat_map enc_part s.ps_parts)

(** val playlist_line : z -> nat -> mstate -> z list **)

let playlist_line k si m =
  match gen_media_playlist m si with
  | Some p ->
    app ((Zpos (XI XH)) :: (k :: ((Z.of_nat si) :: ((Zpos
      XH) :: (p.pl_version :: (p.pl_msn :: (p.pl_target :: ((b2z p.pl_ll) :: ((
      if p.pl_ll then p.pl_parttarget else Z0) :: ((if p.pl_ll
                                                    then p.pl_holdback
                                                    else Z0) :: ((if p.pl_ll
                                                                  then 
                                                                    p.pl_skipuntil
                                                                  else Z0) :: (
      (b2z p.pl_map) :: ((zlen p.pl_segs) :: [])))))))))))))
      (app (flat_map enc_seg p.pl_segs)
        (app ((zlen p.pl_trailing) :: [])
          (app (flat_map enc_part p.pl_trailing)
            ((match p.pl_hint with
              | Some h -> h
              | None -> Zneg XH) :: []))))
  | None -> (Zpos (XI XH)) :: (k :: ((Z.of_nat si) :: (Z0 :: [])))

(** val codec_obs : (ckind * z) -> z **)

let codec_obs c =
  if isVideo (fst c)
  then Z.modulo (Z.div (snd c) (Zpos (XO (XO XH)))) (Zpos (XI XH))
  else snd c

(** val multivariant_line : z -> mstate -> z list **)

let multivariant_line k m =
  match gen_multivariant m with
  | Ok a ->
    (match a with
     | Some v ->
       app ((Zpos (XO (XO XH))) :: (k :: (Z0 :: ((Zpos
         XH) :: (v.mv_version :: (Z0 :: (Z0 :: ((zlen v.mv_codecs) :: []))))))))
         (app
           (flat_map (fun c -> (kind_code (fst c)) :: ((codec_obs c) :: []))
             v.mv_codecs)
           (app
             (match v.mv_video with
              | Some c ->
                (Zpos XH) :: ((kind_code (fst c)) :: ((codec_obs c) :: []))
              | None -> Z0 :: (Z0 :: (Z0 :: [])))
             (app
               (match v.mv_uri with
                | Some u -> (b2z (fst u)) :: ((snd u) :: [])
                | None -> (Zneg XH) :: ((Zneg XH) :: []))
               (app ((b2z v.mv_audio) :: ((zlen v.mv_renditions) :: []))
                 (flat_map (fun r ->
                   (b2z r.r_isvideo) :: (r.r_num :: (r.r_name :: (r.r_lang :: (
                   (b2z r.r_default) :: ((b2z r.r_hasuri) :: []))))))
                   v.mv_renditions)))))
     | None -> (Zpos (XO (XO XH))) :: (k :: (Z0 :: (Z0 :: []))))
  | Err e ->
    (Zpos (XO (XO
      XH))) :: (k :: ((Z.add (Zpos (XO (XI (XO XH)))) (Z.of_nat e)) :: []))
  | Panic p ->
    (Zpos (XO (XO
      XH))) :: (k :: ((Z.add (Zpos (XO (XO (XI (XO XH))))) (Z.of_nat p)) :: []))

(** val enc_key : pathkey -> (z * z) * z **)

let enc_key = function
| KIndex -> ((Z0, Z0), Z0)
| KPlaylist s -> (((Zpos XH), (Z.of_nat s)), Z0)
| KInit s -> (((Zpos (XO XH)), (Z.of_nat s)), Z0)
| KSeg (s, i) -> (((Zpos (XI XH)), (Z.of_nat s)), i)
| KPart (s, i) -> (((Zpos (XO (XO XH))), (Z.of_nat s)), i)

(** val key_leb : ((z * z) * z) -> ((z * z) * z) -> bool **)

let key_leb a b =
  let (p, a3) = a in
  let (a1, a2) = p in
  let (p0, b3) = b in
  let (b1, b2) = p0 in
  if Z.ltb a1 b1
  then true
  else if Z.ltb b1 a1
       then false
       else if Z.ltb a2 b2
            then true
            else if Z.ltb b2 a2 then false else Z.leb a3 b3

(** val insert_key :
    ((z * z) * z) -> ((z * z) * z) list -> ((z * z) * z) list **)

let rec insert_key x l = match l with
| [] -> x :: []
| y :: l' -> if key_leb x y then x :: l else y :: (insert_key x l')

(** val sort_keys : ((z * z) * z) list -> ((z * z) * z) list **)

let sort_keys l =
  fold_right insert_key [] l

(** val paths_line : z -> mstate -> z list **)

let paths_line k m =
  app ((Zpos (XI (XO XH))) :: (k :: []))
    (flat_map (fun x ->
      let (y, c) = x in let (a, b) = y in a :: (b :: (c :: [])))
      (sort_keys (map (fun e -> enc_key (fst e)) m.m_paths)))

(** val enc_sample : sample -> z list **)

let enc_sample s =
  s.s_dur :: (s.s_ptsoff :: ((b2z s.s_nonsync) :: (s.s_pay :: (s.s_size :: []))))

(** val parts_between : stream -> z -> z -> part list **)

let parts_between s lo hi =
  filter (fun p -> (&&) (Z.leb lo p.p_id) (Z.ltb p.p_id hi))
    (app (flat_map (fun s0 -> s0.sg_parts) s.st_segments)
      (match s.st_open with
       | Some g -> g.sg_parts
       | None -> []))

(** val part_lines : z -> nat -> stream -> stream -> z list list **)

let part_lines k si s0 s =
  map (fun p ->
    app ((Zpos (XO (XI
      XH))) :: (k :: ((Z.of_nat si) :: ((u32 p.p_id) :: ((b2z p.p_hastrack) :: (p.p_base :: (
      (zlen p.p_samples) :: []))))))) (flat_map enc_sample p.p_samples))
    (parts_between s s0.st_nextPart s.st_nextPart)

(** val enc_unit : tsunit -> z list **)

let enc_unit u =
  app
    ((Z.of_nat u.u_track) :: ((Z.modulo u.u_pts (Zpos (XO (XO (XO (XO (XO (XO
                                (XO (XO (XO (XO (XO (XO (XO (XO (XO (XO (XO
                                (XO (XO (XO (XO (XO (XO (XO (XO (XO (XO (XO
                                (XO (XO (XO (XO (XO
                                XH))))))))))))))))))))))))))))))))))) :: (
    (Z.modulo u.u_dts (Zpos (XO (XO (XO (XO (XO (XO (XO (XO (XO (XO (XO (XO
      (XO (XO (XO (XO (XO (XO (XO (XO (XO (XO (XO (XO (XO (XO (XO (XO (XO (XO
      (XO (XO (XO XH))))))))))))))))))))))))))))))))))) :: ((b2z u.u_ra) :: (
    (zlen u.u_pays) :: [])))))
    (flat_map (fun p -> (fst p) :: ((snd p) :: [])) u.u_pays)

(** val tsseg_line : z -> nat -> stream -> z list list **)

let tsseg_line k si s =
  match rev s.st_segments with
  | [] -> []
  | g :: _ ->
    let grouped =
      flat_map (fun ti -> filter (fun u -> Nat.eqb u.u_track ti) g.sg_units)
        (seq O (length s.st_tracks))
    in
    (app ((Zpos (XI (XI
      XH))) :: (k :: ((Z.of_nat si) :: (g.sg_id :: ((zlen g.sg_units) :: [])))))
      (flat_map enc_unit grouped)) :: []

(** val counters : mstate -> (z * z) list **)

let counters m =
  map (fun s -> (s.st_nextSeg, s.st_nextPart)) m.m_streams

(** val counters_eqb : (z * z) list -> (z * z) list -> bool **)

let rec counters_eqb a b =
  match a with
  | [] -> (match b with
           | [] -> true
           | _ :: _ -> false)
  | p :: a' ->
    let (x1, y1) = p in
    (match b with
     | [] -> false
     | p0 :: b' ->
       let (x2, y2) = p0 in
       (&&) ((&&) (Z.eqb x1 x2) (Z.eqb y1 y2)) (counters_eqb a' b'))

(** val segcounters_changed : mstate -> mstate -> bool **)

let segcounters_changed a b =
  negb
    (counters_eqb (map (fun s -> (s.st_nextSeg, Z0)) a.m_streams)
      (map (fun s -> (s.st_nextSeg, Z0)) b.m_streams))

(** val enum_from : nat -> 'a1 list -> (nat * 'a1) list **)

let rec enum_from i = function
| [] -> []
| x :: l' -> (i, x) :: (enum_from (S i) l')

(** val rotation_lines : z -> mstate -> mstate -> z list list **)

let rotation_lines k m0 m =
  let v = m.m_cfg.c_variant in
  let streams = enum_from O m.m_streams in
  app (map (fun e -> playlist_line k (fst e) m) streams)
    (app ((multivariant_line k m) :: ((paths_line k m) :: []))
      (match v with
       | MPEGTS ->
         if segcounters_changed m0 m
         then flat_map (fun e -> tsseg_line k (fst e) (snd e)) streams
         else []
       | _ ->
         flat_map (fun e ->
           match nth_error m0.m_streams (fst e) with
           | Some s0 -> part_lines k (fst e) s0 (snd e)
           | None -> []) streams))

(** val trace_from : z -> mstate -> wop list -> z list list **)

let rec trace_from k m = function
| [] -> []
| o :: ops' ->
  let (m', r) = mux_step m o in
  ((Zpos
  XH) :: (k :: ((res_code r) :: []))) :: ((digest_line k m'.m_cfg.c_variant
                                            m') :: (app
                                                     (if counters_eqb
                                                           (counters m)
                                                           (counters m')
                                                      then []
                                                      else rotation_lines k m
                                                             m')
                                                     (trace_from
                                                       (Z.add k (Zpos XH)) m'
                                                       ops')))

(** val trace : cfg -> wop list -> z list list **)

let trace c ops =
  match start c with
  | Ok m ->
    (app (Z0 :: (Z0 :: []))
      (flat_map (fun s ->
        (b2z s.st_isvideo) :: (s.st_num :: ((b2z s.st_leading) :: ((b2z
                                                                    s.st_rendition) :: (
        (b2z s.st_default) :: (s.st_name :: (s.st_lang :: [])))))))
        m.m_streams)) :: (trace_from Z0 m ops)
  | Err e ->
    (Z0 :: ((Z.add (Zpos (XO (XI (XO XH)))) (Z.of_nat e)) :: [])) :: []
  | Panic p ->
    (Z0 :: ((Z.add (Zpos (XO (XO (XI (XO XH))))) (Z.of_nat p)) :: [])) :: []
