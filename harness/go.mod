module verifharness

go 1.21.0

require (
	github.com/bluenviron/gohlslib/v2 v2.0.0
	github.com/bluenviron/mediacommon/v2 v2.1.0
	github.com/asticode/go-astits v1.13.0
)

replace github.com/bluenviron/gohlslib/v2 => /repo
