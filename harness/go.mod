module verifharness

go 1.21.0

require (
	github.com/asticode/go-astits v1.13.0
	github.com/bluenviron/gohlslib/v2 v2.0.0
	github.com/bluenviron/mediacommon/v2 v2.1.0
)

require (
	github.com/abema/go-mp4 v1.4.1 // indirect
	github.com/asticode/go-astikit v0.30.0 // indirect
	github.com/google/uuid v1.3.0 // indirect
)

replace github.com/bluenviron/gohlslib/v2 => /repo
