// Command storage drives pkg/storage (RAM and disk backends) with generated op
// sequences, checks every observation against a trivial byte-slice oracle (S leg) and
// writes the op lists + observations as Coq cases for the model comparison (T leg).
package main

import (
	"bytes"
	"crypto/sha256"
	"encoding/hex"
	"encoding/json"
	"flag"
	"fmt"
	"io"
	"os"
	"path/filepath"
	"strings"

	"github.com/bluenviron/gohlslib/v2/pkg/storage"

	"verifharness/internal/coqfmt"
	"verifharness/internal/rng"
)

// ---- abstract ops (mirror of Model/Storage.v sop) ----

type op struct {
	K      string `json:"k"` // NewPart Write Seek Finalize Remove Snap Open ReadH Size
	Bytes  []byte `json:"bytes,omitempty"`
	Whence int    `json:"whence,omitempty"` // 0 start, 1 current
	Off    int64  `json:"off,omitempty"`
	P      int    `json:"p,omitempty"`    // Snap / Open part index; ReadH handle
	File   bool   `json:"file,omitempty"` // Open target is the file
	N      int    `json:"n,omitempty"`    // ReadH buffer size
}

type obs struct {
	K     string `json:"k"` // None Ok Err Bytes Num
	Bytes []byte `json:"bytes,omitempty"`
	Num   int64  `json:"num,omitempty"`
}

func (o obs) eq(p obs) bool {
	return o.K == p.K && o.Num == p.Num && string(o.Bytes) == string(p.Bytes)
}

func (o op) coq() string {
	switch o.K {
	case "NewPart", "Finalize", "Remove", "Size":
		return o.K
	case "Write":
		return "Write " + coqfmt.Bytes(o.Bytes)
	case "Seek":
		w := "SeekStart"
		if o.Whence == 1 {
			w = "SeekCurrent"
		}
		return "Seek " + w + " " + coqfmt.Z(o.Off)
	case "Snap":
		return "Snap " + coqfmt.Nat(o.P)
	case "Open":
		if o.File {
			return "Open TFile"
		}
		return "Open (TPart " + coqfmt.Nat(o.P) + ")"
	case "ReadH":
		return "ReadH " + coqfmt.Nat(o.P) + " " + coqfmt.Nat(o.N)
	}
	panic("bad op")
}

func (o obs) coq() string {
	switch o.K {
	case "None":
		return "ONone"
	case "Ok":
		return "OOk"
	case "Err":
		return "OErr"
	case "Bytes":
		return "OBytes " + coqfmt.Bytes(o.Bytes)
	case "Num":
		return "ONum " + coqfmt.Z(o.Num)
	case "Panic":
		// the backend panicked: an observation no model step produces (sizes are never negative)
		return "ONum (-1)"
	}
	panic("bad obs")
}

// ---- running the real backends ----

// openFDs counts the process's open file descriptors (-1 where /proc is not available)
func openFDs() int {
	ents, err := os.ReadDir("/proc/self/fd")
	if err != nil {
		return -1
	}
	return len(ents)
}

// neighbour is activity on ANOTHER file of the same factory between two operations of the file under test
// (files are independent: nothing the file under test returns may depend on it): parts are allocated, written,
// finalized, read back and removed, with bytes (0xEE..) that occur in no generated sequence.
func neighbour(fa storage.Factory, name string) {
	defer func() { recover() }()
	nf, err := fa.NewFile(name)
	if err != nil {
		return
	}
	for k := 0; k < 7; k++ {
		p := nf.NewPart()
		w := p.Writer()
		if k < 6 {
			// small writes: a recycled buffer would be overwritten in place, not reallocated
			for j := 0; j < 6; j++ {
				w.Write(bytes.Repeat([]byte{0xEE - byte(k)}, 1+j))
			}
		} else {
			w.Write(bytes.Repeat([]byte{0xE0}, 700))
		}
	}
	nf.Finalize()
	if r, err := nf.Reader(); err == nil {
		io.Copy(io.Discard, r)
		r.Close()
	}
	nf.Remove()
}

func runImpl(f storage.File, ops []op, noise func(i int)) (out []obs) {
	var parts []storage.Part
	var writer io.WriteSeeker
	var handles []io.ReadCloser
	defer func() {
		for _, h := range handles {
			if h != nil {
				h.Close()
			}
		}
	}()
	for i, o := range ops {
		i, o := i, o
		panicked := false
		func() {
			defer func() {
				if rec := recover(); rec != nil {
					panicked = true
				}
			}()
			switch o.K {
			case "NewPart":
				p := f.NewPart()
				parts = append(parts, p)
				writer = p.Writer() // one writer per part, as the muxer does
				out = append(out, obs{K: "None"})
			case "Write":
				n, err := writer.Write(o.Bytes)
				if err != nil || n != len(o.Bytes) {
					out = append(out, obs{K: "Err"})
				} else {
					out = append(out, obs{K: "Ok"})
				}
			case "Seek":
				wh := io.SeekStart
				if o.Whence == 1 {
					wh = io.SeekCurrent
				}
				pos, err := writer.Seek(o.Off, wh)
				if err != nil {
					out = append(out, obs{K: "Err"})
				} else {
					out = append(out, obs{K: "Num", Num: pos})
				}
			case "Finalize":
				f.Finalize()
				out = append(out, obs{K: "None"})
			case "Remove":
				f.Remove()
				out = append(out, obs{K: "None"})
			case "Snap":
				r, err := parts[o.P].Reader()
				if err != nil {
					out = append(out, obs{K: "Err"})
					break
				}
				b, err := io.ReadAll(r)
				r.Close()
				if err != nil {
					out = append(out, obs{K: "Err"})
				} else {
					out = append(out, obs{K: "Bytes", Bytes: b})
				}
			case "Open":
				var r io.ReadCloser
				var err error
				if o.File {
					r, err = f.Reader()
				} else {
					r, err = parts[o.P].Reader()
				}
				if err != nil {
					handles = append(handles, nil)
					out = append(out, obs{K: "Err"})
				} else {
					handles = append(handles, r)
					out = append(out, obs{K: "Ok"})
				}
			case "ReadH":
				h := handles[o.P]
				if h == nil {
					out = append(out, obs{K: "None"})
					break
				}
				buf := make([]byte, o.N)
				n, _ := h.Read(buf)
				out = append(out, obs{K: "Bytes", Bytes: append([]byte{}, buf[:n]...)})
			case "Size":
				out = append(out, obs{K: "Num", Num: int64(f.Size())})
			}
		}()
		if noise != nil && !panicked {
			noise(i)
		}
		if panicked {
			// the op that panicked and everything after it is reported as Panic
			out = out[:i]
			for len(out) < len(ops) {
				out = append(out, obs{K: "Panic"})
			}
			return out
		}
	}
	return out
}

// ---- S leg: the property's own oracle, a trivial byte-slice model ----
// A part's content is the bytes written at the positions they were written to; a seek
// past the end makes the skipped range read as zeros (what both backends' Seek reports as
// the new position). The file is the parts in order. Nothing here is shared with Coq.

func oracle(ops []op) (out []obs) {
	var parts [][]byte
	pos := int64(0)
	final := false
	var handles []*[]byte
	for _, o := range ops {
		switch o.K {
		case "NewPart":
			parts = append(parts, []byte{})
			pos = 0
			out = append(out, obs{K: "None"})
		case "Write":
			cur := parts[len(parts)-1]
			for i, b := range o.Bytes {
				at := int(pos) + i
				for len(cur) <= at {
					cur = append(cur, 0)
				}
				cur[at] = b
			}
			parts[len(parts)-1] = cur
			pos += int64(len(o.Bytes))
			out = append(out, obs{K: "Ok"})
		case "Seek":
			np := o.Off
			if o.Whence == 1 {
				np = pos + o.Off
			}
			if np < 0 {
				out = append(out, obs{K: "Err"})
				break
			}
			pos = np
			cur := parts[len(parts)-1]
			for int64(len(cur)) < pos {
				cur = append(cur, 0)
			}
			parts[len(parts)-1] = cur
			out = append(out, obs{K: "Num", Num: pos})
		case "Finalize":
			final = true
			out = append(out, obs{K: "None"})
		case "Remove":
			out = append(out, obs{K: "None"})
		case "Snap":
			out = append(out, obs{K: "Bytes", Bytes: append([]byte{}, parts[o.P]...)})
		case "Open":
			if o.File {
				if !final {
					handles = append(handles, nil)
					out = append(out, obs{K: "Err"})
					break
				}
				var all []byte
				for _, p := range parts {
					all = append(all, p...)
				}
				handles = append(handles, &all)
			} else {
				c := append([]byte{}, parts[o.P]...)
				handles = append(handles, &c)
			}
			out = append(out, obs{K: "Ok"})
		case "ReadH":
			h := handles[o.P]
			if h == nil {
				out = append(out, obs{K: "None"})
				break
			}
			n := o.N
			if n > len(*h) {
				n = len(*h)
			}
			out = append(out, obs{K: "Bytes", Bytes: append([]byte{}, (*h)[:n]...)})
			rest := (*h)[n:]
			*h = rest
		case "Size":
			if final {
				t := 0
				for _, p := range parts {
					t += len(p)
				}
				out = append(out, obs{K: "Num", Num: int64(t)})
			} else {
				out = append(out, obs{K: "Num", Num: 0})
			}
		}
	}
	return out
}

// ---- generator ----

func genOps(r *rng.R, big bool) []op {
	var ops []op
	nparts := 0
	final := false
	removed := false
	nhandles := 0
	pos := int64(0)
	curLen := int64(0)
	maxW := 48
	reads := func() {
		// a few reader operations permitted by wf at this point
		k := r.Intn(4)
		for i := 0; i < k; i++ {
			switch r.Pick(3, 3, 2, 4, 1) {
			case 0:
				if nparts > 0 && !removed {
					ops = append(ops, op{K: "Snap", P: r.Intn(nparts)})
				}
			case 1:
				if !removed {
					lim := nparts - 1
					if final {
						lim = nparts
					}
					if lim > 0 {
						ops = append(ops, op{K: "Open", P: r.Intn(lim)})
						nhandles++
					}
				}
			case 2:
				if !removed {
					ops = append(ops, op{K: "Open", File: true})
					nhandles++
				}
			case 3:
				if nhandles > 0 {
					sizes := []int{0, 1, 2, 3, 5, 8, 16, 64, 1000, 65536}
					ops = append(ops, op{K: "ReadH", P: r.Intn(nhandles), N: sizes[r.Intn(len(sizes))]})
				}
			case 4:
				ops = append(ops, op{K: "Size"})
			}
		}
	}
	np := r.Intn(6)
	for p := 0; p < np; p++ {
		ops = append(ops, op{K: "NewPart"})
		nparts++
		pos, curLen = 0, 0
		na := r.Intn(7)
		for a := 0; a < na; a++ {
			switch r.Pick(5, 2, 2, 1) {
			case 0:
				n := r.Intn(maxW)
				if r.Bool(1, 12) {
					n = 0
				}
				if big && r.Bool(1, 25) {
					n = 1000 + r.Intn(65536)
				}
				ops = append(ops, op{K: "Write", Bytes: r.Bytes(n)})
				pos += int64(n)
				if pos > curLen {
					curLen = pos
				}
			case 1:
				off := r.Range(-2, curLen+6)
				ops = append(ops, op{K: "Seek", Whence: 0, Off: off})
				if off >= 0 {
					pos = off
					if pos > curLen {
						curLen = pos
					}
				}
			case 2:
				off := r.Range(-pos-2, 9)
				if r.Bool(1, 2) {
					off = r.Range(-pos, 0) // rewrite earlier bytes
				}
				ops = append(ops, op{K: "Seek", Whence: 1, Off: off})
				if pos+off >= 0 {
					pos += off
					if pos > curLen {
						curLen = pos
					}
				}
			case 3:
				reads()
			}
		}
		reads()
	}
	if r.Bool(5, 6) {
		ops = append(ops, op{K: "Finalize"})
		final = true
		reads()
		reads()
		if r.Bool(1, 2) && nparts > 1 {
			// drain the finalized file through one handle in small equal chunks, so that reads end
			// exactly on inner part boundaries
			ops = append(ops, op{K: "Open", File: true})
			nhandles++
			n := 1 + r.Intn(4)
			k := 10 + r.Intn(40)
			for i := 0; i < k; i++ {
				ops = append(ops, op{K: "ReadH", P: nhandles - 1, N: n})
			}
		}
		if r.Bool(1, 2) {
			ops = append(ops, op{K: "Remove"})
			removed = true
			reads()
		}
	}
	return ops
}

// ---- classification for signatures and distribution ----

func lastWriterActionIsSeekPastEnd(ops []op, upto int) bool {
	// did the last part, at the time of op[upto], end with a seek beyond what was written?
	written := int64(0)
	pos := int64(0)
	for i := 0; i < upto && i < len(ops); i++ {
		switch ops[i].K {
		case "NewPart":
			written, pos = 0, 0
		case "Write":
			pos += int64(len(ops[i].Bytes))
			if len(ops[i].Bytes) > 0 && pos > written {
				written = pos
			}
		case "Seek":
			np := ops[i].Off
			if ops[i].Whence == 1 {
				np += pos
			}
			if np >= 0 {
				pos = np
			}
		}
	}
	return pos > written
}

type failure struct {
	Signature string          `json:"signature"`
	What      string          `json:"what"`
	Input     json.RawMessage `json:"input"`
}

type caseRec struct {
	ID    int    `json:"id"`
	Shard int    `json:"shard"`
	Index int    `json:"index"`
	Ops   []op   `json:"ops"`
	Hash  string `json:"hash"`
}

func nontrivial(ops []op) bool {
	// at least two parts, a rewrite (seek to before the end followed by a write), and a
	// read after Finalize
	parts, rewrites, finalReads := 0, 0, 0
	final := false
	pos, ln := int64(0), int64(0)
	for _, o := range ops {
		switch o.K {
		case "NewPart":
			parts++
			pos, ln = 0, 0
		case "Write":
			if len(o.Bytes) > 0 && pos < ln {
				rewrites++
			}
			pos += int64(len(o.Bytes))
			if pos > ln {
				ln = pos
			}
		case "Seek":
			np := o.Off
			if o.Whence == 1 {
				np += pos
			}
			if np >= 0 {
				pos = np
				if pos > ln {
					ln = pos
				}
			}
		case "Finalize":
			final = true
		case "Snap", "ReadH":
			if final {
				finalReads++
			}
		}
	}
	return parts >= 2 && rewrites >= 1 && finalReads >= 1
}

func main() {
	seed := flag.Uint64("seed", 0, "seed")
	tier := flag.String("tier", "quick", "quick|thorough")
	out := flag.String("out", "", "output directory")
	replay := flag.String("replay", "", "replay file (JSON with .input.ops)")
	n := flag.Int("n", 0, "number of cases (0 = tier default)")
	flag.Parse()
	if *out == "" {
		fmt.Fprintln(os.Stderr, "need -out")
		os.Exit(2)
	}
	os.MkdirAll(*out, 0o755)
	diskDir := filepath.Join(*out, "disk")
	os.RemoveAll(diskDir)
	os.MkdirAll(diskDir, 0o755)

	count := *n
	if count == 0 {
		count = 1200
		if *tier == "thorough" {
			count = 12000
		}
	}
	shardSize := 300

	var inputs [][]op
	// corpus / boundary cases first
	inputs = append(inputs,
		[]op{{K: "NewPart"}, {K: "Write", Bytes: []byte{1, 2, 3, 4}}, {K: "Seek", Whence: 0, Off: 10}, {K: "Finalize"},
			{K: "Size"}, {K: "Snap", P: 0}, {K: "Open", File: true}, {K: "ReadH", P: 0, N: 100}},
		[]op{{K: "NewPart"}, {K: "Seek", Whence: 0, Off: 5}, {K: "NewPart"}, {K: "Finalize"}, {K: "Snap", P: 0},
			{K: "Open", File: true}, {K: "ReadH", P: 0, N: 3}, {K: "ReadH", P: 0, N: 3}, {K: "Size"}},
		[]op{{K: "Finalize"}, {K: "Size"}, {K: "Open", File: true}, {K: "ReadH", P: 0, N: 1}, {K: "Remove"}},
		[]op{{K: "NewPart"}, {K: "Write", Bytes: []byte{1, 2, 3}}, {K: "Seek", Whence: 1, Off: -3}, {K: "Write", Bytes: []byte{9}},
			{K: "NewPart"}, {K: "Write", Bytes: []byte{4}}, {K: "Open", P: 0}, {K: "Finalize"}, {K: "Remove"},
			{K: "ReadH", P: 0, N: 2}, {K: "ReadH", P: 0, N: 2}},
	)
	if *replay != "" {
		raw, err := os.ReadFile(*replay)
		if err != nil {
			panic(err)
		}
		var rp struct {
			Input struct {
				Ops []op `json:"ops"`
			} `json:"input"`
		}
		if err := json.Unmarshal(raw, &rp); err != nil {
			panic(err)
		}
		inputs = [][]op{rp.Input.Ops}
		count = 0
	}
	for i := 0; i < count; i++ {
		r := rng.New(*seed, uint64(i))
		inputs = append(inputs, genOps(r, *tier == "thorough" && i%7 == 0))
	}

	var failures []failure
	var cases []caseRec
	seen := map[string]bool{}
	distinctNontrivial := 0
	dist := map[string]int{}
	var shard *os.File
	shardIdx, inShard := -1, 0
	closeShard := func() {
		if shard != nil {
			fmt.Fprintln(shard, "].")
			fmt.Fprintln(shard, "Definition M := Eval vm_compute in mismatches cases.")
			fmt.Fprintln(shard, "Print M.")
			shard.Close()
			shard = nil
		}
	}
	var samples []json.RawMessage

	// the first file operations of a process make the runtime open descriptors of its own (poller): they must not
	// count as descriptors of the first file under test
	neighbour(storage.NewFactoryDisk(diskDir), "warmup.bin")
	for id, ops := range inputs {
		rf := storage.NewFactoryRAM()
		fr, _ := rf.NewFile("x")
		// every third sequence runs next to a busy neighbour file of the same factory
		var ramNoise, diskNoise func(i int)
		if id%3 == 1 {
			ramNoise = func(i int) {
				if (i+id)%4 != 0 {
					neighbour(rf, fmt.Sprintf("n%d_%d", id, i))
				}
			}
		}
		ramObs := runImpl(fr, ops, ramNoise)

		fname := fmt.Sprintf("f%d.bin", id)
		df := storage.NewFactoryDisk(diskDir)
		if id%4 == 2 {
			// a file of that name is already there (a name used again, or left behind by an earlier muxer on the
			// directory): NewFile starts from an empty file all the same
			old := make([]byte, 1<<16)
			for k := range old {
				old[k] = byte(0xA5 ^ k)
			}
			if err := os.WriteFile(filepath.Join(diskDir, fname), old, 0o644); err != nil {
				panic(err)
			}
			dist["disk-name-reused"]++
		}
		fdsBefore := openFDs()
		fd, err := df.NewFile(fname)
		if err != nil {
			panic(err)
		}
		if id%3 == 1 {
			diskNoise = func(i int) {
				if (i+id)%4 != 0 {
					neighbour(df, fmt.Sprintf("n%d_%d.bin", id, i))
				}
			}
		}
		diskObs := runImpl(fd, ops, diskNoise)
		fileBytes, ferr := os.ReadFile(filepath.Join(diskDir, fname))
		hasFinalize := false
		for _, o := range ops {
			if o.K == "Finalize" {
				hasFinalize = true
			}
		}
		if !hasFinalize {
			fd.Finalize() // close the descriptor
			fileBytes, ferr = nil, fmt.Errorf("unfinalized: file content not compared")
		}
		os.Remove(filepath.Join(diskDir, fname))
		// every reader has been closed and the file finalized (or removed): no descriptor of it may be left
		fdsAfter := openFDs()

		want := oracle(ops)
		inputJSON, _ := json.Marshal(map[string]interface{}{"ops": ops})
		if fdsBefore >= 0 && fdsAfter > fdsBefore {
			failures = append(failures, failure{
				Signature: "C17:disk:descriptor-left-open",
				What: fmt.Sprintf("disk backend: %d file descriptors open before the file was created, %d after every reader was closed and the file finalized / removed",
					fdsBefore, fdsAfter),
				Input: inputJSON,
			})
		}
		removed := false
		for i, o := range ops {
			if o.K == "Remove" {
				removed = true
			}
			sigTail := o.K
			if lastWriterActionIsSeekPastEnd(ops, i) {
				sigTail += ":part-ends-with-seek-past-written-extent"
			}
			if !ramObs[i].eq(want[i]) {
				failures = append(failures, failure{
					Signature: "C17:ram:" + sigTail,
					What: fmt.Sprintf("RAM backend: op %d (%s) observed %s, the bytes written require %s",
						i, o.coq(), ramObs[i].coq(), want[i].coq()),
					Input: inputJSON,
				})
				break
			}
			if !diskObs[i].eq(want[i]) {
				failures = append(failures, failure{
					Signature: "C17:disk:" + sigTail,
					What: fmt.Sprintf("disk backend: op %d (%s) observed %s, the bytes written (and the RAM backend) give %s",
						i, o.coq(), diskObs[i].coq(), want[i].coq()),
					Input: inputJSON,
				})
				break
			}
		}
		if hasFinalize {
			// file content on disk = concatenation of the parts; absent after Remove
			var all []byte
			{
				var parts [][]byte
				o2 := oracle(append(append([]op{}, ops...), func() []op {
					var s []op
					np := 0
					for _, o := range ops {
						if o.K == "NewPart" {
							np++
						}
					}
					for p := 0; p < np; p++ {
						s = append(s, op{K: "Snap", P: p})
					}
					return s
				}()...))
				for _, ob := range o2[len(ops):] {
					parts = append(parts, ob.Bytes)
				}
				for _, p := range parts {
					all = append(all, p...)
				}
			}
			if removed {
				if ferr == nil {
					failures = append(failures, failure{Signature: "C17:disk:Remove:file-still-exists",
						What: "Remove did not delete the disk file", Input: inputJSON})
				}
			} else if ferr != nil || string(fileBytes) != string(all) {
				sig := "C17:disk:file-bytes"
				if lastWriterActionIsSeekPastEnd(ops, len(ops)) {
					sig += ":part-ends-with-seek-past-written-extent"
				}
				failures = append(failures, failure{Signature: sig,
					What: fmt.Sprintf("finalized disk file holds %d bytes, the parts' bytes concatenated are %d bytes (Size reports the latter)",
						len(fileBytes), len(all)), Input: inputJSON})
			}
		}

		// Coq case
		if shard == nil || inShard >= shardSize {
			closeShard()
			shardIdx++
			inShard = 0
			shard, err = os.Create(filepath.Join(*out, fmt.Sprintf("cases_%d.v", shardIdx)))
			if err != nil {
				panic(err)
			}
			fmt.Fprintln(shard, "From Coq Require Import List ZArith.")
			fmt.Fprintln(shard, "From GoHls Require Import Model.Storage Tie.StorageTie.")
			fmt.Fprintln(shard, "Import ListNotations. Open Scope Z_scope.")
			fmt.Fprintln(shard, "Definition cases : list scase := [")
		}
		if inShard > 0 {
			fmt.Fprintln(shard, ";")
		}
		var so, sr, sd []string
		for _, o := range ops {
			so = append(so, o.coq())
		}
		for _, o := range ramObs {
			sr = append(sr, o.coq())
		}
		for _, o := range diskObs {
			sd = append(sd, o.coq())
		}
		sf := "None"
		if ferr == nil {
			sf = "Some " + coqfmt.Bytes(fileBytes)
		} else if !hasFinalize {
			// not compared: give the model's own answer no chance to differ
			sf = "(let d := fst (run disk_step disk_init " + coqfmt.List(so) + ") in if f_exists d then Some (f_bytes d) else None)"
		}
		fmt.Fprintf(shard, "{| sc_ops := %s;\n   sc_ram := %s;\n   sc_disk := %s;\n   sc_file := %s |}",
			coqfmt.List(so), coqfmt.List(sr), coqfmt.List(sd), sf)
		h := sha256.Sum256(inputJSON)
		hs := hex.EncodeToString(h[:8])
		cases = append(cases, caseRec{ID: id, Shard: shardIdx, Index: inShard, Ops: ops, Hash: hs})
		inShard++

		if !seen[hs] {
			seen[hs] = true
			if nontrivial(ops) {
				distinctNontrivial++
				if len(samples) < 3 {
					samples = append(samples, inputJSON)
				}
			}
		}
		for _, o := range ops {
			dist["op:"+o.K]++
			if o.K == "Write" {
				switch {
				case len(o.Bytes) == 0:
					dist["write:empty"]++
				case len(o.Bytes) >= 1000:
					dist["write:>=1000B"]++
				default:
					dist["write:small"]++
				}
			}
		}
		dist[fmt.Sprintf("ops_per_case:%d0-%d9", len(ops)/10, len(ops)/10)]++
		for i := range ramObs {
			if ramObs[i].K == "Err" {
				dist["obs:error"]++
			}
		}
	}
	closeShard()
	os.RemoveAll(diskDir)

	if len(samples) == 0 && len(inputs) > 0 {
		j, _ := json.Marshal(map[string]interface{}{"ops": inputs[0]})
		samples = append(samples, j)
	}
	res := map[string]interface{}{
		"evaluations":         len(inputs),
		"distinct_nontrivial": distinctNontrivial,
		"rule": "op sequences from splitmix64(seed, case index): 0-5 parts, 0-6 writer actions per part (Write 0-48 B, occasionally large; " +
			"Seek from start / from current incl. negative targets and rewrites), reader ops wherever allowed, Finalize 5/6, Remove 1/2; " +
			"distinct by SHA-256 of the op list; non-trivial = >=2 parts AND >=1 overwrite of earlier bytes AND >=1 read after Finalize",
		"samples":                       samples,
		"distribution":                  dist,
		"oracle_failures":               failures,
		"cases":                         cases,
		"shards":                        shardIdx + 1,
		"traces_validated_against_impl": len(inputs) * 2,
	}
	j, _ := json.MarshalIndent(res, "", " ")
	os.WriteFile(filepath.Join(*out, "result.json"), j, 0o644)
	fmt.Printf("storage harness: %d cases, %d distinct non-trivial, %d oracle failures, %d shards\n",
		len(inputs), distinctNontrivial, len(failures), shardIdx+1)
	_ = strings.Join
}
