package main

import (
	"fmt"
	"strings"
)

// A tiny independent reader of the three tags C19 is about. It shares nothing with
// pkg/playlist. Durations are kept as integers: 10 us units for the 5-decimal texts.

type plView struct {
	PartTargetNS int64     `json:"pt"`   // EXT-X-PART-INF PART-TARGET in ns (-1 if absent)
	Segs         [][]int64 `json:"segs"` // EXT-X-PART durations (10 us units) of each listed complete segment that lists parts
	Next         []int64   `json:"next"` // trailing EXT-X-PART durations (segment in progress)
	PartURIs     []string  `json:"-"`
}

// parseDec5 parses a decimal with at most 5 fractional digits into 10^-5 units.
func parseDec5(s string) (int64, error) {
	s = strings.TrimSpace(s)
	if s == "" {
		return 0, fmt.Errorf("empty number")
	}
	ip, fp := s, ""
	if i := strings.IndexByte(s, '.'); i >= 0 {
		ip, fp = s[:i], s[i+1:]
	}
	if len(fp) > 5 {
		return 0, fmt.Errorf("more than 5 decimals: %q", s)
	}
	for len(fp) < 5 {
		fp += "0"
	}
	var v int64
	for _, c := range ip + fp {
		if c < '0' || c > '9' {
			return 0, fmt.Errorf("bad number %q", s)
		}
		v = v*10 + int64(c-'0')
	}
	return v, nil
}

func attr(line, key string) (string, bool) {
	// attributes are comma separated, values may be quoted
	i := 0
	for i < len(line) {
		j := strings.IndexByte(line[i:], '=')
		if j < 0 {
			return "", false
		}
		k := line[i : i+j]
		i += j + 1
		var v string
		if i < len(line) && line[i] == '"' {
			e := strings.IndexByte(line[i+1:], '"')
			if e < 0 {
				return "", false
			}
			v = line[i+1 : i+1+e]
			i += e + 2
		} else {
			e := strings.IndexByte(line[i:], ',')
			if e < 0 {
				e = len(line) - i
			}
			v = line[i : i+e]
			i += e
		}
		if i < len(line) && line[i] == ',' {
			i++
		}
		if k == key {
			return v, true
		}
	}
	return "", false
}

func parsePlaylist(body string) (*plView, error) {
	v := &plView{PartTargetNS: -1}
	var cur []int64
	hadParts := false
	for _, line := range strings.Split(body, "\n") {
		line = strings.TrimRight(line, "\r")
		switch {
		case strings.HasPrefix(line, "#EXT-X-PART-INF:"):
			s, ok := attr(line[len("#EXT-X-PART-INF:"):], "PART-TARGET")
			if !ok {
				return nil, fmt.Errorf("PART-INF without PART-TARGET")
			}
			d, err := parseDec5(s)
			if err != nil {
				return nil, err
			}
			v.PartTargetNS = d * 10000
		case strings.HasPrefix(line, "#EXT-X-PART:"):
			s, ok := attr(line[len("#EXT-X-PART:"):], "DURATION")
			if !ok {
				return nil, fmt.Errorf("PART without DURATION")
			}
			d, err := parseDec5(s)
			if err != nil {
				return nil, err
			}
			cur = append(cur, d)
			hadParts = true
			if u, ok := attr(line[len("#EXT-X-PART:"):], "URI"); ok {
				v.PartURIs = append(v.PartURIs, u)
			}
		case strings.HasPrefix(line, "#EXTINF:"):
			if hadParts {
				v.Segs = append(v.Segs, cur)
			}
			cur = nil
			hadParts = false
		}
	}
	v.Next = cur
	return v, nil
}
