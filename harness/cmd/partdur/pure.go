package main

import (
	"fmt"
	"math/big"
	"time"

	gohlslib "github.com/bluenviron/gohlslib/v2"

	"verifharness/internal/coqfmt"
	"verifharness/internal/rng"
)

// Direct comparison of the pure functions through the Verif* exports.
// A case is skipped (not emitted) when an intermediate product of multiplyAndDivide does not
// fit int64: the model is over unbounded Z (assumption "no int64 overflow").

var stdRates = []int64{90000, 48000, 96000, 88200, 64000, 44100, 32000, 24000, 22050, 16000, 12000, 11025, 8000, 7350}

type pureCase struct {
	Fn   string  `json:"fn"`
	Args []int64 `json:"args"`
	Sds  []int64 `json:"sds,omitempty"`
	// result
	Panicked bool  `json:"panicked,omitempty"`
	Res      int64 `json:"res"`
	ResBool  bool  `json:"resb,omitempty"`
}

func fits(v, m, d int64) bool {
	if d == 0 {
		return true
	}
	bv, bm, bd := big.NewInt(v), big.NewInt(m), big.NewInt(d)
	q, r := new(big.Int).QuoRem(bv, bd, new(big.Int))
	a := new(big.Int).Mul(q, bm)
	b := new(big.Int).Mul(r, bm)
	c := new(big.Int).Quo(b, bd)
	s := new(big.Int).Add(a, c)
	return a.IsInt64() && b.IsInt64() && s.IsInt64()
}

func callPanics(f func()) (p bool) {
	defer func() {
		if r := recover(); r != nil {
			p = true
		}
	}()
	f()
	return false
}

func (c *pureCase) eval() {
	switch c.Fn {
	case "muldiv":
		c.Panicked = callPanics(func() { c.Res = gohlslib.VerifMultiplyAndDivide(c.Args[0], c.Args[1], c.Args[2]) })
	case "tsd":
		c.Panicked = callPanics(func() { c.Res = int64(gohlslib.VerifTimestampToDuration(c.Args[0], int(c.Args[1]))) })
	case "d2t":
		c.Panicked = callPanics(func() { c.Res = gohlslib.VerifDurationToTimestamp(time.Duration(c.Args[0]), int(c.Args[1])) })
	case "compat":
		c.Panicked = callPanics(func() {
			c.ResBool = gohlslib.VerifPartDurationIsCompatible(time.Duration(c.Args[0]), time.Duration(c.Args[1]))
		})
	case "find":
		sds := make([]time.Duration, len(c.Sds))
		for i, d := range c.Sds {
			sds[i] = time.Duration(d)
		}
		c.Panicked = callPanics(func() {
			c.Res = int64(gohlslib.VerifFindCompatiblePartDuration(time.Duration(c.Args[0]), sds))
		})
	}
}

func optZ(p bool, v int64) string {
	if p {
		return "None"
	}
	return "(Some " + coqfmt.Z(v) + ")"
}

func (c *pureCase) coq() string {
	switch c.Fn {
	case "muldiv":
		return fmt.Sprintf("CMulDiv %s %s %s %s", coqfmt.Z(c.Args[0]), coqfmt.Z(c.Args[1]), coqfmt.Z(c.Args[2]), optZ(c.Panicked, c.Res))
	case "tsd":
		return fmt.Sprintf("CTsd %s %s %s", coqfmt.Z(c.Args[0]), coqfmt.Z(c.Args[1]), optZ(c.Panicked, c.Res))
	case "d2t":
		return fmt.Sprintf("CD2T %s %s %s", coqfmt.Z(c.Args[0]), coqfmt.Z(c.Args[1]), optZ(c.Panicked, c.Res))
	case "compat":
		r := "None"
		if !c.Panicked {
			r = "(Some " + coqfmt.Bool(c.ResBool) + ")"
		}
		return fmt.Sprintf("CCompat %s %s %s", coqfmt.Z(c.Args[0]), coqfmt.Z(c.Args[1]), r)
	case "find":
		var s []string
		for _, d := range c.Sds {
			s = append(s, coqfmt.Z(d))
		}
		return fmt.Sprintf("CFind %s %s %s", coqfmt.Z(c.Args[0]), coqfmt.List(s), optZ(c.Panicked, c.Res))
	}
	panic("bad fn")
}

func pickRate(r *rng.R) int64 {
	switch r.Pick(6, 3, 1) {
	case 0:
		return stdRates[r.Intn(len(stdRates))]
	case 1:
		return r.Range(1, 1000000)
	default:
		return []int64{1, 2, 999999, 1000000, 1000001, 27000000, 1000, 0, -90000}[r.Intn(9)]
	}
}

// a realistic sample duration in ns for a random (rate, ticks) pair
func pickSampleDur(r *rng.R) int64 {
	switch r.Pick(4, 3, 2, 1) {
	case 0: // video
		fps := r.Range(1, 120)
		t := 90000 / fps
		if r.Bool(1, 3) {
			t++
		}
		return t * 1000000000 / 90000
	case 1: // aac
		rate := stdRates[1+r.Intn(len(stdRates)-1)]
		return 1024 * 1000000000 / rate
	case 2: // opus
		return []int64{120, 240, 480, 960, 1920, 2880}[r.Intn(6)] * 1000000000 / 48000
	default:
		return r.Range(1, 2000000000)
	}
}

func genPure(r *rng.R) *pureCase {
	switch r.Pick(3, 3, 2, 4, 3) {
	case 0:
		c := &pureCase{Fn: "muldiv"}
		for {
			v := r.Range(-(1 << 44), 1<<44)
			if r.Bool(1, 8) {
				v = []int64{0, 1, -1, 1<<44 - 1, 10000000000, 999999999, -999999999}[r.Intn(7)]
			}
			m := r.Range(-(1 << 31), 1<<31)
			if r.Bool(1, 3) {
				m = []int64{0, 1, 1000000000, 90000, 48000, -1}[r.Intn(6)]
			}
			d := r.Range(-(1 << 31), 1<<31)
			if r.Bool(1, 3) {
				d = []int64{1, -1, 1000000000, 90000, 44100, 0, 7350}[r.Intn(7)]
			}
			if fits(v, m, d) {
				c.Args = []int64{v, m, d}
				return c
			}
		}
	case 1:
		c := &pureCase{Fn: "tsd"}
		for {
			t := r.Range(-1000000000000, 10000000000000)
			switch r.Pick(3, 1, 1) {
			case 1:
				t = r.Range(-5, 5)
			case 2:
				t = r.Range(0, 10000000)
			}
			rate := pickRate(r)
			if fits(t, 1000000000, rate) {
				c.Args = []int64{t, rate}
				return c
			}
		}
	case 2:
		c := &pureCase{Fn: "d2t"}
		for {
			d := r.Range(-1000000000000, 10000000000000)
			if r.Bool(1, 4) {
				d = []int64{10000000000, 0, 1, -1, 999999999, 1000000000, 1000000001}[r.Intn(7)]
			}
			rate := pickRate(r)
			if fits(d, rate, 1000000000) {
				c.Args = []int64{d, rate}
				return c
			}
		}
	case 3:
		c := &pureCase{Fn: "compat"}
		sd := pickSampleDur(r)
		var p int64
		switch r.Pick(4, 3, 2, 1, 1) {
		case 0: // near a multiple of sd
			p = sd*r.Range(0, 12) + r.Range(-3, 3)
		case 1: // on the 85 % boundary of the next multiple
			k := r.Range(1, 12)
			p = k*sd*85/100 + r.Range(-2, 2)
		case 2:
			p = r.Range(0, 6000000000)
		case 3:
			p = r.Range(-1000000, 1000000)
		default:
			p = r.Range(50, 2000) * 1000000
		}
		if r.Bool(1, 40) {
			sd = 0
		}
		if r.Bool(1, 40) {
			sd = -sd
		}
		c.Args = []int64{p, sd}
		return c
	default:
		c := &pureCase{Fn: "find"}
		n := 1 + r.Pick(6, 2, 1)
		for i := 0; i < n; i++ {
			c.Sds = append(c.Sds, pickSampleDur(r))
		}
		var pm int64
		switch r.Pick(5, 3, 2, 1, 1) {
		case 0:
			pm = r.Range(50, 2000) * 1000000
		case 1: // one more than a floor of a sample multiple (off the ms grid)
			pm = c.Sds[0]*r.Range(1, 40) + r.Range(0, 2)
		case 2:
			pm = r.Range(0, 5200000000)
		case 3:
			pm = []int64{0, 1, 4999999999, 5000000000, 5000000001, 4995000000, 4995000001, 200000000}[r.Intn(8)]
		default:
			pm = r.Range(-50000000, 50000000)
		}
		c.Args = []int64{pm}
		return c
	}
}
