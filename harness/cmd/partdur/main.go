// Command partdur ties Model/PartDur.v to the real code (property C19):
//
//	(a) the pure functions multiplyAndDivide, timestampToDuration, durationToTimestamp,
//	    partDurationIsCompatible, findCompatiblePartDuration through the Verif* exports on
//	    random and boundary arguments (T leg);
//	(b) the real Muxer in the Low-Latency variant driven with a leading track (H264, AV1,
//	    AAC, Opus) of constant - and, for the T leg only, varying - sample duration, random
//	    key-frame placement, parameter changes, PartMinDuration, SegmentMinDuration,
//	    SegmentCount and first dts; after every write the media playlist is fetched through
//	    Muxer.Handle and parsed with this command's own reader. The property oracle (S leg)
//	    is written from the property text over EXT-X-PART / EXT-X-PART-INF / OnEncodeError;
//	    the exact part durations, sample counts (decoded from the served part files), part
//	    target trace etc. go to Coq cases (T leg).
package main

import (
	"crypto/sha256"
	"encoding/hex"
	"encoding/json"
	"flag"
	"fmt"
	"os"
	"path/filepath"
	"sort"
	"strings"

	"verifharness/internal/coqfmt"
	"verifharness/internal/rng"
)

// ---------------------------------------------------------------- generator

type rateChoice struct {
	kind string
	rate int64
	t    int64
	alt  []int64 // non-constant pattern (T leg only)
	name string
}

func pickTrack(r *rng.R) rateChoice {
	switch r.Pick(9, 4, 3, 2) {
	case 0: // video at 90 kHz
		kind := "h264"
		if r.Bool(1, 4) {
			kind = "av1"
		}
		switch r.Pick(5, 4, 3, 1) {
		case 0: // common integer rates
			fps := []int64{24, 25, 30, 50, 60, 15, 10, 12, 5, 120, 100, 20, 48, 90}[r.Intn(14)]
			return rateChoice{kind: kind, rate: 90000, t: 90000 / fps, name: fmt.Sprintf("%dfps", fps)}
		case 1: // any integer rate 1..120; when 90000/fps is not an integer use floor or ceil
			fps := r.Range(1, 120)
			t := 90000 / fps
			if 90000%fps != 0 && r.Bool(1, 2) {
				t++
			}
			return rateChoice{kind: kind, rate: 90000, t: t, name: fmt.Sprintf("%dfps", fps)}
		case 2: // 1001-based
			num := []int64{24000, 30000, 60000, 120000, 15000, 48000}[r.Intn(6)]
			t := 90000 * 1001 / num
			if (90000*1001)%num != 0 && r.Bool(1, 2) {
				t++
			}
			return rateChoice{kind: kind, rate: 90000, t: t, name: fmt.Sprintf("%d/1001fps", num)}
		default: // true alternation of a non-integer tick count: not constant, T leg only
			num := []int64{24000, 60000, 120000}[r.Intn(3)]
			t := 90000 * 1001 / num
			pat := [][]int64{{t, t + 1, t + 1, t + 1}, {t, t + 1}, {t + 1, t, t + 1, t + 1}}[r.Intn(3)]
			return rateChoice{kind: kind, rate: 90000, t: 0, alt: pat, name: fmt.Sprintf("%d/1001fps-alternating", num)}
		}
	case 1: // AAC
		rate := stdRates[1+r.Intn(len(stdRates)-1)]
		if r.Bool(1, 2) { // the rates whose access unit is not a whole number of ns, most used in practice
			rate = []int64{44100, 48000, 22050, 88200}[r.Intn(4)]
		}
		return rateChoice{kind: "aac", rate: rate, t: 1024, name: fmt.Sprintf("aac%d", rate)}
	case 2: // Opus
		t := []int64{120, 240, 480, 960, 1920, 2880}[r.Intn(6)]
		return rateChoice{kind: "opus", rate: 48000, t: t, name: fmt.Sprintf("opus%d", t)}
	default: // jittery video: T leg only
		fps := []int64{25, 30, 60}[r.Intn(3)]
		t := 90000 / fps
		return rateChoice{kind: "h264", rate: 90000, t: 0, alt: []int64{t, t - 1, t + 2, t, t - 1}, name: fmt.Sprintf("%dfps-jitter", fps)}
	}
}

func genMux(r *rng.R, tier string) *muxCase {
	tc := pickTrack(r)
	c := &muxCase{Kind: tc.kind, Rate: tc.rate, Constant: tc.alt == nil, T: tc.t}
	sdNum := tc.t * 1000000000 // exact sample duration = sdNum / rate ns
	if tc.alt != nil {
		sdNum = tc.alt[0] * 1000000000
	}
	sd := sdNum / tc.rate

	// PartMinDuration
	switch r.Pick(8, 4, 3, 3, 1) {
	case 0:
		c.PartMin = r.Range(50, 2000) * 1000000
		c.PMClass = "whole-ms"
	case 1:
		c.PartMin = []int64{100, 200, 250, 500, 1000, 50, 2000, 333, 75}[r.Intn(9)] * 1000000
		c.PMClass = "whole-ms"
	case 2: // anywhere in the range, nanosecond resolution
		c.PartMin = r.Range(50000000, 2000000000)
		c.PMClass = "off-ms-grid"
	case 3: // boundary: one more than the floor of n sample durations (finding-directed)
		lo := (50000000*tc.rate + sdNum - 1) / sdNum
		hi := 2000000000 * tc.rate / sdNum
		if hi < lo {
			hi = lo
		}
		n := r.Range(lo, hi)
		if r.Bool(2, 3) && hi > 6 {
			n = r.Range(maxi(lo, 6), maxi(lo, mini(hi, 14)))
		}
		c.PartMin = n*sdNum/tc.rate + r.Range(0, 2)
		if c.PartMin < 50000000 {
			c.PartMin = 50000000
		}
		if c.PartMin > 2000000000 {
			c.PartMin = 2000000000
		}
		c.PMClass = "off-ms-grid"
	default:
		c.PartMin = 0 // default 200 ms
		c.PMClass = "whole-ms"
	}
	if c.effPartMin()%1000000 == 0 {
		c.PMClass = "whole-ms"
	} else {
		c.PMClass = "off-ms-grid"
	}
	// SegmentMinDuration
	switch r.Pick(3, 3, 2, 1) {
	case 0:
		c.SegMin = []int64{1000, 2000, 500, 4000, 6000}[r.Intn(5)] * 1000000
	case 1:
		c.SegMin = r.Range(100, 5000) * 1000000
	case 2:
		c.SegMin = r.Range(1, 4000000000)
	default:
		c.SegMin = 0
	}
	c.SegCount = []int{0, 7, 7, 8, 10, 12}[r.Intn(6)]
	c.Audio2 = (tc.kind == "h264" || tc.kind == "av1") && r.Bool(1, 4)
	if c.Audio2 {
		// the non-leading AAC track: several access units per call at rates whose access unit is
		// not a whole number of ns (it never cuts parts; the leading video decides)
		c.A2Rate = []int64{48000, 44100, 22050, 88200, 32000}[r.Intn(5)]
		c.A2Batch = 1 + r.Intn(5)
		c.AudioFirst = r.Bool(1, 2) // Tracks = [audio, video]: the rendition's stream is declared first
	}

	// first dts
	switch r.Pick(3, 3, 2, 2) {
	case 0:
		c.D0 = 0
	case 1:
		c.D0 = r.Range(0, 10*tc.rate)
	case 2:
		c.D0 = r.Range(0, 1000000*tc.rate)
	default:
		c.D0 = -10*tc.rate - r.Range(-3, 5)*maxi(tc.t, 1) - r.Range(0, 3)
	}

	// number of writes: enough for several parts and segments
	limit := int64(600)
	if tier == "thorough" {
		limit = 1500
	}
	partSamples := c.effPartMin()/maxi(sd, 1) + 1
	if partSamples > limit/8 && r.Bool(3, 4) {
		// keep most runs rich in parts: a smaller PartMinDuration of the same class
		hi := maxi(50000000, sd*(limit/8))
		if c.PMClass == "whole-ms" {
			c.PartMin = r.Range(50, mini(2000, hi/1000000)) * 1000000
		} else {
			c.PartMin = r.Range(50000000, mini(2000000000, hi))
			if c.PartMin%1000000 == 0 {
				c.PartMin++
			}
		}
		partSamples = c.effPartMin()/maxi(sd, 1) + 1
	}
	segSamples := c.effSegMin()/maxi(sd, 1) + 1
	if segSamples > limit/4 {
		c.SegMin = sd * (limit / 4)
		segSamples = c.effSegMin()/maxi(sd, 1) + 1
	}
	video := tc.kind == "h264" || tc.kind == "av1"
	gop := int(r.Range(1, 2*segSamples+2))
	if int64(gop) > limit/4 {
		gop = int(limit / 4)
	}
	span := segSamples
	if video && int64(gop) > span {
		span = int64(gop)
	}
	want := 3*span + 5*partSamples + r.Range(5, 60)
	if want > limit {
		want = limit
	}
	if want < 12 {
		want = 12
	}
	n := int(want)

	// key-frame placement
	irregular := r.Bool(1, 3)
	pcProb := 0
	if video && r.Bool(1, 4) {
		pcProb = 8
	}
	since := 0
	for k := 0; k < n; k++ {
		var d int64
		if tc.alt != nil {
			d = tc.alt[k%len(tc.alt)]
		} else {
			d = tc.t
		}
		c.Deltas = append(c.Deltas, d)
		fl := 0
		if !video {
			fl = 1
		} else if k == 0 {
			fl = 1
		} else if irregular {
			if r.Intn(gop) == 0 {
				fl = 1
			}
		} else if since+1 >= gop {
			fl = 1
		}
		if fl == 1 {
			since = 0
			if pcProb > 0 && k > 0 && r.Intn(pcProb) == 0 {
				fl = 3
			}
		} else {
			since++
		}
		c.Flags = append(c.Flags, fl)
	}
	// history shape "late first non-final part": several GOPs shorter than a part, each closing a
	// segment that holds only a final part (PART-TARGET settles on that short duration), then a
	// long GOP whose first full part is the stream's first non-final part: PART-TARGET changes at
	// a part close, with an OnEncodeError report
	if video && tc.alt == nil && c.effPartMin() > 2*sd && r.Bool(1, 5) {
		g := r.Range(1, (c.effPartMin()-1)/sd)
		if g > 60 {
			g = r.Range(1, 60)
		}
		c.SegMin = r.Range(1, g*sd)
		short := int(r.Range(2, 6))
		long := int(mini(int64(n), 4*partSamples+r.Range(3, 40)))
		c.Flags, c.Deltas = nil, nil
		for i := 0; i < short*int(g)+long; i++ {
			fl := 0
			if i%int(g) == 0 && i <= short*int(g) {
				fl = 1
			}
			c.Flags = append(c.Flags, fl)
			c.Deltas = append(c.Deltas, tc.t)
		}
		n = len(c.Flags)
		c.Shape = "late-first-non-final"
	}
	// AAC-led: several access units per WriteMPEG4Audio call (the muxer derives the timestamps
	// of the 2nd..nth unit of a call itself); the input cadence stays a constant 1024 samples
	if tc.kind == "aac" && r.Bool(3, 5) {
		fixed := 0
		if r.Bool(2, 3) {
			fixed = 2 + r.Intn(4)
		}
		for left := n; left > 0; {
			b := fixed
			if b == 0 {
				b = 1 + r.Intn(5)
			}
			if b > left {
				b = left
			}
			c.Batch = append(c.Batch, b)
			left -= b
		}
	}
	return c
}

func maxi(a, b int64) int64 {
	if a > b {
		return a
	}
	return b
}
func mini(a, b int64) int64 {
	if a < b {
		return a
	}
	return b
}

// ---------------------------------------------------------------- oracle (S leg)

// Written from the property text; reads only the parsed playlists, the configuration given to
// the Muxer and the OnEncodeError reports. Text durations are 10 us units; where the property
// compares a printed duration with an exact quantity the printed value is allowed the half
// unit (5 us) its rounding may have removed.
type failure struct {
	Signature string          `json:"signature"`
	What      string          `json:"what"`
	Input     json.RawMessage `json:"input"`
}

func nonFinal(pl *plView) []int64 {
	var out []int64
	for _, sg := range pl.Segs {
		if len(sg) > 1 {
			out = append(out, sg[:len(sg)-1]...)
		}
	}
	out = append(out, pl.Next...)
	return out
}

// sideHolds evaluates, with this command's own arithmetic, the side condition c19_side of the
// regularity theorems for a constant-duration configuration: with adj = the adjusted part
// duration (the first PartMinDuration + k*5 ms below 5 s that is at least one sample long and
// more than 85 % of itself rounded up to whole samples), no sample count m has a non-integer
// duration m*T/rate s whose floor is adj-1 ns. The verdict only chooses the signature suffix
// of an oracle failure (side-fails = the irregularity the *_refuted theorems predict,
// side-holds = the theorems promise regular parts); Coq re-computes it (Tie.PartDurTie.CSide,
// PartDurArith.sideb, proved equivalent to c19_side) on every run.
func sideHolds(rate, T, pm int64) bool {
	sd := T * 1000000000 / rate
	if sd <= 0 {
		return true
	}
	adj := pm
	for ; adj < 5000000000; adj += 5000000 {
		if sd <= adj {
			n := (adj + sd - 1) / sd
			if 100*adj > 85*n*sd {
				break
			}
		}
	}
	if adj < 1 {
		return true
	}
	num := T * 1000000000 // duration of m samples = m*num/rate ns
	m := ((adj-1)*rate + num - 1) / num
	if m < 0 {
		m = 0
	}
	for ; m*num/rate <= adj-1; m++ {
		if (m*num)%rate != 0 && m*num/rate == adj-1 {
			return false
		}
	}
	return true
}

func sideName(b bool) string {
	if b {
		return "side-holds"
	}
	return "side-fails"
}

type finding struct {
	check string
	what  string
	at    int64
}

func oracle(c *muxCase, obs *muxObs, side bool) []finding {
	if !c.Constant {
		return nil
	}
	var out []finding
	seen := map[string]bool{}
	report := func(check, what string, at int64) {
		if !seen[check] {
			seen[check] = true
			out = append(out, finding{check, what, at})
		}
	}
	pm := c.effPartMin()
	var D int64 = -1
	// every stream's playlists: a rendition's parts are cut at the leading track's instants, so
	// they have the same D and its playlists announce the same PART-TARGET
	report0 := report
	for si, seq := range obs.streams {
		var prev *viewObs
		var prevErrs int64
		for i := range seq.Views {
			v := &seq.Views[i]
			si, seq, i := si, seq, i
			report := func(check, what string, at int64) {
				if si > 0 {
					what = "rendition " + seq.ID + ": " + what
				}
				if seq.InCallback[i] {
					// requested from inside OnEncodeError, during the call that follows write v.K
					what = "playlist served while OnEncodeError was running: " + what
					at = int64(len(c.Flags))
				}
				report0(check, what, at)
			}
			nf := nonFinal(v.PL)
			for _, d := range nf {
				if D < 0 {
					D = d
				}
				if d != D {
					report("same-duration", fmt.Sprintf("after write %d the playlist lists non-final parts of %d0 us and %d0 us", v.K, D, d), v.K)
				}
				dns := d * 10000
				if v.PL.PartTargetNS < 0 {
					report("part-inf-missing", fmt.Sprintf("after write %d the playlist has no EXT-X-PART-INF", v.K), v.K)
					continue
				}
				if dns > v.PL.PartTargetNS {
					report("above-part-target", fmt.Sprintf("after write %d a non-final part of %d ns exceeds PART-TARGET %d ns", v.K, dns, v.PL.PartTargetNS), v.K)
				}
				if 85*v.PL.PartTargetNS > 100*(dns+5000) {
					report("85-percent", fmt.Sprintf("after write %d a non-final part of %d ns is below 85%% of PART-TARGET %d ns", v.K, dns, v.PL.PartTargetNS), v.K)
				}
				if dns+5000 < pm {
					report("below-part-min", fmt.Sprintf("after write %d a non-final part of %d ns is shorter than PartMinDuration %d ns", v.K, dns, pm), v.K)
				}
				// D < 2*max(pm, sd) + sd with sd = T/rate seconds, compared in units of 1/rate ns
				sdn := c.T * 1000000000
				mx := pm * c.Rate
				if sdn > mx {
					mx = sdn
				}
				if (dns-5000)*c.Rate >= 2*mx+sdn {
					report("upper-bound", fmt.Sprintf("after write %d a non-final part of %d ns is not below 2*max(PartMinDuration, sample duration) + sample duration", v.K, dns), v.K)
				}
			}
			if prev != nil && len(nf) > 0 && len(nonFinal(prev.PL)) > 0 {
				if v.PL.PartTargetNS != prev.PL.PartTargetNS {
					report("part-target-changed", fmt.Sprintf("PART-TARGET changed from %d ns (after write %d) to %d ns (after write %d), both playlists list a non-final part",
						prev.PL.PartTargetNS, prev.K, v.PL.PartTargetNS, v.K), v.K)
				} else if seq.ErrsAt[i] != prevErrs {
					report("part-target-changed", fmt.Sprintf("OnEncodeError reported a part duration change between writes %d and %d, both playlists list a non-final part", prev.K, v.K), v.K)
				}
			}
			prev = v
			prevErrs = seq.ErrsAt[i]
		}
	}
	// Where c19_side holds the theorems promise ONE sample count for every non-final part, so in
	// media time (the sample durations of the served part files) every non-final part lasts
	// exactly the same number of ticks, count * T for the constant input cadence T. No
	// tolerance: a +-1 tick difference between parts is an irregularity.
	if side {
		total := int64(len(c.Flags))
		for i, p := range obs.NonFinal {
			q := obs.NonFinal[0]
			if p.N != q.N || p.Ticks != q.Ticks {
				report("same-duration-ticks", fmt.Sprintf("non-final parts #0 and #%d hold %d and %d samples lasting %d and %d ticks", i, q.N, p.N, q.Ticks, p.Ticks), total)
				break
			}
			if p.Ticks != p.N*c.T {
				report("same-duration-ticks", fmt.Sprintf("non-final part #%d holds %d samples lasting %d ticks, the input cadence is %d ticks per sample", i, p.N, p.Ticks, c.T), total)
				break
			}
		}
	}
	return out
}

// ---------------------------------------------------------------- Coq output

func coqParts(ps []partObs) string {
	var s []string
	for _, p := range ps {
		s = append(s, "("+coqfmt.Z(p.Dur)+","+coqfmt.Z(p.N)+")")
	}
	return coqfmt.List(s)
}

func coqZs(zs []int64) string {
	var s []string
	for _, z := range zs {
		s = append(s, coqfmt.Z(z))
	}
	return coqfmt.List(s)
}

func (c *muxCase) coq(o *muxObs) string {
	var ws []string
	for k := 0; k < len(c.Flags); {
		j := k
		for j < len(c.Flags) && c.Flags[j] == c.Flags[k] && c.Deltas[j] == c.Deltas[k] {
			j++
		}
		ws = append(ws, "("+coqfmt.Z(int64(j-k))+","+coqfmt.Z(c.Deltas[k])+","+coqfmt.Z(int64(c.Flags[k]))+")")
		k = j
	}
	var pub []string
	for _, sg := range o.Published {
		pub = append(pub, coqParts(sg))
	}
	var ret []string
	for i, sg := range o.Retained {
		if o.RetGap[i] {
			ret = append(ret, "None")
		} else {
			ret = append(ret, "Some "+coqZs(sg))
		}
	}
	var tr []string
	for _, t := range o.PTTrace {
		tr = append(tr, "("+coqfmt.Z(t[0])+","+coqfmt.Z(t[1])+")")
	}
	var vs []string
	for _, v := range o.Views {
		var sg []string
		for _, s := range v.PL.Segs {
			sg = append(sg, coqZs(s))
		}
		vs = append(vs, fmt.Sprintf("{| v_k := %s; v_pt := %s; v_segs := %s; v_next := %s |}",
			coqfmt.Z(v.K), coqfmt.Z(v.PL.PartTargetNS), coqfmt.List(sg), coqZs(v.PL.Next)))
	}
	var calls []string
	sz := c.callSizes()
	for k := 0; k < len(sz); {
		j := k
		for j < len(sz) && sz[j] == sz[k] {
			j++
		}
		calls = append(calls, "("+coqfmt.Z(int64(j-k))+","+coqfmt.Z(int64(sz[k]))+")")
		k = j
	}
	return fmt.Sprintf("CRun {| clockRate := %s; partMinDuration := %s; segmentMinDuration := %s; segmentCount := %s |}\n  (mkwsr %s %s)\n"+
		"  {| ro_published := %s; ro_next := %s; ro_retained := %s; ro_adjusted := %s; ro_freeze := %s;\n     ro_calls := %s; ro_pt_trace := %s; ro_errors := %s; ro_views := %s |}",
		coqfmt.Z(c.Rate), coqfmt.Z(c.effPartMin()), coqfmt.Z(c.effSegMin()), coqfmt.Z(c.effSegCount()),
		coqfmt.Z(c.D0), coqfmt.List(ws),
		coqfmt.List(pub), coqParts(o.Next), coqfmt.List(ret), coqfmt.Z(o.Adjusted), coqfmt.Bool(o.Freeze),
		coqfmt.List(calls), coqfmt.List(tr), coqfmt.Z(o.Errors), coqfmt.List(vs))
}

type shardWriter struct {
	dir   string
	idx   int
	n     int
	limit int
	f     *os.File
	ix    *os.File // cases_N.idx: one input (JSON) per line, read by the tie only on a mismatch
}

func (w *shardWriter) add(s string, limit int, input []byte) (shard, index int) {
	if w.f == nil || w.n >= w.limit {
		w.close()
		w.idx++
		w.n = 0
		w.limit = limit
		f, err := os.Create(filepath.Join(w.dir, fmt.Sprintf("cases_%d.v", w.idx)))
		if err != nil {
			panic(err)
		}
		w.f = f
		w.ix, err = os.Create(filepath.Join(w.dir, fmt.Sprintf("cases_%d.idx", w.idx)))
		if err != nil {
			panic(err)
		}
		fmt.Fprintln(f, "From Coq Require Import List ZArith.")
		fmt.Fprintln(f, "From GoHls Require Import Model.PartDur Tie.PartDurTie.")
		fmt.Fprintln(f, "Import ListNotations. Open Scope Z_scope.")
		fmt.Fprintln(f, "Definition cases : list pcase := [")
	}
	if w.n > 0 {
		fmt.Fprintln(w.f, ";")
	}
	fmt.Fprint(w.f, s)
	w.ix.Write(input)
	w.ix.Write([]byte{'\n'})
	w.n++
	return w.idx, w.n - 1
}

func (w *shardWriter) close() {
	if w.f != nil {
		fmt.Fprintln(w.f, "\n].")
		fmt.Fprintln(w.f, "Definition M := Eval vm_compute in mismatches cases.")
		fmt.Fprintln(w.f, "Print M.")
		w.f.Close()
		w.f = nil
		w.ix.Close()
	}
}

// ---------------------------------------------------------------- main

func main() {
	seed := flag.Uint64("seed", 0, "seed")
	tier := flag.String("tier", "quick", "quick|thorough")
	out := flag.String("out", "", "output directory")
	replay := flag.String("replay", "", "replay file (JSON with .input)")
	nmux := flag.Int("n", 0, "muxer cases (0 = tier default)")
	npure := flag.Int("npure", 0, "pure-function cases (0 = tier default)")
	flag.Parse()
	if *out == "" {
		fmt.Fprintln(os.Stderr, "need -out")
		os.Exit(2)
	}
	os.MkdirAll(*out, 0o755)
	if err := checkSPS(); err != nil {
		fmt.Fprintln(os.Stderr, err)
		os.Exit(2)
	}
	if *nmux == 0 {
		*nmux = 500
		if *tier == "thorough" {
			*nmux = 6000
		}
	}
	if *npure == 0 {
		*npure = 100000
		if *tier == "thorough" {
			*npure = 1000000
		}
	}

	sw := &shardWriter{dir: *out, idx: -1}
	failures := []failure{}
	errs := []string{}
	dist := map[string]int{}
	var samples []json.RawMessage
	evaluations := 0
	distinct := map[string]bool{}
	nontrivial := 0
	traces := 0

	var muxInputs []*muxCase
	var pureInputs []*pureCase

	if *replay != "" {
		raw, err := os.ReadFile(*replay)
		if err != nil {
			panic(err)
		}
		var rp struct {
			Input struct {
				Mux  *muxCase  `json:"mux"`
				Pure *pureCase `json:"pure"`
			} `json:"input"`
		}
		if err := json.Unmarshal(raw, &rp); err != nil {
			panic(err)
		}
		if rp.Input.Mux != nil {
			rp.Input.Mux.fill()
			muxInputs = append(muxInputs, rp.Input.Mux)
		}
		if rp.Input.Pure != nil {
			pureInputs = append(pureInputs, rp.Input.Pure)
		}
	} else {
		// corpus: the witnesses of the *_refuted theorems and their on-grid neighbours
		vflags := func(n int) []int {
			f := make([]int, n)
			f[0] = 1
			return f
		}
		aflags := func(n int) []int {
			f := make([]int, n)
			for i := range f {
				f[i] = 1
			}
			return f
		}
		rep := func(t int64, n int) []int64 {
			d := make([]int64, n)
			for i := range d {
				d[i] = t
			}
			return d
		}
		gop := func(n, g int) []int {
			f := make([]int, n)
			for i := 0; i < n; i += g {
				f[i] = 1
			}
			return f
		}
		_ = vflags
		batches := func(n, b int) []int {
			var out []int
			for n > 0 {
				if b > n {
					b = n
				}
				out = append(out, b)
				n -= b
			}
			return out
		}
		keysAt := func(n int, at ...int) []int {
			f := make([]int, n)
			for _, i := range at {
				f[i] = 1
			}
			return f
		}
		muxInputs = append(muxInputs,
			// 30 fps, PartMinDuration = ceil(7 frames): parts of 8 and 7 frames alternate
			&muxCase{Kind: "h264", Rate: 90000, Constant: true, T: 3000, D0: 0, Deltas: rep(3000, 150), Flags: gop(150, 60),
				PartMin: 233333334, SegMin: 1000000000, SegCount: 7, PMClass: "off-ms-grid"},
			// same with another phase: PART-TARGET 234 ms, then 267 ms and a "part duration changed" report
			&muxCase{Kind: "h264", Rate: 90000, Constant: true, T: 3000, D0: 6000, Deltas: rep(3000, 40), Flags: keysAt(40, 0, 8),
				PartMin: 233333334, SegMin: 200000000, SegCount: 7, PMClass: "off-ms-grid"},
			// AAC 88.2 kHz, PartMinDuration = ceil(6 access units): 69.66 ms parts under PART-TARGET 82 ms
			&muxCase{Kind: "aac", Rate: 88200, Constant: true, T: 1024, D0: 0, Deltas: rep(1024, 200), Flags: aflags(200),
				PartMin: 69659864, SegMin: 1000000000, SegCount: 7, PMClass: "off-ms-grid"},
			// the on-grid neighbours
			&muxCase{Kind: "h264", Rate: 90000, Constant: true, T: 3000, D0: 0, Deltas: rep(3000, 150), Flags: gop(150, 60),
				PartMin: 234000000, SegMin: 1000000000, SegCount: 7, PMClass: "whole-ms"},
			&muxCase{Kind: "aac", Rate: 88200, Constant: true, T: 1024, D0: 0, Deltas: rep(1024, 200), Flags: aflags(200),
				PartMin: 70000000, SegMin: 1000000000, SegCount: 7, PMClass: "whole-ms"},
			// 30 fps, PartMinDuration 500 ms, SegmentMinDuration 300 ms: three 10-frame GOPs (segments with
			// only a 333 ms final part, PART-TARGET 0.334), then a long GOP: PART-TARGET changes to 0.5 at
			// the close of the stream's first non-final part; alone, and with an AAC rendition declared
			// before / after the video track
			&muxCase{Kind: "h264", Rate: 90000, Constant: true, T: 3000, D0: 0, Deltas: rep(3000, 120), Flags: keysAt(120, 0, 10, 20, 30),
				PartMin: 500000000, SegMin: 300000000, SegCount: 7, PMClass: "whole-ms", Shape: "late-first-non-final"},
			&muxCase{Kind: "h264", Rate: 90000, Constant: true, T: 3000, D0: 0, Deltas: rep(3000, 120), Flags: keysAt(120, 0, 10, 20, 30),
				PartMin: 500000000, SegMin: 300000000, SegCount: 7, PMClass: "whole-ms", Shape: "late-first-non-final",
				Audio2: true, AudioFirst: true, A2Rate: 48000, A2Batch: 1},
			&muxCase{Kind: "av1", Rate: 90000, Constant: true, T: 3000, D0: 90000, Deltas: rep(3000, 120), Flags: keysAt(120, 0, 10, 20, 30),
				PartMin: 500000000, SegMin: 300000000, SegCount: 8, PMClass: "whole-ms", Shape: "late-first-non-final",
				Audio2: true, AudioFirst: false, A2Rate: 44100, A2Batch: 3},
			// several access units per WriteMPEG4Audio call, parts of an odd number of units
			// (48 kHz / 100 ms: 5 units; 44.1 kHz / 100 ms: 5; 22.05 kHz / 200 ms: 5; 88.2 kHz / 80 ms: 7)
			&muxCase{Kind: "aac", Rate: 48000, Constant: true, T: 1024, D0: 0, Deltas: rep(1024, 240), Flags: aflags(240),
				Batch: batches(240, 2), PartMin: 100000000, SegMin: 1000000000, SegCount: 7, PMClass: "whole-ms"},
			&muxCase{Kind: "aac", Rate: 44100, Constant: true, T: 1024, D0: 4410, Deltas: rep(1024, 240), Flags: aflags(240),
				Batch: batches(240, 4), PartMin: 100000000, SegMin: 1000000000, SegCount: 7, PMClass: "whole-ms"},
			&muxCase{Kind: "aac", Rate: 22050, Constant: true, T: 1024, D0: 0, Deltas: rep(1024, 150), Flags: aflags(150),
				Batch: batches(150, 3), PartMin: 200000000, SegMin: 2000000000, SegCount: 7, PMClass: "whole-ms"},
			&muxCase{Kind: "aac", Rate: 88200, Constant: true, T: 1024, D0: 0, Deltas: rep(1024, 300), Flags: aflags(300),
				Batch: batches(300, 5), PartMin: 80000000, SegMin: 1000000000, SegCount: 7, PMClass: "whole-ms"},
		)
		for i := 0; i < *nmux; i++ {
			muxInputs = append(muxInputs, genMux(rng.New(*seed, uint64(1)<<32+uint64(i)), *tier))
		}
		// boundary arguments of the pure functions
		pureInputs = append(pureInputs,
			&pureCase{Fn: "muldiv", Args: []int64{1, 1, 0}},
			&pureCase{Fn: "muldiv", Args: []int64{-7, 3, 2}},
			&pureCase{Fn: "muldiv", Args: []int64{7, 3, -2}},
			&pureCase{Fn: "tsd", Args: []int64{900900, 90000}},
			&pureCase{Fn: "tsd", Args: []int64{-1, 90000}},
			&pureCase{Fn: "tsd", Args: []int64{1, 0}},
			&pureCase{Fn: "d2t", Args: []int64{10000000000, 44100}},
			&pureCase{Fn: "d2t", Args: []int64{10000000000, 0}},
			&pureCase{Fn: "compat", Args: []int64{0, 0}},
			&pureCase{Fn: "compat", Args: []int64{-1, 0}},
			&pureCase{Fn: "compat", Args: []int64{233333334, 33333333}},
			&pureCase{Fn: "find", Args: []int64{233333334}, Sds: []int64{33333333}},
			&pureCase{Fn: "find", Args: []int64{200000000}, Sds: []int64{33366666}},
			&pureCase{Fn: "find", Args: []int64{5000000000}, Sds: []int64{33366666}},
			&pureCase{Fn: "find", Args: []int64{50000000}, Sds: []int64{4000000000}},
			&pureCase{Fn: "find", Args: []int64{200000000}, Sds: nil},
		)
		for i := 0; i < *npure; i++ {
			pureInputs = append(pureInputs, genPure(rng.New(*seed, uint64(2)<<32+uint64(i))))
		}
	}

	// ---- muxer stream ----
	for id, c := range muxInputs {
		r := rng.New(*seed, uint64(3)<<32+uint64(id))
		var views []int
		for i := 0; i < 3; i++ {
			views = append(views, r.Intn(len(c.callSizes())))
		}
		obs, err := runMuxer(c, views)
		input, _ := json.Marshal(map[string]interface{}{"mux": c})
		if err != nil {
			errs = append(errs, fmt.Sprintf("muxer case %d: %v (input %s)", id, err, input))
			continue
		}
		evaluations++
		traces++
		if len(obs.WriteErrs) > 0 {
			errs = append(errs, fmt.Sprintf("muxer case %d: a Write call failed: %v (input %s)", id, obs.WriteErrs, input))
		}
		for _, e := range obs.OtherErrs {
			if strings.HasPrefix(e, "segment duration changed") {
				dist["runs_with_segment_duration_changed_report"]++
				break
			}
			errs = append(errs, fmt.Sprintf("muxer case %d: unexpected OnEncodeError %q (input %s)", id, e, input))
		}
		side := true
		if c.Constant {
			side = sideHolds(c.Rate, c.T, c.effPartMin())
			dist["c19_side:"+sideName(side)]++
		}
		for _, f := range oracle(c, obs, side) {
			// minimise: cut the writes after the failing one
			mc := *c
			if int(f.at) < len(mc.Flags) {
				mc.Flags = mc.Flags[:f.at]
				mc.Deltas = mc.Deltas[:f.at]
				if len(mc.Batch) > 0 {
					t, n := 0, 0
					for n < len(mc.Batch) && t < int(f.at) {
						t += mc.Batch[n]
						n++
					}
					mc.Batch = mc.Batch[:n:n]
					if t != int(f.at) { // not a call boundary: keep the whole last call
						mc.Flags = c.Flags[:t]
						mc.Deltas = c.Deltas[:t]
					}
				}
			}
			mi, _ := json.Marshal(map[string]interface{}{"mux": &mc})
			failures = append(failures, failure{
				Signature: "C19:" + f.check + ":" + sideName(side),
				What: fmt.Sprintf("%s (leading %s at %d Hz, constant sample duration %d ticks, PartMinDuration %d ns [%s, c19_side %s], SegmentMinDuration %d ns, first dts %d)",
					f.what, c.Kind, c.Rate, c.T, c.effPartMin(), c.PMClass, map[bool]string{true: "holds", false: "fails"}[side], c.effSegMin(), c.D0),
				Input: mi,
			})
			dist["oracle:"+f.check+":"+sideName(side)]++
		}
		sw.add(c.coq(obs), 120, input)
		if c.Constant {
			sw.add(fmt.Sprintf("CSide {| clockRate := %s; partMinDuration := %s; segmentMinDuration := %s; segmentCount := %s |} %s %s",
				coqfmt.Z(c.Rate), coqfmt.Z(c.effPartMin()), coqfmt.Z(c.effSegMin()), coqfmt.Z(c.effSegCount()),
				coqfmt.Z(c.T), coqfmt.Bool(side)), 120, input)
		}

		h := sha256.Sum256(input)
		hs := hex.EncodeToString(h[:8])
		nfMax := 0
		for _, v := range obs.streams[0].Views {
			if n := len(nonFinal(v.PL)); n > nfMax {
				nfMax = n
			}
		}
		if !distinct[hs] {
			distinct[hs] = true
			if len(obs.Published) >= 2 && nfMax >= 3 {
				nontrivial++
				if len(samples) < 3 {
					samples = append(samples, input)
				}
			}
		}
		dist["kind:"+c.Kind]++
		if c.Kind == "aac" {
			mx := 1
			for _, b := range c.Batch {
				if b > mx {
					mx = b
				}
			}
			dist[fmt.Sprintf("aac_led:max_access_units_per_call:%d", mx)]++
		}
		if c.Audio2 {
			if c.AudioFirst {
				dist["video_led:track_order:audio-first"]++
			} else {
				dist["video_led:track_order:video-first"]++
			}
		}
		if c.Shape != "" {
			dist["history:"+c.Shape]++
		}
		if len(obs.streams) > 1 {
			dist["runs_with_rendition_playlists_checked"]++
		}
		for _, q := range obs.streams {
			for _, b := range q.InCallback {
				if b {
					dist["playlists_served_inside_OnEncodeError"]++
				}
			}
		}
		if c.Audio2 && c.A2Batch > 1 {
			dist["video_led:non_leading_aac_multi_au_calls"]++
		}
		dist["partmin:"+c.PMClass]++
		if c.Constant {
			dist["durations:constant"]++
		} else {
			dist["durations:varying"]++
		}
		dist[fmt.Sprintf("segments_completed:%s", bucket(len(obs.Published)))]++
		dist[fmt.Sprintf("max_nonfinal_listed:%s", bucket(nfMax))]++
		dist[fmt.Sprintf("writes:%s", bucket(len(c.Flags)))]++
		if obs.Errors > 0 {
			dist["runs_with_part_duration_changed_report"]++
		}
		if c.D0 < -10*c.Rate {
			dist["first_dts:rejected-prefix"]++
		}
		for _, f := range c.Flags {
			if f == 3 {
				dist["runs_with_params_change"]++
				break
			}
		}
	}
	// ---- pure stream ----
	for _, c := range pureInputs {
		c.eval()
		evaluations++
		input, _ := json.Marshal(map[string]interface{}{"pure": c})
		sw.add(c.coq(), 4000, input)
		dist["pure:"+c.Fn]++
		if c.Panicked {
			dist["pure:panicked"]++
		}
	}
	sw.close()

	sort.Slice(failures, func(i, j int) bool { return len(failures[i].Input) < len(failures[j].Input) })
	res := map[string]interface{}{
		"evaluations":         evaluations,
		"distinct_nontrivial": nontrivial,
		"rule": "muxer runs from splitmix64(seed, case index): leading H264/AV1 at 90 kHz (integer frame rates 1-120, 1001-based), AAC at 13 sample rates, Opus at 6 frame sizes; " +
			"video-led runs optionally carry an AAC rendition declared before or after the video track, the oracle reads every stream's playlist; every media playlist is also requested from inside OnEncodeError (bounded wait); 1 in 5 video histories starts with GOPs shorter than a part (PART-TARGET changes later at a part close); AAC-led runs write 1-5 access units per WriteMPEG4Audio call (fixed or random per call), video-led runs optionally feed a non-leading AAC track the same way; PartMinDuration whole ms / arbitrary ns / floor(n samples)+{0,1,2} ns in [50 ms, 2 s]; SegmentMinDuration, SegmentCount, first dts (incl. rejected negative prefix), GOP regular or random, parameter changes; " +
			"distinct by SHA-256 of the input; non-trivial = >=2 completed segments AND some playlist listing >=3 non-final parts. Pure-function cases are counted in evaluations only.",
		"samples":                       samples,
		"distribution":                  dist,
		"oracle_failures":               failures,
		"shards":                        sw.idx + 1,
		"errors":                        errs,
		"traces_validated_against_impl": traces,
	}
	j, _ := json.MarshalIndent(res, "", " ")
	os.WriteFile(filepath.Join(*out, "result.json"), j, 0o644)
	fmt.Printf("partdur harness: %d evaluations (%d muxer runs), %d distinct non-trivial, %d oracle failures, %d errors, %d shards\n",
		evaluations, traces, nontrivial, len(failures), len(errs), sw.idx+1)
	_ = strings.Join
}

func bucket(n int) string {
	switch {
	case n == 0:
		return "0"
	case n < 3:
		return "1-2"
	case n < 10:
		return "3-9"
	case n < 50:
		return "10-49"
	case n < 200:
		return "50-199"
	default:
		return ">=200"
	}
}
