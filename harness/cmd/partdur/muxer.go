package main

import (
	"bytes"
	"encoding/json"
	"fmt"
	"io"
	"net/http"
	"net/http/httptest"
	"strings"
	"sync"
	"time"

	gohlslib "github.com/bluenviron/gohlslib/v2"
	"github.com/bluenviron/gohlslib/v2/pkg/codecs"
	"github.com/bluenviron/mediacommon/v2/pkg/codecs/h264"
	"github.com/bluenviron/mediacommon/v2/pkg/codecs/mpeg4audio"
	"github.com/bluenviron/mediacommon/v2/pkg/formats/fmp4"
)

// ---- input of one muxer run ----

type muxCase struct {
	Kind       string  `json:"kind"` // h264 av1 aac opus
	Rate       int64   `json:"rate"`
	Constant   bool    `json:"constant"`         // all deltas equal (the property applies)
	T          int64   `json:"t"`                // the constant delta (ticks) when Constant
	D0         int64   `json:"d0"`               // dts of the first write
	Deltas     []int64 `json:"deltas,omitempty"` // delta to the next write, per write (omitted in JSON when Constant: all T)
	Flags      []int   `json:"flags"`            // per write: 0 plain, 1 random access, 3 random access + changed parameters
	PartMin    int64   `json:"part_min"`         // as given to the Muxer (0 = default)
	SegMin     int64   `json:"seg_min"`
	SegCount   int     `json:"seg_count"`
	Audio2     bool    `json:"audio2"`                // video-led: add a non-leading AAC track and feed it
	AudioFirst bool    `json:"audio_first,omitempty"` // declare the non-leading AAC track BEFORE the video track
	A2Rate     int64   `json:"a2_rate,omitempty"`     // its sample rate (0 = 48000)
	A2Batch    int     `json:"a2_batch,omitempty"`    // access units per WriteMPEG4Audio call on it (0 = 1)
	Batch      []int   `json:"batch,omitempty"`       // AAC-led: access units per WriteMPEG4Audio call (sums to len(Flags)); empty = one per call
	PMClass    string  `json:"pm_class"`
	Shape      string  `json:"shape,omitempty"` // generator\'s history shape (label only)
}

// MarshalJSON drops the deltas of a constant-duration case; fill restores them.
func (c *muxCase) MarshalJSON() ([]byte, error) {
	type plain muxCase
	p := plain(*c)
	if p.Constant {
		p.Deltas = nil
	}
	return json.Marshal(&p)
}

func (c *muxCase) fill() {
	if c.Constant && len(c.Deltas) != len(c.Flags) {
		c.Deltas = make([]int64, len(c.Flags))
		for i := range c.Deltas {
			c.Deltas[i] = c.T
		}
	}
}

func (c *muxCase) effPartMin() int64 {
	if c.PartMin == 0 {
		return 200000000
	}
	return c.PartMin
}
func (c *muxCase) effSegMin() int64 {
	if c.SegMin == 0 {
		return 1000000000
	}
	return c.SegMin
}
func (c *muxCase) effSegCount() int64 {
	if c.SegCount == 0 {
		return 7
	}
	return int64(c.SegCount)
}

// ---- observations ----

type partObs struct {
	Dur   int64 `json:"d"`
	N     int64 `json:"n"`
	Ticks int64 `json:"ticks"` // sum of the sample durations of the leading track in the served part file
}

// callSizes returns the number of writes (access units) each Write* call carries.
func (c *muxCase) callSizes() []int {
	if c.Kind == "aac" && len(c.Batch) > 0 {
		return c.Batch
	}
	b := make([]int, len(c.Flags))
	for i := range b {
		b[i] = 1
	}
	return b
}

type viewObs struct {
	K  int64   `json:"k"`
	PL *plView `json:"pl"`
}

type muxObs struct {
	Published [][]partObs `json:"published"`
	Next      []partObs   `json:"next"`
	Retained  [][]int64   `json:"retained"` // nil entry = gap
	RetGap    []bool      `json:"ret_gap"`
	Adjusted  int64       `json:"adjusted"`
	Freeze    bool        `json:"freeze"`
	PTTrace   [][2]int64  `json:"pt_trace"`
	NonFinal  []partObs   `json:"-"` // every non-final part ever closed, in order (for the tick-exact oracle)
	Errors    int64       `json:"errors"`
	OtherErrs []string    `json:"other_errors,omitempty"`
	Views     []viewObs   `json:"views"`
	WriteErrs []string    `json:"write_errors,omitempty"`

	// for the oracle: every playlist in order, with the number of writes done and the number
	// of "part duration changed" reports so far
	streams []*plSeq // [0] = the leading stream, then the rendition (non-leading AAC) if any
	body    map[int64]string
}

// plSeq is every media playlist of one stream in the order it was served: one after each Write*
// call and, between them, those that were served WHILE OnEncodeError was running (InCallback).
type plSeq struct {
	ID         string
	Views      []viewObs
	ErrsAt     []int64 // "part duration changed" reports so far
	InCallback []bool
}

func (q *plSeq) add(v viewObs, errs int64, inCallback bool) {
	q.Views = append(q.Views, v)
	q.ErrsAt = append(q.ErrsAt, errs)
	q.InCallback = append(q.InCallback, inCallback)
}

// ---- bit writer for the SPS ----

type bitw struct {
	b   []byte
	cur byte
	n   int
}

func (w *bitw) bit(v int) {
	w.cur = w.cur<<1 | byte(v&1)
	w.n++
	if w.n == 8 {
		w.b = append(w.b, w.cur)
		w.cur, w.n = 0, 0
	}
}
func (w *bitw) bits(v uint32, n int) {
	for i := n - 1; i >= 0; i-- {
		w.bit(int(v>>uint(i)) & 1)
	}
}
func (w *bitw) ue(v uint32) {
	v++
	n := 0
	for t := v; t > 1; t >>= 1 {
		n++
	}
	for i := 0; i < n; i++ {
		w.bit(0)
	}
	w.bits(v, n+1)
}
func (w *bitw) finish() []byte {
	w.bit(1)
	for w.n != 0 {
		w.bit(0)
	}
	return w.b
}

// makeSPS builds a baseline-profile SPS with pic_order_cnt_type = 2 (so that dts = pts).
func makeSPS(widthMbs, heightMbs uint32) []byte {
	w := &bitw{}
	w.bits(0x67, 8)
	w.bits(66, 8)   // profile_idc
	w.bits(0xC0, 8) // constraint flags
	w.bits(31, 8)   // level_idc
	w.ue(0)         // seq_parameter_set_id
	w.ue(0)         // log2_max_frame_num_minus4
	w.ue(2)         // pic_order_cnt_type
	w.ue(1)         // max_num_ref_frames
	w.bit(0)        // gaps_in_frame_num_value_allowed_flag
	w.ue(widthMbs - 1)
	w.ue(heightMbs - 1)
	w.bit(1) // frame_mbs_only_flag
	w.bit(1) // direct_8x8_inference_flag
	w.bit(0) // frame_cropping_flag
	w.bit(0) // vui_parameters_present_flag
	return w.finish()
}

var (
	spsA = makeSPS(40, 30)
	spsB = makeSPS(80, 45)
	pps  = []byte{0x68, 0xce, 0x38, 0x80}

	av1SeqA = []byte{10, 11, 0, 0, 0, 66, 167, 191, 230, 46, 223, 200, 66}
	av1SeqB = []byte{10, 11, 0, 0, 0, 66, 167, 191, 230, 46, 223, 200, 67}
	av1Frm  = []byte{0x32, 0x03, 0x10, 0x00, 0x00}
)

func checkSPS() error {
	for _, s := range [][]byte{spsA, spsB} {
		var p h264.SPS
		if err := p.Unmarshal(s); err != nil {
			return fmt.Errorf("generated SPS does not parse: %w", err)
		}
		if p.PicOrderCntType != 2 {
			return fmt.Errorf("generated SPS has pic_order_cnt_type %d", p.PicOrderCntType)
		}
	}
	return nil
}

var opusTOC = map[int64]byte{120: 0x80, 240: 0x88, 480: 0x90, 960: 0x98, 1920: 0x10, 2880: 0x18}

var baseNTP = time.Date(2024, 1, 1, 0, 0, 0, 0, time.UTC)

// ---- running the real Muxer ----

func get(m *gohlslib.Muxer, path string) (int, []byte) {
	req := httptest.NewRequest(http.MethodGet, "/"+path, nil)
	rec := httptest.NewRecorder()
	m.Handle(rec, req)
	b, _ := io.ReadAll(rec.Result().Body)
	return rec.Code, b
}

func leading(st gohlslib.VerifMuxerState) *gohlslib.VerifStreamState {
	for i := range st.Streams {
		if st.Streams[i].IsLeading {
			return &st.Streams[i]
		}
	}
	return nil
}

func runMuxer(c *muxCase, nviews []int) (*muxObs, error) {
	obs := &muxObs{body: map[int64]string{}}
	var lead *gohlslib.Track
	var audio *gohlslib.Track
	switch c.Kind {
	case "h264":
		lead = &gohlslib.Track{Codec: &codecs.H264{SPS: spsA, PPS: pps}, ClockRate: int(c.Rate)}
	case "av1":
		lead = &gohlslib.Track{Codec: &codecs.AV1{SequenceHeader: av1SeqA}, ClockRate: int(c.Rate)}
	case "aac":
		lead = &gohlslib.Track{Codec: &codecs.MPEG4Audio{Config: mpeg4audio.Config{
			Type: 2, SampleRate: int(c.Rate), ChannelCount: 2}}, ClockRate: int(c.Rate)}
	case "opus":
		lead = &gohlslib.Track{Codec: &codecs.Opus{ChannelCount: 2}, ClockRate: int(c.Rate)}
	default:
		return nil, fmt.Errorf("bad kind %q", c.Kind)
	}
	tracks := []*gohlslib.Track{lead}
	a2rate := c.A2Rate
	if a2rate == 0 {
		a2rate = 48000
	}
	a2batch := c.A2Batch
	if a2batch < 1 {
		a2batch = 1
	}
	if c.Audio2 && (c.Kind == "h264" || c.Kind == "av1") {
		audio = &gohlslib.Track{Codec: &codecs.MPEG4Audio{Config: mpeg4audio.Config{
			Type: 2, SampleRate: int(a2rate), ChannelCount: 2}}, ClockRate: int(a2rate)}
		if c.AudioFirst {
			tracks = []*gohlslib.Track{audio, lead}
		} else {
			tracks = append(tracks, audio)
		}
	}
	// stream ids follow the declaration order
	streamID := "video1"
	if c.Kind == "aac" || c.Kind == "opus" {
		streamID = "audio1"
	}
	ids := []string{streamID}
	if audio != nil {
		if c.AudioFirst {
			streamID = "video2"
			ids = []string{streamID, "audio1"}
		} else {
			ids = append(ids, "audio2")
		}
	}
	for _, id := range ids {
		obs.streams = append(obs.streams, &plSeq{ID: id})
	}
	var m *gohlslib.Muxer
	hasContent := false // a media playlist request would not block
	writesDone := int64(0)
	var cbMutex sync.Mutex
	var pending []chan struct{} // requests started inside OnEncodeError
	m = &gohlslib.Muxer{
		Variant:            gohlslib.MuxerVariantLowLatency,
		Tracks:             tracks,
		SegmentCount:       c.SegCount,
		SegmentMinDuration: time.Duration(c.SegMin),
		PartMinDuration:    time.Duration(c.PartMin),
		OnEncodeError: func(err error) {
			if strings.HasPrefix(err.Error(), "part duration changed") {
				obs.Errors++
				// a client asks for every media playlist right now. On the pinned code the request
				// waits for the muxer mutex, which the writer holds until the new part target is
				// stored, so nothing comes back within the bounded wait (a direct call would
				// deadlock); whatever is served while the callback runs goes to the oracle.
				if hasContent {
					done := make(chan struct{})    // closed when the callback returns
					fetched := make(chan struct{}) // closed when the requests have been served
					pending = append(pending, fetched)
					errs := obs.Errors
					go func() {
						defer close(fetched)
						for i, id := range ids {
							code, body := get(m, id+"_stream.m3u8")
							select {
							case <-done: // the callback has returned: an ordinary request, not recorded
								return
							default:
							}
							if code != http.StatusOK {
								continue
							}
							if pl, e := parsePlaylist(string(body)); e == nil {
								cbMutex.Lock()
								obs.streams[i].add(viewObs{K: writesDone, PL: pl}, errs, true)
								cbMutex.Unlock()
							}
						}
					}()
					select {
					case <-fetched:
					case <-time.After(60 * time.Millisecond):
					}
					close(done)
				}
			} else {
				obs.OtherErrs = append(obs.OtherErrs, err.Error())
			}
		},
	}
	if err := m.Start(); err != nil {
		return nil, fmt.Errorf("Start: %w", err)
	}
	defer m.Close()

	viewAt := map[int]bool{}
	for _, k := range nviews {
		viewAt[k] = true
	}

	var curParts []partObs // parts closed since the last completed segment (Dur filled in later)
	var prevPT int64
	var prevPartID, prevSegID uint64
	{
		st := gohlslib.VerifSnapshot(m)
		l := leading(st)
		prevPartID, prevSegID = l.NextPartID, l.NextSegmentID
	}
	curSPS := spsA
	curSeq := av1SeqA
	audioNext := int64(0) // next audio pts in its own ticks, relative to the first video dts
	au := []byte{0x21, 0x10, 0x04, 0x60, 0x8c, 0x1c}

	sizes := c.callSizes()
	{
		t := 0
		for _, b := range sizes {
			if b < 1 {
				return nil, fmt.Errorf("bad call size %d", b)
			}
			t += b
		}
		if t != len(c.Flags) {
			return nil, fmt.Errorf("call sizes sum to %d, %d writes", t, len(c.Flags))
		}
	}

	dts := c.D0
	k := 0
	for ci, b := range sizes {
		fl := c.Flags[k]
		ntp := baseNTP.Add(time.Duration(k) * time.Millisecond)
		var err error
		switch c.Kind {
		case "h264":
			if fl == 3 {
				if bytes.Equal(curSPS, spsA) {
					curSPS = spsB
				} else {
					curSPS = spsA
				}
			}
			if fl != 0 {
				err = m.WriteH264(lead, ntp, dts, [][]byte{curSPS, pps, {0x65, 0x88, 0x84, 0x00, 0x10}})
			} else {
				err = m.WriteH264(lead, ntp, dts, [][]byte{{0x41, 0x9a, 0x24, 0x6c, 0x41}})
			}
		case "av1":
			if fl == 3 {
				if bytes.Equal(curSeq, av1SeqA) {
					curSeq = av1SeqB
				} else {
					curSeq = av1SeqA
				}
			}
			if fl != 0 {
				err = m.WriteAV1(lead, ntp, dts, [][]byte{curSeq, av1Frm})
			} else {
				err = m.WriteAV1(lead, ntp, dts, [][]byte{av1Frm})
			}
		case "aac":
			// b access units in one call: the caller's cadence is a constant 1024 samples, the
			// muxer derives the timestamps of the 2nd..b-th unit itself
			aus := make([][]byte, b)
			for i := range aus {
				aus[i] = au
				if c.Deltas[k+i] != 1024 {
					return nil, fmt.Errorf("AAC access units are 1024 samples")
				}
			}
			err = m.WriteMPEG4Audio(lead, ntp, dts, aus)
		case "opus":
			toc, ok := opusTOC[c.Deltas[k]]
			if !ok {
				toc = 0x98
			}
			err = m.WriteOpus(lead, ntp, dts, [][]byte{{toc, 0x01, 0x02}})
		}
		if err != nil {
			obs.WriteErrs = append(obs.WriteErrs, fmt.Sprintf("write %d: %v", k, err))
		}
		if audio != nil {
			// feed the non-leading track up to the video time, a2batch access units per call
			vt := (dts - c.D0) * a2rate / c.Rate
			for audioNext <= vt {
				apts := audioNext + c.D0*a2rate/c.Rate
				aus := make([][]byte, a2batch)
				for i := range aus {
					aus[i] = au[:4]
				}
				if e := m.WriteMPEG4Audio(audio, ntp, apts, aus); e != nil {
					obs.WriteErrs = append(obs.WriteErrs, fmt.Sprintf("audio write at %d: %v", k, e))
				}
				audioNext += 1024 * int64(a2batch)
			}
		}
		for _, ch := range pending { // requests started inside OnEncodeError are served once the call returns
			<-ch
		}
		pending = nil
		for i := 0; i < b; i++ {
			dts += c.Deltas[k+i]
		}
		k += b
		writesDone = int64(k)
		nk := int64(k)
		lastCall := ci == len(sizes)-1

		st := gohlslib.VerifSnapshot(m)
		l := leading(st)
		if l == nil {
			return nil, fmt.Errorf("no leading stream")
		}
		// parts closed by this call: count the samples delivered in each and add up their durations
		for id := prevPartID; id < l.NextPartID; id++ {
			path := fmt.Sprintf("%s_%s_part%d.mp4", st.Prefix, streamID, id)
			code, body := get(m, path)
			if code != http.StatusOK {
				return nil, fmt.Errorf("part %s: status %d", path, code)
			}
			var parts fmp4.Parts
			if e := parts.Unmarshal(body); e != nil {
				return nil, fmt.Errorf("part %s does not decode: %w", path, e)
			}
			var po partObs
			for _, p := range parts {
				for _, tr := range p.Tracks {
					if tr.ID == 1 {
						po.N += int64(len(tr.Samples))
						for _, sm := range tr.Samples {
							po.Ticks += int64(sm.Duration)
						}
					}
				}
			}
			curParts = append(curParts, po)
		}
		prevPartID = l.NextPartID
		segs, gaps, next := gohlslib.VerifLeadingParts(m)
		if nseg := int(l.NextSegmentID - prevSegID); nseg > 0 {
			// the segments completed by this call are the last nseg retained ones
			if nseg > len(segs) {
				return nil, fmt.Errorf("write %d: %d segments completed, %d retained", k, nseg, len(segs))
			}
			for _, sg := range segs[len(segs)-nseg:] {
				if sg == nil || len(sg) > len(curParts) || len(sg) == 0 {
					return nil, fmt.Errorf("write %d: unexpected segment bookkeeping", k)
				}
				sp := append([]partObs{}, curParts[:len(sg)]...)
				curParts = curParts[len(sg):]
				for i, d := range sg {
					sp[i].Dur = int64(d)
				}
				obs.NonFinal = append(obs.NonFinal, sp[:len(sp)-1]...)
				obs.Published = append(obs.Published, sp)
			}
			prevSegID = l.NextSegmentID
		}
		if len(next) != len(curParts) {
			return nil, fmt.Errorf("write %d: next segment has %d parts, %d were closed", k, len(next), len(curParts))
		}
		if pt := int64(l.PartTargetDuration); pt != prevPT {
			obs.PTTrace = append(obs.PTTrace, [2]int64{nk, pt})
			prevPT = pt
		}

		// the media playlist (only once it would not block)
		if l.SegmentCount >= 1 {
			hasContent = true
			for i, id := range ids {
				code, body := get(m, id+"_stream.m3u8")
				if code != http.StatusOK {
					return nil, fmt.Errorf("playlist %s: status %d after write %d", id, code, k)
				}
				pl, e := parsePlaylist(string(body))
				if e != nil {
					return nil, fmt.Errorf("playlist %s after write %d: %w", id, k, e)
				}
				cbMutex.Lock()
				obs.streams[i].add(viewObs{K: nk, PL: pl}, obs.Errors, false)
				cbMutex.Unlock()
				if i == 0 && (viewAt[ci] || lastCall) {
					obs.Views = append(obs.Views, viewObs{K: nk, PL: pl})
					obs.body[nk] = string(body)
				}
			}
		}

		if lastCall {
			obs.Adjusted = int64(st.AdjustedPartDuration)
			obs.Freeze = st.FreezeAdjustedPartDuration
			for i, sg := range segs {
				obs.RetGap = append(obs.RetGap, gaps[i])
				if gaps[i] {
					obs.Retained = append(obs.Retained, nil)
				} else {
					ds := make([]int64, 0, len(sg))
					for _, d := range sg {
						ds = append(ds, int64(d))
					}
					obs.Retained = append(obs.Retained, ds)
				}
			}
			for i, d := range next {
				po := curParts[i]
				po.Dur = int64(d)
				obs.Next = append(obs.Next, po)
				obs.NonFinal = append(obs.NonFinal, po)
			}
		}
	}
	return obs, nil
}
