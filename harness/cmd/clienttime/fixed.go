package main

// Hand-written small presentations that always run first (boundary cases and the minimal
// inputs of known deviations).
func fixedDescs() []Desc {
	var out []Desc
	date := int64(1700000000) * 1000000000

	// 1. the layout of gohlslib's own TestClient (fmp4_singleplaylist), base time 6 s
	out = append(out, Desc{
		Kind: "fmp4", Mode: "vod", Addr: "whole", PDT: "all", MediaSeq: 20,
		Leading: StreamDesc{
			Tracks: []TrackDesc{{ID: 99, TimeScale: 90000, Codec: "h264"}, {ID: 98, TimeScale: 44100, Codec: "aac"}},
			Segs: []SegDesc{
				{HasDate: true, Date: date, DurNs: 66666666, Parts: []PartDesc{{Tracks: []PartTrackDesc{
					{Track: 1, Base: 44100 * 6, Samples: []SampleDesc{{Dur: 1470, ID: 0}, {Dur: 1470, ID: 1}}},
					{Track: 0, Base: 90000 * 6, Samples: []SampleDesc{{Dur: 3000, Off: 180000, ID: 2}, {Dur: 3000, Off: 180000, ID: 3}}},
				}}}},
				{HasDate: true, Date: date + 66666666, DurNs: 33333333, Parts: []PartDesc{{Tracks: []PartTrackDesc{
					{Track: 0, Base: 90000*6 + 6000, Samples: []SampleDesc{{Dur: 3000, ID: 4}}},
				}}}},
			},
			FirstLen: 2,
		},
	})

	// 2. minimal byte-range playlist whose second segment omits the offset (RFC 8216 4.3.2.2)
	out = append(out, Desc{
		Kind: "fmp4", Mode: "vod", Addr: "range-implicit", PDT: "none", MediaSeq: 0,
		Leading: StreamDesc{
			Tracks: []TrackDesc{{ID: 1, TimeScale: 90000, Codec: "h264"}},
			Segs: []SegDesc{
				{DurNs: 66666666, Parts: []PartDesc{{Tracks: []PartTrackDesc{
					{Track: 0, Base: 0, Samples: []SampleDesc{{Dur: 3000, ID: 0}, {Dur: 3000, ID: 1}}}}}}},
				{DurNs: 66666666, Parts: []PartDesc{{Tracks: []PartTrackDesc{
					{Track: 0, Base: 6000, Samples: []SampleDesc{{Dur: 3000, ID: 2}, {Dur: 3000, ID: 3}}}}}}},
			},
			FirstLen: 2,
		},
	})

	// 3. the MPEG-TS layout of TestClient: dts one second before the 33-bit wrap, pts after it
	out = append(out, Desc{
		Kind: "mpegts", Mode: "vod", Addr: "whole", PDT: "all", MediaSeq: 0,
		Leading: StreamDesc{
			Tracks: []TrackDesc{{TimeScale: 90000, Codec: "h264"}, {TimeScale: 90000, Codec: "aac"}},
			Segs: []SegDesc{
				{HasDate: true, Date: date, DurNs: 66666666, PES: []PESDesc{
					{Track: 0, PTS: 8589844592 + 180000, DTS: 8589844592, ID: 0, AUs: 1, IDR: true},
					{Track: 0, PTS: 8589844592 + 183000, DTS: 8589844592 + 3000, ID: 1, AUs: 1},
					{Track: 1, PTS: 8589844592, DTS: 8589844592, ID: 2, AUs: 1},
					{Track: 1, PTS: 8589844592 + 3000, DTS: 8589844592 + 3000, ID: 3, AUs: 1},
				}},
				{HasDate: true, Date: date + 66666666, DurNs: 33333333, PES: []PESDesc{
					{Track: 0, PTS: 8589844592 + 6000, DTS: 8589844592 + 6000, ID: 4, AUs: 1, IDR: true},
				}},
			},
			FirstLen: 2,
		},
	})

	// 4. fMP4, two playlists with different clocks, origin 2^40, the audio rendition starts
	//    one tick before and one tick after the origin boundary
	big := int64(1) << 40
	ab := mulDivFloorBig(big, 44100, 90000)
	out = append(out, Desc{
		Kind: "fmp4", Mode: "vod", Addr: "range", PDT: "all", MediaSeq: 7, Multi: true,
		Leading: StreamDesc{
			Tracks: []TrackDesc{{ID: 1, TimeScale: 90000, Codec: "h264"}},
			Segs: []SegDesc{
				{HasDate: true, Date: date, DurNs: 100000000, Parts: []PartDesc{
					{Tracks: []PartTrackDesc{{Track: 0, Base: big, Samples: []SampleDesc{{Dur: 3000, Off: 3000, ID: 0}, {Dur: 3000, Off: -3000, ID: 1}}}}},
					{Tracks: []PartTrackDesc{{Track: 0, Base: big + 6000, Samples: []SampleDesc{{Dur: 3000, Off: 0, ID: 2}}}}},
				}},
			},
			FirstLen: 1,
		},
		Rends: []StreamDesc{{
			Name: "English", Lang: "en", Default: true,
			Tracks: []TrackDesc{{ID: 1, TimeScale: 44100, Codec: "aac"}},
			Segs: []SegDesc{
				{HasDate: true, Date: date, DurNs: 100000000, Parts: []PartDesc{
					{Tracks: []PartTrackDesc{{Track: 0, Base: ab - 1, Samples: []SampleDesc{{Dur: 1, ID: 3}, {Dur: 1, ID: 4}, {Dur: 1, ID: 5}, {Dur: 1470, ID: 6}}}}},
				}},
			},
			FirstLen: 1,
		}},
	})

	// 5. MPEG-TS, the PMT lists an elementary stream the client does not support (MPEG-1 audio,
	//    with PES data of its own) BEFORE the H264 stream; the audio starts half a frame after
	//    the video: tracks = H264, MPEG-4 audio; origin = first video dts
	out = append(out, Desc{
		Kind: "mpegts", Mode: "vod", Addr: "whole", PDT: "all", MediaSeq: 0,
		Leading: StreamDesc{
			Tracks: []TrackDesc{{TimeScale: 90000, Codec: "h264"}, {TimeScale: 90000, Codec: "aac"}},
			Unsup:  []UnsupDesc{{Codec: "mp3", Before: 0}},
			Segs: []SegDesc{
				{HasDate: true, Date: date, DurNs: 100000000, PES: []PESDesc{
					{Track: 0, PTS: 900000, DTS: 900000, ID: 0, AUs: 1, IDR: true},
					{Track: 1, PTS: 901500, DTS: 901500, ID: 1, AUs: 1},
					{Track: 0, PTS: 903000, DTS: 903000, ID: 2, AUs: 1},
					{Track: 1, PTS: 903590, DTS: 903590, ID: 3, AUs: 1},
					{Track: 0, PTS: 906000, DTS: 906000, ID: 4, AUs: 1},
				}, XPES: []XPESDesc{{X: 0, After: 1, PTS: 900100, ID: 5}, {X: 0, After: 4, PTS: 902451, ID: 6}}},
			},
			FirstLen: 1,
		},
	})

	// 6. the same without a supported audio track and without PES data on the unsupported streams:
	//    PMT = MPEG-1 audio, H265, H264, Opus
	out = append(out, Desc{
		Kind: "mpegts", Mode: "vod", Addr: "whole", PDT: "all", MediaSeq: 0,
		Leading: StreamDesc{
			Tracks: []TrackDesc{{TimeScale: 90000, Codec: "h264"}},
			Unsup:  []UnsupDesc{{Codec: "mp3", Before: 0}, {Codec: "h265", Before: 0}, {Codec: "opus", Before: 1}},
			Segs: []SegDesc{
				{HasDate: true, Date: date, DurNs: 100000000, PES: []PESDesc{
					{Track: 0, PTS: 900000, DTS: 900000, ID: 0, AUs: 1, IDR: true},
					{Track: 0, PTS: 903000, DTS: 903000, ID: 1, AUs: 1},
					{Track: 0, PTS: 906000, DTS: 906000, ID: 2, AUs: 1},
				}},
			},
			FirstLen: 1,
		},
	})

	// 7. fMP4: the init section declares a MPEG-1 audio track (a codec the client filters out of
	//    OnTracks) between the H264 and the MPEG-4 audio track; every fragment carries a traf for
	//    it, and one for track ID 9 that the init section does not declare, at varying positions
	//    among the supported tracks' trafs: tracks = H264, MPEG-4 audio; all 9 + 9 samples are
	//    delivered and the client reaches the end of the stream
	{
		var segs []SegDesc
		id := 0
		xid := 1000
		for k := 0; k < 3; k++ {
			mk := func(track int, base, dur int64, ids *int) PartTrackDesc {
				pt := PartTrackDesc{Track: track, Base: base}
				for i := 0; i < 3; i++ {
					pt.Samples = append(pt.Samples, SampleDesc{Dur: dur, ID: *ids})
					*ids++
				}
				return pt
			}
			v := mk(0, 90000*2+int64(k)*9000, 3000, &id)
			a := mk(1, 48000*2+int64(k)*4800, 1600, &id)
			m := mk(-1, 44100*2+int64(k)*4410, 1470, &xid)
			t := mk(-2, 1000*2+int64(k)*100, 33, &xid)
			order := [][]PartTrackDesc{{v, m, a, t}, {m, t, a, v}, {t, a, v, m}}[k]
			segs = append(segs, SegDesc{HasDate: true, Date: date + int64(k)*100000000, DurNs: 100000000,
				Parts: []PartDesc{{Tracks: order}}})
		}
		out = append(out, Desc{
			Kind: "fmp4", Mode: "vod", Addr: "whole", PDT: "all", MediaSeq: 0,
			Leading: StreamDesc{
				Tracks: []TrackDesc{{ID: 1, TimeScale: 90000, Codec: "h264"}, {ID: 3, TimeScale: 48000, Codec: "aac"}},
				Unsup: []UnsupDesc{{Codec: "mp3", Before: 1, ID: 2, TimeScale: 44100},
					{Codec: "none", Absent: true, ID: 9, TimeScale: 1000}},
				Segs:     segs,
				FirstLen: 3,
			},
		})
	}
	return out
}
