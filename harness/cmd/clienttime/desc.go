package main

// Abstract description of a synthesised HLS stream (the "input" of an end-to-end case).
// Everything the harness serves to the Client is built from a Desc; the model case and
// the property oracle are computed from the same Desc.

// TrackDesc is one track of a stream.
type TrackDesc struct {
	ID        int    `json:"id"`    // fMP4 track ID (unused for MPEG-TS)
	TimeScale int64  `json:"ts"`    // fMP4 timescale; 90000 for MPEG-TS
	Codec     string `json:"codec"` // h264 | aac | opus
}

func (t TrackDesc) isVideo() bool { return t.Codec == "h264" }

// SampleDesc is one fMP4 sample.
type SampleDesc struct {
	Dur int64 `json:"dur"`
	Off int64 `json:"off"`
	ID  int   `json:"id"` // payload identifier, unique within the Desc
}

// PartTrackDesc is one traf of a fragment.
type PartTrackDesc struct {
	// index into StreamDesc.Tracks; negative: the traf of a track the client does not process,
	// StreamDesc.Unsup[-1-Track] (its samples are never a Client callback)
	Track   int          `json:"track"`
	Base    int64        `json:"base"`
	Samples []SampleDesc `json:"samples"`
}

// PartDesc is one fragment (moof+mdat).
type PartDesc struct {
	Tracks []PartTrackDesc `json:"tracks"`
}

// PESDesc is one MPEG-TS PES packet; PTS/DTS are TRUE 90 kHz times (not reduced mod 2^33).
type PESDesc struct {
	Track int   `json:"track"`
	PTS   int64 `json:"pts"`
	DTS   int64 `json:"dts"`
	ID    int   `json:"id"`
	AUs   int   `json:"aus"` // number of access units in the PES (audio)
	IDR   bool  `json:"idr,omitempty"`
}

// UnsupDesc is a track the client does not process.
//
// MPEG-TS: an elementary stream of the PMT with a codec the client does not support. The PMT
// lists, for i = 0..len(Tracks): every UnsupDesc with Before == i (in the order of
// StreamDesc.Unsup), then Tracks[i].
//
// fMP4: either a track of the init section with a codec the client filters out of OnTracks
// (listed in the init like a PMT entry: before supported track #Before), or, with Absent, a
// track ID that fragments carry a traf for although the init section does not declare it (e.g.
// timed metadata added by a packager). The trafs are PartTrackDesc entries with a negative Track.
type UnsupDesc struct {
	// MPEG-TS: mp3 | ac3 | opus | h265 | mpeg4video | mpeg1video
	// fMP4:    mp3 | ac3 | lpcm | mjpeg | mpeg4video | mpeg1video ("none" with Absent)
	Codec     string `json:"codec"`
	Before    int    `json:"before"`           // listed before supported track #Before (len(Tracks): after all of them)
	ID        int    `json:"id,omitempty"`     // fMP4 track ID
	TimeScale int64  `json:"ts,omitempty"`     // fMP4 timescale
	Absent    bool   `json:"absent,omitempty"` // fMP4: not declared in the init section
}

func (u UnsupDesc) isVideo() bool {
	return u.Codec == "mjpeg" || u.Codec == "mpeg4video" || u.Codec == "mpeg1video" || u.Codec == "h265"
}

// XPESDesc is one PES of an unsupported elementary stream.
type XPESDesc struct {
	X     int   `json:"x"`     // index into StreamDesc.Unsup
	After int   `json:"after"` // written after the first After entries of SegDesc.PES (0: before all of them)
	PTS   int64 `json:"pts"`   // TRUE 90 kHz time
	ID    int   `json:"id"`
}

// SegDesc is one media segment.
type SegDesc struct {
	HasDate bool       `json:"has_date"`
	Date    int64      `json:"date"` // EXT-X-PROGRAM-DATE-TIME, ns since the Unix epoch
	Parts   []PartDesc `json:"parts,omitempty"`
	PES     []PESDesc  `json:"pes,omitempty"`  // in write order
	XPES    []XPESDesc `json:"xpes,omitempty"` // PES of unsupported elementary streams, interleaved by After
	DurNs   int64      `json:"dur_ns"`         // EXTINF
}

// StreamDesc is one media playlist.
type StreamDesc struct {
	Tracks   []TrackDesc `json:"tracks"`          // the SUPPORTED tracks, in PMT / init order
	Unsup    []UnsupDesc `json:"unsup,omitempty"` // tracks the client does not process (PMT entries / init tracks / undeclared track IDs)
	Segs     []SegDesc   `json:"segs"`
	FirstLen int         `json:"first_len"` // live: number of segments in the first playlist response
	TrimTo   int         `json:"trim_to"`   // live: later responses start at this segment
	Name     string      `json:"name,omitempty"`
	Lang     string      `json:"lang,omitempty"`
	Default  bool        `json:"default,omitempty"`
}

// Desc is a whole synthesised presentation.
type Desc struct {
	Kind     string       `json:"kind"` // fmp4 | mpegts
	Mode     string       `json:"mode"` // vod | live | event | endlist
	Addr     string       `json:"addr"` // whole | range | range-implicit
	PDT      string       `json:"pdt"`  // none | all | first
	MediaSeq int          `json:"media_seq"`
	Multi    bool         `json:"multi"` // multivariant playlist (always true with renditions)
	Cap      bool         `json:"cap"`   // contains a jump of more than 10 s (client must stop with the DTS-RTC error)
	Leading  StreamDesc   `json:"leading"`
	Rends    []StreamDesc `json:"rends,omitempty"`
}

func (d *Desc) streams() []*StreamDesc {
	out := []*StreamDesc{&d.Leading}
	for i := range d.Rends {
		out = append(out, &d.Rends[i])
	}
	return out
}

// firstSeg returns the index of the first segment the Client downloads from a stream
// (client_stream_downloader.go fillSegmentQueue; C11 verifies that logic, here it is an
// input cross-checked against the request log).
func (d *Desc) firstSeg(s *StreamDesc) int {
	switch d.Mode {
	case "vod":
		return 0
	case "endlist":
		return len(s.Segs) - 3
	default: // live, event
		return s.FirstLen - 3
	}
}

// pmtEntry is one elementary stream of a MPEG-TS playlist's PMT, in PMT order; for fMP4, one
// track of the init section, in init order.
type pmtEntry struct {
	Sup   int    // index into StreamDesc.Tracks, -1 for an unsupported stream
	X     int    // index into StreamDesc.Unsup, -1 for a supported stream
	Codec string // h264 | aac | mp3 | ac3 | opus | h265 | mpeg4video | mpeg1video | lpcm | mjpeg
}

func (st *StreamDesc) pmt() []pmtEntry {
	var out []pmtEntry
	for i := 0; i <= len(st.Tracks); i++ {
		for x, u := range st.Unsup {
			if u.Absent {
				continue
			}
			b := u.Before
			if b < 0 {
				b = 0
			}
			if b > len(st.Tracks) {
				b = len(st.Tracks)
			}
			if b == i {
				out = append(out, pmtEntry{Sup: -1, X: x, Codec: u.Codec})
			}
		}
		if i < len(st.Tracks) {
			out = append(out, pmtEntry{Sup: i, X: -1, Codec: st.Tracks[i].Codec})
		}
	}
	return out
}

// trafTrack resolves a traf of a fMP4 stream: the track ID it carries, whether it belongs to a
// track the client processes, whether its samples are video.
func (st *StreamDesc) trafTrack(pt PartTrackDesc) (id int, supported bool, video bool, ok bool) {
	if pt.Track >= 0 {
		if pt.Track >= len(st.Tracks) {
			return 0, false, false, false
		}
		t := st.Tracks[pt.Track]
		return t.ID, true, t.isVideo(), true
	}
	x := -1 - pt.Track
	if x >= len(st.Unsup) {
		return 0, false, false, false
	}
	return st.Unsup[x].ID, false, st.Unsup[x].isVideo(), true
}

// unsupTrafSeg returns the index of the first segment >= from that carries a traf of a track
// the client does not process (-1: none).
func (st *StreamDesc) unsupTrafSeg(from int) int {
	if from < 0 {
		from = 0
	}
	for k := from; k < len(st.Segs); k++ {
		for _, p := range st.Segs[k].Parts {
			for _, pt := range p.Tracks {
				if pt.Track < 0 {
					return k
				}
			}
		}
	}
	return -1
}
