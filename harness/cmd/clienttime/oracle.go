package main

import (
	"fmt"
	"math/big"
)

// The property oracle (S leg), written from the text of C10 and nothing else:
//   - the client reports exactly the stream's supported tracks;
//   - it delivers every access unit of every segment it downloads, byte-identical, in order
//     per track;
//   - delivered DTS/PTS = container timestamps minus the first DTS of the leading track
//     (video if any, else the first), expressed in each track's clock rate;
//   - units that precede this origin are dropped, never delivered with negative time;
//   - AbsoluteTime = the segment's EXT-X-PROGRAM-DATE-TIME plus the unit's offset from that
//     segment's first leading-track unit.
// "The stream's supported tracks": StreamDesc.Tracks, i.e. the H264 / MPEG-4 audio (fMP4: also
// Opus) tracks in PMT / init order; a MPEG-TS PMT may list other elementary streams anywhere
// (StreamDesc.Unsup, with or without PES data): they are not reported, they do not take part in
// the choice of the leading track ("the video track if any, else the first" of the supported
// ones), and a callback carrying one of their PES is an unexpected unit. The same for fMP4: the
// init section may declare tracks with other codecs (MPEG-1 audio, AC-3, LPCM, MJPEG, MPEG-4 /
// MPEG-1 video) anywhere among the supported ones, and fragments may carry trafs for them or for
// track IDs the init section does not declare; every sample of the supported tracks is still
// delivered and the client reaches the end of the stream. A client that stops making progress on
// such a stream (no error, no ErrClientEOS within the harness' watchdog, three times in a row)
// is reported under the signature C10:fmp4:stall-with-unsupported-traf.
// "Expressed in the track's clock rate" is an integer: where origin*rate/leadingRate is not
// an integer the oracle accepts either neighbouring tick (and any decision for a unit that
// precedes the origin by less than one tick), but requires one and the same shift for all
// units of a track. MPEG-TS units that the demultiplexer hands over before the leading
// track's first unit of the first downloaded segment may be dropped (the stream processor
// has no origin yet; DESIGN.md C10 lists this as by-design).

type expUnit struct {
	id      int
	cpts    int64 // container pts (track clock; MPEG-TS: true time)
	cdts    int64
	seg     int
	exempt  bool // may be dropped whatever its time (MPEG-TS, before the leading track started)
	preLead bool
}

type failure struct {
	Signature string      `json:"signature"`
	What      string      `json:"what"`
	Input     interface{} `json:"input"`
}

func leadIndex(tracks []TrackDesc) int {
	for i, t := range tracks {
		if t.isVideo() {
			return i
		}
	}
	return 0
}

func bmul(a, b int64) *big.Int { return new(big.Int).Mul(big.NewInt(a), big.NewInt(b)) }

// fMP4: base time of the first part track of the stream's leading track in segment k
func firstLeadBase(st *StreamDesc, k int) (int64, bool) {
	li := leadIndex(st.Tracks)
	for _, p := range st.Segs[k].Parts {
		for _, pt := range p.Tracks {
			if pt.Track == li {
				return pt.Base, true
			}
		}
	}
	return 0, false
}

func expectedFMP4(st *StreamDesc, ti int, from int) []expUnit {
	var out []expUnit
	for k := from; k < len(st.Segs); k++ {
		for _, p := range st.Segs[k].Parts {
			for _, pt := range p.Tracks {
				if pt.Track != ti {
					continue
				}
				t := pt.Base
				for _, sm := range pt.Samples {
					out = append(out, expUnit{id: sm.ID, cpts: t + sm.Off, cdts: t, seg: k})
					t += sm.Dur
				}
			}
		}
	}
	return out
}

func oracle(d *Desc, res *runResult, em [][]emitted) []failure {
	var fails []failure
	sigBase := "C10:" + d.Kind + ":" + d.Addr + ":"
	fail := func(what, format string, a ...interface{}) {
		fails = append(fails, failure{Signature: sigBase + what, What: fmt.Sprintf(format, a...), Input: d})
	}
	if d.Kind == "fmp4" && res.Outcome == "timeout" {
		// the watchdog fired (playOne: three runs in a row). With a traf of a track the client does
		// not process among the segments it downloads this is one finding, whatever the addressing
		for si, st := range d.streams() {
			k := st.unsupTrafSeg(d.firstSeg(st))
			if k < 0 {
				continue
			}
			got, want := 0, 0
			for _, t := range res.Tracks {
				got += len(t.Units)
			}
			for _, s2 := range d.streams() {
				for ti := range s2.Tracks {
					want += len(expectedFMP4(s2, ti, d.firstSeg(s2)))
				}
			}
			fails = append(fails, failure{Signature: "C10:fmp4:stall-with-unsupported-traf",
				What: fmt.Sprintf("the client neither reached the end of the stream nor reported an error within the watchdog (three runs): "+
					"%d of the %d samples of the supported tracks delivered; segment %d of playlist %d is the first downloaded one whose "+
					"fragments carry a traf of a track the client does not report (unsupported codec or track ID absent from the init section)",
					got, want, k, si), Input: d})
			return fails
		}
	}
	if d.Cap {
		return nil // not a well-formed stream: only the model comparison applies
	}
	if res.Outcome != "eos" {
		fail("client-stopped", "the client did not play the stream to its end: %s", res.Outcome)
		return fails
	}
	streams := d.streams()
	// 1. tracks
	type tref struct{ si, ti int }
	var want []tref
	for si, st := range streams {
		for ti := range st.Tracks {
			want = append(want, tref{si, ti})
		}
	}
	if len(want) != len(res.Tracks) {
		fail("tracks", "OnTracks reported %d tracks, the stream has %d supported tracks", len(res.Tracks), len(want))
		return fails
	}
	for i, w := range want {
		td := streams[w.si].Tracks[w.ti]
		ot := res.Tracks[i]
		if ot.Codec != td.Codec || ot.ClockRate != td.TimeScale {
			fail("tracks", "track %d reported as %s/%d, the stream has %s/%d", i, ot.Codec, ot.ClockRate, td.Codec, td.TimeScale)
		}
	}
	if len(fails) > 0 {
		return fails
	}

	// 2. origin
	lead := &d.Leading
	li := leadIndex(lead.Tracks)
	rl := lead.Tracks[li].TimeScale
	first := d.firstSeg(lead)
	var origin int64
	if d.Kind == "fmp4" {
		b, ok := firstLeadBase(lead, first)
		if !ok {
			return nil
		}
		origin = b
	} else {
		found := false
		for _, e := range em[0] {
			if e.Track == li {
				origin = trueTimes(lead, e.ID).DTS
				found = true
				break
			}
		}
		if !found {
			return nil
		}
	}

	// 3. units per track
	for i, w := range want {
		st := streams[w.si]
		td := st.Tracks[w.ti]
		r := td.TimeScale
		var exp []expUnit
		if d.Kind == "fmp4" {
			exp = expectedFMP4(st, w.ti, d.firstSeg(st))
		} else {
			sl := leadIndex(st.Tracks)
			started := false
			for _, e := range em[w.si] {
				if e.Track == sl {
					started = true
				}
				if e.Track != w.ti {
					continue
				}
				p := trueTimes(st, e.ID)
				exp = append(exp, expUnit{id: e.ID, cpts: p.PTS, cdts: p.DTS, seg: e.Seg, exempt: !started})
			}
		}
		obs := res.Tracks[i].Units
		j := 0
		var shift *int64
		for _, u := range exp {
			// num = (cpts/r - origin/rl) * r * rl
			num := new(big.Int).Sub(bmul(u.cpts, rl), bmul(origin, r))
			mustDeliver := num.Sign() >= 0 && !u.exempt
			mustDrop := num.Cmp(big.NewInt(-rl)) <= 0
			if j < len(obs) && obs[j].ID == u.id {
				o := obs[j]
				j++
				if mustDrop {
					fail("delivered-before-origin", "track %d: unit %d precedes the origin (container pts %d, origin %d/%d) but was delivered with pts %d", i, u.id, u.cpts, origin, rl, o.PTS)
					continue
				}
				if o.PTS < 0 || (o.HasDTS && o.DTS < 0) {
					fail("negative-time", "track %d: unit %d delivered with pts %d dts %d", i, u.id, o.PTS, o.DTS)
				}
				// |pts*rl - num| < rl
				diff := new(big.Int).Sub(bmul(o.PTS, rl), num)
				if diff.CmpAbs(big.NewInt(rl)) >= 0 {
					fail("pts", "track %d (clock %d): unit %d delivered with pts %d; container pts %d minus origin %d (clock %d) is %s/%d ticks",
						i, r, u.id, o.PTS, u.cpts, origin, rl, num.String(), rl)
				}
				if o.HasDTS && o.PTS-o.DTS != u.cpts-u.cdts {
					fail("dts", "track %d: unit %d delivered with pts-dts = %d, the container has %d", i, u.id, o.PTS-o.DTS, u.cpts-u.cdts)
				}
				sh := o.PTS - u.cpts
				if shift == nil {
					shift = &sh
				} else if *shift != sh {
					fail("pts", "track %d: units shifted by different amounts (%d and %d): not one origin", i, *shift, sh)
				}
			} else if mustDeliver {
				fail("missing-unit", "track %d: unit %d of segment %d (container pts %d, origin %d/%d) was not delivered in order", i, u.id, u.seg, u.cpts, origin, rl)
			}
		}
		if j < len(obs) {
			fail("unexpected-unit", "track %d: %d callbacks beyond the stream's units in order (first: payload id %d pts %d)", i, len(obs)-j, obs[j].ID, obs[j].PTS)
		}
	}

	// 4. AbsoluteTime
	if d.PDT != "none" {
		for i, w := range want {
			st := streams[w.si]
			r := st.Tracks[w.ti].TimeScale
			byID := map[int]expUnit{}
			if d.Kind == "fmp4" {
				for _, u := range expectedFMP4(st, w.ti, 0) {
					byID[u.id] = u
				}
			} else {
				for _, e := range em[w.si] {
					if e.Track == w.ti {
						p := trueTimes(st, e.ID)
						byID[e.ID] = expUnit{id: e.ID, cpts: p.PTS, cdts: p.DTS, seg: e.Seg}
					}
				}
			}
			for _, o := range res.Tracks[i].Units {
				u, ok := byID[o.ID]
				if !ok || !o.HasNTP {
					continue
				}
				sg := lead.Segs[u.seg]
				if !sg.HasDate {
					continue
				}
				var L int64
				if d.Kind == "fmp4" {
					L, _ = firstLeadBase(lead, u.seg)
				} else {
					L = firstLeadDTS(lead, u.seg)
				}
				// expected offset in ns = (cdts/r - L/rl) * 1e9 ; compare with tolerance
				num := new(big.Int).Sub(bmul(u.cdts, rl), bmul(L, r)) // * 1e9 / (r*rl)
				num.Mul(num, big.NewInt(1000000000))
				den := bmul(r, rl)
				got := new(big.Int).Mul(big.NewInt(o.NTP-sg.Date), den)
				diff := new(big.Int).Sub(got, num)
				// tolerance: 2 ticks of the track clock + 2 ticks of the leading clock + 10 ns
				tol := new(big.Int).Add(bmul(2000000000, rl), bmul(2000000000, r))
				tol.Add(tol, new(big.Int).Mul(big.NewInt(10), den))
				if diff.CmpAbs(tol) > 0 {
					fail("abs-time", "track %d: unit %d AbsoluteTime %d ns, segment date %d + offset of container dts %d (clock %d) from the segment's first leading unit %d (clock %d)",
						i, u.id, o.NTP, sg.Date, u.cdts, r, L, rl)
				}
			}
		}
	}
	return fails
}

func trueTimes(st *StreamDesc, id int) PESDesc {
	for _, sg := range st.Segs {
		for _, p := range sg.PES {
			if p.ID == id {
				return p
			}
		}
	}
	return PESDesc{ID: -1}
}

// true DTS of the first unit (in decode order) of the leading track in segment k
func firstLeadDTS(st *StreamDesc, k int) int64 {
	li := leadIndex(st.Tracks)
	best := int64(-1)
	for _, p := range st.Segs[k].PES {
		if p.Track == li && (best < 0 || p.DTS < best) {
			best = p.DTS
		}
	}
	return best
}
