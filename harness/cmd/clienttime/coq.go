package main

import (
	"fmt"
	"os"
	"path/filepath"
	"strings"

	"verifharness/internal/coqfmt"
)

type shardWriter struct {
	dir     string
	per     int
	idx     int
	inShard int
	f       *os.File
	index   []caseRef // case id of every emitted case, by (shard, position)
}

type caseRef struct {
	Shard int    `json:"shard"`
	Index int    `json:"index"`
	Kind  string `json:"kind"` // direct | e2e
	ID    int    `json:"id"`
}

func newShardWriter(dir string) *shardWriter { return &shardWriter{dir: dir, idx: -1} }

func (w *shardWriter) close() {
	if w.f != nil {
		fmt.Fprintln(w.f, "].")
		fmt.Fprintln(w.f, "Definition M := Eval vm_compute in mismatches cases.")
		fmt.Fprintln(w.f, "Print M.")
		w.f.Close()
		w.f = nil
	}
}

func (w *shardWriter) add(term string, per int, kind string, id int) {
	if w.f == nil || w.inShard >= w.per {
		w.close()
		w.idx++
		w.inShard = 0
		w.per = per
		f, err := os.Create(filepath.Join(w.dir, fmt.Sprintf("cases_%d.v", w.idx)))
		if err != nil {
			panic(err)
		}
		w.f = f
		fmt.Fprintln(f, "From Coq Require Import List ZArith Uint63.")
		fmt.Fprintln(f, "From GoHls Require Import Model.ClientTime Tie.ClientTimeTie.")
		fmt.Fprintln(f, "Import ListNotations. Open Scope Z_scope.")
		fmt.Fprintln(f, "Definition cases : list tcase := [")
	}
	if w.inShard > 0 {
		fmt.Fprintln(w.f, ";")
	}
	fmt.Fprint(w.f, term)
	w.index = append(w.index, caseRef{Shard: w.idx, Index: w.inShard, Kind: kind, ID: id})
	w.inShard++
}

// zlit prints a 64-bit value as a primitive-integer literal wrapped by Tie.ClientTimeTie.zi/zn
func zlit(v int64) string {
	switch {
	case v >= 0:
		return fmt.Sprintf("(zi %d)", v)
	case v == -v: // MinInt64
		return coqfmt.Z(v)
	default:
		return fmt.Sprintf("(zn %d)", -v)
	}
}

func zs(vs []int64) string {
	var p []string
	for _, v := range vs {
		p = append(p, zlit(v))
	}
	return coqfmt.List(p)
}

func optZ(has bool, v int64) string {
	if !has {
		return "None"
	}
	return "(Some " + zlit(v) + ")"
}

func outcomeCode(o string) int64 {
	switch o {
	case "eos":
		return 0
	case "dtsrtc":
		return 1
	case "noleading":
		return 2
	}
	return 9
}

func coqObs(res *runResult) (tracks string, obs string) {
	var ts, os_ []string
	for _, t := range res.Tracks {
		ts = append(ts, fmt.Sprintf("(%s, %s)", zlit(t.ClockRate), coqfmt.Bool(t.Video)))
		var us []string
		for _, u := range t.Units {
			us = append(us, fmt.Sprintf("Build_obsUnit %s %s %s %s", zlit(u.PTS), optZ(u.HasDTS, u.DTS), optZ(u.HasNTP, u.NTP), zlit(int64(u.ID))))
		}
		os_ = append(os_, coqfmt.List(us))
	}
	return coqfmt.List(ts), coqfmt.List(os_)
}

// the fMP4 stream as the Client downloaded it. Model/ClientTime.v has no fMP4 counterpart of the
// MPEG-TS PMT level (supportedTracks / readerView): st_init is p.init.Tracks after run() has
// filtered the codecs, so the model is given the supported tracks only, as the client sees them.
// The fragments are given whole: a traf of a track the client does not process (declared with
// an unsupported codec, or not declared at all) carries an ID that st_init does not have, which
// the model's processPartTrack skips ("if !ok { continue }").
func coqStream(st *StreamDesc, segIdx []int) string {
	var init []string
	for _, t := range st.Tracks {
		init = append(init, fmt.Sprintf("Build_initTrack %d %d %s", t.ID, t.TimeScale, coqfmt.Bool(t.isVideo())))
	}
	var segs []string
	for _, k := range segIdx {
		sg := st.Segs[k]
		var parts []string
		for _, p := range sg.Parts {
			var pts []string
			for _, pt := range p.Tracks {
				var ss []string
				for _, sm := range pt.Samples {
					ss = append(ss, fmt.Sprintf("Build_sample %s %s %d 0", zlit(sm.Dur), zlit(sm.Off), sm.ID))
				}
				id, _, _, _ := st.trafTrack(pt)
				pts = append(pts, fmt.Sprintf("Build_partTrack %d %s %s 0%%nat", id, zlit(pt.Base), coqfmt.List(ss)))
			}
			parts = append(parts, coqfmt.List(pts))
		}
		segs = append(segs, fmt.Sprintf("Build_segment %s %s", optZ(sg.HasDate, sg.Date), coqfmt.List(parts)))
	}
	return fmt.Sprintf("(Build_stream %s\n %s)", coqfmt.List(init), "["+strings.Join(segs, ";\n  ")+"]")
}

// the MPEG-TS stream as mediacommon's Reader sees it: the PMT (supported and unsupported
// elementary streams) and every PES the demultiplexer completes, track = position in the PMT
func coqMStream(st *StreamDesc, segIdx []int, em []emitted) string {
	var tr []string
	for _, e := range st.pmt() {
		switch e.Codec {
		case "h264":
			tr = append(tr, "PH264")
		case "aac":
			tr = append(tr, "PMPEG4Audio")
		default:
			tr = append(tr, "POther")
		}
	}
	var segs []string
	for _, k := range segIdx {
		sg := st.Segs[k]
		var ps []string
		for _, e := range em {
			if e.Seg != k {
				continue
			}
			ps = append(ps, fmt.Sprintf("Build_pes %d%%nat %s %s %s 0 0%%nat", e.PMT, zlit(e.RawPTS), zlit(e.RawDTS), zlit(int64(e.ID))))
		}
		segs = append(segs, fmt.Sprintf("Build_msegment %s %s", optZ(sg.HasDate, sg.Date), coqfmt.List(ps)))
	}
	return fmt.Sprintf("(Build_pmtStream %s\n %s)", coqfmt.List(tr), "["+strings.Join(segs, ";\n  ")+"]")
}

func coqE2E(d *Desc, res *runResult, dl [][]int, em [][]emitted) string {
	tracks, obs := coqObs(res)
	streams := d.streams()
	var rends []string
	var leading string
	for si, st := range streams {
		var s string
		if d.Kind == "fmp4" {
			s = coqStream(st, dl[si])
		} else {
			s = coqMStream(st, dl[si], em[si])
		}
		if si == 0 {
			leading = s
		} else {
			rends = append(rends, s)
		}
	}
	ctor := "EF"
	if d.Kind == "mpegts" {
		ctor = "EP"
	}
	return fmt.Sprintf("TE (%s %s\n %s\n %s\n %s %s)", ctor, leading, coqfmt.List(rends), tracks, obs, zlit(outcomeCode(res.Outcome)))
}
