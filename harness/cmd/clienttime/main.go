// Command clienttime ties Model/ClientTime.v to the real client code (C10):
//
//	(a) direct: multiplyAndDivide, timestampToDuration, clientTimeConvFMP4.convert/getNTP,
//	    clientTimeConvMPEGTS.convert (mediacommon's TimeDecoder)/getNTP are called through
//	    the verif exports on random and boundary arguments; arguments and results become
//	    Coq cases evaluated by the model;
//	(b) end-to-end: a real gohlslib.Client plays synthesised streams served by an
//	    in-process RoundTripper; OnTracks, every OnData* callback and Client.AbsoluteTime
//	    are recorded, checked by the property oracle (oracle.go) and written as Coq cases
//	    for the model to predict.
package main

import (
	"crypto/sha256"
	"encoding/hex"
	"encoding/json"
	"flag"
	"fmt"
	"math/big"
	"os"
	"path/filepath"
	"sort"
	"sync"
	"time"

	"github.com/bluenviron/gohlslib/v2"

	"verifharness/internal/rng"
)

// ---------------- direct comparisons ----------------

type directCase struct {
	K    string  `json:"k"`
	Args []int64 `json:"args"`
	List []int64 `json:"list,omitempty"`
	Res  []int64 `json:"res"`
}

func fits(x *big.Int) bool { return x.IsInt64() }

// multiplyAndDivide without int64 overflow in any intermediate?
func mulDivSafe(v, m, d int64) bool {
	if d == 0 {
		return false
	}
	secs := v / d
	dec := v % d
	a := bmul(secs, m)
	b := bmul(dec, m)
	if !fits(a) || !fits(b) {
		return false
	}
	q := new(big.Int).Quo(b, big.NewInt(d))
	return fits(new(big.Int).Add(a, q))
}

func pickVal(r *rng.R) int64 {
	switch r.Pick(3, 3, 3, 2, 2, 2, 1) {
	case 0:
		return r.Range(0, 100000)
	case 1:
		return r.Range(0, int64(1)<<40)
	case 2:
		return (int64(1) << 40) - r.Range(0, 1<<16)
	case 3:
		return -r.Range(0, int64(1)<<40)
	case 4:
		return r.Range(-100000, 0)
	case 5:
		return two33 + r.Range(-100000, 100000)
	default:
		return 0
	}
}

func pickRate(r *rng.R) int64 {
	switch r.Pick(6, 3, 1) {
	case 0:
		all := append(append([]int64{}, leadScales...), audioScales...)
		return all[r.Intn(len(all))]
	case 1:
		return r.Range(1, 1000000)
	default:
		return r.Range(1, 1000000000)
	}
}

func pick33(r *rng.R) int64 {
	switch r.Pick(3, 2, 2, 2, 1) {
	case 0:
		return r.Range(0, two33-1)
	case 1:
		return two33 - 1 - r.Range(0, 1000)
	case 2:
		return r.Range(0, 1000)
	case 3:
		return (int64(1) << 32) + r.Range(-3, 3)
	default:
		return r.Range(-two33, 2*two33) // the decoder masks: any int64 is an argument
	}
}

func genDirect(r *rng.R, kind int) (directCase, bool) {
	switch kind {
	case 0: // multiplyAndDivide
		v, m, d := pickVal(r), pickRate(r), pickRate(r)
		if r.Bool(1, 10) {
			d = -d
		}
		if r.Bool(1, 10) {
			m = -m
		}
		if r.Bool(1, 200) {
			panicked := false
			func() {
				defer func() {
					if recover() != nil {
						panicked = true
					}
				}()
				gohlslib.VerifMultiplyAndDivide(v, m, 0)
			}()
			if panicked {
				return directCase{K: "MulDivPanic", Args: []int64{v, m}}, true
			}
			return directCase{K: "MulDiv", Args: []int64{v, m, 0}, Res: []int64{0}}, true
		}
		if !mulDivSafe(v, m, d) {
			return directCase{}, false
		}
		return directCase{K: "MulDiv", Args: []int64{v, m, d}, Res: []int64{gohlslib.VerifMultiplyAndDivide(v, m, d)}}, true
	case 1: // timestampToDuration
		d, rate := pickVal(r), pickRate(r)
		if !mulDivSafe(d, 1000000000, rate) {
			return directCase{}, false
		}
		return directCase{K: "T2D", Args: []int64{d, rate}, Res: []int64{int64(gohlslib.VerifTimestampToDuration(d, int(rate)))}}, true
	case 2: // fMP4 convert
		lts, rate := pickRate(r), pickRate(r)
		lbt := pickBase(r)
		if r.Bool(1, 10) {
			lbt = pickVal(r)
		}
		v := mulDivFloorBig(lbt, rate, lts) + r.Range(-1000000, 100000000)
		if r.Bool(1, 5) {
			v = pickVal(r)
		}
		if !mulDivSafe(lbt, rate, lts) {
			return directCase{}, false
		}
		return directCase{K: "Convert", Args: []int64{lts, lbt, v, rate}, Res: []int64{gohlslib.VerifFMP4Convert(lts, lbt, v, int(rate))}}, true
	case 3: // fMP4 setNTP + getNTP
		ncr, rate := pickRate(r), pickRate(r)
		nts := pickVal(r)
		nv := int64(1700000000)*1000000000 + r.Range(0, 1000000000000)
		if !mulDivSafe(nts, rate, ncr) {
			return directCase{}, false
		}
		x := gohlslib.VerifMultiplyAndDivide(nts, rate, ncr)
		ts := x + r.Range(-10*rate, 100*rate)
		if !mulDivSafe(ts-x, 1000000000, rate) {
			return directCase{}, false
		}
		out := gohlslib.VerifFMP4GetNTP(time.Unix(0, nv), nts, int(ncr), ts, int(rate))
		return directCase{K: "GetNTP", Args: []int64{nv, nts, ncr, ts, rate}, Res: []int64{out.UnixNano()}}, true
	case 4: // MPEG-TS converter: initialize(start) then a call list
		start := pick33(r)
		c := gohlslib.NewVerifMPEGTSConv(start)
		n := 2 + r.Intn(14)
		var calls, res []int64
		tr := start // true time random walk, reduced mod 2^33
		for i := 0; i < n; i++ {
			var v int64
			switch r.Pick(5, 2, 2, 1, 1, 1) {
			case 0:
				tr += r.Range(-200000, 400000)
				v = ((tr % two33) + two33) % two33
			case 1:
				tr += (int64(1) << 32) - 1 - r.Range(0, 2)
				v = ((tr % two33) + two33) % two33
			case 2:
				tr -= (int64(1) << 32) - r.Range(0, 2)
				v = ((tr % two33) + two33) % two33
			case 3:
				tr += (int64(1) << 32) + r.Range(0, 2) // beyond the unwrap bound: still transcribed literally
				v = ((tr % two33) + two33) % two33
			case 4:
				v = pick33(r)
				tr = v
			default:
				v = two33 - 1 - int64(i%2)*(two33-1) // alternate ends of the circle
				tr = v
			}
			calls = append(calls, v)
			res = append(res, c.Convert(v))
		}
		return directCase{K: "Decode", Args: []int64{start}, List: calls, Res: res}, true
	default: // MPEG-TS setNTP + getNTP
		nv := int64(1700000000)*1000000000 + r.Range(0, 1000000000000)
		nts := r.Range(-two33, 2*two33)
		ts := nts + r.Range(-900000, 9000000)
		c := gohlslib.NewVerifMPEGTSConv(0)
		out := c.GetNTP(time.Unix(0, nv), nts, ts)
		return directCase{K: "MGetNTP", Args: []int64{nv, nts, ts}, Res: []int64{out.UnixNano()}}, true
	}
}

func (c directCase) coq() string {
	a := func(i int) string { return zlit(c.Args[i]) }
	switch c.K {
	case "MulDiv":
		return fmt.Sprintf("TD (DMulDiv %s %s %s %s)", a(0), a(1), a(2), zlit(c.Res[0]))
	case "MulDivPanic":
		return fmt.Sprintf("TD (DMulDivPanic %s %s)", a(0), a(1))
	case "T2D":
		return fmt.Sprintf("TD (DT2D %s %s %s)", a(0), a(1), zlit(c.Res[0]))
	case "Convert":
		return fmt.Sprintf("TD (DConvert %s %s %s %s %s)", a(0), a(1), a(2), a(3), zlit(c.Res[0]))
	case "GetNTP":
		return fmt.Sprintf("TD (DGetNTP %s %s %s %s %s %s)", a(0), a(1), a(2), a(3), a(4), zlit(c.Res[0]))
	case "Decode":
		return fmt.Sprintf("TD (DDecode %s %s %s)", a(0), zs(c.List), zs(c.Res))
	case "MGetNTP":
		return fmt.Sprintf("TD (DMGetNTP %s %s %s %s)", a(0), a(1), a(2), zlit(c.Res[0]))
	}
	panic("bad direct case")
}

// boundary arguments that always run
func fixedDirect() []directCase {
	var out []directCase
	md := func(v, m, d int64) {
		out = append(out, directCase{K: "MulDiv", Args: []int64{v, m, d}, Res: []int64{gohlslib.VerifMultiplyAndDivide(v, m, d)}})
	}
	md(0, 90000, 90000)
	md(int64(1)<<40, 90000, 1)
	md(int64(1)<<40, 48000, 90000)
	md(-(int64(1) << 40), 48000, 90000)
	md(-1, 1, 2)
	md(-3, 2, 2)
	md(7, 3, -2)
	dec := func(start int64, calls ...int64) {
		c := gohlslib.NewVerifMPEGTSConv(start)
		var res []int64
		for _, v := range calls {
			res = append(res, c.Convert(v))
		}
		out = append(out, directCase{K: "Decode", Args: []int64{start}, List: calls, Res: res})
	}
	dec(8589844592, 90000, 8589844592, 93000, 8589847592) // the library's own test values
	dec(two33-1, 0, two33-1, 1, 0)
	dec(0, (int64(1)<<32)-1, (int64(1) << 32), 0, (int64(1) << 32), (int64(1)<<32)+1)
	dec(0, two33-1, two33-2, (int64(1) << 32), (int64(1)<<32)-1)
	dec(5, -5, two33+5, 3*two33+7, -two33)
	return out
}

// ---------------- end-to-end ----------------

type e2eRecord struct {
	ID      int        `json:"id"`
	Desc    Desc       `json:"desc"`
	Result  runResult  `json:"result"`
	DL      [][]int    `json:"downloaded"`
	Fails   []failure  `json:"-"`
	Errors  []string   `json:"errors,omitempty"`
	Em      [][]emitted `json:"-"` // reference demultiplexer, callbacks of supported tracks only
	EmAll   [][]emitted `json:"-"` // the same with the PES of unsupported elementary streams
	Modeled bool       `json:"modeled"`
}

func playOne(id int, d Desc) e2eRecord {
	rec := e2eRecord{ID: id, Desc: d}
	j, _ := json.Marshal(d)
	h := sha256.Sum256(j)
	var salt uint64
	for i := 0; i < 8; i++ {
		salt = salt<<8 | uint64(h[i])
	}
	s, err := newSynth(&rec.Desc, salt)
	if err != nil {
		rec.Errors = append(rec.Errors, "synth: "+err.Error())
		return rec
	}
	rec.Result = runClient(s, 25*time.Second)
	// watchdog outcomes depend on wall-clock time (the harness' own 25 s limit; the Client's
	// 10 s DTS-RTC cap needs less than 5 s of scheduling delay): accept them only if they
	// reproduce three times. A client that silently stops making progress (for instance: a
	// stream processor that waits for a token no track processor will send) ends here as
	// "timeout" and is an oracle failure (client-stopped / stall-with-unsupported-traf), never a
	// harness hang: Close() cancels the Client's context.
	for try := 0; try < 2; try++ {
		if rec.Result.Outcome != "timeout" && !(rec.Desc.Cap && rec.Desc.Addr != "range-implicit" && rec.Result.Outcome != "dtsrtc") {
			break
		}
		s, err = newSynth(&rec.Desc, salt)
		if err != nil {
			break
		}
		rec.Result = runClient(s, 25*time.Second)
	}
	rec.DL = downloaded(s, &rec.Result)
	streams := rec.Desc.streams()
	// which segments the client was meant to download (playlist semantics); the request log
	// must agree unless the addressing is the implicit byte-range form
	for si, st := range streams {
		var want []int
		for k := rec.Desc.firstSeg(st); k < len(st.Segs); k++ {
			want = append(want, k)
		}
		if rec.Desc.Addr != "range-implicit" && rec.Result.Outcome == "eos" &&
			fmt.Sprint(want) != fmt.Sprint(rec.DL[si]) {
			rec.Errors = append(rec.Errors, fmt.Sprintf("stream %d: requested segments %v, the playlist logic (C11) gives %v", si, rec.DL[si], want))
		}
	}
	rec.Em = make([][]emitted, len(streams))
	rec.EmAll = make([][]emitted, len(streams))
	if rec.Desc.Kind == "mpegts" {
		for si, st := range streams {
			var idx []int
			for k := rec.Desc.firstSeg(st); k < len(st.Segs); k++ {
				idx = append(idx, k)
			}
			if rec.Desc.Cap || rec.Desc.Addr == "range-implicit" || rec.Result.Outcome != "eos" {
				idx = idx[:0]
				for k := rec.Desc.firstSeg(st); k < len(st.Segs); k++ {
					idx = append(idx, k)
				}
			}
			emAll, err := referenceParse(s, si, idx)
			if err != nil {
				rec.Errors = append(rec.Errors, "reference parse: "+err.Error())
				return rec
			}
			em := supportedOnly(emAll)
			// the demultiplexer must hand over exactly the written PES (identity by payload)
			n, nx := 0, 0
			for _, k := range idx {
				n += len(st.Segs[k].PES)
				nx += len(st.Segs[k].XPES)
			}
			if len(em) != n {
				rec.Errors = append(rec.Errors, fmt.Sprintf("stream %d: reference demultiplexer emitted %d units, %d were written", si, len(em), n))
			}
			if len(emAll)-len(em) != nx {
				rec.Errors = append(rec.Errors, fmt.Sprintf("stream %d: reference demultiplexer emitted %d units of unsupported streams, %d were written", si, len(emAll)-len(em), nx))
			}
			for _, e := range emAll {
				if e.Track < 0 && e.ID < 0 {
					rec.Errors = append(rec.Errors, fmt.Sprintf("stream %d: reference demultiplexer unit %+v of an unsupported stream does not match what was written", si, e))
					break
				}
			}
			for _, e := range em {
				p := trueTimes(st, e.ID)
				if e.ID < 0 || p.ID < 0 || p.PTS%two33 != e.RawPTS || (st.Tracks[p.Track].isVideo() && p.DTS%two33 != e.RawDTS) {
					rec.Errors = append(rec.Errors, fmt.Sprintf("stream %d: reference demultiplexer unit %+v does not match what was written", si, e))
					break
				}
			}
			rec.Em[si] = em
			rec.EmAll[si] = emAll
		}
	}
	if len(rec.Errors) == 0 {
		rec.Fails = oracle(&rec.Desc, &rec.Result, rec.Em)
	}
	return rec
}

func nontrivialE2E(rec *e2eRecord) bool {
	units := 0
	for _, t := range rec.Result.Tracks {
		units += len(t.Units)
	}
	d := &rec.Desc
	multi := len(rec.Result.Tracks) >= 2
	shifted := false
	if d.Kind == "fmp4" {
		if b, ok := firstLeadBase(&d.Leading, d.firstSeg(&d.Leading)); ok && b > 0 {
			shifted = true
		}
	} else if len(d.Leading.Segs) > 0 && len(d.Leading.Segs[0].PES) > 0 && d.Leading.Segs[0].PES[0].DTS > 0 {
		shifted = true
	}
	return rec.Result.Outcome == "eos" && units >= 3 && (multi || shifted)
}

func main() {
	seed := flag.Uint64("seed", 0, "seed")
	tier := flag.String("tier", "quick", "quick|thorough")
	out := flag.String("out", "", "output directory")
	replay := flag.String("replay", "", "replay file")
	nE2E := flag.Int("n", 0, "number of end-to-end streams (0 = tier default)")
	nDirect := flag.Int("direct", -1, "number of direct cases (-1 = tier default)")
	noModel := flag.Bool("nomodel", false, "oracle only: do not write Coq cases")
	workers := flag.Int("workers", 64, "concurrent clients")
	flag.Parse()
	if *out == "" {
		fmt.Fprintln(os.Stderr, "need -out")
		os.Exit(2)
	}
	os.MkdirAll(*out, 0o755)
	old, _ := filepath.Glob(filepath.Join(*out, "cases_*.v"))
	for _, f := range old {
		os.Remove(f)
	}
	if *nE2E == 0 {
		*nE2E = 260
		if *tier == "thorough" {
			*nE2E = 6000
		}
	}
	if *nDirect < 0 {
		*nDirect = 100000
		if *tier == "thorough" {
			*nDirect = 1000000
		}
	}

	var directs []directCase
	var descs []Desc
	if *replay != "" {
		raw, err := os.ReadFile(*replay)
		if err != nil {
			panic(err)
		}
		var rp struct {
			Input json.RawMessage `json:"input"`
		}
		if err := json.Unmarshal(raw, &rp); err != nil {
			panic(err)
		}
		var probe struct {
			Direct *directCase `json:"direct"`
			Desc   *Desc       `json:"desc"`
			Kind   string      `json:"kind"`
		}
		json.Unmarshal(rp.Input, &probe)
		switch {
		case probe.Direct != nil:
			directs = append(directs, rerunDirect(*probe.Direct))
		case probe.Desc != nil:
			descs = append(descs, *probe.Desc)
		default:
			var d Desc
			if err := json.Unmarshal(rp.Input, &d); err != nil || d.Kind == "" {
				panic("replay file has no usable input")
			}
			descs = append(descs, d)
		}
	} else {
		directs = fixedDirect()
		for i := 0; len(directs) < *nDirect; i++ {
			r := rng.New(*seed^0xD1, uint64(i))
			if c, ok := genDirect(r, r.Pick(30, 20, 25, 15, 5, 5)); ok {
				directs = append(directs, c)
			}
		}
		descs = fixedDescs()
		for i := 0; i < *nE2E; i++ {
			descs = append(descs, genDesc(*seed, uint64(i)))
		}
	}

	// ---- run the clients concurrently ----
	recs := make([]e2eRecord, len(descs))
	var wg sync.WaitGroup
	ch := make(chan int)
	for w := 0; w < *workers; w++ {
		wg.Add(1)
		go func() {
			defer wg.Done()
			for i := range ch {
				recs[i] = playOne(i, descs[i])
			}
		}()
	}
	for i := range descs {
		ch <- i
	}
	close(ch)
	wg.Wait()

	// ---- results ----
	dist := map[string]int{}
	var failures []failure
	var errorsOut []string
	sw := newShardWriter(*out)
	seen := map[string]bool{}
	distinct := 0
	directDistinct := map[string]bool{}
	var samples []interface{}
	e2eInputs := map[int]Desc{}

	if !*noModel {
		for i, c := range directs {
			sw.add(c.coq(), 5000, "direct", i)
		}
	}
	for _, c := range directs {
		dist["direct:"+c.K]++
		j, _ := json.Marshal(c)
		h := sha256.Sum256(j)
		directDistinct[hex.EncodeToString(h[:8])] = true
	}
	if sw.f != nil {
		sw.close()
	}
	delivered := 0
	for i := range recs {
		rec := &recs[i]
		d := &rec.Desc
		for _, e := range rec.Errors {
			errorsOut = append(errorsOut, fmt.Sprintf("case %d: %s", i, e))
		}
		failures = append(failures, rec.Fails...)
		dist["e2e:kind:"+d.Kind]++
		dist["e2e:mode:"+d.Mode]++
		dist["e2e:addr:"+d.Addr]++
		dist["e2e:pdt:"+d.PDT]++
		dist[fmt.Sprintf("e2e:renditions:%d", len(d.Rends))]++
		dist[fmt.Sprintf("e2e:tracks:%d", len(rec.Result.Tracks))]++
		dist["e2e:outcome:"+outcomeClass(rec.Result.Outcome)]++
		if d.Cap {
			dist["e2e:cap-jump"]++
		}
		if d.Kind == "mpegts" && len(d.Leading.Segs) > 0 {
			lo, hi := int64(1)<<62, int64(0)
			for _, sg := range d.Leading.Segs {
				for _, p := range sg.PES {
					for _, t := range []int64{p.PTS, p.DTS} {
						if t < lo {
							lo = t
						}
						if t > hi {
							hi = t
						}
					}
				}
			}
			if lo/two33 != hi/two33 {
				dist["e2e:mpegts:wrap-inside-stream"]++
			}
		}
		if d.Kind == "mpegts" {
			nu, withPES := 0, false
			for _, st := range d.streams() {
				nu += len(st.Unsup)
				for _, sg := range st.Segs {
					if len(sg.XPES) > 0 {
						withPES = true
					}
				}
				vi := -1
				for i, t := range st.Tracks {
					if t.isVideo() {
						vi = i
						break
					}
				}
				for _, u := range st.Unsup {
					dist["e2e:mpegts:pmt-unsupported:codec:"+u.Codec]++
					switch {
					case vi >= 0 && u.Before <= vi:
						dist["e2e:mpegts:pmt-unsupported:before-h264"]++
					case u.Before >= len(st.Tracks):
						dist["e2e:mpegts:pmt-unsupported:after-all-supported"]++
					case u.Before == 0:
						dist["e2e:mpegts:pmt-unsupported:before-all-supported(no-h264)"]++
					default:
						dist["e2e:mpegts:pmt-unsupported:between-supported"]++
					}
				}
			}
			dist[fmt.Sprintf("e2e:mpegts:pmt-unsupported-streams:%d", nu)]++
			if withPES {
				dist["e2e:mpegts:pmt-unsupported:with-pes-data"]++
			} else if nu > 0 {
				dist["e2e:mpegts:pmt-unsupported:without-pes-data"]++
			}
		}
		if d.Kind == "fmp4" {
			nDecl, nAbs, withTraf, ownMoof := 0, 0, false, false
			for _, st := range d.streams() {
				vi := -1
				for i, t := range st.Tracks {
					if t.isVideo() {
						vi = i
						break
					}
				}
				for _, u := range st.Unsup {
					if u.Absent {
						nAbs++
						continue
					}
					nDecl++
					dist["e2e:fmp4:init-unsupported:codec:"+u.Codec]++
					switch {
					case vi >= 0 && u.Before <= vi:
						dist["e2e:fmp4:init-unsupported:before-h264"]++
					case u.Before >= len(st.Tracks):
						dist["e2e:fmp4:init-unsupported:after-all-supported"]++
					case u.Before == 0:
						dist["e2e:fmp4:init-unsupported:before-all-supported(no-h264)"]++
					default:
						dist["e2e:fmp4:init-unsupported:between-supported"]++
					}
				}
				for k := d.firstSeg(st); k >= 0 && k < len(st.Segs); k++ {
					for _, p := range st.Segs[k].Parts {
						sup := 0
						for _, pt := range p.Tracks {
							if pt.Track >= 0 {
								sup++
							}
						}
						for ti, pt := range p.Tracks {
							if pt.Track >= 0 {
								continue
							}
							withTraf = true
							switch {
							case sup == 0:
								ownMoof = true
							case ti == 0:
								dist["e2e:fmp4:unsupported-traf:first-in-moof"]++
							case ti == len(p.Tracks)-1:
								dist["e2e:fmp4:unsupported-traf:last-in-moof"]++
							default:
								dist["e2e:fmp4:unsupported-traf:between-trafs"]++
							}
						}
					}
				}
			}
			dist[fmt.Sprintf("e2e:fmp4:init-unsupported-tracks:%d", nDecl)]++
			dist[fmt.Sprintf("e2e:fmp4:undeclared-track-ids:%d", nAbs)]++
			if withTraf {
				dist["e2e:fmp4:unsupported-traf:streams-with-trafs-downloaded"]++
				if rec.Result.Outcome == "eos" {
					dist["e2e:fmp4:unsupported-traf:played-to-eos"]++
				}
			} else if nDecl > 0 {
				dist["e2e:fmp4:init-unsupported:without-trafs"]++
			}
			if ownMoof {
				dist["e2e:fmp4:unsupported-traf:streams-with-a-moof-of-its-own"]++
			}
			if b, ok := firstLeadBase(&d.Leading, d.firstSeg(&d.Leading)); ok {
				switch {
				case b == 0:
					dist["e2e:fmp4:origin:0"]++
				case b < int64(1)<<32:
					dist["e2e:fmp4:origin:<2^32"]++
				default:
					dist["e2e:fmp4:origin:>=2^32"]++
				}
			}
		}
		for _, t := range rec.Result.Tracks {
			delivered += len(t.Units)
		}
		j, _ := json.Marshal(d)
		h := sha256.Sum256(j)
		hs := hex.EncodeToString(h[:8])
		if !seen[hs] {
			seen[hs] = true
			if nontrivialE2E(rec) {
				distinct++
				if len(samples) < 3 {
					samples = append(samples, map[string]interface{}{"desc": d})
				}
			}
		}
		// model case: what the client downloaded, as parsed content
		modelable := len(rec.Errors) == 0 && d.Addr != "range-implicit" &&
			(rec.Result.Outcome == "eos" || rec.Result.Outcome == "dtsrtc" || rec.Result.Outcome == "noleading")
		if modelable && !*noModel {
			dl := rec.DL
			if rec.Result.Outcome != "eos" {
				// the client stopped early: the model is given the whole remaining playlist
				dl = make([][]int, len(d.streams()))
				for si, st := range d.streams() {
					for k := d.firstSeg(st); k < len(st.Segs); k++ {
						dl[si] = append(dl[si], k)
					}
				}
			}
			sw.add(coqE2E(d, &rec.Result, dl, rec.EmAll), 60, "e2e", i)
			e2eInputs[i] = *d
			rec.Modeled = true
		}
	}
	sw.close()
	nDirectCases := 0
	var e2eIndex []caseRef
	for _, c := range sw.index {
		if c.Kind == "direct" {
			nDirectCases++
		} else {
			e2eIndex = append(e2eIndex, c)
		}
	}
	dist["e2e:units-delivered"] = delivered
	dist["direct:distinct"] = len(directDistinct)

	// smallest failing inputs first
	sort.SliceStable(failures, func(a, b int) bool {
		ja, _ := json.Marshal(failures[a].Input)
		jb, _ := json.Marshal(failures[b].Input)
		return len(ja) < len(jb)
	})
	// keep the three smallest inputs per signature; the true counts go to the distribution
	{
		kept := map[string]int{}
		var out []failure
		for _, f := range failures {
			dist["oracle:"+f.Signature]++
			if kept[f.Signature] < 3 {
				kept[f.Signature]++
				out = append(out, f)
			}
		}
		failures = out
	}
	for i := range failures {
		failures[i].Input = map[string]interface{}{"desc": failures[i].Input}
	}
	if len(samples) == 0 && len(descs) > 0 {
		samples = append(samples, map[string]interface{}{"desc": descs[0]})
	}
	res := map[string]interface{}{
		"evaluations":         len(directs) + len(descs),
		"distinct_nontrivial": distinct,
		"rule": "end-to-end streams from splitmix64(seed, index): fMP4 or MPEG-TS; 1 video + 0..3 audio (or audio only) in one playlist or as renditions; " +
			"MPEG-TS PMTs with 0..2 unsupported elementary streams (MPEG-1 audio, AC-3, Opus, H265, MPEG-1/2/4 video) before / between / after the supported ones, with or without PES data; " +
			"fMP4 playlists with 0..2 tracks the client does not process: init tracks with an unsupported codec (MPEG-1 audio, AC-3, LPCM, MJPEG, MPEG-4 video, MPEG-1/2 video) " +
			"before / between / after the supported ones and track IDs the init section does not declare, with trafs in every / some / no segment at arbitrary positions among the " +
			"supported tracks' trafs or in a moof of their own (renditions: undeclared IDs only; drawn after everything else); " +
			"timescales from a realistic set or random; origin 0..2^40 (fMP4) / anywhere on the 33-bit circle incl. a wrap inside the stream (MPEG-TS); " +
			"positive/negative pts offsets; 1..3 fragments per segment; whole-file or byte-range addressing; PROGRAM-DATE-TIME none/all/alternate segments; " +
			"VOD, live (sliding window), EVENT, ENDLIST-without-type. distinct by SHA-256 of the description; non-trivial = played to EOS AND >= 3 units delivered " +
			"AND (>= 2 tracks OR non-zero origin). Direct calls (counted in evaluations, distinct count in distribution) are not counted here.",
		"samples":                       samples,
		"distribution":                  dist,
		"oracle_failures":               failures,
		"errors":                        errorsOut,
		"direct_cases":                  nDirectCases,
		"direct_per_shard":              5000,
		"e2e_cases":                     e2eIndex,
		"shards":                        sw.idx + 1,
		"traces_validated_against_impl": len(descs),
	}
	j, _ := json.MarshalIndent(res, "", " ")
	os.WriteFile(filepath.Join(*out, "result.json"), j, 0o644)
	dj, _ := json.Marshal(directs)
	os.WriteFile(filepath.Join(*out, "direct.json"), dj, 0o644)
	ej, _ := json.Marshal(e2eInputs)
	os.WriteFile(filepath.Join(*out, "e2e.json"), ej, 0o644)
	rj, _ := json.Marshal(recs)
	os.WriteFile(filepath.Join(*out, "records.json"), rj, 0o644)
	fmt.Printf("clienttime harness: %d direct cases, %d streams (%d distinct non-trivial, %d units delivered), %d oracle failures, %d errors, %d shards\n",
		len(directs), len(descs), distinct, delivered, len(failures), len(errorsOut), sw.idx+1)
}

func outcomeClass(o string) string {
	if len(o) > 6 && o[:6] == "error:" {
		return "error"
	}
	return o
}

// rerunDirect re-evaluates a direct case on the real code (replay)
func rerunDirect(c directCase) directCase {
	switch c.K {
	case "MulDiv":
		c.Res = []int64{gohlslib.VerifMultiplyAndDivide(c.Args[0], c.Args[1], c.Args[2])}
	case "T2D":
		c.Res = []int64{int64(gohlslib.VerifTimestampToDuration(c.Args[0], int(c.Args[1])))}
	case "Convert":
		c.Res = []int64{gohlslib.VerifFMP4Convert(c.Args[0], c.Args[1], c.Args[2], int(c.Args[3]))}
	case "GetNTP":
		c.Res = []int64{gohlslib.VerifFMP4GetNTP(time.Unix(0, c.Args[0]), c.Args[1], int(c.Args[2]), c.Args[3], int(c.Args[4])).UnixNano()}
	case "Decode":
		cv := gohlslib.NewVerifMPEGTSConv(c.Args[0])
		c.Res = nil
		for _, v := range c.List {
			c.Res = append(c.Res, cv.Convert(v))
		}
	case "MGetNTP":
		cv := gohlslib.NewVerifMPEGTSConv(0)
		c.Res = []int64{cv.GetNTP(time.Unix(0, c.Args[0]), c.Args[1], c.Args[2]).UnixNano()}
	}
	return c
}
