package main

import (
	"math/big"
	"sort"

	"verifharness/internal/rng"
)

const two33 = int64(1) << 33

func mulDivFloorBig(a, b, c int64) int64 {
	x := new(big.Int).Mul(big.NewInt(a), big.NewInt(b))
	q, m := new(big.Int).DivMod(x, big.NewInt(c), new(big.Int))
	_ = m
	return q.Int64()
}

// one elementary timeline: the samples of a track with their start tick (track clock)
type tlSample struct {
	tick    int64 // container decode time
	dur     int64
	off     int64
	localNs int64 // position on the presentation's local timeline (0 = origin), for cutting
	id      int
	aus     int
	idr     bool
}

func pickBase(r *rng.R) int64 {
	switch r.Pick(2, 2, 2, 3, 3, 1) {
	case 0:
		return 0
	case 1:
		return r.Range(1, 2000)
	case 2:
		return (int64(1) << 32) + r.Range(-100000, 100000)
	case 3:
		return (int64(1) << 40) - r.Range(0, 1<<20)
	case 4:
		return r.Range(0, int64(1)<<40)
	default:
		return int64(1) << 40
	}
}

var leadScales = []int64{90000, 90000, 30000, 24000, 15360, 12800, 1000, 600, 10000000, 60, 25, 48000, 44100}
var audioScales = []int64{48000, 44100, 48000, 44100, 22050, 8000, 1000, 90000, 10000000, 16000}

// cutPoints returns n-1 strictly increasing cut indices in (0,total)
func cutPoints(r *rng.R, total, n int) []int {
	if n <= 1 {
		return nil
	}
	set := map[int]bool{}
	for len(set) < n-1 {
		set[1+r.Intn(total-1)] = true
	}
	var out []int
	for k := range set {
		out = append(out, k)
	}
	sort.Ints(out)
	return out
}

func genModeAddrPDT(r *rng.R, d *Desc) {
	d.Mode = []string{"vod", "live", "event", "endlist"}[r.Pick(9, 6, 2, 3)]
	d.Addr = []string{"whole", "range", "range-implicit"}[r.Pick(11, 8, 1)]
	d.PDT = []string{"none", "all", "some"}[r.Pick(5, 11, 4)]
	d.MediaSeq = int(r.Range(0, 5000))
}

func nSegFor(r *rng.R, mode string) int {
	if mode == "vod" {
		return 1 + r.Intn(4)
	}
	return 3 + r.Intn(3)
}

func liveParams(r *rng.R, d *Desc, s *StreamDesc, leadK int) {
	n := len(s.Segs)
	if d.Mode == "vod" || d.Mode == "endlist" {
		s.FirstLen = n
		return
	}
	k := leadK
	if k == 0 {
		k = 3 + r.Intn(n-2)
	} else {
		k += r.Intn(3) - 1
	}
	if k < 3 {
		k = 3
	}
	if k > n {
		k = n
	}
	s.FirstLen = k
	s.TrimTo = r.Intn(k - 1) // <= k-2
}

// ---------------- fMP4 ----------------

func genFMP4(r *rng.R) (Desc, bool) {
	var d Desc
	d.Kind = "fmp4"
	genModeAddrPDT(r, &d)
	nAudio := r.Pick(3, 5, 3, 1)
	hasVideo := !r.Bool(1, 8)
	if !hasVideo && nAudio == 0 {
		nAudio = 1
	}
	asRends := hasVideo && nAudio > 0 && r.Bool(2, 5)
	d.Multi = asRends || r.Bool(1, 4)

	type trk struct {
		desc    TrackDesc
		samples []tlSample
		stream  int // 0 = leading, k = rendition k
	}
	var tracks []*trk
	nextID := 0
	if hasVideo {
		tracks = append(tracks, &trk{desc: TrackDesc{Codec: "h264", TimeScale: leadScales[r.Intn(len(leadScales))]}})
	}
	for i := 0; i < nAudio; i++ {
		codec := "aac"
		if r.Bool(1, 4) {
			codec = "opus"
		}
		ts := audioScales[r.Intn(len(audioScales))]
		if r.Bool(1, 10) {
			ts = r.Range(1, 200000)
		}
		tracks = append(tracks, &trk{desc: TrackDesc{Codec: codec, TimeScale: ts}})
	}
	// stream assignment and IDs
	if asRends {
		for i, t := range tracks {
			t.stream = i // video 0, audio i
			t.desc.ID = 1 + r.Intn(3)
		}
	} else {
		perm := make([]int, len(tracks))
		for i := range perm {
			perm[i] = i
		}
		for i := len(perm) - 1; i > 0; i-- {
			j := r.Intn(i + 1)
			perm[i], perm[j] = perm[j], perm[i]
		}
		nt := make([]*trk, len(tracks))
		used := map[int]bool{}
		for i, p := range perm {
			nt[i] = tracks[p]
			id := 1 + r.Intn(250)
			for used[id] {
				id = 1 + r.Intn(250)
			}
			used[id] = true
			nt[i].desc.ID = id
		}
		tracks = nt
	}
	// the presentation's leading track: video if any, else the first track of the leading stream
	lead := 0
	for i, t := range tracks {
		if t.desc.isVideo() {
			lead = i
			break
		}
	}
	if !hasVideo {
		lead = 0
	}
	rl := tracks[lead].desc.TimeScale
	B := pickBase(r)
	totalNs := r.Range(350, 1150) * 1000000
	offMode := r.Pick(3, 4, 3) // none | positive | mixed

	for ti, t := range tracks {
		rate := t.desc.TimeScale
		bj := mulDivFloorBig(B, rate, rl)
		var jitterNs int64
		if ti != lead {
			jitterNs = r.Range(-30, 40) * 1000000
			if r.Bool(1, 4) {
				jitterNs = 0
			}
		}
		start := bj + mulDivFloorBig(jitterNs, rate, 1000000000)
		if start < 0 {
			start = 0
		}
		var nominal int64
		if t.desc.isVideo() {
			fps := []int64{25, 30, 50, 60, 15, 24}[r.Intn(6)]
			nominal = rate / fps
		} else {
			sr := []int64{48000, 44100}[r.Intn(2)]
			nominal = 1024 * rate / sr
			if t.desc.Codec == "opus" {
				nominal = rate / 50
			}
		}
		if nominal < 1 {
			nominal = 1
		}
		tick := start
		for k := 0; ; k++ {
			local := mulDivFloorBig(tick-bj, 1000000000, rate)
			if local >= totalNs && k >= 1 {
				break
			}
			if k > 400 {
				return d, false
			}
			dur := nominal
			if r.Bool(1, 12) {
				dur += r.Range(-1, 2)
				if dur < 1 {
					dur = 1
				}
			}
			var off int64
			if t.desc.isVideo() {
				switch offMode {
				case 1:
					off = nominal * int64(r.Intn(4))
				case 2:
					off = nominal * (int64(r.Intn(5)) - 2)
				}
			}
			t.samples = append(t.samples, tlSample{tick: tick, dur: dur, off: off, localNs: local, id: nextID})
			nextID++
			tick += dur
		}
	}

	// cells: segments and parts are cut on the leading track's samples
	nSeg := nSegFor(r, d.Mode)
	ls := tracks[lead].samples
	if len(ls) < nSeg*1 || len(ls) < 2 && nSeg > 1 {
		return d, false
	}
	segCuts := append([]int{0}, cutPoints(r, len(ls), nSeg)...)
	segCuts = append(segCuts, len(ls))
	type cell struct {
		seg, part int
		startNs   int64
	}
	var cells []cell
	for s := 0; s < nSeg; s++ {
		n := segCuts[s+1] - segCuts[s]
		np := []int{1, 1, 2, 3}[r.Intn(4)]
		if np > n {
			np = n
		}
		pc := append([]int{0}, cutPoints(r, n, np)...)
		for p, c := range pc {
			cells = append(cells, cell{seg: s, part: p, startNs: ls[segCuts[s]+c].localNs})
		}
	}
	cellOf := func(ns int64) int {
		c := 0
		for i := range cells {
			if cells[i].startNs <= ns {
				c = i
			}
		}
		return c
	}

	nStreams := 1
	if asRends {
		nStreams = len(tracks)
	}
	streams := make([]StreamDesc, nStreams)
	for si := range streams {
		streams[si].Segs = make([]SegDesc, nSeg)
	}
	// per cell, per stream: part tracks
	for ci, c := range cells {
		for si := range streams {
			var pts []PartTrackDesc
			for ti, t := range tracks {
				if t.stream != si {
					continue
				}
				var ss []SampleDesc
				var base int64
				for _, sm := range t.samples {
					var in bool
					if ti == lead {
						in = cellOf(sm.localNs) == ci
					} else {
						in = cellOf(sm.localNs) == ci
					}
					if in {
						if len(ss) == 0 {
							base = sm.tick
						}
						ss = append(ss, SampleDesc{Dur: sm.dur, Off: sm.off, ID: sm.id})
					}
				}
				if len(ss) > 0 {
					// track index within its stream
					idx := 0
					for tj := 0; tj < ti; tj++ {
						if tracks[tj].stream == si {
							idx++
						}
					}
					pts = append(pts, PartTrackDesc{Track: idx, Base: base, Samples: ss})
				}
			}
			if len(pts) == 0 {
				continue
			}
			for i := len(pts) - 1; i > 0; i-- {
				j := r.Intn(i + 1)
				pts[i], pts[j] = pts[j], pts[i]
			}
			streams[si].Segs[c.seg].Parts = append(streams[si].Segs[c.seg].Parts, PartDesc{Tracks: pts})
		}
	}
	for si := range streams {
		for _, t := range tracks {
			if t.stream == si {
				streams[si].Tracks = append(streams[si].Tracks, t.desc)
			}
		}
	}
	// every segment of every stream must carry that stream's own leading track
	for si := range streams {
		sl := 0
		for i, t := range streams[si].Tracks {
			if t.isVideo() {
				sl = i
				break
			}
		}
		for _, sg := range streams[si].Segs {
			found := false
			for _, p := range sg.Parts {
				for _, pt := range p.Tracks {
					if pt.Track == sl {
						found = true
					}
				}
			}
			if !found {
				return d, false
			}
		}
	}
	// dates and durations from the leading track
	pdt0 := int64(1700000000)*1000000000 + r.Range(0, 999)*1000000
	l0 := ls[0].tick
	for s := 0; s < nSeg; s++ {
		first := ls[segCuts[s]]
		var endTick int64
		if s+1 < nSeg {
			endTick = ls[segCuts[s+1]].tick
		} else {
			last := ls[len(ls)-1]
			endTick = last.tick + last.dur
		}
		date := pdt0 + mulDivFloorBig(first.tick-l0, 1000000000, rl)
		has := d.PDT == "all" || (d.PDT == "some" && s%2 == 0)
		for si := range streams {
			streams[si].Segs[s].HasDate = has
			streams[si].Segs[s].Date = date
			streams[si].Segs[s].DurNs = mulDivFloorBig(endTick-first.tick, 1000000000, rl)
		}
	}
	// a jump of 15 s in the last segment: the Client must stop with the DTS-RTC error
	if d.Mode == "vod" && nSeg >= 2 && r.Bool(1, 40) {
		d.Cap = true
		for si := range streams {
			sg := &streams[si].Segs[nSeg-1]
			for pi := range sg.Parts {
				for ti := range sg.Parts[pi].Tracks {
					pt := &sg.Parts[pi].Tracks[ti]
					pt.Base += 15 * streams[si].Tracks[pt.Track].TimeScale
				}
			}
		}
	}
	d.Leading = streams[0]
	liveParams(r, &d, &d.Leading, 0)
	for si := 1; si < nStreams; si++ {
		st := streams[si]
		st.Name = []string{"English", "German", "Commentary"}[(si-1)%3]
		st.Lang = []string{"en", "de", "fr"}[(si-1)%3]
		st.Default = si == 1
		liveParams(r, &d, &st, d.Leading.FirstLen)
		d.Rends = append(d.Rends, st)
	}
	genUnsupportedFMP4(r, &d)
	return d, true
}

var unsupCodecsFMP4 = []string{"mp3", "ac3", "lpcm", "mjpeg", "mpeg4video", "mpeg1video"}

// genUnsupportedFMP4 adds 0..2 tracks the client does not process to every fMP4 playlist:
// tracks of the init section with a codec the client filters out of OnTracks (MPEG-1 audio,
// AC-3, LPCM, MJPEG, MPEG-4 video, MPEG-1/2 video), declared before / between / after the
// supported ones, and track IDs that the init section does not declare at all. Fragments carry
// trafs for them (in every segment, in some segments, or - for a declared track - in none) at
// arbitrary positions among the supported tracks' trafs, now and then in a moof of their own.
// Drawn after everything else, so that the supported content of a (seed, index) is what it was
// before this dimension existed.
//
// A rendition playlist's init section must declare exactly one track (the client rejects any
// other count before it filters codecs): renditions only get undeclared track IDs.
func genUnsupportedFMP4(r *rng.R, d *Desc) {
	nextID := 0
	for _, st := range d.streams() {
		for _, sg := range st.Segs {
			for _, p := range sg.Parts {
				for _, pt := range p.Tracks {
					for _, sm := range pt.Samples {
						if sm.ID >= nextID {
							nextID = sm.ID + 1
						}
					}
				}
			}
		}
	}
	for si, st := range d.streams() {
		n := r.Pick(5, 3, 2)
		used := map[int]bool{}
		for _, t := range st.Tracks {
			used[t.ID] = true
		}
		vi := -1
		for i, t := range st.Tracks {
			if t.isVideo() {
				vi = i
				break
			}
		}
		for x := 0; x < n; x++ {
			u := UnsupDesc{Codec: unsupCodecsFMP4[r.Pick(4, 2, 2, 2, 2, 1)]}
			if si > 0 || r.Bool(1, 3) {
				u.Absent = true
				u.Codec = "none"
			}
			if vi >= 0 && r.Bool(1, 2) {
				u.Before = r.Intn(vi + 1) // before the H264 track
			} else {
				u.Before = r.Intn(len(st.Tracks) + 1)
			}
			if u.Absent {
				u.Before = 0
			}
			hi := 250
			if r.Bool(1, 2) {
				hi = 8 // next to the supported tracks' IDs
			}
			u.ID = 1 + r.Intn(hi)
			for used[u.ID] {
				u.ID = 1 + r.Intn(hi)
			}
			used[u.ID] = true
			var nominal int64
			if u.isVideo() {
				u.TimeScale = leadScales[r.Intn(len(leadScales))]
				nominal = u.TimeScale / 25
			} else {
				u.TimeScale = audioScales[r.Intn(len(audioScales))]
				nominal = 1152 * u.TimeScale / 48000
			}
			if nominal < 1 {
				nominal = 1
			}
			st.Unsup = append(st.Unsup, u)
			mode := r.Pick(2, 5, 3) // no trafs | in every segment | in some segments
			if u.Absent && mode == 0 {
				mode = 1
			}
			for k := range st.Segs {
				sg := &st.Segs[k]
				if mode == 0 || (mode == 2 && r.Bool(1, 2)) || len(sg.Parts) == 0 {
					continue
				}
				// the segment's first traf of a supported track: the time reference
				var ref *PartTrackDesc
				for pi := range sg.Parts {
					for ti := range sg.Parts[pi].Tracks {
						if ref == nil && sg.Parts[pi].Tracks[ti].Track >= 0 {
							ref = &sg.Parts[pi].Tracks[ti]
						}
					}
				}
				if ref == nil {
					continue
				}
				segRef := *ref
				np := len(sg.Parts)
				forced := r.Intn(np)
				off := 0
				for pi := 0; pi < np; pi++ {
					if pi != forced && !r.Bool(1, 2) {
						continue
					}
					pr := segRef
					for _, pt := range sg.Parts[pi+off].Tracks {
						if pt.Track >= 0 {
							pr = pt
							break
						}
					}
					base := mulDivFloorBig(pr.Base, u.TimeScale, st.Tracks[pr.Track].TimeScale)
					traf := PartTrackDesc{Track: -1 - x, Base: base}
					cnt := 1 + r.Intn(3)
					for c := 0; c < cnt; c++ {
						traf.Samples = append(traf.Samples, SampleDesc{Dur: nominal, ID: nextID})
						nextID++
					}
					if r.Bool(1, 8) {
						// a moof of its own, before or after the part's
						at := pi + off + r.Intn(2)
						sg.Parts = append(sg.Parts, PartDesc{})
						copy(sg.Parts[at+1:], sg.Parts[at:])
						sg.Parts[at] = PartDesc{Tracks: []PartTrackDesc{traf}}
						off++
						continue
					}
					trs := sg.Parts[pi+off].Tracks
					at := r.Intn(len(trs) + 1)
					trs = append(trs, PartTrackDesc{})
					copy(trs[at+1:], trs[at:])
					trs[at] = traf
					sg.Parts[pi+off].Tracks = trs
				}
			}
		}
	}
}

// ---------------- MPEG-TS ----------------

func pickStart33(r *rng.R) int64 {
	switch r.Pick(2, 4, 5, 1, 1) {
	case 0:
		return 0
	case 1:
		return r.Range(0, two33-1)
	case 2:
		return two33 - r.Range(1, 90000) // the wrap falls inside the stream
	case 3:
		return two33 - 1
	default:
		return (int64(1) << 32) + r.Range(-5000, 5000)
	}
}

func genMPEGTS(r *rng.R) (Desc, bool) {
	var d Desc
	d.Kind = "mpegts"
	genModeAddrPDT(r, &d)
	nAudio := r.Pick(3, 5, 3, 1)
	hasVideo := !r.Bool(1, 8)
	if !hasVideo && nAudio == 0 {
		nAudio = 1
	}
	asRends := hasVideo && nAudio > 0 && r.Bool(1, 4)
	d.Multi = asRends || r.Bool(1, 4)

	type trk struct {
		desc   TrackDesc
		pes    []tlSample
		stream int
	}
	var tracks []*trk
	if hasVideo {
		tracks = append(tracks, &trk{desc: TrackDesc{Codec: "h264", TimeScale: 90000}})
	}
	for i := 0; i < nAudio; i++ {
		tracks = append(tracks, &trk{desc: TrackDesc{Codec: "aac", TimeScale: 90000}})
	}
	if asRends {
		for i, t := range tracks {
			t.stream = i
		}
	} else if hasVideo && r.Bool(1, 3) && len(tracks) > 1 {
		// the video track is not the first one in the PMT
		tracks[0], tracks[1] = tracks[1], tracks[0]
	}
	lead := 0
	for i, t := range tracks {
		if t.desc.isVideo() {
			lead = i
			break
		}
	}
	S := pickStart33(r)
	total := r.Range(350, 1150) * 90 // ticks
	offMode := r.Pick(3, 5)
	nextID := 0
	for ti, t := range tracks {
		var jitter int64
		if ti != lead {
			jitter = r.Range(-3000, 3600)
			if r.Bool(1, 4) {
				jitter = 0
			}
		}
		start := S + jitter
		if start < 0 {
			start = 0
		}
		if t.desc.isVideo() {
			fd := int64(90000) / []int64{25, 30, 50, 60, 15, 24}[r.Intn(6)]
			tick := start
			for k := 0; tick-S < total || k < 1; k++ {
				var off int64
				if offMode == 1 {
					off = fd * int64(r.Intn(4))
				}
				if k == 0 && r.Bool(1, 6) {
					off = 180000 // like the library's own test: pts far ahead, possibly across the wrap
				}
				t.pes = append(t.pes, tlSample{tick: tick, dur: fd, off: off, localNs: tick - S, id: nextID, aus: 1})
				nextID++
				tick += fd
			}
		} else {
			ad := []int64{1920, 2090}[r.Intn(2)]
			tick := start
			for k := 0; tick-S < total || k < 1; k++ {
				n := 1 + r.Intn(2)
				t.pes = append(t.pes, tlSample{tick: tick, dur: ad * int64(n), localNs: tick - S, id: nextID, aus: n})
				nextID++
				tick += ad * int64(n)
			}
		}
	}
	nSeg := nSegFor(r, d.Mode)
	ls := tracks[lead].pes
	if len(ls) < nSeg || (len(ls) < 2 && nSeg > 1) {
		return d, false
	}
	segCuts := append([]int{0}, cutPoints(r, len(ls), nSeg)...)
	segCuts = append(segCuts, len(ls))
	segOf := func(local int64) int {
		s := 0
		for i := 0; i < nSeg; i++ {
			if ls[segCuts[i]].localNs <= local {
				s = i
			}
		}
		return s
	}
	nStreams := 1
	if asRends {
		nStreams = len(tracks)
	}
	streams := make([]StreamDesc, nStreams)
	for si := range streams {
		streams[si].Segs = make([]SegDesc, nSeg)
		for _, t := range tracks {
			if t.stream == si {
				streams[si].Tracks = append(streams[si].Tracks, t.desc)
			}
		}
	}
	for s := 0; s < nSeg; s++ {
		for si := range streams {
			var all []PESDesc
			for ti, t := range tracks {
				if t.stream != si {
					continue
				}
				idx := 0
				for tj := 0; tj < ti; tj++ {
					if tracks[tj].stream == si {
						idx++
					}
				}
				first := true
				for _, p := range t.pes {
					if segOf(p.localNs) != s {
						continue
					}
					pd := PESDesc{Track: idx, PTS: p.tick + p.off, DTS: p.tick, ID: p.id, AUs: p.aus}
					if !t.desc.isVideo() {
						pd.DTS = pd.PTS
					} else if first {
						pd.IDR = true
					}
					first = false
					all = append(all, pd)
				}
			}
			if len(all) == 0 {
				return d, false
			}
			// write order: by decode time, the segment's first video frame (IDR) first
			sort.SliceStable(all, func(i, j int) bool {
				if all[i].IDR != all[j].IDR {
					return all[i].IDR
				}
				return all[i].DTS < all[j].DTS
			})
			for i := 1; i+1 < len(all); i++ {
				if all[i].Track != all[i+1].Track && r.Bool(1, 5) {
					all[i], all[i+1] = all[i+1], all[i]
				}
			}
			streams[si].Segs[s].PES = all
		}
	}
	// every segment of every stream must carry that stream's leading track
	for si := range streams {
		sl := 0
		for i, t := range streams[si].Tracks {
			if t.isVideo() {
				sl = i
				break
			}
		}
		for _, sg := range streams[si].Segs {
			found := false
			have := map[int]bool{}
			for _, p := range sg.PES {
				have[p.Track] = true
				if p.Track == sl {
					found = true
				}
			}
			// mediacommon's Reader.Initialize reads the codec parameters of every PMT entry from
			// the first segment it is given: a segment the Client may start from carries all tracks
			if !found || len(have) != len(streams[si].Tracks) {
				return d, false
			}
		}
	}
	pdt0 := int64(1700000000)*1000000000 + r.Range(0, 999)*1000000
	l0 := ls[0].tick
	for s := 0; s < nSeg; s++ {
		first := ls[segCuts[s]]
		var endTick int64
		if s+1 < nSeg {
			endTick = ls[segCuts[s+1]].tick
		} else {
			last := ls[len(ls)-1]
			endTick = last.tick + last.dur
		}
		date := pdt0 + mulDivFloorBig(first.tick-l0, 1000000000, 90000)
		has := d.PDT == "all" || (d.PDT == "some" && s%2 == 0)
		for si := range streams {
			streams[si].Segs[s].HasDate = has
			streams[si].Segs[s].Date = date
			streams[si].Segs[s].DurNs = mulDivFloorBig(endTick-first.tick, 1000000000, 90000)
		}
	}
	if d.Mode == "vod" && nSeg >= 2 && r.Bool(1, 40) {
		d.Cap = true
		for si := range streams {
			sg := &streams[si].Segs[nSeg-1]
			for i := range sg.PES {
				sg.PES[i].PTS += 15 * 90000
				sg.PES[i].DTS += 15 * 90000
			}
		}
	}
	d.Leading = streams[0]
	liveParams(r, &d, &d.Leading, 0)
	for si := 1; si < nStreams; si++ {
		st := streams[si]
		st.Name = []string{"English", "German", "Commentary"}[(si-1)%3]
		st.Lang = []string{"en", "de", "fr"}[(si-1)%3]
		st.Default = si == 1
		liveParams(r, &d, &st, d.Leading.FirstLen)
		d.Rends = append(d.Rends, st)
	}
	genUnsupported(r, &d)
	return d, true
}

var unsupCodecs = []string{"mp3", "ac3", "opus", "h265", "mpeg4video", "mpeg1video"}

// genUnsupported adds 0..2 elementary streams the client does not support to the PMT of every
// MPEG-TS playlist, at arbitrary positions (before / between / after the supported ones), with
// or without PES data of their own. Drawn after everything else, so that the supported content
// of a (seed, index) is what it was before this dimension existed.
//
// Constraints that keep the stream well-formed for mediacommon's Reader (they are the muxer's
// and demultiplexer's business, not the client's): the very first PES of a playlist belongs to
// a supported stream (the first stream written carries the PCR and decides where PAT/PMT are
// repeated: at each of its random-access PES, i.e. at every segment start as before); AC-3
// parameters are read from PES data, so an AC-3 stream has data after the tables of every
// segment a Client may start from.
func genUnsupported(r *rng.R, d *Desc) {
	nextID := 0
	for _, st := range d.streams() {
		for _, sg := range st.Segs {
			for _, p := range sg.PES {
				if p.ID >= nextID {
					nextID = p.ID + 1
				}
			}
		}
	}
	for _, st := range d.streams() {
		n := r.Pick(5, 3, 2)
		vi := -1
		for i, t := range st.Tracks {
			if t.isVideo() {
				vi = i
				break
			}
		}
		for x := 0; x < n; x++ {
			codec := unsupCodecs[r.Pick(4, 2, 2, 2, 1, 1)]
			var before int
			if vi >= 0 && r.Bool(1, 2) {
				before = r.Intn(vi + 1) // before the H264 entry
			} else {
				before = r.Intn(len(st.Tracks) + 1)
			}
			st.Unsup = append(st.Unsup, UnsupDesc{Codec: codec, Before: before})
			mode := r.Pick(3, 5, 3) // no PES data | in every segment | in some segments
			if codec == "ac3" {
				mode = 1
			}
			for k := range st.Segs {
				sg := &st.Segs[k]
				if mode == 0 || (mode == 2 && r.Bool(1, 2)) || len(sg.PES) == 0 {
					continue
				}
				cnt := 1 + r.Intn(3)
				for c := 0; c < cnt; c++ {
					after := r.Intn(len(sg.PES) + 1)
					if after == 0 && (k == 0 || (codec == "ac3" && c == 0)) {
						after = 1
					}
					ref := sg.PES[len(sg.PES)-1]
					if after < len(sg.PES) {
						ref = sg.PES[after]
					}
					pts := ref.DTS + r.Range(-2000, 2000)
					if pts < 0 {
						pts = 0
					}
					sg.XPES = append(sg.XPES, XPESDesc{X: x, After: after, PTS: pts, ID: nextID})
					nextID++
				}
			}
		}
	}
}

// genDesc draws a description from (seed, index); generation attempts that do not yield a
// well-formed stream (a segment without its leading track) are redrawn.
func genDesc(seed uint64, index uint64) Desc {
	for attempt := uint64(0); ; attempt++ {
		r := rng.New(seed, index*1000+attempt)
		var d Desc
		var ok bool
		if r.Bool(11, 20) {
			d, ok = genFMP4(r)
		} else {
			d, ok = genMPEGTS(r)
		}
		if ok {
			return d
		}
	}
}
