package main

import (
	"bytes"
	"crypto/sha256"
	"encoding/binary"
	"fmt"
	"io"
	"net/http"
	"strconv"
	"strings"
	"sync"
	"time"

	"github.com/bluenviron/mediacommon/v2/pkg/codecs/h264"
	"github.com/bluenviron/mediacommon/v2/pkg/codecs/mpeg4audio"
	"github.com/bluenviron/mediacommon/v2/pkg/formats/fmp4"
	"github.com/bluenviron/mediacommon/v2/pkg/formats/fmp4/seekablebuffer"
	"github.com/bluenviron/mediacommon/v2/pkg/formats/mpegts"
)

var testSPS = []byte{
	0x67, 0x42, 0xc0, 0x28, 0xd9, 0x00, 0x78, 0x02,
	0x27, 0xe5, 0x84, 0x00, 0x00, 0x03, 0x00, 0x04,
	0x00, 0x00, 0x03, 0x00, 0xf0, 0x3c, 0x60, 0xc9,
	0x20,
}
var testPPS = []byte{0x08, 0x06, 0x07, 0x08}

// ---- payloads: a deterministic function of (case salt, payload id) ----

func payloadBytes(salt uint64, id int, n int) []byte {
	out := make([]byte, 0, n)
	ctr := uint64(0)
	for len(out) < n {
		var b [24]byte
		binary.LittleEndian.PutUint64(b[0:], salt)
		binary.LittleEndian.PutUint64(b[8:], uint64(id))
		binary.LittleEndian.PutUint64(b[16:], ctr)
		h := sha256.Sum256(b[:])
		for _, x := range h {
			if x != 0 && len(out) < n { // no zero bytes: Annex-B start codes cannot appear
				out = append(out, x)
			}
		}
		ctr++
	}
	return out
}

// the access unit of a video sample (what the H26x callback must deliver)
func videoAU(salt uint64, id int, idr bool) [][]byte {
	body := payloadBytes(salt, id, 12+id%7)
	if idr {
		return [][]byte{{7, 1, 2, 3}, {8, 1}, append([]byte{5}, body...)}
	}
	return [][]byte{append([]byte{1}, body...)}
}

// the access units of an audio unit
func audioAUs(salt uint64, id int, n int) [][]byte {
	var out [][]byte
	for i := 0; i < n; i++ {
		out = append(out, payloadBytes(salt, id*4+i+1000000, 8+(id+i)%9))
	}
	return out
}

func hashUnits(data [][]byte) string {
	h := sha256.New()
	for _, d := range data {
		var l [4]byte
		binary.LittleEndian.PutUint32(l[:], uint32(len(d)))
		h.Write(l[:])
		h.Write(d)
	}
	return fmt.Sprintf("%x", h.Sum(nil)[:12])
}

// ---- a synthesised presentation ----

type resource struct {
	body []byte
}

type segAddr struct {
	uri    string
	start  int64
	length int64
}

type synthStream struct {
	desc     *StreamDesc
	initAddr segAddr // fMP4 only
	segs     []segAddr
	plPath   string
}

type synth struct {
	d       *Desc
	salt    uint64
	files   map[string]*resource
	streams []*synthStream
	// payload hash -> payload id
	ids map[string]int
	// the same for the PES of unsupported elementary streams (never a Client callback)
	xids map[string]int
	// id -> is the first frame of a segment (IDR) for fMP4 video
	mu       sync.Mutex
	requests []string       // request log (path + range)
	plCount  map[string]int // playlist request counters
	genErr   error
}

func marshalMP4(m interface{ Marshal(io.WriteSeeker) error }) ([]byte, error) {
	var buf seekablebuffer.Buffer
	if err := m.Marshal(&buf); err != nil {
		return nil, err
	}
	return append([]byte{}, buf.Bytes()...), nil
}

func fmp4Codec(t TrackDesc) fmp4.Codec {
	switch t.Codec {
	case "h264":
		return &fmp4.CodecH264{SPS: testSPS, PPS: testPPS}
	case "opus":
		return &fmp4.CodecOpus{ChannelCount: 2}
	default:
		return &fmp4.CodecMPEG4Audio{Config: mpeg4audio.Config{Type: 2, SampleRate: 48000, ChannelCount: 2}}
	}
}

// the init-section codec of a track the client filters out of OnTracks (pkg/codecs FromFMP4
// knows AV1, VP9, H265, H264, Opus, MPEG-4 audio and nothing else)
func fmp4UnsupCodec(codec string) fmp4.Codec {
	switch codec {
	case "mp3":
		return &fmp4.CodecMPEG1Audio{SampleRate: 48000, ChannelCount: 2}
	case "ac3":
		return &fmp4.CodecAC3{SampleRate: 48000, ChannelCount: 6, Fscod: 0, Bsid: 8, Bsmod: 0, Acmod: 7, LfeOn: true, BitRateCode: 0xf}
	case "lpcm":
		return &fmp4.CodecLPCM{BitDepth: 24, SampleRate: 48000, ChannelCount: 2}
	case "mjpeg":
		return &fmp4.CodecMJPEG{Width: 640, Height: 480}
	case "mpeg4video":
		return &fmp4.CodecMPEG4Video{Config: []byte{
			0x00, 0x00, 0x01, 0xb0, 0x01, 0x00, 0x00, 0x01,
			0xb5, 0x89, 0x13, 0x00, 0x00, 0x01, 0x00, 0x00,
			0x00, 0x01, 0x20, 0x00, 0xc4, 0x8d, 0x88, 0x00,
			0xf5, 0x3c, 0x04, 0x87, 0x14, 0x63, 0x00, 0x00,
			0x01, 0xb2, 0x4c, 0x61, 0x76, 0x63, 0x35, 0x38,
			0x2e, 0x31, 0x33, 0x34, 0x2e, 0x31, 0x30, 0x30,
		}}
	default: // mpeg1video
		return &fmp4.CodecMPEG1Video{Config: []byte{
			0x00, 0x00, 0x01, 0xb3, 0x78, 0x04, 0x38, 0x35,
			0xff, 0xff, 0xe0, 0x18, 0x00, 0x00, 0x01, 0xb5,
			0x14, 0x4a, 0x00, 0x01, 0x00, 0x00,
		}}
	}
}

func (s *synth) buildFMP4Stream(si int, st *StreamDesc) (initB []byte, segB [][]byte, err error) {
	init := &fmp4.Init{}
	// init order: like a PMT, the unsupported tracks before / between / after the supported ones
	for _, e := range st.pmt() {
		if e.Sup >= 0 {
			t := st.Tracks[e.Sup]
			init.Tracks = append(init.Tracks, &fmp4.InitTrack{ID: t.ID, TimeScale: uint32(t.TimeScale), Codec: fmp4Codec(t)})
		} else {
			u := st.Unsup[e.X]
			init.Tracks = append(init.Tracks, &fmp4.InitTrack{ID: u.ID, TimeScale: uint32(u.TimeScale), Codec: fmp4UnsupCodec(u.Codec)})
		}
	}
	initB, err = marshalMP4(init)
	if err != nil {
		return nil, nil, err
	}
	seqNo := uint32(1)
	for _, sg := range st.Segs {
		var buf []byte
		for _, p := range sg.Parts {
			part := &fmp4.Part{SequenceNumber: seqNo}
			seqNo++
			for _, pt := range p.Tracks {
				id, supported, video, ok := st.trafTrack(pt)
				if !ok {
					return nil, nil, fmt.Errorf("traf: no track %d", pt.Track)
				}
				ptr := &fmp4.PartTrack{ID: id, BaseTime: uint64(pt.Base)}
				for k, sm := range pt.Samples {
					ps := &fmp4.PartSample{Duration: uint32(sm.Dur), PTSOffset: int32(sm.Off)}
					switch {
					case !supported:
						// a track the client does not process: never a Client callback
						units := [][]byte{payloadBytes(s.salt, sm.ID+3000000, 20+sm.ID%13)}
						ps.Payload = units[0]
						ps.IsNonSyncSample = video && k != 0
						s.xids[hashUnits(units)] = sm.ID
					case video:
						au := videoAU(s.salt, sm.ID, k == 0)
						enc, err2 := h264.AVCC(au).Marshal()
						if err2 != nil {
							return nil, nil, err2
						}
						ps.Payload = enc
						ps.IsNonSyncSample = k != 0
						s.ids[hashUnits(au)] = sm.ID
					default:
						aus := audioAUs(s.salt, sm.ID, 1)
						ps.Payload = aus[0]
						s.ids[hashUnits(aus)] = sm.ID
					}
					ptr.Samples = append(ptr.Samples, ps)
				}
				part.Tracks = append(part.Tracks, ptr)
			}
			b, err2 := marshalMP4(part)
			if err2 != nil {
				return nil, nil, err2
			}
			buf = append(buf, b...)
		}
		segB = append(segB, buf)
	}
	return initB, segB, nil
}

type switchW struct{ w io.Writer }

func (s *switchW) Write(p []byte) (int, error) { return s.w.Write(p) }

// the payload of one PES of an unsupported elementary stream, as the callback of mediacommon's
// Reader for that codec would hand it over (so that the reference demultiplexer can identify it)
func unsupUnits(salt uint64, codec string, id int) [][]byte {
	body := payloadBytes(salt, id+3000000, 40+id%11)
	switch codec {
	case "mp3":
		// MPEG-1 layer III, 32 kbit/s, 44100 Hz, mono: 144*32000/44100 = 104 bytes per frame
		f := append([]byte{0xFF, 0xFB, 0x10, 0xC0}, payloadBytes(salt, id+3000000, 100)...)
		return [][]byte{f}
	case "ac3":
		// syncword, crc1, fscod 0 (48 kHz) / frmsizecod 0 (64 words = 128 bytes), bsid 8, acmod 2 (2/0)
		f := append([]byte{0x0B, 0x77, 0x11, 0x22, 0x00, 0x40, 0x40}, payloadBytes(salt, id+3000000, 121)...)
		return [][]byte{f}
	case "opus":
		return [][]byte{body}
	case "h265":
		return [][]byte{append([]byte{0x02, 0x01}, body...)} // TRAIL_R
	case "mpeg4video":
		return [][]byte{append([]byte{0, 0, 1, 0xB6}, body...)}
	default: // mpeg1video
		return [][]byte{append([]byte{0, 0, 1, 0x00}, body...)}
	}
}

func unsupCodec(codec string) mpegts.Codec {
	switch codec {
	case "mp3":
		return &mpegts.CodecMPEG1Audio{}
	case "ac3":
		return &mpegts.CodecAC3{SampleRate: 48000, ChannelCount: 2}
	case "opus":
		return &mpegts.CodecOpus{ChannelCount: 2}
	case "h265":
		return &mpegts.CodecH265{}
	case "mpeg4video":
		return &mpegts.CodecMPEG4Video{}
	default:
		return &mpegts.CodecMPEG1Video{}
	}
}

func writeUnsup(w *mpegts.Writer, tr *mpegts.Track, codec string, pts int64, units [][]byte) error {
	switch codec {
	case "mp3":
		return w.WriteMPEG1Audio(tr, pts, units)
	case "ac3":
		return w.WriteAC3(tr, pts, units[0])
	case "opus":
		return w.WriteOpus(tr, pts, units)
	case "h265":
		return w.WriteH265(tr, pts, pts, units)
	case "mpeg4video":
		return w.WriteMPEG4Video(tr, pts, units[0])
	default:
		return w.WriteMPEG1Video(tr, pts, units[0])
	}
}

func (s *synth) buildMPEGTSStream(si int, st *StreamDesc) (segB [][]byte, err error) {
	var tracks []*mpegts.Track // PMT order
	sup := map[int]*mpegts.Track{}
	uns := map[int]*mpegts.Track{}
	for _, e := range st.pmt() {
		var tr *mpegts.Track
		switch {
		case e.Sup >= 0 && st.Tracks[e.Sup].isVideo():
			tr = &mpegts.Track{Codec: &mpegts.CodecH264{}}
		case e.Sup >= 0:
			tr = &mpegts.Track{Codec: &mpegts.CodecMPEG4Audio{
				Config: mpeg4audio.Config{Type: 2, SampleRate: 44100, ChannelCount: 2}}}
		default:
			tr = &mpegts.Track{Codec: unsupCodec(e.Codec)}
		}
		if e.Sup >= 0 {
			sup[e.Sup] = tr
		} else {
			uns[e.X] = tr
		}
		tracks = append(tracks, tr)
	}
	sw := &switchW{}
	w := &mpegts.Writer{W: sw, Tracks: tracks}
	if err = w.Initialize(); err != nil {
		return nil, err
	}
	for _, sg := range st.Segs {
		var buf bytes.Buffer
		sw.w = &buf
		writeX := func(pos int, rest bool) error {
			for _, x := range sg.XPES {
				if x.X < 0 || x.X >= len(st.Unsup) {
					return fmt.Errorf("xpes: no unsupported stream %d", x.X)
				}
				if x.After == pos || (rest && x.After > pos) {
					codec := st.Unsup[x.X].Codec
					units := unsupUnits(s.salt, codec, x.ID)
					s.xids[hashUnits(units)] = x.ID
					if err := writeUnsup(w, uns[x.X], codec, ((x.PTS%two33)+two33)%two33, units); err != nil {
						return err
					}
				}
			}
			return nil
		}
		for i, p := range sg.PES {
			if err = writeX(i, false); err != nil {
				return nil, err
			}
			tr := sup[p.Track]
			if st.Tracks[p.Track].isVideo() {
				au := videoAU(s.salt, p.ID, p.IDR)
				s.ids[hashUnits(au)] = p.ID
				err = w.WriteH264(tr, p.PTS%two33, p.DTS%two33, au)
			} else {
				aus := audioAUs(s.salt, p.ID, p.AUs)
				s.ids[hashUnits(aus)] = p.ID
				err = w.WriteMPEG4Audio(tr, p.PTS%two33, aus)
			}
			if err != nil {
				return nil, err
			}
		}
		if err = writeX(len(sg.PES), true); err != nil {
			return nil, err
		}
		segB = append(segB, append([]byte{}, buf.Bytes()...))
	}
	return segB, nil
}

func newSynth(d *Desc, salt uint64) (*synth, error) {
	s := &synth{d: d, salt: salt, files: map[string]*resource{}, ids: map[string]int{}, xids: map[string]int{}, plCount: map[string]int{}}
	ext := ".mp4"
	if d.Kind == "mpegts" {
		ext = ".ts"
	}
	for si, st := range d.streams() {
		ss := &synthStream{desc: st}
		var initB []byte
		var segB [][]byte
		var err error
		if d.Kind == "fmp4" {
			initB, segB, err = s.buildFMP4Stream(si, st)
		} else {
			segB, err = s.buildMPEGTSStream(si, st)
		}
		if err != nil {
			return nil, err
		}
		if d.Addr == "whole" {
			if initB != nil {
				u := fmt.Sprintf("s%d_init%s", si, ext)
				s.files["/"+u] = &resource{body: initB}
				ss.initAddr = segAddr{uri: u, length: -1}
			}
			for k, b := range segB {
				u := fmt.Sprintf("s%d_seg%d%s", si, k, ext)
				s.files["/"+u] = &resource{body: b}
				ss.segs = append(ss.segs, segAddr{uri: u, length: -1})
			}
		} else {
			u := fmt.Sprintf("s%d_all%s", si, ext)
			var all []byte
			if initB != nil {
				ss.initAddr = segAddr{uri: u, start: 0, length: int64(len(initB))}
				all = append(all, initB...)
			}
			for _, b := range segB {
				ss.segs = append(ss.segs, segAddr{uri: u, start: int64(len(all)), length: int64(len(b))})
				all = append(all, b...)
			}
			s.files["/"+u] = &resource{body: all}
		}
		if si == 0 && !d.Multi {
			ss.plPath = "/index.m3u8"
		} else {
			ss.plPath = fmt.Sprintf("/s%d.m3u8", si)
		}
		s.streams = append(s.streams, ss)
	}
	return s, nil
}

func codecsAttr(d *Desc) string {
	seen := map[string]bool{}
	var out []string
	for _, st := range d.streams() {
		for _, t := range st.Tracks {
			c := map[string]string{"h264": "avc1.42c028", "aac": "mp4a.40.2", "opus": "opus"}[t.Codec]
			if !seen[c] {
				seen[c] = true
				out = append(out, c)
			}
		}
	}
	return strings.Join(out, ",")
}

func (s *synth) multivariant() string {
	var b strings.Builder
	b.WriteString("#EXTM3U\n#EXT-X-VERSION:7\n#EXT-X-INDEPENDENT-SEGMENTS\n")
	for i, r := range s.d.Rends {
		def := "NO"
		if r.Default {
			def = "YES"
		}
		fmt.Fprintf(&b, "#EXT-X-MEDIA:TYPE=AUDIO,GROUP-ID=\"aud\",NAME=\"%s\",DEFAULT=%s,AUTOSELECT=YES,LANGUAGE=\"%s\",URI=\"s%d.m3u8\"\n",
			r.Name, def, r.Lang, i+1)
	}
	// a variant with unsupported codecs and a higher bandwidth must be ignored
	b.WriteString("#EXT-X-STREAM-INF:BANDWIDTH=9000000,CODECS=\"dvh1.05.01\"\nunsupported.m3u8\n")
	fmt.Fprintf(&b, "#EXT-X-STREAM-INF:BANDWIDTH=1200000,CODECS=\"%s\"", codecsAttr(s.d))
	if len(s.d.Rends) > 0 {
		b.WriteString(",AUDIO=\"aud\"")
	}
	b.WriteString("\ns0.m3u8\n")
	return b.String()
}

func fmtDate(ns int64) string {
	t := time.Unix(0, ns).UTC()
	return t.Format("2006-01-02T15:04:05.999999999Z07:00")
}

// media playlist of stream si for its n-th request (n starts at 0)
func (s *synth) mediaPlaylist(si int, n int) string {
	ss := s.streams[si]
	st := ss.desc
	d := s.d
	from, to, endlist := 0, len(st.Segs), true
	switch d.Mode {
	case "live", "event":
		if n == 0 {
			from, to, endlist = 0, st.FirstLen, false
		} else {
			from = st.TrimTo
			if d.Mode == "event" {
				from = 0 // an EVENT playlist never removes segments
			}
		}
	}
	var b strings.Builder
	b.WriteString("#EXTM3U\n#EXT-X-VERSION:7\n#EXT-X-TARGETDURATION:2\n")
	fmt.Fprintf(&b, "#EXT-X-MEDIA-SEQUENCE:%d\n", d.MediaSeq+from)
	switch d.Mode {
	case "vod":
		b.WriteString("#EXT-X-PLAYLIST-TYPE:VOD\n")
	case "event":
		b.WriteString("#EXT-X-PLAYLIST-TYPE:EVENT\n")
	}
	if d.Kind == "fmp4" {
		b.WriteString("#EXT-X-MAP:URI=\"" + ss.initAddr.uri + "\"")
		if ss.initAddr.length >= 0 {
			fmt.Fprintf(&b, ",BYTERANGE=\"%d@%d\"", ss.initAddr.length, ss.initAddr.start)
		}
		b.WriteString("\n")
	}
	for k := from; k < to; k++ {
		sg := st.Segs[k]
		if sg.HasDate {
			b.WriteString("#EXT-X-PROGRAM-DATE-TIME:" + fmtDate(sg.Date) + "\n")
		}
		dur := sg.DurNs
		if dur < 1000000 {
			dur = 1000000
		}
		fmt.Fprintf(&b, "#EXTINF:%d.%05d,\n", dur/1000000000, (dur%1000000000)/10000)
		a := ss.segs[k]
		if a.length >= 0 {
			// RFC 8216 4.3.2.2: the offset may be omitted when the sub-range follows the
			// previous segment's sub-range of the same resource
			if d.Addr == "range-implicit" && k > from {
				fmt.Fprintf(&b, "#EXT-X-BYTERANGE:%d\n", a.length)
			} else {
				fmt.Fprintf(&b, "#EXT-X-BYTERANGE:%d@%d\n", a.length, a.start)
			}
		}
		b.WriteString(a.uri + "\n")
	}
	if endlist {
		b.WriteString("#EXT-X-ENDLIST\n")
	}
	return b.String()
}

// RoundTrip implements http.RoundTripper.
func (s *synth) RoundTrip(req *http.Request) (*http.Response, error) {
	path := req.URL.Path
	rng := req.Header.Get("Range")
	mk := func(code int, body []byte) *http.Response {
		return &http.Response{
			StatusCode: code, Status: strconv.Itoa(code), Proto: "HTTP/1.1", ProtoMajor: 1, ProtoMinor: 1,
			Header: http.Header{}, Body: io.NopCloser(bytes.NewReader(body)), ContentLength: int64(len(body)), Request: req,
		}
	}
	s.mu.Lock()
	s.requests = append(s.requests, path+"|"+rng)
	n := s.plCount[path]
	if strings.HasSuffix(path, ".m3u8") {
		s.plCount[path]++
	}
	s.mu.Unlock()

	if path == "/index.m3u8" && s.d.Multi {
		return mk(200, []byte(s.multivariant())), nil
	}
	for si, ss := range s.streams {
		if ss.plPath == path {
			return mk(200, []byte(s.mediaPlaylist(si, n))), nil
		}
	}
	f, ok := s.files[path]
	if !ok {
		return mk(404, nil), nil
	}
	if rng == "" {
		return mk(200, f.body), nil
	}
	var a, b int64
	if _, err := fmt.Sscanf(rng, "bytes=%d-%d", &a, &b); err != nil || a < 0 || b < a {
		return mk(416, nil), nil
	}
	if a >= int64(len(f.body)) {
		return mk(416, nil), nil
	}
	if b >= int64(len(f.body)) {
		b = int64(len(f.body)) - 1
	}
	return mk(206, f.body[a:b+1]), nil
}
