package main

import (
	"bytes"
	"errors"
	"fmt"
	"io"
	"net/http"
	"strings"
	"sync"
	"time"

	"github.com/asticode/go-astits"
	"github.com/bluenviron/gohlslib/v2"
	"github.com/bluenviron/gohlslib/v2/pkg/codecs"
	"github.com/bluenviron/mediacommon/v2/pkg/formats/mpegts"
)

// obsUnit is one OnData* callback.
type obsUnit struct {
	PTS    int64  `json:"pts"`
	HasDTS bool   `json:"has_dts"`
	DTS    int64  `json:"dts"`
	HasNTP bool   `json:"has_ntp"`
	NTP    int64  `json:"ntp"` // Client.AbsoluteTime at the callback, ns since the Unix epoch
	Hash   string `json:"hash"`
	ID     int    `json:"id"` // payload id (-1: bytes the stream does not contain)
}

type obsTrack struct {
	ClockRate int64     `json:"clock_rate"`
	Video     bool      `json:"video"`
	Codec     string    `json:"codec"`
	Name      string    `json:"name"`
	Lang      string    `json:"lang"`
	Default   bool      `json:"default"`
	Units     []obsUnit `json:"units"`
}

type runResult struct {
	Tracks   []obsTrack `json:"tracks"`
	Outcome  string     `json:"outcome"` // eos | dtsrtc | noleading | error:<text> | timeout
	Requests []string   `json:"requests"`
	WallMs   int64      `json:"wall_ms"`
}

func classify(err error) string {
	switch {
	case errors.Is(err, gohlslib.ErrClientEOS):
		return "eos"
	case err == nil:
		return "error:nil"
	case strings.Contains(err.Error(), "difference between DTS and RTC is too big"):
		return "dtsrtc"
	case strings.Contains(err.Error(), "could not find data of leading track"):
		return "noleading"
	default:
		return "error:" + err.Error()
	}
}

// runClient plays the synthesised presentation with a real gohlslib.Client.
func runClient(s *synth, timeout time.Duration) runResult {
	var res runResult
	var mu sync.Mutex
	t0 := time.Now()
	var c *gohlslib.Client
	c = &gohlslib.Client{
		URI:                       "http://synth.invalid/index.m3u8",
		HTTPClient:                &http.Client{Transport: s},
		OnDownloadPrimaryPlaylist: func(string) {},
		OnDownloadStreamPlaylist:  func(string) {},
		OnDownloadSegment:         func(string) {},
		OnDownloadPart:            func(string) {},
		OnDecodeError:             func(error) {},
		OnTracks: func(tracks []*gohlslib.Track) error {
			mu.Lock()
			defer mu.Unlock()
			res.Tracks = make([]obsTrack, len(tracks))
			for i, tr := range tracks {
				i, tr := i, tr
				ot := &res.Tracks[i]
				ot.ClockRate = int64(tr.ClockRate)
				ot.Name, ot.Lang, ot.Default = tr.Name, tr.Language, tr.IsDefault
				rec := func(pts int64, hasDTS bool, dts int64, data [][]byte) {
					u := obsUnit{PTS: pts, HasDTS: hasDTS, DTS: dts, Hash: hashUnits(data), ID: -1}
					if at, ok := c.AbsoluteTime(tr); ok {
						u.HasNTP = true
						u.NTP = at.UnixNano()
					}
					if id, ok := s.ids[u.Hash]; ok {
						u.ID = id
					}
					mu.Lock()
					ot.Units = append(ot.Units, u)
					mu.Unlock()
				}
				switch tr.Codec.(type) {
				case *codecs.H264:
					ot.Video, ot.Codec = true, "h264"
					c.OnDataH26x(tr, func(pts int64, dts int64, au [][]byte) { rec(pts, true, dts, au) })
				case *codecs.H265:
					ot.Video, ot.Codec = true, "h265"
					c.OnDataH26x(tr, func(pts int64, dts int64, au [][]byte) { rec(pts, true, dts, au) })
				case *codecs.MPEG4Audio:
					ot.Codec = "aac"
					c.OnDataMPEG4Audio(tr, func(pts int64, aus [][]byte) { rec(pts, false, 0, aus) })
				case *codecs.Opus:
					ot.Codec = "opus"
					c.OnDataOpus(tr, func(pts int64, pkts [][]byte) { rec(pts, false, 0, pkts) })
				default:
					ot.Codec = fmt.Sprintf("%T", tr.Codec)
				}
			}
			return nil
		},
	}
	if err := c.Start(); err != nil {
		res.Outcome = "error:start:" + err.Error()
		return res
	}
	select {
	case err := <-c.Wait():
		res.Outcome = classify(err)
	case <-time.After(timeout):
		res.Outcome = "timeout"
	}
	c.Close()
	// the callbacks run on the Client's goroutines; after Wait() returned an error the
	// routine pool has been closed, no callback is running any more
	mu.Lock()
	defer mu.Unlock()
	s.mu.Lock()
	res.Requests = append([]string{}, s.requests...)
	s.mu.Unlock()
	res.WallMs = time.Since(t0).Milliseconds()
	return res
}

// downloaded returns, per stream, the indices of the media segments the Client requested
// (in request order), from the RoundTripper's log.
func downloaded(s *synth, res *runResult) [][]int {
	out := make([][]int, len(s.streams))
	for _, rq := range res.Requests {
		p := strings.SplitN(rq, "|", 2)
		path, rng := p[0], p[1]
		for si, ss := range s.streams {
			for k, a := range ss.segs {
				if "/"+a.uri != path {
					continue
				}
				if a.length < 0 {
					out[si] = append(out[si], k)
				} else if rng == fmt.Sprintf("bytes=%d-%d", a.start, a.start+a.length-1) {
					out[si] = append(out[si], k)
				}
			}
		}
	}
	return out
}

// emitted is one callback of mediacommon's mpegts.Reader.
type emitted struct {
	Track  int // index into the stream's supported tracks; -1: a PES of an unsupported elementary stream
	PMT    int // position of the PES's PID in the PMT (Reader.Tracks())
	RawPTS int64
	RawDTS int64
	ID     int
	Seg    int
}

// supportedOnly keeps the callbacks the Client registers (H264, MPEG-4 audio)
func supportedOnly(em []emitted) []emitted {
	var out []emitted
	for _, e := range em {
		if e.Track >= 0 {
			out = append(out, e)
		}
	}
	return out
}

func pmtCodecName(c mpegts.Codec) string {
	switch c.(type) {
	case *mpegts.CodecH264:
		return "h264"
	case *mpegts.CodecMPEG4Audio:
		return "aac"
	case *mpegts.CodecMPEG1Audio:
		return "mp3"
	case *mpegts.CodecAC3:
		return "ac3"
	case *mpegts.CodecOpus:
		return "opus"
	case *mpegts.CodecH265:
		return "h265"
	case *mpegts.CodecMPEG4Video:
		return "mpeg4video"
	case *mpegts.CodecMPEG1Video:
		return "mpeg1video"
	}
	return fmt.Sprintf("%T", c)
}

type swReader struct{ r io.Reader }

func (s *swReader) Read(p []byte) (int, error) { return s.r.Read(p) }

// referenceParse demultiplexes the segments of one MPEG-TS stream the way the Client does
// (one mpegts.Reader, the source switched per segment) and returns the Reader's callbacks
// in call order. mediacommon's demultiplexer is an oracle of this check: which PES is
// complete when is its business; this gives the sequence the stream processor is fed.
func referenceParse(s *synth, si int, segIdx []int) ([]emitted, error) {
	ss := s.streams[si]
	var out []emitted
	if len(segIdx) == 0 {
		return nil, nil
	}
	body := func(k int) []byte {
		a := ss.segs[k]
		f := s.files["/"+a.uri].body
		if a.length < 0 {
			return f
		}
		return f[a.start : a.start+a.length]
	}
	sw := &swReader{r: bytes.NewReader(body(segIdx[0]))}
	rd := &mpegts.Reader{R: sw}
	if err := rd.Initialize(); err != nil {
		return nil, err
	}
	cur := segIdx[0]
	// the PMT the Reader found must be the one the description lists, in order
	want := ss.desc.pmt()
	if len(want) != len(rd.Tracks()) {
		return nil, fmt.Errorf("the reference reader found %d PMT entries, the description has %d", len(rd.Tracks()), len(want))
	}
	sup := 0
	for k, tr := range rd.Tracks() {
		k, tr := k, tr
		if got := pmtCodecName(tr.Codec); got != want[k].Codec {
			return nil, fmt.Errorf("PMT entry %d is %s, the description has %s", k, got, want[k].Codec)
		}
		xrec := func(pts int64, dts int64, units [][]byte) error {
			id, ok := s.xids[hashUnits(units)]
			if !ok {
				id = -1
			}
			out = append(out, emitted{Track: -1, PMT: k, RawPTS: pts, RawDTS: dts, ID: id, Seg: cur})
			return nil
		}
		switch tr.Codec.(type) {
		case *mpegts.CodecH264:
			idx := sup
			sup++
			rd.OnDataH264(tr, func(pts int64, dts int64, au [][]byte) error {
				id, ok := s.ids[hashUnits(au)]
				if !ok {
					id = -1
				}
				out = append(out, emitted{Track: idx, PMT: k, RawPTS: pts, RawDTS: dts, ID: id, Seg: cur})
				return nil
			})
		case *mpegts.CodecMPEG4Audio:
			idx := sup
			sup++
			rd.OnDataMPEG4Audio(tr, func(pts int64, aus [][]byte) error {
				id, ok := s.ids[hashUnits(aus)]
				if !ok {
					id = -1
				}
				out = append(out, emitted{Track: idx, PMT: k, RawPTS: pts, RawDTS: pts, ID: id, Seg: cur})
				return nil
			})
		// the Client registers no callback for the following: their PES are recorded here only
		// so that the model is given the demultiplexer's complete output
		case *mpegts.CodecMPEG1Audio:
			rd.OnDataMPEG1Audio(tr, func(pts int64, frames [][]byte) error { return xrec(pts, pts, frames) })
		case *mpegts.CodecAC3:
			rd.OnDataAC3(tr, func(pts int64, frame []byte) error { return xrec(pts, pts, [][]byte{frame}) })
		case *mpegts.CodecOpus:
			rd.OnDataOpus(tr, func(pts int64, pkts [][]byte) error { return xrec(pts, pts, pkts) })
		case *mpegts.CodecH265:
			rd.OnDataH265(tr, func(pts int64, dts int64, au [][]byte) error { return xrec(pts, dts, au) })
		case *mpegts.CodecMPEG4Video, *mpegts.CodecMPEG1Video:
			rd.OnDataMPEGxVideo(tr, func(pts int64, frame []byte) error { return xrec(pts, pts, [][]byte{frame}) })
		}
	}
	for i, k := range segIdx {
		if i > 0 {
			sw.r = bytes.NewReader(body(k))
		}
		cur = k
		for {
			err := rd.Read()
			if err != nil {
				if errors.Is(err, astits.ErrNoMorePackets) {
					break
				}
				return nil, err
			}
		}
	}
	return out, nil
}
