package main

import (
	"bytes"
	"context"
	"encoding/json"
	"errors"
	"fmt"
	"io"
	"net/http"
	"os"
	"regexp"
	"runtime"
	"sort"
	"strings"
	"sync"
	"sync/atomic"
	"time"

	"github.com/bluenviron/gohlslib/v2"
	"github.com/bluenviron/gohlslib/v2/pkg/codecs"

	"verifharness/internal/rng"
)

// Scenario is one fault x close point.  It is the replayable input of a C12 case.
type Scenario struct {
	ID     int    `json:"id"`
	Stream string `json:"stream"` // ts-vod fmp4-mv fmp4-audio ts-live fmp4-ll (+ "-paced")
	// fault injected at request index FaultAt: none | status | transport
	Fault   string `json:"fault"`
	FaultAt int    `json:"fault_at"`
	// status faults: the status code answered (0 = 404) and whether the answer nevertheless carries
	// the content of the requested resource.  What the code under test does today, and therefore
	// what is demanded: a playlist request accepts only 200; an init / segment / part request
	// accepts 200 and 206 (ranged requests); every other status - 2xx and 3xx included, with or
	// without a body - is the HTTP failure "bad status code: N".
	FaultStatus int  `json:"fault_status,omitempty"`
	FaultBody   bool `json:"fault_body,omitempty"`
	// OnTracks returns an error
	OnTracksErr bool `json:"ontracks_err"`
	// where Close is called:
	//   none | during-do (request CloseAt blocked inside RoundTrip until its context ends; index 0 =
	//   before the first response) | during-body (response CloseAt delivered, its body stalls until the
	//   request context ends) | on-fault (as the faulty response is returned) | in-ontracks (inside the
	//   OnTracks callback) | after-ontracks (from another goroutine as soon as OnTracks has returned) |
	//   paced (a goroutine sits in clientTrack.handleData's pacing select) | at-start (right after
	//   Start returned) | after-result
	Close      string `json:"close"`
	CloseAt    int    `json:"close_at"`
	CloseTwice bool   `json:"close_twice"`
	Jitter     uint64 `json:"jitter"` // 0 = none, otherwise the seed of small random delays
}

type childResult struct {
	Trace          []string `json:"trace"`     // observable events in order, up to the result
	Truncated      bool     `json:"truncated"` // more than maxTrace events: the trace is a prefix
	Result         string   `json:"result"`
	ResultText     string   `json:"result_text"`
	CloseBefore    bool     `json:"close_before"` // Close had been called when the result arrived
	FaultServed    bool     `json:"fault_served"` // the injected fault was reached
	FaultKind      string   `json:"fault_kind"`   // kind of the request that got it: primary-playlist media-playlist init segment part
	OnTracksErred  bool     `json:"ontracks_erred"`
	AllDone        bool     `json:"all_done"`      // every request succeeded and every sample was delivered
	PointReached   bool     `json:"point_reached"` // the close point was reached (before the result)
	Second         string   `json:"second"`        // a second value received from Wait ("" = none)
	CallbacksAfter int      `json:"callbacks_after"`
	CallbackAfter  string   `json:"callback_after"`
	Leaks          []string `json:"leaks"` // innermost gohlslib function of every leaked goroutine
	LeakDump       string   `json:"leak_dump,omitempty"`
	Requests       int      `json:"requests"`
	Samples        int      `json:"samples"`
	Before         []string `json:"before"` // gohlslib goroutines before Start (must be empty)
	WallMs         int64    `json:"wall_ms"`
}

type stallBody struct {
	ctx   context.Context
	first func()
	once  sync.Once
}

func (b *stallBody) Read(_ []byte) (int, error) {
	b.once.Do(b.first)
	<-b.ctx.Done()
	return 0, b.ctx.Err()
}
func (b *stallBody) Close() error { return nil }

type child struct {
	sc     Scenario
	st     *streamDef
	client *gohlslib.Client
	jit    *rng.R

	mu        sync.Mutex
	trace     []string
	nreq      int
	reloads   int
	okReqs    int
	samples   int
	resulted  bool
	allDone   bool
	truncated bool

	faultKind    atomic.Value
	closeCalled  atomic.Bool
	pointReached atomic.Bool
	faultServed  atomic.Bool
	ontracksErr  atomic.Bool
	callbacks    atomic.Int64
	lastCallback atomic.Value
	atPoint      chan struct{}
}

// maxTrace bounds the recorded trace (a client that spins through requests without ever
// terminating would otherwise produce millions of events); a truncated trace is still judged by
// the oracle but is not replayed on the model
const maxTrace = 3000

func (c *child) ev(s string) {
	c.mu.Lock()
	c.evLocked(s)
	c.mu.Unlock()
}

func (c *child) evLocked(s string) {
	if c.resulted {
		return
	}
	if len(c.trace) >= maxTrace {
		c.truncated = true
		return
	}
	c.trace = append(c.trace, s)
}

func (c *child) jitter() {
	if c.jit == nil {
		return
	}
	c.mu.Lock()
	d := time.Duration(c.jit.Intn(3000)) * time.Microsecond
	c.mu.Unlock()
	time.Sleep(d)
}

func (c *child) callback(name string) {
	c.callbacks.Add(1)
	c.lastCallback.Store(name)
	c.ev("cb")
}

func (c *child) doClose() {
	c.closeCalled.Store(true)
	c.ev("close")
	c.client.Close()
	if c.sc.CloseTwice {
		c.ev("close")
		c.client.Close()
	}
}

func (c *child) reachPoint() {
	if c.pointReached.CompareAndSwap(false, true) {
		close(c.atPoint)
	}
}

var errInjected = errors.New("injected transport error")

func (sc Scenario) statusCode() int {
	if sc.FaultStatus == 0 {
		return 404
	}
	return sc.FaultStatus
}

func requestKind(idx int, path string) string {
	switch {
	case idx == 0:
		return "primary-playlist"
	case strings.HasSuffix(path, ".m3u8"):
		return "media-playlist"
	case strings.Contains(path, "init"):
		return "init"
	case strings.HasPrefix(path, "/part"):
		return "part"
	}
	return "segment"
}

// statusAccepted: the statuses the client treats as success for the kind of request (the kind is
// given by the resource: playlists end in .m3u8)
func statusAccepted(path string, code int) bool {
	if strings.HasSuffix(path, ".m3u8") {
		return code == http.StatusOK
	}
	return code == http.StatusOK || code == http.StatusPartialContent
}

func (c *child) RoundTrip(req *http.Request) (*http.Response, error) {
	// like net/http's transport (and as http_honours_ctx assumes): a request whose context is
	// already cancelled is not sent
	if err := req.Context().Err(); err != nil {
		return nil, err
	}
	c.mu.Lock()
	idx := c.nreq
	c.nreq++
	reloads := c.reloads
	if req.URL.Path == "/index.m3u8" && c.st.nreq == 0 {
		c.reloads++
	}
	c.mu.Unlock()
	c.jitter()

	if c.sc.Close == "during-do" && idx == c.sc.CloseAt {
		c.ev("req-blocked")
		c.reachPoint()
		<-req.Context().Done()
		return nil, req.Context().Err()
	}
	if c.sc.Fault != "none" && idx == c.sc.FaultAt {
		c.faultServed.Store(true)
		c.faultKind.Store(requestKind(idx, req.URL.Path))
		if c.sc.Close == "on-fault" {
			c.reachPoint()
			c.doClose()
		}
		if c.sc.Fault == "transport" {
			c.ev("req-fault:transport")
			return nil, errInjected
		}
		code := c.sc.statusCode()
		var fbody []byte
		if c.sc.FaultBody {
			fbody, _ = c.st.get(req.URL.Path, reloads)
		}
		if statusAccepted(req.URL.Path, code) && fbody != nil {
			// not a failure for this kind of request (206 on an init / segment / part): an ordinary answer
			c.faultServed.Store(false)
			c.ev("req-ok")
			c.mu.Lock()
			c.okReqs++
			c.mu.Unlock()
			return &http.Response{StatusCode: code, Status: fmt.Sprintf("%d %s", code, http.StatusText(code)),
				Header: http.Header{}, Body: io.NopCloser(bytes.NewReader(fbody)), Request: req}, nil
		}
		c.ev("req-fault:status")
		return &http.Response{StatusCode: code, Status: fmt.Sprintf("%d %s", code, http.StatusText(code)),
			Header: http.Header{}, Body: io.NopCloser(bytes.NewReader(fbody)), Request: req}, nil
	}
	body, ok := c.st.get(req.URL.Path, reloads)
	if !ok {
		// not part of the presentation: a harness error, reported through the result text
		c.ev("req-fault:status")
		return &http.Response{StatusCode: 410, Status: "410 Gone", Header: http.Header{},
			Body: io.NopCloser(bytes.NewReader(nil)), Request: req}, nil
	}
	if c.sc.Close == "during-body" && idx == c.sc.CloseAt {
		c.ev("req-blocked")
		return &http.Response{StatusCode: 200, Status: "200 OK", Header: http.Header{},
			Body: &stallBody{ctx: req.Context(), first: c.reachPoint}, Request: req}, nil
	}
	c.ev("req-ok")
	c.mu.Lock()
	c.okReqs++
	c.mu.Unlock()
	return &http.Response{StatusCode: 200, Status: "200 OK", Header: http.Header{},
		Body: io.NopCloser(bytes.NewReader(body)), Request: req}, nil
}

var frameRe = regexp.MustCompile(`gohlslib/v2\.(?:\(\*?([A-Za-z0-9_]+)\)\.)?([A-Za-z0-9_]+)`)

// gohlslibGoroutines: for every goroutine whose stack has a frame of the library, the innermost
// such function ("Type.method") and the full stack text
func gohlslibGoroutines() (funcs []string, dump string) {
	buf := make([]byte, 1<<20)
	for {
		n := runtime.Stack(buf, true)
		if n < len(buf) {
			buf = buf[:n]
			break
		}
		buf = make([]byte, 2*len(buf))
	}
	var sb strings.Builder
	for _, g := range strings.Split(string(buf), "\n\n") {
		lines := strings.Split(g, "\n")
		found := ""
		for _, l := range lines[1:] {
			if strings.HasPrefix(l, "\t") || strings.HasPrefix(l, "created by") {
				continue
			}
			if m := frameRe.FindStringSubmatch(l); m != nil && strings.Contains(l, "github.com/bluenviron/gohlslib/v2.") {
				if m[1] != "" {
					found = m[1] + "." + m[2]
				} else {
					found = m[2]
				}
				break
			}
		}
		if found != "" {
			funcs = append(funcs, found)
			sb.WriteString(g)
			sb.WriteString("\n\n")
		}
	}
	sort.Strings(funcs)
	return funcs, sb.String()
}

// pacedNow: some goroutine is blocked in the select of clientTrack.handleData
func pacedNow() bool {
	buf := make([]byte, 1<<20)
	n := runtime.Stack(buf, true)
	for _, g := range strings.Split(string(buf[:n]), "\n\n") {
		lines := strings.Split(g, "\n")
		if len(lines) < 2 || !strings.Contains(lines[0], "[select") {
			continue
		}
		if strings.Contains(lines[1], "gohlslib/v2.(*clientTrack).handleData") {
			return true
		}
	}
	return false
}

func classify(sc Scenario, err error) string {
	switch {
	case err == nil:
		return "nil"
	case errors.Is(err, gohlslib.ErrClientEOS):
		return "eos"
	case errors.Is(err, errInjected):
		return "transport"
	case err.Error() == "terminated":
		return "terminated"
	case err.Error() == fmt.Sprintf("bad status code: %d", sc.statusCode()):
		return "status"
	case err.Error() == "injected OnTracks error":
		return "ontracks"
	}
	return "other"
}

func runChild(scJSON string) {
	var sc Scenario
	if err := json.Unmarshal([]byte(scJSON), &sc); err != nil {
		fmt.Fprintln(os.Stderr, "bad scenario:", err)
		os.Exit(2)
	}
	t0 := time.Now()
	st := streamByName(sc.Stream)
	if st == nil {
		fmt.Fprintln(os.Stderr, "unknown stream", sc.Stream)
		os.Exit(2)
	}
	c := &child{sc: sc, st: st, atPoint: make(chan struct{})}
	if sc.Jitter != 0 {
		c.jit = rng.New(sc.Jitter, uint64(sc.ID))
	}
	var res childResult
	res.Before, _ = gohlslibGoroutines()

	cl := &gohlslib.Client{
		URI:                       "http://stub.invalid/index.m3u8",
		HTTPClient:                &http.Client{Transport: c},
		OnRequest:                 func(*http.Request) { c.callback("OnRequest") },
		OnDownloadPrimaryPlaylist: func(string) { c.callback("OnDownloadPrimaryPlaylist") },
		OnDownloadStreamPlaylist:  func(string) { c.callback("OnDownloadStreamPlaylist") },
		OnDownloadSegment:         func(string) { c.callback("OnDownloadSegment") },
		OnDownloadPart:            func(string) { c.callback("OnDownloadPart") },
		OnDecodeError:             func(error) { c.callback("OnDecodeError") },
	}
	c.client = cl
	onData := func() {
		c.callbacks.Add(1)
		c.lastCallback.Store("OnData")
		c.mu.Lock()
		c.samples++
		if !c.resulted {
			c.evLocked("sample")
			if st.nreq != 0 && c.samples == st.nsamples && c.okReqs == st.nreq {
				c.allDone = true
				c.evLocked("alldone")
			}
		}
		c.mu.Unlock()
		c.jitter()
	}
	cl.OnTracks = func(tracks []*gohlslib.Track) error {
		c.callbacks.Add(1)
		c.lastCallback.Store("OnTracks")
		for _, tr := range tracks {
			switch tr.Codec.(type) {
			case *codecs.H264, *codecs.H265:
				cl.OnDataH26x(tr, func(int64, int64, [][]byte) { onData() })
			case *codecs.MPEG4Audio:
				cl.OnDataMPEG4Audio(tr, func(int64, [][]byte) { onData() })
			}
		}
		if sc.Close == "in-ontracks" {
			c.reachPoint()
			c.doClose()
		}
		if sc.OnTracksErr {
			c.ontracksErr.Store(true)
			c.ev("ontracks-err")
			return errors.New("injected OnTracks error")
		}
		c.ev("ontracks-ok")
		if sc.Close == "after-ontracks" {
			c.reachPoint()
		}
		return nil
	}

	if err := cl.Start(); err != nil {
		fmt.Fprintln(os.Stderr, "Start:", err)
		os.Exit(2)
	}

	// the closer: waits for the close point, then calls Close
	stopCloser := make(chan struct{})
	closerDone := make(chan struct{})
	go func() {
		defer close(closerDone)
		switch sc.Close {
		case "at-start":
			c.reachPoint()
			c.doClose()
		case "during-do", "during-body", "after-ontracks":
			select {
			case <-c.atPoint:
				c.doClose()
			case <-stopCloser:
			}
		case "paced":
			for {
				select {
				case <-stopCloser:
					return
				default:
				}
				if pacedNow() {
					c.reachPoint()
					c.doClose()
					return
				}
				time.Sleep(2 * time.Millisecond)
			}
		}
	}()

	var werr error
	select {
	case werr = <-cl.Wait():
		c.mu.Lock()
		c.resulted = true
		c.mu.Unlock()
		res.CloseBefore = c.closeCalled.Load()
		res.Result = classify(sc, werr)
		res.ResultText = fmt.Sprint(werr)
	case <-time.After(8 * time.Second):
		c.mu.Lock()
		c.resulted = true
		c.mu.Unlock()
		res.Result = "no-result"
		fs, dump := gohlslibGoroutines()
		res.Leaks = fs
		res.LeakDump = dump
	}
	cbAtResult := c.callbacks.Load()
	res.PointReached = c.pointReached.Load()
	close(stopCloser)
	<-closerDone

	if sc.Close == "after-result" && res.Result != "no-result" {
		c.client.Close()
		if sc.CloseTwice {
			c.client.Close()
		}
	}

	if res.Result != "no-result" {
		// a second receive must not yield
		select {
		case e2 := <-cl.Wait():
			res.Second = fmt.Sprint(e2)
			if res.Second == "" {
				res.Second = "<empty>"
			}
		case <-time.After(60 * time.Millisecond):
		}
		// no goroutine of the library may remain (polled up to 2 s)
		deadline := time.Now().Add(2 * time.Second)
		for {
			fs, dump := gohlslibGoroutines()
			if len(fs) == 0 {
				break
			}
			if time.Now().After(deadline) {
				res.Leaks = fs
				res.LeakDump = dump
				break
			}
			time.Sleep(5 * time.Millisecond)
		}
		// callbacks must have stopped
		res.CallbacksAfter = int(c.callbacks.Load() - cbAtResult)
		if res.CallbacksAfter > 0 {
			res.CallbackAfter, _ = c.lastCallback.Load().(string)
		}
	}

	c.mu.Lock()
	res.Trace = c.trace
	res.Truncated = c.truncated
	res.Requests = c.nreq
	res.Samples = c.samples
	res.AllDone = c.allDone
	c.mu.Unlock()
	res.FaultServed = c.faultServed.Load()
	res.FaultKind, _ = c.faultKind.Load().(string)
	res.OnTracksErred = c.ontracksErr.Load()
	res.WallMs = time.Since(t0).Milliseconds()
	out, _ := json.Marshal(res)
	os.Stdout.Write(out)
	os.Stdout.Write([]byte("\n"))
}
