// Command clientlife is the harness of property C12 (client always terminates cleanly).
//
// Parent mode enumerates fault x close-point scenarios, runs each one in a child process of
// its own (the goroutine dump used by the leak oracle is process-global) with the REAL
// gohlslib.Client against an in-process stub RoundTripper, applies the property oracle
// (S leg) and writes the observed traces as Coq cases for the model comparison (T leg).
//
// Child mode (-child '<scenario json>') runs one scenario and prints its observations.
package main

import (
	"crypto/sha256"
	"encoding/hex"
	"encoding/json"
	"flag"
	"fmt"
	"os"
	"os/exec"
	"path/filepath"
	"sort"
	"strings"
	"sync"
	"time"

	"verifharness/internal/rng"
)

var vodStreams = []string{"ts-vod", "fmp4-mv", "fmp4-audio"}

func nreqOf(stream string) int {
	if stream == "ts-live" || stream == "fmp4-ll" {
		return 6 // request indices exercised on the live streams
	}
	return streamByName(stream).nreq
}

func enumerate(tier string, seed uint64, widen bool) []Scenario {
	var l []Scenario
	add := func(s Scenario) {
		s.ID = len(l)
		l = append(l, s)
	}
	all := append(append([]string{}, vodStreams...), "ts-live", "fmp4-ll")
	// statuses that are neither 4xx/5xx nor accepted: the answer is an HTTP failure whatever it carries
	type sv struct {
		code int
		body bool
	}
	odd := []sv{{204, false}, {304, false}, {204, true}, {304, true}}
	if tier == "thorough" || widen {
		odd = append(odd, sv{202, false}, sv{205, false}, sv{202, true}, sv{301, false})
	}
	for _, st := range all {
		n := nreqOf(st)
		// a fault at every request index; also with Close called as the fault is served
		for i := 0; i < n; i++ {
			for _, f := range []string{"status", "transport"} {
				add(Scenario{Stream: st, Fault: f, FaultAt: i, Close: "none"})
				add(Scenario{Stream: st, Fault: f, FaultAt: i, Close: "on-fault", CloseTwice: i%2 == 1})
			}
		}
		for i := 0; i < n; i++ {
			for _, o := range odd {
				add(Scenario{Stream: st, Fault: "status", FaultAt: i, FaultStatus: o.code, FaultBody: o.body, Close: "none"})
			}
			// 206 with the content: a failure on a playlist request, an ordinary answer on an init / segment /
			// part request (then the run goes on: to the end of a VOD stream, or to the Close two requests later)
			s206 := Scenario{Stream: st, Fault: "status", FaultAt: i, FaultStatus: 206, FaultBody: true, Close: "none"}
			if streamByName(st).nreq == 0 {
				s206.Close, s206.CloseAt = "during-do", i+2
			}
			add(s206)
		}
		// Close during every download: inside Do (index 0 = before the first response) and inside the body
		for i := 0; i < n; i++ {
			for _, tw := range []bool{false, true} {
				add(Scenario{Stream: st, Fault: "none", Close: "during-do", CloseAt: i, CloseTwice: tw})
				add(Scenario{Stream: st, Fault: "none", Close: "during-body", CloseAt: i, CloseTwice: tw})
			}
		}
		// track negotiation
		add(Scenario{Stream: st, Fault: "none", OnTracksErr: true, Close: "none"})
		for _, tw := range []bool{false, true} {
			add(Scenario{Stream: st, Fault: "none", Close: "in-ontracks", CloseTwice: tw})
			add(Scenario{Stream: st, Fault: "none", OnTracksErr: true, Close: "in-ontracks", CloseTwice: tw})
		}
		add(Scenario{Stream: st, Fault: "none", Close: "after-ontracks"})
		// Close right after Start returns (possibly before the run goroutine has done anything)
		add(Scenario{Stream: st, Fault: "none", Close: "at-start"})
		add(Scenario{Stream: st, Fault: "none", Close: "at-start", CloseTwice: true})
	}
	for _, st := range vodStreams {
		// end of stream; Close afterwards, once and twice
		add(Scenario{Stream: st, Fault: "none", Close: "none"})
		add(Scenario{Stream: st, Fault: "none", Close: "after-result"})
		add(Scenario{Stream: st, Fault: "none", Close: "after-result", CloseTwice: true})
	}
	// Close while a sample is being paced (DTS three seconds in the future)
	for _, st := range []string{"ts-vod-paced", "fmp4-mv-paced"} {
		for _, tw := range []bool{false, true} {
			add(Scenario{Stream: st, Fault: "none", Close: "paced", CloseTwice: tw})
		}
	}
	// the same points again with small random delays in the stub and in the callbacks
	base := len(l)
	extra := 45
	if tier == "thorough" {
		extra = 4 * base
	}
	if widen {
		extra *= 3
	}
	r := rng.New(seed, 12)
	for k := 0; k < extra; k++ {
		s := l[r.Intn(base)]
		s.Jitter = r.U64() | 1
		add(s)
	}
	return l
}

type failure struct {
	Signature string      `json:"signature"`
	What      string      `json:"what"`
	Input     interface{} `json:"input"`
}

// oracle: what the property text demands of one run, nothing more
func oracle(sc Scenario, r *childResult) []failure {
	var fs []failure
	fail := func(sig, what string) {
		fs = append(fs, failure{Signature: sig, What: what, Input: sc})
	}
	if len(r.Before) > 0 {
		fail("C12:harness:goroutines-before-start", "library goroutines exist before Start: "+strings.Join(r.Before, ","))
	}
	mustEnd := r.FaultServed || r.OnTracksErred || r.AllDone || r.PointReached
	if r.Result == "no-result" {
		if r.FaultServed && !r.CloseBefore && !r.OnTracksErred && !r.AllDone {
			// the client is still running as if nothing had happened: the goroutine dump depends on the moment
			fail("C12:no-result:fault-ignored:"+sc.Fault+":"+r.FaultKind,
				fmt.Sprintf("the %s fault served on a %s request was not surfaced: Wait() yielded nothing within 8 s and the client kept running", sc.Fault, r.FaultKind))
		} else if mustEnd {
			where := "unknown"
			if len(r.Leaks) > 0 {
				where = strings.Join(uniq(r.Leaks), "+")
			}
			fail("C12:no-result:"+where, "Wait() yielded nothing within 8 s although the client had to terminate; goroutines blocked in: "+where)
		} else {
			fail("C12:harness:no-result", "scenario did not reach any terminating event")
		}
		return fs
	}
	allowed := map[string]bool{}
	if r.FaultServed {
		allowed[sc.Fault] = true
	}
	if r.OnTracksErred {
		allowed["ontracks"] = true
	}
	if r.AllDone {
		allowed["eos"] = true
	}
	if r.CloseBefore {
		allowed["terminated"] = true
	}
	if !allowed[r.Result] {
		var a []string
		for k := range allowed {
			a = append(a, k)
		}
		sort.Strings(a)
		fail("C12:result:"+r.Result+":allowed="+strings.Join(a, "|"),
			fmt.Sprintf("Wait() yielded %q (class %s); the first fatal error / EOS / termination after Close allow only {%s}",
				r.ResultText, r.Result, strings.Join(a, ",")))
	}
	if r.Second != "" {
		fail("C12:second-value", "a second receive from Wait() yielded "+r.Second)
	}
	if r.CallbacksAfter > 0 {
		fail("C12:callback-after-result:"+r.CallbackAfter, fmt.Sprintf("%d user callbacks after Wait() yielded (last: %s)", r.CallbacksAfter, r.CallbackAfter))
	}
	if len(r.Leaks) > 0 {
		u := uniq(r.Leaks)
		fail("C12:leak:"+strings.Join(u, "+"), fmt.Sprintf("%d goroutines of the library still exist 2 s after Wait() yielded, blocked in: %s", len(r.Leaks), strings.Join(u, ", ")))
	}
	return fs
}

func uniq(l []string) []string {
	m := map[string]bool{}
	var o []string
	for _, s := range l {
		if !m[s] {
			m[s] = true
			o = append(o, s)
		}
	}
	sort.Strings(o)
	return o
}

func coqTrace(tr []string) string {
	var o []string
	for _, e := range tr {
		switch e {
		case "cb", "sample":
			o = append(o, "TCb")
		case "req-ok":
			o = append(o, "TReqOk")
		case "req-blocked":
			o = append(o, "TReqBlocked")
		case "req-fault:status":
			o = append(o, "TReqFault EHttpStatus")
		case "req-fault:transport":
			o = append(o, "TReqFault ETransport")
		case "ontracks-ok":
			o = append(o, "TOnTracks None")
		case "ontracks-err":
			o = append(o, "TOnTracks (Some EOnTracks)")
		case "close":
			o = append(o, "TClose")
		case "alldone":
			o = append(o, "TAllDone")
		default:
			panic("unknown trace event " + e)
		}
	}
	return "[" + strings.Join(o, "; ") + "]"
}

func coqResult(class string) string {
	switch class {
	case "eos":
		return "Some (RErr EEOS)"
	case "status":
		return "Some (RErr EHttpStatus)"
	case "transport":
		return "Some (RErr ETransport)"
	case "ontracks":
		return "Some (RErr EOnTracks)"
	case "terminated":
		return "Some RTerminated"
	case "other":
		return "Some (RErr EOther)"
	}
	return "None"
}

type caseRec struct {
	Index    int      `json:"index"`
	Shard    int      `json:"shard"`
	Scenario Scenario `json:"scenario"`
	Result   string   `json:"result"`
	Trace    []string `json:"trace"`
}

func main() {
	childSc := flag.String("child", "", "run one scenario (JSON) and print its observations")
	seed := flag.Uint64("seed", 0, "seed")
	tier := flag.String("tier", "quick", "quick|thorough")
	out := flag.String("out", "", "output directory")
	replay := flag.String("replay", "", "replay file (JSON with .input = scenario)")
	widen := flag.Bool("widen", false, "wider search")
	jobs := flag.Int("jobs", 12, "parallel child processes")
	flag.Parse()
	if *childSc != "" {
		runChild(*childSc)
		return
	}
	if *out == "" {
		fmt.Fprintln(os.Stderr, "need -out")
		os.Exit(2)
	}
	os.MkdirAll(*out, 0o755)

	var scs []Scenario
	if *replay != "" {
		raw, err := os.ReadFile(*replay)
		if err != nil {
			panic(err)
		}
		var rp struct {
			Input Scenario `json:"input"`
		}
		if err := json.Unmarshal(raw, &rp); err != nil {
			panic(err)
		}
		scs = []Scenario{rp.Input}
	} else {
		scs = enumerate(*tier, *seed, *widen)
	}

	self, err := os.Executable()
	if err != nil {
		panic(err)
	}
	results := make([]*childResult, len(scs))
	errs := make([]string, len(scs))
	var wg sync.WaitGroup
	sem := make(chan struct{}, *jobs)
	for i := range scs {
		wg.Add(1)
		sem <- struct{}{}
		go func(i int) {
			defer wg.Done()
			defer func() { <-sem }()
			j, _ := json.Marshal(scs[i])
			cmd := exec.Command(self, "-child", string(j))
			cmd.Stderr = nil
			done := make(chan struct{})
			var outb []byte
			var cerr error
			go func() { outb, cerr = cmd.Output(); close(done) }()
			select {
			case <-done:
			case <-time.After(30 * time.Second):
				if cmd.Process != nil {
					cmd.Process.Kill()
				}
				<-done
				errs[i] = "child timed out"
				return
			}
			if cerr != nil {
				errs[i] = "child failed: " + cerr.Error() + " " + string(outb)
				return
			}
			var r childResult
			if err := json.Unmarshal(outb, &r); err != nil {
				errs[i] = "child output: " + err.Error()
				return
			}
			results[i] = &r
		}(i)
	}
	wg.Wait()

	var failures []failure
	var infra []string
	dist := map[string]int{}
	seen := map[string]bool{}
	distinct := 0
	var cases []caseRec
	var samples []interface{}
	var coqCases []string
	for i, sc := range scs {
		if errs[i] != "" {
			infra = append(infra, fmt.Sprintf("scenario %d: %s", sc.ID, errs[i]))
			continue
		}
		r := results[i]
		failures = append(failures, oracle(sc, r)...)
		dist["stream:"+sc.Stream]++
		dist["fault:"+sc.Fault]++
		if sc.Fault == "status" {
			b := ""
			if sc.FaultBody {
				b = "+body"
			}
			dist[fmt.Sprintf("status:%d%s", sc.statusCode(), b)]++
			if r.FaultServed {
				dist["status-fault-on:"+r.FaultKind]++
			}
		}
		dist["close:"+sc.Close]++
		dist["result:"+r.Result]++
		if sc.OnTracksErr {
			dist["ontracks-err"]++
		}
		if sc.CloseTwice {
			dist["close-twice"]++
		}
		if sc.Jitter != 0 {
			dist["jitter"]++
		}
		if sc.Close != "none" && sc.Close != "after-result" {
			if r.PointReached {
				dist["close-point-reached"]++
			} else {
				dist["close-point-not-reached"]++
			}
		}
		// distinct + non-trivial: distinct observable behaviour (scenario shape + trace), where a
		// fault was actually served or a close point actually reached or the stream actually ended
		key := struct {
			S, F, C string
			FA, CA  int
			FS      int
			FB      bool
			OT, TW  bool
			T       []string
		}{sc.Stream, sc.Fault, sc.Close, sc.FaultAt, sc.CloseAt, sc.FaultStatus, sc.FaultBody, sc.OnTracksErr, sc.CloseTwice, r.Trace}
		kj, _ := json.Marshal(key)
		h := sha256.Sum256(kj)
		hs := hex.EncodeToString(h[:8])
		if !seen[hs] {
			seen[hs] = true
			if r.FaultServed || r.OnTracksErred || r.AllDone || r.PointReached {
				distinct++
				if len(samples) < 3 {
					samples = append(samples, map[string]interface{}{"scenario": sc, "trace": r.Trace, "result": r.Result})
				}
			}
		}
		if r.Truncated {
			// a prefix of the trace cannot be compared with the result; the oracle above has judged the run
			dist["trace-truncated-not-replayed"]++
			continue
		}
		coqCases = append(coqCases, fmt.Sprintf("{| cc_trace := %s;\n   cc_result := %s |}", coqTrace(r.Trace), coqResult(r.Result)))
		cases = append(cases, caseRec{Index: len(cases) % 300, Shard: len(cases) / 300, Scenario: sc, Result: r.Result, Trace: r.Trace})
	}
	// shards
	nshards := 0
	for s := 0; s*300 < len(coqCases); s++ {
		hi := (s + 1) * 300
		if hi > len(coqCases) {
			hi = len(coqCases)
		}
		var sb strings.Builder
		sb.WriteString("From Coq Require Import List.\n")
		sb.WriteString("From GoHls Require Import Lib.ClientLifeIR Model.ClientLife Tie.ClientLifeTie.\n")
		sb.WriteString("Import ListNotations.\n")
		sb.WriteString("Definition cases : list ccase := [\n")
		sb.WriteString(strings.Join(coqCases[s*300:hi], ";\n"))
		sb.WriteString("\n].\nDefinition M := Eval vm_compute in mismatches cases.\nPrint M.\n")
		if err := os.WriteFile(filepath.Join(*out, fmt.Sprintf("cases_%d.v", s)), []byte(sb.String()), 0o644); err != nil {
			panic(err)
		}
		nshards++
	}

	res := map[string]interface{}{
		"evaluations":         len(scs),
		"distinct_nontrivial": distinct,
		"rule": "systematic enumeration: 5 stub presentations (MPEG-TS VOD, fMP4 behind a multivariant playlist, fMP4 video + audio rendition, live MPEG-TS, low-latency fMP4 with preload hints) x " +
			"{status 404, 204, 304 without and with the content, 206 with the content (a failure only on playlist requests), transport error} at every request index (alone, and with Close called as the fault is served) x Close inside Do / inside the body of every request index " +
			"(once, twice) x OnTracks {error, Close inside, Close right after} x end of stream {no Close, Close after, twice} x Close while a sample is paced; plus re-runs with " +
			"random delays from splitmix64(seed). distinct = SHA-256 of (scenario shape, observed trace); non-trivial = the fault was served, or the close point was reached " +
			"before the result, or the stream ended",
		"samples":                       samples,
		"distribution":                  dist,
		"oracle_failures":               failures,
		"infra_errors":                  infra,
		"cases":                         cases,
		"shards":                        nshards,
		"traces_validated_against_impl": len(cases),
	}
	j, _ := json.MarshalIndent(res, "", " ")
	if err := os.WriteFile(filepath.Join(*out, "result.json"), j, 0o644); err != nil {
		panic(err)
	}
	fmt.Printf("clientlife harness: %d scenarios, %d distinct non-trivial, %d oracle failures, %d infra errors\n",
		len(scs), distinct, len(failures), len(infra))
}
