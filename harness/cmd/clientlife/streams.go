package main

import (
	"bytes"
	"fmt"
	"io"
	"strings"

	"github.com/bluenviron/mediacommon/v2/pkg/codecs/h264"
	"github.com/bluenviron/mediacommon/v2/pkg/codecs/mpeg4audio"
	"github.com/bluenviron/mediacommon/v2/pkg/formats/fmp4"
	"github.com/bluenviron/mediacommon/v2/pkg/formats/fmp4/seekablebuffer"
	"github.com/bluenviron/mediacommon/v2/pkg/formats/mpegts"
)

// Tiny valid HLS presentations served by the stub RoundTripper.  Every stream has a fixed
// number of requests until the end of the stream (0 for the live one) and a fixed number of
// samples; "paced" variants put the second segment's DTS three seconds in the future so that
// clientTrack.handleData sits in its pacing select.

var testSPS = []byte{
	0x67, 0x42, 0xc0, 0x28, 0xd9, 0x00, 0x78, 0x02,
	0x27, 0xe5, 0x84, 0x00, 0x00, 0x03, 0x00, 0x04,
	0x00, 0x00, 0x03, 0x00, 0xf0, 0x3c, 0x60, 0xc9,
	0x20,
}

var testPPS = []byte{0x01, 0x02, 0x03, 0x04}

var testAudioConfig = mpeg4audio.Config{
	Type:         2,
	SampleRate:   44100,
	ChannelCount: 2,
}

type streamDef struct {
	name     string
	nreq     int // requests until EOS (0: live, never ends)
	nsamples int // samples until EOS
	get      func(path string, reloads int) ([]byte, bool)
}

const tick = 900 // 10 ms at 90 kHz

func tsSegment(firstDTS int64, n int, idr bool) []byte {
	var buf bytes.Buffer
	tr := &mpegts.Track{Codec: &mpegts.CodecH264{}}
	w := &mpegts.Writer{W: &buf, Tracks: []*mpegts.Track{tr}}
	if err := w.Initialize(); err != nil {
		panic(err)
	}
	for i := 0; i < n; i++ {
		au := [][]byte{{1, 4, 5, 6}}
		if i == 0 && idr {
			au = [][]byte{testSPS, testPPS, {5, 1}}
		}
		dts := firstDTS + int64(i)*tick
		if err := w.WriteH264(tr, dts, dts, au); err != nil {
			panic(err)
		}
	}
	return buf.Bytes()
}

func marshalMP4(m interface{ Marshal(io.WriteSeeker) error }) []byte {
	var buf seekablebuffer.Buffer
	if err := m.Marshal(&buf); err != nil {
		panic(err)
	}
	return buf.Bytes()
}

func avcc(au [][]byte) []byte {
	b, err := h264.AVCC(au).Marshal()
	if err != nil {
		panic(err)
	}
	return b
}

func fmp4VideoInit() []byte {
	return marshalMP4(&fmp4.Init{Tracks: []*fmp4.InitTrack{{
		ID: 1, TimeScale: 90000, Codec: &fmp4.CodecH264{SPS: testSPS, PPS: testPPS},
	}}})
}

func fmp4AudioInit() []byte {
	return marshalMP4(&fmp4.Init{Tracks: []*fmp4.InitTrack{{
		ID: 1, TimeScale: 44100, Codec: &fmp4.CodecMPEG4Audio{Config: testAudioConfig},
	}}})
}

func fmp4VideoSeg(seq uint32, base uint64, n int) []byte {
	var ss []*fmp4.PartSample
	for i := 0; i < n; i++ {
		au := [][]byte{{1, 4, 5, 6}}
		if i == 0 {
			au = [][]byte{testSPS, testPPS, {5, 1}}
		}
		ss = append(ss, &fmp4.PartSample{Duration: tick, Payload: avcc(au), IsNonSyncSample: i != 0})
	}
	return marshalMP4(&fmp4.Part{SequenceNumber: seq, Tracks: []*fmp4.PartTrack{{ID: 1, BaseTime: base, Samples: ss}}})
}

func fmp4AudioSeg(seq uint32, base uint64, n int) []byte {
	var ss []*fmp4.PartSample
	for i := 0; i < n; i++ {
		ss = append(ss, &fmp4.PartSample{Duration: 441, Payload: []byte{1, 2, 3, 4}})
	}
	return marshalMP4(&fmp4.Part{SequenceNumber: seq, Tracks: []*fmp4.PartTrack{{ID: 1, BaseTime: base, Samples: ss}}})
}

const vodHeader = "#EXTM3U\n#EXT-X-VERSION:7\n#EXT-X-MEDIA-SEQUENCE:0\n#EXT-X-PLAYLIST-TYPE:VOD\n#EXT-X-TARGETDURATION:2\n"

func streamByName(name string) *streamDef {
	base := strings.TrimSuffix(name, "-paced")
	paced := base != name
	far := int64(0)
	if paced {
		far = 3 * 90000
	}
	switch base {
	case "ts-vod":
		return &streamDef{name: name, nreq: 4, nsamples: 4, get: func(p string, _ int) ([]byte, bool) {
			switch p {
			case "/index.m3u8":
				return []byte(vodHeader + "#EXTINF:1,\nseg0.ts\n#EXTINF:1,\nseg1.ts\n#EXT-X-ENDLIST\n"), true
			case "/seg0.ts":
				return tsSegment(90000, 2, true), true
			case "/seg1.ts":
				return tsSegment(90000+2*tick+far, 2, false), true
			}
			return nil, false
		}}
	case "fmp4-mv":
		return &streamDef{name: name, nreq: 6, nsamples: 4, get: func(p string, _ int) ([]byte, bool) {
			switch p {
			case "/index.m3u8":
				return []byte("#EXTM3U\n#EXT-X-STREAM-INF:BANDWIDTH=1000000,CODECS=\"avc1.42c028\"\nvideo.m3u8\n"), true
			case "/video.m3u8":
				return []byte(vodHeader + "#EXT-X-MAP:URI=\"init.mp4\"\n#EXTINF:1,\nseg0.mp4\n#EXTINF:1,\nseg1.mp4\n#EXT-X-ENDLIST\n"), true
			case "/init.mp4":
				return fmp4VideoInit(), true
			case "/seg0.mp4":
				return fmp4VideoSeg(0, 90000, 2), true
			case "/seg1.mp4":
				return fmp4VideoSeg(1, uint64(90000+2*tick+far), 2), true
			}
			return nil, false
		}}
	case "fmp4-audio":
		return &streamDef{name: name, nreq: 7, nsamples: 4, get: func(p string, _ int) ([]byte, bool) {
			switch p {
			case "/index.m3u8":
				return []byte("#EXTM3U\n" +
					"#EXT-X-MEDIA:TYPE=AUDIO,GROUP-ID=\"aac\",NAME=\"English\",DEFAULT=YES,AUTOSELECT=YES,LANGUAGE=\"en\",URI=\"audio.m3u8\"\n" +
					"#EXT-X-STREAM-INF:BANDWIDTH=1000000,CODECS=\"avc1.42c028,mp4a.40.2\",AUDIO=\"aac\"\nvideo.m3u8\n"), true
			case "/video.m3u8":
				return []byte(vodHeader + "#EXT-X-MAP:URI=\"init.mp4\"\n#EXTINF:1,\nseg0.mp4\n#EXT-X-ENDLIST\n"), true
			case "/audio.m3u8":
				return []byte(vodHeader + "#EXT-X-MAP:URI=\"ainit.mp4\"\n#EXTINF:1,\naseg0.mp4\n#EXT-X-ENDLIST\n"), true
			case "/init.mp4":
				return fmp4VideoInit(), true
			case "/ainit.mp4":
				return fmp4AudioInit(), true
			case "/seg0.mp4":
				return fmp4VideoSeg(0, 90000, 2), true
			case "/aseg0.mp4":
				return fmp4AudioSeg(0, 44100, 2), true
			}
			return nil, false
		}}
	case "fmp4-ll":
		// a low-latency fMP4 playlist (CAN-BLOCK-RELOAD + PRELOAD-HINT): the client alternates between the
		// hinted part (clientStreamDownloader.downloadPreloadHint) and a playlist reload; never ends
		return &streamDef{name: name, nreq: 0, nsamples: 0, get: func(p string, reloads int) ([]byte, bool) {
			if p == "/index.m3u8" {
				return []byte("#EXTM3U\n#EXT-X-VERSION:9\n#EXT-X-TARGETDURATION:1\n" +
					"#EXT-X-SERVER-CONTROL:CAN-BLOCK-RELOAD=YES,PART-HOLD-BACK=0.3\n#EXT-X-PART-INF:PART-TARGET=0.1\n" +
					"#EXT-X-MEDIA-SEQUENCE:0\n#EXT-X-MAP:URI=\"init.mp4\"\n#EXTINF:1,\nold.mp4\n" +
					fmt.Sprintf("#EXT-X-PRELOAD-HINT:TYPE=PART,URI=\"part%d.mp4\"\n", reloads)), true
			}
			if p == "/init.mp4" {
				return fmp4VideoInit(), true
			}
			var n int
			if _, err := fmt.Sscanf(p, "/part%d.mp4", &n); err == nil {
				return fmp4VideoSeg(uint32(n), uint64(90000+n*2*tick), 2), true
			}
			return nil, false
		}}
	case "ts-live":
		// a live playlist that gains one segment at every reload; the client starts 3 from the end
		return &streamDef{name: name, nreq: 0, nsamples: 0, get: func(p string, reloads int) ([]byte, bool) {
			if p == "/index.m3u8" {
				var sb strings.Builder
				sb.WriteString("#EXTM3U\n#EXT-X-VERSION:3\n#EXT-X-MEDIA-SEQUENCE:0\n#EXT-X-TARGETDURATION:1\n")
				for i := 0; i < 3+reloads; i++ {
					fmt.Fprintf(&sb, "#EXTINF:1,\nlive%d.ts\n", i)
				}
				return []byte(sb.String()), true
			}
			var n int
			if _, err := fmt.Sscanf(p, "/live%d.ts", &n); err == nil {
				return tsSegment(90000+int64(n)*2*tick, 2, n == 0), true
			}
			return nil, false
		}}
	}
	return nil
}
