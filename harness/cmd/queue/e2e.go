// End-to-end leg of C20: the REAL gohlslib.Client (clientStreamDownloader.runTraditional ->
// clientSegmentQueue -> clientStreamProcessor*) against scripted playlists served from memory
// (an http.RoundTripper, no network), with a consumer that is as slow as the pipeline allows.
//
// Oracle (from the property text: "in the non-Low-Latency modes the downloader never holds more
// than two downloaded segments waiting while another is being processed"), evaluated at every
// segment request, which the downloader issues synchronously from its own goroutine:
//
//	k = segments downloaded so far, F = segments whose LAST sample has reached the data callback.
//	A stream processor returns from processSegment only after every sample of the segment went
//	through the callback, so F <= pulled <= F+1, i.e. waiting = k - pulled >= k - F - 1.  A
//	downloader that may hold at most two waiting segments must not fetch a third one while two
//	wait: at every request k - F <= 2.
//
// The bound is timing independent (no false alarm however the goroutines are scheduled); the
// slow consumer only makes a violation certain: the callback of one chosen sample of each
// segment (its first sample, or the first sample of its LAST part for fMP4 segments made of
// several moof+mdat pairs) does not return before the downloader is seen parked in its throttle (hook
// "queue:waitBelow:unlocked"), or has fetched the last segment of a complete playlist, or the
// oracle has already fired.  No timeouts are used for inference (a watchdog turns a hang into an
// infrastructure error after 3 reproductions).
//
// Further legs with their own oracles, each described where it is defined: cancellation with a full sample
// queue, a track fragment without samples, and the Low-Latency mode (runLowLatency, not throttled: what was
// queued is delivered exactly once, in order and unchanged however far the consumer lags, e2eLLExecute).
package main

import (
	"bytes"
	"encoding/json"
	"errors"
	"fmt"
	"io"
	"net/http"
	"runtime"
	"strings"
	"sync"
	"time"

	"github.com/bluenviron/gohlslib/v2"
	"github.com/bluenviron/gohlslib/v2/pkg/codecs"
	"github.com/bluenviron/mediacommon/v2/pkg/codecs/h264"
	"github.com/bluenviron/mediacommon/v2/pkg/codecs/mpeg4audio"
	"github.com/bluenviron/mediacommon/v2/pkg/formats/fmp4"
	"github.com/bluenviron/mediacommon/v2/pkg/formats/fmp4/seekablebuffer"
	"github.com/bluenviron/mediacommon/v2/pkg/formats/mpegts"
)

type e2eScenario struct {
	Name   string `json:"e2e"`
	Format string `json:"format"` // ts | fmp4
	Kind   string `json:"kind"`   // vod: complete playlist; live: one more segment per reload; burst: live, then 5 more segments + ENDLIST at once; cancel: see e2eCancelExecute
	N      int    `json:"n"`      // vod: segments listed; live: segments to deliver before Close
	Slow   bool   `json:"slow"`
	// fMP4 only: moof+mdat pairs per media segment (0 = 1), as a Low-Latency packager produces them
	Parts int `json:"parts,omitempty"`
	// slow consumer: hold the first sample of the LAST part of each segment instead of the segment's first sample
	HoldLastPart bool `json:"hold_last_part,omitempty"`
	// live fMP4 playlist that advertises parts and a preload hint (EXT-X-SERVER-CONTROL with PART-HOLD-BACK only,
	// EXT-X-PART-INF, EXT-X-PRELOAD-HINT) but NOT blocking reloads: a legal playlist the client has to consume in
	// its traditional, throttled mode; the hinted part is served at once and counts as a downloaded media file
	Hint bool `json:"hint,omitempty"`
	// Kind "ll" only (see e2eLLExecute): N parts are served one by one as preload hints of a blocking-reload
	// playlist (Parts of them per listed segment); the first sample of part k does not leave the data callback
	// before the downloader has queued min(k+1+Lag, N) parts
	Lag int `json:"lag,omitempty"`
	// Kind "ll" only: the server answers the request for part j only once the consumer has entered part j-Lag-1, so
	// that the downloader stays Lag (+1 or 2) parts ahead instead of fetching everything at once
	Paced bool `json:"paced,omitempty"`
}

func (sc e2eScenario) parts() int {
	if sc.Format != "fmp4" || sc.Parts < 1 {
		return 1
	}
	return sc.Parts
}

// samples per segment
func (sc e2eScenario) sps() int { return sc.parts() * e2eSamplesPerPart }

// index (within its segment) of the sample the slow consumer holds
func (sc e2eScenario) holdAt() int {
	if sc.HoldLastPart {
		return (sc.parts() - 1) * e2eSamplesPerPart
	}
	return 0
}

func e2eScenarios(tier string) []e2eScenario {
	s := []e2eScenario{
		{Name: "ts-vod-slow", Format: "ts", Kind: "vod", N: 8, Slow: true},
		{Name: "ts-vod-fast", Format: "ts", Kind: "vod", N: 8},
		{Name: "ts-live-slow", Format: "ts", Kind: "live", N: 8, Slow: true},
		{Name: "ts-burst-slow", Format: "ts", Kind: "burst", Slow: true},
		{Name: "fmp4-vod-slow", Format: "fmp4", Kind: "vod", N: 6, Slow: true},
		// media segments made of several parts (moof+mdat pairs): a segment is processed only when
		// every part of it went through the callback
		{Name: "fmp4-vod-3parts-slow-lastpart", Format: "fmp4", Kind: "vod", N: 6, Slow: true, Parts: 3, HoldLastPart: true},
		{Name: "fmp4-vod-2parts-slow-firstpart", Format: "fmp4", Kind: "vod", N: 6, Slow: true, Parts: 2},
		{Name: "fmp4-live-4parts-slow-lastpart", Format: "fmp4", Kind: "live", N: 6, Slow: true, Parts: 4, HoldLastPart: true},
		// "both return promptly on cancellation", end to end: Close while the MPEG-TS stream processor is blocked
		// pushing into the full sample queue of a track whose processor sleeps between two samples
		{Name: "ts-vod-cancel-full-sample-queue", Format: "ts", Kind: "cancel", N: 150},
		// mode selection: without CAN-BLOCK-RELOAD the look-ahead bound applies, whatever else the playlist advertises
		{Name: "fmp4-live-slow-preload-hint-without-blocking-reload", Format: "fmp4", Kind: "live", N: 8, Slow: true, Hint: true},
		// a declared track whose fragment holds no sample (trun sample_count 0) in the second of four segments:
		// every downloaded segment is passed on, in order, and the end of the stream is reported
		{Name: "fmp4-vod-empty-track-fragment", Format: "fmp4", Kind: "empty-traf", N: 4},
		// Low-Latency mode (CAN-BLOCK-RELOAD=YES + preload hint: runLowLatency, which is NOT throttled by the
		// queue): every part carries its own index in every NAL unit; exactly-once, in order, unchanged,
		// however far the consumer lags behind.
		// the consumer sits in the callback of the very first sample until all 8 parts are queued (7 wait)
		{Name: "fmp4-ll-8parts-consumer-held-until-all-queued", Format: "fmp4", Kind: "ll", N: 8, Parts: 4, Slow: true, Lag: 8},
		// the consumer stays 4 to 6 parts behind the downloader all the way (the first sample of every part is held
		// until the downloader is 4 parts ahead, the server serves a part only when the consumer is near enough)
		{Name: "fmp4-ll-12parts-consumer-4-parts-behind", Format: "fmp4", Kind: "ll", N: 12, Parts: 4, Slow: true, Lag: 4, Paced: true},
	}
	if tier == "thorough" {
		s = append(s,
			e2eScenario{Name: "ts-vod-slow-40", Format: "ts", Kind: "vod", N: 40, Slow: true},
			e2eScenario{Name: "ts-live-fast", Format: "ts", Kind: "live", N: 12},
			e2eScenario{Name: "ts-burst-fast", Format: "ts", Kind: "burst"},
			e2eScenario{Name: "fmp4-vod-fast", Format: "fmp4", Kind: "vod", N: 6},
			e2eScenario{Name: "fmp4-live-slow", Format: "fmp4", Kind: "live", N: 8, Slow: true},
			e2eScenario{Name: "fmp4-vod-2parts-slow-lastpart", Format: "fmp4", Kind: "vod", N: 8, Slow: true, Parts: 2, HoldLastPart: true},
			e2eScenario{Name: "fmp4-vod-4parts-slow-lastpart", Format: "fmp4", Kind: "vod", N: 8, Slow: true, Parts: 4, HoldLastPart: true},
			e2eScenario{Name: "fmp4-vod-4parts-slow-firstpart", Format: "fmp4", Kind: "vod", N: 8, Slow: true, Parts: 4},
			e2eScenario{Name: "fmp4-vod-3parts-fast", Format: "fmp4", Kind: "vod", N: 8, Parts: 3},
			e2eScenario{Name: "fmp4-burst-3parts-slow-lastpart", Format: "fmp4", Kind: "burst", Slow: true, Parts: 3, HoldLastPart: true},
			e2eScenario{Name: "fmp4-ll-40parts-consumer-held-until-all-queued", Format: "fmp4", Kind: "ll", N: 40, Parts: 4, Slow: true, Lag: 40},
			e2eScenario{Name: "fmp4-ll-40parts-consumer-5-parts-behind", Format: "fmp4", Kind: "ll", N: 40, Parts: 3, Slow: true, Lag: 5, Paced: true},
			e2eScenario{Name: "fmp4-ll-12parts-fast", Format: "fmp4", Kind: "ll", N: 12, Parts: 4},
		)
	}
	return s
}

const (
	e2eSamplesPerPart = 3
	e2eTick           = 900 // 10 ms at 90 kHz
)

var e2eSPS = []byte{
	0x67, 0x42, 0xc0, 0x28, 0xd9, 0x00, 0x78, 0x02,
	0x27, 0xe5, 0x84, 0x00, 0x00, 0x03, 0x00, 0x04,
	0x00, 0x00, 0x03, 0x00, 0xf0, 0x3c, 0x60, 0xc9,
	0x20,
}

var e2ePPS = []byte{0x01, 0x02, 0x03, 0x04}

func e2eTSSegment(idx int) []byte {
	var buf bytes.Buffer
	tr := &mpegts.Track{Codec: &mpegts.CodecH264{}}
	w := &mpegts.Writer{W: &buf, Tracks: []*mpegts.Track{tr}}
	if err := w.Initialize(); err != nil {
		panic(err)
	}
	for i := 0; i < e2eSamplesPerPart; i++ {
		au := [][]byte{{1, 4, 5, 6}}
		if i == 0 {
			au = [][]byte{e2eSPS, e2ePPS, {5, 1}}
		}
		dts := int64(90000 + (idx*e2eSamplesPerPart+i)*e2eTick)
		if err := w.WriteH264(tr, dts, dts, au); err != nil {
			panic(err)
		}
	}
	return buf.Bytes()
}

func e2eMP4(m interface{ Marshal(io.WriteSeeker) error }) []byte {
	var buf seekablebuffer.Buffer
	if err := m.Marshal(&buf); err != nil {
		panic(err)
	}
	return buf.Bytes()
}

func e2eFMP4Init() []byte {
	return e2eMP4(&fmp4.Init{Tracks: []*fmp4.InitTrack{{
		ID: 1, TimeScale: 90000, Codec: &fmp4.CodecH264{SPS: e2eSPS, PPS: e2ePPS},
	}}})
}

func e2eFMP4Segment(idx, parts int) []byte {
	var out []byte
	for p := 0; p < parts; p++ {
		var ss []*fmp4.PartSample
		for i := 0; i < e2eSamplesPerPart; i++ {
			au := [][]byte{{1, 4, 5, 6}}
			if i == 0 {
				au = [][]byte{e2eSPS, e2ePPS, {5, 1}}
			}
			b, err := h264.AVCC(au).Marshal()
			if err != nil {
				panic(err)
			}
			ss = append(ss, &fmp4.PartSample{Duration: e2eTick, Payload: b, IsNonSyncSample: i != 0})
		}
		first := (idx*parts + p) * e2eSamplesPerPart
		out = append(out, e2eMP4(&fmp4.Part{SequenceNumber: uint32(idx*parts + p), Tracks: []*fmp4.PartTrack{{
			ID: 1, BaseTime: uint64(90000 + first*e2eTick), Samples: ss,
		}}})...)
	}
	return out
}

type e2eRun struct {
	sc   e2eScenario
	mu   sync.Mutex
	cond *sync.Cond

	reloads        int
	hints          int  // hinted parts served
	segReqs        int  // k
	samplesEntered int  // F = samplesEntered / sc.sps()
	parked         bool // the downloader announced its throttle and has made no request since
	lastServed     bool // the last segment of a complete playlist has been requested
	endlistSeen    bool
	stop           bool
	parks          int
	events         int // requests + throttle announcements so far
	maxAhead       int
	violation      string
	violationKind  string
	reqLog         []string
}

func (r *e2eRun) playlist(reload int) (n int, endlist bool) {
	switch r.sc.Kind {
	case "vod":
		return r.sc.N, true
	case "live":
		return 3 + reload, false
	default: // burst
		if reload < 2 {
			return 3 + reload, false
		}
		return 9, true
	}
}

func (r *e2eRun) RoundTrip(req *http.Request) (*http.Response, error) {
	p := req.URL.Path
	var body []byte
	status := 200
	r.mu.Lock()
	r.parked = false
	r.events++
	ext := ".ts"
	if r.sc.Format == "fmp4" {
		ext = ".mp4"
	}
	switch {
	case p == "/index.m3u8":
		n, endlist := r.playlist(r.reloads)
		r.reloads++
		var sb strings.Builder
		sb.WriteString("#EXTM3U\n#EXT-X-VERSION:7\n#EXT-X-MEDIA-SEQUENCE:0\n#EXT-X-TARGETDURATION:1\n")
		if r.sc.Hint {
			sb.WriteString("#EXT-X-SERVER-CONTROL:PART-HOLD-BACK=3.00000\n#EXT-X-PART-INF:PART-TARGET=1.00000\n")
		}
		if r.sc.Kind == "vod" {
			sb.WriteString("#EXT-X-PLAYLIST-TYPE:VOD\n")
		}
		if r.sc.Format == "fmp4" {
			sb.WriteString("#EXT-X-MAP:URI=\"init.mp4\"\n")
		}
		for i := 0; i < n; i++ {
			fmt.Fprintf(&sb, "#EXTINF:1,\nseg%d%s\n", i, ext)
		}
		if endlist {
			sb.WriteString("#EXT-X-ENDLIST\n")
			r.endlistSeen = true
		} else if r.sc.Hint {
			sb.WriteString("#EXT-X-PRELOAD-HINT:TYPE=PART,URI=\"part.mp4\"\n")
		}
		body = []byte(sb.String())
	case p == "/init.mp4":
		body = e2eFMP4Init()
	default:
		var idx int
		if r.sc.Hint && p == "/part.mp4" {
			// the hinted part: the server never makes the client wait for it; its media continues the
			// stream (a client that takes this path never fetches segments)
			idx = r.hints
			r.hints++
		} else if _, err := fmt.Sscanf(p, "/seg%d"+ext, &idx); err != nil {
			status = 404
			break
		}
		k := r.segReqs
		f := r.samplesEntered / r.sc.sps()
		if k-f > r.maxAhead {
			r.maxAhead = k - f
		}
		// (disarmed once the harness has decided to close the client: after Close no sample reaches the callback
		// any more, so F stands still, while a cancelled MPEG-TS stream processor still drains the segments that
		// are queued - its pushes into the buffered sample queue and pull() on a non-empty queue succeed without
		// looking at the context - and lets the downloader fetch a few more before everybody returns)
		if k-f > 2 && r.violation == "" && !r.stop {
			r.violationKind = "live"
			if r.endlistSeen {
				r.violationKind = "endlist"
			}
			if r.sc.Hint {
				r.violationKind = "live:preload-hint-without-blocking-reload"
			}
			r.violation = fmt.Sprintf("the downloader requests %s as its %d-th segment although only %d segment(s) have been fully processed: "+
				"%d downloaded segments are unprocessed, at most one of them is being processed, so at least %d are already waiting in the queue and this one will be the %d-th "+
				"(at most 2 may wait in the traditional mode); requests so far: %v [samples entered %d, stop=%v]",
				p[1:], k+1, f, k-f, k-f-1, k-f, r.reqLog, r.samplesEntered, r.stop)
		}
		r.segReqs++
		r.reqLog = append(r.reqLog, p[1:])
		if n, endlist := r.playlist(r.reloads - 1); endlist && idx == n-1 {
			r.lastServed = true
		}
		if r.sc.Format == "fmp4" {
			body = e2eFMP4Segment(idx, r.sc.parts())
		} else {
			body = e2eTSSegment(idx)
		}
	}
	r.cond.Broadcast()
	r.mu.Unlock()
	return &http.Response{
		StatusCode: status, Status: fmt.Sprintf("%d", status), Proto: "HTTP/1.1", ProtoMajor: 1, ProtoMinor: 1,
		Header: http.Header{}, Body: io.NopCloser(bytes.NewReader(body)), ContentLength: int64(len(body)), Request: req,
	}, nil
}

func (r *e2eRun) hook(point string) {
	if point != "queue:waitBelow:unlocked" {
		return
	}
	r.mu.Lock()
	r.parked = true
	r.events++
	r.parks++
	r.cond.Broadcast()
	r.mu.Unlock()
}

func (r *e2eRun) onSample() {
	r.mu.Lock()
	if r.sc.Slow && r.samplesEntered%r.sc.sps() == r.sc.holdAt() {
		self := curGID()
		for spins := 0; ; spins++ {
			for !(r.parked || r.lastServed || r.violation != "" || r.stop) {
				r.cond.Wait()
			}
			if r.violation != "" || r.stop {
				break
			}
			// the downloader is throttled (or done).  Hold on until the whole client is at rest: a
			// stream processor that is still running may pull another segment and un-throttle the
			// downloader, which must then be seen by the oracle before this segment completes
			ev := r.events
			r.mu.Unlock()
			quiet := e2eClientAtRest(self)
			r.mu.Lock()
			if quiet && r.events == ev {
				break
			}
			r.mu.Unlock()
			if spins < 100 {
				runtime.Gosched()
			} else {
				time.Sleep(50 * time.Microsecond)
			}
			r.mu.Lock()
		}
	}
	r.samplesEntered++
	r.cond.Broadcast()
	r.mu.Unlock()
}

var e2eStackBuf = make([]byte, 1<<20)

// one stop-the-world goroutine dump: every goroutine with a gohlslib frame, except the caller, is
// blocked (channel operation, select, condition variable) - nothing in the client can move by itself
func e2eClientAtRest(self string) bool {
	n := runtime.Stack(e2eStackBuf, true)
	for _, blk := range bytes.Split(e2eStackBuf[:n], []byte("\n\n")) {
		m := gidRe.FindSubmatch(blk)
		if m == nil || string(m[1]) == self || !bytes.Contains(blk, []byte("github.com/bluenviron/gohlslib/v2.")) {
			continue
		}
		h := string(blk[:bytes.IndexByte(blk, '\n')])
		st := h[strings.Index(h, "[")+1:]
		if i := strings.IndexAny(st, ",]"); i >= 0 {
			st = st[:i]
		}
		switch st {
		case "select", "chan receive", "chan send", "sync.Cond.Wait", "sync.WaitGroup.Wait", "IO wait",
			"select (no cases)", "chan receive (nil chan)":
		default:
			return false
		}
	}
	return true
}

type e2eResult struct {
	sc        e2eScenario
	violation string
	kind      string
	maxAhead  int
	parks     int
	segReqs   int
	delivered int
	hang      string
	earlyEOS  string
}

func e2eExecute(sc e2eScenario) e2eResult {
	r := &e2eRun{sc: sc}
	r.cond = sync.NewCond(&r.mu)
	gohlslib.VerifSetHook(r.hook)
	defer gohlslib.VerifSetHook(hookFn)

	want := sc.N * sc.sps()
	if sc.Kind == "burst" {
		want = 9 * sc.sps()
	}
	cl := &gohlslib.Client{
		URI:        "http://stub.invalid/index.m3u8",
		HTTPClient: &http.Client{Transport: r},
		// (the defaults log every download)
		OnDownloadPrimaryPlaylist: func(string) {},
		OnDownloadStreamPlaylist:  func(string) {},
		OnDownloadSegment:         func(string) {},
		OnDownloadPart:            func(string) {},
		OnDecodeError:             func(error) {},
	}
	cl.OnTracks = func(tracks []*gohlslib.Track) error {
		for _, tr := range tracks {
			if _, ok := tr.Codec.(*codecs.H264); ok {
				cl.OnDataH26x(tr, func(int64, int64, [][]byte) { r.onSample() })
			}
		}
		return nil
	}
	res := e2eResult{sc: sc}
	if err := cl.Start(); err != nil {
		res.hang = "Client.Start: " + err.Error()
		return res
	}
	finished := make(chan struct{})
	go func() {
		r.mu.Lock()
		for r.samplesEntered < want && !r.stop {
			r.cond.Wait()
		}
		r.mu.Unlock()
		close(finished)
	}()
	var werr error
	select {
	case <-finished:
	case werr = <-cl.Wait():
		// the client ended by itself before everything was delivered
		r.mu.Lock()
		if r.samplesEntered < want {
			if errors.Is(werr, gohlslib.ErrClientEOS) && r.lastServed {
				// pull hands the end-of-stream marker to the processor after the last segment: the
				// marker can only be handled once that segment has been processed completely
				res.earlyEOS = fmt.Sprintf("the client ended with 'end of stream' when only %d of the %d samples of the %d downloaded segments had gone through the data callback: "+
					"the end-of-stream marker was handled while the segment before it was still being processed (the rest of that segment is never delivered)",
					r.samplesEntered, want, r.segReqs)
			} else {
				res.hang = fmt.Sprintf("the client terminated after %d of %d samples: %v", r.samplesEntered, want, werr)
			}
		}
		r.mu.Unlock()
	case <-time.After(20 * time.Second):
		r.mu.Lock()
		res.hang = fmt.Sprintf("watchdog: %d of %d samples after 20s (segment requests %v, parked=%v, reloads=%d)",
			r.samplesEntered, want, r.reqLog, r.parked, r.reloads)
		r.mu.Unlock()
	}
	r.mu.Lock()
	r.stop = true
	r.cond.Broadcast()
	r.mu.Unlock()
	cl.Close()
	<-finished
	r.mu.Lock()
	res.violation, res.kind, res.maxAhead, res.parks = r.violation, r.violationKind, r.maxAhead, r.parks
	res.segReqs, res.delivered = r.segReqs, r.samplesEntered
	r.mu.Unlock()
	return res
}

// ---------- cancellation with a full sample queue ----------
//
// One VOD MPEG-TS segment with sc.N H264 access units 200 ms apart. The client plays in real time
// (clientTrack.handleData sleeps until each sample is due), the stream processor demultiplexes the whole
// segment at once and pushes every access unit into the track processor's queue, which holds
// clientMPEGTSSampleQueueSize (100) entries: after about a hundred pushes it blocks in the push. Close() is
// called 100 ms after the third sample reached the data callback, i.e. while the track processor sleeps
// between the third and the fourth sample and the stream processor is blocked in the push.
//
// Oracle (property text: "both return promptly on cancellation", the pipeline seen end to end): Wait()
// reports, and afterwards no goroutine of the client is left. No timeout is used for the verdict: Wait() is
// declared stuck when, after Close, three stop-the-world goroutine dumps 50 ms apart show every goroutine of
// the client blocked (channel operation, select on an already cancelled context, WaitGroup) with an
// unchanged set of goroutines and Wait() still silent - nothing can move by itself any more. A 10 s
// watchdog turns anything else into an infrastructure error (reported after three reproductions).

func e2eTSLongSegment(n int) []byte {
	var buf bytes.Buffer
	tr := &mpegts.Track{Codec: &mpegts.CodecH264{}}
	w := &mpegts.Writer{W: &buf, Tracks: []*mpegts.Track{tr}}
	if err := w.Initialize(); err != nil {
		panic(err)
	}
	for i := 0; i < n; i++ {
		au := [][]byte{{1, 4, 5, 6}}
		if i%25 == 0 {
			au = [][]byte{e2eSPS, e2ePPS, {5, 1}}
		}
		dts := int64(90000 + i*18000) // 200 ms
		if err := w.WriteH264(tr, dts, dts, au); err != nil {
			panic(err)
		}
	}
	return buf.Bytes()
}

type e2eCancelTransport struct{ seg []byte }

func (t *e2eCancelTransport) RoundTrip(req *http.Request) (*http.Response, error) {
	var body []byte
	status := 200
	switch req.URL.Path {
	case "/index.m3u8":
		body = []byte("#EXTM3U\n#EXT-X-VERSION:3\n#EXT-X-MEDIA-SEQUENCE:0\n#EXT-X-TARGETDURATION:30\n#EXT-X-PLAYLIST-TYPE:VOD\n#EXTINF:30,\nseg0.ts\n#EXT-X-ENDLIST\n")
	case "/seg0.ts":
		body = t.seg
	default:
		status = 404
	}
	return &http.Response{
		StatusCode: status, Status: fmt.Sprintf("%d", status), Proto: "HTTP/1.1", ProtoMajor: 1, ProtoMinor: 1,
		Header: http.Header{}, Body: io.NopCloser(bytes.NewReader(body)), ContentLength: int64(len(body)), Request: req,
	}, nil
}

// the goroutines that have a gohlslib frame: sorted "id state top-gohlslib-frame" lines, and whether all of
// them are blocked
func e2eClientGoroutines() (lines []string, atRest bool) {
	buf := make([]byte, 1<<20)
	n := runtime.Stack(buf, true)
	atRest = true
	for _, blk := range bytes.Split(buf[:n], []byte("\n\n")) {
		m := gidRe.FindSubmatch(blk)
		if m == nil || !bytes.Contains(blk, []byte("github.com/bluenviron/gohlslib/v2.")) {
			continue
		}
		h := string(blk[:bytes.IndexByte(blk, '\n')])
		st := h[strings.Index(h, "[")+1:]
		if i := strings.IndexAny(st, ",]"); i >= 0 {
			st = st[:i]
		}
		switch st {
		case "select", "chan receive", "chan send", "sync.Cond.Wait", "sync.WaitGroup.Wait", "semacquire",
			"select (no cases)", "chan receive (nil chan)":
		default:
			atRest = false
		}
		if bytes.Contains(blk, []byte("(*clientTrack).handleData")) {
			atRest = false // waits for the presentation time of a sample: a timer will wake it
		}
		frame := ""
		for _, l := range strings.Split(string(blk), "\n") {
			if strings.HasPrefix(l, "github.com/bluenviron/gohlslib/v2.") {
				frame = l[len("github.com/bluenviron/gohlslib/v2."):]
				if i := strings.LastIndex(frame, "("); i > 0 {
					frame = frame[:i]
				}
				break
			}
		}
		lines = append(lines, string(m[1])+" ["+st+"] "+frame)
	}
	sortStrings(lines)
	return lines, atRest
}

func sortStrings(l []string) {
	for i := 1; i < len(l); i++ {
		for j := i; j > 0 && l[j] < l[j-1]; j-- {
			l[j], l[j-1] = l[j-1], l[j]
		}
	}
}

type e2eCancelResult struct {
	stuck     string // Wait() never reports
	leftover  string // goroutines of the client left after Wait() reported
	infra     string
	delivered int
}

func e2eCancelExecute(sc e2eScenario) e2eCancelResult {
	var res e2eCancelResult
	tr := &e2eCancelTransport{seg: e2eTSLongSegment(sc.N)}
	var mu sync.Mutex
	delivered := 0
	third := make(chan struct{})
	cl := &gohlslib.Client{
		URI:                       "http://stub.invalid/index.m3u8",
		HTTPClient:                &http.Client{Transport: tr},
		OnDownloadPrimaryPlaylist: func(string) {},
		OnDownloadStreamPlaylist:  func(string) {},
		OnDownloadSegment:         func(string) {},
		OnDownloadPart:            func(string) {},
		OnDecodeError:             func(error) {},
	}
	cl.OnTracks = func(tracks []*gohlslib.Track) error {
		for _, t := range tracks {
			if _, ok := t.Codec.(*codecs.H264); ok {
				cl.OnDataH26x(t, func(int64, int64, [][]byte) {
					mu.Lock()
					delivered++
					if delivered == 3 {
						close(third)
					}
					mu.Unlock()
				})
			}
		}
		return nil
	}
	if err := cl.Start(); err != nil {
		res.infra = "Client.Start: " + err.Error()
		return res
	}
	select {
	case <-third:
	case err := <-cl.Wait():
		res.infra = fmt.Sprintf("the client ended before the third sample: %v", err)
		return res
	case <-time.After(10 * time.Second):
		res.infra = "watchdog: the third sample did not arrive within 10 s"
		cl.Close()
		return res
	}
	time.Sleep(100 * time.Millisecond) // the track processor now sleeps until the fourth sample is due (200 ms spacing)
	before, _ := e2eClientGoroutines()
	cl.Close()
	reported := false
	var last []string
	same := 0
	deadline := time.Now().Add(10 * time.Second)
	for !reported {
		select {
		case <-cl.Wait():
			reported = true
			continue
		case <-time.After(50 * time.Millisecond):
		}
		lines, atRest := e2eClientGoroutines()
		if atRest && len(lines) > 0 && strings.Join(lines, "|") == strings.Join(last, "|") {
			same++
		} else {
			same = 0
		}
		last = lines
		if same >= 3 {
			res.stuck = fmt.Sprintf("Close() was called 100 ms after the third of %d samples (200 ms apart) went through the data callback; Wait() does not report: "+
				"in four consecutive goroutine dumps 50 ms apart every goroutine of the client is blocked and nothing changes: %v (before Close: %v)", sc.N, lines, before)
			break
		}
		if time.Now().After(deadline) {
			res.infra = fmt.Sprintf("watchdog: 10 s after Close Wait() has not reported and the client is not at rest: %v", lines)
			break
		}
	}
	mu.Lock()
	res.delivered = delivered
	mu.Unlock()
	if reported {
		// every routine of the pool has been joined before Wait() can report; give the reporting goroutine
		// itself a moment to return
		var lines []string
		for i := 0; i < 40; i++ {
			lines, _ = e2eClientGoroutines()
			if len(lines) == 0 {
				break
			}
			time.Sleep(25 * time.Millisecond)
		}
		if len(lines) != 0 {
			res.leftover = fmt.Sprintf("Wait() reported after Close, but goroutines of the client are still there 1 s later: %v", lines)
		}
	}
	return res
}

// ---------- a track fragment without samples ----------
//
// VOD fMP4, video + audio in one playlist, sc.N segments of three video access units (10 ms apart) and two
// audio frames; in the SECOND segment the audio track fragment is present but holds no sample (trun with
// sample_count 0: legal ISO-BMFF, produced by packagers when no audio frame falls into a fragment).
//
// Oracle (property text: "segments pass from the client's downloader to its processor in download order, each
// exactly once ... a waiting processor proceeds as soon as a segment is queued, a throttled downloader
// proceeds as soon as the backlog drains"): every video access unit of every segment reaches the data
// callback, in order, once, and Wait() reports the end of the stream. A stalled pipeline is recognised by
// state, not by a timeout: four consecutive goroutine dumps 50 ms apart in which every goroutine of the
// client is blocked, none of them waits for a sample's presentation time, the set is unchanged, and Wait()
// is silent. A 10 s watchdog turns anything else into an infrastructure error (three reproductions).

type e2eEmptyTrafTransport struct {
	n    int
	mu   sync.Mutex
	reqs []string
}

func (t *e2eEmptyTrafTransport) RoundTrip(req *http.Request) (*http.Response, error) {
	var body []byte
	status := 200
	p := req.URL.Path
	var idx int
	switch {
	case p == "/index.m3u8":
		var sb strings.Builder
		sb.WriteString("#EXTM3U\n#EXT-X-VERSION:7\n#EXT-X-TARGETDURATION:1\n#EXT-X-MEDIA-SEQUENCE:0\n#EXT-X-PLAYLIST-TYPE:VOD\n#EXT-X-MAP:URI=\"init.mp4\"\n")
		for i := 0; i < t.n; i++ {
			fmt.Fprintf(&sb, "#EXTINF:0.03000,\nseg%d.mp4\n", i)
		}
		sb.WriteString("#EXT-X-ENDLIST\n")
		body = []byte(sb.String())
	case p == "/init.mp4":
		body = e2eMP4(&fmp4.Init{Tracks: []*fmp4.InitTrack{
			{ID: 1, TimeScale: 90000, Codec: &fmp4.CodecH264{SPS: e2eSPS, PPS: e2ePPS}},
			{ID: 2, TimeScale: 48000, Codec: &fmp4.CodecMPEG4Audio{Config: mpeg4audio.Config{Type: 2, SampleRate: 48000, ChannelCount: 2}}},
		}})
	default:
		if _, err := fmt.Sscanf(p, "/seg%d.mp4", &idx); err != nil || idx < 0 || idx >= t.n {
			status = 404
			break
		}
		t.mu.Lock()
		t.reqs = append(t.reqs, p[1:])
		t.mu.Unlock()
		var vs []*fmp4.PartSample
		for i := 0; i < e2eSamplesPerPart; i++ {
			au := [][]byte{{1, byte(idx), byte(i)}}
			if i == 0 {
				au = [][]byte{e2eSPS, e2ePPS, {5, byte(idx), 0}}
			}
			b, err := h264.AVCC(au).Marshal()
			if err != nil {
				panic(err)
			}
			vs = append(vs, &fmp4.PartSample{Duration: e2eTick, Payload: b, IsNonSyncSample: i != 0})
		}
		var as []*fmp4.PartSample
		if idx != 1 { // the second segment: an audio fragment without samples
			as = []*fmp4.PartSample{{Duration: 720, Payload: []byte{1, byte(idx)}}, {Duration: 720, Payload: []byte{2, byte(idx)}}}
		}
		body = e2eMP4(&fmp4.Part{SequenceNumber: uint32(idx), Tracks: []*fmp4.PartTrack{
			{ID: 1, BaseTime: uint64(idx * e2eSamplesPerPart * e2eTick), Samples: vs},
			{ID: 2, BaseTime: uint64(idx * 1440), Samples: as},
		}})
	}
	return &http.Response{
		StatusCode: status, Status: fmt.Sprintf("%d", status), Proto: "HTTP/1.1", ProtoMajor: 1, ProtoMinor: 1,
		Header: http.Header{}, Body: io.NopCloser(bytes.NewReader(body)), ContentLength: int64(len(body)), Request: req,
	}, nil
}

type e2eEmptyTrafResult struct {
	stalled string
	wrong   string
	infra   string
	video   int
}

func e2eEmptyTrafExecute(sc e2eScenario) e2eEmptyTrafResult {
	var res e2eEmptyTrafResult
	tr := &e2eEmptyTrafTransport{n: sc.N}
	var mu sync.Mutex
	var video []string
	audio := 0
	cl := &gohlslib.Client{
		URI:                       "http://stub.invalid/index.m3u8",
		HTTPClient:                &http.Client{Transport: tr},
		OnDownloadPrimaryPlaylist: func(string) {},
		OnDownloadStreamPlaylist:  func(string) {},
		OnDownloadSegment:         func(string) {},
		OnDownloadPart:            func(string) {},
		OnDecodeError:             func(error) {},
	}
	cl.OnTracks = func(tracks []*gohlslib.Track) error {
		for _, t := range tracks {
			switch t.Codec.(type) {
			case *codecs.H264:
				cl.OnDataH26x(t, func(_ int64, _ int64, au [][]byte) {
					last := au[len(au)-1]
					mu.Lock()
					if len(last) >= 3 {
						video = append(video, fmt.Sprintf("%d.%d", last[1], last[2]))
					} else {
						video = append(video, "?")
					}
					mu.Unlock()
				})
			case *codecs.MPEG4Audio:
				cl.OnDataMPEG4Audio(t, func(int64, [][]byte) {
					mu.Lock()
					audio++
					mu.Unlock()
				})
			}
		}
		return nil
	}
	if err := cl.Start(); err != nil {
		res.infra = "Client.Start: " + err.Error()
		return res
	}
	var werr error
	reported := false
	var last []string
	same := 0
	deadline := time.Now().Add(10 * time.Second)
	for !reported {
		select {
		case werr = <-cl.Wait():
			reported = true
			continue
		case <-time.After(50 * time.Millisecond):
		}
		lines, atRest := e2eClientGoroutines()
		if atRest && len(lines) > 0 && strings.Join(lines, "|") == strings.Join(last, "|") {
			same++
		} else {
			same = 0
		}
		last = lines
		if same >= 3 {
			mu.Lock()
			tr.mu.Lock()
			res.stalled = fmt.Sprintf("the pipeline is stalled: segments requested %v, video access units delivered (segment.index) %v, audio frames %d; Wait() is silent and in four consecutive "+
				"goroutine dumps 50 ms apart every goroutine of the client is blocked, none waits for a sample's time, nothing changes: %v", tr.reqs, video, audio, lines)
			tr.mu.Unlock()
			mu.Unlock()
			break
		}
		if time.Now().After(deadline) {
			res.infra = fmt.Sprintf("watchdog: no end of stream after 10 s and the client is not at rest: %v", lines)
			break
		}
	}
	cl.Close()
	mu.Lock()
	defer mu.Unlock()
	res.video = len(video)
	if reported {
		var want []string
		for sgi := 0; sgi < sc.N; sgi++ {
			for i := 0; i < e2eSamplesPerPart; i++ {
				want = append(want, fmt.Sprintf("%d.%d", sgi, i))
			}
		}
		switch {
		case !errors.Is(werr, gohlslib.ErrClientEOS):
			res.wrong = fmt.Sprintf("the client ended with %q instead of the end of the stream (video access units delivered: %v)", werr, video)
		case strings.Join(video, " ") != strings.Join(want, " "):
			res.wrong = fmt.Sprintf("end of stream reported, but the video access units delivered (segment.index) are %v, expected %v", video, want)
		case audio != 2*(sc.N-1):
			res.wrong = fmt.Sprintf("end of stream reported, but %d audio frames were delivered, expected %d", audio, 2*(sc.N-1))
		}
	}
	return res
}

// ---------- Low-Latency mode: queued parts keep their payload ----------
//
// A live fMP4 playlist with EXT-X-SERVER-CONTROL:CAN-BLOCK-RELOAD=YES, EXT-X-PART-INF, the EXT-X-PART entries of
// the parts published so far and an EXT-X-PRELOAD-HINT: the client takes runLowLatency (download the hinted
// part, push it, reload the playlist, ...), which - unlike runTraditional - never waits for the queue to drain.
// The q-th playlist request (q = 0, 1, ...) is answered at once with parts 0..q-1 listed and part q hinted; the
// request after the last part (q = sc.N) is the blocking reload that is never answered. Part k is one moof+mdat
// with e2eSamplesPerPart H264 access units whose NAL units are filled with k (all parts have the same size).
//
// The downloader runs its loop in one goroutine, so the (j+1)-th reload is issued after part j has been pushed:
// pushed = playlist requests - 1 is a lower bound of the parts queued so far that needs no look into the client.
// Slow consumer: the callback of the first access unit of part k does not return before
// pushed >= min(k+1+sc.Lag, sc.N), i.e. the downloader is sc.Lag parts ahead of the part being delivered (or has
// queued everything) - condition variable, no sleeps. With sc.Paced the server in turn answers the request for
// part j only once the consumer has entered part j-sc.Lag-1: the backlog then stays between sc.Lag and sc.Lag+2
// parts for the whole run instead of being built up once.
//
// Oracle (property text: "segments pass from the client's downloader to its processor in download order, each
// exactly once"; what is pushed is what is pulled): the access units that reach the data callback are exactly
// those of parts 0..N-1, once each, in order, with the NAL units and the DTS that were served for that part, and
// they do not change while the callback runs. The run is over when the blocking reload has been received (all
// parts pushed), the stream processor was last seen finding the queue empty (hook "queue:pull:unlocked", no
// sample since) and one stop-the-world goroutine dump shows every goroutine of the client blocked with no event
// in between: nothing more can be delivered. A 20 s watchdog turns anything else into an infrastructure error
// (three reproductions).

const e2eLLNALUSize = 48

// the access unit served as sample i of part k
func e2eLLAU(k, i int) [][]byte {
	nalu := bytes.Repeat([]byte{byte(k)}, e2eLLNALUSize)
	nalu[0], nalu[2] = 1, byte(i)
	if i == 0 {
		nalu[0] = 5
		return [][]byte{e2eSPS, e2ePPS, nalu}
	}
	return [][]byte{nalu}
}

func e2eLLPart(k int) []byte {
	var ss []*fmp4.PartSample
	for i := 0; i < e2eSamplesPerPart; i++ {
		b, err := h264.AVCC(e2eLLAU(k, i)).Marshal()
		if err != nil {
			panic(err)
		}
		ss = append(ss, &fmp4.PartSample{Duration: e2eTick, Payload: b, IsNonSyncSample: i != 0})
	}
	return e2eMP4(&fmp4.Part{SequenceNumber: uint32(k), Tracks: []*fmp4.PartTrack{{
		ID: 1, BaseTime: uint64(90000 + k*e2eSamplesPerPart*e2eTick), Samples: ss,
	}}})
}

// "part.index" when the access unit is, byte for byte, the one served as that sample; otherwise what is left of it
func e2eLLDescribe(au [][]byte) string {
	if len(au) == 0 || len(au[len(au)-1]) < 3 {
		return fmt.Sprintf("damaged(%d NAL units)", len(au))
	}
	last := au[len(au)-1]
	k, i := int(last[1]), int(last[2])
	want := e2eLLAU(k, i)
	same := len(want) == len(au)
	for j := 0; same && j < len(au); j++ {
		same = bytes.Equal(au[j], want[j])
	}
	if !same {
		return fmt.Sprintf("damaged(%d.%d)", k, i)
	}
	return fmt.Sprintf("%d.%d", k, i)
}

func e2eLLCopyAU(au [][]byte) [][]byte {
	out := make([][]byte, len(au))
	for i, n := range au {
		out[i] = append([]byte(nil), n...)
	}
	return out
}

type e2eLLRun struct {
	sc     e2eScenario
	mu     sync.Mutex
	cond   *sync.Cond
	stopCh chan struct{}

	plReqs    int   // playlist requests received
	partReqs  []int // parts requested, in request order
	otherReqs []string
	blocked   bool // the reload after the last part has been received: every part has been pushed
	procIdle  bool // the stream processor found the queue empty and no sample has been delivered since
	parked    bool // the downloader announced the traditional throttle and has made no request since
	throttles int
	events    int
	stop      bool
	got       []string // access units as they entered the callback
	gotDTS    []int64
	changed   []string // access units that were different when the callback returned
	maxAhead  int
}

func (r *e2eLLRun) pushed() int {
	if r.plReqs < 1 {
		return 0
	}
	return r.plReqs - 1
}

func (r *e2eLLRun) playlist(q int) []byte {
	var sb strings.Builder
	sb.WriteString("#EXTM3U\n#EXT-X-VERSION:9\n#EXT-X-TARGETDURATION:1\n" +
		"#EXT-X-SERVER-CONTROL:CAN-BLOCK-RELOAD=YES,PART-HOLD-BACK=0.09000\n#EXT-X-PART-INF:PART-TARGET=0.03000\n" +
		"#EXT-X-MEDIA-SEQUENCE:0\n#EXT-X-MAP:URI=\"init.mp4\"\n")
	// a complete segment published before the first part of this session
	sb.WriteString("#EXTINF:0.12000,\nbefore.mp4\n")
	pps := r.sc.Parts
	if pps < 1 {
		pps = 4
	}
	for k := 0; k < q; k++ {
		indep := ""
		if k%pps == 0 {
			indep = ",INDEPENDENT=YES"
		}
		fmt.Fprintf(&sb, "#EXT-X-PART:DURATION=0.03000,URI=\"part%d.mp4\"%s\n", k, indep)
		if k%pps == pps-1 {
			fmt.Fprintf(&sb, "#EXTINF:%.5f,\nllseg%d.mp4\n", 0.03*float64(pps), k/pps)
		}
	}
	fmt.Fprintf(&sb, "#EXT-X-PRELOAD-HINT:TYPE=PART,URI=\"part%d.mp4\"\n", q)
	return []byte(sb.String())
}

func (r *e2eLLRun) RoundTrip(req *http.Request) (*http.Response, error) {
	p := req.URL.Path
	var body []byte
	status := 200
	block := false
	r.mu.Lock()
	r.parked = false
	r.events++
	var k int
	switch {
	case p == "/index.m3u8":
		q := r.plReqs
		r.plReqs++
		if q >= r.sc.N {
			r.blocked = true
			block = true
		} else {
			body = r.playlist(q)
		}
	case p == "/init.mp4":
		body = e2eFMP4Init()
	default:
		if _, err := fmt.Sscanf(p, "/part%d.mp4", &k); err != nil || k < 0 || k >= r.sc.N {
			// (a client in Low-Latency mode fetches nothing but the hinted parts)
			r.otherReqs = append(r.otherReqs, p[1:])
			status = 404
			break
		}
		r.partReqs = append(r.partReqs, k)
		body = e2eLLPart(k)
		if r.sc.Paced && r.sc.Slow {
			for !(len(r.got) > (k-r.sc.Lag-1)*e2eSamplesPerPart || r.stop) {
				r.cond.Wait()
			}
			r.events++
		}
	}
	r.cond.Broadcast()
	r.mu.Unlock()
	if block {
		select {
		case <-req.Context().Done():
			return nil, req.Context().Err()
		case <-r.stopCh:
			return nil, errors.New("stub server closed")
		}
	}
	return &http.Response{
		StatusCode: status, Status: fmt.Sprintf("%d", status), Proto: "HTTP/1.1", ProtoMajor: 1, ProtoMinor: 1,
		Header: http.Header{}, Body: io.NopCloser(bytes.NewReader(body)), ContentLength: int64(len(body)), Request: req,
	}, nil
}

func (r *e2eLLRun) hook(point string) {
	r.mu.Lock()
	switch point {
	case "queue:pull:unlocked":
		r.procIdle = true
	case "queue:waitBelow:unlocked":
		r.parked = true
		r.throttles++
	}
	r.events++
	r.cond.Broadcast()
	r.mu.Unlock()
}

func (r *e2eLLRun) onSample(dts int64, au [][]byte) {
	entry := e2eLLCopyAU(au)
	r.mu.Lock()
	r.procIdle = false
	r.events++
	idx := len(r.got)
	r.got = append(r.got, e2eLLDescribe(entry))
	r.gotDTS = append(r.gotDTS, dts)
	k := idx / e2eSamplesPerPart
	if ahead := r.pushed() - k; ahead > r.maxAhead {
		r.maxAhead = ahead
	}
	if r.sc.Slow && idx%e2eSamplesPerPart == 0 {
		need := k + 1 + r.sc.Lag
		if need > r.sc.N {
			need = r.sc.N
		}
		// (released as well when the downloader sits in the traditional throttle: then it waits for this consumer)
		for !(r.pushed() >= need || r.parked || r.stop) {
			r.cond.Wait()
		}
		if ahead := r.pushed() - k; ahead > r.maxAhead {
			r.maxAhead = ahead
		}
	}
	// what the callback was given must still be there when it returns
	if now := e2eLLDescribe(au); now != r.got[idx] {
		r.changed = append(r.changed, fmt.Sprintf("#%d: %s became %s", idx, r.got[idx], now))
	}
	r.events++
	r.cond.Broadcast()
	r.mu.Unlock()
}

type e2eLLResult struct {
	violation string
	kind      string
	infra     string
	parts     int
	delivered int
	maxAhead  int
	throttles int
}

func e2eLLExecute(sc e2eScenario) e2eLLResult {
	r := &e2eLLRun{sc: sc, stopCh: make(chan struct{})}
	r.cond = sync.NewCond(&r.mu)
	gohlslib.VerifSetHook(r.hook)
	defer gohlslib.VerifSetHook(hookFn)

	cl := &gohlslib.Client{
		URI:                       "http://stub.invalid/index.m3u8",
		HTTPClient:                &http.Client{Transport: r},
		OnDownloadPrimaryPlaylist: func(string) {},
		OnDownloadStreamPlaylist:  func(string) {},
		OnDownloadSegment:         func(string) {},
		OnDownloadPart:            func(string) {},
		OnDecodeError:             func(error) {},
	}
	cl.OnTracks = func(tracks []*gohlslib.Track) error {
		for _, tr := range tracks {
			if _, ok := tr.Codec.(*codecs.H264); ok {
				cl.OnDataH26x(tr, func(_ int64, dts int64, au [][]byte) { r.onSample(dts, au) })
			}
		}
		return nil
	}
	var res e2eLLResult
	if err := cl.Start(); err != nil {
		res.infra = "Client.Start: " + err.Error()
		return res
	}
	// quiescence: everything pushed, the processor idle on an empty queue, every goroutine of the client blocked
	finished := make(chan struct{})
	go func() {
		defer close(finished)
		r.mu.Lock()
		defer r.mu.Unlock()
		for spins := 0; ; spins++ {
			for !((r.blocked && r.procIdle) || r.stop) {
				r.cond.Wait()
			}
			if r.stop {
				return
			}
			ev := r.events
			r.mu.Unlock()
			_, quiet := e2eClientGoroutines()
			r.mu.Lock()
			if quiet && r.events == ev && r.blocked && r.procIdle {
				return
			}
			r.mu.Unlock()
			if spins < 100 {
				runtime.Gosched()
			} else {
				time.Sleep(50 * time.Microsecond)
			}
			r.mu.Lock()
		}
	}()
	var werr error
	ended := false
	select {
	case <-finished:
	case werr = <-cl.Wait():
		ended = true
	case <-time.After(20 * time.Second):
		r.mu.Lock()
		lines, _ := e2eClientGoroutines()
		res.infra = fmt.Sprintf("watchdog: after 20 s the run is not over: %d playlist requests, parts requested %v, %d access units delivered, blocking reload received=%v, processor idle=%v; client goroutines: %v",
			r.plReqs, r.partReqs, len(r.got), r.blocked, r.procIdle, lines)
		r.mu.Unlock()
	}
	r.mu.Lock()
	r.stop = true
	r.cond.Broadcast()
	r.mu.Unlock()
	close(r.stopCh)
	cl.Close()
	<-finished

	r.mu.Lock()
	defer r.mu.Unlock()
	res.parts, res.delivered, res.maxAhead, res.throttles = len(r.partReqs), len(r.got), r.maxAhead, r.throttles
	if res.infra != "" {
		return res
	}
	var want []string
	var wantDTS []int64
	for k := 0; k < sc.N; k++ {
		for i := 0; i < e2eSamplesPerPart; i++ {
			want = append(want, fmt.Sprintf("%d.%d", k, i))
			wantDTS = append(wantDTS, int64((k*e2eSamplesPerPart+i)*e2eTick))
		}
	}
	ctxt := fmt.Sprintf("Low-Latency playlist (CAN-BLOCK-RELOAD=YES, preload hint), %d parts of %d access units served once each as the hinted part (requested: %v), "+
		"the consumer held in the callback of the first access unit of a part until the downloader is %d parts ahead (or all are queued); up to %d parts were queued and not yet fully delivered",
		sc.N, e2eSamplesPerPart, r.partReqs, sc.Lag, r.maxAhead)
	if len(r.otherReqs) != 0 {
		ctxt += fmt.Sprintf("; other media requests (answered 404): %v", r.otherReqs)
	}
	if ended {
		res.kind = "ll-parts-not-delivered:client-terminated"
		res.violation = fmt.Sprintf("%s. The client terminated by itself with %q after %d of %d access units (delivered, as part.index: %v) although every body served was well formed",
			ctxt, werr, len(r.got), len(want), r.got)
		return res
	}
	// which sample of which part each delivered access unit is, judged by its own bytes
	count := map[string]int{}
	for _, g := range r.got {
		count[g]++
	}
	isWant := map[string]bool{}
	var missing, dup, alien, badDTS []string
	for _, w := range want {
		isWant[w] = true
		switch c := count[w]; {
		case c == 0:
			missing = append(missing, w)
		case c > 1:
			dup = append(dup, fmt.Sprintf("%s x%d", w, c))
		}
	}
	for _, g := range r.got {
		if !isWant[g] {
			alien = append(alien, g)
		}
	}
	inOrder := strings.Join(r.got, " ") == strings.Join(want, " ")
	if inOrder {
		for i := range want {
			if r.gotDTS[i] != wantDTS[i] {
				badDTS = append(badDTS, fmt.Sprintf("%s: dts %d, served with %d", want[i], r.gotDTS[i], wantDTS[i]))
			}
		}
	}
	switch {
	case inOrder && len(badDTS) == 0 && len(r.changed) == 0:
		return res
	case len(alien) != 0 || len(r.changed) != 0 || (len(missing) != 0 && len(dup) != 0):
		// something else was delivered in place of what was served: a part never arrives and another one
		// arrives twice, or the bytes are those of no served sample, or they change under the callback's eyes -
		// what waited in the queue (or what the callback was looking at) was replaced
		res.kind = "ll-part-payload-overwritten"
	case len(missing) != 0 || len(dup) != 0:
		res.kind = "ll-parts-not-exactly-once"
	case !inOrder:
		res.kind = "ll-parts-out-of-order"
	default:
		res.kind = "ll-part-dts-not-as-served"
	}
	res.violation = fmt.Sprintf("%s. Every part must reach the data callback exactly once, in download order, with the access units and the DTS that were served for it. "+
		"Delivered (part.index, judged by the bytes of the access unit itself): %v with DTS %v; expected: %v with DTS %v; never delivered: %v; delivered more than once: %v; "+
		"delivered but served in this form by nobody: %v; right access units in the right order with another DTS: %v; changed between entry to and return from the callback: %v",
		ctxt, r.got, r.gotDTS, want, wantDTS, missing, dup, alien, badDTS, r.changed)
	return res
}

// run every scenario; a hang counts only if it reproduces three times
func e2eLeg(scs []e2eScenario, dist map[string]int) (fails []failure, errs []string, n int) {
	for _, sc := range scs {
		if sc.Kind == "empty-traf" {
			var er e2eEmptyTrafResult
			for try := 0; try < 3; try++ {
				er = e2eEmptyTrafExecute(sc)
				if er.infra == "" {
					break
				}
				dist["e2e:watchdog-retry"]++
			}
			n++
			if er.infra != "" {
				errs = append(errs, "e2e scenario "+sc.Name+": "+er.infra)
				continue
			}
			dist["e2e:scenario:"+sc.Name]++
			dist["e2e:empty-traf:video-access-units-delivered"] += er.video
			in, _ := json.Marshal(sc)
			if er.stalled != "" {
				fails = append(fails, failure{Signature: "C20:pipeline-stalls:fmp4-track-fragment-without-samples",
					What: "real Client, scenario " + sc.Name + ": " + er.stalled, Input: in, trad: true})
			}
			if er.wrong != "" {
				fails = append(fails, failure{Signature: "C20:order-or-eos:fmp4-track-fragment-without-samples",
					What: "real Client, scenario " + sc.Name + ": " + er.wrong, Input: in, trad: true})
			}
			continue
		}
		if sc.Kind == "ll" {
			var lr e2eLLResult
			for try := 0; try < 3; try++ {
				lr = e2eLLExecute(sc)
				if lr.infra == "" {
					break
				}
				dist["e2e:watchdog-retry"]++
			}
			n++
			if lr.infra != "" {
				errs = append(errs, "e2e scenario "+sc.Name+": "+lr.infra)
				continue
			}
			dist["e2e:scenario:"+sc.Name]++
			dist["e2e:ll:parts-requested"] += lr.parts
			dist["e2e:ll:samples-delivered"] += lr.delivered
			dist[fmt.Sprintf("e2e:ll:max(parts queued by the downloader - parts fully delivered) at a sample:%d", lr.maxAhead)]++
			in, _ := json.Marshal(sc)
			if lr.violation != "" {
				fails = append(fails, failure{Signature: "C20:e2e:" + lr.kind,
					What: "real Client, scenario " + sc.Name + ": " + lr.violation, Input: in, trad: true})
			} else if sc.Slow && lr.maxAhead < 4 {
				// the held consumer is supposed to let the unthrottled downloader run ahead
				errs = append(errs, fmt.Sprintf("e2e scenario %s: the Low-Latency downloader never got 4 parts ahead of the held consumer (at most %d; seen in the traditional throttle %d times): "+
					"the scenario does not exercise what it is meant to", sc.Name, lr.maxAhead, lr.throttles))
			}
			continue
		}
		if sc.Kind == "cancel" {
			var cr e2eCancelResult
			for try := 0; try < 3; try++ {
				cr = e2eCancelExecute(sc)
				if cr.infra == "" {
					break
				}
				dist["e2e:watchdog-retry"]++
			}
			n++
			if cr.infra != "" {
				errs = append(errs, "e2e scenario "+sc.Name+": "+cr.infra)
				continue
			}
			dist["e2e:scenario:"+sc.Name]++
			dist["e2e:cancel:samples-delivered-before-close"] += cr.delivered
			in, _ := json.Marshal(sc)
			if cr.stuck != "" {
				fails = append(fails, failure{Signature: "C20:cancel:mpegts-sample-queue-full:wait-never-reports",
					What: "real Client, scenario " + sc.Name + ": " + cr.stuck, Input: in, trad: true})
			}
			if cr.leftover != "" {
				fails = append(fails, failure{Signature: "C20:cancel:mpegts-sample-queue-full:goroutines-left",
					What: "real Client, scenario " + sc.Name + ": " + cr.leftover, Input: in, trad: true})
			}
			continue
		}
		var res e2eResult
		for try := 0; try < 3; try++ {
			res = e2eExecute(sc)
			if res.hang == "" || res.violation != "" {
				break
			}
			dist["e2e:watchdog-retry"]++
		}
		n++
		if res.hang != "" && res.violation == "" {
			errs = append(errs, "e2e scenario "+sc.Name+": "+res.hang)
			continue
		}
		dist["e2e:scenario:"+sc.Name]++
		dist[fmt.Sprintf("e2e:max(downloaded - fully processed) at a segment request:%d", res.maxAhead)]++
		dist["e2e:segment-requests"] += res.segReqs
		dist["e2e:throttle-parks-observed"] += res.parks
		if sc.Slow && res.parks == 0 && res.violation == "" {
			// the slow consumer is supposed to drive the downloader into its throttle
			errs = append(errs, "e2e scenario "+sc.Name+": the downloader was never seen in its throttle although the consumer was slow")
		}
		if res.earlyEOS != "" {
			in, _ := json.Marshal(sc)
			fails = append(fails, failure{Signature: "C20:eos-overtakes-segment",
				What: "real Client, scenario " + sc.Name + ": " + res.earlyEOS, Input: in, trad: true})
		}
		if res.violation != "" {
			in, _ := json.Marshal(sc)
			fails = append(fails, failure{Signature: "C20:lookahead:traditional:" + res.kind,
				What: "real Client, scenario " + sc.Name + ": " + res.violation, Input: in, trad: true})
		}
	}
	return fails, errs, n
}
