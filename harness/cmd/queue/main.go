// Command queue drives the REAL clientSegmentQueue (through gohlslib.VerifQueue, build tag
// verif) under a controller that owns the schedule: the downloader and the processor run in
// their own goroutines, park at the hook points "queue:waitBelow:unlocked" /
// "queue:pull:unlocked" (between mutex release and the select), and the controller decides who
// proceeds next.  All interleavings of a configuration are enumerated depth-first.  After every
// decision the controller waits until every goroutine is parked (reported at a hook / returned,
// or seen by a stop-the-world goroutine dump inside the queue's select) - "blocked" is observed,
// never inferred from a timeout - and records what it sees.
//
// S leg: the property oracle below is written from the property text (FIFO, exactly once, at
// most two waiting segments in the traditional mode, a parked side proceeds as soon as its
// condition holds, both return on cancel) and shares nothing with the Coq model.
// T leg: each execution becomes a Coq case (decisions + observations) for Tie/QueueTie.v.
// -stress (meant for a -race build): free-running producer/consumer; -racebin runs such a
// binary and turns data-race reports into oracle failures.
package main

import (
	"bytes"
	"context"
	"crypto/sha256"
	"encoding/hex"
	"encoding/json"
	"flag"
	"fmt"
	"os"
	osexec "os/exec"
	"path/filepath"
	"regexp"
	"runtime"
	"sort"
	"strings"
	"sync"
	"sync/atomic"
	"time"

	"github.com/bluenviron/gohlslib/v2"

	"verifharness/internal/coqfmt"
	"verifharness/internal/rng"
)

// ---- abstract inputs (mirror of Model/Queue.v) ----

type pop struct {
	K  string `json:"k"`            // push | wait
	ID int    `json:"id,omitempty"` // push: payload id, -1 = the nil end-of-stream sentinel
	N  int    `json:"n"`            // wait: waitUntilSizeIsBelow(ctx, n)
}

type config struct {
	Name   string `json:"name"`
	Prog   []pop  `json:"prog"`
	Pulls  int    `json:"pulls"`
	Cancel bool   `json:"cancel"` // cancellation is one of the controller's choices at every point
	Trad   bool   `json:"trad"`   // the program is runTraditional's: the look-ahead bound applies
}

type decision struct {
	K string `json:"k"`           // startP startC relP relC cancel
	B string `json:"b,omitempty"` // observed select case of a released goroutine: chan | ctx
}

type runInput struct {
	Config    config   `json:"config"`
	Decisions []string `json:"decisions"`
}

func (o pop) coq(fixed bool) string {
	if o.K == "push" {
		return "Push " + coqfmt.Z(int64(o.ID))
	}
	return "WaitBelow " + coqfmt.Bool(fixed) + " " + coqfmt.Z(int64(o.N))
}

func (d decision) code() int {
	b := 0
	if d.B == "ctx" {
		b = 1
	}
	switch d.K {
	case "startP":
		return 0
	case "startC":
		return 1
	case "relP":
		return 2 + b
	case "relC":
		return 4 + b
	case "cancel":
		return 6
	}
	panic("bad decision " + d.K)
}

func (d decision) coq() string {
	b := "BChan"
	if d.B == "ctx" {
		b = "BCtx"
	}
	switch d.K {
	case "startP":
		return "DStart TP"
	case "startC":
		return "DStart TC"
	case "relP":
		return "DRelease TP " + b
	case "relC":
		return "DRelease TC " + b
	case "cancel":
		return "DCancel"
	}
	panic("bad decision " + d.K)
}

// ---- workers ----

const (
	stIdle    = 0 // between operations
	stHook    = 1 // parked at its hook point (controller holds it)
	stBlocked = 2 // seen parked inside the queue's select
	stDone    = 3 // an operation returned false (cancelled): the loop of the real caller ends
	stRunning = 9
)

type event struct {
	hook     bool
	ok       bool
	val      int // pull: payload id, -1 sentinel
	isPull   bool
	panicked string
}

type worker struct {
	name   string
	gid    string
	cmd    chan func() event
	ev     chan event
	rel    chan struct{}
	status int
}

type runCtl struct {
	p, c     *worker
	draining atomic.Bool
}

var curRun atomic.Pointer[runCtl]

func hookFn(point string) {
	r := curRun.Load()
	if r == nil || r.draining.Load() {
		return
	}
	var w *worker
	switch point {
	case "queue:waitBelow:unlocked":
		w = r.p
	case "queue:pull:unlocked":
		w = r.c
	default:
		return
	}
	w.ev <- event{hook: true}
	<-w.rel
}

var gidRe = regexp.MustCompile(`^goroutine (\d+) \[`)

func curGID() string {
	buf := make([]byte, 64)
	n := runtime.Stack(buf, false)
	m := gidRe.FindSubmatch(buf[:n])
	if m == nil {
		panic("cannot parse goroutine id")
	}
	return string(m[1])
}

func (w *worker) loop(ready chan struct{}, wg *sync.WaitGroup) {
	defer wg.Done()
	w.gid = curGID()
	ready <- struct{}{}
	for f := range w.cmd {
		var e event
		func() {
			defer func() {
				if r := recover(); r != nil {
					e = event{panicked: fmt.Sprint(r)}
				}
			}()
			e = f()
		}()
		w.ev <- e
	}
}

var stackBuf = make([]byte, 1<<18)

// goroutine id -> (wait state, top function) from one stop-the-world dump
func goroutineStates() map[string][2]string {
	n := runtime.Stack(stackBuf, true)
	res := map[string][2]string{}
	for _, blk := range bytes.Split(stackBuf[:n], []byte("\n\n")) {
		lines := bytes.SplitN(blk, []byte("\n"), 3)
		if len(lines) < 2 {
			continue
		}
		m := gidRe.FindSubmatch(lines[0])
		if m == nil {
			continue
		}
		h := string(lines[0])
		st := h[strings.Index(h, "[")+1:]
		if i := strings.IndexAny(st, ",]"); i >= 0 {
			st = st[:i]
		}
		res[string(m[1])] = [2]string{st, string(lines[1])}
	}
	return res
}

func inQueueSelect(s [2]string) bool {
	return s[0] == "select" &&
		(strings.Contains(s[1], "(*clientSegmentQueue).pull") ||
			strings.Contains(s[1], "(*clientSegmentQueue).waitUntilSizeIsBelow"))
}

// ---- one controlled execution ----

type failure struct {
	Signature string          `json:"signature"`
	What      string          `json:"what"`
	Input     json.RawMessage `json:"input"`
	steps     int
	trad      bool
}

type execResult struct {
	decisions []decision
	choiceIdx []int
	nchoices  []int
	obs       [][]int
	returned  []int
	pushedIDs []int
	fails     []failure
	hang      string
	interest  bool // some decision was taken while the other side was at a hook / blocked
	maxLen    int
	sawBlockP bool
	sawBlockC bool
}

type exec struct {
	cfg       config
	q         *gohlslib.VerifQueue
	ctx       context.Context
	cancel    context.CancelFunc
	rc        *runCtl
	cancelled bool
	pStarted  int // producer operations started
	pCur      pop // producer operation in flight
	pullsOK   int
	pushes    int
	sentinelQ bool // the sentinel is in the queue
	res       *execResult
	last      map[*worker]event
}

func (e *exec) apply(w *worker, ev event) {
	if ev.hook {
		w.status = stHook
		return
	}
	e.last[w] = ev
	if ev.panicked != "" {
		e.fail("C20:panic:"+w.name, "goroutine "+w.name+" panicked: "+ev.panicked)
		w.status = stDone
		return
	}
	if !ev.ok {
		w.status = stDone
		return
	}
	w.status = stIdle
	if ev.isPull {
		e.pullsOK++
		e.res.returned = append(e.res.returned, ev.val)
		if ev.val == -1 {
			e.sentinelQ = false
		}
	}
}

func (e *exec) drain() bool {
	got := false
	for _, w := range []*worker{e.rc.p, e.rc.c} {
		for {
			select {
			case ev := <-w.ev:
				e.apply(w, ev)
				got = true
				continue
			default:
			}
			break
		}
	}
	return got
}

// wait until every goroutine is parked; returns "" or a description of a hang
func (e *exec) settle() string {
	deadline := time.Now().Add(10 * time.Second)
	spins := 0
	for {
		e.drain()
		ws := []*worker{e.rc.p, e.rc.c}
		need := false
		for _, w := range ws {
			if w.status == stRunning || w.status == stBlocked {
				need = true
			}
		}
		if !need {
			return ""
		}
		states := goroutineStates()
		if e.drain() {
			continue
		}
		all := true
		for _, w := range ws {
			if w.status == stRunning || w.status == stBlocked {
				if inQueueSelect(states[w.gid]) {
					w.status = stBlocked
				} else {
					w.status = stRunning
					all = false
				}
			}
		}
		if all {
			return ""
		}
		spins++
		if spins < 200 {
			runtime.Gosched()
		} else {
			time.Sleep(20 * time.Microsecond)
		}
		if spins%1000 == 0 && time.Now().After(deadline) {
			var d []string
			for _, w := range ws {
				d = append(d, fmt.Sprintf("%s:%d:%v", w.name, w.status, states[w.gid]))
			}
			return strings.Join(d, " ")
		}
	}
}

func (e *exec) input() json.RawMessage {
	var ds []string
	for _, d := range e.res.decisions {
		ds = append(ds, d.K)
	}
	j, _ := json.Marshal(runInput{Config: e.cfg, Decisions: ds})
	return j
}

func (e *exec) fail(sig, what string) {
	for _, f := range e.res.fails {
		if f.Signature == sig {
			return
		}
	}
	e.res.fails = append(e.res.fails, failure{Signature: sig, What: what, Input: e.input(), steps: len(e.res.decisions)})
}

func prefixOf(a, b []int) bool {
	if len(a) > len(b) {
		return false
	}
	for i := range a {
		if a[i] != b[i] {
			return false
		}
	}
	return true
}

// the property oracle, evaluated at every settled point.  Written from the property text.
// qlen is q.Len() guarded against a queue operation that returned with the mutex still locked
func (e *exec) qlen() int {
	ch := make(chan int, 1)
	go func() { ch <- e.q.Len() }()
	select {
	case v := <-ch:
		return v
	case <-time.After(3 * time.Second):
		if e.res.hang == "" {
			e.res.hang = "queue mutex held: Len() did not return within 3 s although every worker is parked (a queue operation returned with the mutex locked)"
		}
		return -1
	}
}

func (e *exec) oracle() {
	L := e.qlen()
	if L < 0 {
		return
	}
	if L > e.res.maxLen {
		e.res.maxLen = L
	}
	p, c := e.rc.p, e.rc.c
	// exactly once / nothing lost or invented: what is queued is what was pushed minus what was pulled
	if L != e.pushes-e.pullsOK {
		e.fail("C20:count", fmt.Sprintf("len(queue)=%d but %d segments were pushed and %d pulled", L, e.pushes, e.pullsOK))
	}
	// download order
	if !prefixOf(e.res.returned, e.res.pushedIDs) {
		e.fail("C20:fifo", fmt.Sprintf("pulled %v, pushed %v: not the same order / not each once", e.res.returned, e.res.pushedIDs))
	}
	// non-Low-Latency mode: never more than two downloaded segments waiting
	if e.cfg.Trad {
		waiting := L
		if e.sentinelQ {
			waiting--
		}
		if waiting > 2 {
			e.fail("C20:bound:traditional", fmt.Sprintf("%d downloaded segments are waiting in the queue (at most 2 allowed)", waiting))
		}
	}
	// a waiting processor proceeds as soon as a segment is queued
	if c.status == stBlocked && L > 0 && !e.cancelled {
		e.fail("C20:lost-wakeup:pull", fmt.Sprintf("the processor is parked in pull's select although %d segment(s) are queued", L))
	}
	// a throttled downloader proceeds as soon as the backlog drains
	if p.status == stBlocked && e.pCur.K == "wait" && L <= e.pCur.N && !e.cancelled {
		if c.status == stBlocked && L == 0 && e.cfg.Pulls > e.pullsOK {
			e.fail("C20:deadlock:waitUntilSizeIsBelow", fmt.Sprintf(
				"the downloader is parked in waitUntilSizeIsBelow(%d) with len(queue)=0 and the processor is parked in pull: each waits for the other, only Close ends it", e.pCur.N))
		} else {
			e.fail("C20:lost-wakeup:waitUntilSizeIsBelow", fmt.Sprintf(
				"the downloader is parked in waitUntilSizeIsBelow(%d)'s select although len(queue)=%d <= %d; it needs a FURTHER pull to proceed", e.pCur.N, L, e.pCur.N))
		}
	}
	// both return promptly on cancellation
	if e.cancelled {
		if p.status == stBlocked {
			e.fail("C20:cancel:downloader-still-blocked", "after cancellation the downloader is still parked in waitUntilSizeIsBelow's select")
		}
		if c.status == stBlocked {
			e.fail("C20:cancel:processor-still-blocked", "after cancellation the processor is still parked in pull's select")
		}
	}
	if p.status == stBlocked {
		e.res.sawBlockP = true
	}
	if c.status == stBlocked {
		e.res.sawBlockC = true
	}
}

func (e *exec) choices() []string {
	var ch []string
	p, c := e.rc.p, e.rc.c
	if p.status == stIdle && e.pStarted < len(e.cfg.Prog) {
		ch = append(ch, "startP")
	}
	if c.status == stIdle && e.pullsOK < e.cfg.Pulls {
		ch = append(ch, "startC")
	}
	if p.status == stHook {
		ch = append(ch, "relP")
	}
	if c.status == stHook {
		ch = append(ch, "relC")
	}
	if e.cfg.Cancel && !e.cancelled {
		ch = append(ch, "cancel")
	}
	return ch
}

func (e *exec) observe() []int {
	return []int{e.rc.p.status, len(e.cfg.Prog) - e.pStarted, e.rc.c.status, e.cfg.Pulls - e.pullsOK,
		e.qlen(), e.pullsOK, 0}
}

func (e *exec) do(k string) {
	p, c := e.rc.p, e.rc.c
	other := func(w *worker) bool { return w.status == stHook || w.status == stBlocked }
	var rel *worker
	switch k {
	case "startP":
		op := e.cfg.Prog[e.pStarted]
		e.pStarted++
		e.pCur = op
		p.status = stRunning
		if other(c) {
			e.res.interest = true
		}
		if op.K == "push" {
			// push cannot block: account for it when it is started (it completes within this decision)
			e.pushes++
			e.res.pushedIDs = append(e.res.pushedIDs, op.ID)
			if op.ID == -1 {
				e.sentinelQ = true
			}
			p.cmd <- func() event {
				if op.ID == -1 {
					e.q.Push(nil)
				} else {
					e.q.Push([]byte{byte(op.ID)})
				}
				return event{ok: true}
			}
		} else {
			p.cmd <- func() event { return event{ok: e.q.WaitUntilSizeIsBelow(e.ctx, op.N)} }
		}
	case "startC":
		c.status = stRunning
		if other(p) {
			e.res.interest = true
		}
		c.cmd <- func() event {
			payload, sentinel, ok := e.q.Pull(e.ctx)
			v := -1
			if ok && !sentinel {
				v = int(payload[0])
			}
			return event{ok: ok, val: v, isPull: true}
		}
	case "relP":
		rel = p
		if other(c) {
			e.res.interest = true
		}
	case "relC":
		rel = c
		if other(p) {
			e.res.interest = true
		}
	case "cancel":
		e.cancelled = true
		e.cancel()
	}
	if rel != nil {
		delete(e.last, rel)
		rel.status = stRunning
		rel.rel <- struct{}{}
	}
	d := decision{K: k}
	e.res.hang = e.settle()
	if rel != nil {
		d.B = "chan"
		if ev, ok := e.last[rel]; ok && !ev.ok && ev.panicked == "" {
			d.B = "ctx"
		}
	}
	e.res.decisions = append(e.res.decisions, d)
}

// execute one run: follow prefix (choice indices) or forced (decision names), then always choice 0
func execute(cfg config, prefix []int, forced []string, mod bool) *execResult {
	res := &execResult{}
	ctx, cancel := context.WithCancel(context.Background())
	e := &exec{cfg: cfg, q: gohlslib.NewVerifQueue(), ctx: ctx, cancel: cancel, res: res, last: map[*worker]event{}}
	mk := func(name string) *worker {
		return &worker{name: name, cmd: make(chan func() event), ev: make(chan event, 8), rel: make(chan struct{})}
	}
	e.rc = &runCtl{p: mk("downloader"), c: mk("processor")}
	var wg sync.WaitGroup
	ready := make(chan struct{})
	wg.Add(2)
	go e.rc.p.loop(ready, &wg)
	go e.rc.c.loop(ready, &wg)
	<-ready
	<-ready
	curRun.Store(e.rc)

	for step := 0; ; step++ {
		ch := e.choices()
		if forced != nil {
			if step >= len(forced) {
				break
			}
			ok := false
			for _, c := range ch {
				if c == forced[step] {
					ok = true
				}
			}
			if !ok {
				res.hang = fmt.Sprintf("replay: decision %d (%s) is not available (available: %v)", step, forced[step], ch)
				break
			}
			e.do(forced[step])
		} else {
			if len(ch) == 0 {
				break
			}
			idx := 0
			if step < len(prefix) {
				idx = prefix[step]
				if mod {
					idx %= len(ch)
				}
				if idx >= len(ch) {
					idx = len(ch) - 1 // a select with two ready cases went the other way this time
				}
			}
			res.choiceIdx = append(res.choiceIdx, idx)
			res.nchoices = append(res.nchoices, len(ch))
			e.do(ch[idx])
		}
		if res.hang != "" {
			break
		}
		e.oracle()
		if res.hang != "" {
			break
		}
		res.obs = append(res.obs, e.observe())
	}

	// clean up: cancel, let everything run out
	e.rc.draining.Store(true)
	cancel()
	for _, w := range []*worker{e.rc.p, e.rc.c} {
		if w.status == stHook {
			w.rel <- struct{}{}
		}
		close(w.cmd)
	}
	done := make(chan struct{})
	go func() { wg.Wait(); close(done) }()
	select {
	case <-done:
	case <-time.After(10 * time.Second):
		if res.hang == "" {
			res.hang = "cleanup: a goroutine did not return after cancellation"
		}
	}
	curRun.Store(nil)
	return res
}

// ---- configurations ----

func tradProg(ids ...int) []pop {
	var p []pop
	for _, id := range ids {
		p = append(p, pop{K: "push", ID: id}, pop{K: "wait", N: 1})
	}
	return p
}

func pushes(ids ...int) []pop {
	var p []pop
	for _, id := range ids {
		p = append(p, pop{K: "push", ID: id})
	}
	return p
}

type plan struct {
	cfg    config
	sample int // 0 = exhaustive DFS; otherwise this many random maximal runs
}

func plans(tier string) []plan {
	endlist := append(tradProg(10), pop{K: "push", ID: 11}, pop{K: "push", ID: -1})
	ps := []plan{
		{cfg: config{Name: "trad2", Prog: tradProg(10, 11), Pulls: 2, Trad: true}},
		{cfg: config{Name: "trad2+cancel", Prog: tradProg(10, 11), Pulls: 2, Cancel: true, Trad: true}},
		{cfg: config{Name: "trad3", Prog: tradProg(10, 11, 12), Pulls: 3, Trad: true}},
		{cfg: config{Name: "endlist+cancel", Prog: endlist, Pulls: 3, Cancel: true, Trad: true}},
		{cfg: config{Name: "lowlatency3+cancel", Prog: pushes(10, 11, 12), Pulls: 3, Cancel: true}},
		{cfg: config{Name: "wait0+cancel", Prog: []pop{{K: "push", ID: 10}, {K: "wait", N: 0}, {K: "push", ID: 11}, {K: "wait", N: 0}}, Pulls: 2, Cancel: true}},
		{cfg: config{Name: "burst3-wait2", Prog: append(pushes(10, 11, 12), pop{K: "wait", N: 2}, pop{K: "push", ID: 13}, pop{K: "wait", N: 0}), Pulls: 4}},
	}
	if tier == "quick" {
		ps = append(ps, plan{cfg: config{Name: "trad3+cancel", Prog: tradProg(10, 11, 12), Pulls: 3, Cancel: true, Trad: true}})
	} else {
		ps = append(ps,
			plan{cfg: config{Name: "trad3+cancel", Prog: tradProg(10, 11, 12), Pulls: 3, Cancel: true, Trad: true}},
			plan{cfg: config{Name: "trad4", Prog: tradProg(10, 11, 12, 13), Pulls: 4, Trad: true}},
			plan{cfg: config{Name: "trad4+cancel", Prog: tradProg(10, 11, 12, 13), Pulls: 4, Cancel: true, Trad: true}},
			plan{cfg: config{Name: "trad5", Prog: tradProg(10, 11, 12, 13, 14), Pulls: 5, Trad: true}},
			plan{cfg: config{Name: "trad5+cancel", Prog: tradProg(10, 11, 12, 13, 14), Pulls: 5, Cancel: true, Trad: true}, sample: 20000},
			plan{cfg: config{Name: "lowlatency5+cancel", Prog: pushes(10, 11, 12, 13, 14), Pulls: 5, Cancel: true}, sample: 10000},
		)
	}
	return ps
}

// ---- stress (for the -race build) ----

func stress(n int) {
	q := gohlslib.NewVerifQueue()
	ctx, cancel := context.WithCancel(context.Background())
	var prog atomic.Int64
	var wg sync.WaitGroup
	wg.Add(2)
	go func() { // runTraditional
		defer wg.Done()
		for i := 0; i < n; i++ {
			q.Push([]byte{byte(i)})
			if !q.WaitUntilSizeIsBelow(ctx, 1) {
				return
			}
			prog.Add(1)
		}
	}()
	go func() { // the processor
		defer wg.Done()
		for i := 0; i < n; i++ {
			if _, _, ok := q.Pull(ctx); !ok {
				return
			}
			prog.Add(1)
			if i%3 == 0 {
				runtime.Gosched()
			}
		}
	}()
	done := make(chan struct{})
	go func() { wg.Wait(); close(done) }()
	last := int64(-1)
	for {
		select {
		case <-done:
			cancel()
			fmt.Println("stress: completed")
			return
		case <-time.After(3 * time.Second):
			if v := prog.Load(); v == last {
				cancel()
				<-done
				fmt.Println("stress: no progress for 3s, cancelled")
				return
			} else {
				last = v
			}
		}
	}
}

var raceFuncRe = regexp.MustCompile(`(?m)^  (\S+)\(\)\n\s+(\S+):(\d+)`)

// run the -race build of this binary in stress mode, convert its reports
func raceLeg(bin string, n int) (fails []failure, info map[string]interface{}, err error) {
	cmd := osexec.Command(bin, "-stress", fmt.Sprint(n))
	cmd.Env = append(os.Environ(), "GORACE=halt_on_error=0 exitcode=0 history_size=2")
	var out bytes.Buffer
	cmd.Stdout = &out
	cmd.Stderr = &out
	done := make(chan error, 1)
	if err := cmd.Start(); err != nil {
		return nil, nil, err
	}
	go func() { done <- cmd.Wait() }()
	select {
	case werr := <-done:
		if werr != nil {
			return nil, nil, fmt.Errorf("race stress binary failed: %v\n%s", werr, out.String())
		}
	case <-time.After(120 * time.Second):
		cmd.Process.Kill()
		return nil, nil, fmt.Errorf("race stress binary did not finish in 120s\n%s", out.String())
	}
	txt := out.String()
	reports := strings.Split(txt, "WARNING: DATA RACE")
	info = map[string]interface{}{"race_reports": len(reports) - 1, "stress_iterations": n,
		"stress_outcome": strings.TrimSpace(reports[0])}
	seen := map[string]bool{}
	for _, rep := range reports[1:] {
		if i := strings.Index(rep, "=================="); i >= 0 {
			rep = rep[:i]
		}
		// the two accesses: first frames of the first two stacks
		secs := regexp.MustCompile(`(?m)^(Read|Write|Previous read|Previous write) at`).FindAllStringIndex(rep, -1)
		var tops []string
		for i, s := range secs {
			end := len(rep)
			if i+1 < len(secs) {
				end = secs[i+1][0]
			}
			m := raceFuncRe.FindStringSubmatch(rep[s[0]:end])
			if m != nil {
				fn := m[1]
				if j := strings.LastIndex(fn, "/"); j >= 0 {
					fn = fn[j+1:]
				}
				tops = append(tops, fn)
			}
		}
		sort.Strings(tops)
		sig := "C20:race:" + strings.Join(tops, "+")
		if len(tops) == 2 && strings.Contains(tops[0], "clientSegmentQueue).pull") &&
			strings.Contains(tops[1], "clientSegmentQueue).waitUntilSizeIsBelow") {
			sig = "C20:race:didPull-field"
		}
		if seen[sig] {
			continue
		}
		seen[sig] = true
		in, _ := json.Marshal(map[string]interface{}{"stress": n})
		// canonical text: no addresses, no pc offsets, goroutine ids by order of appearance
		rep = regexp.MustCompile(` \+0x[0-9a-f]+`).ReplaceAllString(rep, "")
		rep = regexp.MustCompile(`0x[0-9a-f]+`).ReplaceAllString(rep, "ADDR")
		rep = regexp.MustCompile(`(/cmd/queue/main\.go):\d+`).ReplaceAllString(rep, "$1")
		names := map[string]string{}
		rep = regexp.MustCompile(`[Gg]oroutine (\d+)`).ReplaceAllStringFunc(rep, func(m string) string {
			id := m[strings.Index(m, " ")+1:]
			if _, ok := names[id]; !ok {
				names[id] = string(rune('A' + len(names)))
			}
			return m[:strings.Index(m, " ")+1] + names[id]
		})
		fails = append(fails, failure{Signature: sig,
			What:  "data race reported by the Go race detector on the real queue (free-running runTraditional producer + processor):\n" + strings.TrimSpace(rep),
			Input: in})
	}
	return fails, info, nil
}

// ---- main ----

type caseRec struct {
	Shard int      `json:"shard"`
	Index int      `json:"index"`
	Input runInput `json:"input"`
}

func main() {
	seed := flag.Uint64("seed", 0, "seed")
	tier := flag.String("tier", "quick", "quick|thorough")
	out := flag.String("out", "", "output directory")
	replay := flag.String("replay", "", "replay file (JSON with .input)")
	fixed := flag.Bool("fixed", false, "the source under test captures q.didPull under the mutex (model variant WaitBelow true)")
	stressN := flag.Int("stress", 0, "free-running stress with this many segments (use with a -race build), then exit")
	racebin := flag.String("racebin", "", "path of the -race build of this command")
	maxCases := flag.Int("maxcases", 0, "cap on Coq cases (0 = tier default)")
	flag.Parse()
	if *stressN > 0 {
		stress(*stressN)
		return
	}
	if *out == "" {
		fmt.Fprintln(os.Stderr, "need -out")
		os.Exit(2)
	}
	os.MkdirAll(*out, 0o755)
	gohlslib.VerifSetHook(hookFn)

	capCases := *maxCases
	if capCases == 0 {
		capCases = 9000
		if *tier == "thorough" {
			capCases = 90000
		}
	}
	shardSize := 300
	e2eRuns := 0

	var shard *os.File
	shardIdx, inShard := -1, 0
	closeShard := func() {
		if shard != nil {
			fmt.Fprintln(shard, "].")
			fmt.Fprintln(shard, "Definition M := Eval vm_compute in mismatches cases.")
			fmt.Fprintln(shard, "Print M.")
			shard.Close()
			shard = nil
		}
	}
	cases := []caseRec{}
	var failures []failure
	best := map[string]failure{}
	errors := []string{}
	seen := map[string]bool{}
	distinct, distinctNontrivial, evaluations, hooksObserved := 0, 0, 0, 0
	dist := map[string]int{}
	samples := []json.RawMessage{}

	progName := map[string]string{}
	progDefs := map[string]string{}
	addProg := func(cfg config) {
		if _, ok := progName[cfg.Name]; ok {
			return
		}
		var sp []string
		for _, o := range cfg.Prog {
			sp = append(sp, o.coq(*fixed))
		}
		n := fmt.Sprintf("prog_%d", len(progName))
		progName[cfg.Name] = n
		progDefs[n] = coqfmt.List(sp)
	}
	record := func(cfg config, r *execResult) {
		if r.hang == "skipped" {
			return
		}
		evaluations++
		var ds []string
		for _, d := range r.decisions {
			ds = append(ds, d.K)
		}
		in := runInput{Config: cfg, Decisions: ds}
		inJSON, _ := json.Marshal(in)
		h := sha256.Sum256(inJSON)
		hs := hex.EncodeToString(h[:8])
		for _, f := range r.fails {
			// keep the smallest witness per signature, preferring the program the library itself runs (runTraditional)
			f.trad = cfg.Trad
			if b, ok := best[f.Signature]; !ok || (f.trad && !b.trad) ||
				(f.trad == b.trad && (f.steps < b.steps || (f.steps == b.steps && len(f.Input) < len(b.Input)))) {
				best[f.Signature] = f
			}
			dist["oracle:"+f.Signature]++
		}
		if r.hang != "" {
			return
		}
		if seen[hs] {
			return
		}
		seen[hs] = true
		distinct++
		if r.interest && (r.sawBlockP || r.sawBlockC) {
			distinctNontrivial++
			if len(samples) < 3 && len(ds) > 8 {
				samples = append(samples, inJSON)
			}
		}
		dist["config:"+cfg.Name]++
		dist[fmt.Sprintf("decisions:%02d-%02d", len(ds)/5*5, len(ds)/5*5+4)]++
		dist[fmt.Sprintf("max_len:%d", r.maxLen)]++
		if r.sawBlockP {
			dist["saw:downloader-blocked-in-select"]++
		}
		if r.sawBlockC {
			dist["saw:processor-blocked-in-select"]++
		}
		for _, d := range r.decisions {
			dist["decision:"+d.K]++
			if d.K == "relP" || d.K == "relC" {
				hooksObserved++
				if d.B == "ctx" {
					dist["release:took-ctx-case"]++
				}
			}
		}
		if len(cases) >= capCases {
			dist["cases:not-model-compared(cap)"]++
			return
		}
		if shard == nil || inShard >= shardSize {
			closeShard()
			shardIdx++
			inShard = 0
			var err error
			shard, err = os.Create(filepath.Join(*out, fmt.Sprintf("cases_%d.v", shardIdx)))
			if err != nil {
				panic(err)
			}
			fmt.Fprintln(shard, "From Coq Require Import List ZArith.")
			fmt.Fprintln(shard, "From GoHls Require Import Model.Queue Tie.QueueTie.")
			fmt.Fprintln(shard, "Import ListNotations. Open Scope Z_scope.")
			// the producer programs, once per shard
			names := make([]string, 0, len(progDefs))
			for n := range progDefs {
				names = append(names, n)
			}
			sort.Strings(names)
			for _, n := range names {
				fmt.Fprintf(shard, "Definition %s : list pop := %s.\n", n, progDefs[n])
			}
			fmt.Fprintln(shard, "Definition cases : list qcase := [")
		}
		if inShard > 0 {
			fmt.Fprintln(shard, ";")
		}
		// compact encoding, see Tie/QueueTie.v
		var sd, so, sr []string
		for _, d := range r.decisions {
			sd = append(sd, fmt.Sprint(d.code()))
		}
		for _, o := range r.obs {
			v := int64(0)
			for _, x := range o {
				if x < 0 || x >= 100 {
					panic("observation field out of the packed range")
				}
				v = v*100 + int64(x)
			}
			so = append(so, coqfmt.Z(v))
		}
		for _, x := range r.returned {
			sr = append(sr, coqfmt.Z(int64(x)))
		}
		fmt.Fprintf(shard, "{| qc_prog := %s; qc_pulls := %s; qc_ds := %s;\n   qc_obs := %s; qc_ret := %s |}",
			progName[cfg.Name], coqfmt.Nat(cfg.Pulls), coqfmt.List(sd), coqfmt.List(so), coqfmt.List(sr))
		cases = append(cases, caseRec{Shard: shardIdx, Index: inShard, Input: in})
		inShard++
	}

	// a hang is reported only if it reproduces three times
	hangFails := 0
	runChecked := func(cfg config, prefix []int, forced []string, mod bool) *execResult {
		if hangFails >= 3 {
			// three reproducible hangs have been reported: every further execution would cost the
			// watchdog's timeouts again; the rest of the enumeration is skipped
			dist["watchdog:skipped-after-3-hangs"]++
			return &execResult{hang: "skipped"}
		}
		r := execute(cfg, prefix, forced, mod)
		if r.hang == "" || strings.HasPrefix(r.hang, "replay:") {
			if r.hang != "" {
				errors = append(errors, r.hang)
			}
			return r
		}
		first := r.hang
		for i := 0; i < 2; i++ {
			r2 := execute(cfg, prefix, forced, mod)
			if r2.hang == "" {
				dist["watchdog:transient"]++
				return r2
			}
		}
		var ds []string
		for _, d := range r.decisions {
			ds = append(ds, d.K)
		}
		in, _ := json.Marshal(runInput{Config: cfg, Decisions: ds})
		f := failure{Signature: "C20:hang", What: "goroutines neither returned nor parked at a known point (3 reproductions): " + first, Input: in, steps: len(ds)}
		r.fails = append(r.fails, f)
		hangFails++
		return r
	}

	if *replay != "" {
		raw, err := os.ReadFile(*replay)
		if err != nil {
			panic(err)
		}
		var rp struct {
			Input json.RawMessage `json:"input"`
		}
		if err := json.Unmarshal(raw, &rp); err != nil {
			panic(err)
		}
		var st struct {
			Stress int    `json:"stress"`
			E2E    string `json:"e2e"`
		}
		json.Unmarshal(rp.Input, &st)
		if st.E2E != "" {
			var sc e2eScenario
			if err := json.Unmarshal(rp.Input, &sc); err != nil {
				panic(err)
			}
			fs, errs, n := e2eLeg([]e2eScenario{sc}, dist)
			for _, f := range fs {
				best[f.Signature] = f
			}
			errors = append(errors, errs...)
			evaluations += n
		} else if st.Stress > 0 {
			if *racebin == "" {
				errors = append(errors, "replay of a race finding needs -racebin")
			} else {
				fs, info, err := raceLeg(*racebin, st.Stress)
				if err != nil {
					errors = append(errors, err.Error())
				}
				for _, f := range fs {
					best[f.Signature] = f
				}
				for k, v := range info {
					dist[k] = toInt(v)
				}
				evaluations++
			}
		} else {
			var in runInput
			if err := json.Unmarshal(rp.Input, &in); err != nil {
				panic(err)
			}
			forced := in.Decisions
			if forced == nil {
				forced = []string{}
			}
			addProg(in.Config)
			record(in.Config, runChecked(in.Config, nil, forced, false))
		}
	} else {
		for _, pl := range plans(*tier) {
			addProg(pl.cfg)
		}
		for pi, pl := range plans(*tier) {
			if pl.sample > 0 {
				// random maximal runs: choice indices drawn from the seed
				for i := 0; i < pl.sample; i++ {
					r := rng.New(*seed, uint64(pi)<<32|uint64(i))
					prefix := make([]int, 128)
					for j := range prefix {
						prefix[j] = int(r.U64() >> 33)
					}
					record(pl.cfg, runChecked(pl.cfg, prefix, nil, true))
				}
				continue
			}
			// exhaustive depth-first enumeration by re-execution
			var prefix []int
			for {
				res := runChecked(pl.cfg, prefix, nil, false)
				record(pl.cfg, res)
				// next path: increment the deepest choice that has an alternative left
				i := len(res.choiceIdx) - 1
				for i >= 0 && res.choiceIdx[i]+1 >= res.nchoices[i] {
					i--
				}
				if i < 0 {
					break
				}
				prefix = append(append([]int{}, res.choiceIdx[:i]...), res.choiceIdx[i]+1)
			}
			dist["dfs-complete:"+pl.cfg.Name] = 1
		}
		{
			// end-to-end: the real Client (runTraditional) against scripted playlists
			fs, errs, n := e2eLeg(e2eScenarios(*tier), dist)
			for _, f := range fs {
				if _, ok := best[f.Signature]; !ok {
					best[f.Signature] = f
				}
			}
			errors = append(errors, errs...)
			evaluations += n
			e2eRuns = n
		}
		if *racebin != "" {
			n := 3000
			if *tier == "thorough" {
				n = 30000
			}
			fs, info, err := raceLeg(*racebin, n)
			if err != nil {
				errors = append(errors, err.Error())
			}
			for _, f := range fs {
				best[f.Signature] = f
			}
			for k, v := range info {
				if s, ok := v.(string); ok {
					dist["stress:"+s]++
				} else {
					dist[k] = toInt(v)
				}
			}
			evaluations++
		}
	}
	closeShard()

	var sigs []string
	for s := range best {
		sigs = append(sigs, s)
	}
	sort.Strings(sigs)
	for _, s := range sigs {
		failures = append(failures, best[s])
	}
	if len(samples) == 0 && len(cases) > 0 {
		j, _ := json.Marshal(cases[0].Input)
		samples = append(samples, j)
	}
	res := map[string]interface{}{
		"evaluations":         evaluations,
		"distinct":            distinct,
		"distinct_nontrivial": distinctNontrivial,
		"rule": "controlled executions of the real clientSegmentQueue: depth-first enumeration of every interleaving of each configuration " +
			"(controller choices: start next downloader op, start next pull, release a goroutine parked at its hook, cancel), plus seeded random maximal runs of the larger ones; " +
			"distinct by SHA-256 of (configuration, decision list); non-trivial = some decision was taken while the other goroutine was parked at its hook or in its select " +
			"AND a goroutine was observed blocked inside the queue's select at a settled point",
		"samples":                       samples,
		"distribution":                  dist,
		"oracle_failures":               failures,
		"cases":                         cases,
		"shards":                        shardIdx + 1,
		"errors":                        errors,
		"traces_validated_against_impl": len(cases),
		"hook_releases_observed":        hooksObserved,
		"e2e_scenarios":                 e2eRuns,
	}
	j, _ := json.Marshal(res)
	os.WriteFile(filepath.Join(*out, "result.json"), j, 0o644)
	fmt.Printf("queue harness: %d executions, %d distinct, %d distinct non-trivial, %d model cases in %d shards, %d oracle failure signatures, %d errors\n",
		evaluations, distinct, distinctNontrivial, len(cases), shardIdx+1, len(failures), len(errors))
}

func toInt(v interface{}) int {
	switch x := v.(type) {
	case int:
		return x
	case int64:
		return int(x)
	}
	return 0
}
