package main

import (
	"fmt"

	"github.com/bluenviron/mediacommon/v2/pkg/codecs/h264"

	"verifharness/internal/rng"
)

// pairDesc is one muxer/client pair: the muxer configuration and write history (abstract, as in
// Model/Mux.v), what the client is pointed at and when it is attached.
type pairDesc struct {
	ID       int     `json:"id"`
	Seed     uint64  `json:"seed"`
	Fixed    string  `json:"fixed,omitempty"`
	H        history `json:"h"`
	Target   string  `json:"target"`    // "index" or "media:<track index>" (the media playlist of that track's stream)
	AttachMs int     `json:"attach_ms"` // when the first client is attached, after the writer started
	MediaMs  int     `json:"media_ms"`  // media time spanned by the history
	NtpBase  int64   `json:"ntp_base"`
	// a client that falls behind: every data callback of the first client that delivers is held from its first
	// callback on until the leading stream has completed Lag further segments (0: no hold), see runPair
	Lag int `json:"lag,omitempty"`
}

var aacRates = []int64{8000, 16000, 22050, 32000, 44100, 48000, 96000}

type force struct {
	name    string
	variant int
	tracks  []tcfgA
	target  string
	segMin  int64
	partMin int64
	mediaMs int
	// every key frame carries changed parameter sets (each forces a segment rotation); audio writes hold audioN units
	paramEveryKey bool
	audioN        int
	gop           int
	// parameter changes of the video track: which set changes ("pps", "sps", "vps", "all"; "" = drawn per change),
	// only within the first changesUntilPct percent of the media, the client attached at attachPct percent
	paramKind       string
	changesUntilPct int
	attachPct       int
	// exactly one parameter change, on the first key frame at or after singleChangePct percent of the media;
	// the client is attached attachAfterChangeMs later (while the segment the change opened is still open)
	singleChangePct     int
	attachAfterChangeMs int
	// SegmentCount (0: drawn) and the moment the client is attached (0: attachPct / drawn)
	segCount int
	attachMs int
	// the client is held in its data callbacks while the writer completes SegmentCount + 2 + lagExtra further segments
	lag      bool
	lagExtra int
	// H264 / H265: the parameter changes of this pair (kind paramKind, while changesUntilPct) do not come with a key
	// frame: the new parameter sets first arrive in an access unit that is not a random access one - "trail":
	// together with the last picture before the next key frame, "own": in an access unit of their own just before
	// that picture - and the key frame that follows repeats them (earlyRepeat) or carries no parameter sets at all
	early       string
	earlyRepeat bool
}

func fixedScenarios() []force {
	aac := func(sr int64, name, lang int, def bool) tcfgA {
		return tcfgA{Kind: kAAC, Rate: sr, SRate: sr, Name: name, Lang: lang, Default: def, Params0: 2}
	}
	opus := func(name, lang int) tcfgA { return tcfgA{Kind: kOpus, Rate: 48000, SRate: 48000, Name: name, Lang: lang} }
	vid := func(k int, p int64) tcfgA { return tcfgA{Kind: k, Rate: 90000, Params0: p} }
	vidR := func(p int64) tcfgA { return tcfgA{Kind: kH264, Rate: 90000, Params0: p, Reorder: true} }
	return []force{
		{name: "av1-index", variant: 2, tracks: []tcfgA{vid(kAV1, 0)}, target: "index"},
		{name: "vp9-index", variant: 2, tracks: []tcfgA{vid(kVP9, 0)}, target: "index"},
		{name: "av1-aac-ll-index", variant: 3, tracks: []tcfgA{vid(kAV1, 4), aac(48000, 0, 0, false)}, target: "index"},
		{name: "av1-media", variant: 2, tracks: []tcfgA{vid(kAV1, 0)}, target: "media:0"},
		{name: "vp9-media", variant: 2, tracks: []tcfgA{vid(kVP9, 5)}, target: "media:0"},
		{name: "vp9-ll-media", variant: 3, tracks: []tcfgA{vid(kVP9, 0)}, target: "media:0"},
		{name: "audio-only-renditions", variant: 2, tracks: []tcfgA{aac(48000, 1, 1, false), aac(44100, 2, 2, true)}, target: "index"},
		{name: "audio-only-renditions-nodefault", variant: 2, tracks: []tcfgA{opus(0, 0), aac(48000, 0, 2, false)}, target: "index"},
		{name: "h264-aac-opus", variant: 2, tracks: []tcfgA{vid(kH264, 1), aac(44100, 1, 1, false), opus(0, 2)}, target: "index"},
		{name: "ts-h264-aac", variant: 1, tracks: []tcfgA{vid(kH264, 1), aac(44100, 0, 0, false)}, target: "index"},
		{name: "ts-aac-h264", variant: 1, tracks: []tcfgA{aac(32000, 0, 0, false), vid(kH264, 1)}, target: "media:0"},
		{name: "ll-h265-opus", variant: 3, tracks: []tcfgA{vid(kH265, 1), opus(1, 0)}, target: "index"},
		{name: "ll-h264-aac8k", variant: 3, tracks: []tcfgA{vid(kH264, 1), aac(8000, 0, 0, false)}, target: "index", partMin: 50e6},
		{name: "fmp4-h265", variant: 2, tracks: []tcfgA{vid(kH265, 5)}, target: "index"},
		{name: "ll-opus", variant: 3, tracks: []tcfgA{opus(0, 0)}, target: "index"},
		{name: "h264-short-segments", variant: 2, tracks: []tcfgA{vid(kH264, 1)}, target: "index", segMin: 200e6},
		{name: "fmp4-pointed-at-audio-rendition", variant: 2, tracks: []tcfgA{vid(kH264, 1), aac(16000, 0, 0, false)}, target: "media:1"},
		{name: "ll-pointed-at-audio-rendition", variant: 3, tracks: []tcfgA{vid(kH264, 1), aac(16000, 0, 0, false)}, target: "media:1", partMin: 200e6},
		// forced rotations every 100 ms, one audio write (4 access units) every 512 ms: most segments hold no audio
		{name: "ts-segments-without-audio", variant: 1, tracks: []tcfgA{aac(8000, 0, 0, false), vid(kH264, 1)}, target: "index",
			paramEveryKey: true, audioN: 4, gop: 3},
		// clients attached AFTER parameter changes of the video track (the init must have followed them)
		{name: "late-h264-pps-only-fmp4", variant: 2, tracks: []tcfgA{vid(kH264, 1)}, target: "index", paramEveryKey: true, paramKind: "pps", changesUntilPct: 35, attachPct: 60, gop: 8},
		{name: "late-h264-pps-only-ll", variant: 3, tracks: []tcfgA{vid(kH264, 1), aac(44100, 0, 0, false)}, target: "index", paramEveryKey: true, paramKind: "pps", changesUntilPct: 35, attachPct: 60, gop: 8},
		{name: "late-h264-sps-pps-ll", variant: 3, tracks: []tcfgA{vid(kH264, 1)}, target: "media:0", paramEveryKey: true, paramKind: "all", changesUntilPct: 35, attachPct: 60, gop: 8},
		{name: "late-h265-pps-only-fmp4", variant: 2, tracks: []tcfgA{vid(kH265, 0)}, target: "index", paramEveryKey: true, paramKind: "pps", changesUntilPct: 35, attachPct: 60, gop: 8},
		{name: "late-h265-vps-only-ll", variant: 3, tracks: []tcfgA{vid(kH265, 0)}, target: "index", paramEveryKey: true, paramKind: "vps", changesUntilPct: 35, attachPct: 60, gop: 8},
		{name: "late-h265-sps-only-fmp4", variant: 2, tracks: []tcfgA{opus(0, 0), vid(kH265, 4)}, target: "index", paramEveryKey: true, paramKind: "sps", changesUntilPct: 35, attachPct: 60, gop: 8},
		{name: "late-av1-sequence-header-fmp4", variant: 2, tracks: []tcfgA{vid(kAV1, 0)}, target: "index", paramEveryKey: true, changesUntilPct: 35, attachPct: 60, gop: 8},
		{name: "late-vp9-resolution-ll", variant: 3, tracks: []tcfgA{vid(kVP9, 0)}, target: "index", paramEveryKey: true, changesUntilPct: 35, attachPct: 60, gop: 8},
		// finding F27: Low-Latency, one isolated parameter change, client attached 250 ms later: the segment the
		// change opened (SegmentMinDuration 1 s) is still open, its parts are advertised, the init is the old one
		{name: "f27-ll-h264-pps-forced-segment-open", variant: 3, tracks: []tcfgA{vid(kH264, 1)}, target: "index", paramKind: "pps", singleChangePct: 50, attachAfterChangeMs: 250, gop: 8, segMin: 1000e6, partMin: 100e6, mediaMs: 5000},
		{name: "f27-ll-h265-sps-forced-segment-open", variant: 3, tracks: []tcfgA{vid(kH265, 0), aac(48000, 0, 0, false)}, target: "index", paramKind: "sps", singleChangePct: 50, attachAfterChangeMs: 250, gop: 8, segMin: 1000e6, partMin: 100e6, mediaMs: 5000},
		{name: "f27-ll-av1-forced-segment-open", variant: 3, tracks: []tcfgA{vid(kAV1, 0)}, target: "media:0", singleChangePct: 50, attachAfterChangeMs: 250, gop: 8, segMin: 1000e6, partMin: 100e6, mediaMs: 5000},
		{name: "f27-ll-vp9-forced-segment-open", variant: 3, tracks: []tcfgA{vid(kVP9, 0)}, target: "index", singleChangePct: 50, attachAfterChangeMs: 250, gop: 8, segMin: 1000e6, partMin: 100e6, mediaMs: 5000},
		// H264 with B pictures (dts < pts on the reordered units), every variant
		{name: "ts-h264-reorder", variant: 1, tracks: []tcfgA{vidR(2)}, target: "index"},
		{name: "ts-h264-reorder-aac", variant: 1, tracks: []tcfgA{vidR(3), aac(48000, 0, 0, false)}, target: "media:0"},
		{name: "fmp4-h264-reorder", variant: 2, tracks: []tcfgA{vidR(3), opus(0, 0)}, target: "index"},
		{name: "ll-h264-reorder", variant: 3, tracks: []tcfgA{vidR(2)}, target: "index"},
		{name: "ts-h264-short-segments", variant: 1, tracks: []tcfgA{vid(kH264, 1)}, target: "media:0", segMin: 250e6},
	}
}

// lateScenarios come after the random pairs (ids that were never used: the random pairs keep theirs).
//
// lag-*: SegmentCount 3..5 (MPEG-TS / fMP4), the client attached once three segments are listed and held inside
// its data callbacks while the writer completes SegmentCount + 2 further segments: the segment after the last
// one it downloaded has left the playlist when it is released. It may stop with an error; it must not skip.
//
// early-*: H264 / H265 parameter changes whose new parameter sets are sent ahead of the key frame they apply to
// (with the last picture before it, or in an access unit of their own), the key frame repeats them or carries
// none; the client is attached after the changes and must report the muxer's parameters, not those of Start.
func lateScenarios() []force {
	aac := func(sr int64) tcfgA { return tcfgA{Kind: kAAC, Rate: sr, SRate: sr, Params0: 2} }
	opus := func() tcfgA { return tcfgA{Kind: kOpus, Rate: 48000, SRate: 48000} }
	vid := func(k int, p int64) tcfgA { return tcfgA{Kind: k, Rate: 90000, Params0: p} }
	lag := func(name string, variant, segCount int, target string, tracks ...tcfgA) force {
		return force{name: name, variant: variant, tracks: tracks, target: target, segCount: segCount, lag: true,
			gop: 5, attachMs: 1900, mediaMs: 2900 + (segCount+2)*650}
	}
	early := func(name string, variant int, target, kind, mode string, repeat bool, tracks ...tcfgA) force {
		// the client starts three segments behind the live edge: the changes end at 1.8 s, it is attached at 4.5 s
		// (a muxer that does not rotate at these changes has segments of 0.5 - 0.7 s)
		return force{name: name, variant: variant, tracks: tracks, target: target, paramKind: kind, early: mode, earlyRepeat: repeat,
			changesUntilPct: 30, attachPct: 75, gop: 8, mediaMs: 6000}
	}
	return []force{
		lag("lag-fmp4-h264-seg3", 2, 3, "index", vid(kH264, 1)),
		lag("lag-ts-h264-seg3", 1, 3, "index", vid(kH264, 1)),
		lag("lag-fmp4-h265-aac-seg4", 2, 4, "index", vid(kH265, 0), aac(44100)),
		lag("lag-ts-aac-h264-seg4", 1, 4, "media:0", aac(48000), vid(kH264, 1)),
		lag("lag-fmp4-opus-av1-seg5", 2, 5, "index", opus(), vid(kAV1, 0)),
		lag("lag-ts-h264-aac-seg5", 1, 5, "index", vid(kH264, 1), aac(32000)),
		lag("lag-fmp4-vp9-seg3-media", 2, 3, "media:0", vid(kVP9, 0)),
		lag("lag-fmp4-aac-seg4", 2, 4, "index", aac(48000)),
		early("early-h265-sps-trail-norepeat-fmp4", 2, "index", "sps", "trail", false, vid(kH265, 0)),
		early("early-h265-all-trail-repeat-ll", 3, "index", "all", "trail", true, vid(kH265, 0), aac(48000)),
		early("early-h265-pps-own-repeat-fmp4", 2, "media:0", "pps", "own", true, vid(kH265, 0)),
		early("early-h265-vps-trail-norepeat-ll", 3, "index", "vps", "trail", false, vid(kH265, 4)),
		early("early-h265-sps-own-norepeat-fmp4", 2, "index", "sps", "own", false, opus(), vid(kH265, 2)),
		early("early-h264-pps-trail-norepeat-fmp4", 2, "index", "pps", "trail", false, vid(kH264, 1)),
		early("early-h264-sps-own-repeat-ll", 3, "index", "sps", "own", true, vid(kH264, 1)),
		early("early-h264-all-own-norepeat-fmp4", 2, "index", "all", "own", false, opus(), vid(kH264, 1)),
		early("early-h264-all-trail-repeat-ll", 3, "media:0", "all", "trail", true, vid(kH264, 1)),
	}
}

// extraScenario draws the i-th scenario of the two families above (even i: lag, odd i: early parameter sets) from
// a generator of its own; the rest of the pair (frame rates, jitter, start time, unit sizes) is drawn by genPair.
func extraScenario(seed uint64, i int) force {
	x := rng.New(seed, uint64(i)+15485863)
	audio := func() tcfgA {
		if x.Bool(1, 2) {
			return tcfgA{Kind: kOpus, Rate: 48000, SRate: 48000, Name: x.Intn(2), Lang: x.Intn(2)}
		}
		sr := aacRates[x.Intn(len(aacRates))]
		return tcfgA{Kind: kAAC, Rate: sr, SRate: sr, Params0: 2, Name: x.Intn(2), Lang: x.Intn(2)}
	}
	var f force
	if i%2 == 0 {
		f.variant = 1 + x.Intn(2)
		f.segCount = 3 + x.Intn(3)
		f.lag, f.lagExtra = true, x.Intn(2)
		f.gop = []int{3, 5, 8}[x.Intn(3)]
		f.segMin = []int64{400e6, 500e6, 600e6}[x.Intn(3)]
		v := tcfgA{Kind: kH264, Rate: 90000, Params0: 1}
		if f.variant == 2 {
			v.Kind = []int{kH264, kH265, kVP9, kAV1}[x.Intn(4)]
			if v.Kind != kH264 {
				v.Params0 = int64(x.Intn(12))
			}
		}
		f.tracks = []tcfgA{v}
		if x.Bool(1, 2) {
			a := audio()
			if f.variant == 1 {
				a = tcfgA{Kind: kAAC, Rate: 44100, SRate: 44100, Params0: 2}
			}
			if x.Bool(1, 2) {
				f.tracks = []tcfgA{a, v}
			} else {
				f.tracks = []tcfgA{v, a}
			}
		}
		f.attachMs = 1600 + x.Intn(600)
		f.mediaMs = 3100 + (f.segCount+2+f.lagExtra)*int(f.segMin/1e6+200)
		f.name = fmt.Sprintf("x-lag-%s-seg%d", variantName(f.variant), f.segCount)
	} else {
		f.variant = 2 + x.Intn(2)
		v := tcfgA{Kind: kH264, Rate: 90000, Params0: 1}
		if x.Bool(2, 3) {
			v = tcfgA{Kind: kH265, Rate: 90000, Params0: int64(x.Intn(12))}
		}
		f.tracks = []tcfgA{v}
		if x.Bool(1, 3) {
			if x.Bool(1, 2) {
				f.tracks = []tcfgA{audio(), v}
			} else {
				f.tracks = []tcfgA{v, audio()}
			}
		}
		f.paramKind = []string{"pps", "sps", "vps", "all", ""}[x.Intn(5)]
		f.early = []string{"trail", "own"}[x.Intn(2)]
		f.earlyRepeat = x.Bool(1, 2)
		f.gop = []int{3, 5, 8, 12}[x.Intn(4)]
		f.mediaMs = 5500 + x.Intn(1500)
		f.changesUntilPct = 20 + x.Intn(20)
		if x.Bool(2, 3) {
			f.attachPct = 70 + x.Intn(15) // else: attached at a drawn moment
		}
		if f.variant == 3 {
			f.partMin = []int64{50e6, 100e6, 200e6}[x.Intn(3)]
		}
		f.name = fmt.Sprintf("x-early-%s-%s-%s", variantName(f.variant), kindNames[v.Kind], f.early)
	}
	f.target = "index"
	if x.Bool(1, 3) {
		for ti, t := range f.tracks {
			if isVideoKind(t.Kind) {
				f.target = fmt.Sprintf("media:%d", ti)
			}
		}
	}
	return f
}

func streamIDOf(h *history, ti int) string {
	if h.Variant == 1 {
		return "main"
	}
	if isVideoKind(h.Tracks[ti].Kind) {
		return fmt.Sprintf("video%d", ti+1)
	}
	return fmt.Sprintf("audio%d", ti+1)
}

func hasVideoTrack(h *history) bool {
	for _, t := range h.Tracks {
		if isVideoKind(t.Kind) {
			return true
		}
	}
	return false
}

// leadingTrack: the first video track, else track 0 (muxer.go Start)
func leadingTrack(h *history) int {
	for i, t := range h.Tracks {
		if isVideoKind(t.Kind) {
			return i
		}
	}
	return 0
}

// genPair draws a configuration Start accepts (C01's space restricted to what a live client can
// follow within a few seconds of media: short segments, frequent key frames) and a well-formed
// write sequence spanning MediaMs of media.
func genPair(seed uint64, id int, f *force) pairDesc {
	p, ok := genPairR(seed, id, f, true)
	if !ok {
		// the generator's DTS extractor instance rejected a unit of a reordered H264 stream: such a unit
		// would be dropped by the muxer in mid-stream; the pair is drawn again without reordering
		p, _ = genPairR(seed, id, f, false)
	}
	return p
}

func genPairR(seed uint64, id int, f *force, allowReorder bool) (pairDesc, bool) {
	ok := true
	r := rng.New(seed, uint64(id)+7919)
	rx := r.Fork(0xC0913) // dimensions added later draw from here: what a seed produced before stays the same
	var p pairDesc
	p.ID, p.Seed = id, seed
	h := &p.H
	h.Variant = 1 + r.Pick(3, 4, 4)
	if f != nil {
		h.Variant = f.variant
		p.Fixed = f.name
	}
	switch h.Variant {
	case 3:
		h.SegCount = 7 + r.Intn(3)
	default:
		h.SegCount = 3 + r.Intn(5)
	}
	if r.Bool(1, 6) {
		h.SegCount = 0 // default (7)
	}
	if f != nil && f.segCount != 0 {
		h.SegCount = f.segCount
	}
	// 0.5 s and more; one pair in eight keeps segments shorter than 0.5 s (they rounded to
	// EXT-X-TARGETDURATION:0 before fix 69594d6 - finding F20 - and must play now)
	h.SegMin = []int64{500e6, 500e6, 600e6, 750e6, 1000e6}[r.Intn(5)]
	if r.Bool(1, 8) {
		h.SegMin = []int64{100e6, 200e6, 250e6, 400e6}[r.Intn(4)]
	}
	h.PartMin = []int64{50e6, 100e6, 200e6}[r.Intn(3)]
	if r.Bool(1, 8) {
		h.PartMin = 0
	}

	// track set
	hasVideo := r.Bool(3, 4)
	var tracks []tcfgA
	if f != nil {
		tracks = append(tracks, f.tracks...)
		hasVideo = false
		for _, t := range tracks {
			if isVideoKind(t.Kind) {
				hasVideo = true
			}
		}
		h.SegMin = 500e6
		if f.segMin != 0 {
			h.SegMin = f.segMin
		}
		if f.partMin != 0 {
			h.PartMin = f.partMin
		}
	} else {
		nAudio := 0
		if h.Variant == 1 {
			nAudio = r.Intn(2)
			if !hasVideo {
				nAudio = 1
			}
		} else {
			nAudio = r.Pick(3, 4, 3, 1)
			if !hasVideo && nAudio == 0 {
				nAudio = 1
			}
		}
		for i := 0; i < nAudio; i++ {
			t := tcfgA{Kind: kAAC, Params0: 2}
			if h.Variant != 1 && r.Bool(1, 3) {
				t.Kind = kOpus
				t.Rate, t.SRate = 48000, 48000
				t.Params0 = 0
			} else {
				t.SRate = aacRates[r.Intn(len(aacRates))]
				if h.Variant == 1 && !hasVideo {
					t.SRate = 96000 // an audio-only MPEG-TS segment needs 100 access units
				}
				t.Rate = t.SRate
			}
			if r.Bool(1, 2) {
				t.Name = 1 + i
			}
			if r.Bool(1, 2) {
				t.Lang = 1 + i
			}
			tracks = append(tracks, t)
		}
		if r.Bool(1, 3) && nAudio > 0 {
			tracks[r.Intn(nAudio)].Default = true
		}
		if hasVideo {
			v := tcfgA{Kind: kH264, Rate: 90000, Params0: 1}
			if h.Variant != 1 {
				v.Kind = []int{kH264, kH265, kVP9, kAV1}[r.Intn(4)]
			}
			v.Params0 = int64(r.Intn(12))
			if v.Kind == kH264 {
				v.Params0 = 1
				if r.Bool(1, 2) { // picture reordering: B pictures, dts < pts
					v.Reorder = true
					v.Params0 = int64(2 + r.Intn(2))
				}
			}
			pos := r.Intn(len(tracks) + 1)
			tracks = append(tracks[:pos], append([]tcfgA{v}, tracks[pos:]...)...)
		}
	}
	if !allowReorder {
		for i := range tracks {
			tracks[i].Reorder = false
		}
	}
	h.Tracks = tracks

	// what the client is pointed at
	switch r.Pick(6, 3, 1) {
	case 0:
		p.Target = "index"
	case 1:
		p.Target = fmt.Sprintf("media:%d", leadingTrack(h))
	default:
		p.Target = fmt.Sprintf("media:%d", r.Intn(len(tracks)))
	}
	if f != nil {
		p.Target = f.target
	}

	// media span: 2-4 s; an audio-only MPEG-TS stream cuts a segment every 100 access units
	p.MediaMs = 3000 + r.Intn(2001)
	if h.SegMin >= 1000e6 {
		p.MediaMs += 1500
	}
	if h.Variant == 1 && !hasVideo {
		p.MediaMs = 6500
	}
	if f != nil && f.mediaMs != 0 {
		p.MediaMs = f.mediaMs
	}
	p.AttachMs = r.Intn(p.MediaMs)
	if r.Bool(1, 2) {
		p.AttachMs = p.MediaMs*3/10 + r.Intn(p.MediaMs*4/10)
	}

	if f != nil && f.attachPct != 0 {
		p.AttachMs = p.MediaMs * f.attachPct / 100
	}

	type tstate struct {
		dts      int64
		frameDur int64
		jitter   bool
		gop      int
		sinceKey int
		params   pset
		// H264 with reordering: display-order bookkeeping and the generator's own DTS extractor instance
		// parameter sets sent ahead of the key frame: the next key frame carries none; an H265 access unit made of
		// parameter sets alone was written (at most one per track: the oracle tells units apart by their bytes)
		noRepeat bool
		ownDone  bool
		keys     int // key frames written so far
		ex      *h264.DTSExtractor
		bf      int   // at most this many B pictures between two anchors
		pocBase int   // pic_order_cnt_lsb of the GOP's IDR picture
		gopBase int64 // presentation time of the GOP's IDR picture
		disp    int   // display index of the last anchor of the GOP
		pendB   []int // display indices of the B pictures still to be written (decode order: after their anchor)
		lastPTS int64
		havePTS bool
	}
	st := make([]tstate, len(tracks))
	var startSec int64
	switch r.Pick(3, 3, 1, 1) {
	case 0:
		startSec = 0
	case 1:
		startSec = r.Range(-9, 30)
	case 2:
		startSec = 95443 - r.Range(0, 2) // the 33-bit MPEG-TS clock wraps inside the stream
	default:
		startSec = r.Range(100000, 2000000)
	}
	p.NtpBase = int64(1700000000)*1e9 + int64(r.Intn(1000))*1e6 + int64(r.Intn(1000))*1e3
	paramChanges := r.Bool(1, 5)
	paramProb := 4
	changesUntilNs := int64(1) << 62
	if paramChanges && r.Bool(1, 2) {
		// half of the pairs with parameter changes have them early and the client late
		changesUntilNs = int64(p.MediaMs) * 1e6 * 4 / 10
		p.AttachMs = p.MediaMs*5/10 + r.Intn(p.MediaMs*3/10)
	}
	paramKind := ""
	if f != nil && f.paramEveryKey {
		paramChanges, paramProb = true, 1
	}
	if f != nil && f.changesUntilPct != 0 {
		changesUntilNs = int64(p.MediaMs) * 1e6 * int64(f.changesUntilPct) / 100
	}
	if f != nil {
		paramKind = f.paramKind
	}
	singleChangeFromNs := int64(-1)
	if f != nil && f.singleChangePct != 0 {
		paramChanges, paramProb = true, 1
		changesUntilNs = int64(1) << 62
		singleChangeFromNs = int64(p.MediaMs) * 1e6 * int64(f.singleChangePct) / 100
	}
	singleChangeDone := false
	early := ""
	if f != nil && f.early != "" {
		early = f.early
		paramChanges = false // no change comes with a key frame
	}
	if f != nil && f.attachMs != 0 {
		p.AttachMs = f.attachMs
	}
	if f != nil && f.lag {
		p.Lag = h.SegCount + 2 + f.lagExtra
		if h.SegCount == 0 {
			p.Lag += 7
		}
	}
	next := func(v int64) int64 { return 1 + (v % 11) }
	changeParams := func(s *tstate, k int, kind string) {
		switch k {
		case kH264: // spsOf depends on the group of four ids, ppsOf on the id
			switch kind {
			case "pps", "vps":
				s.params.P = next(s.params.P)
			case "sps":
				s.params.S = (s.params.S + 4) % 12
			default:
				s.params.S, s.params.P = (s.params.S+4)%12, next(s.params.P)
			}
		case kH265:
			switch kind {
			case "pps":
				s.params.P = next(s.params.P)
			case "vps":
				s.params.V = next(s.params.V)
			case "sps":
				s.params.S = next(s.params.S)
			default:
				s.params = pset{next(s.params.S), next(s.params.P), next(s.params.V)}
			}
		default: // VP9: the key frame's header fields; AV1: the sequence header
			s.params = psetOfID(next(s.params.S))
		}
	}
	carryParams := func(a *auA, s *tstate, k int) {
		a.HasParams, a.Params = true, s.params.S
		if isNALKind(k) {
			if s.params.P != s.params.S {
				a.PPSx = s.params.P + 1
			}
			if k == kH265 && s.params.V != s.params.S {
				a.VPSx = s.params.V + 1
			}
		}
	}
	for i, t := range tracks {
		s := &st[i]
		s.params = psetOfID(t.Params0)
		switch t.Kind {
		case kH264, kH265, kVP9, kAV1:
			fps := []int64{25, 30, 50, 60}[r.Intn(4)]
			s.frameDur = 90000 / fps
			if r.Bool(1, 5) {
				s.frameDur = 3003
			}
			s.jitter = r.Bool(1, 4)
			if t.Reorder {
				s.jitter = false
				s.bf = 1 + r.Intn(2)
			}
			s.gop = []int{2, 3, 5, 8, 12}[r.Intn(5)]
			if f != nil && f.gop != 0 {
				s.gop = f.gop
			}
			s.sinceKey = r.Intn(s.gop + 1) // may start mid-GOP
			if s.sinceKey == 0 || t.Reorder {
				s.sinceKey = s.gop
			}
			s.dts = startSec * 90000
		case kAAC:
			s.frameDur = 1024
			s.dts = startSec * t.Rate
		case kOpus:
			s.frameDur = 960
			s.dts = startSec * 48000
		}
	}
	startNs := startSec * 1e9
	endNs := startNs + int64(p.MediaMs)*1e6
	nextID := int64(1)
	for {
		// the track whose media time is earliest, with some randomness (bursts, one ahead)
		ti := -1
		best := int64(1) << 62
		for i, t := range tracks {
			ns := tsNs(st[i].dts, t.Rate)
			if ns >= endNs {
				continue
			}
			if r.Bool(1, 5) {
				ns -= int64(r.Intn(100)) * 1e6
			}
			if ns < best {
				best, ti = ns, i
			}
		}
		if ti < 0 {
			break
		}
		t := tracks[ti]
		s := &st[ti]
		a := auA{Track: ti}
		switch t.Kind {
		case kH264, kH265, kVP9, kAV1:
			key := s.sinceKey >= s.gop && len(s.pendB) == 0 // (a GOP is closed: no B picture outstanding)
			if key {
				s.sinceKey = 0
			}
			s.sinceKey++
			a.RA = key
			a.NonIDR = !key
			if a.RA {
				rel := tsNs(s.dts, t.Rate) - startNs
				allowed := rel < changesUntilNs
				if singleChangeFromNs >= 0 {
					allowed = !singleChangeDone && rel >= singleChangeFromNs
					if allowed {
						singleChangeDone = true
						p.AttachMs = int(rel/1e6) + f.attachAfterChangeMs
					}
				}
				if paramChanges && allowed && r.Bool(1, paramProb) {
					kind := paramKind
					if kind == "" {
						kind = []string{"pps", "sps", "vps", "all"}[r.Intn(4)]
					}
					changeParams(s, t.Kind, kind)
				}
				carryParams(&a, s, t.Kind)
				s.keys++
				if s.noRepeat {
					// the parameter sets in force were sent ahead of this key frame, which does not repeat them
					s.noRepeat = false
					a.HasParams, a.Params, a.PPSx, a.VPSx = false, 0, 0, 0
				}
			}
			// (not before the first key frame: the muxer drops what precedes it, and its DTS extractor learns the
			// parameter sets from the access units it is given)
			if early != "" && !a.RA && isNALKind(t.Kind) && !t.Reorder && h.Variant != 1 && s.keys > 0 &&
				s.sinceKey >= s.gop && len(s.pendB) == 0 { // the next unit of this track is a key frame
				if rel := tsNs(s.dts, t.Rate) - startNs; rel < changesUntilNs {
					kind := paramKind
					if kind == "" {
						kind = []string{"pps", "sps", "vps", "all"}[rx.Intn(4)]
					}
					changeParams(s, t.Kind, kind)
					mode := early
					if mode == "own" && t.Kind == kH265 {
						// an H265 access unit without a slice is written as a sample: the muxer's DTS extractor accepts
						// it only under an SPS for which it returns the pts without reading a slice header
						if ro, _ := h265ReorderOf(s.params.S); ro != 0 || s.ownDone {
							mode = "trail"
						}
					}
					if mode == "own" {
						o := auA{Track: ti, PTS: s.dts, DTS: s.dts, ParamsOnly: true}
						carryParams(&o, s, t.Kind)
						if t.Kind == kH265 {
							o.NonIDR = true
							o.Units = []unitA{{ID: nextID}}
							nextID++
							s.dts += s.frameDur
							s.ownDone = true
						}
						o.NTP = p.NtpBase + tsNs(o.DTS, t.Rate)
						h.Ops = append(h.Ops, o)
					} else {
						carryParams(&a, s, t.Kind)
					}
					s.noRepeat = !f.earlyRepeat
				}
			}
			a.DTS = s.dts
			a.PTS = s.dts
			if t.Reorder {
				// presentation times follow the display order, units are written in decode order
				// (I0 P(k+1) B1 .. Bk P ..); pic_order_cnt_lsb = pocBase + 2 * display index; the written DTS is
				// what the generator's own instance of mediacommon's DTS extractor returns for the access unit
				fd := s.frameDur
				switch {
				case a.RA:
					base := a.PTS
					if s.havePTS && s.lastPTS+fd > base {
						base = s.lastPTS + fd
					}
					s.gopBase, s.disp = base, 0
					s.pocBase = 0
					if r.Bool(1, 4) {
						s.pocBase = 2 * r.Intn(32)
					}
					a.PTS, a.Poc = base, s.pocBase
				case len(s.pendB) > 0:
					dsp := s.pendB[0]
					s.pendB = s.pendB[1:]
					a.BSlice = true
					a.PTS, a.Poc = s.gopBase+int64(dsp)*fd, (s.pocBase+2*dsp)%64
				default:
					dsp := s.disp + 1 + r.Intn(s.bf+1)
					for i := s.disp + 1; i < dsp; i++ {
						s.pendB = append(s.pendB, i)
					}
					s.disp = dsp
					a.PTS, a.Poc = s.gopBase+int64(dsp)*fd, (s.pocBase+2*dsp)%64
				}
				if !s.havePTS || a.PTS > s.lastPTS {
					s.lastPTS, s.havePTS = a.PTS, true
				}
			}
			if t.Kind == kH265 {
				ro, tick := h265ReorderOf(s.params.S)
				typ := h265SliceType(nextID, a.RA)
				a.RpsArg = r.Intn(h265MaxRpsArg(typ, ro) + 1)
				a.PTS = a.DTS + int64(h265SamplesDiff(typ, ro, a.RpsArg))*tick
			}
			d := s.frameDur
			if s.jitter {
				d += int64(r.Intn(int(s.frameDur/2)+1)) - s.frameDur/4
			}
			s.dts += d
			ln := 10 + r.Intn(120)
			if r.Bool(1, 30) {
				ln = 300 + r.Intn(900)
			}
			a.Units = []unitA{{ID: nextID, Len: ln}}
			nextID++
			if t.Reorder && (s.ex != nil || a.RA) {
				if s.ex == nil {
					s.ex = &h264.DTSExtractor{}
					s.ex.Initialize()
				}
				c := concretize(h, &a)
				dts, err := s.ex.Extract(c.au, a.PTS)
				if err != nil {
					ok = false
				}
				a.DTS = dts
			}
		case kAAC:
			n := 1
			if r.Bool(1, 4) {
				n = 2 + r.Intn(3)
			}
			if f != nil && f.audioN != 0 {
				n = f.audioN
			}
			if !hasVideo && ti == 0 { // leading audio: keep one Write from spanning several segments
				if maxN := int(h.SegMin / (1024 * 1e9 / t.SRate)); n > maxN {
					n = maxN
				}
				if n < 1 {
					n = 1
				}
			}
			a.DTS, a.PTS = s.dts, s.dts
			a.RA = true
			for j := 0; j < n; j++ {
				a.Units = append(a.Units, unitA{ID: nextID, Len: 9 + r.Intn(60)})
				nextID++
			}
			s.dts += int64(n) * 1024 * t.Rate / t.SRate
		case kOpus:
			n := 1
			if r.Bool(1, 4) {
				n = 2 + r.Intn(3)
			}
			if !hasVideo && ti == 0 {
				if maxN := int(h.SegMin / 20e6); n > maxN {
					n = maxN
				}
				if n < 1 {
					n = 1
				}
			}
			a.DTS, a.PTS = s.dts, s.dts
			a.RA = true
			for j := 0; j < n; j++ {
				d := int64(960)
				if r.Bool(1, 5) {
					d = []int64{120, 240, 480, 960}[r.Intn(4)]
				}
				a.Units = append(a.Units, unitA{ID: nextID, Len: 10 + r.Intn(60), OpusDur: d})
				nextID++
				s.dts += d
			}
		}
		a.NTP = p.NtpBase + tsNs(a.DTS, t.Rate)
		h.Ops = append(h.Ops, a)
	}
	return p, ok
}

// tsNs converts a timestamp to nanoseconds without overflowing (truncating like Go's /)
func tsNs(ts, rate int64) int64 { return (ts/rate)*1e9 + (ts%rate)*1e9/rate }

func isNALKind(k int) bool { return k == kH264 || k == kH265 }
