package main

// Case files of the C09 tie (coq/Tie/E2ETie.v):
//   CSupport  codecparams.Marshal of a real muxer track and what the real checkSupport says about it
//   CPlan     the configuration and what the real Client reported in OnTracks (or "no variant")
//   CNorm     written dts -> delivered time of a few callbacks per track (the +10 s offset cancels)
//   CClient   the bodies the in-process transport actually served to the client (parsed with
//             mediacommon, playlists with the library's own decoder: oracles), per stream in request
//             order, and the callbacks the client made: the client model (Model/ClientTime.v) must
//             predict every callback (pts, dts, payload id, AbsoluteTime) as a prefix of its deliveries

import (
	"bytes"
	"errors"
	"fmt"
	"io"
	"os"
	"path/filepath"
	"regexp"
	"sort"
	"strings"
	"time"

	"github.com/asticode/go-astits"
	gohlslib "github.com/bluenviron/gohlslib/v2"
	"github.com/bluenviron/gohlslib/v2/pkg/playlist"
	"github.com/bluenviron/mediacommon/v2/pkg/formats/fmp4"
	"github.com/bluenviron/mediacommon/v2/pkg/formats/mpegts"

	"verifharness/internal/coqfmt"
)

type caseRef struct {
	Shard int    `json:"shard"`
	Index int    `json:"index"`
	Kind  string `json:"kind"`
	Pair  int    `json:"pair"`
	What  string `json:"what,omitempty"`
}

type shardWriter struct {
	dir     string
	idx     int
	inShard int
	bytes   int
	f       *os.File
	index   []caseRef
	seen    map[string]bool
	skipped map[string]int
}

func newShardWriter(dir string) *shardWriter {
	return &shardWriter{dir: dir, idx: -1, seen: map[string]bool{}, skipped: map[string]int{}}
}

func (w *shardWriter) close() {
	if w.f != nil {
		fmt.Fprintln(w.f, "].")
		fmt.Fprintln(w.f, "Definition M := Eval vm_compute in mismatches cases.")
		fmt.Fprintln(w.f, "Print M.")
		w.f.Close()
		w.f = nil
	}
}

func (w *shardWriter) add(term string, kind string, pair int, what string) {
	if w.f == nil || w.inShard >= 250 || w.bytes > 1200000 {
		w.close()
		w.idx++
		w.inShard, w.bytes = 0, 0
		f, err := os.Create(filepath.Join(w.dir, fmt.Sprintf("cases_%d.v", w.idx)))
		if err != nil {
			panic(err)
		}
		w.f = f
		fmt.Fprintln(f, "From Coq Require Import List ZArith String Uint63.")
		fmt.Fprintln(f, "From GoHls Require Import Model.ClientTime Tie.ClientTimeTie Tie.E2ETie.")
		fmt.Fprintln(f, "Import ListNotations. Open Scope Z_scope.")
		fmt.Fprintln(f, "Definition cases : list ccase := [")
	}
	if w.inShard > 0 {
		fmt.Fprintln(w.f, ";")
	}
	fmt.Fprint(w.f, term)
	w.bytes += len(term)
	w.index = append(w.index, caseRef{Shard: w.idx, Index: w.inShard, Kind: kind, Pair: pair, What: what})
	w.inShard++
}

func zlit(v int64) string {
	switch {
	case v >= 0:
		return fmt.Sprintf("(zi %d)", v)
	case v == -v:
		return coqfmt.Z(v)
	default:
		return fmt.Sprintf("(zn %d)", -v)
	}
}

func optZ(has bool, v int64) string {
	if !has {
		return "None"
	}
	return "(Some " + zlit(v) + ")"
}

func nameCode(s string, id string) int64 {
	switch {
	case s == "":
		return -1
	case s == id:
		return 0
	case strings.HasPrefix(s, "name"):
		var v int64
		fmt.Sscanf(s[4:], "%d", &v)
		return v
	}
	return -2
}

func langCode(s string) int64 {
	if s == "" {
		return 0
	}
	var v int64
	fmt.Sscanf(strings.TrimPrefix(s, "l"), "%d", &v)
	return v
}

func coqCfg(h *history) string {
	var ts []string
	for _, t := range h.Tracks {
		ts = append(ts, fmt.Sprintf("(%d, %d, %d, %d, %d, %s, %d)", t.Kind, t.Rate, t.SRate, t.Name, t.Lang, coqfmt.Bool(t.Default), t.Params0))
	}
	return fmt.Sprintf("(mkcfg %d %s %d %d %d)", h.Variant, coqfmt.List(ts), h.SegCount, h.SegMin, h.PartMin)
}

// payload id carried by the bytes of one sample / frame / packet
func sampleID(kind int, payload []byte) int64 {
	switch kind {
	case kH264:
		return avccID(payload, 1)
	case kH264R:
		return avccID(payload, 1+h264SliceHdrLen)
	case kH265:
		return h265SampleID(payload)
	case kVP9:
		return vp9FrameID(payload)
	case kAV1:
		return av1SampleID(payload)
	case kOpus:
		if len(payload) > 1 {
			return decID(payload[1:])
		}
		return -1
	}
	return decID(payload)
}

func avccID(payload []byte, off int) int64 {
	pos := 0
	for pos+4 <= len(payload) {
		n := int(payload[pos])<<24 | int(payload[pos+1])<<16 | int(payload[pos+2])<<8 | int(payload[pos+3])
		pos += 4
		if n <= 0 || pos+n > len(payload) {
			break
		}
		nalu := payload[pos : pos+n]
		if typ := nalu[0] & 0x1F; typ == 5 || typ == 1 {
			if len(nalu) < off {
				return -1
			}
			return decID(nalu[off:])
		}
		pos += n
	}
	return -1
}

// id of a delivered callback (video: the slice / frame; audio: the first element)
func callbackID(kind int, data [][]byte) int64 {
	switch kind {
	case kH264, kH264R:
		off := 1
		if kind == kH264R {
			off = 1 + h264SliceHdrLen
		}
		for _, n := range data {
			if len(n) >= off && (n[0]&0x1f == 5 || n[0]&0x1f == 1) {
				return decID(n[off:])
			}
		}
		return -1
	case kH265:
		for _, n := range data {
			if len(n) > 2+h265SliceHdrLen && (n[0]>>1)&0x3f < 32 {
				return decID(n[2+h265SliceHdrLen:])
			}
		}
		return -1
	case kVP9:
		if len(data) == 1 {
			return vp9FrameID(data[0])
		}
		return -1
	case kAV1:
		var bs []byte
		for _, o := range data {
			bs = append(bs, av1WithSize(o)...)
		}
		return av1SampleID(bs)
	}
	if len(data) == 0 {
		return -1
	}
	return sampleID(kind, data[0])
}

var reBody = regexp.MustCompile(`^[0-9a-f]{12}_(video\d+|audio\d+|main)_(seg|part)(\d+)\.(mp4|ts)$`)
var reInitP = regexp.MustCompile(`^[0-9a-f]{12}_(video\d+|audio\d+|main)_init\.mp4$`)
var rePlaylist = regexp.MustCompile(`^(video\d+|audio\d+|main)_stream\.m3u8$`)

type body struct {
	path    string
	data    []byte
	hasDate bool
	date    int64
}

type streamLog struct {
	id     string
	init   []byte
	bodies []body
}

func stripQuery(u string) string {
	if i := strings.IndexByte(u, '?'); i >= 0 {
		return u[:i]
	}
	return u
}

// per stream: what the client downloaded, in request order, with the date the client attached to it
// (segment: EXT-X-PROGRAM-DATE-TIME of its playlist entry; part: date of the preload hint, i.e. the last
// segment's date + its duration + the durations of the parts listed after it), from the latest playlist of
// that stream served before the request
func streamLogs(cr *clientRun) map[string]*streamLog {
	out := map[string]*streamLog{}
	lastPl := map[string]*playlist.Media{}
	get := func(id string) *streamLog {
		if out[id] == nil {
			out[id] = &streamLog{id: id}
		}
		return out[id]
	}
	for _, e := range cr.Reqs {
		if !e.Done || (e.Status != 200 && e.Status != 206) {
			continue
		}
		if m := rePlaylist.FindStringSubmatch(e.Path); m != nil {
			pl, err := playlist.Unmarshal(e.Body)
			if err == nil {
				if mp, ok := pl.(*playlist.Media); ok {
					lastPl[m[1]] = mp
				}
			}
			get(m[1])
			continue
		}
		if m := reInitP.FindStringSubmatch(e.Path); m != nil {
			get(m[1]).init = e.Body
			continue
		}
		if m := reBody.FindStringSubmatch(e.Path); m != nil {
			b := body{path: e.Path, data: e.Body}
			if pl := lastPl[m[1]]; pl != nil {
				if m[2] == "seg" {
					for _, s := range pl.Segments {
						if stripQuery(s.URI) == e.Path && s.DateTime != nil {
							b.hasDate, b.date = true, s.DateTime.UnixNano()
						}
					}
				} else if pl.PreloadHint != nil && stripQuery(pl.PreloadHint.URI) == e.Path && len(pl.Segments) > 0 {
					last := pl.Segments[len(pl.Segments)-1]
					if last.DateTime != nil {
						d := last.DateTime.Add(last.Duration)
						for _, p := range pl.Parts {
							d = d.Add(p.Duration)
						}
						b.hasDate, b.date = true, d.UnixNano()
					}
				}
			}
			sl := get(m[1])
			sl.bodies = append(sl.bodies, b)
		}
	}
	return out
}

type tsEmitted struct {
	track  int
	rawPTS int64
	rawDTS int64
	id     int64
	seg    int
}

type swReader struct{ r io.Reader }

func (s *swReader) Read(p []byte) (int, error) { return s.r.Read(p) }

// the callbacks of mediacommon's mpegts.Reader over the downloaded segments, the source switched per
// segment as the Client does (the demultiplexer is an oracle: which PES is complete when is its business)
func tsParse(h *history, bodies []body) (kinds []int, out []tsEmitted, err error) {
	sw := &swReader{r: bytes.NewReader(bodies[0].data)}
	rd := &mpegts.Reader{R: sw}
	if err := rd.Initialize(); err != nil {
		return nil, nil, err
	}
	cur := 0
	sup := 0
	for _, tr := range rd.Tracks() {
		tr := tr
		switch tr.Codec.(type) {
		case *mpegts.CodecH264:
			idx := sup
			sup++
			kinds = append(kinds, kH264)
			rd.OnDataH264(tr, func(pts int64, dts int64, au [][]byte) error {
				out = append(out, tsEmitted{track: idx, rawPTS: pts, rawDTS: dts, id: callbackID(idKindOf(h, kH264), au), seg: cur})
				return nil
			})
		case *mpegts.CodecMPEG4Audio:
			idx := sup
			sup++
			kinds = append(kinds, kAAC)
			rd.OnDataMPEG4Audio(tr, func(pts int64, aus [][]byte) error {
				out = append(out, tsEmitted{track: idx, rawPTS: pts, rawDTS: pts, id: callbackID(kAAC, aus), seg: cur})
				return nil
			})
		}
	}
	rd.OnDecodeError(func(error) {})
	for i := range bodies {
		if i > 0 {
			sw.r = bytes.NewReader(bodies[i].data)
		}
		cur = i
		for {
			err := rd.Read()
			if err != nil {
				if errors.Is(err, astits.ErrNoMorePackets) {
					break
				}
				return nil, nil, err
			}
		}
	}
	return kinds, out, nil
}

func coqObs(h *history, cr *clientRun) (string, string) {
	var ts, os_ []string
	for _, t := range cr.Tracks {
		ts = append(ts, fmt.Sprintf("(%s, %s)", zlit(t.ClockRate), coqfmt.Bool(isVideoKind(t.Kind))))
		var us []string
		for _, u := range t.Units {
			us = append(us, fmt.Sprintf("Build_obsUnit %s %s %s %s", zlit(u.PTS), optZ(u.HasDTS, u.DTS), optZ(u.HasAbs, u.Abs), zlit(callbackID(idKindOf(h, t.Kind), u.Data))))
		}
		os_ = append(os_, coqfmt.List(us))
	}
	return coqfmt.List(ts), coqfmt.List(os_)
}

// the client's streams in its own order: the leading stream, then the renditions with a URI
func clientStreamIDs(p *pairDesc, cr *clientRun) []string {
	h := &p.H
	if h.Variant == 1 {
		return []string{"main"}
	}
	if p.Target != "index" {
		var ti int
		fmt.Sscanf(p.Target, "media:%d", &ti)
		return []string{streamIDOf(h, ti)}
	}
	exp, _, perr := expectedTracks(p, cr)
	if perr != "" {
		return nil
	}
	var out []string
	for _, e := range exp {
		out = append(out, streamIDOf(h, e.mux))
	}
	return out
}

func emitClientCase(w *shardWriter, res *pairResult, cr *clientRun) {
	p := res.Desc
	h := &p.H
	ids := clientStreamIDs(p, cr)
	if ids == nil {
		w.skipped["client:index-unreadable"]++
		return
	}
	// a client that runs wild (e.g. re-downloads the same segments in a loop) is the oracle's business; a case
	// file of that size only stalls the evaluation (normal clients: < 200 requests, < 1000 callbacks)
	nUnits := 0
	for _, t := range cr.Tracks {
		nUnits += len(t.Units)
	}
	if len(cr.Reqs) > 800 || nUnits > 5000 {
		w.skipped["client:too-large"]++
		return
	}
	logs := streamLogs(cr)
	tracks, obs := coqObs(h, cr)
	what := fmt.Sprintf("pair %d client %d", p.ID, cr.Attempt)
	if h.Variant == 1 {
		sl := logs["main"]
		if sl == nil || len(sl.bodies) == 0 {
			w.skipped["client:nothing-downloaded"]++
			return
		}
		kinds, em, err := tsParse(h, sl.bodies)
		if err != nil {
			w.skipped["client:ts-parse"]++
			return
		}
		var tr []string
		for _, k := range kinds {
			if k == kH264 {
				tr = append(tr, "MH264")
			} else {
				tr = append(tr, "MAudio")
			}
		}
		var segs []string
		for i, b := range sl.bodies {
			var ps []string
			for _, e := range em {
				if e.seg == i {
					ps = append(ps, fmt.Sprintf("Build_pes %d%%nat %s %s %s 0 0%%nat", e.track, zlit(e.rawPTS), zlit(e.rawDTS), zlit(e.id)))
				}
			}
			segs = append(segs, fmt.Sprintf("Build_msegment %s %s", optZ(b.hasDate, b.date), coqfmt.List(ps)))
		}
		st := fmt.Sprintf("(Build_mstream %s\n [%s])", coqfmt.List(tr), strings.Join(segs, ";\n  "))
		w.add(fmt.Sprintf("CClient (EM %s\n [] %s\n %s 0)", st, tracks, obs), "client", p.ID, what)
		return
	}
	var streams []string
	for si, id := range ids {
		sl := logs[id]
		if sl == nil || sl.init == nil {
			if si == 0 {
				w.skipped["client:nothing-downloaded"]++
				return
			}
			// a rendition that did not get as far as its init: it contributes no track
			w.skipped["client:rendition-without-init"]++
			return
		}
		var init fmp4.Init
		if err := init.Unmarshal(bytes.NewReader(sl.init)); err != nil {
			w.skipped["client:init-parse"]++
			return
		}
		var its []string
		kindOfID := map[int]int{}
		leadID := -1
		for _, t := range init.Tracks {
			its = append(its, fmt.Sprintf("Build_initTrack %d %d %s", t.ID, t.TimeScale, coqfmt.Bool(t.Codec.IsVideo())))
			var ti int
			fmt.Sscanf(strings.TrimLeft(id, "videoaudio"), "%d", &ti)
			kindOfID[t.ID] = idKindOf(h, h.Tracks[ti-1].Kind)
			if leadID < 0 {
				leadID = t.ID
			}
		}
		var segs []string
		for _, b := range sl.bodies {
			var parts fmp4.Parts
			if err := parts.Unmarshal(b.data); err != nil {
				break // the stream processor returns the error here
			}
			hasLead, hasTracks := false, false
			var ps []string
			for _, pt := range parts {
				var pts []string
				for _, tr := range pt.Tracks {
					hasTracks = true
					if tr.ID == leadID {
						hasLead = true
					}
					var ss []string
					for _, sm := range tr.Samples {
						ss = append(ss, fmt.Sprintf("Build_sample %s %s %s 0", zlit(int64(sm.Duration)), zlit(int64(sm.PTSOffset)), zlit(sampleID(kindOfID[tr.ID], sm.Payload))))
					}
					pts = append(pts, fmt.Sprintf("Build_partTrack %d %s %s 0%%nat", tr.ID, zlit(int64(tr.BaseTime)), coqfmt.List(ss)))
				}
				ps = append(ps, coqfmt.List(pts))
			}
			if hasTracks && !hasLead {
				break // "could not find data of leading track": nothing of this body is delivered
			}
			// a body without any track is handed to the model as it is: Model/E2E.v client_view decides
			// whether the stream processor skips it (fixes d590576 + c9db2ec)
			segs = append(segs, fmt.Sprintf("Build_segment %s %s", optZ(b.hasDate, b.date), coqfmt.List(ps)))
		}
		streams = append(streams, fmt.Sprintf("(Build_stream %s\n [%s])", coqfmt.List(its), strings.Join(segs, ";\n  ")))
	}
	w.add(fmt.Sprintf("CClient (EF %s\n %s\n %s\n %s 0)", streams[0], coqfmt.List(streams[1:]), tracks, obs), "client", p.ID, what)
}

func emitCases(w *shardWriter, res *pairResult, rj *resultJSON) {
	p := res.Desc
	h := &p.H
	// CSupport
	for i, s := range res.MuxCodecs {
		key := fmt.Sprintf("sup|%d|%s", h.Tracks[i].Kind, s)
		if w.seen[key] {
			continue
		}
		w.seen[key] = true
		w.add(fmt.Sprintf("CSupport %d %s %s", h.Tracks[i].Kind, coqfmt.Str(s), coqfmt.Bool(gohlslib.VerifCheckSupport([]string{s}))),
			"support", p.ID, fmt.Sprintf("%s %q", kindNames[h.Tracks[i].Kind], s))
	}
	for _, cr := range res.Clients {
		novariant := strings.Contains(cr.Outcome, "no variants with supported codecs found")
		if !cr.TracksReported && !novariant {
			continue
		}
		// CPlan
		var ts []string
		if cr.TracksReported {
			ids := clientStreamIDs(p, cr)
			for j, t := range cr.Tracks {
				sid := ""
				if ids != nil && h.Variant != 1 && j < len(ids) {
					sid = ids[j]
				}
				ts = append(ts, fmt.Sprintf("(%d, %d, %s, %d, %s)", t.Kind, t.ClockRate, coqfmt.Z(nameCode(t.Name, sid)), langCode(t.Lang), coqfmt.Bool(t.Default)))
			}
		}
		target := 0
		if p.Target != "index" {
			fmt.Sscanf(p.Target, "media:%d", &target)
		}
		term := fmt.Sprintf("CPlan %s %s %d%%nat %s %s", coqCfg(h), coqfmt.Bool(p.Target == "index"), target, coqfmt.Bool(novariant), coqfmt.List(ts))
		if !w.seen["plan|"+term] {
			w.seen["plan|"+term] = true
			w.add(term, "plan", p.ID, fmt.Sprintf("pair %d client %d", p.ID, cr.Attempt))
		}
		if !cr.TracksReported {
			continue
		}
		emitNormCases(w, res, cr)
		emitClientCase(w, res, cr)
	}
}

// CNorm: first, last and a few evenly spaced callbacks per track
func emitNormCases(w *shardWriter, res *pairResult, cr *clientRun) {
	p := res.Desc
	h := &p.H
	exp, _, perr := expectedTracks(p, cr)
	if perr != "" || len(exp) != len(cr.Tracks) {
		return
	}
	find := func(mux int, kind int, u *cbUnit) *written {
		id := callbackID(idKindOf(h, kind), u.Data)
		ws := res.Written[mux]
		i := sort.Search(len(ws), func(i int) bool { return ws[i].ID >= id })
		if i < len(ws) && ws[i].ID == id {
			return &ws[i]
		}
		return nil
	}
	lead := 0
	for j, e := range exp {
		if isVideoKind(h.Tracks[e.mux].Kind) {
			lead = j
			break
		}
	}
	if len(cr.Tracks[lead].Units) == 0 {
		return
	}
	le := exp[lead]
	w0 := find(le.mux, h.Tracks[le.mux].Kind, &cr.Tracks[lead].Units[0])
	if w0 == nil {
		return
	}
	rl := h.Tracks[le.mux].Rate
	for j, e := range exp {
		kind := h.Tracks[e.mux].Kind
		us := cr.Tracks[j].Units
		if len(us) == 0 {
			continue
		}
		picks := map[int]bool{0: true, len(us) - 1: true}
		for k := 1; k <= 4; k++ {
			picks[k*(len(us)-1)/5] = true
		}
		var ks []int
		for k := range picks {
			ks = append(ks, k)
		}
		sort.Ints(ks)
		for _, k := range ks {
			u := &us[k]
			wu := find(e.mux, kind, u)
			if wu == nil {
				continue
			}
			got, d := u.PTS, wu.PTS
			if u.HasDTS {
				got, d = u.DTS, wu.DTS
			} else if kind == kH265 {
				continue
			}
			w.add(fmt.Sprintf("CNorm %s %s %s %s %s %s", coqfmt.Bool(h.Variant == 1), zlit(h.Tracks[e.mux].Rate), zlit(rl), zlit(d), zlit(w0.DTS), zlit(got)),
				"norm", p.ID, fmt.Sprintf("pair %d client %d track %d callback %d", p.ID, cr.Attempt, j, k))
		}
	}
}

var _ = time.Now
