package main

// Abstract histories (the cfg / au of Model/Mux.v) and their concretisation into real access units.
// Copied from harness/cmd/mux (gen.go types, run.go concretize / mkTracks) so that the end-to-end
// check writes exactly the kind of units the muxer checks C01-C05 are tied on; codecs.go is a
// verbatim copy of harness/cmd/mux/codecs.go.

import (
	"strconv"

	gohlslib "github.com/bluenviron/gohlslib/v2"
	"github.com/bluenviron/gohlslib/v2/pkg/codecs"
	"github.com/bluenviron/mediacommon/v2/pkg/codecs/mpeg4audio"
)

const (
	kH264 = 1
	kH265 = 2
	kVP9  = 3
	kAV1  = 4
	kAAC  = 5
	kOpus = 6
)

var kindNames = map[int]string{kH264: "h264", kH265: "h265", kVP9: "vp9", kAV1: "av1", kAAC: "aac", kOpus: "opus"}

type tcfgA struct {
	Kind    int   `json:"kind"`
	Rate    int64 `json:"rate"`
	SRate   int64 `json:"srate"`
	Name    int   `json:"name"`
	Lang    int   `json:"lang"`
	Default bool  `json:"default"`
	Params0 int64 `json:"params0"`
	Reorder bool  `json:"reorder,omitempty"` // H264 only: pic_order_cnt_type 0 SPS, real slice headers, B pictures (h264.go)
}

type unitA struct {
	ID      int64 `json:"id"`
	Len     int   `json:"len"`
	OpusDur int64 `json:"opusdur,omitempty"`
}

type auA struct {
	Track     int     `json:"track"`
	PTS       int64   `json:"pts"`
	DTS       int64   `json:"dts"`
	NTP       int64   `json:"ntp"`
	RA        bool    `json:"ra"`
	NonIDR    bool    `json:"nonidr"`
	HasParams bool    `json:"hasparams,omitempty"`
	Params    int64   `json:"params,omitempty"` // id of the parameters (H264 / H265: of the SPS)
	PPSx      int64   `json:"ppsx,omitempty"`   // H264 / H265: 1 + id of the PPS when it differs from Params (0: same id)
	VPSx      int64   `json:"vpsx,omitempty"`   // H265: 1 + id of the VPS when it differs from Params
	RpsArg    int     `json:"rpsarg,omitempty"`
	Poc       int     `json:"poc,omitempty"`    // H264 with reordering: pic_order_cnt_lsb of the slice header
	BSlice    bool    `json:"bslice,omitempty"` // H264 with reordering: a B slice
	// H264 / H265: an access unit made of the parameter sets alone (sent ahead of the IDR they apply to). H264: no
	// unit (the muxer takes the parameter sets and writes nothing); H265: one unit, written as a sample of its own
	ParamsOnly bool `json:"paramsonly,omitempty"`
	Units     []unitA `json:"units"`
}

type history struct {
	Variant  int     `json:"variant"` // 1 mpegts 2 fmp4 3 ll
	SegCount int     `json:"segcount"`
	SegMin   int64   `json:"segmin"`
	PartMin  int64   `json:"partmin"`
	Tracks   []tcfgA `json:"tracks"`
	Ops      []auA   `json:"ops"`
}

// pset: which variant of each parameter set is in force (H264: S, P; H265: S, P, V; VP9 / AV1: S)
type pset struct{ S, P, V int64 }

func psetOfID(id int64) pset { return pset{id, id, id} }

func (a *auA) pset() pset {
	ps := psetOfID(a.Params)
	if a.PPSx != 0 {
		ps.P = a.PPSx - 1
	}
	if a.VPSx != 0 {
		ps.V = a.VPSx - 1
	}
	return ps
}

func isVideoKind(k int) bool { return k >= kH264 && k <= kAV1 }

func variantName(v int) string { return map[int]string{1: "mpegts", 2: "fmp4", 3: "ll"}[v] }

// baseline profile, pic_order_cnt_type 2 (dts = pts); byte 3 is level_idc
var baseSPS = []byte{
	0x67, 0x42, 0xc0, 0x28, 0xd9, 0x00, 0x78, 0x02,
	0x27, 0xe5, 0x84, 0x00, 0x00, 0x03, 0x00, 0x04,
	0x00, 0x00, 0x03, 0x00, 0xf0, 0x3c, 0x60, 0xc9,
	0x20,
}

func spsOfT(t tcfgA, p int64) []byte {
	if t.Reorder {
		return h264ReorderSPS(p)
	}
	return spsOf(p)
}

func spsOf(p int64) []byte {
	s := append([]byte{}, baseSPS...)
	levels := []byte{0x28, 0x29, 0x2a}
	s[3] = levels[(p/4)%3]
	return s
}
func ppsOf(p int64) []byte { return []byte{0x68, 0x10 + byte(p)} }

func encID(id int64) []byte {
	b := make([]byte, 8)
	for i := 7; i >= 0; i-- {
		b[i] = byte(id%250) + 1
		id /= 250
	}
	return b
}
func decID(b []byte) int64 {
	if len(b) < 8 {
		return -1
	}
	var id int64
	for i := 0; i < 8; i++ {
		id = id*250 + int64(b[i]) - 1
	}
	return id
}

func fill(id int64, n int) []byte {
	// n bytes, none of them zero (no start-code emulation), deterministic from id
	if n < 8 {
		n = 8
	}
	out := append([]byte{}, encID(id)...)
	x := uint64(id)*0x9E3779B97F4A7C15 + 1
	for len(out) < n {
		x ^= x << 13
		x ^= x >> 7
		x ^= x << 17
		out = append(out, byte(x%255)+1)
	}
	return out
}

// written is one unit the harness handed to the muxer (the oracle's ground truth): for video one
// access unit / frame / temporal unit, for audio ONE access unit / packet of a Write call.
type written struct {
	Op    int      `json:"op"`    // index of the Write call
	Track int      `json:"track"` // muxer track index
	ID    int64    `json:"id"`
	PTS   int64    `json:"pts"` // in the muxer track's ClockRate
	DTS   int64    `json:"dts"`
	NTP   int64    `json:"ntp"` // ns since the Unix epoch, as handed over (audio: as the muxer derives it for the i-th unit)
	RA    bool     `json:"ra"`
	Atoms [][]byte `json:"-"` // the bytes: NALUs / OBUs (low-overhead form) / the frame / the AU / the packet
}

type concrete struct {
	au    [][]byte
	units []written
}

func concretize(h *history, a *auA) concrete {
	t := h.Tracks[a.Track]
	var c concrete
	switch t.Kind {
	case kH264:
		var au [][]byte
		if a.HasParams {
			au = append(au, spsOfT(t, a.pset().S), ppsOf(a.pset().P))
		}
		if a.ParamsOnly {
			c.au = au
			break
		}
		u := a.Units[0]
		switch {
		case t.Reorder:
			au = append(au, h264SliceNALU(a, u, a.RA))
		case a.RA:
			au = append(au, append([]byte{0x65}, fill(u.ID, u.Len)...))
		case a.NonIDR:
			au = append(au, append([]byte{0x41}, fill(u.ID, u.Len)...))
		}
		c.au = au
		c.units = []written{{Track: a.Track, ID: u.ID, PTS: a.PTS, DTS: a.DTS, NTP: a.NTP, RA: a.RA, Atoms: au}}
	case kH265:
		var au [][]byte
		if a.HasParams {
			au = append(au, h265VPSOf(a.pset().V), h265SPSOf(a.pset().S), h265PPSOf(a.pset().P))
		}
		u := a.Units[0]
		if !a.ParamsOnly {
			au = append(au, h265Slice(h265SliceType(u.ID, a.RA), u.ID, u.Len, a.RpsArg))
		}
		c.au = au
		c.units = []written{{Track: a.Track, ID: u.ID, PTS: a.PTS, DTS: a.DTS, NTP: a.NTP, RA: a.RA, Atoms: au}}
	case kVP9:
		u := a.Units[0]
		frame := append(vp9FrameHeader(a.Params, a.RA), fill(u.ID, u.Len)...)
		if !a.RA {
			frame = append(vp9FrameHeader(u.ID%12, false), fill(u.ID, u.Len)...)
		}
		c.au = [][]byte{frame}
		c.units = []written{{Track: a.Track, ID: u.ID, PTS: a.PTS, DTS: a.DTS, NTP: a.NTP, RA: a.RA, Atoms: [][]byte{frame}}}
	case kAV1:
		u := a.Units[0]
		var tu [][]byte
		if u.ID%3 == 0 {
			tu = append(tu, av1OBU(av1OBUTD, u.ID%2 == 0, nil))
		}
		if a.RA {
			tu = append(tu, av1SeqHdrOf(a.Params))
		}
		tu = append(tu, av1OBU(av1OBUFrame, u.ID%4 < 2, fill(u.ID, u.Len)))
		c.au = tu
		c.units = []written{{Track: a.Track, ID: u.ID, PTS: a.PTS, DTS: a.DTS, NTP: a.NTP, RA: a.RA, Atoms: tu}}
	case kAAC:
		for i, u := range a.Units {
			p := fill(u.ID, u.Len)
			c.au = append(c.au, p)
			upts := a.PTS + int64(i)*1024*t.Rate/t.SRate
			untp := a.NTP + int64(i)*1024*1e9/t.SRate
			c.units = append(c.units, written{Track: a.Track, ID: u.ID, PTS: upts, DTS: upts, NTP: untp, RA: true, Atoms: [][]byte{p}})
		}
	case kOpus:
		pts, ntp := a.PTS, a.NTP
		for _, u := range a.Units {
			toc := map[int64]byte{120: 0xE0, 240: 0xE8, 480: 0xF0, 960: 0xF8}[u.OpusDur]
			p := append([]byte{toc}, fill(u.ID, u.Len)...)
			c.au = append(c.au, p)
			c.units = append(c.units, written{Track: a.Track, ID: u.ID, PTS: pts, DTS: pts, NTP: ntp, RA: true, Atoms: [][]byte{p}})
			pts += u.OpusDur
			ntp += u.OpusDur * 1e9 / 48000
		}
	}
	return c
}

func mkCodec(t tcfgA, params int64) codecs.Codec { return mkCodecP(t, psetOfID(params)) }

func mkCodecP(t tcfgA, ps pset) codecs.Codec {
	params := ps.S
	switch t.Kind {
	case kH264:
		return &codecs.H264{SPS: spsOfT(t, ps.S), PPS: ppsOf(ps.P)}
	case kH265:
		return &codecs.H265{VPS: h265VPSOf(ps.V), SPS: h265SPSOf(ps.S), PPS: h265PPSOf(ps.P)}
	case kVP9:
		v := vp9ParamsOf(params)
		return &codecs.VP9{Width: v.w, Height: v.h, Profile: v.profile, BitDepth: v.bitDepth,
			ChromaSubsampling: v.subsampling, ColorRange: v.colorRange}
	case kAV1:
		return &codecs.AV1{SequenceHeader: av1SeqHdrOf(params)}
	case kAAC:
		return &codecs.MPEG4Audio{Config: mpeg4audio.Config{Type: 2, SampleRate: int(t.SRate), ChannelCount: 2}}
	case kOpus:
		return &codecs.Opus{ChannelCount: 2}
	}
	return nil
}

func nameOf(code int) string {
	if code == 0 {
		return ""
	}
	return "name" + strconv.Itoa(code)
}
func langOf(code int) string {
	if code == 0 {
		return ""
	}
	return "l" + strconv.Itoa(code)
}

func mkTracks(h *history) []*gohlslib.Track {
	var out []*gohlslib.Track
	for _, t := range h.Tracks {
		out = append(out, &gohlslib.Track{ClockRate: int(t.Rate), IsDefault: t.Default,
			Name: nameOf(t.Name), Language: langOf(t.Lang), Codec: mkCodec(t, t.Params0)})
	}
	return out
}

func variantOf(v int) gohlslib.MuxerVariant {
	switch v {
	case 1:
		return gohlslib.MuxerVariantMPEGTS
	case 2:
		return gohlslib.MuxerVariantFMP4
	}
	return gohlslib.MuxerVariantLowLatency
}
