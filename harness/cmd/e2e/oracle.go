package main

// Property oracle of C09, written from the property text over (written log, delivered log).
//
// What is demanded, clause by clause (nothing else raises an alarm):
//   T  tracks: a client that obtained the primary playlist reports tracks (a client error that is not a
//      scheduling matter - too few segments listed yet, next segment not ready, playback too late, closed
//      by the harness - before OnTracks means it does not); the reported tracks are the muxer's tracks
//      reachable from the playlist it was pointed at, in the muxer's order (the leading stream first for
//      the fMP4 variants): same codec type, clock rate = the muxer track's ClockRate (90000 for MPEG-TS),
//      for the fMP4 variants codec parameters equal to a set the muxer held between the opening of the first part /
//      segment of that track the client downloaded and the moment the client had the init (see paramWindow;
//      parameter sets sent ahead of the key frame they apply to replace the previous set at that key frame:
//      until then both are the muxer's, see paramAt.Eff),
//      and for every track the muxer advertised as an audio rendition (EXT-X-MEDIA in the index.m3u8 the
//      stub served to this very client) the advertised NAME / LANGUAGE / DEFAULT.
//   U  units: every callback's payload is byte-identical to written units of that track (video: the
//      NALUs / OBUs / frame of one Write; audio: each element is one access unit / packet; container
//      framing is not payload: the access unit delimiter NALU the MPEG-TS writer inserts is ignored, AV1
//      OBUs are compared in the low-overhead form, i.e. with their size field, in which MP4 stores them),
//      each written unit at most once, in writing order, and for the MPEG-TS and fMP4 variants the
//      delivered units of a track are consecutive written units (histories contain no unit the muxer
//      drops in mid-stream), also across the segments it downloaded: a client that fell behind so far that
//      the segment after its last one has left the playlist (pairs with Lag) may stop, it must not skip.
//   P  PTS (and DTS where the callback has one) = (written - written DTS of the first delivered unit of
//      the client's leading track), as exact rationals in seconds, times the reported clock rate, +-1 tick.
//   A  AbsoluteTime, when available, = NTP written with the unit, within [-(1 ms + e), +e], e = 2 ticks
//      + 2 ns (+ 0.32 ms for Low-Latency, where the date of a part is the sum of up to 32 durations the
//      playlist prints with 10 us resolution). The harness writes ntp = base + dts / rate for EVERY unit
//      (checked on its own log), so "NTP written with the first unit of the unit's segment + DTS distance"
//      is the unit's own written NTP up to 2 ns, whichever segment start the client anchored on; segment
//      boundaries are therefore not needed.
// Not demanded by the text, only counted: how a client ends after OnTracks (it is cut by Close, or dies
// of "next segment not found" when the writer stops, or of any other error).

import (
	"bytes"
	"crypto/sha256"
	"fmt"
	"math/big"
	"regexp"
	"sort"
	"strings"

	"github.com/bluenviron/mediacommon/v2/pkg/formats/fmp4"
)

type failure struct {
	Signature string      `json:"signature"`
	What      string      `json:"what"`
	Input     interface{} `json:"input"`
	size      int
}

type oracleStats struct {
	observations []string
	unitsChecked int
	paramsChecked   int
	paramsUnchecked int
	ptsChecked   int
	absChecked   int
	tracksOK     int
	outcomes     map[string]int
}

var reDigits = regexp.MustCompile(`[0-9]+`)
var reHex12 = regexp.MustCompile(`[0-9a-f]{12}_`)

func errClass(s string) string {
	s = reHex12.ReplaceAllString(s, "")
	s = reDigits.ReplaceAllString(s, "#")
	s = strings.ReplaceAll(s, " ", "-")
	if len(s) > 70 {
		s = s[:70]
	}
	return s
}

// ---- a small independent reader for the two tags of the multivariant playlist the oracle needs ----

type advRendition struct {
	name, lang string
	def        bool
	uri        string
	hasURI     bool
}

type advIndex struct {
	variantURI string
	codecs     []string
	renditions []advRendition
}

func parseAttrList(s string) map[string]string {
	out := map[string]string{}
	for len(s) > 0 {
		eq := strings.IndexByte(s, '=')
		if eq < 0 {
			break
		}
		k := s[:eq]
		s = s[eq+1:]
		var v string
		if strings.HasPrefix(s, "\"") {
			end := strings.IndexByte(s[1:], '"')
			if end < 0 {
				break
			}
			v = s[1 : 1+end]
			s = s[2+end:]
		} else {
			end := strings.IndexByte(s, ',')
			if end < 0 {
				end = len(s)
			}
			v = s[:end]
			s = s[end:]
		}
		out[k] = v
		s = strings.TrimPrefix(s, ",")
	}
	return out
}

func parseIndex(body string) *advIndex {
	ix := &advIndex{}
	lines := strings.Split(strings.ReplaceAll(body, "\r", ""), "\n")
	for i, l := range lines {
		switch {
		case strings.HasPrefix(l, "#EXT-X-MEDIA:"):
			a := parseAttrList(strings.TrimPrefix(l, "#EXT-X-MEDIA:"))
			if a["TYPE"] != "AUDIO" {
				continue
			}
			r := advRendition{name: a["NAME"], lang: a["LANGUAGE"], def: a["DEFAULT"] == "YES"}
			if u, ok := a["URI"]; ok {
				r.uri, r.hasURI = u, true
			}
			ix.renditions = append(ix.renditions, r)
		case strings.HasPrefix(l, "#EXT-X-STREAM-INF:") && ix.variantURI == "":
			a := parseAttrList(strings.TrimPrefix(l, "#EXT-X-STREAM-INF:"))
			if c := a["CODECS"]; c != "" {
				ix.codecs = strings.Split(c, ",")
			}
			for j := i + 1; j < len(lines); j++ {
				if lines[j] != "" && !strings.HasPrefix(lines[j], "#") {
					ix.variantURI = lines[j]
					break
				}
			}
		}
	}
	return ix
}

var reStreamPl = regexp.MustCompile(`^(video|audio)(\d+)_stream\.m3u8`)

// muxer track behind a media playlist URI of the fMP4 variants (-1: none)
func trackOfPlaylistURI(u string) int {
	m := reStreamPl.FindStringSubmatch(u)
	if m == nil {
		return -1
	}
	var n int
	fmt.Sscanf(m[2], "%d", &n)
	return n - 1
}

// ---- unit identity ----

func canon(atoms [][]byte) [32]byte {
	hh := sha256.New()
	for _, a := range atoms {
		hh.Write([]byte{byte(len(a) >> 24), byte(len(a) >> 16), byte(len(a) >> 8), byte(len(a))})
		hh.Write(a)
	}
	var out [32]byte
	copy(out[:], hh.Sum(nil))
	return out
}

// the payload of a written / delivered unit as compared: see clause U
func normAtoms(kind int, variant int, atoms [][]byte) [][]byte {
	switch {
	case kind == kAV1:
		out := make([][]byte, len(atoms))
		for i, o := range atoms {
			out[i] = av1WithSize(o)
		}
		return out
	case kind == kH264 && variant == 1:
		var out [][]byte
		for _, n := range atoms {
			if len(n) > 0 && n[0]&0x1f == 9 {
				continue // access unit delimiter: MPEG-TS framing
			}
			out = append(out, n)
		}
		return out
	}
	return atoms
}

type expTrack struct {
	mux        int // muxer track index
	rate       int64
	isRend     bool
	advName    string
	advLang    string
	advDefault bool
}

// expectedTracks: which muxer tracks the client must report, in order, and what was advertised for them
func expectedTracks(p *pairDesc, cr *clientRun) ([]expTrack, *advIndex, string) {
	h := &p.H
	var out []expTrack
	if h.Variant == 1 {
		for i := range h.Tracks {
			out = append(out, expTrack{mux: i, rate: 90000})
		}
		return out, nil, ""
	}
	if p.Target != "index" {
		var ti int
		fmt.Sscanf(p.Target, "media:%d", &ti)
		return []expTrack{{mux: ti, rate: h.Tracks[ti].Rate}}, nil, ""
	}
	var ix *advIndex
	for _, e := range cr.Reqs {
		if e.Path == "index.m3u8" && e.Done && e.Status == 200 {
			ix = parseIndex(string(e.Body))
			break
		}
	}
	if ix == nil {
		return nil, nil, "no index.m3u8 response"
	}
	lt := trackOfPlaylistURI(ix.variantURI)
	if lt < 0 || lt >= len(h.Tracks) {
		return nil, ix, "variant URI " + ix.variantURI
	}
	lead := expTrack{mux: lt, rate: h.Tracks[lt].Rate}
	var rest []expTrack
	for _, r := range ix.renditions {
		if !r.hasURI {
			lead.isRend, lead.advName, lead.advLang, lead.advDefault = true, r.name, r.lang, r.def
			continue
		}
		ti := trackOfPlaylistURI(r.uri)
		if ti < 0 || ti >= len(h.Tracks) {
			return nil, ix, "rendition URI " + r.uri
		}
		rest = append(rest, expTrack{mux: ti, rate: h.Tracks[ti].Rate, isRend: true, advName: r.name, advLang: r.lang, advDefault: r.def})
	}
	return append([]expTrack{lead}, rest...), ix, ""
}

func ratOf(v, den int64) *big.Rat { return new(big.Rat).SetFrac64(v, den) }

// |got - (w/r - w0/rl) * cr| <= 1
func within1Tick(got, w, r, w0, rl, cr int64) bool {
	e := new(big.Rat).Sub(ratOf(w, r), ratOf(w0, rl))
	e.Mul(e, new(big.Rat).SetInt64(cr))
	d := new(big.Rat).Sub(new(big.Rat).SetInt64(got), e)
	d.Abs(d)
	return d.Cmp(new(big.Rat).SetInt64(1)) <= 0
}

func inputOf(p *pairDesc, attempt int) map[string]interface{} {
	return map[string]interface{}{"pair": p, "client_attempt": attempt}
}

// checkPair applies the oracle to every client of the pair.
func checkPair(res *pairResult, st *oracleStats) []failure {
	p := res.Desc
	h := &p.H
	var fails []failure
	size := len(h.Tracks)*100000 + len(h.Ops)
	if p.Fixed != "" {
		size = len(h.Tracks) // the fixed scenarios are the minimal configurations
	}
	fail := func(attempt int, sig, what string, args ...interface{}) {
		for _, f := range fails {
			if f.Signature == sig {
				return
			}
		}
		fails = append(fails, failure{Signature: sig, What: fmt.Sprintf(what, args...), Input: inputOf(p, attempt), size: size})
	}
	vn := variantName(h.Variant)
	if res.StartErr != "" || len(res.WriteErrors) > 0 || res.Panic != "" {
		return nil // outside the quantifier (reported as errors by main)
	}
	// the harness's own log: ntp = base + dts / rate for every unit (what clause A relies on)
	for ti, ws := range res.Written {
		for _, w := range ws {
			lin := p.NtpBase + tsNs(w.DTS, h.Tracks[ti].Rate)
			if d := w.NTP - lin; d < -2 || d > 2 {
				panic(fmt.Sprintf("e2e harness: written NTP is not base + dts/rate (track %d id %d: %d vs %d)", ti, w.ID, w.NTP, lin))
			}
		}
	}

	for _, cr := range res.Clients {
		oc := "running"
		if cr.Outcome != "running" {
			oc = errClass(cr.Outcome)
		}
		if cr.TracksReported {
			st.outcomes["after-tracks:"+oc]++
			if cr.Outcome != "running" && !isSchedulingError(cr.Outcome) && len(st.observations) < 40 {
				st.observations = append(st.observations, fmt.Sprintf("pair %d (%s %v, target %s, part-min %d ms): client ended after OnTracks with %q", p.ID, variantName(h.Variant), kindsOf(h), p.Target, h.PartMin/1e6, cr.Outcome))
			}
		} else {
			st.outcomes["before-tracks:"+oc]++
		}

		// ---------------- clause T
		if !cr.TracksReported {
			switch {
			case cr.Outcome == "running" || isSchedulingError(cr.Outcome):
			case strings.Contains(cr.Outcome, "no variants with supported codecs found"):
				var bad []string
				for i, t := range h.Tracks {
					if !strings.HasPrefix(res.MuxCodecs[i], "avc1.") && !strings.HasPrefix(res.MuxCodecs[i], "hvc1.") &&
						!strings.HasPrefix(res.MuxCodecs[i], "mp4a.") && res.MuxCodecs[i] != "opus" {
						bad = append(bad, kindNames[t.Kind])
					}
				}
				sort.Strings(bad)
				fail(cr.Attempt, "C09:tracks:no-supported-variant:"+strings.Join(bad, "+"),
					"%s muxer with tracks %v (CODECS %v): a Client pointed at index.m3u8 reports no tracks: %q", vn, kindsOf(h), res.MuxCodecs, cr.Outcome)
			case h.Variant == 1 && strings.Contains(cr.Outcome, "astits: no more packets") && firstSegmentLacksTrack(h, cr) >= 0:
				// cause verified on the bytes served: the first segment this client downloaded lists the track in its
				// PMT but holds no packet of it (mpegts.Reader.Initialize needs an ADTS header to learn the audio
				// configuration and runs off the end of the segment)
				ti := firstSegmentLacksTrack(h, cr)
				fail(cr.Attempt, "C09:mpegts:tracks:not-reported:first-segment-without-data-of:"+kindNames[h.Tracks[ti].Kind],
					"mpegts muxer with tracks %v, client pointed at %s: the first segment it downloaded (%s) holds no packet of track %d (%s); no tracks reported, the client ended with %q",
					kindsOf(h), p.Target, firstTSPath(cr), ti, kindNames[h.Tracks[ti].Kind], cr.Outcome)
			default:
				fail(cr.Attempt, "C09:"+vn+":tracks:not-reported:"+errClass(cr.Outcome),
					"%s muxer with tracks %v, client pointed at %s: no tracks reported, the client ended with %q", vn, kindsOf(h), p.Target, cr.Outcome)
			}
			continue
		}
		exp, _, perr := expectedTracks(p, cr)
		if perr != "" {
			fail(cr.Attempt, "C09:"+vn+":tracks:index-unreadable", "cannot relate the served index.m3u8 to the muxer's tracks: %s", perr)
			continue
		}
		if len(exp) != len(cr.Tracks) {
			fail(cr.Attempt, fmt.Sprintf("C09:%s:tracks:count", vn), "client reports %d tracks, the muxer has %d reachable from %s (%v)", len(cr.Tracks), len(exp), p.Target, kindsOf(h))
			continue
		}
		tracksOK := true
		for j, e := range exp {
			ct := &cr.Tracks[j]
			mt := h.Tracks[e.mux]
			if ct.Kind != mt.Kind {
				tracksOK = false
				fail(cr.Attempt, fmt.Sprintf("C09:%s:tracks:codec-type:%s", vn, kindNames[mt.Kind]), "client track %d is %s, muxer track %d is %s", j, kindNames[ct.Kind], e.mux, kindNames[mt.Kind])
				continue
			}
			if ct.ClockRate != e.rate {
				tracksOK = false
				fail(cr.Attempt, fmt.Sprintf("C09:%s:tracks:clock-rate:%s", vn, kindNames[mt.Kind]), "client track %d has clock rate %d, expected %d", j, ct.ClockRate, e.rate)
			}
			if h.Variant != 1 {
				// "the same codec parameters": a set the muxer held at some moment between the opening of the first
				// part / segment of this track the client downloaded (the write of its first unit) and the moment the
				// client had the init (whichever came first; Low-Latency downloads a part that is still to be
				// written). A set the muxer had replaced before that - an init that did not follow a parameter
				// change - is not the muxer's any more.
				lo, hi, why := paramWindow(h, res, cr, e.mux)
				if why != "" {
					st.paramsUnchecked++
				} else {
					st.paramsChecked++
					acc := paramsBetween(res.ParamLine[e.mux], lo, hi)
					ok := false
					for _, s := range acc {
						if s == ct.Params {
							ok = true
						}
					}
					if !ok {
						tracksOK = false
						stale := ""
						for _, pa := range res.ParamLine[e.mux] {
							if pa.Params == ct.Params && pa.Op < lo && pa.Op < hi {
								stale = ":stale-init"
							}
						}
						if stale != "" && h.Variant == 3 && forcedSegmentStillOpen(res, cr, e.mux, lo, hi) {
							// finding F27: in Low-Latency the parts of the segment opened by a parameter change are
							// advertised at once, the init is regenerated only when that segment completes
							stale += ":forced-segment-still-open"
						}
						fail(cr.Attempt, fmt.Sprintf("C09:%s:tracks:codec-parameters:%s%s", vn, kindNames[mt.Kind], stale),
							"client track %d reports parameters %s; between write %d (first unit of the first part / segment it downloaded) and write %d (last write started when it had the init) muxer track %d held %v; the whole line: %v",
							j, ct.Params, lo, hi, e.mux, acc, res.ParamLine[e.mux])
					}
				}
			}
			if e.isRend && (ct.Name != e.advName || ct.Lang != e.advLang || ct.Default != e.advDefault) {
				tracksOK = false
				which := "rendition"
				if j == 0 {
					which = "leading-audio"
				}
				fail(cr.Attempt, fmt.Sprintf("C09:%s:rendition-attributes-missing:%s", vn, which),
					"muxer track %d is advertised as audio rendition NAME=%q LANGUAGE=%q DEFAULT=%v; the client reports Name=%q Language=%q IsDefault=%v",
					e.mux, e.advName, e.advLang, e.advDefault, ct.Name, ct.Lang, ct.Default)
			}
		}
		if tracksOK {
			st.tracksOK++
		}
		// A client that gives up on content the muxer produced does not "reproduce the written stream" (the
		// property's title); the clauses of the statement constrain only what is delivered, so this class is
		// reported under its own signature, restricted to the error that names the content (finding F21,
		// fixed by d590576 + c9db2ec: kept as a regression check).
		if strings.Contains(cr.Outcome, "could not find data of leading track") && p.Target != "index" && h.Variant != 1 && firstBodyWithoutTracks(cr) {
			// residue of F21 after c9db2ec, cause verified on the bytes served: the client was pointed directly at
			// a rendition's media playlist and the FIRST part / segment it downloaded holds no track (no sample of
			// the rendition fell into it); a stream processor that has not created its time converter does not
			// skip it. A client attached a moment later plays.
			fail(cr.Attempt, "C09:"+vn+":client-abort:first-body-without-tracks:rendition-playlist",
				"%s muxer with tracks %v (part-min %d ms), client pointed at %s: the first part / segment it downloaded holds no track; after OnTracks the client stopped with %q",
				vn, kindsOf(h), h.PartMin/1e6, p.Target, cr.Outcome)
		} else if strings.Contains(cr.Outcome, "could not find data of leading track") {
			fail(cr.Attempt, "C09:"+vn+":client-abort:could-not-find-data-of-leading-track",
				"%s muxer with tracks %v (part-min %d ms), client pointed at %s: after OnTracks the client stopped with %q on a part / segment the muxer served",
				vn, kindsOf(h), h.PartMin/1e6, p.Target, cr.Outcome)
		}

		// ---------------- clauses U, P, A
		// index of written units per muxer track
		type widx struct{ byKey map[[32]byte]int }
		idx := map[int]*widx{}
		for _, e := range exp {
			if idx[e.mux] != nil {
				continue
			}
			w := &widx{byKey: map[[32]byte]int{}}
			for i, u := range res.Written[e.mux] {
				w.byKey[canon(normAtoms(h.Tracks[e.mux].Kind, h.Variant, u.Atoms))] = i
			}
			idx[e.mux] = w
		}
		// the client's leading track: first video track, else the first track
		lead := 0
		for j, e := range exp {
			if isVideoKind(h.Tracks[e.mux].Kind) {
				lead = j
				break
			}
		}
		// resolve every callback to written units
		type resolved struct {
			first int // index of the first written unit (-1: unknown bytes)
			n     int
		}
		all := make([][]resolved, len(exp))
		for j, e := range exp {
			kind := h.Tracks[e.mux].Kind
			kn := kindNames[kind]
			ct := &cr.Tracks[j]
			lastIdx := -1
			seen := map[int]bool{}
			for k, u := range ct.Units {
				var groups [][][]byte
				if isVideoKind(kind) {
					groups = [][][]byte{normAtoms(kind, h.Variant, u.Data)}
				} else {
					for _, a := range u.Data {
						groups = append(groups, [][]byte{a})
					}
				}
				r := resolved{first: -1, n: len(groups)}
				for gi, g := range groups {
					st.unitsChecked++
					wi, ok := idx[e.mux].byKey[canon(g)]
					if !ok {
						fail(cr.Attempt, fmt.Sprintf("C09:%s:unit:bytes:%s", vn, kn), "client track %d callback %d element %d (%d bytes in %d pieces) is not byte-identical to any unit written to muxer track %d", j, k, gi, totalLen(g), len(g), e.mux)
						continue
					}
					if gi == 0 {
						r.first = wi
					}
					if seen[wi] {
						fail(cr.Attempt, fmt.Sprintf("C09:%s:unit:duplicate:%s", vn, kn), "written unit %d of muxer track %d (id %d) is delivered twice", wi, e.mux, res.Written[e.mux][wi].ID)
					}
					seen[wi] = true
					if lastIdx >= 0 {
						if wi <= lastIdx {
							fail(cr.Attempt, fmt.Sprintf("C09:%s:unit:order:%s", vn, kn), "written unit %d of muxer track %d delivered after unit %d", wi, e.mux, lastIdx)
						} else if wi != lastIdx+1 && h.Variant != 3 {
							fail(cr.Attempt, fmt.Sprintf("C09:%s:unit:gap:%s", vn, kn), "muxer track %d: written unit %d is delivered after unit %d, units in between are missing", e.mux, wi, lastIdx)
						}
					}
					lastIdx = wi
				}
				all[j] = append(all[j], r)
			}
		}
		// origin
		if len(all[lead]) == 0 || all[lead][0].first < 0 {
			continue
		}
		le := exp[lead]
		w0 := res.Written[le.mux][all[lead][0].first].DTS
		rl := h.Tracks[le.mux].Rate
		for j, e := range exp {
			kind := h.Tracks[e.mux].Kind
			kn := kindNames[kind]
			ct := &cr.Tracks[j]
			r := h.Tracks[e.mux].Rate
			tickNs := int64(1e9)/ct.ClockRate + 1
			for k, u := range ct.Units {
				if all[j][k].first < 0 {
					continue
				}
				w := res.Written[e.mux][all[j][k].first]
				st.ptsChecked++
				if !within1Tick(u.PTS, w.PTS, r, w0, rl, ct.ClockRate) {
					fail(cr.Attempt, fmt.Sprintf("C09:%s:pts:%s", vn, kn),
						"client track %d callback %d: pts %d; written pts %d (rate %d), first delivered leading dts %d (rate %d), client clock %d", j, k, u.PTS, w.PTS, r, w0, rl, ct.ClockRate)
				}
				if u.HasDTS && !within1Tick(u.DTS, w.DTS, r, w0, rl, ct.ClockRate) {
					fail(cr.Attempt, fmt.Sprintf("C09:%s:dts:%s", vn, kn),
						"client track %d callback %d: dts %d; written dts %d (rate %d), first delivered leading dts %d (rate %d), client clock %d", j, k, u.DTS, w.DTS, r, w0, rl, ct.ClockRate)
				}
				if u.HasAbs {
					st.absChecked++
					eps := 2*tickNs + 2
					lo := int64(1e6) + eps
					if h.Variant == 3 {
						lo += 320000
						eps += 320000
					}
					if d := u.Abs - w.NTP; d < -lo || d > eps {
						where := ""
						if p.Target != "index" && h.Variant != 1 && exp[0].mux != leadingTrack(h) {
							where = "rendition-playlist:" // the client was pointed at the media playlist of a non-leading stream
						}
						fail(cr.Attempt, fmt.Sprintf("C09:%s:absolute-time:%s%s", vn, where, kn),
							"client track %d callback %d (written id %d): AbsoluteTime %d, NTP written with the unit %d (difference %d ns)", j, k, w.ID, u.Abs, w.NTP, d)
					}
				}
			}
		}
	}
	return fails
}

func totalLen(g [][]byte) int {
	n := 0
	for _, a := range g {
		n += len(a)
	}
	return n
}

func kindsOf(h *history) []string {
	var out []string
	for _, t := range h.Tracks {
		out = append(out, kindNames[t.Kind])
	}
	return out
}

func firstTSBody(cr *clientRun) *reqLog {
	for _, e := range cr.Reqs {
		if strings.HasSuffix(e.Path, ".ts") && e.Done && e.Status == 200 {
			return e
		}
	}
	return nil
}

func firstTSPath(cr *clientRun) string {
	if e := firstTSBody(cr); e != nil {
		return e.Path
	}
	return ""
}

// firstSegmentLacksTrack: index of a muxer track without a single TS packet in the first MPEG-TS segment the
// client downloaded (mediacommon assigns PID 256 + track index), -1 if every track has data or nothing was
// downloaded
func firstSegmentLacksTrack(h *history, cr *clientRun) int {
	e := firstTSBody(cr)
	if e == nil || len(e.Body) == 0 || len(e.Body)%188 != 0 {
		return -1
	}
	seen := make([]bool, len(h.Tracks))
	for off := 0; off+188 <= len(e.Body); off += 188 {
		pk := e.Body[off : off+188]
		if pk[0] != 0x47 {
			return -1
		}
		pid := int(pk[1]&0x1f)<<8 | int(pk[2])
		if pid >= 256 && pid < 256+len(h.Tracks) {
			seen[pid-256] = true
		}
	}
	for i, s := range seen {
		if !s {
			return i
		}
	}
	return -1
}

// firstBodyWithoutTracks: the first media body (segment or part, not the init) the client downloaded parses
// as fMP4 fragments none of which holds a track
func firstBodyWithoutTracks(cr *clientRun) bool {
	for _, e := range cr.Reqs {
		if !e.Done || e.Status != 200 || !strings.HasSuffix(e.Path, ".mp4") || strings.HasSuffix(e.Path, "_init.mp4") {
			continue
		}
		var parts fmp4.Parts
		if err := parts.Unmarshal(e.Body); err != nil {
			return false
		}
		for _, p := range parts {
			if len(p.Tracks) != 0 {
				return false
			}
		}
		return true
	}
	return false
}

var _ = bytes.NewReader

// paramWindow: (write index of the first unit of the first media body of the track's stream the client
// downloaded, number of writes started when the client had that stream's init - 1); why != "" when one of
// the two cannot be determined (nothing downloaded yet)
func paramWindow(h *history, res *pairResult, cr *clientRun, mux int) (lo, hi int, why string) {
	sid := streamIDOf(h, mux)
	lo, hi = -2, -2
	for _, e := range cr.Reqs {
		if !e.Done || e.Status != 200 {
			continue
		}
		m := reBody.FindStringSubmatch(e.Path)
		if hi == -2 {
			if mi := reInitP.FindStringSubmatch(e.Path); mi != nil && mi[1] == sid {
				hi = e.WritesEnd - 1
			}
			continue
		}
		if m == nil || m[1] != sid || m[4] != "mp4" {
			continue
		}
		var parts fmp4.Parts
		if err := parts.Unmarshal(e.Body); err != nil {
			return 0, 0, "first body does not parse"
		}
		for _, p := range parts {
			for _, tr := range p.Tracks {
				if len(tr.Samples) == 0 {
					continue
				}
				id := sampleID(idKindOf(h, h.Tracks[mux].Kind), tr.Samples[0].Payload)
				ws := res.Written[mux]
				i := sort.Search(len(ws), func(i int) bool { return ws[i].ID >= id })
				if i < len(ws) && ws[i].ID == id {
					return ws[i].Op, hi, ""
				}
				return 0, 0, "first sample unknown"
			}
		}
		// a body without samples: look at the next one
	}
	return 0, 0, "no init / no media body downloaded"
}

// forcedSegmentStillOpen: the stale init is explained by finding F27 and by nothing else. Let c be the write
// at which the parameter change that established the set in force at min(lo, hi) - the set the client should
// have reported - took effect (the write of the change, or of the next key frame when the parameter sets were
// sent ahead). True iff (1) the leading stream rotated its segment during write c (the change opened a new
// segment), and (2) the write that CLOSED that segment (the next rotation) had not completed when the
// client's request for this stream's init STARTED (no rotation after c at all counts as not completed).
// Everything else - no rotation at the change, or an init requested after the forced segment was complete -
// keeps the plain ":stale-init".
func forcedSegmentStillOpen(res *pairResult, cr *clientRun, mux int, lo, hi int) bool {
	at := lo
	if hi < at {
		at = hi
	}
	c := -1
	for _, pa := range res.ParamLine[mux] {
		if pa.Op <= at {
			c = pa.Eff
		}
	}
	if c < 0 {
		return false
	}
	rotatedAtChange := false
	closeAt := 1 << 60
	for _, k := range res.SegCloses {
		if k == c {
			rotatedAtChange = true
		}
		if k > c && k < closeAt {
			closeAt = k
		}
	}
	if !rotatedAtChange {
		return false
	}
	sid := streamIDOf(&res.Desc.H, mux)
	for _, e := range cr.Reqs {
		if mi := reInitP.FindStringSubmatch(e.Path); mi != nil && mi[1] == sid && e.Done && e.Status == 200 {
			return e.DoneAtStart <= closeAt // write closeAt completed iff DoneAtStart >= closeAt+1
		}
	}
	return false
}
