package main

// C09 end-to-end harness: many real Muxer/Client pairs run concurrently (writers paced in real
// time), the property oracle over (written log, delivered log), and the case files of the tie.

import (
	"crypto/sha256"
	"encoding/json"
	"flag"
	"fmt"
	"os"
	"path/filepath"
	"sort"
	"strings"
	"sync"
	"time"
)

type sample struct {
	ID      int      `json:"id"`
	Fixed   string   `json:"fixed,omitempty"`
	Variant string   `json:"variant"`
	Tracks  []string `json:"tracks"`
	Target  string   `json:"target"`
	Writes  int      `json:"writes"`
	Clients []string `json:"clients"`
}

type resultJSON struct {
	Evaluations        int            `json:"evaluations"`
	DistinctNontrivial int            `json:"distinct_nontrivial"`
	Rule               string         `json:"rule"`
	Samples            []sample       `json:"samples"`
	Traces             int            `json:"traces_validated_against_impl"`
	Distribution       map[string]int `json:"distribution"`
	OracleFailures     []failure      `json:"oracle_failures"`
	Errors             []string       `json:"errors"`
	Observations       []string       `json:"observations"`
	Cases              []caseRef      `json:"cases"`
	Skipped            map[string]int `json:"skipped"`
	UnitsChecked       int            `json:"units_checked"`
	ParamsChecked      int            `json:"params_checked"`
	ParamsUnchecked    int            `json:"params_unchecked"`
	PTSChecked         int            `json:"pts_checked"`
	AbsChecked         int            `json:"abs_checked"`
	WallS              float64        `json:"wall_s"`
}

func main() {
	seed := flag.Uint64("seed", 1, "seed")
	n := flag.Int("n", 150, "number of random pairs")
	conc := flag.Int("conc", 60, "pairs running concurrently")
	out := flag.String("out", "", "output directory")
	replay := flag.String("replay", "", "replay file written by the driver")
	nomodel := flag.Bool("nomodel", false, "do not write case files")
	dump := flag.Int("dump", -1, "print the delivered log of this pair id")
	flag.Parse()
	if *out == "" {
		fmt.Fprintln(os.Stderr, "-out required")
		os.Exit(2)
	}
	os.MkdirAll(*out, 0o755)
	selfCheckCodecs()
	selfCheckH264()
	t0 := time.Now()

	var descs []*pairDesc
	var longs []longDesc
	if *replay != "" {
		var rp struct {
			Input struct {
				Pair *pairDesc `json:"pair"`
				Long *longDesc `json:"long"`
			} `json:"input"`
		}
		b, err := os.ReadFile(*replay)
		if err == nil && json.Unmarshal(b, &rp) == nil && rp.Input.Long != nil {
			longs = append(longs, *rp.Input.Long)
		} else if err != nil || json.Unmarshal(b, &rp) != nil || rp.Input.Pair == nil {
			fmt.Fprintln(os.Stderr, "cannot read the replay input:", err)
			os.Exit(2)
		}
		// a live pair depends on scheduling: run the same input three times
		for i := 0; i < 3 && rp.Input.Pair != nil; i++ {
			d := *rp.Input.Pair
			d.ID = i
			descs = append(descs, &d)
		}
	} else {
		id := 0
		for _, f := range fixedScenarios() {
			f := f
			d := genPair(*seed, id, &f)
			descs = append(descs, &d)
			id++
		}
		for i := 0; i < *n; i++ {
			d := genPair(*seed, id, nil)
			descs = append(descs, &d)
			id++
		}
		// scenarios added later: after the random pairs, which keep their ids (a pair's id selects its random stream)
		for _, f := range lateScenarios() {
			f := f
			d := genPair(*seed, id, &f)
			descs = append(descs, &d)
			id++
		}
		for i := 0; i < 6+*n/25; i++ {
			f := extraScenario(*seed, i)
			d := genPair(*seed, id, &f)
			descs = append(descs, &d)
			id++
		}
		for i := 0; i < 6+*n/40; i++ {
			longs = append(longs, genLong(*seed, i))
		}
	}

	results := make([]*pairResult, len(descs))
	sem := make(chan struct{}, *conc)
	var wg sync.WaitGroup
	for i, d := range descs {
		i, d := i, d
		wg.Add(1)
		sem <- struct{}{}
		go func() {
			defer wg.Done()
			defer func() { <-sem }()
			results[i] = runPair(d)
		}()
	}
	wg.Wait()

	var rj resultJSON
	rj.Distribution = map[string]int{}
	st := &oracleStats{outcomes: map[string]int{}}
	distinct := map[[32]byte]bool{}
	best := map[string]failure{}
	var sw *shardWriter
	if !*nomodel {
		sw = newShardWriter(*out)
	}
	for _, res := range results {
		p := res.Desc
		h := &p.H
		rj.Evaluations++
		rj.Distribution["variant:"+variantName(h.Variant)]++
		rj.Distribution[fmt.Sprintf("tracks:%d", len(h.Tracks))]++
		for _, t := range h.Tracks {
			rj.Distribution["codec:"+kindNames[t.Kind]]++
		}
		if p.Target == "index" {
			rj.Distribution["target:index"]++
		} else {
			rj.Distribution["target:media"]++
		}
		if res.Panic != "" {
			rj.Errors = append(rj.Errors, fmt.Sprintf("pair %d: panic: %s", p.ID, res.Panic))
			continue
		}
		if res.StartErr != "" {
			rj.Errors = append(rj.Errors, fmt.Sprintf("pair %d: Muxer.Start: %s", p.ID, res.StartErr))
			continue
		}
		if len(res.WriteErrors) > 0 {
			rj.Errors = append(rj.Errors, fmt.Sprintf("pair %d: %s", p.ID, res.WriteErrors[0]))
			continue
		}
		if p.Lag > 0 {
			// how the held client went (not demanded: the oracle judges what was delivered)
			switch {
			case res.LagHeldClient < 0:
				rj.Distribution["lag:no-client-delivered"]++
			case !res.LagBySegments:
				rj.Distribution["lag:released-at-writer-end"]++
			default:
				rj.Distribution["lag:held-until-the-next-segment-left-the-playlist"]++
				for _, cr := range res.Clients {
					if cr.Attempt == res.LagHeldClient {
						oc := "running"
						if cr.Outcome != "running" {
							oc = errClass(cr.Outcome)
						}
						rj.Distribution["lag:held-client-end:"+oc]++
					}
				}
			}
		}
		fails := checkPair(res, st)
		for _, f := range fails {
			if os.Getenv("E2E_PRINT_FAILS") != "" {
				fmt.Printf("pair %d %s: %s\n", p.ID, p.Fixed, f.Signature)
			}
			if b, ok := best[f.Signature]; !ok || f.size < b.size {
				best[f.Signature] = f
			}
		}
		// non-trivial: some client reported tracks and at least 10 callbacks arrived on one track
		nontrivial := false
		delivered := 0
		for _, cr := range res.Clients {
			for _, t := range cr.Tracks {
				delivered += len(t.Units)
				if len(t.Units) >= 10 {
					nontrivial = true
				}
			}
		}
		rj.Distribution["delivered:"+bucket(delivered)]++
		rj.Distribution[fmt.Sprintf("clients-per-pair:%d", len(res.Clients))]++
		if nontrivial {
			b, _ := json.Marshal(p.H)
			k := sha256.Sum256(append(b, []byte(p.Target)...))
			if !distinct[k] {
				distinct[k] = true
				rj.DistinctNontrivial++
			}
			rj.Traces++
		}
		if len(rj.Samples) < 6 && (nontrivial || len(fails) > 0) {
			s := sample{ID: p.ID, Fixed: p.Fixed, Variant: variantName(h.Variant), Tracks: kindsOf(h), Target: p.Target, Writes: len(h.Ops)}
			for _, cr := range res.Clients {
				d := 0
				for _, t := range cr.Tracks {
					d += len(t.Units)
				}
				s.Clients = append(s.Clients, fmt.Sprintf("attached at %d ms, %d tracks, %d callbacks, ended: %s", cr.AttachMs, len(cr.Tracks), d, cr.Outcome))
			}
			rj.Samples = append(rj.Samples, s)
		}
		if sw != nil {
			emitCases(sw, res, &rj)
		}
		if *dump == p.ID {
			dumpPair(res)
		}
	}
	if sw != nil {
		sw.close()
		rj.Cases = sw.index
		rj.Skipped = sw.skipped
	}
	for _, ld := range longs {
		calls, bad := runLong(ld)
		rj.Distribution["long-session:mpegts-converter-calls:"+bucket(calls)]++
		rj.Distribution[fmt.Sprintf("long-session:hours:%d-%d", ld.Hours/10*10, ld.Hours/10*10+9)]++
		if bad != "" {
			f := failure{Signature: "C09:mpegts:long-session:timestamp-differs", What: bad,
				Input: map[string]interface{}{"long": ld}, size: ld.Hours}
			if b, ok := best[f.Signature]; !ok || f.size < b.size {
				best[f.Signature] = f
			}
		}
	}
	for k, v := range st.outcomes {
		rj.Distribution["client-end:"+k] += v
	}
	var sigs []string
	for s := range best {
		sigs = append(sigs, s)
	}
	sort.Strings(sigs)
	for _, s := range sigs {
		rj.OracleFailures = append(rj.OracleFailures, best[s])
	}
	rj.Observations = st.observations
	rj.ParamsChecked, rj.ParamsUnchecked = st.paramsChecked, st.paramsUnchecked
	rj.UnitsChecked, rj.PTSChecked, rj.AbsChecked = st.unitsChecked, st.ptsChecked, st.absChecked
	rj.Rule = "one evaluation = one muxer/client pair (real Muxer, writer paced in real time, real Client over an in-process transport). " +
		"Non-trivial: a client reported tracks and at least one track received >= 10 callbacks; distinct by SHA-256 of (configuration, write history, target)."
	rj.WallS = time.Since(t0).Seconds()
	b, _ := json.MarshalIndent(&rj, "", " ")
	os.WriteFile(filepath.Join(*out, "result.json"), b, 0o644)
	fmt.Printf("e2e: %d pairs, %d distinct non-trivial, %d units / %d pts / %d absolute times checked, %d oracle failure signatures, %d errors, %.1fs\n",
		rj.Evaluations, rj.DistinctNontrivial, st.unitsChecked, st.ptsChecked, st.absChecked, len(rj.OracleFailures), len(rj.Errors), rj.WallS)
}

func bucket(n int) string {
	switch {
	case n == 0:
		return "0"
	case n < 10:
		return "1-9"
	case n < 100:
		return "10-99"
	case n < 1000:
		return "100-999"
	}
	return ">=1000"
}

func dumpPair(res *pairResult) {
	p := res.Desc
	fmt.Printf("pair %d %s %v target %s attach %d media %d writes %d enc-errors %v\n", p.ID, variantName(p.H.Variant), kindsOf(&p.H), p.Target, p.AttachMs, p.MediaMs, len(p.H.Ops), res.EncErrors)
	for i, l := range res.ParamLine {
		if len(l) > 1 {
			fmt.Printf(" parameter line of track %d (write, write at which it takes effect, parameters): %v\n", i, l)
		}
	}
	for _, cr := range res.Clients {
		fmt.Printf(" client %d attached %d ms tracks=%v outcome=%q decode-errors=%v\n", cr.Attempt, cr.AttachMs, cr.TracksReported, cr.Outcome, cr.DecodeErrors)
		if p.H.Variant != 1 && cr.TracksReported {
			for i := range p.H.Tracks {
				lo, hi, why := paramWindow(&p.H, res, cr, i)
				fmt.Printf("   parameter window of muxer track %d: writes %d..%d %s\n", i, lo, hi, why)
			}
		}
		for _, e := range cr.Reqs {
			fmt.Printf("   req %d %s?%s %s -> %d (%d bytes)\n", e.Seq, e.Path, e.Query, e.Range, e.Status, len(e.Body))
			if strings.HasSuffix(e.Path, ".m3u8") && os.Getenv("E2E_DUMP_PLAYLISTS") != "" {
				fmt.Println(string(e.Body))
			}
		}
		for j, t := range cr.Tracks {
			fmt.Printf("   track %d kind %s rate %d name %q lang %q default %v params %s: %d callbacks\n", j, kindNames[t.Kind], t.ClockRate, t.Name, t.Lang, t.Default, t.Params, len(t.Units))
			for k, u := range t.Units {
				if k < 5 || k >= len(t.Units)-2 {
					fmt.Printf("      pts %d dts %d(%v) abs %d(%v) pieces %d wall %d ms\n", u.PTS, u.DTS, u.HasDTS, u.Abs, u.HasAbs, len(u.Data), u.WallMs)
				}
			}
		}
	}
}
