package main

// One muxer/client pair: a real gohlslib.Muxer fed by a writer goroutine paced in real time, a real
// gohlslib.Client whose http.Client transport calls Muxer.Handle in-process (no sockets).

import (
	"errors"
	"fmt"
	"io"
	"net/http"
	"net/http/httptest"
	"strings"
	"sync"
	"sync/atomic"
	"time"

	gohlslib "github.com/bluenviron/gohlslib/v2"
	"github.com/bluenviron/gohlslib/v2/pkg/codecparams"
	"github.com/bluenviron/gohlslib/v2/pkg/codecs"
)

// ---- in-process transport ----

type reqLog struct {
	// number of Write calls the writer had STARTED when the response was complete: every parameter set the muxer
	// held up to then comes from a write with a smaller index
	WritesEnd int
	// number of Write calls that had COMPLETED when the request started
	DoneAtStart int
	Seq         int
	Client int // attempt number
	Path   string
	Query  string
	Range  string
	Status int
	Body   []byte
	Done   bool
}

type stub struct {
	writes *int64 // started Write calls (atomic)
	done   *int64 // completed Write calls (atomic)
	m      *gohlslib.Muxer
	mu     sync.Mutex
	log    []*reqLog
	client int
}

func (s *stub) RoundTrip(req *http.Request) (*http.Response, error) {
	e := &reqLog{Path: strings.TrimPrefix(req.URL.Path, "/"), Query: req.URL.RawQuery, Range: req.Header.Get("Range"),
		DoneAtStart: int(atomic.LoadInt64(s.done))}
	s.mu.Lock()
	e.Seq = len(s.log)
	e.Client = s.client
	s.log = append(s.log, e)
	s.mu.Unlock()
	type out struct {
		res *http.Response
	}
	ch := make(chan out, 1)
	go func() {
		rec := httptest.NewRecorder()
		// a fresh request: the handler must not observe the client's context (a real server would not)
		r2 := &http.Request{Method: req.Method, URL: req.URL, Header: req.Header.Clone(), Host: req.Host}
		s.m.Handle(rec, r2)
		res := rec.Result()
		res.Request = req
		ch <- out{res}
	}()
	select {
	case o := <-ch:
		body, _ := io.ReadAll(o.res.Body)
		o.res.Body.Close()
		s.mu.Lock()
		e.Status, e.Body, e.Done = o.res.StatusCode, body, true
		e.WritesEnd = int(atomic.LoadInt64(s.writes))
		s.mu.Unlock()
		o.res.Body = io.NopCloser(strings.NewReader(string(body)))
		return o.res, nil
	case <-req.Context().Done():
		return nil, req.Context().Err()
	}
}

// ---- what the client reported ----

type cbUnit struct {
	PTS    int64
	HasDTS bool
	DTS    int64
	HasAbs bool
	Abs    int64 // Client.AbsoluteTime at the callback, ns since the Unix epoch
	Data   [][]byte
	WallMs int64 // diagnostic only
}

type cTrack struct {
	Kind      int // kH264.. (0: unknown)
	ClockRate int64
	Name      string
	Lang      string
	Default   bool
	Params    string // canonical form of the codec parameters
	Units     []cbUnit
}

type clientRun struct {
	Attempt        int
	AttachMs       int64
	TracksReported bool
	Tracks         []cTrack
	Outcome        string // running (closed by the harness) | the error text of Wait()
	DecodeErrors   []string
	Reqs           []*reqLog
}

type pairResult struct {
	Desc        *pairDesc
	StartErr    string
	WriteErrors []string
	EncErrors   []string
	Written     [][]written // per muxer track, in writing order
	MuxCodecs   []string    // codecparams.Marshal of every muxer track after Start
	SegCloses   []int       // Low-Latency: the writes during which the leading stream rotated its segment (VerifSnapshot after every write)
	ParamLine   [][]paramAt // per muxer track: the canonical parameters the muxer holds, from which write on
	Clients     []*clientRun
	// pairs with Lag: the client attempt whose callbacks were held (-1: none), and whether it was released because the
	// leading stream had completed Lag further segments (else: at the end of the writer)
	LagHeldClient int
	LagBySegments bool
	Panic       string
	WallMs      int64
}

// paramAt: from write [Op] on (-1: from Start) the muxer's Track.Codec holds [Params]. [Eff] is the write at which
// the change takes effect on the stream: Op itself when the parameter sets come with a key frame, else the first
// random access write of the track after Op (parameter sets sent ahead: the pictures up to that key frame still
// belong to the previous set and to the segment it opened; the muxer rotates, and renews the init, at the key frame)
type paramAt struct {
	Op     int
	Eff    int
	Params string
}

// lagCtl: the data callbacks of the first client that delivers are held until the writer releases them
type lagCtl struct {
	held    int32 // 1 + attempt number of the client whose first callback arrived (atomic; 0: none yet)
	release chan struct{}
}

// paramsBetween: the parameter sets in force at some moment from write lo to write hi (inclusive; the set in
// force AT lo is the one established by the last change at or before it, and the one before it as long as
// that change has not taken effect, see paramAt.Eff)
func paramsBetween(line []paramAt, lo, hi int) []string {
	if hi < lo {
		lo, hi = hi, lo
	}
	var out []string
	for i, e := range line {
		next := 1 << 60
		if i+1 < len(line) {
			next = line[i+1].Eff
		}
		if e.Op <= hi && next > lo { // in force during [e.Op, next)
			out = append(out, e.Params)
		}
	}
	return out
}

func hexs(bs ...[]byte) string {
	var sb strings.Builder
	for i, b := range bs {
		if i > 0 {
			sb.WriteByte('/')
		}
		fmt.Fprintf(&sb, "%x", b)
	}
	return sb.String()
}

// canonical codec parameters: what "the same codec parameters" compares for the fMP4 variants
func codecKindParams(c codecs.Codec) (int, string) {
	switch c := c.(type) {
	case *codecs.H264:
		return kH264, hexs(c.SPS, c.PPS)
	case *codecs.H265:
		return kH265, hexs(c.VPS, c.SPS, c.PPS)
	case *codecs.VP9:
		return kVP9, fmt.Sprintf("%dx%d p%d b%d s%d r%v", c.Width, c.Height, c.Profile, c.BitDepth, c.ChromaSubsampling, c.ColorRange)
	case *codecs.AV1:
		return kAV1, hexs(av1WithSize(c.SequenceHeader)) // the sequence header OBU in low-overhead form
	case *codecs.MPEG4Audio:
		return kAAC, fmt.Sprintf("t%d r%d c%d", c.Config.Type, c.Config.SampleRate, c.Config.ChannelCount)
	case *codecs.Opus:
		return kOpus, fmt.Sprintf("c%d", c.ChannelCount)
	}
	return 0, fmt.Sprintf("%T", c)
}

func cloneData(d [][]byte) [][]byte {
	out := make([][]byte, len(d))
	for i, b := range d {
		out[i] = append([]byte{}, b...)
	}
	return out
}

func isSchedulingError(s string) bool {
	for _, k := range []string{
		"there aren't enough segments to fill the buffer",
		"next segment not found or not ready yet",
		"playback is too late",
		"terminated",
		"context canceled",
	} {
		if strings.Contains(s, k) {
			return true
		}
	}
	return false
}

func (p *pairDesc) targetURI() string {
	if p.Target == "index" {
		return "http://e2e.invalid/index.m3u8"
	}
	var ti int
	fmt.Sscanf(p.Target, "media:%d", &ti)
	return "http://e2e.invalid/" + streamIDOf(&p.H, ti) + "_stream.m3u8"
}

// runClient attaches one client and lets it run until it ends by itself or [stop] is closed.
func runClient(st *stub, p *pairDesc, attempt int, t0 time.Time, stop <-chan struct{}, lag *lagCtl) *clientRun {
	cr := &clientRun{Attempt: attempt, AttachMs: time.Since(t0).Milliseconds()}
	var mu sync.Mutex
	var c *gohlslib.Client
	c = &gohlslib.Client{
		URI:                       p.targetURI(),
		HTTPClient:                &http.Client{Transport: st},
		OnDownloadPrimaryPlaylist: func(string) {},
		OnDownloadStreamPlaylist:  func(string) {},
		OnDownloadSegment:         func(string) {},
		OnDownloadPart:            func(string) {},
		OnDecodeError: func(err error) {
			mu.Lock()
			cr.DecodeErrors = append(cr.DecodeErrors, err.Error())
			mu.Unlock()
		},
		OnTracks: func(tracks []*gohlslib.Track) error {
			mu.Lock()
			defer mu.Unlock()
			cr.TracksReported = true
			cr.Tracks = make([]cTrack, len(tracks))
			for i, tr := range tracks {
				tr := tr
				ct := &cr.Tracks[i]
				ct.ClockRate = int64(tr.ClockRate)
				ct.Name, ct.Lang, ct.Default = tr.Name, tr.Language, tr.IsDefault
				ct.Kind, ct.Params = codecKindParams(tr.Codec)
				rec := func(pts int64, hasDTS bool, dts int64, data [][]byte) {
					u := cbUnit{PTS: pts, HasDTS: hasDTS, DTS: dts, Data: cloneData(data), WallMs: time.Since(t0).Milliseconds()}
					if at, ok := c.AbsoluteTime(tr); ok {
						u.HasAbs, u.Abs = true, at.UnixNano()
					}
					mu.Lock()
					ct.Units = append(ct.Units, u)
					mu.Unlock()
					if lag != nil {
						// a consumer that is too slow: no callback returns before the writer is far enough ahead
						atomic.CompareAndSwapInt32(&lag.held, 0, int32(attempt)+1)
						select {
						case <-lag.release:
						case <-stop:
						}
					}
				}
				switch tr.Codec.(type) {
				case *codecs.H264, *codecs.H265:
					c.OnDataH26x(tr, func(pts int64, dts int64, au [][]byte) { rec(pts, true, dts, au) })
				case *codecs.VP9:
					c.OnDataVP9(tr, func(pts int64, frame []byte) { rec(pts, false, 0, [][]byte{frame}) })
				case *codecs.AV1:
					c.OnDataAV1(tr, func(pts int64, tu [][]byte) { rec(pts, false, 0, tu) })
				case *codecs.MPEG4Audio:
					c.OnDataMPEG4Audio(tr, func(pts int64, aus [][]byte) { rec(pts, false, 0, aus) })
				case *codecs.Opus:
					c.OnDataOpus(tr, func(pts int64, pkts [][]byte) { rec(pts, false, 0, pkts) })
				}
			}
			return nil
		},
	}
	if err := c.Start(); err != nil {
		cr.Outcome = "start: " + err.Error()
		return cr
	}
	select {
	case err := <-c.Wait():
		if err == nil {
			err = errors.New("nil")
		}
		cr.Outcome = err.Error()
		c.Close()
	case <-stop:
		c.Close()
		select {
		case <-c.Wait():
		case <-time.After(3 * time.Second):
		}
		cr.Outcome = "running"
	}
	// Wait() has returned: the routine pool is closed, no callback is running any more
	mu.Lock()
	defer mu.Unlock()
	return cr
}

// estimated duration of the longest segment (ms): what a client that starts three segments behind
// the live edge still has to play after the writer stopped
func segEstimateMs(p *pairDesc) int64 {
	h := &p.H
	lt := leadingTrack(h)
	t := h.Tracks[lt]
	segMin := h.SegMin
	if segMin == 0 {
		segMin = 1e9
	}
	var maxGap int64
	last := int64(-1 << 62)
	for _, a := range h.Ops {
		if a.Track != lt || !a.RA {
			continue
		}
		ns := tsNs(a.DTS, t.Rate)
		if last != -1<<62 && ns-last > maxGap {
			maxGap = ns - last
		}
		last = ns
	}
	est := segMin + maxGap
	if h.Variant == 1 && !isVideoKind(t.Kind) {
		if au := 100 * 1024 * 1e9 / t.SRate; au > est {
			est = au + maxGap
		}
	}
	return est / 1e6
}

func runPair(p *pairDesc) (res *pairResult) {
	res = &pairResult{Desc: p}
	tStart := time.Now()
	defer func() {
		if r := recover(); r != nil {
			res.Panic = fmt.Sprint(r)
		}
		res.WallMs = time.Since(tStart).Milliseconds()
	}()
	h := &p.H
	tracks := mkTracks(h)
	var encMu sync.Mutex
	m := &gohlslib.Muxer{
		Tracks:             tracks,
		Variant:            variantOf(h.Variant),
		SegmentCount:       h.SegCount,
		SegmentMinDuration: time.Duration(h.SegMin),
		PartMinDuration:    time.Duration(h.PartMin),
		OnEncodeError: func(err error) {
			encMu.Lock()
			res.EncErrors = append(res.EncErrors, err.Error())
			encMu.Unlock()
		},
	}
	if err := m.Start(); err != nil {
		res.StartErr = err.Error()
		return res
	}
	for _, tr := range tracks {
		res.MuxCodecs = append(res.MuxCodecs, codecparams.Marshal(tr.Codec))
	}
	// the parameters the muxer's Track.Codec holds along the history, per track (a write that carries
	// parameter sets different from the current ones replaces them, C02)
	res.ParamLine = make([][]paramAt, len(h.Tracks))
	for i, t := range h.Tracks {
		_, cur := codecKindParams(mkCodec(t, t.Params0))
		res.ParamLine[i] = []paramAt{{Op: -1, Eff: -1, Params: cur}}
		for k := range h.Ops {
			a := &h.Ops[k]
			if a.Track != i || !a.HasParams {
				continue
			}
			if _, s := codecKindParams(mkCodecP(t, a.pset())); s != cur {
				cur = s
				eff := k
				if !a.RA {
					eff = 1 << 60
					for k2 := k + 1; k2 < len(h.Ops); k2++ {
						if h.Ops[k2].Track == i && h.Ops[k2].RA {
							eff = k2
							break
						}
					}
				}
				res.ParamLine[i] = append(res.ParamLine[i], paramAt{Op: k, Eff: eff, Params: s})
			}
		}
	}
	res.Written = make([][]written, len(h.Tracks))

	var writesStarted, writesDone int64
	st := &stub{m: m, writes: &writesStarted, done: &writesDone}
	leadingNextSeg := func() uint64 {
		for _, ss := range gohlslib.VerifSnapshot(m).Streams {
			if ss.IsLeading {
				return ss.NextSegmentID
			}
		}
		return 0
	}
	lastNextSeg := uint64(0)
	if h.Variant == 3 {
		lastNextSeg = leadingNextSeg()
	}
	var lag *lagCtl
	res.LagHeldClient = -1
	if p.Lag > 0 {
		lag = &lagCtl{release: make(chan struct{})}
	}
	t0 := time.Now()
	writerDone := make(chan struct{})
	var wmu sync.Mutex

	// writer: paced in real time by the media time of each unit
	go func() {
		defer close(writerDone)
		lagBase, lagBaseSet, lagReleased := uint64(0), false, false
		if lag != nil {
			defer func() {
				if !lagReleased {
					close(lag.release)
				}
			}()
		}
		if len(h.Ops) == 0 {
			return
		}
		first := int64(1) << 62
		for _, a := range h.Ops {
			if ns := tsNs(a.DTS, h.Tracks[a.Track].Rate); ns < first {
				first = ns
			}
		}
		for k := range h.Ops {
			a := &h.Ops[k]
			c := concretize(h, a)
			due := t0.Add(time.Duration(tsNs(a.DTS, h.Tracks[a.Track].Rate) - first))
			if d := time.Until(due); d > 0 {
				time.Sleep(d)
			}
			tr := tracks[a.Track]
			// the same instant, in a location that is not UTC for two pairs in three (what an application on a
			// host outside UTC passes: AbsoluteTime must not depend on the location of the time.Time)
			ntp := time.Unix(0, a.NTP).In(ntpLocs[(len(h.Ops)+len(h.Tracks))%3])
			atomic.StoreInt64(&writesStarted, int64(k)+1)
			var err error
			switch h.Tracks[a.Track].Kind {
			case kH264:
				err = m.WriteH264(tr, ntp, a.PTS, c.au)
			case kH265:
				err = m.WriteH265(tr, ntp, a.PTS, c.au)
			case kVP9:
				err = m.WriteVP9(tr, ntp, a.PTS, c.au[0])
			case kAV1:
				err = m.WriteAV1(tr, ntp, a.PTS, c.au)
			case kAAC:
				err = m.WriteMPEG4Audio(tr, ntp, a.PTS, c.au)
			case kOpus:
				err = m.WriteOpus(tr, ntp, a.PTS, c.au)
			}
			if h.Variant == 3 {
				if n := leadingNextSeg(); n != lastNextSeg {
					lastNextSeg = n
					res.SegCloses = append(res.SegCloses, k)
				}
			}
			atomic.StoreInt64(&writesDone, int64(k)+1)
			if lag != nil && !lagReleased && atomic.LoadInt32(&lag.held) != 0 {
				// the client is held in its first callback: whatever it has downloaded or will download before it is
				// released was listed by now (it keeps at most two segments queued behind the one it is processing)
				n := leadingNextSeg()
				switch {
				case !lagBaseSet:
					lagBase, lagBaseSet = n, true
				case n >= lagBase+uint64(p.Lag):
					lagReleased = true
					res.LagBySegments = true
					close(lag.release)
				}
			}
			wmu.Lock()
			if err != nil {
				res.WriteErrors = append(res.WriteErrors, fmt.Sprintf("write %d: %v", k, err))
			}
			for _, u := range c.units {
				u.Op = k
				res.Written[a.Track] = append(res.Written[a.Track], u)
			}
			wmu.Unlock()
		}
	}()

	// clients: attached at AttachMs; a client that gives up for a scheduling reason before it delivered
	// anything (not enough segments listed yet, ...) is replaced by a fresh one, as an application would
	stop := make(chan struct{})
	clientsDone := make(chan struct{})
	go func() {
		defer close(clientsDone)
		time.Sleep(time.Until(t0.Add(time.Duration(p.AttachMs) * time.Millisecond)))
		for attempt := 0; attempt < 12; attempt++ {
			st.mu.Lock()
			st.client = attempt
			st.mu.Unlock()
			cr := runClient(st, p, attempt, t0, stop, lag)
			res.Clients = append(res.Clients, cr)
			delivered := 0
			for _, t := range cr.Tracks {
				delivered += len(t.Units)
			}
			select {
			case <-stop:
				return
			default:
			}
			if cr.Outcome == "running" || delivered > 0 || !isSchedulingError(cr.Outcome) {
				return
			}
			select {
			case <-stop:
				return
			case <-time.After(150 * time.Millisecond):
			}
		}
	}()

	<-writerDone
	drain := 3*segEstimateMs(p) + 1200
	if h.Variant == 3 {
		drain = 1500
	}
	if drain > 9000 {
		drain = 9000
	}
	select {
	case <-clientsDone:
	case <-time.After(time.Duration(drain) * time.Millisecond):
	}
	close(stop)
	<-clientsDone
	m.Close()
	if lag != nil {
		res.LagHeldClient = int(atomic.LoadInt32(&lag.held)) - 1
	}

	st.mu.Lock()
	for _, e := range st.log {
		if e.Client < len(res.Clients) {
			res.Clients[e.Client].Reqs = append(res.Clients[e.Client].Reqs, e)
		}
	}
	st.mu.Unlock()
	return res
}

var ntpLocs = []*time.Location{time.UTC, time.FixedZone("east", 5*3600+1800), time.FixedZone("west", -8*3600)}
