package main

// H264 with picture reordering (copied from harness/cmd/mux/h264.go, reduced): a track with Reorder set
// uses, for the parameter ids with q = p mod 4 >= 2, an SPS with pic_order_cnt_type 0 built bit by bit
// (ITU-T H.264 7.3.2.1.1) under which mediacommon's h264.DTSExtractor - the muxer's, and the generator's
// own instance - reads pic_order_cnt_lsb from the slice headers and returns decode times that lag the
// presentation times; every slice NAL unit carries a real slice_header() prefix (7.3.3) of h264SliceHdrLen
// bytes in front of the payload filler. The written DTS of every unit of such a track is what the
// generator's extractor instance returned for the concrete access unit (gen.go).

import (
	"fmt"

	"github.com/bluenviron/mediacommon/v2/pkg/codecs/h264"
)

// kH264R: H264 with slice headers, for the functions that find the payload id in delivered / served bytes
const kH264R = 7

var h264Levels = []byte{0x28, 0x29, 0x2a}

type h264Var struct {
	profile, constraint byte
	mbW, mbH            int
	cropBottom          int
	refFrames           int
	timing              bool
	ticks, tscale       uint32
}

// q = 2: High profile, 1280x720 with VUI timing and a bitstream restriction announcing two reordered
// frames; q = 3: Main profile, 640x360 (cropped from 368), no VUI
var h264ReorderVars = map[int]h264Var{
	2: {profile: 100, constraint: 0x00, mbW: 80, mbH: 45, refFrames: 4, timing: true, ticks: 1, tscale: 50},
	3: {profile: 77, constraint: 0x40, mbW: 40, mbH: 23, cropBottom: 4, refFrames: 3},
}

const (
	h264Log2MaxFrameNum = 4
	h264Log2MaxPocLsb   = 6
	h264SliceHdrLen     = 4
)

func h264ReorderSPS(p int64) []byte {
	v := h264ReorderVars[2+pq(p)%2]
	var w bitw
	w.put(uint64(v.profile), 8)
	w.put(uint64(v.constraint), 8)
	w.put(uint64(h264Levels[pg(p)]), 8)
	w.ue(0) // seq_parameter_set_id
	if v.profile == 100 {
		w.ue(1)     // chroma_format_idc 4:2:0
		w.ue(0)     // bit_depth_luma_minus8
		w.ue(0)     // bit_depth_chroma_minus8
		w.put(0, 1) // qpprime_y_zero_transform_bypass_flag
		w.put(0, 1) // seq_scaling_matrix_present_flag
	}
	w.ue(h264Log2MaxFrameNum - 4) // log2_max_frame_num_minus4
	w.ue(0)                       // pic_order_cnt_type
	w.ue(h264Log2MaxPocLsb - 4)   // log2_max_pic_order_cnt_lsb_minus4
	w.ue(uint64(v.refFrames))     // max_num_ref_frames
	w.put(0, 1)                   // gaps_in_frame_num_value_allowed_flag
	w.ue(uint64(v.mbW - 1))
	w.ue(uint64(v.mbH - 1))
	w.put(1, 1) // frame_mbs_only_flag
	w.put(1, 1) // direct_8x8_inference_flag
	w.flag(v.cropBottom != 0)
	if v.cropBottom != 0 {
		w.ue(0)
		w.ue(0)
		w.ue(0)
		w.ue(uint64(v.cropBottom))
	}
	w.flag(v.timing) // vui_parameters_present_flag
	if v.timing {
		w.put(0, 1) // aspect_ratio_info_present_flag
		w.put(0, 1) // overscan_info_present_flag
		w.put(0, 1) // video_signal_type_present_flag
		w.put(0, 1) // chroma_loc_info_present_flag
		w.put(1, 1) // timing_info_present_flag
		w.put(uint64(v.ticks), 32)
		w.put(uint64(v.tscale), 32)
		w.put(1, 1) // fixed_frame_rate_flag
		w.put(0, 1) // nal_hrd_parameters_present_flag
		w.put(0, 1) // vcl_hrd_parameters_present_flag
		w.put(0, 1) // pic_struct_present_flag
		w.put(1, 1) // bitstream_restriction_flag
		w.put(1, 1) // motion_vectors_over_pic_boundaries_flag
		w.ue(2)     // max_bytes_per_pic_denom
		w.ue(1)     // max_bits_per_mb_denom
		w.ue(11)    // log2_max_mv_length_horizontal
		w.ue(11)    // log2_max_mv_length_vertical
		w.ue(2)     // max_num_reorder_frames
		w.ue(uint64(v.refFrames))
	}
	w.trailing()
	return append([]byte{0x67}, emulationPrevent(w.b)...)
}

// slice_header() up to pic_order_cnt_lsb (frame_mbs_only, 4-bit frame_num, 6-bit pic_order_cnt_lsb, PPS 0),
// padded with one bits to h264SliceHdrLen bytes; no two zero bytes: no start-code emulation
func h264SliceHeader(idr, bslice bool, id int64, poc int) []byte {
	var w bitw
	w.ue(0)         // first_mb_in_slice
	st := uint64(0) // P
	if idr {
		st = 2 // I
	} else if bslice {
		st = 1 // B
	}
	if id%2 == 0 {
		st += 5
	}
	w.ue(st)
	w.ue(0) // pic_parameter_set_id
	if idr {
		w.put(0, h264Log2MaxFrameNum)
		w.ue(uint64(id % 3)) // idr_pic_id
	} else {
		w.put(uint64(id%16), h264Log2MaxFrameNum)
	}
	w.put(uint64(poc)&(1<<h264Log2MaxPocLsb-1), h264Log2MaxPocLsb)
	for w.n < 8*h264SliceHdrLen {
		w.put(1, 1)
	}
	return w.b
}

func h264SliceNALU(a *auA, u unitA, idr bool) []byte {
	hdr := byte(0x41)
	if idr {
		hdr = 0x65
	} else if a.BSlice && u.ID%2 == 0 {
		hdr = 0x01 // a non-reference B picture
	}
	out := append([]byte{hdr}, h264SliceHeader(idr, a.BSlice, u.ID, a.Poc)...)
	return append(out, fill(u.ID, u.Len)...)
}

// idKindOf: the kind under which sampleID / callbackID look for the payload id of a track of [kind]
func idKindOf(h *history, kind int) int {
	if kind == kH264 {
		for _, t := range h.Tracks {
			if t.Kind == kH264 && t.Reorder {
				return kH264R
			}
		}
	}
	return kind
}

func selfCheckH264() {
	must := func(ok bool, f string, a ...interface{}) {
		if !ok {
			panic("concretisation self-check (h264): " + fmt.Sprintf(f, a...))
		}
	}
	for p := int64(0); p < 12; p++ {
		var sps h264.SPS
		must(sps.Unmarshal(h264ReorderSPS(p)) == nil, "SPS %d does not parse", p)
		must(sps.PicOrderCntType == 0 && sps.FrameMbsOnlyFlag && sps.LevelIdc == h264Levels[pg(p)], "SPS %d: %+v", p, sps)
	}
	// the DTS extractor on an I P B B P B B pattern: decode times lag the presentation times
	for _, p := range []int64{2, 3, 7} {
		ex := &h264.DTSExtractor{}
		ex.Initialize()
		type fr struct {
			idr, b bool
			disp   int
		}
		seq := []fr{{true, false, 0}, {false, false, 3}, {false, true, 1}, {false, true, 2}, {false, false, 6}, {false, true, 4}, {false, true, 5}}
		lag := false
		prev := int64(-1 << 40)
		for i, f := range seq {
			a := &auA{RA: f.idr, NonIDR: !f.idr, BSlice: f.b, Poc: 2 * f.disp}
			u := unitA{ID: int64(i + 1), Len: 20}
			au := [][]byte{h264SliceNALU(a, u, f.idr)}
			if f.idr {
				au = [][]byte{h264ReorderSPS(p), ppsOf(p), au[0]}
			}
			pts := int64(90000 + 3000*f.disp)
			d, err := ex.Extract(au, pts)
			must(err == nil && d >= prev && d <= pts, "DTS extractor, id %d frame %d: dts %d pts %d err %v", p, i, d, pts, err)
			if d < pts {
				lag = true
			}
			prev = d
			must(callbackID(kH264R, au) == u.ID, "h264 callback id")
		}
		must(lag, "DTS extractor never returned dts < pts under SPS id %d", p)
	}
}
