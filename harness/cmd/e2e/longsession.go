package main

import (
	"fmt"

	gohlslib "github.com/bluenviron/gohlslib/v2"
	"verifharness/internal/rng"
)

// Long sessions, at the level of the client's MPEG-TS time converter: a live pair is paced in real time and never
// gets further than seconds from its first unit, while the 33-bit timestamps of MPEG-TS wrap after 26.5 hours and the
// client's unwrapping is stateful. This leg feeds the real clientTimeConvMPEGTS with the timestamps the muxer puts on
// the wire for a written stream of many hours (written time + 10 s, modulo 2^33: what the live pairs observe on
// short streams), in the order the client's MPEG-TS reader converts them (PTS then DTS of each PES, video and audio
// interleaved), and requires every converted value to be the written time minus the first leading DTS.
type longDesc struct {
	Start      int64 `json:"start"`       // written DTS of the first leading unit, 90 kHz
	FrameTicks int64 `json:"frame_ticks"` // video frame duration
	Hours      int   `json:"hours"`
	Reorder    int64 `json:"reorder"`     // pts - dts of every third frame, in frames
	AudioLag   int64 `json:"audio_lag"`   // audio timestamps trail the video by this much
}

const wrap33 = int64(1) << 33

func wire(v int64) int64 { return ((v+10*90000)%wrap33 + wrap33) % wrap33 }

func genLong(seed uint64, i int) longDesc {
	r := rng.New(seed^0x10A65E55, uint64(i))
	d := longDesc{
		FrameTicks: []int64{3000, 3750, 1500, 3003}[r.Intn(4)],
		Hours:      14 + r.Intn(20),
		Reorder:    int64(r.Intn(3)),
		AudioLag:   int64(r.Intn(45000)),
	}
	switch i % 3 {
	case 0:
		d.Start = 0
	case 1:
		d.Start = wrap33 - 10*90000 - int64(r.Intn(90000*3600)) // the wire wraps within the first hour
	default:
		d.Start = int64(r.Intn(1 << 32))
	}
	return d
}

// runLong returns "" or a description of the first converted value that differs.
func runLong(d longDesc) (calls int, bad string) {
	conv := gohlslib.NewVerifMPEGTSConv(wire(d.Start))
	check := func(what string, k int64, written int64) bool {
		calls++
		got := conv.Convert(wire(written))
		if got != written-d.Start {
			bad = fmt.Sprintf("%s of unit %d (%.2f h after the first unit): written %d, first leading DTS %d, the client reports %d instead of %d",
				what, k, float64(written-d.Start)/90000/3600, written, d.Start, got, written-d.Start)
			return false
		}
		return true
	}
	end := d.Start + int64(d.Hours)*3600*90000
	audioDur := int64(1920) // 1024 samples at 48 kHz
	nextAudio := d.Start
	for k, dts := int64(0), d.Start; dts < end; k, dts = k+1, dts+d.FrameTicks {
		pts := dts
		if k%3 == 1 {
			pts += d.Reorder * d.FrameTicks
		}
		if !check("PTS", k, pts) || !check("DTS", k, dts) {
			return
		}
		for nextAudio+d.AudioLag <= dts {
			if nextAudio >= d.Start { // the client drops what precedes the first leading unit
				if !check("audio PTS", k, nextAudio) {
					return
				}
			}
			nextAudio += audioDur
		}
	}
	return
}
