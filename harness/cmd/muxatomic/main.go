//go:build verif

// Command muxatomic is the search leg of C04's last sentence ("all streams of one muxer expose
// the same media sequence numbers and durations at the same time").  It drives a real Muxer with
// a video stream and 1-3 audio renditions (fMP4 and Low-Latency) from one writer goroutine that
// rotates as often as it can, while reader goroutines fetch the media playlists through
// Muxer.Handle only, one request after the other:
//
//	X1 := GET stream x;  Y := GET stream y;  X2 := GET stream x      (x != y)
//
// Oracle "sandwich": if X1 and X2 are byte-identical, stream x did not change between them, so Y
// was generated while x was in exactly the state X1 shows: Y and X1 must then have the same
// MEDIA-SEQUENCE and the same list of segment durations (EXTINF text, GAP flags).
// Oracle "order": X1 was complete before Y was requested; with the property and the (proved)
// monotonicity of every stream, the number of segments ever published that Y shows cannot be
// smaller than what X1 shows; likewise X2 against Y.
// Both oracles only use client-side sequencing; neither can fire on a muxer that rotates all
// streams in one critical section.  No hook is placed between streams: the schedule in which a
// request gets the mutex between two streams has to be found by the Go scheduler.
package main

import (
	"crypto/sha256"
	"encoding/hex"
	"encoding/json"
	"flag"
	"fmt"
	"net/http"
	"net/url"
	"os"
	"path/filepath"
	"runtime"
	"sort"
	"strconv"
	"strings"
	"sync"
	"sync/atomic"
	"time"

	"github.com/bluenviron/gohlslib/v2"
	"github.com/bluenviron/gohlslib/v2/pkg/codecs"
	"github.com/bluenviron/gohlslib/v2/pkg/storage"
	"github.com/bluenviron/mediacommon/v2/pkg/codecs/mpeg4audio"

	"verifharness/internal/rng"
)

var testSPS = []byte{
	0x67, 0x42, 0xc0, 0x28, 0xd9, 0x00, 0x78, 0x02,
	0x27, 0xe5, 0x84, 0x00, 0x00, 0x03, 0x00, 0x04,
	0x00, 0x00, 0x03, 0x00, 0xf0, 0x3c, 0x60, 0xc9,
	0x20,
}

type respWriter struct {
	h      http.Header
	status int
	body   []byte
}

func (w *respWriter) Header() http.Header         { return w.h }
func (w *respWriter) WriteHeader(c int)           { w.status = c }
func (w *respWriter) Write(b []byte) (int, error) { w.body = append(w.body, b...); return len(b), nil }

// status -1: the handler panicked (body = the panic text)
func fetch(m *gohlslib.Muxer, path string) (body string, status int) {
	u, _ := url.Parse("http://localhost/" + path)
	w := &respWriter{h: make(http.Header)}
	defer func() {
		if p := recover(); p != nil {
			body, status = fmt.Sprint(p), -1
		}
	}()
	m.Handle(w, &http.Request{URL: u})
	if w.status == 0 {
		w.status = 200
	}
	return string(w.body), w.status
}

// what the oracle needs of a media playlist
type view struct {
	ok    bool
	msn   int64
	durs  []string // EXTINF text per listed segment, "gap:" prefix for a GAP entry
	count int64    // msn + number of listed segments = segments ever published
}

func parse(body string) view {
	v := view{msn: -1}
	gap := false
	for _, ln := range strings.Split(body, "\n") {
		ln = strings.TrimSpace(ln)
		switch {
		case strings.HasPrefix(ln, "#EXT-X-MEDIA-SEQUENCE:"):
			n, err := strconv.ParseInt(ln[len("#EXT-X-MEDIA-SEQUENCE:"):], 10, 64)
			if err != nil {
				return view{}
			}
			v.msn = n
		case ln == "#EXT-X-GAP":
			gap = true
		case strings.HasPrefix(ln, "#EXTINF:"):
			d := strings.TrimSuffix(ln[len("#EXTINF:"):], ",")
			if gap {
				d = "gap:" + d
			}
			gap = false
			v.durs = append(v.durs, d)
		}
	}
	if v.msn < 0 {
		return view{}
	}
	v.ok = true
	v.count = v.msn + int64(len(v.durs))
	return v
}

func firstLine(s string) string {
	if i := strings.Index(s, "\n"); i >= 0 {
		s = s[:i]
	}
	if len(s) > 200 {
		s = s[:200]
	}
	return s
}

func sameView(a, b view) bool {
	if a.msn != b.msn || len(a.durs) != len(b.durs) {
		return false
	}
	for i := range a.durs {
		if a.durs[i] != b.durs[i] {
			return false
		}
	}
	return true
}

type scenario struct {
	ID           int    `json:"id"`
	Variant      string `json:"variant"` // fmp4 | lowLatency
	Audio        int    `json:"audio_renditions"`
	SegmentCount int    `json:"segment_count"`
	Readers      int    `json:"readers"`
	Storage      string `json:"storage"` // ram | slow
	SlowMicros   int    `json:"slow_micros"`
	Procs        int    `json:"gomaxprocs"`
	Millis       int    `json:"run_millis"`
	FrameEvery   int    `json:"key_frame_every"` // a key frame (= a segment rotation) every n video frames
}

type observation struct {
	Kind      string   `json:"kind"` // sandwich | order | panic
	StreamX   string   `json:"stream_x"`
	StreamY   string   `json:"stream_y"`
	X1        string   `json:"response_x1"`
	Y         string   `json:"response_y"`
	X2        string   `json:"response_x2"`
	Rotations int64    `json:"segment_rotations_written_before"`
	Detail    string   `json:"detail"`
	Scenario  scenario `json:"scenario"`
}

type failure struct {
	Signature string      `json:"signature"`
	What      string      `json:"what"`
	Input     interface{} `json:"input"`
}

type slowFactory struct {
	in storage.Factory
	d  time.Duration
}

func (f *slowFactory) NewFile(name string) (storage.File, error) {
	// a storage whose allocation takes a while (a disk, a network file system): the critical section
	// of one stream's rotation gets longer
	t0 := time.Now()
	for time.Since(t0) < f.d {
	}
	return f.in.NewFile(name)
}

type runStats struct {
	rotations  int64
	requests   int64
	sandwiches int64 // X1 == X2: conclusive
	distinct   map[string]bool
	err        string
}

func runScenario(sc scenario) (*runStats, []observation) {
	prev := runtime.GOMAXPROCS(sc.Procs)
	defer runtime.GOMAXPROCS(prev)

	video := &gohlslib.Track{Codec: &codecs.H264{SPS: testSPS, PPS: []byte{0x08}}, ClockRate: 90000}
	tracks := []*gohlslib.Track{video}
	for i := 0; i < sc.Audio; i++ {
		tracks = append(tracks, &gohlslib.Track{
			Codec:     &codecs.MPEG4Audio{Config: mpeg4audio.Config{Type: 2, SampleRate: 48000, ChannelCount: 2}},
			ClockRate: 48000,
		})
	}
	m := &gohlslib.Muxer{
		Tracks:             tracks,
		SegmentCount:       sc.SegmentCount,
		SegmentMinDuration: 1 * time.Second,
		OnEncodeError:      func(error) {},
	}
	if sc.Variant == "lowLatency" {
		m.Variant = gohlslib.MuxerVariantLowLatency
		m.PartMinDuration = 200 * time.Millisecond
	} else {
		m.Variant = gohlslib.MuxerVariantFMP4
	}
	st := &runStats{distinct: map[string]bool{}}
	if err := m.Start(); err != nil {
		st.err = "Start: " + err.Error()
		return st, nil
	}
	if sc.Storage == "slow" {
		gohlslib.VerifWrapStorage(m, func(in storage.Factory) storage.Factory {
			return &slowFactory{in: in, d: time.Duration(sc.SlowMicros) * time.Microsecond}
		})
	}

	// stream names as the muxer publishes them: video1, audio2, audio3, ...
	names := []string{"video1_stream.m3u8"}
	for i := 0; i < sc.Audio; i++ {
		names = append(names, fmt.Sprintf("audio%d_stream.m3u8", i+2))
	}

	var rotations atomic.Int64
	var stop atomic.Bool
	var ready sync.WaitGroup
	ready.Add(1)
	var wg sync.WaitGroup
	var mu sync.Mutex
	var found []observation

	// writer: one goroutine, media time only (no sleeping): FrameEvery video frames per second of media time,
	// the first of them a key frame (= one segment rotation per second of media time), one audio access unit
	// per rendition per video frame
	var werr string
	wg.Add(1)
	go func() {
		defer wg.Done()
		signalled := false
		defer func() {
			if p := recover(); p != nil {
				werr = fmt.Sprint("writer panicked: ", p)
				if !signalled {
					ready.Done()
				}
				stop.Store(true)
			}
		}()
		base := time.Date(2010, 1, 1, 1, 1, 1, 0, time.UTC)
		deadline := time.Now().Add(time.Duration(sc.Millis) * time.Millisecond)
		for frame := 0; ; frame++ {
			if frame%16 == 0 && time.Now().After(deadline) {
				break
			}
			var au [][]byte
			if frame%sc.FrameEvery == 0 {
				au = [][]byte{testSPS, {8}, {5}}
			} else {
				au = [][]byte{{1}}
			}
			ntp := base.Add(time.Duration(frame) * time.Second / time.Duration(sc.FrameEvery))
			if err := m.WriteH264(video, ntp, int64(frame)*90000/int64(sc.FrameEvery), au); err != nil {
				werr = "WriteH264: " + err.Error()
				break
			}
			if frame%sc.FrameEvery == 0 && frame > 0 {
				rotations.Add(1)
			}
			for _, at := range tracks[1:] {
				if err := m.WriteMPEG4Audio(at, ntp, int64(frame)*48000/int64(sc.FrameEvery), [][]byte{{1, 2, 3, 4}}); err != nil {
					werr = "WriteMPEG4Audio: " + err.Error()
					break
				}
			}
			if werr != "" {
				break
			}
			if !signalled && rotations.Load() >= int64(sc.SegmentCount)+9 {
				signalled = true
				ready.Done()
			}
		}
		if !signalled {
			ready.Done()
		}
		stop.Store(true)
	}()

	var requests, sandwiches atomic.Int64
	for r := 0; r < sc.Readers; r++ {
		wg.Add(1)
		go func(r int) {
			defer wg.Done()
			ready.Wait()
			g := rng.New(uint64(sc.ID)*1000003+1, uint64(r))
			for !stop.Load() {
				x := g.Intn(len(names))
				y := g.Intn(len(names) - 1)
				if y >= x {
					y++
				}
				before := rotations.Load()
				bx1, s1 := fetch(m, names[x])
				by, s2 := fetch(m, names[y])
				bx2, s3 := fetch(m, names[x])
				requests.Add(3)
				if s1 == -1 || s2 == -1 || s3 == -1 {
					// a playlist handler panicked while the writer was rotating: nothing well-formed is exposed
					ob := observation{Kind: "panic", StreamX: names[x], StreamY: names[y], X1: bx1, Y: by, X2: bx2,
						Rotations: before, Scenario: sc, Detail: "Muxer.Handle panicked on a media playlist request during concurrent writes"}
					mu.Lock()
					if len(found) < 4 {
						found = append(found, ob)
					}
					mu.Unlock()
					stop.Store(true)
					continue
				}
				if s1 != 200 || s2 != 200 || s3 != 200 {
					continue
				}
				vx1, vy, vx2 := parse(bx1), parse(by), parse(bx2)
				if !vx1.ok || !vy.ok || !vx2.ok {
					continue
				}
				var ob *observation
				if bx1 == bx2 {
					sandwiches.Add(1)
					if !sameView(vx1, vy) {
						ob = &observation{Kind: "sandwich", Detail: fmt.Sprintf(
							"%s answered identically before and after (MEDIA-SEQUENCE %d, %d segments); in between %s answered MEDIA-SEQUENCE %d, %d segments, durations %v vs %v",
							names[x], vx1.msn, len(vx1.durs), names[y], vy.msn, len(vy.durs), vy.durs, vx1.durs)}
					}
				}
				if ob == nil && (vy.count < vx1.count || vx2.count < vy.count) {
					ob = &observation{Kind: "order", Detail: fmt.Sprintf(
						"segments ever published as seen by three consecutive requests: %s %d, then %s %d, then %s %d",
						names[x], vx1.count, names[y], vy.count, names[x], vx2.count)}
				}
				if ob != nil {
					ob.StreamX, ob.StreamY, ob.X1, ob.Y, ob.X2 = names[x], names[y], bx1, by, bx2
					ob.Rotations = before
					ob.Scenario = sc
					mu.Lock()
					if len(found) < 4 {
						found = append(found, *ob)
					}
					mu.Unlock()
					stop.Store(true)
				}
			}
		}(r)
	}
	wg.Wait()
	m.Close()
	st.rotations = rotations.Load()
	st.requests = requests.Load()
	st.sandwiches = sandwiches.Load()
	st.err = werr
	return st, found
}

func scenarios(seed uint64, tier string, widen bool) []scenario {
	g := rng.New(seed, 4004)
	n := 6
	millis := 700
	if tier == "thorough" {
		n = 40
		millis = 2500
	}
	if widen {
		n *= 3
	}
	procs := runtime.NumCPU()
	if procs < 4 {
		procs = 4
	}
	var out []scenario
	for i := 0; i < n; i++ {
		sc := scenario{ID: i, Millis: millis, Procs: procs}
		if i%2 == 0 {
			sc.Variant = "fmp4"
		} else {
			sc.Variant = "lowLatency"
		}
		sc.Audio = 1 + i%3
		sc.SegmentCount = 3 + g.Intn(3)
		if sc.Variant == "lowLatency" {
			sc.SegmentCount = 7 + g.Intn(3)
		}
		sc.Readers = 2 + g.Intn(5)
		sc.FrameEvery = []int{1, 1, 2, 4}[g.Intn(4)]
		if (i/2)%2 == 1 {
			sc.Storage = "slow"
			sc.SlowMicros = 20 + g.Intn(200)
		} else {
			sc.Storage = "ram"
		}
		if i%5 == 4 {
			sc.Procs = 4
		}
		out = append(out, sc)
	}
	return out
}

func main() {
	seed := flag.Uint64("seed", 0, "seed")
	tier := flag.String("tier", "quick", "quick|thorough")
	out := flag.String("out", "", "output directory")
	widen := flag.Bool("widen", false, "larger search")
	replay := flag.String("replay", "", "replay file written by the driver")
	flag.Parse()
	if *out == "" {
		fmt.Fprintln(os.Stderr, "muxatomic: -out required")
		os.Exit(2)
	}
	os.MkdirAll(*out, 0o755)

	scs := scenarios(*seed, *tier, *widen)
	attempts := 1
	if *replay != "" {
		// a torn observation depends on the schedule: the replay re-runs the recorded scenario until the oracle
		// fires again (bounded), and reports the recorded observation next to the new one
		b, err := os.ReadFile(*replay)
		if err != nil {
			fmt.Fprintln(os.Stderr, "muxatomic:", err)
			os.Exit(2)
		}
		var rp struct {
			Input observation `json:"input"`
		}
		if err := json.Unmarshal(b, &rp); err != nil || rp.Input.Scenario.Millis == 0 {
			fmt.Fprintln(os.Stderr, "muxatomic: replay file has no scenario")
			os.Exit(2)
		}
		sc := rp.Input.Scenario
		sc.Millis = 3000
		scs = []scenario{sc}
		attempts = 10
	}

	var failures []failure
	dist := map[string]int{}
	samples := []interface{}{}
	evaluations := int64(0)
	distinct := map[string]bool{}
	var infra []string
	totalRot, totalReq, totalSand := int64(0), int64(0), int64(0)
	t0 := time.Now()
	for _, sc := range scs {
		for a := 0; a < attempts; a++ {
			st, found := runScenario(sc)
			if st.err != "" {
				infra = append(infra, fmt.Sprintf("scenario %d: %s", sc.ID, st.err))
			}
			totalRot += st.rotations
			totalReq += st.requests
			totalSand += st.sandwiches
			evaluations += st.sandwiches
			dist[fmt.Sprintf("variant=%s", sc.Variant)]++
			dist[fmt.Sprintf("audio=%d", sc.Audio)]++
			dist[fmt.Sprintf("storage=%s", sc.Storage)]++
			dist[fmt.Sprintf("readers=%d", sc.Readers)]++
			h := sha256.Sum256([]byte(fmt.Sprintf("%+v", sc)))
			if st.sandwiches > 0 && st.rotations > int64(sc.SegmentCount)+9 {
				distinct[hex.EncodeToString(h[:8])] = true
			}
			if len(samples) < 3 {
				samples = append(samples, map[string]interface{}{"scenario": sc, "rotations": st.rotations,
					"requests": st.requests, "conclusive_sandwiches": st.sandwiches})
			}
			for _, ob := range found {
				failures = append(failures, failure{
					Signature: fmt.Sprintf("C04:%s:streams-disagree-at-the-same-time:%s", sc.Variant, ob.Kind),
					What: func() string {
						if ob.Kind == "panic" {
							return fmt.Sprintf("a request for %s / %s made while the writer rotates does not get a playlist at all: %s: %s",
								ob.StreamX, ob.StreamY, ob.Detail, firstLine(ob.X1+ob.Y+ob.X2))
						}
						return fmt.Sprintf("%s and %s expose different media sequence numbers / durations at the same time (%s): %s",
							ob.StreamX, ob.StreamY, ob.Kind, ob.Detail)
					}(),
					Input: ob,
				})
			}
			if len(found) > 0 {
				break
			}
		}
		if len(failures) > 0 {
			break
		}
	}
	keys := make([]string, 0, len(dist))
	for k := range dist {
		keys = append(keys, k)
	}
	sort.Strings(keys)
	res := map[string]interface{}{
		"evaluations":                   evaluations,
		"distinct_nontrivial":           len(distinct),
		"rule":                          "atomic-rotation search: scenarios (variant, renditions, readers, storage speed) distinct by hash in which the writer performed more than SegmentCount+9 segment rotations and at least one conclusive sandwich (first and third response identical) was evaluated",
		"samples":                       samples,
		"traces_validated_against_impl": 0,
		"distribution":                  dist,
		"oracle_failures":               failures,
		"infra_errors":                  infra,
		"segment_rotations":             totalRot,
		"requests":                      totalReq,
		"conclusive_sandwiches":         totalSand,
		"scenarios":                     len(scs),
		"seconds":                       time.Since(t0).Seconds(),
	}
	b, _ := json.MarshalIndent(res, "", " ")
	if err := os.WriteFile(filepath.Join(*out, "result.json"), append(b, '\n'), 0o644); err != nil {
		fmt.Fprintln(os.Stderr, "muxatomic:", err)
		os.Exit(2)
	}
}
