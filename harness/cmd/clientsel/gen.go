package main

import (
	"fmt"
	"strings"

	"verifharness/internal/rng"
)

// ---- URI forms ----

// segURI writes the URI of media object `name` of a stream in one of the generated forms
func segURI(style int, name string, id int64) string {
	switch style {
	case 0:
		return name
	case 1:
		return "sub/dir/" + name
	case 2:
		return "../" + name
	case 3:
		return "./a/../" + name
	case 4:
		return "/abs/dir/" + name
	case 5:
		return "http://cdn.example:8080/x/" + name
	case 6:
		return "//cdn2.example/y/" + name
	case 7:
		return fmt.Sprintf("%s?tok=abc&n=%d", name, id)
	case 8:
		return "/abs/" + name + "?x=1"
	case 9:
		return "https://secure.example/" + name + "?sig=Zm9v"
	case 10:
		return "../../../../" + name
	case 11:
		return "a/./b/../../" + name
	case 12:
		return "%zz/" + name // url.Parse: invalid URL escape
	case 13:
		return "1a:b/" + name // url.Parse: first path segment in URL cannot contain colon
	}
	return name
}

const nGoodStyles = 12

type uriPolicy struct {
	mode  int // 0 one style, 1 style by id, 2 style by (id, poll)
	style int
	salt  uint64
	bad   int64 // id whose URI does not parse (-1 = none)
}

func (u uriPolicy) styleFor(id int64, poll int) int {
	if id == u.bad {
		return 12 + int(u.salt%2)
	}
	switch u.mode {
	case 0:
		return u.style
	case 1:
		return int((uint64(id)*0x9E3779B97F4A7C15 + u.salt) >> 33 % nGoodStyles)
	}
	return int((uint64(id)*0x9E3779B97F4A7C15 + uint64(poll)*0xD1B54A32D192ED03 + u.salt) >> 33 % nGoodStyles)
}

type rangePolicy struct {
	mode int // 0 none, 1 by id
	salt uint64
}

func u64p(v uint64) *uint64 { return &v }

func (p rangePolicy) rangeFor(id int64) (*uint64, *uint64) {
	if p.mode == 0 {
		return nil, nil
	}
	x := (uint64(id)*0xBF58476D1CE4E5B9 + p.salt) >> 20
	switch x % 8 {
	case 0, 1:
		return nil, nil
	case 2, 3:
		return nil, u64p(1 + x%100000) // length only: start absent
	case 4, 5:
		return u64p(x % 1000003), u64p(1 + (x>>7)%50000)
	case 6:
		return u64p(0), u64p(1)
	default:
		switch (x >> 9) % 4 {
		case 0:
			return u64p(1 << 62), u64p(1 << 62) // large
		case 1:
			return u64p(18446744073709551615 - 9), u64p(10) // ends exactly at 2^64-1
		case 2:
			return nil, u64p(0) // degenerate: length 0 (the Range wraps; only the tie looks at it)
		default:
			return u64p(18446744073709551615), u64p(5) // beyond 2^64 (wraps; only the tie looks at it)
		}
	}
}

// ---- one stream's server script ----

type streamGen struct {
	r      *rng.R
	idx    int // stream index (name prefix)
	format string
	uris   uriPolicy
	ranges rangePolicy
	mapT   *MapT
}

func newStreamGen(r *rng.R, idx int, format string, allowBad bool) *streamGen {
	g := &streamGen{r: r, idx: idx, format: format}
	g.uris = uriPolicy{mode: r.Pick(3, 4, 1), style: r.Intn(nGoodStyles), salt: r.U64(), bad: -1}
	g.ranges = rangePolicy{mode: r.Pick(2, 3), salt: r.U64()}
	if allowBad && r.Bool(1, 14) {
		g.uris.bad = -2 // chosen later, relative to the start
	}
	if format == "fmp4" {
		name := fmt.Sprintf("s%d-init.mp4", idx)
		m := &MapT{URI: segURI(r.Intn(nGoodStyles), name, 0)}
		switch r.Intn(4) {
		case 1:
			m.Len = u64p(uint64(600 + r.Intn(100)))
		case 2:
			m.Len = u64p(uint64(600 + r.Intn(100)))
			m.Start = u64p(uint64(r.Intn(5000)))
		}
		g.mapT = m
	}
	return g
}

func (g *streamGen) ext() string {
	if g.format == "fmp4" {
		return "mp4"
	}
	return "ts"
}

func (g *streamGen) seg(id int64, poll int) Seg {
	name := fmt.Sprintf("s%d-seg%d.%s", g.idx, id, g.ext())
	st, ln := g.ranges.rangeFor(id)
	return Seg{URI: segURI(g.uris.styleFor(id, poll), name, id), Start: st, Len: ln, ID: id}
}

func (g *streamGen) playlist(msn int64, n int, poll int, endlist bool, typ string) Playlist {
	p := Playlist{MSN: msn, Endlist: endlist, Type: typ}
	for i := 0; i < n; i++ {
		p.Segs = append(p.Segs, g.seg(msn+int64(i), poll))
	}
	if g.mapT != nil {
		m := *g.mapT
		p.Map = &m
	}
	return p
}

func baseMSN(r *rng.R) int64 {
	switch r.Intn(5) {
	case 0:
		return 0
	case 1:
		return int64(r.Intn(10))
	case 2:
		return 2147483000 + int64(r.Intn(500)) // close to the 2^31 limit of the parser
	}
	return int64(r.Intn(100000))
}

// history profiles (traditional mode). The client starts third-from-last (first for VOD) and
// moves one MSN per poll; the profiles move the server's window around it.
func (g *streamGen) history(profile string) []Playlist {
	r := g.r
	var h []Playlist
	msn := baseMSN(r)
	switch profile {
	case "steady":
		// window of w, advances by exactly 1 per poll, ENDLIST at some poll, then repeated
		w := 3 + r.Intn(8)
		if r.Bool(1, 6) {
			w = 1 + r.Intn(10)
		}
		n := 1 + r.Intn(10)
		typ := []string{"", "", "EVENT"}[r.Intn(3)]
		for k := 0; k < n; k++ {
			h = append(h, g.playlist(msn+int64(k), w, k, false, typ))
		}
		if r.Bool(4, 5) {
			// the final playlist: one more segment and ENDLIST, or ENDLIST added to the same window
			adv := int64(r.Intn(2))
			last := msn + int64(n-1) + adv
			rep := 1 + r.Intn(5)
			for k := 0; k < rep; k++ {
				h = append(h, g.playlist(last, w, n+k, true, typ))
			}
		}
	case "random":
		// MSN advances by 0..kmax per poll, window size drifts in 1..10
		kmax := 1 + r.Intn(3)
		w := 1 + r.Intn(10)
		n := 2 + r.Intn(14)
		typ := []string{"", "", "EVENT"}[r.Intn(3)]
		endAt := -1
		if r.Bool(1, 2) {
			endAt = r.Intn(n)
		}
		for k := 0; k < n; k++ {
			h = append(h, g.playlist(msn, w, k, endAt >= 0 && k >= endAt, typ))
			if endAt >= 0 && k >= endAt {
				continue // an ended playlist does not change
			}
			msn += int64(r.Intn(kmax + 1))
			if r.Bool(1, 3) {
				w += r.Intn(3) - 1
				if w < 1 {
					w = 1
				}
				if w > 10 {
					w = 10
				}
			}
		}
	case "event":
		// EVENT playlist: MSN fixed, the list only grows, then ENDLIST
		w := 1 + r.Intn(6)
		n := 2 + r.Intn(10)
		for k := 0; k < n; k++ {
			end := k == n-1 && r.Bool(2, 3)
			h = append(h, g.playlist(msn, w, k, end, "EVENT"))
			w += r.Intn(3)
			if w > 10 {
				w = 10
			}
		}
		if h[len(h)-1].Endlist {
			rep := r.Intn(8)
			for k := 0; k < rep; k++ {
				p := g.playlist(msn, len(h[n-1].Segs), n+k, true, "EVENT")
				h = append(h, p)
			}
		}
	case "vod":
		w := 1 + r.Intn(10)
		n := 1 + r.Intn(w+3)
		end := r.Bool(5, 6)
		for k := 0; k < n; k++ {
			h = append(h, g.playlist(msn, w, k, end, "VOD"))
		}
	case "short":
		// fewer than 3 segments at the start
		w := 1 + r.Intn(2)
		typ := []string{"", "EVENT", "VOD"}[r.Pick(3, 2, 1)]
		n := 1 + r.Intn(4)
		for k := 0; k < n; k++ {
			h = append(h, g.playlist(msn+int64(k), w+k, k, r.Bool(1, 4), typ))
		}
	case "jump":
		// a few regular polls, then the window moves far ahead or back
		w := 3 + r.Intn(8)
		n := 1 + r.Intn(5)
		for k := 0; k < n; k++ {
			h = append(h, g.playlist(msn+int64(k), w, k, false, ""))
		}
		d := int64(r.Intn(30)) - 8
		nm := msn + int64(n-1) + d
		if nm < 0 {
			nm = 0
		}
		h = append(h, g.playlist(nm, 1+r.Intn(10), n, r.Bool(1, 3), ""))
		h = append(h, g.playlist(nm+1, 1+r.Intn(10), n+1, r.Bool(1, 3), ""))
	case "fast":
		// the server produces faster than the client consumes: too late sooner or later
		w := 4 + r.Intn(7)
		n := 3 + r.Intn(8)
		step := int64(2 + r.Intn(2))
		grow := r.Bool(1, 2)
		for k := 0; k < n; k++ {
			ww := w
			if grow {
				ww = w + k
				if ww > 10 {
					ww = 10
				}
			}
			h = append(h, g.playlist(msn+int64(k)*step, ww, k, k == n-1 && r.Bool(1, 3), ""))
		}
	case "chaos":
		// any evolution at all
		n := 1 + r.Intn(12)
		for k := 0; k < n; k++ {
			m := msn + int64(r.Intn(12)) - 3
			if m < 0 {
				m = 0
			}
			typ := []string{"", "EVENT", "VOD"}[r.Pick(4, 2, 1)]
			h = append(h, g.playlist(m, 1+r.Intn(10), k, r.Bool(1, 5), typ))
		}
	case "endlist-late":
		// the shape of the end-of-stream finding: the window stops, the client reaches the last
		// segment, then ENDLIST is added without a new segment
		w := 3 + r.Intn(5)
		stall := 3 + r.Intn(2)
		for k := 0; k < stall; k++ {
			h = append(h, g.playlist(msn, w, k, false, ""))
		}
		h = append(h, g.playlist(msn, w, stall, true, ""))
	case "endlist-burst":
		// live (or EVENT) at join time; then, in ONE update, the list grows by several segments and ENDLIST is
		// set: the next segment is more than clientLiveMaxDistanceFromEnd entries from the end of an ENDED
		// playlist, which has no live edge to fall behind (round 10: C11-m13, the too-late check gated on the
		// first playlist's ENDLIST flag)
		w := 3 + r.Intn(6)
		n := 1 + r.Intn(4)
		typ := []string{"", "EVENT"}[r.Intn(2)]
		for k := 0; k < n; k++ {
			if typ == "EVENT" {
				h = append(h, g.playlist(msn, w+k, k, false, typ))
			} else {
				h = append(h, g.playlist(msn+int64(k), w, k, false, typ))
			}
		}
		burst := 4 + r.Intn(7)
		last := h[len(h)-1]
		total := len(last.Segs) + burst
		for k := 0; k < total+2; k++ {
			h = append(h, g.playlist(last.MSN, total, n+k, true, typ))
		}
	}
	if g.uris.bad == -2 && len(h) > 0 {
		// make one of the entries the client is likely to reach unparsable
		p0 := h[0]
		start := p0.MSN
		if p0.Type != "VOD" && len(p0.Segs) >= 3 {
			start = p0.MSN + int64(len(p0.Segs)-3)
		}
		g.uris.bad = start + int64(r.Intn(4))
		for k := range h {
			for i := range h[k].Segs {
				h[k].Segs[i] = g.seg(h[k].Segs[i].ID, k)
			}
		}
	}
	return h
}

// low-latency histories
func (g *streamGen) historyLL(variant int) []Playlist {
	r := g.r
	var h []Playlist
	msn := baseMSN(r)
	n := 1 + r.Intn(12)
	skip0 := r.Bool(1, 2)
	hstyle := r.Intn(nGoodStyles)
	for k := 0; k < n; k++ {
		p := g.playlist(msn+int64(k/3), 1+r.Intn(6), k, false, "")
		sc := &SC{Block: true, Skip: skip0}
		if k > 0 && r.Bool(1, 4) {
			sc.Skip = !skip0 // later playlists may advertise differently
		}
		if k > 0 && r.Bool(1, 8) {
			sc = nil
		}
		p.SC = sc
		name := fmt.Sprintf("s%d-part%d.%s", g.idx, k, g.ext())
		st := hstyle
		if r.Bool(1, 4) {
			st = r.Intn(nGoodStyles)
		}
		hint := &Hint{URI: segURI(st, name, int64(k))}
		switch r.Intn(4) {
		case 1:
			hint.Len = u64p(uint64(1 + r.Intn(5000)))
		case 2:
			hint.Len = u64p(uint64(1 + r.Intn(5000)))
			hint.Start = uint64(r.Intn(100000))
		}
		p.Hint = hint
		h = append(h, p)
	}
	switch variant {
	case 0: // the hint disappears (e.g. the stream ends)
		p := g.playlist(msn+int64(n/3), 1+r.Intn(6), n, r.Bool(1, 2), "")
		p.SC = &SC{Block: true, Skip: skip0}
		h = append(h, p)
	case 1: // the server stops answering
	case 2: // not low latency after all: CAN-BLOCK-RELOAD missing, or no hint in the first playlist
		if r.Bool(1, 2) {
			h[0].SC.Block = false
		} else if r.Bool(1, 2) {
			h[0].SC = nil
		} else {
			h[0].Hint = nil
		}
	case 3: // an unparsable hint URI somewhere
		k := r.Intn(len(h))
		h[k].Hint.URI = segURI(12, fmt.Sprintf("s%d-part%d.%s", g.idx, k, g.ext()), 0)
	}
	return h
}

var plStyles = []string{
	"http://stub.test/live/a/b/%s",
	"http://stub.test/%s",
	"http://stub.test:8888/live/%s?token=abc&user=7",
	"http://stub.test/x/y/z/%s?b=2&a=1&_z=9&Z=0",
	"https://tls.test/hls/%s",
}

var tradProfiles = []string{"steady", "random", "event", "vod", "short", "jump", "fast", "chaos", "endlist-late"}

func genCase(r *rng.R) Case {
	format := []string{"ts", "fmp4"}[r.Intn(2)]
	kind := r.Pick(10, 3, 4) // single traditional, single low-latency, several renditions
	switch kind {
	case 0:
		prof := tradProfiles[r.Pick(6, 6, 3, 3, 1, 2, 2, 2, 1)]
		g := newStreamGen(r, 0, format, true)
		c := Case{Profile: prof, Format: format}
		ref := fmt.Sprintf(plStyles[r.Intn(len(plStyles))], "s0-pl.m3u8")
		st := Stream{Ref: ref, History: g.history(prof)}
		if f := r.Fork(0xb0057); f.Bool(1, 10) {
			// drawn from a fork: the histories of a seed stay what they were
			g.r = f
			g.uris.bad = -1
			c.Profile = "endlist-burst"
			st.History = g.history("endlist-burst")
		}
		if r.Bool(1, 5) {
			// through a multivariant playlist with a single variant
			c.MasterURL = "http://stub.test/m/master.m3u8"
			st.Ref = []string{"s0-pl.m3u8", "v/s0-pl.m3u8?x=1", "/abs/s0-pl.m3u8", "http://other.test/r/s0-pl.m3u8", "../s0-pl.m3u8"}[r.Intn(5)]
		}
		c.Streams = []Stream{st}
		return c
	case 1:
		if r.Bool(2, 3) {
			format = "fmp4"
		}
		g := newStreamGen(r, 0, format, false)
		v := r.Pick(4, 3, 2, 1)
		c := Case{Profile: fmt.Sprintf("ll-%d", v), Format: format}
		ref := fmt.Sprintf(plStyles[r.Intn(len(plStyles))], "s0-pl.m3u8")
		c.Streams = []Stream{{Ref: ref, History: g.historyLL(v)}}
		return c
	}
	// several renditions evolving independently
	ns := 2 + r.Intn(2)
	c := Case{Profile: "multi", Format: format}
	c.MasterURL = []string{"http://stub.test/m/master.m3u8", "http://stub.test/master.m3u8?t=1", "http://stub.test/a/b/c/master.m3u8"}[r.Intn(3)]
	mode := r.Pick(3, 2, 2) // all reach EOS; one fails; free
	for i := 0; i < ns; i++ {
		g := newStreamGen(r, i, format, false)
		name := fmt.Sprintf("s%d-pl.m3u8", i)
		ref := []string{name, "r/" + name + "?x=1", "/abs/" + name, "http://other.test/r/" + name, "../" + name}[r.Intn(5)]
		var h []Playlist
		switch {
		case mode == 0 || (mode == 1 && i != ns-1):
			// ends properly: steady window then ENDLIST long enough, or VOD
			if r.Bool(1, 3) {
				w := 1 + r.Intn(8)
				msn := baseMSN(r)
				for k := 0; k < w+1; k++ {
					h = append(h, g.playlist(msn, w, k, true, "VOD"))
				}
			} else {
				w := 3 + r.Intn(6)
				n := 1 + r.Intn(6)
				msn := baseMSN(r)
				for k := 0; k < n; k++ {
					h = append(h, g.playlist(msn+int64(k), w, k, false, ""))
				}
				for k := 0; k < 4; k++ {
					h = append(h, g.playlist(msn+int64(n), w, n+k, true, ""))
				}
			}
		case mode == 1:
			h = g.history([]string{"jump", "fast", "short"}[r.Intn(3)])
		default:
			h = g.history(tradProfiles[r.Pick(6, 6, 3, 3, 1, 2, 2, 2, 0)])
		}
		c.Streams = append(c.Streams, Stream{Ref: ref, History: h})
	}
	return c
}

// corpus: boundary cases run first on every run
func corpus() []Case {
	g := func(idx int, format string) *streamGen {
		sg := &streamGen{idx: idx, format: format}
		sg.uris = uriPolicy{mode: 0, style: 0, bad: -1}
		if format == "fmp4" {
			sg.mapT = &MapT{URI: fmt.Sprintf("s%d-init.mp4", idx)}
		}
		return sg
	}
	a := g(0, "ts")
	var out []Case
	// exactly 3 segments, steady, ENDLIST with a new last segment -> EOS
	out = append(out, Case{Profile: "corpus-eos", Format: "ts", Streams: []Stream{{Ref: "http://stub.test/live/s0-pl.m3u8",
		History: []Playlist{a.playlist(5, 3, 0, false, ""), a.playlist(6, 3, 1, false, ""), a.playlist(6, 3, 2, true, "")}}}})
	// VOD, one segment
	out = append(out, Case{Profile: "corpus-vod1", Format: "ts", Streams: []Stream{{Ref: "http://stub.test/s0-pl.m3u8",
		History: []Playlist{a.playlist(0, 1, 0, true, "VOD")}}}})
	// exactly 5 from the end is fine, 6 is too late
	out = append(out, Case{Profile: "corpus-dist5", Format: "ts", Streams: []Stream{{Ref: "http://stub.test/s0-pl.m3u8",
		History: []Playlist{a.playlist(0, 3, 0, false, ""), a.playlist(0, 6, 1, false, ""), a.playlist(0, 8, 2, false, "")}}}})
	// untyped playlist that already carries ENDLIST: starts third from last
	out = append(out, Case{Profile: "corpus-untyped-endlist", Format: "ts", Streams: []Stream{{Ref: "http://stub.test/s0-pl.m3u8",
		History: []Playlist{a.playlist(0, 6, 0, true, ""), a.playlist(0, 6, 1, true, ""), a.playlist(0, 6, 2, true, "")}}}})
	// the witness of the former finding C11-F11 (fixed by 3b9aa17; Proofs/ClientSelMain.v
	// ex_eos_endlist_after_last): segments 0..2 served three times (the client fetches 0, 1, 2), then
	// ENDLIST is added without a new segment. Kept first in the corpus: it must end with EOS.
	out = append(out, Case{Profile: "corpus-eos-endlist-late", Format: "ts", Streams: []Stream{{Ref: "http://h/s0-pl.m3u8",
		History: []Playlist{a.playlist(0, 3, 0, false, ""), a.playlist(0, 3, 1, false, ""), a.playlist(0, 3, 2, false, ""),
			a.playlist(0, 3, 3, true, "")}}}})
	b := g(0, "fmp4")
	ll := func(k int, hint bool, skip bool) Playlist {
		p := b.playlist(20, 1, k, false, "")
		p.SC = &SC{Block: true, Skip: skip}
		if hint {
			p.Hint = &Hint{URI: fmt.Sprintf("s0-part%d.mp4", k)}
		}
		return p
	}
	out = append(out, Case{Profile: "corpus-ll", Format: "fmp4", Streams: []Stream{{Ref: "http://stub.test/s0-pl.m3u8?token=x",
		History: []Playlist{ll(0, true, true), ll(1, true, false), ll(2, true, true), ll(3, false, true)}}}})
	// paced scenarios: 300 ms of media per segment, so that fetched segments are still queued / waiting
	// in the track processor when the downloader learns that the stream is over. ErrClientEOS must
	// come only after everything fetched has been delivered (judge: Delivered).
	const slow = 27000
	out = append(out, Case{Profile: "corpus-paced-endlist-late", Format: "ts", Pace: slow, Streams: []Stream{{Ref: "http://stub.test/p/s0-pl.m3u8",
		History: []Playlist{a.playlist(0, 3, 0, false, ""), a.playlist(0, 3, 1, false, ""), a.playlist(0, 3, 2, false, ""),
			a.playlist(0, 3, 3, true, "")}}}})
	out = append(out, Case{Profile: "corpus-paced-endlist-late-fmp4", Format: "fmp4", Pace: slow, Streams: []Stream{{Ref: "http://stub.test/p/s0-pl.m3u8",
		History: []Playlist{b.playlist(40, 5, 0, false, "EVENT"), b.playlist(40, 5, 1, false, "EVENT"), b.playlist(40, 5, 2, false, "EVENT"),
			b.playlist(40, 5, 3, true, "EVENT")}}}})
	out = append(out, Case{Profile: "corpus-paced-endlist-with-last-segment", Format: "ts", Pace: slow, Streams: []Stream{{Ref: "http://stub.test/p/s0-pl.m3u8",
		History: []Playlist{a.playlist(5, 3, 0, false, ""), a.playlist(6, 3, 1, false, ""), a.playlist(7, 3, 2, true, ""),
			a.playlist(7, 3, 3, true, ""), a.playlist(7, 3, 4, true, "")}}}})
	{
		a1 := g(1, "ts")
		out = append(out, Case{Profile: "corpus-paced-endlist-late-multi", Format: "ts", Pace: slow, MasterURL: "http://stub.test/m/master.m3u8",
			Streams: []Stream{
				{Ref: "s0-pl.m3u8", History: []Playlist{a.playlist(0, 3, 0, false, ""), a.playlist(0, 3, 1, false, ""), a.playlist(0, 3, 2, false, ""),
					a.playlist(0, 3, 3, true, "")}},
				{Ref: "s1-pl.m3u8", History: []Playlist{a1.playlist(9, 4, 0, false, ""), a1.playlist(9, 4, 1, false, ""), a1.playlist(9, 4, 2, false, ""),
					a1.playlist(9, 4, 3, true, "")}}}})
	}
	// segments that share a URI (sub-ranges of one resource with explicit offsets, or a plainly
	// repeated URI) in playlists that carry ENDLIST: every listed segment must still be fetched
	// exactly once, in order, before the stream ends
	vod := Case{Profile: "corpus-shared-vod-ranges", Format: "ts", Streams: []Stream{{Ref: "http://stub.test/vod/s0-pl.m3u8",
		History: []Playlist{a.playlist(0, 4, 0, true, "VOD"), a.playlist(0, 4, 1, true, "VOD"), a.playlist(0, 4, 2, true, "VOD"),
			a.playlist(0, 4, 3, true, "VOD"), a.playlist(0, 4, 4, true, "VOD")}}}}
	shareURIsMode(&vod, 0, 0, 564, 2)
	out = append(out, vod)
	live := Case{Profile: "corpus-shared-live-endlist-ranges", Format: "ts", Streams: []Stream{{Ref: "http://stub.test/live/s0-pl.m3u8",
		History: []Playlist{a.playlist(7, 5, 0, false, ""), a.playlist(8, 5, 1, false, ""), a.playlist(9, 5, 2, true, ""),
			a.playlist(9, 5, 3, true, ""), a.playlist(9, 5, 4, true, ""), a.playlist(9, 5, 5, true, "")}}}}
	shareURIsMode(&live, 0, 4, 1000, 2)
	out = append(out, live)
	rep := Case{Profile: "corpus-shared-vod-repeated", Format: "ts", Streams: []Stream{{Ref: "http://stub.test/s0-pl.m3u8",
		History: []Playlist{a.playlist(3, 3, 0, true, "VOD"), a.playlist(3, 3, 1, true, "VOD"), a.playlist(3, 3, 2, true, "VOD")}}}}
	shareURIsMode(&rep, 1, 0, 0, 2)
	out = append(out, rep)
	ev := Case{Profile: "corpus-shared-event-period2", Format: "fmp4", Streams: []Stream{{Ref: "http://stub.test/s0-pl.m3u8",
		History: []Playlist{b.playlist(0, 4, 0, false, "EVENT"), b.playlist(0, 5, 1, false, "EVENT"), b.playlist(0, 6, 2, true, "EVENT"),
			b.playlist(0, 6, 3, true, "EVENT"), b.playlist(0, 6, 4, true, "EVENT"), b.playlist(0, 6, 5, true, "EVENT")}}}}
	shareURIsMode(&ev, 2, 1, 0, 2)
	out = append(out, ev)
	return out
}

// shareURIsMode rewrites the segment URIs of every stream so that segments share a URI:
//   mode 0: one resource, EXT-X-BYTERANGE sub-ranges with EXPLICIT offsets (id*L, length L)
//   mode 1: one URI for every segment, no byte range
//   mode 2: URIs repeat with the given period (id mod period), no byte range
//   mode 3: `period` resources, explicit sub-ranges ((id / period)*L, length L)
func shareURIsMode(c *Case, mode int, style int, L uint64, period int) {
	ext := "ts"
	if c.Format == "fmp4" {
		ext = "mp4"
	}
	for si := range c.Streams {
		h := c.Streams[si].History
		for k := range h {
			for i := range h[k].Segs {
				sg := &h[k].Segs[i]
				id := uint64(sg.ID)
				name := fmt.Sprintf("s%d-segall.%s", si, ext)
				sg.Start, sg.Len = nil, nil
				switch mode {
				case 0:
					sg.Start, sg.Len = u64p(id*L), u64p(L)
				case 2:
					name = fmt.Sprintf("s%d-segr%d.%s", si, id%uint64(period), ext)
				case 3:
					name = fmt.Sprintf("s%d-segr%d.%s", si, id%uint64(period), ext)
					sg.Start, sg.Len = u64p(id/uint64(period)*L), u64p(L)
				}
				sg.URI = segURI(style, name, 0)
			}
		}
	}
}

// shareURIs turns a generated traditional-mode case whose history reaches ENDLIST into one whose
// segments share URIs (decided by a PRNG stream of its own, so the other cases stay as they were)
func shareURIs(c *Case, r *rng.R) {
	if strings.HasPrefix(c.Profile, "ll-") || !r.Bool(2, 5) {
		return
	}
	hasEnd := false
	for _, st := range c.Streams {
		for _, p := range st.History {
			if p.Endlist && len(p.Segs) > 1 {
				hasEnd = true
			}
		}
	}
	if !hasEnd {
		return
	}
	mode := r.Pick(4, 2, 2, 2)
	shareURIsMode(c, mode, r.Intn(nGoodStyles), uint64(100+r.Intn(900)), 2+r.Intn(2))
	c.Profile += fmt.Sprintf("+shared-uri-%d", mode)
}
