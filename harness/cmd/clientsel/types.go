package main

import (
	"fmt"
	"strconv"
	"strings"

	"verifharness/internal/coqfmt"
)

// ---- abstract inputs (mirror of Model/ClientSel.v) ----

// Seg is one entry of a media playlist.
type Seg struct {
	URI   string  `json:"uri"`
	Start *uint64 `json:"start,omitempty"`
	Len   *uint64 `json:"len,omitempty"`
	ID    int64   `json:"id"` // identity of the media (ghost)
}

// Hint is EXT-X-PRELOAD-HINT.
type Hint struct {
	URI   string  `json:"uri"`
	Start uint64  `json:"start,omitempty"`
	Len   *uint64 `json:"len,omitempty"`
}

// MapT is EXT-X-MAP.
type MapT struct {
	URI   string  `json:"uri"`
	Start *uint64 `json:"start,omitempty"`
	Len   *uint64 `json:"len,omitempty"`
}

// SC is EXT-X-SERVER-CONTROL.
type SC struct {
	Block bool `json:"block,omitempty"`
	Skip  bool `json:"skip,omitempty"`
}

// Playlist is what the server answers to one poll.
type Playlist struct {
	MSN     int64  `json:"msn"`
	Segs    []Seg  `json:"segs"`
	Endlist bool   `json:"endlist,omitempty"`
	Type    string `json:"type,omitempty"` // "", "EVENT", "VOD"
	SC      *SC    `json:"sc,omitempty"`
	Hint    *Hint  `json:"hint,omitempty"`
	Map     *MapT  `json:"map,omitempty"`
}

// Stream is one media playlist URL with its scripted history.
type Stream struct {
	Ref     string     `json:"ref"` // absolute URL (primary = media playlist) or the URI written in the multivariant playlist
	History []Playlist `json:"history"`
}

// Case is one client run.
type Case struct {
	Profile   string   `json:"profile"`
	Format    string   `json:"format"`               // "ts" | "fmp4"
	MasterURL string   `json:"master_url,omitempty"` // "" = Client.URI is Streams[0].Ref
	Streams   []Stream `json:"streams"`
	// Pace = media time per media request in 90 kHz ticks (0 = 1800 = 20 ms). The client paces delivery
	// on it; a few scenarios use several hundred ms so that fetched segments are still queued while
	// the downloader goes on.
	Pace int `json:"pace,omitempty"`
}

// Req is one observed / expected request.
type Req struct {
	Kind  string `json:"kind"` // playlist | segment | part | ?
	URL   string `json:"url"`
	Range string `json:"range,omitempty"`
	HasRg bool   `json:"has_range,omitempty"`
}

func (r Req) String() string {
	s := r.Kind + " " + r.URL
	if r.HasRg {
		s += " [Range: " + r.Range + "]"
	}
	return s
}

// ---- M3U8 text, written by hand (pkg/playlist.Marshal is not involved) ----

func byteRange(l *uint64, s *uint64) string {
	r := strconv.FormatUint(*l, 10)
	if s != nil {
		r += "@" + strconv.FormatUint(*s, 10)
	}
	return r
}

func (p Playlist) m3u8() string {
	var b strings.Builder
	b.WriteString("#EXTM3U\n#EXT-X-VERSION:9\n#EXT-X-TARGETDURATION:1\n")
	if p.SC != nil {
		var a []string
		if p.SC.Block {
			a = append(a, "CAN-BLOCK-RELOAD=YES")
		}
		if p.SC.Skip {
			a = append(a, "CAN-SKIP-UNTIL=6.00000")
		}
		if len(a) == 0 {
			a = append(a, "HOLD-BACK=3.00000")
		}
		b.WriteString("#EXT-X-SERVER-CONTROL:" + strings.Join(a, ",") + "\n")
	}
	b.WriteString("#EXT-X-MEDIA-SEQUENCE:" + strconv.FormatInt(p.MSN, 10) + "\n")
	if p.Type != "" {
		b.WriteString("#EXT-X-PLAYLIST-TYPE:" + p.Type + "\n")
	}
	if p.Map != nil {
		b.WriteString("#EXT-X-MAP:URI=\"" + p.Map.URI + "\"")
		if p.Map.Len != nil {
			b.WriteString(",BYTERANGE=\"" + byteRange(p.Map.Len, p.Map.Start) + "\"")
		}
		b.WriteString("\n")
	}
	for _, s := range p.Segs {
		if s.Len != nil {
			b.WriteString("#EXT-X-BYTERANGE:" + byteRange(s.Len, s.Start) + "\n")
		}
		b.WriteString("#EXTINF:0.02000,\n" + s.URI + "\n")
	}
	if p.Hint != nil {
		b.WriteString("#EXT-X-PRELOAD-HINT:TYPE=PART,URI=\"" + p.Hint.URI + "\"")
		if p.Hint.Start != 0 {
			b.WriteString(",BYTERANGE-START=" + strconv.FormatUint(p.Hint.Start, 10))
		}
		if p.Hint.Len != nil {
			b.WriteString(",BYTERANGE-LENGTH=" + strconv.FormatUint(*p.Hint.Len, 10))
		}
		b.WriteString("\n")
	}
	if p.Endlist {
		b.WriteString("#EXT-X-ENDLIST\n")
	}
	return b.String()
}

// ---- Coq terms ----

func coqU(v uint64) string { return strconv.FormatUint(v, 10) }

func coqOptU(v *uint64) string {
	if v == nil {
		return "None"
	}
	return "(Some " + coqU(*v) + ")"
}

func (s Seg) coq() string {
	return "sg " + coqfmt.Str(s.URI) + " " + coqOptU(s.Start) + " " + coqOptU(s.Len) + " " + coqfmt.Z(s.ID)
}

func (p Playlist) coq() string {
	var segs []string
	for _, s := range p.Segs {
		segs = append(segs, s.coq())
	}
	t := "PTNone"
	switch p.Type {
	case "EVENT":
		t = "PTEvent"
	case "VOD":
		t = "PTVod"
	}
	sc := "None"
	if p.SC != nil {
		sc = "(Some (" + coqfmt.Bool(p.SC.Block) + ", " + coqfmt.Bool(p.SC.Skip) + "))"
	}
	hint := "None"
	if p.Hint != nil {
		hint = "(Some (" + coqfmt.Str(p.Hint.URI) + ", " + coqU(p.Hint.Start) + ", " + coqOptU(p.Hint.Len) + "))"
	}
	mp := "None"
	if p.Map != nil {
		mp = "(Some (" + coqfmt.Str(p.Map.URI) + ", " + coqOptU(p.Map.Start) + ", " + coqOptU(p.Map.Len) + "))"
	}
	return fmt.Sprintf("pl %s %s %s %s %s %s %s", coqfmt.Z(p.MSN), coqfmt.List(segs), coqfmt.Bool(p.Endlist), t, sc, hint, mp)
}

// coqx prints the playlist with its segments given as positions in the table tbl
func (p Playlist) coqx(tbl string, idx []string) string {
	full := p.coq()
	// replace the segment list of the plain form: "pl <msn> [..segs..] <rest>"
	var segs []string
	for _, s := range p.Segs {
		segs = append(segs, s.coq())
	}
	lit := coqfmt.List(segs)
	i := strings.Index(full, lit)
	if i < 0 {
		panic("coqx")
	}
	return "plx " + tbl + full[2:i] + coqfmt.List(idx) + full[i+len(lit):]
}

// coqx prints the request with its URL given as a position in the table tbl
func (r Req) coqx(tbl string, k int) string {
	kind := map[string]string{"playlist": "WPlaylist", "segment": "WSegment", "part": "WPart"}[r.Kind]
	if kind == "" {
		kind = "WPlaylist"
	}
	rg := "None"
	if r.HasRg {
		rg = "(Some " + coqfmt.Str(r.Range) + ")"
	}
	return "rqx " + tbl + " " + kind + " " + strconv.Itoa(k) + " " + rg
}

func (r Req) coq() string {
	k := map[string]string{"playlist": "WPlaylist", "segment": "WSegment", "part": "WPart"}[r.Kind]
	if k == "" {
		k = "WPlaylist" // an unknown kind is reported by the harness as an error before this matters
	}
	rg := "None"
	if r.HasRg {
		rg = "(Some " + coqfmt.Str(r.Range) + ")"
	}
	return "rq " + k + " " + coqfmt.Str(r.URL) + " " + rg
}

var outcomeCoq = map[string]string{
	"eos": "OEOS", "no-segments": "OErrNoSegments", "not-enough": "OErrNotEnough", "next": "OErrNext",
	"too-late": "OErrTooLate", "hint-gone": "OErrHintGone", "resolve": "OErrResolve", "server-gone": "OServerGone",
}

// classify maps Client.Wait()'s error to the model's outcome names.
func classify(err error) string {
	if err == nil {
		return "nil"
	}
	m := err.Error()
	switch {
	case m == "end of stream":
		return "eos"
	case m == "no segments found":
		return "no-segments"
	case m == "there aren't enough segments to fill the buffer":
		return "not-enough"
	case m == "next segment not found or not ready yet":
		return "next"
	case m == "playback is too late":
		return "too-late"
	case m == "preload hint disappeared":
		return "hint-gone"
	case m == "bad status code: 404":
		return "server-gone"
	case strings.HasPrefix(m, "parse "):
		return "resolve"
	}
	return "other:" + m
}
