package main

import (
	"fmt"
	"math/big"
	"net/url"
	"reflect"
	"strconv"
)

// The property oracle (S leg), written from the text of C11 over (history, request log, final
// error). It shares nothing with the Coq model: URL resolution is net/url's, byte ranges are
// computed with big integers, and where the property text is silent (which error follows an
// unresolvable URI, a vanished preload hint or a dead server) any error is accepted.

type expReq struct {
	Kind  string
	URL   string // exact URL (segments, parts, init) or the playlist URL (playlist requests)
	Skip  bool   // playlist request must carry _HLS_skip=YES (and only then)
	Range *string
	AnyRg bool   // the property does not define the header (length 0 / beyond 2^64): not checked
	Tag   string // which clause of the property demands this request
	What  string
}

type expectation struct {
	Log    []expReq
	Out    string // eos | not-enough | next | too-late | *error (any error: the text does not say which)
	OutTag string
	OutWhy string
}

func absURL(base string, ref string) (string, bool) {
	b, err := url.Parse(base)
	if err != nil {
		return "", false
	}
	r, err := url.Parse(ref)
	if err != nil {
		return "", false
	}
	return b.ResolveReference(r).String(), true
}

// "bytes=s-(s+l-1)" with s = 0 when the start is absent; no header without a length
func rangeOf(start *uint64, length *uint64) (*string, bool) {
	if length == nil {
		return nil, false
	}
	s := new(big.Int)
	if start != nil {
		s.SetUint64(*start)
	}
	l := new(big.Int).SetUint64(*length)
	end := new(big.Int).Add(s, l)
	limit := new(big.Int).Lsh(big.NewInt(1), 64)
	if l.Sign() == 0 || end.Cmp(limit) > 0 {
		return nil, true
	}
	end.Sub(end, big.NewInt(1))
	v := "bytes=" + s.String() + "-" + end.String()
	return &v, false
}

func expectStream(purl string, h []Playlist) expectation {
	var e expectation
	add := func(r expReq) { e.Log = append(e.Log, r) }
	add(expReq{Kind: "playlist", URL: purl, Tag: "C11:playlist:first", What: "first download of the media playlist"})
	if len(h) == 0 {
		e.Out, e.OutTag, e.OutWhy = "*error", "C11:server", "the server has no playlist"
		return e
	}
	p0 := h[0]
	if p0.Map != nil && p0.Map.URI != "" {
		u, ok := absURL(purl, p0.Map.URI)
		if !ok {
			e.Out, e.OutTag, e.OutWhy = "*error", "C11:url:init", "EXT-X-MAP URI cannot be parsed"
			return e
		}
		rg, any := rangeOf(p0.Map.Start, p0.Map.Len)
		add(expReq{Kind: "segment", URL: u, Range: rg, AnyRg: any, Tag: "C11:url:init", What: "EXT-X-MAP of the first playlist"})
	}
	if p0.SC != nil && p0.SC.Block && p0.Hint != nil {
		// Low-Latency mode: the preload hint of each successive playlist; delta updates exactly when
		// CAN-SKIP-UNTIL was advertised
		pl := p0
		for k := 0; ; {
			u, ok := absURL(purl, pl.Hint.URI)
			if !ok {
				e.Out, e.OutTag, e.OutWhy = "*error", "C11:ll:hint", "preload hint URI cannot be parsed"
				return e
			}
			var st *uint64
			s := pl.Hint.Start
			st = &s
			rg, any := rangeOf(st, pl.Hint.Len)
			add(expReq{Kind: "part", URL: u, Range: rg, AnyRg: any, Tag: "C11:ll:hint",
				What: fmt.Sprintf("preload hint of the playlist of poll %d", k)})
			k++
			add(expReq{Kind: "playlist", URL: purl, Skip: p0.SC.Skip, Tag: "C11:ll:skip",
				What: fmt.Sprintf("playlist reload %d (delta update iff CAN-SKIP-UNTIL advertised)", k)})
			if k >= len(h) {
				e.Out, e.OutTag, e.OutWhy = "*error", "C11:server", "the server stopped answering"
				return e
			}
			pl = h[k]
			if pl.Hint == nil {
				e.Out, e.OutTag, e.OutWhy = "*error", "C11:ll:hint", "the playlist has no preload hint any more"
				return e
			}
		}
	}
	// start: first segment of a VOD playlist, third-from-last of a live one
	var idx int
	startTag := "C11:start:live"
	if p0.Type == "VOD" {
		idx = 0
		startTag = "C11:start:vod"
	} else {
		if len(p0.Segs) < 3 {
			e.Out, e.OutTag, e.OutWhy = "not-enough", "C11:start:too-few-segments",
				"a live playlist with fewer than 3 segments has no third-from-last segment"
			return e
		}
		idx = len(p0.Segs) - 3
	}
	cur := p0.MSN + int64(idx)
	pl := p0
	tag := startTag
	for j := 0; ; {
		seg := pl.Segs[cur-pl.MSN]
		u, ok := absURL(purl, seg.URI)
		if !ok {
			e.Out, e.OutTag, e.OutWhy = "*error", "C11:url:segment", "segment URI cannot be parsed"
			return e
		}
		rg, any := rangeOf(seg.Start, seg.Len)
		add(expReq{Kind: "segment", URL: u, Range: rg, AnyRg: any, Tag: tag,
			What: fmt.Sprintf("media sequence number %d from the playlist of poll %d", cur, j)})
		tag = "C11:consecutive"
		last := pl.MSN + int64(len(pl.Segs)) - 1
		if pl.Endlist && cur == last {
			e.Out, e.OutTag, e.OutWhy = "eos", "C11:eos:last-endlist-segment",
				"the last segment of an ENDLIST playlist has been delivered"
			return e
		}
		// re-fetch the playlist between segments
		j++
		add(expReq{Kind: "playlist", URL: purl, Tag: "C11:consecutive:refetch",
			What: fmt.Sprintf("playlist reload %d between two segments", j)})
		if j >= len(h) {
			e.Out, e.OutTag, e.OutWhy = "*error", "C11:server", "the server stopped answering"
			return e
		}
		pl = h[j]
		last = pl.MSN + int64(len(pl.Segs)) - 1
		if pl.Endlist && cur == last {
			e.Out, e.OutTag, e.OutWhy = "eos", "C11:eos:endlist-after-last-segment-fetched",
				fmt.Sprintf("poll %d shows ENDLIST and its last segment (MSN %d) has already been delivered", j, cur)
			return e
		}
		next := cur + 1
		if next < pl.MSN || next > last {
			e.Out, e.OutTag, e.OutWhy = "next", "C11:stop:next-absent",
				fmt.Sprintf("MSN %d is absent from the playlist of poll %d (window %d..%d): stop, do not jump", next, j, pl.MSN, last)
			return e
		}
		if !pl.Endlist && last-next+1 > 5 {
			e.Out, e.OutTag, e.OutWhy = "too-late", "C11:stop:too-late",
				fmt.Sprintf("MSN %d is %d from the end of the live playlist of poll %d: stop, do not jump", next, last-next+1, j)
			return e
		}
		cur = next
	}
}

func acceptOut(exp string, final string) bool {
	if exp == "*error" {
		return final != "eos" && final != "nil" && (len(final) < 6 || final[:6] != "other:")
	}
	return exp == final
}

// matchReq compares one observed request with the expected one; "" = agrees
func matchReq(x expReq, o Req) string {
	if x.Kind != o.Kind {
		return fmt.Sprintf("expected a %s request, observed %s", x.Kind, o)
	}
	if x.Kind == "playlist" {
		xu, err1 := url.Parse(x.URL)
		ou, err2 := url.Parse(o.URL)
		if err1 != nil || err2 != nil {
			return "unparsable playlist URL " + o.URL
		}
		xq, oq := xu.Query(), ou.Query()
		skip := oq["_HLS_skip"]
		delete(oq, "_HLS_skip")
		xu.RawQuery, ou.RawQuery = "", ""
		xu.ForceQuery, ou.ForceQuery = false, false
		if xu.String() != ou.String() || !reflect.DeepEqual(map[string][]string(xq), map[string][]string(oq)) {
			return fmt.Sprintf("playlist request to %s, the media playlist URL is %s", o.URL, x.URL)
		}
		if x.Skip && !(len(skip) == 1 && skip[0] == "YES") {
			return fmt.Sprintf("CAN-SKIP-UNTIL was advertised but the reload %s does not ask for a delta update", o.URL)
		}
		if !x.Skip && len(skip) != 0 {
			return fmt.Sprintf("the reload %s asks for a delta update although CAN-SKIP-UNTIL was not advertised", o.URL)
		}
		if o.HasRg {
			return "playlist request with a Range header"
		}
		return ""
	}
	if x.URL != o.URL {
		return fmt.Sprintf("expected %s (%s), observed %s", x.URL, x.What, o.URL)
	}
	if !x.AnyRg {
		if x.Range == nil && o.HasRg {
			return fmt.Sprintf("unexpected Range header %q on %s", o.Range, o.URL)
		}
		if x.Range != nil && (!o.HasRg || o.Range != *x.Range) {
			return fmt.Sprintf("Range header of %s: expected %q, observed %q (present=%v)", o.URL, *x.Range, o.Range, o.HasRg)
		}
	}
	return ""
}

type verdict struct {
	Sig  string
	What string
}

// compareLog: complete = the observed log must be the whole expected log; otherwise a prefix suffices
func compareLog(e expectation, obs []Req, complete bool) *verdict {
	for i, o := range obs {
		if i >= len(e.Log) {
			return &verdict{Sig: e.OutTag + ":extra-request",
				What: fmt.Sprintf("%s; yet request %d was made: %s", e.OutWhy, i, o)}
		}
		if m := matchReq(e.Log[i], o); m != "" {
			tag := e.Log[i].Tag
			if e.Log[i].Kind == o.Kind && o.Kind != "playlist" && e.Log[i].URL == o.URL {
				tag = "C11:range"
			} else if e.Log[i].Kind == "segment" && o.Kind == "segment" && tag == "C11:consecutive" {
				tag = "C11:consecutive:wrong-segment"
			}
			return &verdict{Sig: tag, What: fmt.Sprintf("request %d: %s", i, m)}
		}
	}
	if complete && len(obs) < len(e.Log) {
		x := e.Log[len(obs)]
		return &verdict{Sig: x.Tag + ":missing-request",
			What: fmt.Sprintf("after %d requests the client stopped; expected next: %s %s (%s)", len(obs), x.Kind, x.URL, x.What)}
	}
	return nil
}

// judge applies the oracle to one run
func judge(c Case, purls []string, res runResult) *verdict {
	var exps []expectation
	for i, st := range c.Streams {
		exps = append(exps, expectStream(purls[i], st.History))
	}
	if len(res.Stray) > 0 {
		return &verdict{Sig: "C11:url:stray-request", What: "request to a URL that no playlist entry resolves to: " + res.Stray[0]}
	}
	// whatever was requested must be what the property demands, in order (a rendition may have been
	// cut short by another one's error: prefix)
	for i, e := range exps {
		if v := compareLog(e, res.Logs[i], false); v != nil {
			return v
		}
	}
	v := judgeOutcome(c, exps, res)
	if v == nil && res.Final == "eos" {
		// "ends with ErrClientEOS after the last segment has been delivered": when Wait returns
		// ErrClientEOS every unit of every fetched (video) segment has been handed to the application,
		// once and in order
		ok := len(res.Delivered) == res.Media0
		for i, k := range res.Delivered {
			if k != i%256 {
				ok = false
			}
		}
		if !ok {
			late := ""
			for _, e := range exps {
				if e.OutTag == "C11:eos:endlist-after-last-segment-fetched" {
					late = ":endlist-after-last-segment-fetched"
				}
			}
			return &verdict{Sig: "C11:eos:before-delivery" + late,
				What: fmt.Sprintf("Client.Wait returned ErrClientEOS when the units of media requests %v had been delivered; %d were fetched (0..%d): "+
					"the end of the stream was reported before the last segments reached the application", res.Delivered, res.Media0, res.Media0-1)}
		}
	}
	if v != nil && len(c.Streams) > 1 && res.Final == "next" {
		// root cause: a rendition that had delivered everything when ENDLIST appeared reported
		// "next segment not found" and thereby cut the other renditions short
		for i, e := range exps {
			if e.OutTag == "C11:eos:endlist-after-last-segment-fetched" && compareLog(e, res.Logs[i], true) == nil {
				return &verdict{Sig: e.OutTag + ":outcome=next",
					What: fmt.Sprintf("rendition %d: %s: the run must not fail, Client.Wait returned next (%s)", i, e.OutWhy, v.What)}
			}
		}
	}
	return v
}

func judgeOutcome(c Case, exps []expectation, res runResult) *verdict {
	allEOS := true
	for _, e := range exps {
		if e.Out != "eos" {
			allEOS = false
		}
	}
	if len(c.Streams) == 1 || allEOS {
		for i, e := range exps {
			if v := compareLog(e, res.Logs[i], true); v != nil {
				return v
			}
		}
		if len(c.Streams) == 1 {
			if !acceptOut(exps[0].Out, res.Final) {
				return &verdict{Sig: exps[0].OutTag + ":outcome=" + res.Final,
					What: fmt.Sprintf("%s: the run must end with %s, Client.Wait returned %s", exps[0].OutWhy, exps[0].Out, res.Final)}
			}
			return nil
		}
		if res.Final != "eos" {
			return &verdict{Sig: "C11:eos:all-streams-ended:outcome=" + res.Final,
				What: "every stream delivered the last segment of its ENDLIST playlist; Client.Wait returned " + res.Final}
		}
		return nil
	}
	// several streams, at least one must fail: the others may have been cut short
	if res.Final == "eos" {
		return &verdict{Sig: "C11:eos:premature", What: "Client.Wait returned ErrClientEOS although not every stream reaches the end of an ENDLIST playlist"}
	}
	for i, e := range exps {
		if e.Out != "eos" && acceptOut(e.Out, res.Final) && compareLog(e, res.Logs[i], true) == nil {
			return nil
		}
	}
	var want []string
	for _, e := range exps {
		want = append(want, e.Out)
	}
	return &verdict{Sig: "C11:outcome:multi=" + res.Final,
		What: fmt.Sprintf("Client.Wait returned %s; per-stream required outcomes %v and no failing stream completed its log", res.Final, want)}
}

// ---- direct oracles for the two lookup functions ----

func judgeFindID(seqNo, n, id int, found bool, idx, inv int, panicked bool) string {
	if panicked {
		return "findSegmentWithID panicked"
	}
	in := id >= seqNo && id < seqNo+n
	if in != found {
		return "found=" + strconv.FormatBool(found) + " for id " + strconv.Itoa(id) + " window " + strconv.Itoa(seqNo) + "+" + strconv.Itoa(n)
	}
	if found && (seqNo+idx != id || inv != n-idx) {
		return fmt.Sprintf("index %d / invPos %d do not denote MSN %d in a window of %d starting at %d", idx, inv, id, n, seqNo)
	}
	return ""
}

func judgeFindInv(n, invPos int, found bool, idx int, panicked bool) string {
	if invPos <= 0 {
		return "" // not used by the client (the caller passes 3); the tie compares the panic with the model
	}
	if panicked {
		return "findSegmentWithInvPosition panicked"
	}
	if (n >= invPos) != found {
		return fmt.Sprintf("found=%v with %d segments and invPos %d", found, n, invPos)
	}
	if found && idx != n-invPos {
		return fmt.Sprintf("index %d is not the %d-th from the end of %d", idx, invPos, n)
	}
	return ""
}
