package main

import (
	"bytes"
	"fmt"
	"io"
	"net/http"
	"net/url"
	"regexp"
	"strconv"
	"strings"
	"sync"
	"time"

	"github.com/bluenviron/gohlslib/v2"
	"github.com/bluenviron/gohlslib/v2/pkg/codecs"
	"github.com/bluenviron/mediacommon/v2/pkg/codecs/h264"
	"github.com/bluenviron/mediacommon/v2/pkg/codecs/mpeg4audio"
	"github.com/bluenviron/mediacommon/v2/pkg/formats/fmp4"
	"github.com/bluenviron/mediacommon/v2/pkg/formats/fmp4/seekablebuffer"
	"github.com/bluenviron/mediacommon/v2/pkg/formats/mpegts"
)

var testSPS = []byte{
	0x67, 0x42, 0xc0, 0x28, 0xd9, 0x00, 0x78, 0x02,
	0x27, 0xe5, 0x84, 0x00, 0x00, 0x03, 0x00, 0x04,
	0x00, 0x00, 0x03, 0x00, 0xf0, 0x3c, 0x60, 0xc9,
	0x20,
}

var testAudioConfig = mpeg4audio.AudioSpecificConfig{Type: 2, SampleRate: 44100, ChannelCount: 2}

const tick = 1800 // 20 ms at 90 kHz: the default media time per media request

// ---- tiny valid media; the k-th media request of a stream carries DTS k*20ms ----

func tsSegment(audio bool, k int, tick int) []byte {
	var buf bytes.Buffer
	if audio {
		tr := &mpegts.Track{Codec: &mpegts.CodecMPEG4Audio{Config: testAudioConfig}}
		w := &mpegts.Writer{W: &buf, Tracks: []*mpegts.Track{tr}}
		if err := w.Initialize(); err != nil {
			panic(err)
		}
		if err := w.WriteMPEG4Audio(tr, int64(90000+k*tick), [][]byte{{1, 2, 3, 4}}); err != nil {
			panic(err)
		}
		return buf.Bytes()
	}
	tr := &mpegts.Track{Codec: &mpegts.CodecH264{}}
	w := &mpegts.Writer{W: &buf, Tracks: []*mpegts.Track{tr}}
	if err := w.Initialize(); err != nil {
		panic(err)
	}
	dts := int64(90000 + k*tick)
	if err := w.WriteH264(tr, dts, dts, [][]byte{testSPS, {8}, {5, byte(k)}}); err != nil {
		panic(err)
	}
	return buf.Bytes()
}

type marshaler interface {
	Marshal(w io.WriteSeeker) error
}

func mp4Bytes(m marshaler) []byte {
	var buf seekablebuffer.Buffer
	if err := m.Marshal(&buf); err != nil {
		panic(err)
	}
	return append([]byte{}, buf.Bytes()...)
}

func fmp4Init(audio bool) []byte {
	if audio {
		return mp4Bytes(&fmp4.Init{Tracks: []*fmp4.InitTrack{{ID: 1, TimeScale: 44100,
			Codec: &fmp4.CodecMPEG4Audio{Config: testAudioConfig}}}})
	}
	return mp4Bytes(&fmp4.Init{Tracks: []*fmp4.InitTrack{{ID: 1, TimeScale: 90000,
		Codec: &fmp4.CodecH264{SPS: testSPS, PPS: []byte{0x08}}}}})
}

func fmp4Part(audio bool, k int, tick int) []byte {
	if audio {
		return mp4Bytes(&fmp4.Part{Tracks: []*fmp4.PartTrack{{ID: 1, BaseTime: uint64(k * tick * 441 / 900),
			Samples: []*fmp4.PartSample{{Duration: 882, Payload: []byte{1, 2, 3, 4}}}}}})
	}
	avcc, err := h264.AVCC([][]byte{{5, byte(k)}}).Marshal()
	if err != nil {
		panic(err)
	}
	return mp4Bytes(&fmp4.Part{Tracks: []*fmp4.PartTrack{{ID: 1, BaseTime: uint64(k * tick),
		Samples: []*fmp4.PartSample{{Duration: uint32(tick), Payload: avcc}}}}})
}

// ---- the stub server: an in-process http.RoundTripper ----

var nameRe = regexp.MustCompile(`^s(\d+)-(pl|seg|part|init)`)

type stub struct {
	c      Case
	master string // multivariant playlist text

	mu     sync.Mutex
	polls  []int   // per stream: number of playlist polls served
	medias []int   // per stream: number of media requests served
	logs   [][]Req // per stream: ordered requests
	kinds  map[string]string
	deliv  []int    // video units handed to the application, in order (their tags)
	stray  []string // requests the stub could not attribute
	master_hits int
}

func newStub(c Case) *stub {
	s := &stub{c: c, polls: make([]int, len(c.Streams)), medias: make([]int, len(c.Streams)),
		logs: make([][]Req, len(c.Streams)), kinds: map[string]string{}}
	if c.MasterURL != "" {
		var b strings.Builder
		b.WriteString("#EXTM3U\n#EXT-X-VERSION:9\n")
		for i := 1; i < len(c.Streams); i++ {
			def := "NO"
			if i == 1 {
				def = "YES"
			}
			b.WriteString(fmt.Sprintf("#EXT-X-MEDIA:TYPE=AUDIO,GROUP-ID=\"aud\",NAME=\"a%d\",DEFAULT=%s,AUTOSELECT=YES,LANGUAGE=\"l%d\",URI=\"%s\"\n",
				i, def, i, c.Streams[i].Ref))
		}
		b.WriteString("#EXT-X-STREAM-INF:BANDWIDTH=800000,CODECS=\"avc1.42c028")
		if len(c.Streams) > 1 {
			b.WriteString(",mp4a.40.2\",AUDIO=\"aud")
		}
		b.WriteString("\"\n" + c.Streams[0].Ref + "\n")
		s.master = b.String()
	}
	return s
}

func (s *stub) pace() int {
	if s.c.Pace > 0 {
		return s.c.Pace
	}
	return tick
}

// delivered is called from the client's OnDataH26x callback of the video track: every media
// object of stream 0 carries one IDR unit {5, k}, k = its position among stream 0's media requests
func (s *stub) onVideo(au [][]byte) {
	s.mu.Lock()
	for _, nalu := range au {
		if len(nalu) == 2 && nalu[0] == 5 {
			s.deliv = append(s.deliv, int(nalu[1]))
		}
	}
	s.mu.Unlock()
}

// setKind is called from the client's OnDownload* callbacks, which run immediately before the request
func (s *stub) setKind(u string, kind string) {
	s.mu.Lock()
	s.kinds[u] = kind
	s.mu.Unlock()
}

func resp(req *http.Request, code int, body []byte) *http.Response {
	return &http.Response{
		StatusCode: code, Status: strconv.Itoa(code) + " " + http.StatusText(code),
		Proto: "HTTP/1.1", ProtoMajor: 1, ProtoMinor: 1,
		Header: http.Header{}, Body: io.NopCloser(bytes.NewReader(body)),
		ContentLength: int64(len(body)), Request: req,
	}
}

func (s *stub) RoundTrip(req *http.Request) (*http.Response, error) {
	if err := req.Context().Err(); err != nil {
		return nil, err
	}
	full := req.URL.String()
	if s.c.MasterURL != "" && full == s.c.MasterURL {
		s.mu.Lock()
		s.master_hits++
		s.mu.Unlock()
		return resp(req, 200, []byte(s.master)), nil
	}
	p := req.URL.Path
	name := p[strings.LastIndexByte(p, '/')+1:]
	m := nameRe.FindStringSubmatch(name)
	if m == nil {
		s.mu.Lock()
		s.stray = append(s.stray, full)
		s.mu.Unlock()
		return resp(req, 404, nil), nil
	}
	i, _ := strconv.Atoi(m[1])
	if i >= len(s.c.Streams) {
		s.mu.Lock()
		s.stray = append(s.stray, full)
		s.mu.Unlock()
		return resp(req, 404, nil), nil
	}
	audio := i > 0
	s.mu.Lock()
	kind := s.kinds[full]
	if kind == "" {
		kind = "?"
	}
	r := Req{Kind: kind, URL: full}
	if v, ok := req.Header["Range"]; ok {
		r.HasRg = true
		r.Range = strings.Join(v, ",")
	}
	s.logs[i] = append(s.logs[i], r)
	var body []byte
	code := 200
	switch m[2] {
	case "pl":
		k := s.polls[i]
		s.polls[i]++
		if k < len(s.c.Streams[i].History) {
			body = []byte(s.c.Streams[i].History[k].m3u8())
		} else {
			code = 404
		}
	case "init":
		body = fmp4Init(audio)
	default:
		k := s.medias[i]
		s.medias[i]++
		if s.c.Format == "fmp4" {
			body = fmp4Part(audio, k, s.pace())
		} else {
			body = tsSegment(audio, k, s.pace())
		}
	}
	s.mu.Unlock()
	return resp(req, code, body), nil
}

type runResult struct {
	Logs    [][]Req  `json:"logs"`
	Final   string   `json:"final"`
	Stray   []string `json:"stray,omitempty"`
	PURLs   []string `json:"purls"`
	// Delivered = tags of the video units handed to OnData before Wait returned; Media0 = number of
	// media (segment / part) requests of stream 0, whose k-th answer carries the unit tagged k
	Delivered []int `json:"delivered"`
	Media0    int   `json:"media0"`
	Elapsed   int64 `json:"-"`
	Err     string   `json:"err,omitempty"`
}

// playlistURLs computes the absolute media playlist URL of every stream with the real
// clientAbsoluteURL (what clientPrimaryDownloader.run does).
func playlistURLs(c Case) ([]string, error) {
	if c.MasterURL == "" {
		return []string{c.Streams[0].Ref}, nil
	}
	base, err := url.Parse(c.MasterURL)
	if err != nil {
		return nil, err
	}
	var out []string
	for _, st := range c.Streams {
		u, err := gohlslib.VerifClientAbsoluteURL(base, st.Ref)
		if err != nil {
			return nil, err
		}
		out = append(out, u.String())
	}
	return out, nil
}

// runCase runs one real gohlslib.Client against the scripted stub.
func runCase(c Case) runResult {
	st := newStub(c)
	purls, err := playlistURLs(c)
	if err != nil {
		return runResult{Err: "playlist URLs: " + err.Error()}
	}
	uri := c.MasterURL
	if uri == "" {
		uri = c.Streams[0].Ref
	}
	cl := &gohlslib.Client{
		URI:                       uri,
		HTTPClient:                &http.Client{Transport: st},
		OnDownloadPrimaryPlaylist: func(u string) { st.setKind(u, "playlist") },
		OnDownloadStreamPlaylist:  func(u string) { st.setKind(u, "playlist") },
		OnDownloadSegment:         func(u string) { st.setKind(u, "segment") },
		OnDownloadPart:            func(u string) { st.setKind(u, "part") },
		OnDecodeError:             func(error) {},
	}
	cl.OnTracks = func(tracks []*gohlslib.Track) error {
		for _, tr := range tracks {
			if _, ok := tr.Codec.(*codecs.H264); ok {
				cl.OnDataH26x(tr, func(_ int64, _ int64, au [][]byte) { st.onVideo(au) })
			}
		}
		return nil
	}
	t0 := time.Now()
	if err := cl.Start(); err != nil {
		return runResult{Err: "Start: " + err.Error()}
	}
	var werr error
	select {
	case werr = <-cl.Wait():
	case <-time.After(60 * time.Second):
		cl.Close()
		<-cl.Wait()
		return runResult{Err: "watchdog: client did not finish within 60 s", PURLs: purls, Logs: st.logs}
	}
	cl.Close()
	st.mu.Lock()
	defer st.mu.Unlock()
	logs := make([][]Req, len(st.logs))
	for i := range st.logs {
		logs[i] = append([]Req{}, st.logs[i]...)
	}
	return runResult{Logs: logs, Final: classify(werr), Stray: st.stray, PURLs: purls,
		Delivered: append([]int{}, st.deliv...), Media0: st.medias[0], Elapsed: int64(time.Since(t0))}
}
