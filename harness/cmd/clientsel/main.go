// Command clientsel runs real gohlslib.Clients against an in-process stub that serves SCRIPTED
// playlist histories, records the ordered request log per media playlist and Client.Wait(),
// applies the C11 property oracle (S leg) and writes histories + observations as Coq cases for
// the comparison with Model/ClientSel.v (T leg). It also compares findSegmentWithID /
// findSegmentWithInvPosition / clientAbsoluteURL / the constants through the verif exports.
package main

import (
	"crypto/sha256"
	"encoding/hex"
	"encoding/json"
	"flag"
	"fmt"
	"net/url"
	"os"
	"path/filepath"
	"runtime"
	"sort"
	"strconv"
	"strings"
	"sync"
	"time"

	"github.com/bluenviron/gohlslib/v2"
	"github.com/bluenviron/gohlslib/v2/pkg/playlist"

	"verifharness/internal/coqfmt"
	"verifharness/internal/rng"
)

type failure struct {
	Signature string          `json:"signature"`
	What      string          `json:"what"`
	Input     json.RawMessage `json:"input"`
}

type input struct {
	Kind   string `json:"kind"` // run | find_id | find_inv | resolve | skip | consts
	Case   *Case  `json:"case,omitempty"`
	SeqNo  int    `json:"seq_no,omitempty"`
	N      int    `json:"n,omitempty"`
	ID     int    `json:"id,omitempty"`
	InvPos int    `json:"inv_pos,omitempty"`
	Base   string `json:"base,omitempty"`
	Ref    string `json:"ref,omitempty"`
}

type caseRec struct {
	Shard int             `json:"shard"`
	Index int             `json:"index"`
	Input json.RawMessage `json:"input"`
}

func mustJSON(v interface{}) json.RawMessage {
	j, err := json.Marshal(v)
	if err != nil {
		panic(err)
	}
	return j
}

// ---- direct comparisons through the exports ----

func callFindID(seqNo, n, id int) (found bool, idx, inv int, panicked bool) {
	defer func() {
		if recover() != nil {
			panicked = true
		}
	}()
	segs := make([]*playlist.MediaSegment, n)
	for i := range segs {
		segs[i] = &playlist.MediaSegment{}
	}
	found, idx, inv = gohlslib.VerifFindSegmentWithID(seqNo, segs, id)
	return
}

func callFindInv(n, invPos int) (found bool, idx int, panicked bool) {
	defer func() {
		if recover() != nil {
			panicked = true
		}
	}()
	segs := make([]*playlist.MediaSegment, n)
	for i := range segs {
		segs[i] = &playlist.MediaSegment{}
	}
	found, idx = gohlslib.VerifFindSegmentWithInvPosition(segs, invPos)
	return
}

func goResolve(base, ref string) (string, bool) {
	b, err := url.Parse(base)
	if err != nil {
		return "", false
	}
	u, err := gohlslib.VerifClientAbsoluteURL(b, ref)
	if err != nil {
		return "", false
	}
	return u.String(), true
}

// what downloadPlaylist(ctx, true) requests
func goSkip(purl string) string {
	u, err := url.Parse(purl)
	if err != nil {
		return ""
	}
	q := u.Query()
	q.Add("_HLS_skip", "YES")
	u.RawQuery = q.Encode()
	return u.String()
}

var rfcBase = "http://a/b/c/d;p?q"
var rfcRefs = []string{"g", "./g", "g/", "/g", "//g", "?y", "g?y", ";x", "g;x", "", ".", "./", "..", "../", "../g",
	"../..", "../../", "../../g", "../../../g", "../../../../g", "/./g", "/../g", "g.", ".g", "g..", "..g",
	"./../g", "./g/.", "g/./h", "g/../h", "g;x=1/./y", "g;x=1/../y", "%zz", ":x", "1a:b/c", "a%2Fb/c", "%4", "http://h/%zz"}

// ---- shard writer ----

type shardWriter struct {
	dir    string
	f      *os.File
	shard  int // index of the shard being written
	pos    int // list position of the next case in this shard
	cost   int // estimated elaboration cost of this shard (ms)
	chunk  int // cases in the open chunk
	chunks int
	defs   int
	recs   []caseRec
}

// Each shard is a sequence of small definitions (Coq needs milliseconds per string literal and
// a giant list literal is no faster): chunk_k : list ccase, cases := chunk_0 ++ chunk_1 ++ ...
func (w *shardWriter) closeChunk() {
	if w.chunk > 0 {
		fmt.Fprintln(w.f, "].")
		w.chunk = 0
		w.chunks++
	}
}

func (w *shardWriter) close() {
	if w.f != nil {
		w.closeChunk()
		fmt.Fprint(w.f, "Definition cases : list ccase := ")
		for k := 0; k < w.chunks; k++ {
			fmt.Fprintf(w.f, "chunk_%d ++ ", k)
		}
		fmt.Fprintln(w.f, "[].")
		fmt.Fprintln(w.f, "Definition M := Eval vm_compute in mismatches cases.")
		fmt.Fprintln(w.f, "Print M.")
		w.f.Close()
		w.f = nil
		w.shard++
	}
}

// add appends one case. mk builds the term (and definitions to emit before it) given a number
// that is unique within the shard. A shard is closed when its estimated cost reaches 10 s.
func (w *shardWriter) add(mk func(n int) (pre string, term string), in json.RawMessage, cost int) {
	if w.f != nil && (w.cost >= 10000 || w.pos >= 4000) {
		w.close()
	}
	if w.f == nil {
		w.pos, w.cost, w.chunk, w.chunks, w.defs = 0, 0, 0, 0, 0
		f, err := os.Create(filepath.Join(w.dir, fmt.Sprintf("cases_%d.v", w.shard)))
		if err != nil {
			panic(err)
		}
		w.f = f
		fmt.Fprintln(f, "From Coq Require Import List ZArith String.")
		fmt.Fprintln(f, "From GoHls Require Import Model.ClientSel Tie.ClientSelTie.")
		fmt.Fprintln(f, "Import ListNotations. Open Scope Z_scope.")
		// one line, whatever its length: the driver's parser does not expect a break after "("
		fmt.Fprintln(f, "Set Printing Width 1000000.")
	}
	pre, term := mk(w.defs)
	w.defs++
	if w.chunk >= 40 || pre != "" {
		w.closeChunk()
	}
	if pre != "" {
		fmt.Fprint(w.f, pre)
	}
	if w.chunk == 0 {
		fmt.Fprintf(w.f, "Definition chunk_%d : list ccase := [\n", w.chunks)
	} else {
		fmt.Fprintln(w.f, ";")
	}
	fmt.Fprint(w.f, term)
	w.chunk++
	w.recs = append(w.recs, caseRec{Shard: w.shard, Index: w.pos, Input: in})
	w.pos++
	w.cost += cost
}

func plain(term string) func(int) (string, string) {
	return func(int) (string, string) { return "", term }
}

// runTerm prints a client run; distinct segments and distinct URLs are stated once, in tables
func runTerm(c Case, purls []string, res runResult) (func(int) (string, string), int) {
	cost := 20
	mk := func(n int) (string, string) {
		var pre strings.Builder
		var sts []string
		for i, st := range c.Streams {
			segIdx := map[string]int{}
			var segTbl []string
			var hs []string
			for _, p := range st.History {
				var idx []string
				for _, s := range p.Segs {
					t := s.coq()
					k, ok := segIdx[t]
					if !ok {
						k = len(segTbl)
						segIdx[t] = k
						segTbl = append(segTbl, t)
					}
					idx = append(idx, strconv.Itoa(k))
				}
				hs = append(hs, p.coqx(fmt.Sprintf("sg_%d_%d", n, i), idx))
			}
			urlIdx := map[string]int{}
			var urlTbl []string
			var obs []string
			for _, r := range res.Logs[i] {
				k, ok := urlIdx[r.URL]
				if !ok {
					k = len(urlTbl)
					urlIdx[r.URL] = k
					urlTbl = append(urlTbl, coqfmt.Str(r.URL))
				}
				obs = append(obs, r.coqx(fmt.Sprintf("ur_%d_%d", n, i), k))
			}
			fmt.Fprintf(&pre, "Definition sg_%d_%d : list segment := %s.\n", n, i, coqfmt.List(segTbl))
			fmt.Fprintf(&pre, "Definition ur_%d_%d : list string := %s.\n", n, i, coqfmt.List(urlTbl))
			sts = append(sts, fmt.Sprintf("{| st_purl := %s;\n     st_history := [%s];\n     st_obs := [%s] |}",
				coqfmt.Str(purls[i]), strings.Join(hs, ";\n       "), strings.Join(obs, ";\n       ")))
		}
		return pre.String(), "CRun [" + strings.Join(sts, ";\n   ") + "] " + outcomeCoq[res.Final]
	}
	for i, st := range c.Streams {
		seen := map[string]bool{}
		for _, p := range st.History {
			cost += 2 + len(p.Segs)/4
			for _, s := range p.Segs {
				if !seen[s.URI] {
					seen[s.URI] = true
					cost += 4
				}
			}
		}
		for _, r := range res.Logs[i] {
			if !seen[r.URL] {
				seen[r.URL] = true
				cost += 4
			}
			cost++
			if r.HasRg {
				cost += 2
			}
		}
	}
	return mk, cost
}

func optStr(s string, ok bool) string {
	if !ok {
		return "None"
	}
	return "(Some " + coqfmt.Str(s) + ")"
}

// trim the history of a single-stream case to the polls the client consumed
func trimmed(c Case, res runResult) Case {
	if len(c.Streams) != 1 {
		return c
	}
	polls := 0
	for _, r := range res.Logs[0] {
		if r.Kind == "playlist" {
			polls++
		}
	}
	h := c.Streams[0].History
	if polls < len(h) && polls > 0 {
		h = h[:polls]
	}
	t := c
	t.Streams = []Stream{{Ref: c.Streams[0].Ref, History: h}}
	return t
}

func main() {
	seed := flag.Uint64("seed", 0, "seed")
	tier := flag.String("tier", "quick", "quick|thorough")
	out := flag.String("out", "", "output directory")
	replay := flag.String("replay", "", "replay file (JSON with .input)")
	n := flag.Int("n", 0, "number of generated histories (0 = tier default)")
	workers := flag.Int("workers", 0, "concurrent clients (0 = 2 x CPUs)")
	flag.Parse()
	if *out == "" {
		fmt.Fprintln(os.Stderr, "need -out")
		os.Exit(2)
	}
	os.MkdirAll(*out, 0o755)
	old, _ := filepath.Glob(filepath.Join(*out, "cases_*.v"))
	for _, f := range old {
		os.Remove(f)
	}
	count := *n
	if count == 0 {
		count = 300
		if *tier == "thorough" {
			count = 6000
		}
	}
	nDirect := 1500
	if *tier == "thorough" {
		nDirect = 20000
	}
	if *workers == 0 {
		*workers = 2 * runtime.NumCPU()
	}

	var inputs []input
	if *replay != "" {
		raw, err := os.ReadFile(*replay)
		if err != nil {
			panic(err)
		}
		var rp struct {
			Input input `json:"input"`
		}
		if err := json.Unmarshal(raw, &rp); err != nil {
			panic(err)
		}
		inputs = []input{rp.Input}
		count, nDirect = 0, 0
	} else {
		for _, c := range corpus() {
			c := c
			inputs = append(inputs, input{Kind: "run", Case: &c})
		}
		inputs = append(inputs, input{Kind: "consts"})
	}
	for i := 0; i < count; i++ {
		c := genCase(rng.New(*seed, uint64(i)))
		shareURIs(&c, rng.New(*seed, uint64(i)+1<<41))
		inputs = append(inputs, input{Kind: "run", Case: &c})
	}
	{
		r := rng.New(*seed, 1<<40)
		for i := 0; i < nDirect; i++ {
			seq := int(baseMSN(r))
			nn := r.Intn(13)
			if r.Bool(1, 2) {
				inputs = append(inputs, input{Kind: "find_id", SeqNo: seq, N: nn, ID: seq + r.Intn(nn+8) - 4})
			} else {
				inputs = append(inputs, input{Kind: "find_inv", N: nn, InvPos: r.Intn(18) - 3})
			}
		}
	}

	// ---- run the clients concurrently ----
	type done struct {
		res   runResult
		purls []string
	}
	results := make([]done, len(inputs))
	var wg sync.WaitGroup
	sem := make(chan struct{}, *workers)
	t0 := time.Now()
	for i := range inputs {
		if inputs[i].Kind != "run" {
			continue
		}
		wg.Add(1)
		sem <- struct{}{}
		go func(i int) {
			defer wg.Done()
			defer func() { <-sem }()
			res := runCase(*inputs[i].Case)
			results[i] = done{res: res, purls: res.PURLs}
		}(i)
	}
	wg.Wait()
	// observables must not depend on timing: re-run a sample of single-stream cases and compare
	rerunErrs := []string{}
	{
		k := 0
		for i := range inputs {
			if inputs[i].Kind != "run" || len(inputs[i].Case.Streams) != 1 || results[i].res.Err != "" {
				continue
			}
			if k++; k > 24 {
				break
			}
			r2 := runCase(*inputs[i].Case)
			a, _ := json.Marshal(struct {
				L [][]Req
				F string
			}{results[i].res.Logs, results[i].res.Final})
			b, _ := json.Marshal(struct {
				L [][]Req
				F string
			}{r2.Logs, r2.Final})
			if string(a) != string(b) {
				rerunErrs = append(rerunErrs, fmt.Sprintf("case %d (%s): two runs of the same history gave different observables", i, inputs[i].Case.Profile))
			}
		}
	}
	clientWall := time.Since(t0)

	// ---- judge, emit ----
	failures := []failure{}
	errs := rerunErrs
	dist := map[string]int{}
	seen := map[string]bool{}
	distinctNontrivial := 0
	var samples []json.RawMessage
	w := &shardWriter{dir: *out}
	pairs := map[[2]string]bool{}
	var pairList [][2]string
	addPair := func(b, r string) {
		k := [2]string{b, r}
		if !pairs[k] {
			pairs[k] = true
			pairList = append(pairList, k)
		}
	}
	skipURLs := map[string]bool{}
	traces := 0
	evaluations := 0

	for i, in := range inputs {
		inJSON := mustJSON(in)
		switch in.Kind {
		case "run":
			evaluations++
			c := *in.Case
			res := results[i].res
			if res.Err != "" {
				errs = append(errs, fmt.Sprintf("case %d (%s): %s", i, c.Profile, res.Err))
				continue
			}
			if strings.HasPrefix(res.Final, "other:") || res.Final == "nil" {
				errs = append(errs, fmt.Sprintf("case %d (%s): Client.Wait returned an error outside the model: %s", i, c.Profile, res.Final))
				continue
			}
			unknownKind := false
			for _, l := range res.Logs {
				for _, r := range l {
					if r.Kind == "?" {
						unknownKind = true
					}
				}
			}
			if unknownKind {
				errs = append(errs, fmt.Sprintf("case %d: a request was not announced by an OnDownload callback", i))
				continue
			}
			purls := results[i].purls
			if v := judge(c, purls, res); v != nil {
				fin := inJSON
				t := trimmed(c, res)
				if len(t.Streams[0].History) != len(c.Streams[0].History) {
					r2 := runCase(t)
					if r2.Err == "" {
						if v2 := judge(t, r2.PURLs, r2); v2 != nil && v2.Sig == v.Sig {
							fin = mustJSON(input{Kind: "run", Case: &t})
							v = v2
						}
					}
				}
				failures = append(failures, failure{Signature: v.Sig, What: v.What, Input: fin})
			}
			mkT, cost := runTerm(c, purls, res)
			w.add(mkT, inJSON, cost)
			for si, st := range c.Streams {
				if c.MasterURL != "" {
					addPair(c.MasterURL, st.Ref)
				}
				skipURLs[purls[si]] = true
				for _, p := range st.History {
					for _, s := range p.Segs {
						addPair(purls[si], s.URI)
					}
					if p.Hint != nil {
						addPair(purls[si], p.Hint.URI)
					}
					if p.Map != nil {
						addPair(purls[si], p.Map.URI)
					}
				}
			}
			// statistics
			segReqs, polls := 0, 0
			for _, l := range res.Logs {
				traces++
				s := 0
				for _, r := range l {
					if r.Kind == "segment" || r.Kind == "part" {
						s++
					}
					if r.Kind == "playlist" {
						polls++
					}
				}
				if s > segReqs {
					segReqs = s
				}
			}
			dist["profile:"+c.Profile]++
			dist["format:"+c.Format]++
			dist["final:"+res.Final]++
			dist[fmt.Sprintf("streams:%d", len(c.Streams))]++
			if c.MasterURL != "" {
				dist["primary:multivariant"]++
			} else {
				dist["primary:media"]++
			}
			b := segReqs / 3 * 3
			dist[fmt.Sprintf("media_requests_max_stream:%02d-%02d", b, b+2)]++
			for _, st := range c.Streams {
				hl := len(st.History)
				dist[fmt.Sprintf("history_len:%02d-%02d", hl/5*5, hl/5*5+4)]++
				for _, p := range st.History {
					dist[fmt.Sprintf("window:%d", len(p.Segs))]++
				}
				for k := 1; k < len(st.History); k++ {
					d := st.History[k].MSN - st.History[k-1].MSN
					switch {
					case d < 0:
						dist["msn_step:<0"]++
					case d > 3:
						dist["msn_step:>3"]++
					default:
						dist[fmt.Sprintf("msn_step:%d", d)]++
					}
				}
			}
			h := sha256.Sum256(inJSON)
			hs := hex.EncodeToString(h[:8])
			if !seen[hs] {
				seen[hs] = true
				if segReqs >= 3 && polls >= 3 {
					distinctNontrivial++
					if len(samples) < 3 {
						samples = append(samples, inJSON)
					}
				}
			}
		case "find_id":
			evaluations++
			found, idx, inv, pan := callFindID(in.SeqNo, in.N, in.ID)
			if m := judgeFindID(in.SeqNo, in.N, in.ID, found, idx, inv, pan); m != "" {
				failures = append(failures, failure{Signature: "C11:findSegmentWithID", What: m, Input: inJSON})
			}
			w.add(plain(fmt.Sprintf("CFindID %s %s %s %s %s %s %s", coqfmt.Z(int64(in.SeqNo)), coqfmt.Nat(in.N), coqfmt.Z(int64(in.ID)),
				coqfmt.Bool(pan), coqfmt.Bool(found), coqfmt.Z(int64(idx)), coqfmt.Z(int64(inv)))), inJSON, 1)
			dist["direct:findSegmentWithID"]++
		case "find_inv":
			evaluations++
			found, idx, pan := callFindInv(in.N, in.InvPos)
			if m := judgeFindInv(in.N, in.InvPos, found, idx, pan); m != "" {
				failures = append(failures, failure{Signature: "C11:findSegmentWithInvPosition", What: m, Input: inJSON})
			}
			w.add(plain(fmt.Sprintf("CFindInv %s %s %s %s %s", coqfmt.Nat(in.N), coqfmt.Z(int64(in.InvPos)),
				coqfmt.Bool(pan), coqfmt.Bool(found), coqfmt.Z(int64(idx)))), inJSON, 1)
			dist["direct:findSegmentWithInvPosition"]++
			if pan {
				dist["direct:findSegmentWithInvPosition:panic"]++
			}
		case "resolve":
			evaluations++
			u, ok := goResolve(in.Base, in.Ref)
			w.add(plain(fmt.Sprintf("CResolve %s %s %s", coqfmt.Str(in.Base), coqfmt.Str(in.Ref), optStr(u, ok))), inJSON, 8)
		case "skip":
			evaluations++
			w.add(plain(fmt.Sprintf("CSkip %s %s", coqfmt.Str(in.Base), coqfmt.Str(goSkip(in.Base)))), inJSON, 6)
		case "consts":
			k := gohlslib.VerifConsts()
			w.add(plain(fmt.Sprintf("CConsts %s %s", coqfmt.Z(k["clientLiveInitialDistance"]), coqfmt.Z(k["clientLiveMaxDistanceFromEnd"]))), inJSON, 1)
			if k["clientLiveInitialDistance"] != 3 || k["clientLiveMaxDistanceFromEnd"] != 5 {
				failures = append(failures, failure{Signature: "C11:consts", What: fmt.Sprintf(
					"clientLiveInitialDistance=%d clientLiveMaxDistanceFromEnd=%d; the property says third-from-last and five",
					k["clientLiveInitialDistance"], k["clientLiveMaxDistanceFromEnd"]), Input: inJSON})
			}
		}
	}
	if *replay == "" {
		// the URL oracle instances against the real functions: RFC 3986 5.4 examples + every generated pair
		for _, ref := range rfcRefs {
			addPair(rfcBase, ref)
		}
		sort.Slice(pairList, func(a, b int) bool {
			if pairList[a][0] != pairList[b][0] {
				return pairList[a][0] < pairList[b][0]
			}
			return pairList[a][1] < pairList[b][1]
		})
		limit := 1200
		if *tier == "thorough" {
			limit = 40000
		}
		step := 1
		if len(pairList) > limit {
			step = len(pairList)/limit + 1
		}
		for i := 0; i < len(pairList); i += step {
			p := pairList[i]
			in := input{Kind: "resolve", Base: p[0], Ref: p[1]}
			u, ok := goResolve(p[0], p[1])
			evaluations++
			w.add(plain(fmt.Sprintf("CResolve %s %s %s", coqfmt.Str(p[0]), coqfmt.Str(p[1]), optStr(u, ok))), mustJSON(in), 8)
			dist["direct:clientAbsoluteURL"]++
			// the S-leg view of URL resolution: net/url against the normative RFC 3986 examples is
			// part of the trusted base; nothing to judge here
		}
		var su []string
		for u := range skipURLs {
			su = append(su, u)
		}
		sort.Strings(su)
		for _, u := range su {
			evaluations++
			w.add(plain(fmt.Sprintf("CSkip %s %s", coqfmt.Str(u), coqfmt.Str(goSkip(u)))), mustJSON(input{Kind: "skip", Base: u}), 6)
			dist["direct:skip-url"]++
		}
	}
	w.close()

	if len(samples) == 0 && len(inputs) > 0 {
		samples = append(samples, mustJSON(inputs[0]))
	}
	sort.Slice(failures, func(a, b int) bool { return len(failures[a].Input) < len(failures[b].Input) })
	res := map[string]interface{}{
		"evaluations":         evaluations,
		"distinct_nontrivial": distinctNontrivial,
		"rule": "client runs: histories from splitmix64(seed, case index) over profiles steady/random/event/vod/short/jump/fast/chaos/endlist-late, " +
			"low-latency variants and 2-3 renditions behind a multivariant playlist (windows 1..10, MSN steps <0..>3, ENDLIST at any poll, " +
			"VOD/EVENT/untyped, 12 URI forms + 2 unparsable ones, 2 in 5 of the histories that reach ENDLIST with segments sharing a URI (sub-ranges of one resource with explicit offsets, one repeated URI, URIs repeating with period 2-3),  byte ranges none/length/length@start incl. 2^64 edge values); " +
			"distinct by SHA-256 of the case; non-trivial = some stream made >= 3 media (segment/part) requests AND the client polled >= 3 playlists",
		"samples":                       samples,
		"distribution":                  dist,
		"oracle_failures":               failures,
		"errors":                        errs,
		"cases":                         w.recs,
		"shards":                        w.shard,
		"traces_validated_against_impl": traces,
		"client_wall_ms":                clientWall.Milliseconds(),
	}
	j, _ := json.MarshalIndent(res, "", " ")
	os.WriteFile(filepath.Join(*out, "result.json"), j, 0o644)
	fmt.Printf("clientsel harness: %d evaluations, %d distinct non-trivial runs, %d oracle failures, %d errors, %d shards, clients %.1fs\n",
		evaluations, distinctNontrivial, len(failures), len(errs), w.shard, clientWall.Seconds())
}
