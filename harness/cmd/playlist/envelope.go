package main

// The envelope assumed of the scalar oracles (oracle_ok in Model/PlaylistSpec.v), checked on
// the REAL functions: strconv.FormatFloat / primitives.Duration.Unmarshal for durations,
// FormatFloat / ParseFloat for frame rates, Time.Format / parseTime (through Marshal and
// Unmarshal of a one-segment playlist) for date-times. A failure here is not a violation of
// C14 but of the trusted base of its theorems; the tie reports it as an error.

import (
	"fmt"
	"strconv"
	"strings"
	"time"

	"github.com/bluenviron/gohlslib/v2/pkg/playlist"
	"github.com/bluenviron/gohlslib/v2/pkg/playlist/primitives"

	"verifharness/internal/rng"
)

func numChars(s string) bool {
	return s != "" && strings.Trim(s, "-.0123456789") == ""
}

func envelope(seed uint64, n int) (checked int, fails []string) {
	r := rng.New(seed, 0xE17E10FE)
	fail := func(format string, a ...interface{}) {
		if len(fails) < 20 {
			fails = append(fails, fmt.Sprintf(format, a...))
		}
	}
	abs := func(d time.Duration) time.Duration {
		if d < 0 {
			return -d
		}
		return d
	}
	// durations: dur_any = |d| < 2^62 and (d >= 0 or d < -6000)
	for i := 0; i < n; i++ {
		var d int64
		switch r.Pick(3, 3, 2, 2, 2, 1) {
		case 0:
			d = r.Range(0, 100_000_000_000)
		case 1:
			d = r.Range(0, 1<<62-1)
		case 2:
			d = r.Range(0, 400_000_000)*10000 + 5000 // rounding ties
		case 3:
			d = r.Range(0, 20000)
		case 4:
			d = -r.Range(6001, 1<<62-1)
		case 5:
			d = []int64{0, 1, 4999, 5000, 5001, 6000, 6001, 9999, 10000, 1<<62 - 1, -6001, -(1<<62 - 1)}[r.Intn(12)]
		}
		dd := time.Duration(d)
		s := strconv.FormatFloat(dd.Seconds(), 'f', 5, 64)
		checked++
		if !numChars(s) {
			fail("fmt_dur(%d) = %q has characters outside [-.0-9]", d, s)
			continue
		}
		var p primitives.Duration
		if err := p.Unmarshal(s); err != nil {
			fail("parse_dur(fmt_dur(%d) = %q) fails: %v", d, s, err)
			continue
		}
		d2 := time.Duration(p)
		if abs(dd-d2) >= 10*time.Microsecond {
			fail("duration %d prints as %q and reads back as %d: off by >= 10 us", d, s, int64(d2))
		}
		if s2 := strconv.FormatFloat(d2.Seconds(), 'f', 5, 64); s2 != s {
			fail("fmt_dur is not stable: %d -> %q -> %d -> %q", d, s, int64(d2), s2)
		}
		if abs(dd) > 6000 && d2 == 0 {
			fail("duration %d (> 6 us) reads back as 0", d)
		}
	}
	// frame rates: three decimals
	for i := 0; i < n/5; i++ {
		k := r.Range(0, 1<<40)
		if r.Bool(1, 2) {
			k = r.Range(0, 300000)
		}
		f := float64(k) / 1000
		s := strconv.FormatFloat(f, 'f', 3, 64)
		checked++
		g, err := strconv.ParseFloat(s, 64)
		if err != nil || g != f || !numChars(s) {
			fail("frame rate %d/1000 prints as %q and reads back as %v (%v)", k, s, g, err)
		}
	}
	// date-times
	g := newGen()
	g.r = r
	for i := 0; i < n/5; i++ {
		t := g.timep()
		m := &playlist.Media{Version: 3, TargetDuration: 2, Segments: []*playlist.MediaSegment{{Duration: time.Second, URI: "s", DateTime: t}}}
		checked++
		b, _ := m.Marshal()
		if strings.ContainsAny(t.Format("2006-01-02T15:04:05.999Z07:00"), "\r\n") {
			fail("fmt_time has CR/LF for %v", t)
		}
		var m2 playlist.Media
		if err := m2.Unmarshal(b); err != nil || m2.Segments[0].DateTime == nil {
			fail("date-time %v does not read back: %v", t.Format(time.RFC3339Nano), err)
			continue
		}
		t2 := m2.Segments[0].DateTime
		_, o1 := t.Zone()
		_, o2 := t2.Zone()
		dd := t.Sub(*t2)
		if dd < 0 {
			dd = -dd
		}
		if dd >= time.Millisecond || o1 != o2 {
			fail("date-time %v reads back as %v", t.Format(time.RFC3339Nano), t2.Format(time.RFC3339Nano))
		}
		m.Segments[0].DateTime = t2
		b2, _ := m.Marshal()
		if string(b2) != string(b) {
			fail("fmt_time is not stable for %v", t.Format(time.RFC3339Nano))
		}
	}
	return checked, fails
}
