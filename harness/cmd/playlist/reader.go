package main

// An independent, tolerant M3U8 line reader (shares no code with pkg/playlist): used as the
// second decoder of Marshal output (C14) and as the token source of the syntactic variants
// and of the token-level mutations.

import (
	"strings"
)

type kv struct {
	Key    string
	Val    string // without quotes
	Quoted bool
}

type mline struct {
	Raw   string // without line terminator
	Tag   string // "#EXT..." up to ':' (without '#'), "" for URI / blank / comment lines
	Value string // text after ':'
	IsURI bool
	Attrs []kv // when the value tokenises as an attribute list
	AttrOK bool
}

var attrTags = map[string]bool{
	"EXT-X-START": true, "EXT-X-SERVER-CONTROL": true, "EXT-X-PART-INF": true, "EXT-X-MAP": true,
	"EXT-X-KEY": true, "EXT-X-SKIP": true, "EXT-X-PART": true, "EXT-X-PRELOAD-HINT": true,
	"EXT-X-MEDIA": true, "EXT-X-STREAM-INF": true,
}

// splitAttrs tokenises NAME=value[,NAME=value]*; quoted values may contain commas.
// ok = false when the text is not a well-formed list (empty name, missing '=', open quote).
func splitAttrs(s string) (out []kv, ok bool) {
	if s == "" {
		return nil, false
	}
	i := 0
	for {
		j := i
		for j < len(s) && s[j] != '=' && s[j] != ',' {
			j++
		}
		if j == i || j >= len(s) || s[j] != '=' {
			return out, false
		}
		key := s[i:j]
		j++
		if j < len(s) && s[j] == '"' {
			e := strings.IndexByte(s[j+1:], '"')
			if e < 0 {
				return out, false
			}
			out = append(out, kv{Key: key, Val: s[j+1 : j+1+e], Quoted: true})
			j = j + 1 + e + 1
		} else {
			e := j
			for e < len(s) && s[e] != ',' {
				e++
			}
			if strings.IndexByte(s[j:e], '"') >= 0 {
				return out, false
			}
			out = append(out, kv{Key: key, Val: s[j:e]})
			j = e
		}
		if j == len(s) {
			return out, true
		}
		if s[j] != ',' {
			return out, false
		}
		i = j + 1
		if i == len(s) {
			return out, false
		}
	}
}

func joinAttrs(a []kv) string {
	var sb strings.Builder
	for i, x := range a {
		if i > 0 {
			sb.WriteByte(',')
		}
		sb.WriteString(x.Key)
		sb.WriteByte('=')
		if x.Quoted {
			sb.WriteString("\"" + x.Val + "\"")
		} else {
			sb.WriteString(x.Val)
		}
	}
	return sb.String()
}

// readLines splits on LF, strips one trailing CR; the flag tells whether the text ended
// with a line terminator.
func readLines(b string) (lines []mline, finalNL bool) {
	finalNL = strings.HasSuffix(b, "\n")
	parts := strings.Split(b, "\n")
	if finalNL {
		parts = parts[:len(parts)-1]
	}
	for _, raw := range parts {
		raw = strings.TrimSuffix(raw, "\r")
		l := mline{Raw: raw}
		switch {
		case raw == "":
		case strings.HasPrefix(raw, "#EXT"):
			if c := strings.IndexByte(raw, ':'); c >= 0 {
				l.Tag, l.Value = raw[1:c], raw[c+1:]
			} else {
				l.Tag = raw[1:]
			}
			if attrTags[l.Tag] {
				l.Attrs, l.AttrOK = splitAttrs(l.Value)
			}
		case raw[0] == '#':
		default:
			l.IsURI = true
		}
		lines = append(lines, l)
	}
	return lines, finalNL
}

func (l mline) attr(key string) (kv, bool) {
	for _, a := range l.Attrs {
		if a.Key == key {
			return a, true
		}
	}
	return kv{}, false
}

func renderLines(lines []string, eol string, finalNL bool) string {
	s := strings.Join(lines, eol)
	if finalNL {
		s += eol
	}
	return s
}
