// Command playlist drives the REAL pkg/playlist (Media / Multivariant Marshal and
// Unmarshal, playlist.Unmarshal) for properties C14 and C15:
//   - value stream: playlist values (every subset of optional fields per tag, random legal
//     scalars), real Marshal bytes and real Unmarshal results -> Coq cases (T leg) and the
//     property oracles (S leg);
//   - variant stream (C14): syntactic variants of real Marshal output;
//   - malformed stream (C15): token-level mutations of real Marshal output;
//   - arbitrary bytes (C15): the fuzz corpora of /repo and byte noise, oracle only.
package main

import (
	"crypto/sha256"
	"encoding/base64"
	"encoding/hex"
	"encoding/json"
	"flag"
	"fmt"
	"os"
	"path/filepath"
	"sort"
	"strconv"
	"strings"

	"github.com/bluenviron/gohlslib/v2/pkg/playlist"

	"verifharness/internal/playlist/grammar"
	"verifharness/internal/rng"
)

type inputRec struct {
	Stream  string          `json:"stream"` // value | variant | malformed | bytes
	Kind    string          `json:"kind,omitempty"`
	Valid   bool            `json:"valid,omitempty"` // value satisfies the documented requirements
	Value   json.RawMessage `json:"value,omitempty"`
	TextB64 string          `json:"text_b64,omitempty"`
	Text    string          `json:"text,omitempty"` // printable rendering, for the reader
	Note    string          `json:"note,omitempty"`
}

type caseRec struct {
	Shard int      `json:"shard"`
	Index int      `json:"index"`
	What  string   `json:"what"`
	Input inputRec `json:"input"`
}

type shardWriter struct {
	dir     string
	f       *os.File
	idx, in int
	size    int
	max     int
	cases   []caseRec
	skipped int
}

func (w *shardWriter) close() {
	if w.f != nil {
		fmt.Fprintln(w.f, "\n].")
		fmt.Fprintln(w.f, "Definition M := Eval vm_compute in mismatches cases.")
		fmt.Fprintln(w.f, "Print M.")
		w.f.Close()
		w.f = nil
	}
}

func (w *shardWriter) add(term, what string, in inputRec) {
	if w.f == nil || w.in >= w.max || w.size > 3<<20 {
		if w.f != nil {
			w.close()
			w.idx++
		}
		w.in, w.size = 0, 0
		f, err := os.Create(filepath.Join(w.dir, fmt.Sprintf("cases_%d.v", w.idx)))
		if err != nil {
			panic(err)
		}
		w.f = f
		fmt.Fprintln(f, "From Coq Require Import List ZArith String Uint63.")
		fmt.Fprintln(f, "From GoHls Require Import Model.PlaylistBase Model.Playlist Tie.PlaylistTie.")
		fmt.Fprintln(f, "Import ListNotations. Open Scope Z_scope.")
		fmt.Fprintln(f, "Definition cases : list pcase := [")
	}
	if w.in > 0 {
		fmt.Fprintln(w.f, ";")
	}
	fmt.Fprint(w.f, term)
	w.size += len(term)
	w.cases = append(w.cases, caseRec{Shard: w.idx, Index: w.in, What: what, Input: in})
	w.in++
}

func printable(b []byte) string {
	s := strconv.QuoteToASCII(string(b))
	if len(s) > 1500 {
		s = s[:1500] + "...\""
	}
	return s
}

func textInput(stream string, b []byte, note string) inputRec {
	return inputRec{Stream: stream, TextB64: base64.StdEncoding.EncodeToString(b), Text: printable(b), Note: note}
}

func valueInput(p playlist.Playlist, valid bool, note string) inputRec {
	j, _ := json.Marshal(p)
	return inputRec{Stream: "value", Kind: kindOf(p), Valid: valid, Value: j, Note: note}
}

func countOptional(p playlist.Playlist) int {
	n := 0
	switch v := p.(type) {
	case *playlist.Media:
		for _, b := range []bool{v.IndependentSegments, v.Start != nil, v.AllowCache != nil, v.ServerControl != nil, v.PartInf != nil,
			v.DiscontinuitySequence != nil, v.PlaylistType != nil, v.Map != nil, v.Skip != nil, len(v.Parts) != 0,
			v.PreloadHint != nil, v.Endlist} {
			if b {
				n++
			}
		}
		for _, s := range v.Segments {
			for _, b := range []bool{s.Title != "", s.Discontinuity, s.Gap, s.DateTime != nil, s.Bitrate != nil, s.Key != nil,
				s.ByteRangeLength != nil, len(s.Parts) != 0} {
				if b {
					n++
				}
			}
		}
	case *playlist.Multivariant:
		for _, b := range []bool{v.IndependentSegments, v.Start != nil, len(v.Renditions) != 0} {
			if b {
				n++
			}
		}
		for _, x := range v.Variants {
			for _, b := range []bool{x.AverageBandwidth != nil, x.Resolution != "", x.FrameRate != nil, x.Video != "",
				x.Audio != "", x.Subtitles != "", x.ClosedCaptions != ""} {
				if b {
					n++
				}
			}
		}
	}
	return n
}

type harness struct {
	prop      string
	w         *shardWriter
	fs        *failSet
	dist      map[string]int
	seen      map[string]bool
	nontr     int
	evals     int
	strictSeq int
	allStrict bool
	traces    int
	sample    []inputRec
}

func (h *harness) note(in inputRec, key []byte, nontrivial bool) {
	hs := sha256.Sum256(key)
	k := hex.EncodeToString(hs[:8])
	if h.seen[k] {
		return
	}
	h.seen[k] = true
	if nontrivial {
		h.nontr++
		if len(h.sample) < 3 {
			h.sample = append(h.sample, in)
		}
	}
}

// decodeAll runs the three real decoders on a text, writes the comparison case and applies
// the C15 decode oracles.
func (h *harness) decodeAll(stream string, text []byte, in inputRec, typed string, compare bool, valueTerm string) (auto callResult) {
	h.evals++
	auto = realUnmarshalAuto(text)
	med := realUnmarshalMedia(text)
	mul := realUnmarshalMulti(text)
	h.traces += 3
	cls := func(r callResult) string {
		switch {
		case r.hung:
			return "hang"
		case r.panicked != "":
			return "panic"
		case r.err != nil:
			return "error"
		}
		return "ok"
	}
	h.dist[stream+":playlist.Unmarshal:"+cls(auto)]++
	h.dist[stream+":Media.Unmarshal:"+cls(med)]++
	h.dist[stream+":Multivariant.Unmarshal:"+cls(mul)]++
	if h.prop == "C15" {
		c15Decode(h.fs, "playlist.Unmarshal", auto, in, len(text))
		c15Decode(h.fs, "Media.Unmarshal", med, in, len(text))
		c15Decode(h.fs, "Multivariant.Unmarshal", mul, in, len(text))
	}
	// the Gallina strict grammar is compared with the Go grammar checker on the same text
	strict := "None"
	if h.prop == "C15" {
		_, vs := grammar.Check(text)
		strict = "(Some " + strconv.FormatBool(len(vs) == 0) + ")"
		h.dist[stream+":grammar-accepts:"+strconv.FormatBool(len(vs) == 0)]++
	}
	if !compare || auto.panicked != "" || med.panicked != "" || mul.panicked != "" || auto.hung || med.hung || mul.hung {
		if h.prop == "C15" && h.strictOnly(stream) {
			h.w.add("CUnmarshal "+pstr(string(text))+" None None None "+strict, stream+":strict", in)
		}
		return auto
	}
	p := &printer{}
	mt, ut := "None", "None"
	if typed == "" || typed == "media" {
		m, _ := med.pl.(*playlist.Media)
		mt = p.resMedia(m, med.err)
	}
	if typed == "" || typed == "multivariant" {
		m, _ := mul.pl.(*playlist.Multivariant)
		ut = p.resMulti(m, mul.err)
	}
	at := p.resAuto(auto.pl, auto.err)
	if p.err != nil {
		h.dist[stream+":outside-scalar-class"]++
		h.w.skipped++
		return auto
	}
	head := "CUnmarshal "
	if valueTerm != "" {
		head = valueTerm + "\n "
	}
	h.w.add(head+pstr(string(text))+"\n "+mt+"\n "+ut+"\n "+at+" "+strict, stream+":unmarshal", in)
	return auto
}

// strictOnly: oracle-only streams (arbitrary bytes) still go to the strict-grammar comparison;
// in the quick tier every second one
func (h *harness) strictOnly(stream string) bool {
	h.strictSeq++
	return h.allStrict || h.strictSeq%2 == 0
}

func (h *harness) value(g *gen, p playlist.Playlist, valid bool, note string) {
	in := valueInput(p, valid, note)
	kind := kindOf(p)
	mr := realMarshal(p)
	h.traces++
	if mr.panicked != "" || mr.err != nil {
		if h.prop == "C15" {
			h.fs.add(failure{"C15", "C15:remarshal:" + kind + ":value:" + panicClass(mr.panicked+fmt.Sprint(mr.err)),
				"Marshal failed on a playlist value: " + mr.panicked + fmt.Sprint(mr.err), in, 1})
		}
		return
	}
	pr := &printer{}
	var term string
	if kind == "media" {
		term = "CValueMedia " + pr.media(p.(*playlist.Media))
	} else {
		term = "CValueMulti " + pr.multivariant(p.(*playlist.Multivariant))
	}
	if pr.err != nil {
		h.w.skipped++
		h.dist["value:outside-scalar-class"]++
		term = ""
	}
	stream := "value"
	if !valid {
		stream = "value-invalid"
	}
	h.dist[stream+":"+kind]++
	h.decodeAll(stream, mr.b, in, kind, true, term)
	h.note(in, mr.b, valid && countOptional(p) >= 3)
	if !valid {
		return
	}

	switch h.prop {
	case "C14":
		ds, fatal := c14FieldDiffs(p)
		if fatal != "" {
			h.fs.add(failure{"C14", "C14:" + kind + ":" + fatal, "Marshal/Unmarshal of a valid value: " + fatal, in, len(mr.b)})
		}
		done := map[string]bool{}
		for _, d := range ds {
			if done[d.Path] {
				continue
			}
			done[d.Path] = true
			path := d.Path
			small := shrinkPlaylist(p, func(c playlist.Playlist) bool {
				ds2, _ := c14FieldDiffs(c)
				return hasPath(ds2, path) != nil
			})
			ds2, _ := c14FieldDiffs(small)
			dd := hasPath(ds2, path)
			if dd == nil {
				dd = &d
				small = p
			}
			mb := realMarshal(small)
			h.fs.add(failure{"C14", "C14:" + kind + ":field=" + path,
				fmt.Sprintf("Unmarshal(Marshal(p)) does not reproduce %s: value %s, after the round trip / in the encoded text %s; Marshal output %s",
					path, dd.Want, dd.Got, printable(mb.b)),
				valueInput(small, true, "minimised"), len(mb.b)})
		}
		if sig, what := c14Fixpoint(p); sig != "" {
			small := shrinkPlaylist(p, func(c playlist.Playlist) bool { s, _ := c14Fixpoint(c); return s == sig })
			mb := realMarshal(small)
			h.fs.add(failure{"C14", "C14:" + kind + ":" + sig, what + "; Marshal output " + printable(mb.b),
				valueInput(small, true, "minimised"), len(mb.b)})
		}
		// syntactic variants
		base := realUnmarshalAuto(mr.b)
		if base.panicked == "" && !base.hung {
			nv := 2
			for k := 0; k < nv; k++ {
				x := g.subset("variant-composition", 31) + 1
				vs := variantSpec{bit(x, 0), bit(x, 1), bit(x, 2), bit(x, 3), bit(x, 4)}
				vt := applyVariant(g.r, string(mr.b), kind == "multivariant", vs)
				if vt == string(mr.b) {
					continue
				}
				vin := textInput("variant", []byte(vt), vs.name())
				h.dist["variant:"+vs.name()]++
				got := h.decodeAll("variant", []byte(vt), vin, kind, true, "")
				h.note(vin, []byte(vt), true)
				bad := ""
				switch {
				case got.panicked != "" || got.hung:
					bad = "panic"
				case (got.err != nil) != (base.err != nil):
					bad = fmt.Sprintf("error %v vs %v", got.err, base.err)
				case got.err == nil:
					if ds := comparePlaylists(base.pl, got.pl, 0, 0); len(ds) != 0 {
						bad = "field " + ds[0].Path + ": " + ds[0].Want + " vs " + ds[0].Got
					}
				}
				if bad != "" {
					// attribute the failure to single transformations where possible
					name := vs.name()
					for b := 0; b < 5; b++ {
						one := variantSpec{b == 0, b == 1, b == 2, b == 3, b == 4}
						if !bit(x, b) {
							continue
						}
						t1 := applyVariant(rng.New(1, uint64(b)), string(mr.b), kind == "multivariant", one)
						r1 := realUnmarshalAuto([]byte(t1))
						if (r1.err != nil) != (base.err != nil) || (r1.err == nil && len(comparePlaylists(base.pl, r1.pl, 0, 0)) != 0) {
							name, vt = one.name(), t1
							break
						}
					}
					h.fs.add(failure{"C14", "C14:" + kind + ":variant:" + name,
						"a syntactic variant (" + name + ") of Marshal output decodes differently: " + bad,
						textInput("variant", []byte(vt), name), len(vt)})
				}
			}
		}
	case "C15":
		for _, v := range c15Grammar(p, mr.b) {
			v := v
			sig := v.Signature()
			small := shrinkPlaylist(p, func(c playlist.Playlist) bool {
				m := realMarshal(c)
				if m.b == nil {
					return false
				}
				for _, w := range c15Grammar(c, m.b) {
					if w.Signature() == sig {
						return true
					}
				}
				return false
			})
			mb := realMarshal(small)
			det := v.Detail
			for _, w := range c15Grammar(small, mb.b) {
				if w.Signature() == sig {
					det = w.String()
				}
			}
			h.fs.add(failure{"C15", "C15:grammar:" + sig,
				"Marshal output of a valid value is not grammatical M3U8 (" + det + "): " + printable(mb.b),
				valueInput(small, true, "minimised"), len(mb.b)})
		}
	}
}

func (h *harness) malformed(g *gen, src []byte, n int) { h.malformedR(g.r, src, n) }

func (h *harness) malformedR(r0 *rng.R, src []byte, n int) {
	g := &gen{r: r0}
	for k := 0; k < n; k++ {
		t, name := mutate(g.r, string(src))
		if g.r.Bool(1, 4) {
			var n2 string
			t, n2 = mutate(g.r, t)
			name += "+" + n2
		}
		if t == string(src) {
			continue
		}
		in := textInput("malformed", []byte(t), name)
		h.dist["mutation:"+strings.Split(name, "+")[0]]++
		r := h.decodeAll("malformed", []byte(t), in, "", true, "")
		h.note(in, []byte(t), strings.Count(t, "\n") >= 4 && r.panicked == "")
	}
}

func (h *harness) bytesOnly(b []byte, note string) {
	in := textInput("bytes", b, note)
	h.decodeAll("bytes", b, in, "", false, "")
	h.note(in, b, len(b) > 0)
}

// corpus files of "go test fuzz v1"
func loadCorpus(repo string) (out [][]byte) {
	files, _ := filepath.Glob(filepath.Join(repo, "pkg/playlist/testdata/fuzz/*/*"))
	sort.Strings(files)
	for _, f := range files {
		raw, err := os.ReadFile(f)
		if err != nil {
			continue
		}
		for _, line := range strings.Split(string(raw), "\n") {
			line = strings.TrimSpace(line)
			for _, pre := range []string{"[]byte(", "string("} {
				if strings.HasPrefix(line, pre) && strings.HasSuffix(line, ")") {
					if s, err := strconv.Unquote(line[len(pre) : len(line)-1]); err == nil {
						out = append(out, []byte(s))
					}
				}
			}
		}
	}
	return out
}

func main() {
	seed := flag.Uint64("seed", 0, "seed")
	tier := flag.String("tier", "quick", "quick|thorough")
	out := flag.String("out", "", "output directory")
	prop := flag.String("prop", "C14", "C14|C15")
	replay := flag.String("replay", "", "replay file (JSON with .input)")
	scale := flag.Int("scale", 1, "multiplies the number of generated cases")
	repo := flag.String("repo", "/repo", "repository (fuzz corpora)")
	flag.Parse()
	if *out == "" {
		fmt.Fprintln(os.Stderr, "need -out")
		os.Exit(2)
	}
	os.MkdirAll(*out, 0o755)
	h := &harness{prop: *prop, w: &shardWriter{dir: *out, max: 120}, fs: &failSet{}, dist: map[string]int{}, seen: map[string]bool{}, sample: []inputRec{}}
	h.allStrict = *tier == "thorough"
	g := newGen()

	if *replay != "" {
		raw, err := os.ReadFile(*replay)
		if err != nil {
			panic(err)
		}
		var rp struct {
			Input inputRec `json:"input"`
		}
		if err := json.Unmarshal(raw, &rp); err != nil {
			panic(err)
		}
		g.r = rng.New(*seed, 0)
		switch {
		case rp.Input.Stream == "value" && rp.Input.Kind == "media":
			var m playlist.Media
			if err := json.Unmarshal(rp.Input.Value, &m); err != nil {
				panic(err)
			}
			h.value(g, &m, rp.Input.Valid, "replay")
		case rp.Input.Stream == "value":
			var m playlist.Multivariant
			if err := json.Unmarshal(rp.Input.Value, &m); err != nil {
				panic(err)
			}
			h.value(g, &m, rp.Input.Valid, "replay")
		default:
			b, err := base64.StdEncoding.DecodeString(rp.Input.TextB64)
			if err != nil {
				panic(err)
			}
			in := rp.Input
			r := h.decodeAll(in.Stream, b, in, "", in.Stream != "bytes", "")
			if in.Stream == "variant" && *prop == "C14" {
				// a variant replay carries the transformed text; it must decode like its
				// de-transformed form (CRLF / unknown lines removed is not recoverable here), so
				// only the decode outcome is reported
				_ = r
			}
		}
	} else {
		nMedia, nMulti := 560, 260
		if *tier == "thorough" {
			nMedia, nMulti = 6000, 3000
		}
		nMedia *= *scale
		nMulti *= *scale
		boundaryEvery := 24 // zero-valued boundary forms on every 24th media value (quick), every 3rd (thorough)
		if *tier == "thorough" {
			boundaryEvery = 3
		}
		corpus := loadCorpus(*repo)
		if *prop == "C15" {
			nsc := 12
			if *tier == "thorough" {
				nsc = 120
			}
			h.muxerStream(*seed, nsc**scale)
			for i, b := range corpus {
				h.bytesOnly(b, fmt.Sprintf("corpus-%d", i))
			}
			h.dist["corpus-files"] = len(corpus)
		}
		for i := 0; i < nMedia+nMulti; i++ {
			g.r = rng.New(*seed, uint64(i))
			var p playlist.Playlist
			if i < nMedia {
				p = g.media()
			} else {
				p = g.multivariant()
			}
			h.value(g, p, true, "")
			if *prop == "C15" {
				mr := realMarshal(p)
				if mr.b != nil {
					h.malformed(g, mr.b, 2)
					if _, isMedia := p.(*playlist.Media); isMedia && i%boundaryEvery == 0 {
						bts, bnames := boundaryTexts(string(mr.b))
						for bi, bt := range bts {
							in := textInput("boundary", []byte(bt), bnames[bi])
							h.dist["boundary:"+strings.SplitN(bnames[bi], "=", 2)[0]]++
							h.decodeAll("boundary", []byte(bt), in, "", true, "")
							h.note(in, []byte(bt), true)
						}
					}
					if _, vs := grammar.Check(mr.b); len(vs) == 0 {
						// one more mutation of a grammatical text: its verdict depends on the mutation alone
						h.malformed(g, mr.b, 1)
					}
					for k := 0; k < 3; k++ {
						h.bytesOnly([]byte(noise(g.r, string(mr.b))), "noise")
					}
					if len(corpus) > 0 && i%4 == 0 {
						c := corpus[g.r.Intn(len(corpus))]
						h.bytesOnly([]byte(noise(g.r, string(c))), "corpus-noise")
					}
				}
			}
			// one value in six also in a form that breaks a documented requirement (T leg only)
			if i%6 == 0 {
				q := clonePlaylist(p)
				var why string
				if m, ok := q.(*playlist.Media); ok {
					why = g.breakMedia(m)
				} else {
					why = g.breakMulti(q.(*playlist.Multivariant))
				}
				h.dist["invalid:"+why]++
				h.value(g, q, false, why)
			}
		}
	}
	h.w.close()

	envChecked, envFails := 0, []string{}
	if *prop == "C14" && *replay == "" {
		n := 20000
		if *tier == "thorough" {
			n = 400000
		}
		envChecked, envFails = envelope(*seed, n)
		if envFails == nil {
			envFails = []string{}
		}
	}

	cov := map[string]string{}
	covOK := true
	for tag, n := range g.total {
		cov[tag] = fmt.Sprintf("%d/%d", len(g.cover[tag]), n)
		if len(g.cover[tag]) < n && tag != "variant-composition" {
			covOK = false
		}
		if tag == "variant-composition" && *prop == "C14" && len(g.cover[tag]) < n {
			covOK = false
		}
	}
	var fails []failure
	var keys []string
	for k := range h.fs.bySig {
		keys = append(keys, k)
	}
	sort.Strings(keys)
	for _, k := range keys {
		fails = append(fails, *h.fs.bySig[k])
	}
	rule := "values from splitmix64(seed, index): per-tag subset counters enumerate every present/absent combination of optional " +
		"fields (coverage in subset_coverage), scalars random legal values; distinct by SHA-256 of the Marshal output / of the text; "
	if *prop == "C14" {
		rule += "non-trivial = a valid value with >= 3 optional fields or tags present, or a syntactic variant that differs from the Marshal output"
	} else {
		rule += "non-trivial = a valid value with >= 3 optional fields or tags present, a mutated text of >= 5 lines that differs from its source, or a non-empty corpus / noise byte string"
	}
	res := map[string]interface{}{
		"property":                      *prop,
		"evaluations":                   h.evals,
		"distinct_nontrivial":           h.nontr,
		"rule":                          rule,
		"samples":                       h.sample,
		"distribution":                  h.dist,
		"subset_coverage":               cov,
		"subset_coverage_complete":      covOK || *replay != "",
		"oracle_failures":               fails,
		"oracle_failure_count":          h.fs.count,
		"cases":                         h.w.cases,
		"shards":                        h.w.idx + 1,
		"skipped_outside_scalar_class":  h.w.skipped,
		"traces_validated_against_impl": h.traces,
		"envelope_checked":              envChecked,
		"envelope_failures":             envFails,
	}
	j, _ := json.MarshalIndent(res, "", " ")
	os.WriteFile(filepath.Join(*out, "result.json"), j, 0o644)
	fmt.Printf("playlist harness (%s): %d evaluations, %d distinct non-trivial, %d oracle failures (%d signatures), %d cases in %d shards\n",
		*prop, h.evals, h.nontr, h.fs.count, len(fails), len(h.w.cases), h.w.idx+1)
}
