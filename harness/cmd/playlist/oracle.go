package main

// S leg: the property oracles of C14 and C15, written from the property texts (they know
// nothing about the Coq model).

import (
	"fmt"
	"reflect"
	"regexp"
	"strconv"
	"strings"
	"time"

	"github.com/bluenviron/gohlslib/v2/pkg/playlist"

	"verifharness/internal/playlist/grammar"
)

// ---------- field-by-field comparison ----------

type diff struct {
	Path string
	Want string
	Got  string
}

type cmp struct {
	durTol  time.Duration // |d - d'| < durTol (0 = exact)
	timeTol time.Duration
	out     []diff
}

func (c *cmp) add(path string, want, got interface{}) {
	c.out = append(c.out, diff{path, fmt.Sprint(want), fmt.Sprint(got)})
}

func (c *cmp) eq(path string, a, b interface{}) {
	if !reflect.DeepEqual(a, b) {
		c.add(path, a, b)
	}
}

func (c *cmp) dur(path string, a, b time.Duration) {
	d := a - b
	if d < 0 {
		d = -d
	}
	if (c.durTol == 0 && a != b) || (c.durTol != 0 && d >= c.durTol) {
		c.add(path, int64(a), int64(b))
	}
}

func (c *cmp) durp(path string, a, b *time.Duration) {
	if (a == nil) != (b == nil) {
		c.add(path, a != nil, b != nil)
		return
	}
	if a != nil {
		c.dur(path, *a, *b)
	}
}

func (c *cmp) u64p(path string, a, b *uint64) {
	if (a == nil) != (b == nil) {
		c.add(path, a != nil, b != nil)
	} else if a != nil && *a != *b {
		c.add(path, *a, *b)
	}
}

func (c *cmp) intp(path string, a, b *int) {
	if (a == nil) != (b == nil) {
		c.add(path, a != nil, b != nil)
	} else if a != nil && *a != *b {
		c.add(path, *a, *b)
	}
}

func (c *cmp) strp(path string, a, b *string) {
	if (a == nil) != (b == nil) {
		c.add(path, a != nil, b != nil)
	} else if a != nil && *a != *b {
		c.add(path, *a, *b)
	}
}

func (c *cmp) timep(path string, a, b *time.Time) {
	if (a == nil) != (b == nil) {
		c.add(path, a != nil, b != nil)
		return
	}
	if a == nil {
		return
	}
	_, oa := a.Zone()
	_, ob := b.Zone()
	d := a.Sub(*b)
	if d < 0 {
		d = -d
	}
	if oa != ob || (c.timeTol == 0 && !a.Equal(*b)) || (c.timeTol != 0 && d >= c.timeTol) {
		c.add(path, a.Format(time.RFC3339Nano), b.Format(time.RFC3339Nano))
	}
}

func (c *cmp) part(path string, a, b *playlist.MediaPart) {
	c.dur(path+".Duration", a.Duration, b.Duration)
	c.eq(path+".URI", a.URI, b.URI)
	c.eq(path+".Independent", a.Independent, b.Independent)
	c.u64p(path+".ByteRangeLength", a.ByteRangeLength, b.ByteRangeLength)
	c.u64p(path+".ByteRangeStart", a.ByteRangeStart, b.ByteRangeStart)
	c.eq(path+".Gap", a.Gap, b.Gap)
}

func (c *cmp) parts(path string, a, b []*playlist.MediaPart) {
	if len(a) != len(b) {
		c.add(path+".len", len(a), len(b))
		return
	}
	for i := range a {
		c.part(path+"[]", a[i], b[i])
	}
}

func (c *cmp) media(a, b *playlist.Media) {
	c.eq("Version", a.Version, b.Version)
	c.eq("IndependentSegments", a.IndependentSegments, b.IndependentSegments)
	if (a.Start == nil) != (b.Start == nil) {
		c.add("Start", a.Start != nil, b.Start != nil)
	} else if a.Start != nil {
		c.dur("Start.TimeOffset", a.Start.TimeOffset, b.Start.TimeOffset)
	}
	if (a.AllowCache == nil) != (b.AllowCache == nil) {
		c.add("AllowCache", a.AllowCache != nil, b.AllowCache != nil)
	} else if a.AllowCache != nil && *a.AllowCache != *b.AllowCache {
		c.add("AllowCache", *a.AllowCache, *b.AllowCache)
	}
	c.eq("TargetDuration", a.TargetDuration, b.TargetDuration)
	if (a.ServerControl == nil) != (b.ServerControl == nil) {
		c.add("ServerControl", a.ServerControl != nil, b.ServerControl != nil)
	} else if a.ServerControl != nil {
		c.eq("ServerControl.CanBlockReload", a.ServerControl.CanBlockReload, b.ServerControl.CanBlockReload)
		c.durp("ServerControl.PartHoldBack", a.ServerControl.PartHoldBack, b.ServerControl.PartHoldBack)
		c.durp("ServerControl.CanSkipUntil", a.ServerControl.CanSkipUntil, b.ServerControl.CanSkipUntil)
	}
	if (a.PartInf == nil) != (b.PartInf == nil) {
		c.add("PartInf", a.PartInf != nil, b.PartInf != nil)
	} else if a.PartInf != nil {
		c.dur("PartInf.PartTarget", a.PartInf.PartTarget, b.PartInf.PartTarget)
	}
	c.eq("MediaSequence", a.MediaSequence, b.MediaSequence)
	c.intp("DiscontinuitySequence", a.DiscontinuitySequence, b.DiscontinuitySequence)
	if (a.PlaylistType == nil) != (b.PlaylistType == nil) {
		c.add("PlaylistType", a.PlaylistType != nil, b.PlaylistType != nil)
	} else if a.PlaylistType != nil && *a.PlaylistType != *b.PlaylistType {
		c.add("PlaylistType", *a.PlaylistType, *b.PlaylistType)
	}
	if (a.Map == nil) != (b.Map == nil) {
		c.add("Map", a.Map != nil, b.Map != nil)
	} else if a.Map != nil {
		c.eq("Map.URI", a.Map.URI, b.Map.URI)
		c.u64p("Map.ByteRangeLength", a.Map.ByteRangeLength, b.Map.ByteRangeLength)
		c.u64p("Map.ByteRangeStart", a.Map.ByteRangeStart, b.Map.ByteRangeStart)
	}
	if (a.Skip == nil) != (b.Skip == nil) {
		c.add("Skip", a.Skip != nil, b.Skip != nil)
	} else if a.Skip != nil {
		c.eq("Skip.SkippedSegments", a.Skip.SkippedSegments, b.Skip.SkippedSegments)
	}
	if len(a.Segments) != len(b.Segments) {
		c.add("Segments.len", len(a.Segments), len(b.Segments))
	} else {
		for i := range a.Segments {
			x, y := a.Segments[i], b.Segments[i]
			p := "Segments[]"
			c.dur(p+".Duration", x.Duration, y.Duration)
			c.eq(p+".Title", x.Title, y.Title)
			c.eq(p+".URI", x.URI, y.URI)
			c.eq(p+".Discontinuity", x.Discontinuity, y.Discontinuity)
			c.eq(p+".Gap", x.Gap, y.Gap)
			c.timep(p+".DateTime", x.DateTime, y.DateTime)
			c.intp(p+".Bitrate", x.Bitrate, y.Bitrate)
			if (x.Key == nil) != (y.Key == nil) {
				c.add(p+".Key", x.Key != nil, y.Key != nil)
			} else if x.Key != nil && *x.Key != *y.Key {
				c.add(p+".Key", *x.Key, *y.Key)
			}
			c.u64p(p+".ByteRangeLength", x.ByteRangeLength, y.ByteRangeLength)
			c.u64p(p+".ByteRangeStart", x.ByteRangeStart, y.ByteRangeStart)
			c.parts(p+".Parts", x.Parts, y.Parts)
		}
	}
	c.parts("Parts", a.Parts, b.Parts)
	if (a.PreloadHint == nil) != (b.PreloadHint == nil) {
		c.add("PreloadHint", a.PreloadHint != nil, b.PreloadHint != nil)
	} else if a.PreloadHint != nil {
		c.eq("PreloadHint.URI", a.PreloadHint.URI, b.PreloadHint.URI)
		c.eq("PreloadHint.ByteRangeStart", a.PreloadHint.ByteRangeStart, b.PreloadHint.ByteRangeStart)
		c.u64p("PreloadHint.ByteRangeLength", a.PreloadHint.ByteRangeLength, b.PreloadHint.ByteRangeLength)
	}
	c.eq("Endlist", a.Endlist, b.Endlist)
}

func (c *cmp) multi(a, b *playlist.Multivariant) {
	c.eq("Version", a.Version, b.Version)
	c.eq("IndependentSegments", a.IndependentSegments, b.IndependentSegments)
	if (a.Start == nil) != (b.Start == nil) {
		c.add("Start", a.Start != nil, b.Start != nil)
	} else if a.Start != nil {
		c.dur("Start.TimeOffset", a.Start.TimeOffset, b.Start.TimeOffset)
	}
	if len(a.Variants) != len(b.Variants) {
		c.add("Variants.len", len(a.Variants), len(b.Variants))
	} else {
		for i := range a.Variants {
			x, y := a.Variants[i], b.Variants[i]
			p := "Variants[]"
			c.eq(p+".Bandwidth", x.Bandwidth, y.Bandwidth)
			c.eq(p+".Codecs", x.Codecs, y.Codecs)
			c.eq(p+".URI", x.URI, y.URI)
			c.intp(p+".AverageBandwidth", x.AverageBandwidth, y.AverageBandwidth)
			c.eq(p+".Resolution", x.Resolution, y.Resolution)
			if (x.FrameRate == nil) != (y.FrameRate == nil) {
				c.add(p+".FrameRate", x.FrameRate != nil, y.FrameRate != nil)
			} else if x.FrameRate != nil && *x.FrameRate != *y.FrameRate {
				c.add(p+".FrameRate", *x.FrameRate, *y.FrameRate)
			}
			c.eq(p+".Video", x.Video, y.Video)
			c.eq(p+".Audio", x.Audio, y.Audio)
			c.eq(p+".Subtitles", x.Subtitles, y.Subtitles)
			c.eq(p+".ClosedCaptions", x.ClosedCaptions, y.ClosedCaptions)
		}
	}
	if len(a.Renditions) != len(b.Renditions) {
		c.add("Renditions.len", len(a.Renditions), len(b.Renditions))
	} else {
		for i := range a.Renditions {
			x, y := a.Renditions[i], b.Renditions[i]
			p := "Renditions[]"
			c.eq(p+".Type", x.Type, y.Type)
			c.eq(p+".GroupID", x.GroupID, y.GroupID)
			c.eq(p+".Name", x.Name, y.Name)
			c.eq(p+".Language", x.Language, y.Language)
			c.eq(p+".Autoselect", x.Autoselect, y.Autoselect)
			c.eq(p+".Default", x.Default, y.Default)
			c.eq(p+".Forced", x.Forced, y.Forced)
			c.strp(p+".Channels", x.Channels, y.Channels)
			c.strp(p+".URI", x.URI, y.URI)
			c.strp(p+".InStreamID", x.InStreamID, y.InStreamID)
		}
	}
}

// comparePlaylists returns the differing field paths (nil = equal up to the tolerances)
func comparePlaylists(a, b playlist.Playlist, durTol, timeTol time.Duration) []diff {
	c := &cmp{durTol: durTol, timeTol: timeTol}
	switch x := a.(type) {
	case *playlist.Media:
		y, ok := b.(*playlist.Media)
		if !ok {
			return []diff{{"kind", "Media", fmt.Sprintf("%T", b)}}
		}
		c.media(x, y)
	case *playlist.Multivariant:
		y, ok := b.(*playlist.Multivariant)
		if !ok {
			return []diff{{"kind", "Multivariant", fmt.Sprintf("%T", b)}}
		}
		c.multi(x, y)
	}
	return c.out
}

func kindOf(p playlist.Playlist) string {
	if _, ok := p.(*playlist.Media); ok {
		return "media"
	}
	return "multivariant"
}

// ---------- calling the real code, panics and hangs made visible ----------

type callResult struct {
	pl       playlist.Playlist
	err      error
	panicked string
	hung     bool
}

// guarded runs f under recover and a last-resort watchdog (a hang must reproduce 3 times)
func guarded(f func() (playlist.Playlist, error)) callResult {
	run := func() (callResult, bool) {
		ch := make(chan callResult, 1)
		go func() {
			var r callResult
			defer func() {
				if e := recover(); e != nil {
					r = callResult{panicked: fmt.Sprint(e)}
				}
				ch <- r
			}()
			r.pl, r.err = f()
		}()
		select {
		case r := <-ch:
			return r, true
		case <-time.After(20 * time.Second):
			return callResult{hung: true}, false
		}
	}
	r, ok := run()
	if ok {
		return r
	}
	for i := 0; i < 2; i++ {
		if r2, ok2 := run(); ok2 {
			return r2
		}
	}
	return r
}

func realUnmarshalAuto(b []byte) callResult {
	return guarded(func() (playlist.Playlist, error) { return playlist.Unmarshal(b) })
}

func realUnmarshalMedia(b []byte) callResult {
	return guarded(func() (playlist.Playlist, error) {
		m := &playlist.Media{}
		err := m.Unmarshal(b)
		return m, err
	})
}

func realUnmarshalMulti(b []byte) callResult {
	return guarded(func() (playlist.Playlist, error) {
		m := &playlist.Multivariant{}
		err := m.Unmarshal(b)
		return m, err
	})
}

type marshalResult struct {
	b        []byte
	err      error
	panicked string
}

func realMarshal(p playlist.Playlist) (r marshalResult) {
	defer func() {
		if e := recover(); e != nil {
			r = marshalResult{panicked: fmt.Sprint(e)}
		}
	}()
	r.b, r.err = p.Marshal()
	return
}

// ---------- failures ----------

type failure struct {
	Property  string      `json:"property"`
	Signature string      `json:"signature"`
	What      string      `json:"what"`
	Input     interface{} `json:"input"`
	size      int
}

type failSet struct {
	bySig map[string]*failure
	count int
}

func (fs *failSet) add(f failure) {
	fs.count++
	if fs.bySig == nil {
		fs.bySig = map[string]*failure{}
	}
	old := fs.bySig[f.Property+"|"+f.Signature]
	if old == nil || f.size < old.size {
		c := f
		fs.bySig[f.Property+"|"+f.Signature] = &c
	}
}

var numRe = regexp.MustCompile(`[0-9]+`)

func panicClass(msg string) string {
	msg = numRe.ReplaceAllString(msg, "N")
	if len(msg) > 60 {
		msg = msg[:60]
	}
	return strings.ReplaceAll(msg, " ", "-")
}

// ---------- C14 on a valid value ----------

// fieldDiffs: the fields of p that Unmarshal(Marshal(p)) does not reproduce (oracle a),
// plus what the independent reader sees in the Marshal output (second decoder).
func c14FieldDiffs(p playlist.Playlist) (paths []diff, fatal string) {
	mr := realMarshal(p)
	if mr.panicked != "" || mr.err != nil {
		return nil, "marshal-failed"
	}
	ur := realUnmarshalAuto(mr.b)
	if ur.panicked != "" || ur.hung {
		return nil, "unmarshal-panic"
	}
	if ur.err != nil {
		return []diff{{"unmarshal-error", "nil", ur.err.Error()}}, ""
	}
	if kindOf(ur.pl) != kindOf(p) {
		return []diff{{"kind", kindOf(p), kindOf(ur.pl)}}, ""
	}
	ds := comparePlaylists(p, ur.pl, 10*time.Microsecond, time.Millisecond)
	seen := map[string]bool{}
	for _, d := range ds {
		seen[d.Path] = true
	}
	for _, d := range secondDecoder(p, string(mr.b)) {
		if !seen[d.Path] {
			seen[d.Path] = true
			ds = append(ds, d)
		}
	}
	return ds, ""
}

func hasPath(ds []diff, path string) *diff {
	for i := range ds {
		if ds[i].Path == path {
			return &ds[i]
		}
	}
	return nil
}

// secondDecoder checks the Marshal output of a valid value with the independent reader
func secondDecoder(p playlist.Playlist, text string) (out []diff) {
	lines, _ := readLines(text)
	find := func(tag string) []mline {
		var r []mline
		for _, l := range lines {
			if l.Tag == tag {
				r = append(r, l)
			}
		}
		return r
	}
	one := func(path, tag string, present bool, want string) {
		ls := find(tag)
		switch {
		case !present && len(ls) != 0:
			out = append(out, diff{path, "absent", "tag " + tag + " present"})
		case present && len(ls) != 1:
			out = append(out, diff{path, tag + ":" + want, fmt.Sprintf("%d %s lines in the output", len(ls), tag)})
		case present && ls[0].Value != want:
			out = append(out, diff{path, tag + ":" + want, tag + ":" + ls[0].Value})
		}
	}
	var uris []string
	for _, l := range lines {
		if l.IsURI {
			uris = append(uris, l.Raw)
		}
	}
	switch v := p.(type) {
	case *playlist.Media:
		one("Version", "EXT-X-VERSION", true, strconv.Itoa(v.Version))
		one("TargetDuration", "EXT-X-TARGETDURATION", true, strconv.Itoa(v.TargetDuration))
		one("MediaSequence", "EXT-X-MEDIA-SEQUENCE", true, strconv.Itoa(v.MediaSequence))
		if v.DiscontinuitySequence != nil {
			one("DiscontinuitySequence", "EXT-X-DISCONTINUITY-SEQUENCE", true, strconv.Itoa(*v.DiscontinuitySequence))
		} else {
			one("DiscontinuitySequence", "EXT-X-DISCONTINUITY-SEQUENCE", false, "")
		}
		if n := len(find("EXT-X-START")); (v.Start != nil) != (n == 1) {
			out = append(out, diff{"Start", fmt.Sprint(v.Start != nil), fmt.Sprintf("%d EXT-X-START lines in the output", n)})
		}
		if n := len(find("EXT-X-SERVER-CONTROL")); (v.ServerControl != nil) != (n == 1) {
			out = append(out, diff{"ServerControl", fmt.Sprint(v.ServerControl != nil), fmt.Sprintf("%d EXT-X-SERVER-CONTROL lines", n)})
		} else if v.ServerControl != nil {
			l := find("EXT-X-SERVER-CONTROL")[0]
			chk := func(path, key string, present bool) {
				_, has := l.attr(key)
				if (!l.AttrOK && present) || (l.AttrOK && has != present) {
					out = append(out, diff{path, fmt.Sprint(present), "attribute list " + strconv.Quote(l.Value)})
				}
			}
			chk("ServerControl.CanBlockReload", "CAN-BLOCK-RELOAD", v.ServerControl.CanBlockReload)
			chk("ServerControl.PartHoldBack", "PART-HOLD-BACK", v.ServerControl.PartHoldBack != nil)
			chk("ServerControl.CanSkipUntil", "CAN-SKIP-UNTIL", v.ServerControl.CanSkipUntil != nil)
		}
		if len(uris) != len(v.Segments) {
			out = append(out, diff{"Segments.len", strconv.Itoa(len(v.Segments)), strconv.Itoa(len(uris)) + " URI lines"})
		} else {
			for i, s := range v.Segments {
				if uris[i] != s.URI {
					out = append(out, diff{"Segments[].URI", s.URI, uris[i]})
				}
			}
		}
		if n := len(find("EXTINF")); n != len(v.Segments) {
			out = append(out, diff{"Segments.len", strconv.Itoa(len(v.Segments)), strconv.Itoa(n) + " EXTINF lines"})
		}
		nparts := len(v.Parts)
		for _, s := range v.Segments {
			nparts += len(s.Parts)
		}
		if n := len(find("EXT-X-PART")); n != nparts {
			out = append(out, diff{"Parts.len", strconv.Itoa(nparts), strconv.Itoa(n) + " EXT-X-PART lines"})
		}
		if n := len(find("EXT-X-ENDLIST")); (n == 1) != v.Endlist {
			out = append(out, diff{"Endlist", fmt.Sprint(v.Endlist), strconv.Itoa(n) + " EXT-X-ENDLIST lines"})
		}
	case *playlist.Multivariant:
		one("Version", "EXT-X-VERSION", true, strconv.Itoa(v.Version))
		if n := len(find("EXT-X-START")); (v.Start != nil) != (n == 1) {
			out = append(out, diff{"Start", fmt.Sprint(v.Start != nil), fmt.Sprintf("%d EXT-X-START lines in the output", n)})
		}
		if len(uris) != len(v.Variants) || len(find("EXT-X-STREAM-INF")) != len(v.Variants) {
			out = append(out, diff{"Variants.len", strconv.Itoa(len(v.Variants)), strconv.Itoa(len(uris)) + " URI lines"})
		} else {
			for i, x := range v.Variants {
				if uris[i] != x.URI {
					out = append(out, diff{"Variants[].URI", x.URI, uris[i]})
				}
			}
		}
		if n := len(find("EXT-X-MEDIA")); n != len(v.Renditions) {
			out = append(out, diff{"Renditions.len", strconv.Itoa(len(v.Renditions)), strconv.Itoa(n) + " EXT-X-MEDIA lines"})
		}
	}
	return out
}

// firstDiffTag names the tag of the first line on which two texts differ
func firstDiffTag(a, b string) string {
	la, _ := readLines(a)
	lb, _ := readLines(b)
	for i := 0; i < len(la) || i < len(lb); i++ {
		var x, y mline
		if i < len(la) {
			x = la[i]
		}
		if i < len(lb) {
			y = lb[i]
		}
		if x.Raw != y.Raw {
			t := x.Tag
			if t == "" {
				t = y.Tag
			}
			if t == "" {
				t = "uri-or-blank"
			}
			return t
		}
	}
	return "length"
}

// c14Fixpoint: Marshal(Unmarshal(Marshal(p))) == Marshal(p)
func c14Fixpoint(p playlist.Playlist) (sig, what string) {
	mr := realMarshal(p)
	if mr.panicked != "" || mr.err != nil {
		return "", ""
	}
	ur := realUnmarshalAuto(mr.b)
	if ur.panicked != "" || ur.hung || ur.err != nil {
		return "", "" // reported by the round-trip oracle
	}
	m2 := realMarshal(ur.pl)
	if m2.panicked != "" || m2.err != nil {
		return "fixpoint:remarshal-failed", "Marshal of the decoded playlist failed: " + m2.panicked + fmt.Sprint(m2.err)
	}
	if string(m2.b) != string(mr.b) {
		t := firstDiffTag(string(mr.b), string(m2.b))
		return "fixpoint:tag=" + t, "Marshal(Unmarshal(Marshal(p))) differs from Marshal(p) at the " + t + " line"
	}
	return "", ""
}

// ---------- C15 ----------

var knownRenditionTypes = map[playlist.MultivariantRenditionType]bool{
	playlist.MultivariantRenditionTypeAudio: true, playlist.MultivariantRenditionTypeVideo: true,
	playlist.MultivariantRenditionTypeSubtitles: true, playlist.MultivariantRenditionTypeClosedCaptions: true,
}

// c15Structure: what callers index into without checking, after a successful Unmarshal
func c15Structure(p playlist.Playlist) (bad []string) {
	part := func(path string, ps []*playlist.MediaPart) {
		for _, x := range ps {
			if x == nil {
				bad = append(bad, path+"=nil")
				continue
			}
			if x.Duration == 0 {
				bad = append(bad, path+".Duration=0")
			}
			if x.URI == "" {
				bad = append(bad, path+".URI=empty")
			}
		}
	}
	switch v := p.(type) {
	case *playlist.Media:
		if len(v.Segments) == 0 {
			bad = append(bad, "Segments=empty")
		}
		if v.TargetDuration == 0 {
			bad = append(bad, "TargetDuration=0")
		}
		for _, s := range v.Segments {
			if s == nil {
				bad = append(bad, "Segments[]=nil")
				continue
			}
			if s.URI == "" {
				bad = append(bad, "Segments[].URI=empty")
			}
			if s.Duration == 0 {
				bad = append(bad, "Segments[].Duration=0")
			}
			part("Segments[].Parts[]", s.Parts)
		}
		part("Parts[]", v.Parts)
		if v.PartInf != nil && v.PartInf.PartTarget == 0 {
			bad = append(bad, "PartInf.PartTarget=0")
		}
		if v.Map != nil && v.Map.URI == "" {
			bad = append(bad, "Map.URI=empty")
		}
		if v.PreloadHint != nil && v.PreloadHint.URI == "" {
			bad = append(bad, "PreloadHint.URI=empty")
		}
	case *playlist.Multivariant:
		if len(v.Variants) == 0 {
			bad = append(bad, "Variants=empty")
		}
		for _, x := range v.Variants {
			if x == nil {
				bad = append(bad, "Variants[]=nil")
				continue
			}
			if x.URI == "" {
				bad = append(bad, "Variants[].URI=empty")
			}
		}
		for _, r := range v.Renditions {
			if r == nil {
				bad = append(bad, "Renditions[]=nil")
				continue
			}
			if !knownRenditionTypes[r.Type] {
				bad = append(bad, "Renditions[].Type=unknown")
			}
			if r.GroupID == "" {
				bad = append(bad, "Renditions[].GroupID=empty")
			}
		}
	}
	return bad
}

// c15Decode: totality + structure + re-marshal for one decoder call
func c15Decode(fs *failSet, fn string, r callResult, input interface{}, size int) {
	switch {
	case r.hung:
		fs.add(failure{"C15", "C15:hang:" + fn, fn + " did not return within the watchdog (3 attempts)", input, size})
	case r.panicked != "":
		fs.add(failure{"C15", "C15:panic:" + fn + ":" + panicClass(r.panicked), fn + " panicked: " + r.panicked, input, size})
	case r.err == nil:
		for _, b := range c15Structure(r.pl) {
			fs.add(failure{"C15", "C15:structure:" + kindOf(r.pl) + ":" + b,
				fn + " succeeded but the returned playlist has " + b, input, size})
		}
		m := realMarshal(r.pl)
		if m.panicked != "" {
			fs.add(failure{"C15", "C15:remarshal:" + kindOf(r.pl) + ":panic:" + panicClass(m.panicked),
				"Marshal of the playlist returned by " + fn + " panicked: " + m.panicked, input, size})
		} else if m.err != nil {
			fs.add(failure{"C15", "C15:remarshal:" + kindOf(r.pl) + ":error",
				"Marshal of the playlist returned by " + fn + " failed: " + m.err.Error(), input, size})
		}
	}
}

// c15Grammar: Marshal output of a valid value under the independent strict grammar
func c15Grammar(p playlist.Playlist, text []byte) []grammar.Violation {
	k, vs := grammar.Check(text)
	want := grammar.KindMedia
	if kindOf(p) == "multivariant" {
		want = grammar.KindMultivariant
	}
	if k != want && len(vs) == 0 {
		vs = append(vs, grammar.Violation{Rule: "kind", Detail: "grammar sees a " + k.String() + " playlist"})
	}
	return vs
}
