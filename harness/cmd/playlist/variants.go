package main

// Text-level transformations of real Marshal output: the syntactic variants of C14 (which
// must decode to the same value) and the token-level mutations of C15 (malformed stream).

import (
	"strings"

	"verifharness/internal/rng"
)

// ---------- C14: syntactic variants ----------

var unknownLinesMedia = []string{
	"", "# a comment", "#comment,with=\"stuff\"", "#EXT-X-CUSTOM-TAG:1", "#EXT-X-FOO",
	"#EXT-X-DATERANGE:ID=\"a\",START-DATE=\"2020-01-01T00:00:00Z\"", "#EXT-X-I-FRAMES-ONLY",
	"#EXT-X-RENDITION-REPORT:URI=\"../x.m3u8\",LAST-MSN=5", "#EXT-X-DEFINE:NAME=\"n\",VALUE=\"v\"",
}

var unknownLinesMulti = []string{
	"", "# a comment", "#EXT-X-CUSTOM-TAG:1", "#EXT-X-FOO",
	"#EXT-X-SESSION-DATA:DATA-ID=\"com.example.title\",VALUE=\"v\"",
	"#EXT-X-I-FRAME-STREAM-INF:BANDWIDTH=1,URI=\"i.m3u8\"", "#EXT-X-CONTENT-STEERING:SERVER-URI=\"/s\"",
}

var unknownAttrs = []kv{
	{Key: "X-CUSTOM", Val: "value"}, {Key: "X-Q", Val: "a,b=c", Quoted: true}, {Key: "FOO-BAR", Val: "YES"},
	{Key: "X-N", Val: "12.5"}, {Key: "STABLE-ID", Val: "id-1", Quoted: true},
}

type variantSpec struct {
	Permute, UnknownAttrs, InsertLines, CRLF, DropFinal bool
}

func (v variantSpec) name() string {
	var p []string
	if v.Permute {
		p = append(p, "attribute-order")
	}
	if v.UnknownAttrs {
		p = append(p, "unknown-attributes")
	}
	if v.InsertLines {
		p = append(p, "unknown-tags")
	}
	if v.CRLF {
		p = append(p, "crlf")
	}
	if v.DropFinal {
		p = append(p, "no-trailing-newline")
	}
	return strings.Join(p, "+")
}

// applyVariant rewrites a grammatical playlist text; lines whose attribute list does not
// tokenise are left alone.
func applyVariant(r *rng.R, text string, multi bool, v variantSpec) string {
	lines, finalNL := readLines(text)
	var out []string
	for i, l := range lines {
		raw := l.Raw
		if l.AttrOK && (v.Permute || v.UnknownAttrs) {
			a := append([]kv{}, l.Attrs...)
			if v.Permute {
				for j := len(a) - 1; j > 0; j-- {
					k := r.Intn(j + 1)
					a[j], a[k] = a[k], a[j]
				}
			}
			if v.UnknownAttrs {
				n := 1 + r.Intn(2)
				for j := 0; j < n; j++ {
					u := unknownAttrs[r.Intn(len(unknownAttrs))]
					dup := false
					for _, x := range a {
						if x.Key == u.Key {
							dup = true
						}
					}
					if dup {
						continue
					}
					pos := r.Intn(len(a) + 1)
					a = append(a[:pos], append([]kv{u}, a[pos:]...)...)
				}
			}
			raw = "#" + l.Tag + ":" + joinAttrs(a)
		}
		out = append(out, raw)
		if v.InsertLines && i >= 0 && r.Bool(1, 3) {
			if multi && l.Tag == "EXT-X-STREAM-INF" {
				continue // never between EXT-X-STREAM-INF and its URI line
			}
			pool := unknownLinesMedia
			if multi {
				pool = unknownLinesMulti
			}
			n := 1 + r.Intn(2)
			for j := 0; j < n; j++ {
				out = append(out, pool[r.Intn(len(pool))])
			}
		}
	}
	eol := "\n"
	if v.CRLF {
		eol = "\r\n"
	}
	if v.DropFinal {
		finalNL = false
	}
	return renderLines(out, eol, finalNL)
}

// ---------- C15: token-level mutations ----------

// scalar classes on which the model's executable oracle instances reproduce the Go parsers
var intClass = []string{"", "-1", "+1", "abc", "0", "7", "007", "2147483647", "2147483648", "4294967296",
	"18446744073709551615", "18446744073709551616", "99999999999999999999999", "1.5", " 1", "1 ", "12a", "0x10", "١"}
var floatClass = []string{"", "abc", "-", ".", "1.", ".5", "+1.5", "-2.5", "1..2", "1.2.3", "0", "0.0", "-0", "00012.50",
	"123456789012345", "9999999999", "0.000001", "0.000004", " 1", "1 ", "2,5", "12a", "3.00000", "0.00001",
	"00", "0.00000", "000.000", "0.0000000001", "0.0000000009", "0.000000001"}
var timeClass = []string{"", "abc", "2023-11-14T16:43:20Z", "2023-11-14T16:43:20.5Z", "2023-11-14T16:43:20.123456789+05:30",
	"2023-11-14T16:43:20-0800", "2023-02-29T00:00:00Z", "2024-02-29T23:59:59.999Z", "2023-13-01T00:00:00Z",
	"2023-11-14T24:00:00Z", "2023-11-14T16:43:60Z", "2023-11-14T16:43:20", "2023-11-14T16:43:20+25:00",
	"2023-11-14T16:43:20+24:60", "2023-11-14 16:43:20Z", "2023-11-14T16:43:20Zx", "0000-01-01T00:00:00Z",
	"9999-12-31T23:59:59.999999999-00:01", "2023-11-14T16:43:20.Z", "2023-11-14T16:43:20+05", "23-11-14T16:43:20Z"}

var floatKeys = map[string]bool{"DURATION": true, "PART-TARGET": true, "PART-HOLD-BACK": true, "CAN-SKIP-UNTIL": true,
	"TIME-OFFSET": true, "FRAME-RATE": true}
var intKeys = map[string]bool{"BANDWIDTH": true, "AVERAGE-BANDWIDTH": true, "SKIPPED-SEGMENTS": true,
	"BYTERANGE-START": true, "BYTERANGE-LENGTH": true}
var allKeys = []string{"URI", "DURATION", "BYTERANGE", "INDEPENDENT", "GAP", "TYPE", "METHOD", "IV", "KEYFORMAT",
	"KEYFORMATVERSIONS", "PART-TARGET", "CAN-BLOCK-RELOAD", "PART-HOLD-BACK", "CAN-SKIP-UNTIL", "TIME-OFFSET",
	"SKIPPED-SEGMENTS", "BYTERANGE-START", "BYTERANGE-LENGTH", "BANDWIDTH", "AVERAGE-BANDWIDTH", "CODECS", "RESOLUTION",
	"FRAME-RATE", "VIDEO", "AUDIO", "SUBTITLES", "CLOSED-CAPTIONS", "GROUP-ID", "LANGUAGE", "NAME", "DEFAULT",
	"AUTOSELECT", "FORCED", "CHANNELS", "INSTREAM-ID", "X-UNKNOWN"}
var intTags = map[string]bool{"EXT-X-VERSION": true, "EXT-X-TARGETDURATION": true, "EXT-X-MEDIA-SEQUENCE": true,
	"EXT-X-DISCONTINUITY-SEQUENCE": true, "EXT-X-BITRATE": true}
var tagSwaps = [][2]string{
	{"#EXT-X-PART:", "#EXT-X-PART-INF:"}, {"#EXT-X-PART-INF:", "#EXT-X-PART:"}, {"#EXTINF:", "#EXTINF"},
	{"#EXT-X-MEDIA-SEQUENCE:", "#EXT-X-MEDIA:"}, {"#EXT-X-MEDIA:", "#EXT-X-MEDIA-SEQUENCE:"},
	{"#EXT-X-STREAM-INF:", "#EXT-X-MEDIA:"}, {"#EXT-X-MAP:", "#EXT-X-KEY:"}, {"#EXT-X-KEY:", "#EXT-X-MAP:"},
	{"#EXT-X-PRELOAD-HINT:", "#EXT-X-PART:"}, {"#EXT-X-DISCONTINUITY", "#EXT-X-DISCONTINUITY-SEQUENCE:3"},
	{"#EXT-X-SKIP:", "#EXT-X-START:"}, {"#EXT-X-START:", "#EXT-X-SERVER-CONTROL:"}, {"#EXT-X-ENDLIST", "#EXT-X-ENDLISTX"},
	{"#EXT-X-INDEPENDENT-SEGMENTS", "#EXT-X-INDEPENDENT-SEGMENTS:YES"}, {"#EXT-X-GAP", "#EXT-X-GAP "},
	{"#EXT-X-VERSION:", "#EXT-X-VERSION"}, {"#EXTM3U", "#EXTM3U8"}, {"#EXTM3U", " #EXTM3U"}, {"#EXT", "#ext"},
	{"#EXT-X-STREAM-INF:", "#EXTINF:"}, {"#EXTINF:", "#EXT-X-STREAM-INF:"},
}

func pick(r *rng.R, l []string) string { return l[r.Intn(len(l))] }

// the decoder trims blanks in front of an attribute name
func isFloatKey(k string) bool { return floatKeys[strings.TrimLeft(k, " ")] }
func isIntKey(k string) bool   { return intKeys[strings.TrimLeft(k, " ")] }

// mutate applies one mutation; returns the new text and the mutation's name
func mutate(r *rng.R, text string) (string, string) {
	lines, finalNL := readLines(text)
	raws := make([]string, len(lines))
	for i, l := range lines {
		raws[i] = l.Raw
	}
	if len(lines) == 0 {
		return text, "none"
	}
	i := r.Intn(len(lines))
	var attrLines []int
	for j, l := range lines {
		if l.AttrOK {
			attrLines = append(attrLines, j)
		}
	}
	render := func() string { return renderLines(raws, "\n", finalNL) }
	withAttrs := func(f func(a []kv) string) (string, bool) {
		if len(attrLines) == 0 {
			return "", false
		}
		j := attrLines[r.Intn(len(attrLines))]
		raws[j] = "#" + lines[j].Tag + ":" + f(append([]kv{}, lines[j].Attrs...))
		return render(), true
	}
	switch r.Intn(24) {
	case 0:
		raws = append(raws[:i], raws[i+1:]...)
		return render(), "drop-line"
	case 1:
		raws = append(raws[:i+1], raws[i:]...)
		return render(), "duplicate-line"
	case 2:
		if i+1 < len(raws) {
			raws[i], raws[i+1] = raws[i+1], raws[i]
		}
		return render(), "swap-lines"
	case 3:
		return text[:r.Intn(len(text)+1)], "truncate"
	case 4:
		if s, ok := withAttrs(func(a []kv) string {
			k := r.Intn(len(a))
			return joinAttrs(append(a[:k], a[k+1:]...))
		}); ok {
			return s, "drop-attribute"
		}
	case 5:
		if s, ok := withAttrs(func(a []kv) string {
			k := a[r.Intn(len(a))]
			if isFloatKey(k.Key) {
				k.Val = pick(r, floatClass)
			} else if isIntKey(k.Key) {
				k.Val = pick(r, intClass)
			} else {
				k.Val = "other"
			}
			return joinAttrs(append(a, k))
		}); ok {
			return s, "duplicate-attribute"
		}
	case 6:
		if s, ok := withAttrs(func(a []kv) string {
			s := joinAttrs(a)
			if q := strings.LastIndexByte(s, '"'); q >= 0 {
				return s[:q] + s[q+1:]
			}
			return s + "\""
		}); ok {
			return s, "unterminated-quote"
		}
	case 7, 8:
		if s, ok := withAttrs(func(a []kv) string {
			var idx []int
			for k, x := range a {
				if isFloatKey(x.Key) || isIntKey(x.Key) {
					idx = append(idx, k)
				}
			}
			if len(idx) == 0 {
				a[0].Val = pick(r, []string{"", "-1", "abc", "7", "1.5", " 1"})
				return joinAttrs(a)
			}
			k := idx[r.Intn(len(idx))]
			if isFloatKey(a[k].Key) {
				a[k].Val = pick(r, floatClass)
			} else {
				a[k].Val = pick(r, intClass)
			}
			a[k].Quoted = r.Bool(1, 5)
			return joinAttrs(a)
		}); ok {
			return s, "scalar-attribute"
		}
	case 9:
		if s, ok := withAttrs(func(a []kv) string {
			k := r.Intn(len(a))
			a[k].Key = pick(r, allKeys)
			if isFloatKey(a[k].Key) && len(a[k].Val) > 15 && strings.Trim(a[k].Val, "0123456789") == "" {
				a[k].Val = a[k].Val[:15] // keep float payloads inside the oracle instance's class
			}
			return joinAttrs(a)
		}); ok {
			return s, "rename-attribute"
		}
	case 10:
		if s, ok := withAttrs(func(a []kv) string {
			s := joinAttrs(a)
			if q := strings.IndexByte(s, '='); q >= 0 {
				return s[:q] + s[q+1:]
			}
			return s
		}); ok {
			return s, "missing-equals"
		}
	case 11:
		if s, ok := withAttrs(func(a []kv) string {
			return strings.Replace(joinAttrs(a), ",", pick(r, []string{", ", " ,", ",,", ",  ", ""}), 1+r.Intn(2))
		}); ok {
			return s, "separator-noise"
		}
	case 12:
		sw := tagSwaps[r.Intn(len(tagSwaps))]
		for j := range raws {
			k := (i + j) % len(raws)
			if strings.HasPrefix(raws[k], sw[0]) {
				raws[k] = sw[1] + raws[k][len(sw[0]):]
				return render(), "tag-name"
			}
		}
	case 13:
		raws[0] = pick(r, []string{"", "#EXTM3U ", "#EXTINF:1,", "EXTM3U", "#EXT-X-VERSION:3"})
		return render(), "header"
	case 14:
		for j := range raws {
			k := (i + j) % len(raws)
			if lines[k].IsURI {
				raws[k] = pick(r, []string{"", "#", " ", "#uri", "\t"})
				return render(), "uri-line"
			}
		}
	case 15:
		for j := range raws {
			k := (i + j) % len(raws)
			if lines[k].Tag == "EXTINF" {
				raws[k] = "#EXTINF:" + pick(r, floatClass) + pick(r, []string{"", ",", ", t ", ",a,b", ",\xe2\x80\x83x\xc2\xa0"})
				return render(), "extinf"
			}
		}
	case 16, 17:
		for j := range raws {
			k := (i + j) % len(raws)
			if intTags[lines[k].Tag] {
				v := pick(r, intClass)
				if lines[k].Tag == "EXT-X-TARGETDURATION" && r.Bool(1, 2) {
					v = pick(r, []string{"5.5", "5.", ".5", "4.x", "2147483647.9", "2147483648.0", ".",
						"0", "000", "0.75", "0.99999", "1", "01", "0.", "00.5"}) // zero-valued boundary forms
				}
				raws[k] = "#" + lines[k].Tag + ":" + v
				return render(), "scalar-tag"
			}
		}
	case 18:
		for j := range raws {
			k := (i + j) % len(raws)
			if lines[k].Tag == "EXT-X-PROGRAM-DATE-TIME" {
				raws[k] = "#EXT-X-PROGRAM-DATE-TIME:" + pick(r, timeClass)
				return render(), "date-time"
			}
		}
	case 19:
		return renderLines(raws, "\r\n", finalNL), "crlf"
	case 20:
		if s, ok := withAttrs(func(a []kv) string {
			return pick(r, []string{" ", "  ", ","}) + strings.Replace(joinAttrs(a), ",", ", ", 1)
		}); ok {
			return s, "leading-space"
		}
	case 21:
		for j := range raws {
			k := (i + j) % len(raws)
			if lines[k].Tag == "EXT-X-BYTERANGE" {
				raws[k] = "#EXT-X-BYTERANGE:" + pick(r, intClass) + pick(r, []string{"", "@", "@" + pick(r, intClass), "@1@2"})
				return render(), "byterange"
			}
		}
		if s, ok := withAttrs(func(a []kv) string {
			a = append(a, kv{Key: "BYTERANGE", Val: pick(r, intClass) + pick(r, []string{"", "@", "@" + pick(r, intClass)}), Quoted: r.Bool(1, 2)})
			return joinAttrs(a)
		}); ok {
			return s, "byterange"
		}
	case 22:
		for j := range raws {
			k := (i + j) % len(raws)
			if lines[k].Tag == "EXT-X-PLAYLIST-TYPE" || lines[k].Tag == "EXT-X-ALLOW-CACHE" {
				raws[k] = "#" + lines[k].Tag + ":" + pick(r, []string{"", "EVENT", "VOD", "LIVE", "YES", "NO", "event", "VOD "})
				return render(), "enum-tag"
			}
		}
	case 23:
		if s, ok := withAttrs(func(a []kv) string {
			k := r.Intn(len(a))
			a[k].Quoted = !a[k].Quoted
			return joinAttrs(a)
		}); ok {
			return s, "toggle-quotes"
		}
	}
	// fall back: drop the final newline or truncate
	if r.Bool(1, 2) && finalNL {
		return text[:len(text)-1], "no-trailing-newline"
	}
	return text[:r.Intn(len(text)+1)], "truncate"
}

// byte-level noise for the oracle-only stream
func noise(r *rng.R, text string) string {
	b := []byte(text)
	n := 1 + r.Intn(4)
	for k := 0; k < n && len(b) > 0; k++ {
		p := r.Intn(len(b))
		switch r.Intn(5) {
		case 0:
			b[p] ^= 1 << uint(r.Intn(8))
		case 1:
			b = append(b[:p], b[p+1:]...)
		case 2:
			b = append(b[:p], append([]byte{byte(r.U64())}, b[p:]...)...)
		case 3:
			q := r.Intn(len(b))
			if p > q {
				p, q = q, p
			}
			b = append(b[:p], b[q:]...)
		case 4:
			ins := []string{"1e3", "inf", "NaN", "0x1p-2", "1_0", "\"", "=", ",", "\n", "\r\n", "#EXT-X-STREAM-INF:", "#EXTINF:", "\x00", "@"}
			s := ins[r.Intn(len(ins))]
			b = append(b[:p], append([]byte(s), b[p:]...)...)
		}
	}
	return string(b)
}

// boundaryTexts: zero-valued boundary forms of the scalars whose non-zero value callers rely
// on (C15 structure): EXT-X-TARGETDURATION (the decoder drops the fraction), PART-TARGET,
// EXTINF and EXT-X-PART DURATION (sub-nanosecond values truncate to zero).
func boundaryTexts(text string) (out []string, names []string) {
	lines, finalNL := readLines(text)
	raws := make([]string, len(lines))
	for i, l := range lines {
		raws[i] = l.Raw
	}
	with := func(k int, repl string, name string) {
		c := append([]string{}, raws...)
		c[k] = repl
		out = append(out, renderLines(c, "\n", finalNL))
		names = append(names, name)
	}
	zeros := []string{"0", "000", "0.75", "0.99999", "1", "01", "0.", "00.5"}
	fzeros := []string{"0", "0.0", "0.00000", "000.000", "0.0000000001", "0.0000000009", "0.000000001", "-0"}
	doneTD, donePI, doneInf, donePart := false, false, false, false
	for k, l := range lines {
		switch {
		case l.Tag == "EXT-X-TARGETDURATION" && !doneTD:
			doneTD = true
			for _, z := range zeros {
				with(k, "#EXT-X-TARGETDURATION:"+z, "targetduration="+z)
			}
		case l.Tag == "EXT-X-PART-INF" && !donePI:
			donePI = true
			for _, z := range fzeros {
				with(k, "#EXT-X-PART-INF:PART-TARGET="+z, "part-target="+z)
			}
		case l.Tag == "EXTINF" && !doneInf:
			doneInf = true
			for _, z := range fzeros {
				with(k, "#EXTINF:"+z+",", "extinf="+z)
			}
		case l.Tag == "EXT-X-PART" && l.AttrOK && !donePart:
			donePart = true
			for _, z := range fzeros {
				a := append([]kv{}, l.Attrs...)
				for j := range a {
					if a[j].Key == "DURATION" {
						a[j].Val = z
					}
				}
				with(k, "#EXT-X-PART:"+joinAttrs(a), "part-duration="+z)
			}
		}
	}
	return out, names
}
