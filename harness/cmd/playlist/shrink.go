package main

// Minimisation of a failing playlist value: optional fields, segments, parts, variants and
// renditions are removed and scalars simplified while the failure (a predicate) persists.
// Only steps that keep the value within the documented requirements are tried.

import (
	"encoding/json"
	"time"

	"github.com/bluenviron/gohlslib/v2/pkg/playlist"
)

func cloneMedia(m *playlist.Media) *playlist.Media {
	b, _ := json.Marshal(m)
	var c playlist.Media
	if err := json.Unmarshal(b, &c); err != nil {
		panic(err)
	}
	return &c
}

func cloneMulti(m *playlist.Multivariant) *playlist.Multivariant {
	b, _ := json.Marshal(m)
	var c playlist.Multivariant
	if err := json.Unmarshal(b, &c); err != nil {
		panic(err)
	}
	return &c
}

func clonePlaylist(p playlist.Playlist) playlist.Playlist {
	switch v := p.(type) {
	case *playlist.Media:
		return cloneMedia(v)
	case *playlist.Multivariant:
		return cloneMulti(v)
	}
	return p
}

func shrinkMedia(m *playlist.Media, fails func(*playlist.Media) bool) *playlist.Media {
	cur := cloneMedia(m)
	try := func(edit func(c *playlist.Media) bool) bool {
		c := cloneMedia(cur)
		if !edit(c) {
			return false
		}
		if fails(c) {
			cur = c
			return true
		}
		return false
	}
	sec := time.Second
	for progress := true; progress; {
		progress = false
		steps := []func(c *playlist.Media) bool{
			func(c *playlist.Media) bool { x := c.Start != nil; c.Start = nil; return x },
			func(c *playlist.Media) bool { x := c.AllowCache != nil; c.AllowCache = nil; return x },
			func(c *playlist.Media) bool { x := c.ServerControl != nil; c.ServerControl = nil; return x },
			func(c *playlist.Media) bool { x := c.PartInf != nil; c.PartInf = nil; return x },
			func(c *playlist.Media) bool { x := c.DiscontinuitySequence != nil; c.DiscontinuitySequence = nil; return x },
			func(c *playlist.Media) bool { x := c.PlaylistType != nil; c.PlaylistType = nil; return x },
			func(c *playlist.Media) bool { x := c.Map != nil; c.Map = nil; return x },
			func(c *playlist.Media) bool { x := c.Skip != nil; c.Skip = nil; return x },
			func(c *playlist.Media) bool { x := c.PreloadHint != nil; c.PreloadHint = nil; return x },
			func(c *playlist.Media) bool { x := len(c.Parts) != 0; c.Parts = nil; return x },
			func(c *playlist.Media) bool { x := c.Endlist; c.Endlist = false; return x },
			func(c *playlist.Media) bool { x := c.IndependentSegments; c.IndependentSegments = false; return x },
			func(c *playlist.Media) bool {
				x := false
				for _, s := range c.Segments {
					x = x || s.Key != nil
					s.Key = nil
				}
				return x
			},
			func(c *playlist.Media) bool {
				if c.ServerControl == nil || c.ServerControl.CanSkipUntil == nil ||
					(!c.ServerControl.CanBlockReload && c.ServerControl.PartHoldBack == nil) {
					return false
				}
				c.ServerControl.CanSkipUntil = nil
				return true
			},
			func(c *playlist.Media) bool {
				if c.ServerControl == nil || c.ServerControl.PartHoldBack == nil ||
					(!c.ServerControl.CanBlockReload && c.ServerControl.CanSkipUntil == nil) {
					return false
				}
				c.ServerControl.PartHoldBack = nil
				return true
			},
			func(c *playlist.Media) bool { x := c.Version != 3; c.Version = 3; return x },
			func(c *playlist.Media) bool { x := c.TargetDuration != 2; c.TargetDuration = 2; return x },
			func(c *playlist.Media) bool { x := c.MediaSequence != 0; c.MediaSequence = 0; return x },
			func(c *playlist.Media) bool {
				if c.DiscontinuitySequence == nil || *c.DiscontinuitySequence == 1 {
					return false
				}
				v := 1
				c.DiscontinuitySequence = &v
				return true
			},
			func(c *playlist.Media) bool {
				if c.Start == nil || c.Start.TimeOffset == sec {
					return false
				}
				c.Start.TimeOffset = sec
				return true
			},
			func(c *playlist.Media) bool {
				x := false
				if c.ServerControl != nil {
					for _, d := range []**time.Duration{&c.ServerControl.PartHoldBack, &c.ServerControl.CanSkipUntil} {
						if *d != nil && **d != sec {
							v := sec
							*d = &v
							x = true
						}
					}
				}
				return x
			},
		}
		for i := range cur.Segments {
			i := i
			steps = append(steps,
				func(c *playlist.Media) bool {
					if len(c.Segments) <= 1 || i >= len(c.Segments) {
						return false
					}
					// keep keys sticky: dropping a segment never un-sets a later key
					c.Segments = append(c.Segments[:i], c.Segments[i+1:]...)
					return true
				},
				func(c *playlist.Media) bool {
					if i >= len(c.Segments) {
						return false
					}
					s := c.Segments[i]
					x := s.Title != "" || s.Discontinuity || s.Gap || s.DateTime != nil || s.Bitrate != nil ||
						s.ByteRangeLength != nil || len(s.Parts) != 0 || s.Duration != sec || s.URI != "s.mp4"
					s.Title, s.Discontinuity, s.Gap, s.DateTime, s.Bitrate = "", false, false, nil, nil
					s.ByteRangeLength, s.ByteRangeStart, s.Parts = nil, nil, nil
					s.Duration, s.URI = sec, "s.mp4"
					return x
				})
		}
		for _, st := range steps {
			if try(st) {
				progress = true
			}
		}
	}
	return cur
}

func shrinkMulti(m *playlist.Multivariant, fails func(*playlist.Multivariant) bool) *playlist.Multivariant {
	cur := cloneMulti(m)
	try := func(edit func(c *playlist.Multivariant) bool) bool {
		c := cloneMulti(cur)
		if !edit(c) {
			return false
		}
		if fails(c) {
			cur = c
			return true
		}
		return false
	}
	for progress := true; progress; {
		progress = false
		steps := []func(c *playlist.Multivariant) bool{
			func(c *playlist.Multivariant) bool { x := c.Start != nil; c.Start = nil; return x },
			func(c *playlist.Multivariant) bool { x := c.IndependentSegments; c.IndependentSegments = false; return x },
			func(c *playlist.Multivariant) bool { x := len(c.Renditions) != 0; c.Renditions = nil; return x },
			func(c *playlist.Multivariant) bool { x := c.Version != 3; c.Version = 3; return x },
		}
		for i := range cur.Variants {
			i := i
			steps = append(steps,
				func(c *playlist.Multivariant) bool {
					if len(c.Variants) <= 1 || i >= len(c.Variants) {
						return false
					}
					c.Variants = append(c.Variants[:i], c.Variants[i+1:]...)
					return true
				},
				func(c *playlist.Multivariant) bool {
					if i >= len(c.Variants) {
						return false
					}
					v := c.Variants[i]
					x := v.AverageBandwidth != nil || v.Resolution != "" || v.FrameRate != nil || v.Video != "" ||
						v.Audio != "" || v.Subtitles != "" || v.ClosedCaptions != "" || v.Bandwidth != 1 || len(v.Codecs) != 1
					*v = playlist.MultivariantVariant{Bandwidth: 1, Codecs: []string{"avc1.640029"}, URI: "v.m3u8"}
					return x
				})
		}
		for i := range cur.Renditions {
			i := i
			steps = append(steps, func(c *playlist.Multivariant) bool {
				if i >= len(c.Renditions) {
					return false
				}
				c.Renditions = append(c.Renditions[:i], c.Renditions[i+1:]...)
				return true
			})
		}
		for _, st := range steps {
			if try(st) {
				progress = true
			}
		}
	}
	return cur
}

func shrinkPlaylist(p playlist.Playlist, fails func(playlist.Playlist) bool) playlist.Playlist {
	switch v := p.(type) {
	case *playlist.Media:
		return shrinkMedia(v, func(c *playlist.Media) bool { return fails(c) })
	case *playlist.Multivariant:
		return shrinkMulti(v, func(c *playlist.Multivariant) bool { return fails(c) })
	}
	return p
}
