package main

// Canonical forms of playlist values as Coq terms (constructor applications in the field
// order of Model/Playlist.v). Durations are integer ns, date-times (unix ns, zone offset s),
// frame rates integer units of 1e-9; no floats, no addresses.

import (
	"math"
	"math/big"
	"strconv"
	"strings"
	"time"

	"github.com/bluenviron/gohlslib/v2/pkg/playlist"

	"verifharness/internal/coqfmt"
)

// errOutOfClass is recorded when a value cannot be expressed in the model's scalar classes
// (a frame rate that is not a decimal with <= 9 fractional digits).
type classErr struct{ what string }

func (e classErr) Error() string { return e.what }

type printer struct{ err error }

func zs(v int64) string { return coqfmt.Z(v) }

// pstr prints a byte string in the packed form of Tie/PlaylistTie.v: (pk [w1; ..] last),
// 7 bytes per 63-bit word, little-endian, the last word holding `last` bytes.
func pstr(s string) string {
	if s == "" {
		return "EmptyString"
	}
	var sb strings.Builder
	sb.WriteString("(pk [")
	last := 0
	for i := 0; i < len(s); i += 7 {
		var w uint64
		n := 0
		for k := 0; k < 7 && i+k < len(s); k++ {
			w |= uint64(s[i+k]) << (8 * uint(k))
			n++
		}
		if i > 0 {
			sb.WriteByte(';')
		}
		sb.WriteString(strconv.FormatUint(w, 10))
		last = n
	}
	sb.WriteString("]%uint63 " + strconv.Itoa(last) + ")")
	return sb.String()
}

func us(v uint64) string { return strconv.FormatUint(v, 10) }

func opt(present bool, s string) string {
	if !present {
		return "None"
	}
	return "(Some " + s + ")"
}

func optU64(p *uint64) string {
	if p == nil {
		return "None"
	}
	return "(Some " + us(*p) + ")"
}

func optInt(p *int) string {
	if p == nil {
		return "None"
	}
	return "(Some " + zs(int64(*p)) + ")"
}

func optDur(p *time.Duration) string {
	if p == nil {
		return "None"
	}
	return "(Some " + zs(int64(*p)) + ")"
}

func optStr(p *string) string {
	if p == nil {
		return "None"
	}
	return "(Some " + pstr(*p) + ")"
}

func timeNs(t time.Time) *big.Int {
	n := new(big.Int).Mul(big.NewInt(t.Unix()), big.NewInt(1000000000))
	return n.Add(n, big.NewInt(int64(t.Nanosecond())))
}

func bigZ(n *big.Int) string {
	if n.Sign() < 0 {
		return "(" + n.String() + ")"
	}
	return n.String()
}

func optTime(p *time.Time) string {
	if p == nil {
		return "None"
	}
	_, off := p.Zone()
	return "(Some (Build_dtime " + bigZ(timeNs(*p)) + " " + zs(int64(off)) + "))"
}

// rateNano returns n with f == float64(n)/1e9 (the nearest double of the decimal n * 1e-9)
func rateNano(f float64) (int64, bool) {
	if math.IsNaN(f) || math.IsInf(f, 0) || math.Abs(f) >= 4e6 {
		return 0, false
	}
	n := math.Round(f * 1e9)
	if n/1e9 != f {
		return 0, false
	}
	if n == 0 && math.Signbit(f) {
		return 0, false
	}
	return int64(n), true
}

func (p *printer) optRate(f *float64) string {
	if f == nil {
		return "None"
	}
	n, ok := rateNano(*f)
	if !ok {
		p.err = classErr{"frame rate outside the decimal class"}
		return "None"
	}
	return "(Some " + zs(n) + ")"
}

func strList(l []string) string {
	var it []string
	for _, s := range l {
		it = append(it, pstr(s))
	}
	return coqfmt.List(it)
}

func (p *printer) key(k *playlist.MediaKey) string {
	if k == nil {
		return "None"
	}
	return "(Some (Build_MediaKey " + strings.Join([]string{pstr(string(k.Method)), pstr(k.URI),
		pstr(k.IV), pstr(k.KeyFormat), pstr(k.KeyFormatVersions)}, " ") + "))"
}

func (p *printer) part(t *playlist.MediaPart) string {
	return "(Build_MediaPart " + strings.Join([]string{zs(int64(t.Duration)), pstr(t.URI),
		coqfmt.Bool(t.Independent), optU64(t.ByteRangeLength), optU64(t.ByteRangeStart), coqfmt.Bool(t.Gap)}, " ") + ")"
}

func (p *printer) parts(l []*playlist.MediaPart) string {
	var it []string
	for _, t := range l {
		it = append(it, p.part(t))
	}
	return coqfmt.List(it)
}

func (p *printer) segment(s *playlist.MediaSegment) string {
	return "(Build_MediaSegment " + strings.Join([]string{zs(int64(s.Duration)), pstr(s.Title), pstr(s.URI),
		coqfmt.Bool(s.Discontinuity), coqfmt.Bool(s.Gap), optTime(s.DateTime), optInt(s.Bitrate), p.key(s.Key),
		optU64(s.ByteRangeLength), optU64(s.ByteRangeStart), p.parts(s.Parts)}, "\n    ") + ")"
}

func (p *printer) media(m *playlist.Media) string {
	start := "None"
	if m.Start != nil {
		start = "(Some (Build_MultivariantStart " + zs(int64(m.Start.TimeOffset)) + "))"
	}
	ac := "None"
	if m.AllowCache != nil {
		ac = "(Some " + coqfmt.Bool(*m.AllowCache) + ")"
	}
	sc := "None"
	if m.ServerControl != nil {
		sc = "(Some (Build_MediaServerControl " + coqfmt.Bool(m.ServerControl.CanBlockReload) + " " +
			optDur(m.ServerControl.PartHoldBack) + " " + optDur(m.ServerControl.CanSkipUntil) + "))"
	}
	pi := "None"
	if m.PartInf != nil {
		pi = "(Some (Build_MediaPartInf " + zs(int64(m.PartInf.PartTarget)) + "))"
	}
	pt := "None"
	if m.PlaylistType != nil {
		pt = "(Some " + pstr(string(*m.PlaylistType)) + ")"
	}
	mp := "None"
	if m.Map != nil {
		mp = "(Some (Build_MediaMap " + pstr(m.Map.URI) + " " + optU64(m.Map.ByteRangeLength) + " " +
			optU64(m.Map.ByteRangeStart) + "))"
	}
	sk := "None"
	if m.Skip != nil {
		sk = "(Some (Build_MediaSkip " + zs(int64(m.Skip.SkippedSegments)) + "))"
	}
	var segs []string
	for _, s := range m.Segments {
		segs = append(segs, p.segment(s))
	}
	ph := "None"
	if m.PreloadHint != nil {
		ph = "(Some (Build_MediaPreloadHint " + pstr(m.PreloadHint.URI) + " " + us(m.PreloadHint.ByteRangeStart) + " " +
			optU64(m.PreloadHint.ByteRangeLength) + "))"
	}
	return "(Build_Media " + strings.Join([]string{zs(int64(m.Version)), coqfmt.Bool(m.IndependentSegments), start, ac,
		zs(int64(m.TargetDuration)), sc, pi, zs(int64(m.MediaSequence)), optInt(m.DiscontinuitySequence), pt, mp, sk,
		coqfmt.List(segs), p.parts(m.Parts), ph, coqfmt.Bool(m.Endlist)}, "\n  ") + ")"
}

func (p *printer) rendition(r *playlist.MultivariantRendition) string {
	return "(Build_MultivariantRendition " + strings.Join([]string{pstr(string(r.Type)), pstr(r.GroupID),
		pstr(r.Name), pstr(r.Language), coqfmt.Bool(r.Autoselect), coqfmt.Bool(r.Default), coqfmt.Bool(r.Forced),
		optStr(r.Channels), optStr(r.URI), optStr(r.InStreamID)}, " ") + ")"
}

func (p *printer) variant(v *playlist.MultivariantVariant) string {
	return "(Build_MultivariantVariant " + strings.Join([]string{zs(int64(v.Bandwidth)), strList(v.Codecs), pstr(v.URI),
		optInt(v.AverageBandwidth), pstr(v.Resolution), p.optRate(v.FrameRate), pstr(v.Video), pstr(v.Audio),
		pstr(v.Subtitles), pstr(v.ClosedCaptions)}, " ") + ")"
}

func (p *printer) multivariant(m *playlist.Multivariant) string {
	start := "None"
	if m.Start != nil {
		start = "(Some (Build_MultivariantStart " + zs(int64(m.Start.TimeOffset)) + "))"
	}
	var vs, rs []string
	for _, v := range m.Variants {
		vs = append(vs, p.variant(v))
	}
	for _, r := range m.Renditions {
		rs = append(rs, p.rendition(r))
	}
	return "(Build_Multivariant " + strings.Join([]string{zs(int64(m.Version)), coqfmt.Bool(m.IndependentSegments), start,
		coqfmt.List(vs), coqfmt.List(rs)}, "\n  ") + ")"
}

// results of the three real decoders as the option terms of Tie/PlaylistTie.v
func (p *printer) resMedia(m *playlist.Media, err error) string {
	if err != nil {
		return "(Some None)"
	}
	return "(Some (Some " + p.media(m) + "))"
}

func (p *printer) resMulti(m *playlist.Multivariant, err error) string {
	if err != nil {
		return "(Some None)"
	}
	return "(Some (Some " + p.multivariant(m) + "))"
}

func (p *printer) resAuto(pl playlist.Playlist, err error) string {
	if err != nil {
		return "(Some None)"
	}
	switch v := pl.(type) {
	case *playlist.Media:
		return "(Some (Some (PMedia " + p.media(v) + ")))"
	case *playlist.Multivariant:
		return "(Some (Some (PMultivariant " + p.multivariant(v) + ")))"
	}
	p.err = classErr{"unknown playlist kind"}
	return "None"
}
