package main

// Generators of playlist VALUES. Every optional field of every tag is driven by a
// per-tag subset counter, so that over a run every present/absent combination of the
// optional fields of each tag occurs (measured in cover, checked by the driver);
// scalars are random legal values from the seed.

import (
	"fmt"
	"strconv"
	"strings"
	"time"

	"github.com/bluenviron/gohlslib/v2/pkg/playlist"

	"verifharness/internal/rng"
)

type gen struct {
	r     *rng.R
	cnt   map[string]int          // next subset per tag (shared over the whole run)
	cover map[string]map[int]bool // subsets seen per tag
	total map[string]int          // number of subsets per tag
}

func newGen() *gen {
	return &gen{cnt: map[string]int{}, cover: map[string]map[int]bool{}, total: map[string]int{}}
}

// subset returns the next combination (0 <= x < n) for a tag, enumerating cyclically.
func (g *gen) subset(tag string, n int) int {
	x := g.cnt[tag] % n
	g.cnt[tag]++
	if g.cover[tag] == nil {
		g.cover[tag] = map[int]bool{}
	}
	g.cover[tag][x] = true
	g.total[tag] = n
	return x
}

func bit(x, i int) bool { return (x>>uint(i))&1 == 1 }

// ---- scalars ----

func (g *gen) int31() int {
	switch g.r.Pick(2, 1, 1, 6, 4) {
	case 0:
		return 0
	case 1:
		return 1
	case 2:
		return 1<<31 - 1
	case 3:
		return g.r.Intn(100000)
	}
	return int(g.r.U64() % (1 << 31))
}

func (g *gen) u64() uint64 {
	switch g.r.Pick(1, 1, 1, 1, 5, 4) {
	case 0:
		return 0
	case 1:
		return 1
	case 2:
		return 1 << 63
	case 3:
		return 1<<64 - 1
	case 4:
		return uint64(g.r.Intn(100000000))
	}
	return g.r.U64()
}

func (g *gen) u64p() *uint64 { v := g.u64(); return &v }

// positive duration that is non-zero at the 10 us resolution of the text form
func (g *gen) dur() time.Duration {
	switch g.r.Pick(4, 5, 2, 2, 2, 1) {
	case 0: // whole multiples of 10 us
		return time.Duration(1+g.r.Intn(2000000)) * 10 * time.Microsecond
	case 1: // arbitrary ns
		return time.Duration(g.r.Range(10000, 20_000_000_000))
	case 2: // large
		return time.Duration(g.r.Range(1, 1<<61))
	case 3: // exactly on a rounding tie of the 5th decimal
		return time.Duration(g.r.Range(1, 3000000))*10000 + 5000
	case 4: // small
		return time.Duration(g.r.Range(6001, 30000))
	}
	return time.Duration(g.r.Range(1, 100)) * time.Second
}

func (g *gen) durp() *time.Duration { d := g.dur(); return &d }

// signed, for TIME-OFFSET
func (g *gen) sdur() time.Duration {
	d := g.dur()
	if g.r.Bool(1, 2) {
		return -d
	}
	return d
}

func (g *gen) timep() *time.Time {
	// local year stays within 0..9999
	var sec int64
	switch g.r.Pick(6, 2, 1, 1) {
	case 0:
		sec = g.r.Range(0, 4102444800) // 1970..2100
	case 1:
		sec = g.r.Range(-62135596800, 253370764800) // year 1 .. 9998
	case 2:
		sec = -62167219200 + 86400 // 0000-01-02
	case 3:
		sec = 253402300799 - 86400 // 9999-12-30
	}
	var nsec int64
	switch g.r.Pick(2, 3, 3) {
	case 0:
		nsec = 0
	case 1:
		nsec = g.r.Range(0, 999) * 1000000
	case 2:
		nsec = g.r.Range(0, 999999999)
	}
	var off int
	switch g.r.Pick(3, 5, 1, 1) {
	case 0:
		off = 0
	case 1:
		off = int(g.r.Range(-14*60, 14*60)) * 60
	case 2:
		off = -30 * 60
	case 3:
		off = 23*3600 + 59*60
	}
	t := time.Unix(sec, nsec).In(time.FixedZone("", off))
	return &t
}

const firstChars = "ghjklmoqrsuvwz"
const uriChars = "abcdefghijklmnopqrstuvwxyz0123456789/_.-~%?&=:+,;@!$'()*ABCXYZ"
const quotedChars = "abcdefghijklmnopqrstuvwxyz0123456789 /_.-,=:;#@ABCXYZ"

// a string that no Go float / integer parser accepts (first byte is a letter that starts
// neither a number nor inf/nan)
func (g *gen) str(alphabet string, min, max int) string {
	n := min + g.r.Intn(max-min+1)
	b := make([]byte, 0, n+1)
	b = append(b, firstChars[g.r.Intn(len(firstChars))])
	for i := 1; i < n; i++ {
		b = append(b, alphabet[g.r.Intn(len(alphabet))])
	}
	return string(b)
}

func (g *gen) uri() string {
	switch g.r.Pick(3, 2, 1) {
	case 0:
		return g.str(uriChars, 1, 12) + ".mp4"
	case 1:
		return "https://h.example/" + g.str(uriChars, 1, 20)
	}
	return g.str(uriChars, 1, 40)
}

func (g *gen) qstr() string {
	s := g.str(quotedChars, 1, 14)
	if g.r.Bool(1, 6) {
		s += "\xc3\xa9\xe2\x82\xac" // UTF-8 passes through as bytes
	}
	// no trailing blank is needed for attributes, but keep values tidy
	return s
}

func (g *gen) title() string {
	switch g.r.Pick(4, 3, 1, 1) {
	case 0:
		return ""
	case 1:
		return g.str(quotedChars+"\"", 1, 20) + "x"
	case 2:
		return g.str(quotedChars, 1, 5) + ", \"q\" #t\xc3\xa9" + "x"
	}
	return "k\xe2\x80\x83m" // a Unicode space inside
}

func (g *gen) iv() string {
	const hex = "0123456789abcdefABCDEF"
	b := []byte("0x")
	if g.r.Bool(1, 4) {
		b = []byte("0X")
	}
	for i := 0; i < 32; i++ {
		b = append(b, hex[g.r.Intn(len(hex))])
	}
	return string(b)
}

// ---- tags ----

func (g *gen) byteRange(sel int) (*uint64, *uint64) { // sel: 0 none, 1 length, 2 length@start
	switch sel {
	case 1:
		return g.u64p(), nil
	case 2:
		return g.u64p(), g.u64p()
	}
	return nil, nil
}

func (g *gen) part() *playlist.MediaPart {
	x := g.subset("EXT-X-PART", 12) // independent(2) x byterange(3) x gap(2)
	p := &playlist.MediaPart{Duration: g.dur(), URI: g.uri()}
	p.Independent = x%2 == 1
	p.ByteRangeLength, p.ByteRangeStart = g.byteRange((x / 2) % 3)
	p.Gap = (x/6)%2 == 1
	return p
}

func (g *gen) parts(max int) []*playlist.MediaPart {
	n := 1 + g.r.Intn(max)
	var ps []*playlist.MediaPart
	for i := 0; i < n; i++ {
		ps = append(ps, g.part())
	}
	return ps
}

func (g *gen) key() *playlist.MediaKey {
	x := g.subset("EXT-X-KEY", 17) // NONE, or {AES-128,SAMPLE-AES} x iv x keyformat x keyformatversions
	if x == 16 {
		return &playlist.MediaKey{Method: playlist.MediaKeyMethodNone}
	}
	k := &playlist.MediaKey{Method: playlist.MediaKeyMethodAES128, URI: g.uri()}
	if bit(x, 0) {
		k.Method = playlist.MediaKeyMethodSampleAES
	}
	if bit(x, 1) {
		k.IV = g.iv()
	}
	if bit(x, 2) {
		k.KeyFormat = g.qstr()
	}
	if bit(x, 3) {
		k.KeyFormatVersions = strconv.Itoa(1+g.r.Intn(5)) + "/" + strconv.Itoa(1+g.r.Intn(5))
	}
	return k
}

func (g *gen) segment() *playlist.MediaSegment {
	// title, discontinuity, gap, datetime, bitrate, parts (6 bits) x byterange (3)
	x := g.subset("segment", 64*3)
	s := &playlist.MediaSegment{Duration: g.dur(), URI: g.uri()}
	if bit(x, 0) {
		s.Title = g.title()
		if s.Title == "" {
			s.Title = "t"
		}
	}
	s.Discontinuity = bit(x, 1)
	s.Gap = bit(x, 2)
	if bit(x, 3) {
		s.DateTime = g.timep()
	}
	if bit(x, 4) {
		v := g.int31()
		s.Bitrate = &v
	}
	if bit(x, 5) {
		s.Parts = g.parts(3)
	}
	s.ByteRangeLength, s.ByteRangeStart = g.byteRange(x / 64)
	return s
}

func (g *gen) serverControl() *playlist.MediaServerControl {
	// every non-empty subset: a tag with no attribute at all cannot be written in M3U8
	x := g.subset("EXT-X-SERVER-CONTROL", 7) + 1
	sc := &playlist.MediaServerControl{CanBlockReload: bit(x, 0)}
	if bit(x, 1) {
		sc.PartHoldBack = g.durp()
	}
	if bit(x, 2) {
		sc.CanSkipUntil = g.durp()
	}
	return sc
}

func (g *gen) preloadHint() *playlist.MediaPreloadHint {
	x := g.subset("EXT-X-PRELOAD-HINT", 4)
	h := &playlist.MediaPreloadHint{URI: g.uri()}
	if bit(x, 0) {
		h.ByteRangeStart = g.u64()
		if h.ByteRangeStart == 0 {
			h.ByteRangeStart = 7
		}
	}
	if bit(x, 1) {
		h.ByteRangeLength = g.u64p()
	}
	return h
}

func (g *gen) mediaMap() *playlist.MediaMap {
	x := g.subset("EXT-X-MAP", 3)
	m := &playlist.MediaMap{URI: g.uri()}
	m.ByteRangeLength, m.ByteRangeStart = g.byteRange(x)
	return m
}

// keys over the segment list: sticky once present (EXT-X-KEY has no "unset")
func (g *gen) assignKeys(segs []*playlist.MediaSegment) {
	x := g.subset("key-pattern", 6)
	switch x {
	case 5:
		// per-segment key rotation: the key of segment i+1 is the key of segment i with exactly
		// one field changed (METHOD, URI, IV incl. set <-> unset, KEYFORMAT, KEYFORMATVERSIONS in
		// turn) - Marshal must re-emit EXT-X-KEY for every single-field difference
		k := &playlist.MediaKey{Method: playlist.MediaKeyMethodAES128, URI: g.uri(), IV: g.iv(),
			KeyFormat: g.qstr(), KeyFormatVersions: "1"}
		field := g.r.Intn(5)
		for _, s := range segs {
			c := *k
			s.Key = &c
			n := c
			switch field % 5 {
			case 0:
				if n.Method == playlist.MediaKeyMethodAES128 {
					n.Method = playlist.MediaKeyMethodSampleAES
				} else {
					n.Method = playlist.MediaKeyMethodAES128
				}
			case 1:
				n.URI = g.uri()
			case 2:
				if n.IV == "" || g.r.Bool(2, 3) {
					n.IV = g.iv()
				} else {
					n.IV = ""
				}
			case 3:
				if n.KeyFormat == "" || g.r.Bool(2, 3) {
					n.KeyFormat = g.qstr()
				} else {
					n.KeyFormat = ""
				}
			case 4:
				if n.KeyFormatVersions == "" || g.r.Bool(2, 3) {
					n.KeyFormatVersions = strconv.Itoa(1+g.r.Intn(9)) + "/" + strconv.Itoa(1+g.r.Intn(9))
				} else {
					n.KeyFormatVersions = ""
				}
			}
			field++
			k = &n
		}
	case 0: // no keys
	case 1: // one key for all, shared pointer
		k := g.key()
		for _, s := range segs {
			s.Key = k
		}
	case 2: // equal keys through distinct pointers
		k := g.key()
		for _, s := range segs {
			c := *k
			s.Key = &c
		}
	case 3: // a new key on every segment from a random position on
		from := g.r.Intn(len(segs))
		for i := from; i < len(segs); i++ {
			segs[i].Key = g.key()
		}
	case 4: // key changes once, possibly back to NONE
		at := g.r.Intn(len(segs))
		k1, k2 := g.key(), g.key()
		for i, s := range segs {
			if i < at {
				s.Key = k1
			} else {
				s.Key = k2
			}
		}
	}
}

func (g *gen) media() *playlist.Media {
	m := &playlist.Media{
		Version:        g.r.Intn(11),
		TargetDuration: 1 + g.int31()%(1<<31-1),
		MediaSequence:  g.int31(),
	}
	// header fields: 9 optional ones, every subset
	x := g.subset("media-header", 512)
	m.IndependentSegments = bit(x, 0)
	if bit(x, 1) {
		m.Start = &playlist.MediaStart{TimeOffset: g.sdur()}
	}
	if bit(x, 2) {
		v := g.r.Bool(1, 2)
		m.AllowCache = &v
	}
	if bit(x, 3) {
		m.ServerControl = g.serverControl()
	}
	if bit(x, 4) {
		m.PartInf = &playlist.MediaPartInf{PartTarget: g.dur()}
	}
	if bit(x, 5) {
		v := g.int31()
		m.DiscontinuitySequence = &v
	}
	if bit(x, 6) {
		v := playlist.MediaPlaylistType(playlist.MediaPlaylistTypeEvent)
		if g.r.Bool(1, 2) {
			v = playlist.MediaPlaylistTypeVOD
		}
		m.PlaylistType = &v
	}
	if bit(x, 7) {
		m.Map = g.mediaMap()
	}
	if bit(x, 8) {
		m.Skip = &playlist.MediaSkip{SkippedSegments: g.int31()}
	}
	nseg := 1 + g.r.Pick(5, 4, 2, 1)
	if g.cnt["key-pattern"]%6 == 5 {
		nseg += 3 + g.r.Intn(3) // the key-rotation pattern needs a run of segments
	}
	for i := 0; i < nseg; i++ {
		m.Segments = append(m.Segments, g.segment())
	}
	g.assignKeys(m.Segments)
	y := g.subset("media-trailer", 8)
	if bit(y, 0) {
		m.Parts = g.parts(3)
	}
	if bit(y, 1) {
		m.PreloadHint = g.preloadHint()
	}
	m.Endlist = bit(y, 2)
	if rl := g.r.Fork(0x10E6); m.Map != nil && rl.Bool(1, 30) {
		// a line longer than 64 KiB (an init section carried inline as a data: URI) in front of the first segment
		m.Map.URI = "data:video/mp4;base64," + strings.Repeat("AAAAIGZ0eXBpc281", 4100+rl.Intn(200))
	}
	return m
}

var codecList = []string{"avc1.640029", "avc1.42c028", "mp4a.40.2", "hvc1.1.6.L93.B0", "opus", "av01.0.04M.08", "vp09.00.10.08", "ec-3", "stpp.ttml.im1t"}

func (g *gen) sp(s string) *string { return &s }

func (g *gen) rendition() *playlist.MultivariantRendition {
	// AUDIO: lang,autoselect,default,forced,channels,uri (64); VIDEO: lang,auto,def,forced,uri (32);
	// SUBTITLES: lang,auto,def,forced (16); CLOSED-CAPTIONS: lang,auto,def,forced (16)
	x := g.subset("EXT-X-MEDIA", 128)
	r := &playlist.MultivariantRendition{GroupID: g.qstr(), Name: g.qstr()}
	var y int
	switch {
	case x < 64:
		r.Type, y = playlist.MultivariantRenditionTypeAudio, x
		if bit(y, 4) {
			r.Channels = g.sp(strconv.Itoa(1 + g.r.Intn(16)))
		}
		if bit(y, 5) {
			r.URI = g.sp(g.uri())
		}
	case x < 96:
		r.Type, y = playlist.MultivariantRenditionTypeVideo, x-64
		if bit(y, 4) {
			r.URI = g.sp(g.uri())
		}
	case x < 112:
		r.Type, y = playlist.MultivariantRenditionTypeSubtitles, x-96
		r.URI = g.sp(g.uri())
	default:
		r.Type, y = playlist.MultivariantRenditionTypeClosedCaptions, x-112
		r.InStreamID = g.sp([]string{"CC1", "CC2", "CC3", "CC4", "SERVICE1", "SERVICE63"}[g.r.Intn(6)])
	}
	if bit(y, 0) {
		r.Language = []string{"en", "it", "pt-BR", "zh-Hans"}[g.r.Intn(4)]
	}
	r.Autoselect = bit(y, 1)
	r.Default = bit(y, 2)
	r.Forced = bit(y, 3)
	return r
}

func (g *gen) variant() *playlist.MultivariantVariant {
	x := g.subset("EXT-X-STREAM-INF", 128)
	v := &playlist.MultivariantVariant{Bandwidth: g.int31(), URI: g.uri()}
	n := 1 + g.r.Intn(3)
	for i := 0; i < n; i++ {
		v.Codecs = append(v.Codecs, codecList[g.r.Intn(len(codecList))])
	}
	if bit(x, 0) {
		a := g.int31()
		v.AverageBandwidth = &a
	}
	if bit(x, 1) {
		v.Resolution = fmt.Sprintf("%dx%d", 1+g.r.Intn(7680), 1+g.r.Intn(4320))
	}
	if bit(x, 2) {
		var k int
		switch g.r.Pick(3, 1, 3) {
		case 0:
			k = []int{23976, 24000, 25000, 29970, 30000, 50000, 59940, 60000}[g.r.Intn(8)]
		case 1:
			k = 1 + g.r.Intn(999)
		default:
			k = 1 + g.r.Intn(240000)
		}
		f := float64(k) / 1000
		v.FrameRate = &f
	}
	if bit(x, 3) {
		v.Video = g.qstr()
	}
	if bit(x, 4) {
		v.Audio = g.qstr()
	}
	if bit(x, 5) {
		v.Subtitles = g.qstr()
	}
	if bit(x, 6) {
		v.ClosedCaptions = g.qstr()
	}
	return v
}

func (g *gen) multivariant() *playlist.Multivariant {
	m := &playlist.Multivariant{Version: g.r.Intn(11)}
	x := g.subset("multivariant-header", 8)
	m.IndependentSegments = bit(x, 0)
	if bit(x, 1) {
		m.Start = &playlist.MultivariantStart{TimeOffset: g.sdur()}
	}
	if bit(x, 2) {
		n := 1 + g.r.Intn(3)
		for i := 0; i < n; i++ {
			m.Renditions = append(m.Renditions, g.rendition())
		}
	}
	n := 1 + g.r.Pick(4, 3, 1)
	for i := 0; i < n; i++ {
		m.Variants = append(m.Variants, g.variant())
	}
	return m
}

// ---- values that break one documented requirement (model comparison only) ----

func (g *gen) breakMedia(m *playlist.Media) string {
	seg := m.Segments[g.r.Intn(len(m.Segments))]
	switch g.r.Intn(23) {
	case 21:
		m.ServerControl = &playlist.MediaServerControl{}
		return "servercontrol-empty"
	case 0:
		seg.Title = " " + g.title() + " \t"
		return "title-blanks"
	case 1:
		seg.URI = ""
		return "segment-uri-empty"
	case 2:
		seg.URI = "#" + seg.URI
		return "segment-uri-hash"
	case 3:
		seg.Duration = time.Duration(g.r.Range(-4000, 4000))
		return "segment-duration-tiny"
	case 4:
		seg.ByteRangeLength, seg.ByteRangeStart = nil, g.u64p()
		return "byterange-start-only"
	case 5:
		m.Version = []int{11, -1, 1 << 31, 12345}[g.r.Intn(4)]
		return "version"
	case 6:
		m.TargetDuration = []int{0, -3, 1 << 31}[g.r.Intn(3)]
		return "targetduration"
	case 7:
		m.MediaSequence = []int{-1, 1 << 31, 1 << 40}[g.r.Intn(3)]
		return "mediasequence"
	case 8:
		for _, s := range m.Segments {
			s.Key = nil
		}
		m.Segments[0].Key = g.key()
		return "key-not-sticky"
	case 9:
		seg.Key = &playlist.MediaKey{Method: playlist.MediaKeyMethodNone, URI: g.uri(), IV: g.iv()}
		return "key-none-with-attrs"
	case 10:
		seg.Key = &playlist.MediaKey{Method: playlist.MediaKeyMethod(g.str("ABC-", 1, 6))}
		return "key-method-unknown"
	case 11:
		seg.Key = &playlist.MediaKey{Method: playlist.MediaKeyMethodAES128}
		return "key-uri-empty"
	case 12:
		seg.URI = seg.URI + "\n" + g.uri()
		return "segment-uri-newline"
	case 13:
		seg.Title = "a\"b\rc\n#EXT-X-ENDLIST"
		return "title-newline"
	case 14:
		v := playlist.MediaPlaylistType(g.str("ABC", 1, 5))
		m.PlaylistType = &v
		return "playlisttype"
	case 15:
		m.Map = &playlist.MediaMap{URI: []string{"", "a\"b", "x,y=\"z"}[g.r.Intn(3)]}
		return "map-uri"
	case 16:
		m.PartInf = &playlist.MediaPartInf{PartTarget: time.Duration(g.r.Range(-5000, 4999))}
		return "partinf-tiny"
	case 17:
		m.Segments = nil
		return "no-segments"
	case 18:
		m.Parts = []*playlist.MediaPart{{Duration: 0, URI: g.uri()}, {Duration: g.dur(), URI: ""}}
		return "part-required"
	case 19:
		m.PreloadHint = &playlist.MediaPreloadHint{URI: ""}
		return "hint-uri-empty"
	case 20:
		m.Start = &playlist.MediaStart{TimeOffset: 0}
		return "start-zero"
	}
	seg.Duration = -seg.Duration
	return "segment-duration-negative"
}

func (g *gen) breakMulti(m *playlist.Multivariant) string {
	v := m.Variants[g.r.Intn(len(m.Variants))]
	switch g.r.Intn(12) {
	case 0:
		v.URI = ""
		return "variant-uri-empty"
	case 1:
		v.URI = "#x"
		return "variant-uri-hash"
	case 2:
		v.Codecs = nil
		return "codecs-empty"
	case 3:
		v.Codecs = []string{"a,b", "", "c\"d"}
		return "codecs-odd"
	case 4:
		v.Bandwidth = []int{-1, 1 << 31}[g.r.Intn(2)]
		return "bandwidth"
	case 5:
		v.Resolution = []string{"1x2,BANDWIDTH=5", "\"q\"", " 1x1"}[g.r.Intn(3)]
		return "resolution-odd"
	case 6:
		m.Variants = nil
		return "no-variants"
	case 7:
		m.Renditions = append(m.Renditions, &playlist.MultivariantRendition{Type: "FOO", GroupID: "g", Name: "n"})
		return "rendition-type"
	case 8:
		m.Renditions = append(m.Renditions, &playlist.MultivariantRendition{Type: playlist.MultivariantRenditionTypeSubtitles, GroupID: "g", Name: "n"})
		return "rendition-subtitles-no-uri"
	case 9:
		m.Renditions = append(m.Renditions, &playlist.MultivariantRendition{Type: playlist.MultivariantRenditionTypeVideo, GroupID: "", Name: "n", Channels: g.sp("2"), InStreamID: g.sp("CC1")})
		return "rendition-combos"
	case 10:
		m.Version = 11
		return "version"
	}
	v.Audio = "a\"b"
	return "quote-in-quoted"
}
