package main

// C15, "every playlist a muxer serves": a real gohlslib.Muxer (three variants, video + audio,
// random frame pacing from the seed) is driven for a few segments; every playlist it serves
// (multivariant, per-stream media playlists, with and without _HLS_skip=YES) goes to the
// independent grammar checker and to the real decoders (structure oracle).

import (
	"bytes"
	"fmt"
	"net/http"
	"net/url"
	"os"
	"sort"
	"strings"
	"time"

	"github.com/bluenviron/gohlslib/v2"
	"github.com/bluenviron/gohlslib/v2/pkg/codecs"
	"github.com/bluenviron/mediacommon/v2/pkg/codecs/mpeg4audio"

	"verifharness/internal/playlist/grammar"
	"verifharness/internal/rng"
)

var muxSPS = []byte{
	0x67, 0x42, 0xc0, 0x28, 0xd9, 0x00, 0x78, 0x02,
	0x27, 0xe5, 0x84, 0x00, 0x00, 0x03, 0x00, 0x04,
	0x00, 0x00, 0x03, 0x00, 0xf0, 0x3c, 0x60, 0xc9,
	0x20,
}

type muxRW struct {
	bytes.Buffer
	h      http.Header
	status int
}

func (w *muxRW) Header() http.Header  { return w.h }
func (w *muxRW) WriteHeader(code int) { w.status = code }

// muxFetch never waits for a blocking playlist request (they are C06's subject): a request
// that has not returned within 300 ms is abandoned (Close releases it).
func muxFetch(m *gohlslib.Muxer, pathAndQuery string) (int, []byte) {
	u, _ := url.Parse("http://localhost/" + pathAndQuery)
	type res struct {
		st int
		b  []byte
	}
	ch := make(chan res, 1)
	go func() {
		defer func() {
			if e := recover(); e != nil {
				ch <- res{0, nil}
			}
		}()
		w := &muxRW{h: make(http.Header)}
		m.Handle(w, &http.Request{URL: u, Method: "GET"})
		if w.status == 0 {
			w.status = 200
		}
		ch <- res{w.status, append([]byte{}, w.Bytes()...)}
	}()
	select {
	case r := <-ch:
		return r.st, r.b
	case <-time.After(300 * time.Millisecond):
		return 0, nil
	}
}

// muxerPlaylists runs one muxer scenario and returns the playlists it served
func muxerPlaylists(r *rng.R, variant gohlslib.MuxerVariant, withAudio bool) (out map[string][]byte, err error) {
	defer func() {
		if e := recover(); e != nil {
			err = fmt.Errorf("panic: %v", e)
		}
	}()
	out = map[string][]byte{}
	vt := &gohlslib.Track{Codec: &codecs.H264{SPS: muxSPS, PPS: []byte{0x08}}, ClockRate: 90000}
	tracks := []*gohlslib.Track{vt}
	var at *gohlslib.Track
	if withAudio {
		at = &gohlslib.Track{Codec: &codecs.MPEG4Audio{Config: mpeg4audio.Config{Type: 2, SampleRate: 44100, ChannelCount: 2}},
			ClockRate: 44100, Name: "aud", Language: "en"}
		tracks = append(tracks, at)
	}
	segCount := 3 + r.Intn(4)
	if variant == gohlslib.MuxerVariantLowLatency {
		segCount = 7 + r.Intn(3)
	}
	m := &gohlslib.Muxer{Tracks: tracks, Variant: variant, SegmentCount: segCount,
		SegmentMinDuration: time.Duration(500+r.Intn(1500)) * time.Millisecond,
		PartMinDuration:    time.Duration(100+r.Intn(200)) * time.Millisecond}
	if err := m.Start(); err != nil {
		return nil, err
	}
	defer m.Close()
	ntp := time.Date(2024, 2, 29, 23, 59, 50, 0, time.UTC)
	frame := int64(90000 / (20 + r.Intn(40)))
	gop := 10 + r.Intn(40)
	nframes := gop*(segCount+2+r.Intn(4)) + r.Intn(gop)
	apts := int64(0)
	// the request's query string is carried into the URIs the playlists list (C16): queries a net/http
	// server accepts (no control characters, no spaces), some with characters that need care in a
	// quoted attribute value
	queries := []string{"", "", "token=abc&x=1", "a=\"b", "k=v,w&l=1", "q=a%22b", "x='y'&z=<1>", "p=a=b&&r"}
	query := queries[r.Intn(len(queries))]
	if os.Getenv("VERIF_FORCE_QUERY") != "" {
		query = os.Getenv("VERIF_FORCE_QUERY")
	}
	mediaBases := map[string]bool{} // media playlist paths without query
	collect := func(tag string) {
		idxPath := "index.m3u8"
		if query != "" {
			idxPath += "?" + query
		}
		st, idx := muxFetch(m, idxPath)
		if st != 200 {
			return
		}
		out[tag+":index.m3u8"] = idx
		for _, l := range strings.Split(string(idx), "\n") {
			l = strings.TrimSpace(l)
			uri := ""
			if l != "" && !strings.HasPrefix(l, "#") {
				uri = l
			} else if i := strings.Index(l, "URI=\""); strings.HasPrefix(l, "#EXT-X-MEDIA:") && i >= 0 {
				uri = l[i+5:]
				uri = uri[:strings.IndexByte(uri, '"')]
			}
			if uri == "" {
				continue
			}
			if i := strings.IndexByte(uri, '?'); i >= 0 {
				mediaBases[uri[:i]] = true
			} else {
				mediaBases[uri] = true
			}
			for _, q := range []string{"", "?_HLS_skip=YES"} {
				if q != "" && variant != gohlslib.MuxerVariantLowLatency {
					continue
				}
				if q != "" && strings.Contains(uri, "?") {
					q = "&" + q[1:]
				}
				if st, b := muxFetch(m, uri+q); st == 200 {
					out[tag+":"+uri+q] = b
				}
			}
		}
	}
	for i := 0; i < nframes; i++ {
		pts := int64(i) * frame
		var au [][]byte
		if i%gop == 0 {
			au = [][]byte{muxSPS, {0x08}, {0x65, byte(i), 2, 3}}
		} else {
			au = [][]byte{{0x41, byte(i), 2, 3}}
		}
		if err := m.WriteH264(vt, ntp.Add(time.Duration(pts)*time.Second/90000), pts, au); err != nil {
			return out, err
		}
		if at != nil {
			for apts*90000 <= pts*44100 {
				if err := m.WriteMPEG4Audio(at, ntp.Add(time.Duration(apts)*time.Second/44100), apts, [][]byte{{1, 2, 3, 4}}); err != nil {
					return out, err
				}
				apts += 1024
			}
		}
		if i%gop == gop/2 && i > 3*gop {
			collect(fmt.Sprintf("f%d", i))
		}
	}
	collect("end")
	// at the end, every query once (the random pick above covers the histories)
	for qi, q := range queries[2:] {
		query = q
		collect(fmt.Sprintf("endq%d", qi))
	}
	// every media playlist also DIRECTLY with each raw query (the index escapes what it lists, a
	// client need not): the query reaches the URI attributes of the media playlist itself
	var bases []string
	for b := range mediaBases {
		bases = append(bases, b)
	}
	sort.Strings(bases)
	for _, b := range bases {
		for qi, q := range queries[2:] {
			for _, skip := range []string{"", "&_HLS_skip=YES"} {
				if skip != "" && variant != gohlslib.MuxerVariantLowLatency {
					continue
				}
				if st, body := muxFetch(m, b+"?"+q+skip); st == 200 {
					out[fmt.Sprintf("direct%d:%s?%s%s", qi, b, q, skip)] = body
				}
			}
		}
	}
	return out, nil
}

// muxerStream feeds every served playlist to the strict grammar and to the decoders
func (h *harness) muxerStream(seed uint64, scenarios int) {
	variants := []gohlslib.MuxerVariant{gohlslib.MuxerVariantLowLatency, gohlslib.MuxerVariantFMP4, gohlslib.MuxerVariantMPEGTS}
	names := []string{"lowlatency", "fmp4", "mpegts"}
	for k := 0; k < scenarios; k++ {
		r := rng.New(seed, 0x4D5558+uint64(k))
		vi := k % 3
		pls, err := muxerPlaylists(r, variants[vi], (k/3)%2 == 0)
		if err != nil {
			h.dist["muxer:"+names[vi]+":error:"+panicClass(err.Error())]++
		}
		var plNames []string
		for name := range pls {
			plNames = append(plNames, name)
		}
		sort.Strings(plNames)
		for i, name := range plNames {
			b := pls[name]
			if i%2 == 0 {
				h.malformedR(r, b, 1) // token-level mutation of a served playlist (grammar comparison)
			}
			in := textInput("muxer", b, names[vi]+" "+name)
			h.dist["muxer:"+names[vi]+":playlists"]++
			h.decodeAll("muxer", b, in, "", true, "")
			h.note(in, b, len(b) > 40)
			_, vs := grammar.Check(b)
			for _, v := range vs {
				h.fs.add(failure{"C15", "C15:grammar:muxer:" + v.Signature(),
					"a playlist served by a " + names[vi] + " muxer is not grammatical M3U8 (" + v.String() + "): " + printable(b),
					in, len(b)})
			}
			if r := realUnmarshalAuto(b); r.err != nil && r.panicked == "" {
				h.fs.add(failure{"C15", "C15:muxer:undecodable:" + names[vi],
					"a playlist served by a muxer is rejected by playlist.Unmarshal: " + r.err.Error() + ": " + printable(b), in, len(b)})
			}
		}
	}
}
