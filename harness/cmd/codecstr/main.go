// Command codecstr drives the REAL pkg/codecparams.Marshal for property C16 ("CODECS lists the
// RFC 6381 string of every track's current parameters"), codec-string leg:
//   - structured field records are drawn from the seed for all six codec families (boundary values
//     included) and turned into the Go codec values Marshal takes: H265 SPS and AV1 sequence-header
//     bytes are written with a bit writer from the drawn fields, H264 SPS bytes, VP9 / MPEG-4 Audio
//     fields directly; also parameter bytes the parsers reject, short SPS, a nil Codec;
//   - the fields Marshal reads are obtained the way Marshal obtains them (mediacommon's own
//     h265.SPS.Unmarshal / av1.SequenceHeader.Unmarshal on the same bytes) and written, with the
//     string the real Marshal returned, as Coq cases for Tie/CodecStrTie.v (vm_compute);
//   - the drawn fields are compared with the parsed ones (self-check of the bit writer).
package main

import (
	"crypto/sha256"
	"encoding/hex"
	"encoding/json"
	"flag"
	"fmt"
	"os"
	"path/filepath"
	"strings"

	"github.com/bluenviron/gohlslib/v2/pkg/codecparams"
	"github.com/bluenviron/gohlslib/v2/pkg/codecs"
	"github.com/bluenviron/mediacommon/v2/pkg/codecs/av1"
	"github.com/bluenviron/mediacommon/v2/pkg/codecs/h265"
	"github.com/bluenviron/mediacommon/v2/pkg/codecs/mpeg4audio"

	"verifharness/internal/coqfmt"
	"verifharness/internal/rng"
)

// ---- bit writer ----

type bitw struct {
	b []byte
	n int
}

func (w *bitw) put(v uint64, nbits int) {
	for i := nbits - 1; i >= 0; i-- {
		if w.n%8 == 0 {
			w.b = append(w.b, 0)
		}
		if (v>>uint(i))&1 != 0 {
			w.b[len(w.b)-1] |= 0x80 >> uint(w.n%8)
		}
		w.n++
	}
}
func (w *bitw) flag(b bool) {
	if b {
		w.put(1, 1)
	} else {
		w.put(0, 1)
	}
}
func (w *bitw) ue(v uint64) {
	v++
	nb := 0
	for x := v; x > 1; x >>= 1 {
		nb++
	}
	w.put(0, nb)
	w.put(v, nb+1)
}
func (w *bitw) trailing() {
	w.put(1, 1)
	for w.n%8 != 0 {
		w.put(0, 1)
	}
}

func emulationPrevent(rbsp []byte) []byte {
	var out []byte
	zeros := 0
	for _, b := range rbsp {
		if zeros >= 2 && b <= 3 {
			out = append(out, 3)
			zeros = 0
		}
		out = append(out, b)
		if b == 0 {
			zeros++
		} else {
			zeros = 0
		}
	}
	return out
}

// ---- the record a case is replayed from: the concrete Go codec value ----

type inputRec struct {
	Family string `json:"family"` // h264 | h265 | vp9 | av1 | opus | mpeg4audio | nil
	Bytes  string `json:"bytes_hex,omitempty"`
	A      int64  `json:"a,omitempty"` // vp9 profile / mpeg4audio object type
	B      int64  `json:"b,omitempty"` // vp9 bit depth
	Note   string `json:"note,omitempty"`
	Fields string `json:"fields_read,omitempty"` // what Marshal read (Coq term), for the reader
	Real   string `json:"real_marshal_output"`
}

type caseRec struct {
	Shard int      `json:"shard"`
	Index int      `json:"index"`
	What  string   `json:"what"`
	Input inputRec `json:"input"`
}

type shardWriter struct {
	dir     string
	f       *os.File
	idx, in int
	max     int
	cases   []caseRec
}

func (w *shardWriter) close() {
	if w.f != nil {
		fmt.Fprintln(w.f, "\n].")
		fmt.Fprintln(w.f, "Definition M := Eval vm_compute in mismatches cases.")
		fmt.Fprintln(w.f, "Print M.")
		w.f.Close()
		w.f = nil
	}
}

func (w *shardWriter) add(term, what string, in inputRec) {
	if w.f == nil || w.in >= w.max {
		if w.f != nil {
			w.close()
			w.idx++
		}
		w.in = 0
		f, err := os.Create(filepath.Join(w.dir, fmt.Sprintf("cases_%d.v", w.idx)))
		if err != nil {
			panic(err)
		}
		w.f = f
		fmt.Fprintln(f, "From Coq Require Import List ZArith Bool String.")
		fmt.Fprintln(f, "From GoHls Require Import Model.CodecStr Tie.CodecStrTie.")
		fmt.Fprintln(f, "Import ListNotations. Open Scope Z_scope.")
		fmt.Fprintln(f, "Definition cases : list ccase := [")
	}
	if w.in > 0 {
		fmt.Fprintln(w.f, ";")
	}
	fmt.Fprint(w.f, term)
	w.cases = append(w.cases, caseRec{Shard: w.idx, Index: w.in, What: what, Input: in})
	w.in++
}

// ---- H265 ----

type ptlSpec struct {
	space, tier, idc uint8
	compat           [32]bool
	flags            [14]bool // progressive .. lowerBitRate (13), max14bit
	level            uint8
	subLayers        uint8 // sps_max_sub_layers_minus1
	subPresent       bool  // some sub_layer_*_present_flag set (mediacommon rejects)
}

func (p *ptlSpec) reads14() bool {
	return p.idc == 5 || p.idc == 9 || p.idc == 10 || p.idc == 11 || p.compat[5] || p.compat[9] || p.compat[10] || p.compat[11]
}

func h265SPS(p *ptlSpec) []byte {
	var w bitw
	w.put(0, 4)                   // sps_video_parameter_set_id
	w.put(uint64(p.subLayers), 3) // sps_max_sub_layers_minus1
	w.put(1, 1)                   // sps_temporal_id_nesting_flag
	w.put(uint64(p.space), 2)
	w.put(uint64(p.tier), 1)
	w.put(uint64(p.idc), 5)
	for j := 0; j < 32; j++ {
		w.flag(p.compat[j])
	}
	for j := 0; j < 13; j++ {
		w.flag(p.flags[j])
	}
	if p.reads14() {
		w.flag(p.flags[13])
		w.put(0, 34)
	} else {
		w.put(0, 35)
	}
	w.put(uint64(p.level), 8)
	if p.subLayers > 0 {
		for j := uint8(0); j < p.subLayers; j++ {
			w.flag(p.subPresent)
			w.flag(false)
		}
		for j := p.subLayers; j < 8; j++ {
			w.put(0, 2)
		}
	}
	w.ue(0)   // sps_seq_parameter_set_id
	w.ue(1)   // chroma_format_idc
	w.ue(640) // pic_width_in_luma_samples
	w.ue(360)
	w.put(0, 1) // conformance_window_flag
	w.ue(0)     // bit_depth_luma_minus8
	w.ue(0)
	w.ue(4) // log2_max_pic_order_cnt_lsb_minus4
	w.put(1, 1)
	for j := uint8(0); j <= p.subLayers; j++ {
		w.ue(1)
		w.ue(0)
		w.ue(0)
	}
	w.ue(0)
	w.ue(3)
	w.ue(0)
	w.ue(3)
	w.ue(0)
	w.ue(0)
	w.put(0, 1) // scaling_list_enabled_flag
	w.put(0, 1) // amp_enabled_flag
	w.put(1, 1) // sample_adaptive_offset_enabled_flag
	w.put(0, 1) // pcm_enabled_flag
	w.ue(0)     // num_short_term_ref_pic_sets
	w.put(0, 1) // long_term_ref_pics_present_flag
	w.put(1, 1) // sps_temporal_mvp_enabled_flag
	w.put(1, 1) // strong_intra_smoothing_enabled_flag
	w.put(0, 1) // vui_parameters_present_flag
	w.put(0, 1) // sps_extension_present_flag
	w.trailing()
	return append([]byte{0x42, 0x01}, emulationPrevent(w.b)...)
}

func ptlTerm(p *h265.SPS_ProfileTierLevel) string {
	var fl []string
	for _, b := range p.GeneralProfileCompatibilityFlag {
		fl = append(fl, coqfmt.Bool(b))
	}
	bs := []bool{p.GeneralProgressiveSourceFlag, p.GeneralInterlacedSourceFlag, p.GeneralNonPackedConstraintFlag,
		p.GeneralFrameOnlyConstraintFlag, p.GeneralMax12bitConstraintFlag, p.GeneralMax10bitConstraintFlag,
		p.GeneralMax8bitConstraintFlag, p.GeneralMax422ChromeConstraintFlag, p.GeneralMax420ChromaConstraintFlag,
		p.GeneralMaxMonochromeConstraintFlag, p.GeneralIntraConstraintFlag, p.GeneralOnePictureOnlyConstraintFlag,
		p.GeneralLowerBitRateConstraintFlag, p.GeneralMax14BitConstraintFlag}
	var fs []string
	for _, b := range bs {
		fs = append(fs, coqfmt.Bool(b))
	}
	return fmt.Sprintf("(Build_h265_ptl %d %d %d %s %s %d)", p.GeneralProfileSpace, p.GeneralTierFlag, p.GeneralProfileIdc,
		coqfmt.List(fl), strings.Join(fs, " "), p.GeneralLevelIdc)
}

// ---- AV1 ----

type av1Spec struct {
	profile     uint8
	reduced     bool // reduced_still_picture_header
	level       uint8
	tier        bool
	highBD      bool
	twelve      bool
	mono        bool
	colorDesc   bool
	cp, tc, mc  uint8
	fullRange   bool
	ssx, ssy    bool
	chromaPos   uint8
	hasSize     bool
	timing      bool
	extraOpPnts uint8
}

func av1SeqHdr(s *av1Spec) []byte {
	var w bitw
	w.put(uint64(s.profile), 3)
	w.flag(s.reduced) // still_picture
	w.flag(s.reduced) // reduced_still_picture_header
	if s.reduced {
		w.put(uint64(s.level), 5)
	} else {
		w.flag(s.timing) // timing_info_present_flag
		if s.timing {
			w.put(1, 32)
			w.put(25, 32)
			w.put(0, 1) // equal_picture_interval
			w.put(0, 1) // decoder_model_info_present_flag
		}
		w.put(0, 1) // initial_display_delay_present_flag
		w.put(uint64(s.extraOpPnts), 5)
		for i := uint8(0); i <= s.extraOpPnts; i++ {
			w.put(0, 12)
			lv, tr := s.level, s.tier
			if i > 0 { // further operating points: Marshal must read index 0 only
				lv, tr = (s.level+7*i)%32, !s.tier
			}
			w.put(uint64(lv), 5)
			if lv > 7 {
				w.flag(tr)
			}
		}
	}
	w.put(10, 4)
	w.put(10, 4)
	w.put(639, 11)
	w.put(359, 11)
	if !s.reduced {
		w.put(0, 1) // frame_id_numbers_present_flag
	}
	w.put(0, 1) // use_128x128_superblock
	w.put(1, 1) // enable_filter_intra
	w.put(1, 1) // enable_intra_edge_filter
	if !s.reduced {
		w.put(1, 1) // enable_interintra_compound
		w.put(1, 1) // enable_masked_compound
		w.put(1, 1) // enable_warped_motion
		w.put(1, 1) // enable_dual_filter
		w.put(1, 1) // enable_order_hint
		w.put(1, 1) // enable_jnt_comp
		w.put(1, 1) // enable_ref_frame_mvs
		w.put(1, 1) // seq_choose_screen_content_tools
		w.put(1, 1) // seq_choose_integer_mv
		w.put(6, 3) // order_hint_bits_minus_1
	}
	w.put(0, 1) // enable_superres
	w.put(1, 1) // enable_cdef
	w.put(1, 1) // enable_restoration
	// color_config
	w.flag(s.highBD)
	bd := 8
	if s.profile == 2 && s.highBD {
		w.flag(s.twelve)
		if s.twelve {
			bd = 12
		}
	}
	mono := false
	if s.profile != 1 {
		w.flag(s.mono)
		mono = s.mono
	}
	w.flag(s.colorDesc)
	cp, tc, mc := uint8(2), uint8(2), uint8(2)
	if s.colorDesc {
		w.put(uint64(s.cp), 8)
		w.put(uint64(s.tc), 8)
		w.put(uint64(s.mc), 8)
		cp, tc, mc = s.cp, s.tc, s.mc
	}
	switch {
	case mono:
		w.flag(s.fullRange)
	case cp == 1 && tc == 13 && mc == 0:
	default:
		w.flag(s.fullRange)
		ssx, ssy := true, true
		switch {
		case s.profile == 0:
		case s.profile == 1:
			ssx, ssy = false, false
		default:
			if bd == 12 {
				w.flag(s.ssx)
				ssx = s.ssx
				if s.ssx {
					w.flag(s.ssy)
					ssy = s.ssy
				} else {
					ssy = false
				}
			} else {
				ssx, ssy = true, false
			}
		}
		if ssx && ssy {
			w.put(uint64(s.chromaPos), 2)
		}
	}
	if !mono {
		w.put(0, 1) // separate_uv_delta_q
	}
	w.put(0, 1) // film_grain_params_present
	w.trailing()
	payload := w.b
	if s.hasSize {
		out := []byte{1<<3 | 0x02}
		n := len(payload)
		for {
			b := byte(n & 0x7f)
			n >>= 7
			if n != 0 {
				out = append(out, b|0x80)
			} else {
				out = append(out, b)
				break
			}
		}
		return append(out, payload...)
	}
	return append([]byte{1 << 3}, payload...)
}

func av1Term(sh *av1.SequenceHeader) string {
	c := sh.ColorConfig
	return fmt.Sprintf("(Build_av1_sh %d %d %s %s %s %s %s %d %s %d %d %d %s)", sh.SeqProfile, sh.SeqLevelIdx[0],
		coqfmt.Bool(sh.SeqTier[0]), coqfmt.Z(int64(c.BitDepth)), coqfmt.Bool(c.MonoChrome), coqfmt.Bool(c.SubsamplingX),
		coqfmt.Bool(c.SubsamplingY), c.ChromaSamplePosition, coqfmt.Bool(c.ColorDescriptionPresentFlag), c.ColorPrimaries,
		c.TransferCharacteristics, c.MatrixCoefficients, coqfmt.Bool(c.ColorRange))
}

// ---- the harness ----

type harness struct {
	w      *shardWriter
	dist   map[string]int
	seen   map[string]bool
	evals  int
	nontr  int
	sample []inputRec
	selfCk []string
}

func safeMarshal(c codecs.Codec) (s string, panicked string) {
	defer func() {
		if e := recover(); e != nil {
			panicked = fmt.Sprint(e)
		}
	}()
	return codecparams.Marshal(c), ""
}

// one case from a concrete codec value
func (h *harness) emit(in inputRec) {
	var c codecs.Codec
	var term string
	raw, _ := hex.DecodeString(in.Bytes)
	cls := in.Family
	switch in.Family {
	case "h264":
		c = &codecs.H264{SPS: raw}
		term = "(H264 " + coqfmt.Bytes(raw) + ")"
		if len(raw) < 4 {
			cls += ":short"
		}
	case "h265":
		c = &codecs.H265{SPS: raw}
		var sps h265.SPS
		if err := sps.Unmarshal(raw); err != nil {
			term = "(H265 None)"
			cls += ":rejected-by-parser"
		} else {
			term = "(H265 (Some " + ptlTerm(&sps.ProfileTierLevel) + "))"
			p := sps.ProfileTierLevel
			if p.GeneralProfileSpace != 0 {
				cls += ":profile-space"
			}
			if p.GeneralTierFlag != 0 {
				cls += ":high-tier"
			}
			o2 := p.GeneralMax420ChromaConstraintFlag || p.GeneralMaxMonochromeConstraintFlag || p.GeneralIntraConstraintFlag ||
				p.GeneralOnePictureOnlyConstraintFlag || p.GeneralLowerBitRateConstraintFlag || p.GeneralMax14BitConstraintFlag
			o1 := p.GeneralProgressiveSourceFlag || p.GeneralInterlacedSourceFlag || p.GeneralNonPackedConstraintFlag ||
				p.GeneralFrameOnlyConstraintFlag || p.GeneralMax12bitConstraintFlag || p.GeneralMax10bitConstraintFlag ||
				p.GeneralMax8bitConstraintFlag || p.GeneralMax422ChromeConstraintFlag
			switch {
			case !o1 && !o2:
				cls += ":constraints-all-zero"
			case !o1:
				cls += ":constraints-first-byte-zero"
			case !o2:
				cls += ":constraints-second-byte-zero"
			}
		}
	case "av1":
		c = &codecs.AV1{SequenceHeader: raw}
		var sh av1.SequenceHeader
		if err := sh.Unmarshal(raw); err != nil {
			term = "(AV1 None)"
			cls += ":rejected-by-parser"
		} else {
			term = "(AV1 (Some " + av1Term(&sh) + "))"
			cls += fmt.Sprintf(":profile%d:bits%d", sh.SeqProfile, sh.ColorConfig.BitDepth)
			if sh.ColorConfig.MonoChrome {
				cls += ":mono"
			}
			if sh.ColorConfig.ColorDescriptionPresentFlag {
				cls += ":colour"
			}
		}
	case "vp9":
		c = &codecs.VP9{Profile: uint8(in.A), BitDepth: uint8(in.B), Width: 640, Height: 360}
		term = fmt.Sprintf("(VP9 %d %d)", uint8(in.A), uint8(in.B))
	case "opus":
		c = &codecs.Opus{ChannelCount: 2}
		term = "Opus"
	case "mpeg4audio":
		c = &codecs.MPEG4Audio{Config: mpeg4audio.Config{Type: mpeg4audio.ObjectType(in.A), SampleRate: 44100, ChannelCount: 2}}
		term = "(MPEG4Audio " + coqfmt.Z(in.A) + ")"
		if in.A < 0 {
			cls += ":negative"
		}
	default:
		c = nil
		term = "OtherCodec"
	}
	real, pan := safeMarshal(c)
	if pan != "" {
		real = "PANIC: " + pan
		cls += ":panic"
	}
	if real == "" {
		cls += ":empty"
	}
	in.Fields, in.Real = term, real
	h.evals++
	h.dist[cls]++
	full := "CCase " + term + " " + coqfmt.Str(real)
	key := sha256.Sum256([]byte(full))
	k := hex.EncodeToString(key[:])
	if !h.seen[k] {
		h.seen[k] = true
		if real != "" && in.Family != "opus" {
			h.nontr++
		}
	}
	if len(h.sample) < 3 && strings.Contains(real, ".") {
		h.sample = append(h.sample, in)
	}
	h.w.add(full, in.Family, in)
}

var byteBoundaries = []int64{0, 1, 2, 3, 7, 8, 9, 10, 12, 15, 16, 31, 32, 99, 100, 127, 128, 200, 254, 255}

func pickByte(r *rng.R) uint8 {
	if r.Bool(1, 2) {
		return uint8(byteBoundaries[r.Intn(len(byteBoundaries))])
	}
	return uint8(r.Intn(256))
}

func (h *harness) check(what string, ok bool) {
	if !ok && len(h.selfCk) < 5 {
		h.selfCk = append(h.selfCk, what)
	}
}

func (h *harness) genH265(r *rng.R, i int) {
	p := &ptlSpec{}
	p.space = uint8(r.Intn(4))
	if r.Bool(1, 2) {
		p.space = 0
	}
	p.tier = uint8(r.Intn(2))
	p.idc = uint8(r.Intn(32))
	switch r.Intn(5) {
	case 0: // none
	case 1:
		for j := range p.compat {
			p.compat[j] = true
		}
	case 2:
		p.compat[r.Intn(32)] = true
	case 3:
		p.compat[1], p.compat[2] = true, true
	default:
		for j := range p.compat {
			p.compat[j] = r.Bool(1, 2)
		}
	}
	switch i % 6 {
	case 0: // all constraint / source flags clear
	case 1: // only the second byte
		for j := 8; j < 14; j++ {
			p.flags[j] = r.Bool(1, 2)
		}
		p.flags[8+r.Intn(5)] = true
	case 2: // only the first byte
		for j := 0; j < 8; j++ {
			p.flags[j] = r.Bool(1, 2)
		}
	case 3: // low nibble only: a one-digit first byte
		for j := 4; j < 8; j++ {
			p.flags[j] = r.Bool(1, 2)
		}
	default:
		for j := range p.flags {
			p.flags[j] = r.Bool(1, 2)
		}
	}
	if r.Bool(1, 3) { // a profile for which general_max_14bit_constraint_flag is coded
		p.idc = []uint8{5, 9, 10, 11}[r.Intn(4)]
		p.flags[13] = r.Bool(1, 2)
	}
	switch r.Intn(6) {
	case 0:
		p.level = 0
	case 1:
		p.level = 255
	case 2:
		p.level = []uint8{30, 60, 63, 90, 93, 120, 123, 150, 153, 156, 180, 183, 186}[r.Intn(13)]
	default:
		p.level = pickByte(r)
	}
	note := "drawn profile_tier_level"
	if r.Bool(1, 12) {
		p.subLayers = uint8(1 + r.Intn(3))
		p.subPresent = r.Bool(1, 2)
		note = fmt.Sprintf("sps_max_sub_layers_minus1=%d sub_layer_profile_present=%v", p.subLayers, p.subPresent)
	}
	sps := h265SPS(p)
	switch r.Intn(14) {
	case 0:
		sps = sps[:r.Intn(len(sps))]
		note = "truncated SPS"
	case 1:
		sps[0] = 0x40 // VPS NAL unit type
		note = "not an SPS NAL unit"
	default:
		var got h265.SPS
		if err := got.Unmarshal(sps); err == nil {
			g := got.ProfileTierLevel
			okc := g.GeneralProfileSpace == p.space && g.GeneralTierFlag == p.tier && g.GeneralProfileIdc == p.idc &&
				g.GeneralProfileCompatibilityFlag == p.compat && g.GeneralLevelIdc == p.level &&
				g.GeneralProgressiveSourceFlag == p.flags[0] && g.GeneralLowerBitRateConstraintFlag == p.flags[12] &&
				g.GeneralMax14BitConstraintFlag == (p.flags[13] && p.reads14())
			h.check("h265 SPS writer: parsed profile_tier_level differs from the drawn one", okc)
		} else {
			h.check("h265 SPS writer: mediacommon rejects a complete SPS: "+err.Error(), p.subLayers > 0 && p.subPresent)
		}
	}
	h.emit(inputRec{Family: "h265", Bytes: hex.EncodeToString(sps), Note: note})
}

func (h *harness) genAV1(r *rng.R, i int) {
	s := &av1Spec{}
	s.profile = uint8(r.Pick(4, 3, 4, 1))
	if s.profile == 3 {
		s.profile = uint8(3 + r.Intn(5)) // reserved profiles
	}
	s.reduced = r.Bool(1, 10)
	switch r.Intn(4) {
	case 0:
		s.level = uint8(r.Intn(8)) // no tier bit
	case 1:
		s.level = []uint8{0, 7, 8, 9, 10, 31}[r.Intn(6)]
	default:
		s.level = uint8(r.Intn(32))
	}
	s.tier = r.Bool(1, 2)
	s.highBD = r.Bool(1, 2)
	s.twelve = r.Bool(1, 2)
	s.mono = r.Bool(1, 4)
	s.colorDesc = i%2 == 0
	switch r.Intn(5) {
	case 0:
		s.cp, s.tc, s.mc = 1, 13, 0 // sRGB / identity: range and subsampling are implied
	case 1:
		s.cp, s.tc, s.mc = 1, 1, 1
	case 2:
		s.cp, s.tc, s.mc = 2, 2, 2
	default:
		s.cp, s.tc, s.mc = pickByte(r), pickByte(r), pickByte(r)
	}
	s.fullRange = r.Bool(1, 2)
	s.ssx, s.ssy = r.Bool(1, 2), r.Bool(1, 2)
	s.chromaPos = uint8(r.Intn(4))
	s.hasSize = r.Bool(1, 2)
	s.timing = r.Bool(1, 6)
	if r.Bool(1, 6) {
		s.extraOpPnts = uint8(1 + r.Intn(3))
	}
	b := av1SeqHdr(s)
	note := "drawn sequence header"
	switch r.Intn(16) {
	case 0:
		b = b[:r.Intn(len(b))]
		note = "truncated sequence header"
	case 1:
		if s.hasSize && len(b) > 2 {
			b[1]++ // obu_size does not match
			note = "wrong obu_size"
		}
	default:
		var got av1.SequenceHeader
		if err := got.Unmarshal(b); err == nil {
			okc := got.SeqProfile == s.profile && got.SeqLevelIdx[0] == s.level &&
				got.SeqTier[0] == (s.tier && s.level > 7 && !s.reduced) &&
				got.ColorConfig.ColorDescriptionPresentFlag == s.colorDesc &&
				(!s.colorDesc || (uint8(got.ColorConfig.ColorPrimaries) == s.cp && uint8(got.ColorConfig.TransferCharacteristics) == s.tc &&
					uint8(got.ColorConfig.MatrixCoefficients) == s.mc))
			h.check("av1 sequence header writer: parsed fields differ from the drawn ones", okc)
		} else {
			h.check("av1 sequence header writer: mediacommon rejects a complete header: "+err.Error(), false)
		}
	}
	h.emit(inputRec{Family: "av1", Bytes: hex.EncodeToString(b), Note: note})
}

func (h *harness) genH264(r *rng.R) {
	n := []int{0, 1, 2, 3, 4, 4, 4, 5, 8, 25}[r.Intn(10)]
	b := make([]byte, n)
	for j := range b {
		b[j] = pickByte(r)
	}
	if n > 0 {
		b[0] = 0x67
	}
	if n >= 4 && r.Bool(1, 5) {
		v := []byte{0x00, 0xff, 0x0a, 0xa0, 0xab}[r.Intn(5)]
		b[1], b[2], b[3] = v, v, v
	}
	h.emit(inputRec{Family: "h264", Bytes: hex.EncodeToString(b)})
}

func main() {
	seed := flag.Uint64("seed", 0, "seed")
	tier := flag.String("tier", "quick", "quick|thorough")
	out := flag.String("out", "", "output directory")
	replay := flag.String("replay", "", "replay file (JSON with .input)")
	n := flag.Int("n", 0, "number of drawn records per family (default by tier)")
	flag.Parse()
	if *out == "" {
		fmt.Fprintln(os.Stderr, "need -out")
		os.Exit(2)
	}
	os.MkdirAll(*out, 0o755)
	h := &harness{w: &shardWriter{dir: *out, max: 400}, dist: map[string]int{}, seen: map[string]bool{}, sample: []inputRec{}}
	if *replay != "" {
		raw, err := os.ReadFile(*replay)
		if err != nil {
			panic(err)
		}
		var rp struct {
			Input inputRec `json:"input"`
		}
		if err := json.Unmarshal(raw, &rp); err != nil {
			panic(err)
		}
		h.emit(rp.Input)
	} else {
		per := *n
		if per == 0 {
			per = map[string]int{"quick": 400, "thorough": 6000}[*tier]
		}
		r := rng.New(*seed, 0x434453)
		// fixed boundary records, every run
		h.emit(inputRec{Family: "opus"})
		h.emit(inputRec{Family: "nil", Note: "a nil Codec"})
		for _, t := range []int64{0, 1, 2, 3, 4, 5, 6, 17, 23, 29, 39, 42, 45, 95, 1 << 31, -1, -29} {
			h.emit(inputRec{Family: "mpeg4audio", A: t})
		}
		for _, p := range byteBoundaries {
			for _, b := range []int64{0, 8, 10, 12, 255} {
				h.emit(inputRec{Family: "vp9", A: p, B: b})
			}
		}
		for i := 0; i < per; i++ {
			h.genH265(r, i)
			h.genAV1(r, i)
			if i%4 == 0 {
				h.genH264(r)
				h.emit(inputRec{Family: "vp9", A: int64(pickByte(r)), B: int64(pickByte(r))})
			}
			if i%16 == 0 {
				h.emit(inputRec{Family: "mpeg4audio", A: r.Range(-3, 300)})
			}
		}
	}
	h.w.close()
	res := map[string]interface{}{
		"evaluations":         h.evals,
		"distinct_nontrivial": h.nontr,
		"rule": "field records from splitmix64(seed, stream 0x434453): H265 profile_tier_level and AV1 sequence-header fields drawn with " +
			"boundary classes (all-zero constraint bytes, only the first / second byte, level 0 / 255, profile_space 1..3, high tier, " +
			"10 / 12 bit, monochrome, explicit colour description incl. the sRGB special case, reserved AV1 profiles, several operating points), " +
			"written to parameter bytes; H264 SPS of length 0..25; VP9 profile / bit depth 0..255; MPEG-4 Audio object types incl. 0, large and negative; " +
			"Opus; nil; parameter bytes the parsers reject; distinct by SHA-256 of (fields read, real string); non-trivial = a non-empty real string with fields",
		"samples":      h.sample,
		"distribution": h.dist,
		"cases":        h.w.cases,
		"shards":       h.w.idx + 1,
		"self_check":   h.selfCk,
	}
	j, _ := json.MarshalIndent(res, "", " ")
	os.WriteFile(filepath.Join(*out, "result.json"), j, 0o644)
}
