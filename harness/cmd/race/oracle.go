// Single-playlist oracle for C08, written from the property text: every 200 playlist response
// must be an internally consistent snapshot (C03-C05 invariants that can be judged from the
// response alone, plus fetchability of what it lists), and one requester's successive
// responses must evolve monotonically (C04).  It has its own M3U8 reader so that it does not
// share code with the library under test.
package main

import (
	"fmt"
	"math"
	"regexp"
	"strconv"
	"strings"
)

type plPart struct {
	URI string
	Dur int64 // 10 us units
}

type plSeg struct {
	URI   string
	Dur   int64 // 10 us units
	Gap   bool
	Parts []plPart
	MSN   int64
}

type mediaPL struct {
	Target      int64
	MediaSeq    int64
	Skipped     int64
	HasSkip     bool
	Map         string
	PartTarget  int64 // 10 us units, -1 when absent
	HoldBack    int64
	CanSkip     int64
	Segs        []plSeg
	OpenParts   []plPart
	PreloadHint string
}

func attr(line, key string) (string, bool) {
	// attribute list after the first ':'
	i := strings.Index(line, ":")
	if i < 0 {
		return "", false
	}
	rest := line[i+1:]
	for len(rest) > 0 {
		eq := strings.Index(rest, "=")
		if eq < 0 {
			break
		}
		k := rest[:eq]
		rest = rest[eq+1:]
		var v string
		if strings.HasPrefix(rest, "\"") {
			end := strings.Index(rest[1:], "\"")
			if end < 0 {
				return "", false
			}
			v = rest[1 : 1+end]
			rest = rest[end+2:]
		} else {
			end := strings.Index(rest, ",")
			if end < 0 {
				v = rest
				rest = ""
			} else {
				v = rest[:end]
				rest = rest[end:]
			}
		}
		rest = strings.TrimPrefix(rest, ",")
		if k == key {
			return v, true
		}
	}
	return "", false
}

// dec10us parses a decimal number of seconds into 10 us units.
func dec10us(s string) (int64, error) {
	s = strings.TrimSpace(s)
	neg := strings.HasPrefix(s, "-")
	s = strings.TrimPrefix(s, "-")
	ip, fp := s, ""
	if i := strings.Index(s, "."); i >= 0 {
		ip, fp = s[:i], s[i+1:]
	}
	if len(fp) > 5 {
		fp = fp[:5]
	}
	for len(fp) < 5 {
		fp += "0"
	}
	a, err := strconv.ParseInt(ip, 10, 64)
	if err != nil {
		return 0, err
	}
	b, err := strconv.ParseInt(fp, 10, 64)
	if err != nil {
		return 0, err
	}
	v := a*100000 + b
	if neg {
		v = -v
	}
	return v, nil
}

func parseMedia(body string) (*mediaPL, error) {
	p := &mediaPL{PartTarget: -1, HoldBack: -1, CanSkip: -1, MediaSeq: 0}
	lines := strings.Split(body, "\n")
	if len(lines) == 0 || lines[0] != "#EXTM3U" {
		return nil, fmt.Errorf("does not start with #EXTM3U")
	}
	var cur plSeg
	var curParts []plPart
	haveInf := false
	gap := false
	for _, ln := range lines[1:] {
		switch {
		case ln == "":
		case strings.HasPrefix(ln, "#EXT-X-TARGETDURATION:"):
			v, err := strconv.ParseInt(ln[len("#EXT-X-TARGETDURATION:"):], 10, 64)
			if err != nil {
				return nil, err
			}
			p.Target = v
		case strings.HasPrefix(ln, "#EXT-X-MEDIA-SEQUENCE:"):
			v, err := strconv.ParseInt(ln[len("#EXT-X-MEDIA-SEQUENCE:"):], 10, 64)
			if err != nil {
				return nil, err
			}
			p.MediaSeq = v
		case strings.HasPrefix(ln, "#EXT-X-MAP:"):
			p.Map, _ = attr(ln, "URI")
		case strings.HasPrefix(ln, "#EXT-X-SKIP:"):
			v, _ := attr(ln, "SKIPPED-SEGMENTS")
			n, err := strconv.ParseInt(v, 10, 64)
			if err != nil {
				return nil, err
			}
			p.Skipped, p.HasSkip = n, true
		case strings.HasPrefix(ln, "#EXT-X-PART-INF:"):
			v, _ := attr(ln, "PART-TARGET")
			d, err := dec10us(v)
			if err != nil {
				return nil, err
			}
			p.PartTarget = d
		case strings.HasPrefix(ln, "#EXT-X-SERVER-CONTROL:"):
			if v, ok := attr(ln, "PART-HOLD-BACK"); ok {
				d, err := dec10us(v)
				if err != nil {
					return nil, err
				}
				p.HoldBack = d
			}
			if v, ok := attr(ln, "CAN-SKIP-UNTIL"); ok {
				d, err := dec10us(v)
				if err != nil {
					return nil, err
				}
				p.CanSkip = d
			}
		case strings.HasPrefix(ln, "#EXT-X-PART:"):
			u, _ := attr(ln, "URI")
			v, _ := attr(ln, "DURATION")
			d, err := dec10us(v)
			if err != nil {
				return nil, err
			}
			curParts = append(curParts, plPart{URI: u, Dur: d})
		case strings.HasPrefix(ln, "#EXT-X-PRELOAD-HINT:"):
			p.PreloadHint, _ = attr(ln, "URI")
		case strings.HasPrefix(ln, "#EXT-X-GAP"):
			gap = true
		case strings.HasPrefix(ln, "#EXTINF:"):
			v := strings.TrimSuffix(ln[len("#EXTINF:"):], ",")
			if i := strings.Index(v, ","); i >= 0 {
				v = v[:i]
			}
			d, err := dec10us(v)
			if err != nil {
				return nil, err
			}
			cur.Dur = d
			haveInf = true
		case strings.HasPrefix(ln, "#"):
			// other tags are not judged here
		default:
			if !haveInf {
				return nil, fmt.Errorf("URI line %q without EXTINF", ln)
			}
			cur.URI = ln
			cur.Gap = gap
			cur.Parts = curParts
			p.Segs = append(p.Segs, cur)
			cur, curParts, haveInf, gap = plSeg{}, nil, false, false
		}
	}
	p.OpenParts = curParts
	for i := range p.Segs {
		p.Segs[i].MSN = p.MediaSeq + p.Skipped + int64(i)
	}
	return p, nil
}

var reSegNum = regexp.MustCompile(`_seg(\d+)\.(?:mp4|ts)(?:\?.*)?$`)
var rePartNum = regexp.MustCompile(`_part(\d+)\.mp4(?:\?.*)?$`)

type violation struct {
	Sig  string
	What string
}

// checkMedia judges one media playlist response on its own.
func checkMedia(p *mediaPL, variant string, segmentCount int) []violation {
	var vs []violation
	add := func(sig, format string, a ...interface{}) {
		vs = append(vs, violation{"C08:snapshot:" + sig, fmt.Sprintf(format, a...)})
	}
	// C03: TARGETDURATION >= every EXTINF rounded to the nearest integer
	for _, s := range p.Segs {
		r := int64(math.Round(float64(s.Dur) / 100000))
		if r > p.Target {
			add("targetduration-below-extinf", "EXTINF %d (x10us) of msn %d rounds to %d > TARGETDURATION %d", s.Dur, s.MSN, r, p.Target)
		}
	}
	if variant == "ll" {
		if p.PartTarget < 0 {
			add("part-inf-missing", "Low-Latency playlist without PART-INF")
		}
		check := func(pt plPart) {
			if p.PartTarget >= 0 && pt.Dur > p.PartTarget {
				add("part-target-below-part", "part %s lasts %d > PART-TARGET %d (x10us)", pt.URI, pt.Dur, p.PartTarget)
			}
		}
		for _, s := range p.Segs {
			sum := int64(0)
			for _, pt := range s.Parts {
				check(pt)
				sum += pt.Dur
			}
			if len(s.Parts) > 0 {
				tol := int64(len(s.Parts) + 1)
				if sum-s.Dur > tol || s.Dur-sum > tol {
					add("parts-do-not-add-up", "parts of msn %d add up to %d, EXTINF is %d (x10us)", s.MSN, sum, s.Dur)
				}
			}
		}
		for _, pt := range p.OpenParts {
			check(pt)
		}
		if p.PartTarget >= 0 && p.HoldBack >= 0 && p.HoldBack < 2*p.PartTarget {
			add("part-hold-back", "PART-HOLD-BACK %d < 2 x PART-TARGET %d", p.HoldBack, p.PartTarget)
		}
		if p.CanSkip >= 0 && p.CanSkip < 6*p.Target*100000 {
			add("can-skip-until", "CAN-SKIP-UNTIL %d < 6 x TARGETDURATION %d", p.CanSkip, p.Target)
		}
		// C04: parts only under the last two segments and the open one
		for i, s := range p.Segs {
			if len(s.Parts) > 0 && len(p.Segs)-i > 2 {
				add("parts-under-old-segment", "msn %d, %d from the end, lists parts", s.MSN, len(p.Segs)-i)
			}
		}
		// part numbers increase by exactly one; the preload hint names the next part
		last := int64(-1)
		step := func(u string) {
			m := rePartNum.FindStringSubmatch(u)
			if m == nil {
				add("part-uri-shape", "part URI %q has no part number", u)
				return
			}
			n, _ := strconv.ParseInt(m[1], 10, 64)
			if last >= 0 && n != last+1 {
				add("part-numbers-not-consecutive", "part %d follows part %d", n, last)
			}
			last = n
		}
		for _, s := range p.Segs {
			for _, pt := range s.Parts {
				step(pt.URI)
			}
		}
		for _, pt := range p.OpenParts {
			step(pt.URI)
		}
		if p.PreloadHint == "" {
			add("preload-hint-missing", "Low-Latency playlist without a preload hint")
		} else if last >= 0 {
			step(p.PreloadHint)
		}
	}
	// C04: never more than SegmentCount segments; URI number = media sequence number
	if !p.HasSkip && len(p.Segs) > segmentCount {
		add("too-many-segments", "%d segments listed, SegmentCount is %d", len(p.Segs), segmentCount)
	}
	for _, s := range p.Segs {
		if s.Gap {
			continue
		}
		m := reSegNum.FindStringSubmatch(s.URI)
		if m == nil {
			add("segment-uri-shape", "segment URI %q has no number", s.URI)
			continue
		}
		n, _ := strconv.ParseInt(m[1], 10, 64)
		if n != s.MSN {
			add("segment-number-vs-msn", "segment URI %q is listed as media sequence number %d", s.URI, s.MSN)
		}
	}
	if variant != "mpegts" && !p.HasSkip && p.Map == "" {
		add("map-missing", "fMP4 playlist without EXT-X-MAP")
	}
	return vs
}

// history is what one requester remembers of one stream.
type history struct {
	lastSeq int64
	seen    map[int64]plSeg
	have    bool
}

// checkMonotone judges a response against the requester's earlier responses of the same stream.
func (h *history) checkMonotone(p *mediaPL) []violation {
	var vs []violation
	if h.seen == nil {
		h.seen = map[int64]plSeg{}
	}
	if h.have && p.MediaSeq < h.lastSeq {
		vs = append(vs, violation{"C08:monotone:media-sequence-decreased",
			fmt.Sprintf("EXT-X-MEDIA-SEQUENCE %d after %d for the same requester", p.MediaSeq, h.lastSeq)})
	}
	for _, s := range p.Segs {
		if old, ok := h.seen[s.MSN]; ok {
			if stripQuery(old.URI) != stripQuery(s.URI) || old.Dur != s.Dur || old.Gap != s.Gap {
				vs = append(vs, violation{"C08:monotone:segment-changed",
					fmt.Sprintf("media sequence number %d was (%s, %d, gap=%v), now (%s, %d, gap=%v)",
						s.MSN, old.URI, old.Dur, old.Gap, s.URI, s.Dur, s.Gap)})
			}
		}
		h.seen[s.MSN] = plSeg{URI: s.URI, Dur: s.Dur, Gap: s.Gap}
	}
	// the remembered window stays small
	for k := range h.seen {
		if k < p.MediaSeq-64 {
			delete(h.seen, k)
		}
	}
	h.lastSeq, h.have = p.MediaSeq, true
	return vs
}

func stripQuery(u string) string {
	if i := strings.Index(u, "?"); i >= 0 {
		return u[:i]
	}
	return u
}

var reStreamInf = regexp.MustCompile(`#EXT-X-STREAM-INF:([^\n]*)\n([^\n]+)`)

// checkMultivariant: the CODECS and RESOLUTION of the video variant must describe ONE parameter
// set (the writer alternates between two known ones).
func checkMultivariant(body string, known map[string]string) []violation {
	m := reStreamInf.FindStringSubmatch(body)
	if m == nil {
		return []violation{{"C08:snapshot:multivariant-no-variant", "multivariant playlist without EXT-X-STREAM-INF"}}
	}
	line := "#EXT-X-STREAM-INF:" + m[1]
	codecs, _ := attr(line, "CODECS")
	res, _ := attr(line, "RESOLUTION")
	var avc string
	for _, c := range strings.Split(codecs, ",") {
		if strings.HasPrefix(c, "avc1.") {
			avc = c
		}
	}
	if avc == "" {
		return []violation{{"C08:snapshot:multivariant-no-video-codec", "CODECS=" + codecs + " has no avc1 entry"}}
	}
	want, ok := known[avc]
	if !ok {
		return []violation{{"C08:snapshot:multivariant-unknown-codec", "CODECS=" + codecs + " matches no parameter set the writer used"}}
	}
	if res != want {
		return []violation{{"C08:snapshot:multivariant-torn-parameters",
			fmt.Sprintf("CODECS %s belongs to the %s parameter set but RESOLUTION is %s: the response mixes two states", avc, want, res)}}
	}
	return nil
}
