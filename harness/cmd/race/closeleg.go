// The "closeleg" scenario: requests that overlap Close on Directory storage.
//
// Property text: every response is a consistent snapshot of one muxer state, under every
// interleaving of readers with the writer's final Close.  So while Close is releasing the
// storage, a playlist request is either refused (the muxer is closed) or answered 200 with a
// playlist whose every listed URI (init, segments, parts; for index.m3u8 the media playlists)
// can be fetched at that moment.
//
// The window is made deterministic: the storage factory is wrapped (gohlslib.VerifWrapStorage,
// build tag verif) so that right after every File.Remove() performed while Close runs, a probe
// goroutine requests index.m3u8 and every media playlist and fetches what the answers list,
// while the closing goroutine waits for it (bounded: if Close ever held the mutex there, the
// probe would block, nothing would be answered and nothing is judged).
//
// Only status codes are judged here: the recorded races on partDisk.buffer/size and on the codec
// parameter fields (no parameter change is written in this leg) stay out of its verdict.
package main

import (
	"encoding/json"
	"fmt"
	"os"
	"regexp"
	"time"

	"github.com/bluenviron/gohlslib/v2"
	"github.com/bluenviron/gohlslib/v2/pkg/codecs"
	"github.com/bluenviron/gohlslib/v2/pkg/storage"
	"github.com/bluenviron/mediacommon/v2/pkg/codecs/mpeg4audio"

	"verifharness/internal/rng"
)

type probeFactory struct {
	storage.Factory
	after func()
}

func (f *probeFactory) NewFile(name string) (storage.File, error) {
	fi, err := f.Factory.NewFile(name)
	if err != nil {
		return nil, err
	}
	return &probeFile{File: fi, after: f.after}, nil
}

type probeFile struct {
	storage.File
	after func()
}

func (f *probeFile) Remove() {
	f.File.Remove()
	f.after()
}

var reMediaURI = regexp.MustCompile(`(?m)^([A-Za-z0-9_]+_stream\.m3u8[^\n]*)$|URI="([A-Za-z0-9_]+_stream\.m3u8[^"]*)"`)

func runCloseLeg(cfg childCfg, resultPath string) {
	res := &childResult{Cfg: cfg, Requests: map[string]int{}, WriteErrors: map[string]int{}, ViolationInput: map[string]string{}, Hooks: map[string]int{}}
	a := &agg{res: res, seen: map[string]bool{}}
	r := rng.New(cfg.Seed, 7)

	vtrack := &gohlslib.Track{Codec: &codecs.H264{SPS: append([]byte{}, spsA...), PPS: []byte{0x08}}, ClockRate: 90000}
	atrack := &gohlslib.Track{Codec: &codecs.MPEG4Audio{Config: mpeg4audio.Config{Type: 2, SampleRate: 44100, ChannelCount: 2}}, ClockRate: 44100}
	m := &gohlslib.Muxer{Tracks: []*gohlslib.Track{vtrack, atrack}}
	segCount := 7
	switch cfg.Variant {
	case "mpegts":
		m.Variant = gohlslib.MuxerVariantMPEGTS
		segCount = 3
	case "fmp4":
		m.Variant = gohlslib.MuxerVariantFMP4
		segCount = 3
	case "ll":
		m.Variant = gohlslib.MuxerVariantLowLatency
	default:
		panic("bad variant")
	}
	m.SegmentCount = segCount
	m.OnEncodeError = func(error) {}
	if cfg.Storage == "dir" {
		os.MkdirAll(cfg.Dir, 0o755)
		m.Directory = cfg.Dir
	}
	gohlslib.VerifSetHook(nil)
	storage.VerifSetHook(nil)
	if err := m.Start(); err != nil {
		panic(err)
	}
	streams := []string{"video1", "audio2"}
	if cfg.Variant == "mpegts" {
		streams = []string{"main"}
	}

	rd := &reader{id: 0, m: m, cfg: cfg, streams: streams, segCount: segCount, a: a, r: r,
		hist: map[string]*history{}, last: map[string]*mediaPL{}, req: map[string]int{},
		hashes: map[string]bool{}, violInput: map[string]string{}}

	closing := false // written and read by the goroutine that calls Close (the hook runs inside it)
	probes := 0
	spawned := 0
	wedged := 0
	pending := make(chan struct{}, 1024)
	after := func() {
		if !closing || probes >= 64 {
			return
		}
		probes++
		spawned++
		done := make(chan struct{})
		go func() {
			defer func() { close(done); pending <- struct{}{} }()
			defer recoverInto(a, "close-probe")
			rd.probeDuringClose()
		}()
		select {
		case <-done:
		case <-time.After(1500 * time.Millisecond):
			// the request is blocked by Close itself: no answer, nothing promised; no further probe
			// (the blocked one still owns the reader state)
			wedged++
			probes = 1 << 20
		}
	}
	gohlslib.VerifWrapStorage(m, func(f storage.Factory) storage.Factory { return &probeFactory{Factory: f, after: after} })

	// a few seconds of media, ending at a random point of a segment / part
	frames := 100 + r.Intn(60)
	ntp := time.Date(2024, 1, 1, 0, 0, 0, 0, time.UTC)
	audioN := int64(0)
	for i := 0; i < frames; i++ {
		pts := int64(i) * 3000
		var au [][]byte
		if i%15 == 0 {
			au = [][]byte{spsA, {0x08}, append([]byte{5}, r.Bytes(20+r.Intn(100))...)}
		} else {
			au = [][]byte{append([]byte{1}, r.Bytes(10+r.Intn(60))...)}
		}
		if err := m.WriteH264(vtrack, ntp.Add(time.Duration(pts)*time.Second/90000), pts, au); err != nil {
			res.WriteErrors[err.Error()]++
		}
		res.Writes++
		for audioN*1024*90000/44100 <= pts {
			ap := audioN * 1024
			if err := m.WriteMPEG4Audio(atrack, ntp.Add(time.Duration(ap)*time.Second/44100), ap, [][]byte{r.Bytes(8 + r.Intn(40))}); err != nil {
				res.WriteErrors[err.Error()]++
			}
			res.Writes++
			audioN++
		}
	}

	// sanity: before Close every playlist is there and everything it lists can be fetched
	before := rd.probeDuringClose()
	if before == 0 {
		rd.violate([]violation{{"C08:harness:closeleg-no-content", "the close leg's muxer served no playlist before Close"}}, mustJSON(cfg))
	}
	preViol := len(rd.viol)

	closing = true
	func() {
		defer recoverInto(a, "close")
		m.Close()
	}()
	closing = false
	// probes still blocked when the closing goroutine stopped waiting finish once Close is over
	deadline := time.After(3 * time.Second)
	for i := 0; i < spawned; i++ {
		select {
		case <-pending:
		case <-deadline:
			i = spawned
		}
	}
	rd.req[fmt.Sprintf("close-leg-probes:%d", 0)] += spawned
	if wedged > 0 {
		rd.req["close-leg-probes-blocked-by-close:0"] += wedged
	}
	_ = preViol
	rd.merge()
	a.mu.Lock()
	j, _ := json.MarshalIndent(res, "", " ")
	a.mu.Unlock()
	os.WriteFile(resultPath, j, 0o644)
	if cfg.Storage == "dir" {
		os.RemoveAll(cfg.Dir)
	}
}

// probeDuringClose requests index.m3u8 and every media playlist; for each one answered 200 it
// fetches everything listed.  Returns the number of playlists answered 200.
func (rd *reader) probeDuringClose() int {
	n := 0
	want := "video/mp4"
	if rd.cfg.Variant == "mpegts" {
		want = "video/MP2T"
	}
	media := func(uri, via string) {
		code, _, body := rd.get(uri)
		rd.count("close-window-playlist", code)
		if code != 200 {
			if via != "" {
				rd.violate([]violation{{"C08:snapshot:close-window:listed-uri-not-fetchable:playlist",
					fmt.Sprintf("index.m3u8 answered 200 lists %s, which was answered %d at that moment", uri, code)}}, via)
			}
			return
		}
		n++
		rd.playlists200++
		input := "GET " + uri + " (while Close was releasing storage)\n" + body
		p, err := parseMedia(body)
		if err != nil {
			rd.violate([]violation{{"C08:snapshot:unparsable-playlist", err.Error()}}, input)
			return
		}
		fetch := func(u, what, ct string) {
			c, got, _ := rd.get(u)
			rd.fetches++
			rd.count("close-window-"+what, c)
			if c != 200 {
				rd.violate([]violation{{"C08:snapshot:close-window:listed-uri-not-fetchable:" + what,
					fmt.Sprintf("a media playlist answered 200 lists %s %s, which was answered %d at that moment: the response is not a snapshot of a muxer state in which every listed URI resolves", what, u, c)}}, input)
			} else if got != ct {
				rd.violate([]violation{{"C08:snapshot:listed-uri-content-type", fmt.Sprintf("%s %s has content type %q", what, u, got)}}, input)
			}
		}
		if p.Map != "" {
			fetch(p.Map, "init", "video/mp4")
		}
		for _, s := range p.Segs {
			if s.Gap {
				continue
			}
			fetch(s.URI, "segment", want)
			for _, pt := range s.Parts {
				fetch(pt.URI, "part", "video/mp4")
			}
		}
		for _, pt := range p.OpenParts {
			fetch(pt.URI, "part", "video/mp4")
		}
		rd.validated++
	}
	code, _, body := rd.get("index.m3u8")
	rd.count("close-window-multivariant", code)
	if code == 200 {
		n++
		rd.playlists200++
		via := "GET index.m3u8 (while Close was releasing storage)\n" + body
		for _, mm := range reMediaURI.FindAllStringSubmatch(body, -1) {
			u := mm[1]
			if u == "" {
				u = mm[2]
			}
			media(u, via)
		}
	}
	for _, sid := range rd.streams {
		media(sid+"_stream.m3u8", "")
	}
	return n
}
