// The stress itself (runs in a child process built with -race): one writer goroutine, many
// reader goroutines, yield hooks, finally Close.
package main

import (
	"crypto/sha256"
	"encoding/hex"
	"encoding/json"
	"fmt"
	"net/http"
	"net/http/httptest"
	"os"
	"runtime"
	"runtime/debug"
	"strconv"
	"strings"
	"sync"
	"sync/atomic"
	"time"

	"github.com/bluenviron/gohlslib/v2"
	"github.com/bluenviron/gohlslib/v2/pkg/codecs"
	"github.com/bluenviron/gohlslib/v2/pkg/storage"
	"github.com/bluenviron/mediacommon/v2/pkg/codecs/mpeg4audio"
	"github.com/bluenviron/mediacommon/v2/pkg/formats/fmp4"

	"verifharness/internal/rng"
)

// test vectors of /repo/muxer_test.go
var spsA = []byte{ // baseline, 1920x1080, no POC
	0x67, 0x42, 0xc0, 0x28, 0xd9, 0x00, 0x78, 0x02, 0x27, 0xe5, 0x84, 0x00, 0x00, 0x03, 0x00, 0x04,
	0x00, 0x00, 0x03, 0x00, 0xf0, 0x3c, 0x60, 0xc9, 0x20,
}
var spsB = []byte{ // high, 1280x720
	0x67, 0x64, 0x00, 0x1f, 0xac, 0xd9, 0x40, 0x50, 0x05, 0xbb, 0x01, 0x6c, 0x80, 0x00, 0x00, 0x03,
	0x00, 0x80, 0x00, 0x00, 0x1e, 0x07, 0x8c, 0x18, 0xcb,
}

// vectors of mediacommon's own tests
var h265VPS = []byte{0x40, 0x01, 0x0c, 0x01, 0xff, 0xff, 0x01, 0x60, 0x00, 0x00, 0x03, 0x00, 0x90, 0x00, 0x00, 0x03,
	0x00, 0x00, 0x03, 0x00, 0x78, 0x99, 0x98, 0x09}
var h265SPSA = []byte{0x42, 0x01, 0x01, 0x01, 0x60, 0x00, 0x00, 0x03, 0x00, 0x90, 0x00, 0x00, 0x03, 0x00, 0x00, 0x03,
	0x00, 0x78, 0xa0, 0x03, 0xc0, 0x80, 0x10, 0xe5, 0x96, 0x66, 0x69, 0x24, 0xca, 0xe0, 0x10, 0x00,
	0x00, 0x03, 0x00, 0x10, 0x00, 0x00, 0x03, 0x01, 0xe0, 0x80}
var h265SPSB = []byte{0x42, 0x01, 0x01, 0x04, 0x08, 0x00, 0x00, 0x03, 0x00, 0x98, 0x08, 0x00, 0x00, 0x03, 0x00, 0x00,
	0x5d, 0x90, 0x00, 0x50, 0x10, 0x05, 0xa2, 0x29, 0x4b, 0x74, 0x94, 0x98, 0x5f, 0xfe, 0x00, 0x02,
	0x00, 0x02, 0xd4, 0x04, 0x04, 0x04, 0x10, 0x00, 0x00, 0x03, 0x00, 0x10, 0x00, 0x00, 0x03, 0x01, 0xe0, 0x80}
var h265PPS = []byte{0x44, 0x1, 0xc1, 0x72, 0xb4, 0x62, 0x40}
var h265IDR = []byte{0x26, 0x1, 0xaf, 0x8, 0x42, 0x23, 0x48, 0x8a, 0x43, 0xe2}
var vp9KeyA = []byte{0x82, 0x49, 0x83, 0x42, 0x00, 0x77, 0xf0, 0x32, 0x34, 0x30, 0x38, 0x24, 0x1c, 0x19, 0x40, 0x18, 0x03, 0x40, 0x5f, 0xb4}
var vp9KeyB = []byte{0x82, 0x49, 0x83, 0x42, 0x40, 0xef, 0xf0, 0x86, 0xf4, 0x04, 0x21, 0xa0, 0xe0, 0x00, 0x30, 0x70, 0x00, 0x00, 0x00, 0x01}
var av1SeqA = []byte{8, 0, 0, 0, 66, 167, 191, 228, 96, 13, 0, 64}
var av1SeqB = []byte{10, 11, 0, 0, 0, 66, 167, 191, 230, 46, 223, 200, 66}

var knownParams = map[string]string{"avc1.42c028": "1920x1080", "avc1.64001f": "1280x720"}

type childCfg struct {
	Variant  string `json:"variant"`  // mpegts fmp4 ll
	Storage  string `json:"storage"`  // ram dir
	Seed     uint64 `json:"seed"`
	DurMS    int    `json:"dur_ms"`
	Scenario string `json:"scenario"` // normal dupdts
	Readers  int    `json:"readers"`
	Codec    string `json:"codec,omitempty"` // h264 (default) h265 vp9 av1
	Dir      string `json:"dir"`
}

type panicRec struct {
	Where string   `json:"where"`
	Msg   string   `json:"msg"`
	Stack []string `json:"stack"`
}

type childResult struct {
	Cfg            childCfg          `json:"cfg"`
	Requests       map[string]int    `json:"requests"` // kind:status
	Writes         int               `json:"writes"`
	WriteErrors    map[string]int    `json:"write_errors"`
	ParamChanges   int               `json:"param_changes"`
	Playlists200   int               `json:"playlists_200"`
	Validated      int               `json:"validated"`
	Fetches        int               `json:"fetches"`
	Hashes         []string          `json:"hashes"` // distinct non-trivial playlist bodies
	Samples        []string          `json:"samples"`
	Violations     []violation       `json:"violations"`
	ViolationInput map[string]string `json:"violation_input"`
	Panics         []panicRec        `json:"panics"`
	StuckReaders   int               `json:"stuck_readers"`
	Hooks          map[string]int    `json:"hooks"`
}

type agg struct {
	mu  sync.Mutex
	res *childResult
	seen map[string]bool
}

func mix(x uint64) uint64 {
	x += 0x9E3779B97F4A7C15
	x = (x ^ (x >> 30)) * 0xBF58476D1CE4E5B9
	x = (x ^ (x >> 27)) * 0x94D049BB133111EB
	return x ^ (x >> 31)
}

// hook yields at the verification points.  It must not synchronise goroutines with each other
// (that would hide races from the detector): its randomness comes from the clock, not from shared state.
func makeHook(seed uint64) func(string) {
	return func(point string) {
		x := mix(seed ^ uint64(time.Now().UnixNano()))
		switch point {
		case "server:looked-up", "partDisk:reader":
			switch x % 8 {
			case 0, 1, 2:
				runtime.Gosched()
			case 3, 4:
				time.Sleep(time.Duration(20+x%200) * time.Microsecond)
			case 5:
				time.Sleep(time.Duration(200+x%1500) * time.Microsecond)
			}
		case "rotateParts:unlocked", "rotateSegments:unlocked":
			if x%2 == 0 {
				runtime.Gosched()
			} else if x%8 == 1 {
				time.Sleep(time.Duration(10+x%100) * time.Microsecond)
			}
		case "close:broadcasted":
			time.Sleep(time.Duration(100+x%900) * time.Microsecond)
		}
	}
}

func recoverInto(a *agg, where string) {
	if r := recover(); r != nil {
		st := strings.Split(string(debug.Stack()), "\n")
		a.mu.Lock()
		a.res.Panics = append(a.res.Panics, panicRec{Where: where, Msg: fmt.Sprint(r), Stack: st})
		a.mu.Unlock()
	}
}

func runChild(cfg childCfg, resultPath string) {
	res := &childResult{Cfg: cfg, Requests: map[string]int{}, WriteErrors: map[string]int{}, ViolationInput: map[string]string{}, Hooks: map[string]int{}}
	a := &agg{res: res, seen: map[string]bool{}}

	vtrack := &gohlslib.Track{Codec: &codecs.H264{SPS: append([]byte{}, spsA...), PPS: []byte{0x08}}, ClockRate: 90000}
	switch cfg.Codec {
	case "", "h264":
	case "h265":
		vtrack.Codec = &codecs.H265{VPS: h265VPS, SPS: h265SPSA, PPS: h265PPS}
	case "vp9":
		vtrack.Codec = &codecs.VP9{Width: 1920, Height: 804, Profile: 0, BitDepth: 8, ChromaSubsampling: 1}
	case "av1":
		vtrack.Codec = &codecs.AV1{SequenceHeader: av1SeqA}
	default:
		panic("bad codec")
	}
	atrack := &gohlslib.Track{Codec: &codecs.MPEG4Audio{Config: mpeg4audio.Config{Type: 2, SampleRate: 44100, ChannelCount: 2}}, ClockRate: 44100}
	m := &gohlslib.Muxer{Tracks: []*gohlslib.Track{vtrack, atrack}}
	segCount := 7
	switch cfg.Variant {
	case "mpegts":
		m.Variant = gohlslib.MuxerVariantMPEGTS
		segCount = 3
	case "fmp4":
		m.Variant = gohlslib.MuxerVariantFMP4
		segCount = 3
	case "ll":
		m.Variant = gohlslib.MuxerVariantLowLatency
	default:
		panic("bad variant")
	}
	m.SegmentCount = segCount
	m.OnEncodeError = func(error) {}
	if cfg.Storage == "dir" {
		os.MkdirAll(cfg.Dir, 0o755)
		m.Directory = cfg.Dir
	}
	hook := makeHook(cfg.Seed)
	gohlslib.VerifSetHook(hook)
	storage.VerifSetHook(hook)
	if err := m.Start(); err != nil {
		panic(err)
	}
	streams := []string{"video1", "audio2"}
	if cfg.Variant == "mpegts" {
		streams = []string{"main"}
	}

	var stop, closing atomic.Bool
	var gate sync.RWMutex // writer: RLock around each Write; validator: Lock while it fetches what a playlist lists
	var wg sync.WaitGroup
	done := make(chan struct{})

	nReaders := cfg.Readers
	for i := 0; i < nReaders; i++ {
		wg.Add(1)
		rd := &reader{id: i, m: m, cfg: cfg, streams: streams, segCount: segCount, a: a, stop: &stop,
			r: rng.New(cfg.Seed, uint64(100+i)), hist: map[string]*history{}, last: map[string]*mediaPL{},
			req: map[string]int{}, validator: i < 2, gate: &gate, closing: &closing}
		go func() {
			defer wg.Done()
			rd.loop()
		}()
	}

	// writer
	wdone := make(chan struct{})
	go func() {
		defer close(wdone)
		defer recoverInto(a, "writer")
		writer(m, vtrack, atrack, cfg, &gate, res)
	}()
	<-wdone
	// Close while readers are still requesting
	closing.Store(true)
	func() {
		defer recoverInto(a, "close")
		gate.RLock()
		defer gate.RUnlock()
		m.Close()
	}()
	time.Sleep(20 * time.Millisecond)
	stop.Store(true)
	go func() { wg.Wait(); close(done) }()
	select {
	case <-done:
	case <-time.After(3 * time.Second):
		// C07's business (requests wedged by Close), not C08's: count and leave
		res.StuckReaders = 1
	}
	a.mu.Lock()
	j, _ := json.MarshalIndent(res, "", " ")
	a.mu.Unlock()
	os.WriteFile(resultPath, j, 0o644)
	if cfg.Storage == "dir" {
		os.RemoveAll(cfg.Dir)
	}
}

func writer(m *gohlslib.Muxer, vtrack, atrack *gohlslib.Track, cfg childCfg, gate *sync.RWMutex, res *childResult) {
	r := rng.New(cfg.Seed, 1)
	deadline := time.Now().Add(time.Duration(cfg.DurMS) * time.Millisecond)
	ntp := time.Date(2024, 1, 1, 0, 0, 0, 0, time.UTC)
	useB := false
	pps := byte(0x08)
	audioN := int64(0)
	wr := func(f func() error) {
		gate.RLock()
		err := f()
		gate.RUnlock()
		res.Writes++
		if err != nil {
			k := err.Error()
			if len(k) > 60 {
				k = k[:60]
			}
			res.WriteErrors[k]++
		}
	}
	frameDur := int64(3000) // 30 fps at 90 kHz
	if cfg.Scenario == "dupdts" {
		frameDur = 90000
	}
	pts := int64(0)
	sinceIDR := 0
	for i := 0; time.Now().Before(deadline); i++ {
		idr := useB || sinceIDR >= 15 || i == 0 || cfg.Scenario == "dupdts" || (cfg.Codec != "" && cfg.Codec != "h264")
		var au [][]byte
		change := false
		if idr && i > 0 && r.Bool(1, 6) {
			change = true
			if r.Bool(2, 3) {
				useB = !useB
			} else {
				pps ^= 0x01
			}
			res.ParamChanges++
		}
		if idr {
			sinceIDR = 0
			if change || i == 0 || r.Bool(1, 4) {
				if useB {
					au = append(au, spsB, []byte{pps})
				} else {
					au = append(au, spsA, []byte{pps})
				}
			}
			if useB {
				au = append(au, append([]byte{0x65, 0x88, 0x84, 0x00, 0x33, 0xff}, r.Bytes(r.Intn(300))...))
			} else {
				au = append(au, append([]byte{5}, r.Bytes(20+r.Intn(300))...))
			}
		} else {
			sinceIDR++
			au = append(au, append([]byte{1}, r.Bytes(10+r.Intn(200))...))
		}
		thisPTS := pts
		if cfg.Scenario == "dupdts" && change && i > 1 {
			// a parameter change arriving with the timestamp of the previous access unit:
			// the forced rotation closes a segment of duration zero
			thisPTS = pts - frameDur
		} else {
			pts += frameDur
		}
		t := ntp.Add(time.Duration(thisPTS) * time.Second / 90000)
		switch cfg.Codec {
		case "h265":
			sps := h265SPSA
			if useB {
				sps = h265SPSB
			}
			wr(func() error { return m.WriteH265(vtrack, t, thisPTS, [][]byte{h265VPS, sps, h265PPS, h265IDR}) })
		case "vp9":
			fr := vp9KeyA
			if useB {
				fr = vp9KeyB
			}
			wr(func() error { return m.WriteVP9(vtrack, t, thisPTS, fr) })
		case "av1":
			sh := av1SeqA
			if useB {
				sh = av1SeqB
			}
			wr(func() error { return m.WriteAV1(vtrack, t, thisPTS, [][]byte{sh}) })
		default:
			wr(func() error { return m.WriteH264(vtrack, t, thisPTS, au) })
		}
		// audio keeps up with the video clock
		for audioN*1024*90000/44100 <= thisPTS {
			n := 1 + r.Intn(2)
			var aus [][]byte
			for k := 0; k < n; k++ {
				aus = append(aus, r.Bytes(4+r.Intn(60)))
			}
			ap := audioN * 1024
			at := ntp.Add(time.Duration(ap) * time.Second / 44100)
			wr(func() error { return m.WriteMPEG4Audio(atrack, at, ap, aus) })
			audioN += int64(n)
		}
		switch r.Intn(8) {
		case 0, 1, 2:
			runtime.Gosched()
		case 3:
			time.Sleep(time.Duration(20+r.Intn(200)) * time.Microsecond)
		}
		if cfg.Scenario == "dupdts" {
			time.Sleep(300 * time.Microsecond)
		}
	}
}

// ---------------------------------------------------------------- readers

type reader struct {
	id        int
	m         *gohlslib.Muxer
	cfg       childCfg
	streams   []string
	segCount  int
	a         *agg
	stop      *atomic.Bool
	r         *rng.R
	hist      map[string]*history
	last      map[string]*mediaPL
	req       map[string]int
	validator bool
	gate      *sync.RWMutex
	closing   *atomic.Bool
	steps     int

	playlists200, validated, fetches int
	hashes                           map[string]bool
	samples                          []string
	viol                             []violation
	violInput                        map[string]string
}

// recorder notes whether the handler answered at all: Muxer.Handle leaves an unknown path
// untouched (a net/http server would then send an empty 200); that is reported as status 0.
type recorder struct {
	*httptest.ResponseRecorder
	answered bool
}

func (r *recorder) WriteHeader(code int) {
	r.answered = true
	r.ResponseRecorder.WriteHeader(code)
}

func (r *recorder) Write(b []byte) (int, error) {
	r.answered = true
	return r.ResponseRecorder.Write(b)
}

func (rd *reader) get(uri string) (int, string, string) {
	req, err := http.NewRequest(http.MethodGet, "http://h/"+uri, nil)
	if err != nil {
		panic(err)
	}
	w := &recorder{ResponseRecorder: httptest.NewRecorder()}
	rd.m.Handle(w, req)
	if !w.answered {
		return 0, "", ""
	}
	return w.Code, w.Header().Get("Content-Type"), w.Body.String()
}

// checkPartBody: whatever is served with 200 under the URI of part N - listed part or preload hint - is part N:
// exactly one fragment whose sequence number is N (round 10: C08-m14, the shared preload-hint handler takes the
// hinted part to be nextPartID at the moment it gets the muxer mutex, so a hint request that was looked up while
// the writer was completing its part returns the FOLLOWING part under the hinted URI).
func (rd *reader) checkPartBody(uri string, code int, body string, what string) {
	if code != 200 || body == "" {
		return
	}
	path := uri
	if i := strings.IndexByte(path, '?'); i >= 0 {
		path = path[:i]
	}
	i := strings.LastIndex(path, "_part")
	if i < 0 || !strings.HasSuffix(path, ".mp4") {
		return
	}
	n, err := strconv.ParseUint(path[i+len("_part"):len(path)-len(".mp4")], 10, 64)
	if err != nil {
		return
	}
	var ps fmp4.Parts
	if err := ps.Unmarshal([]byte(body)); err != nil {
		rd.violate([]violation{{"C08:snapshot:" + what + "-body-undecodable", fmt.Sprintf("GET %s: 200 with a body that is no fMP4 fragment: %v", uri, err)}}, "GET "+uri)
		return
	}
	if len(ps) != 1 || uint64(ps[0].SequenceNumber) != n {
		got := []uint32{}
		for _, p := range ps {
			got = append(got, p.SequenceNumber)
		}
		rd.violate([]violation{{"C08:snapshot:" + what + "-uri-serves-another-part", fmt.Sprintf("GET %s (part %d) returned fragment(s) with sequence number(s) %v", uri, n, got)}}, "GET "+uri)
	}
}

func (rd *reader) count(kind string, code int) {
	rd.req[fmt.Sprintf("%s:%d", kind, code)]++
}

func (rd *reader) violate(vs []violation, input string) {
	for _, v := range vs {
		if _, ok := rd.violInput[v.Sig]; !ok {
			rd.violInput[v.Sig] = input
			rd.viol = append(rd.viol, v)
		}
	}
}

func (rd *reader) loop() {
	rd.hashes = map[string]bool{}
	rd.violInput = map[string]string{}
	defer rd.merge()
	for !rd.stop.Load() {
		func() {
			defer recoverInto(rd.a, "reader")
			rd.step()
		}()
		rd.steps++
		if rd.steps%64 == 0 {
			// a reader wedged by Close (C07's business) would take its counters with it
			rd.merge()
		}
	}
}

// merge adds the reader's local counters to the shared result and clears them.
func (rd *reader) merge() {
	rd.a.mu.Lock()
	defer rd.a.mu.Unlock()
	res := rd.a.res
	for k, v := range rd.req {
		res.Requests[k] += v
	}
	rd.req = map[string]int{}
	res.Playlists200 += rd.playlists200
	res.Validated += rd.validated
	res.Fetches += rd.fetches
	rd.playlists200, rd.validated, rd.fetches = 0, 0, 0
	for h := range rd.hashes {
		if !rd.a.seen[h] {
			rd.a.seen[h] = true
			res.Hashes = append(res.Hashes, h)
		}
	}
	rd.hashes = map[string]bool{}
	if len(res.Samples) < 3 {
		res.Samples = append(res.Samples, rd.samples...)
		rd.samples = nil
	}
	for _, v := range rd.viol {
		if _, ok := res.ViolationInput[v.Sig]; !ok {
			res.ViolationInput[v.Sig] = rd.violInput[v.Sig]
			res.Violations = append(res.Violations, v)
		}
	}
	rd.viol = nil
}

func (rd *reader) step() {
	r := rd.r
	sid := rd.streams[r.Intn(len(rd.streams))]
	ll := rd.cfg.Variant == "ll"
	kind := r.Pick(3, 6, 3, 3, 2, 4, 4, 2, 2)
	switch kind {
	case 0: // multivariant
		q := ""
		if r.Bool(1, 3) {
			q = "?token=abc"
		}
		code, _, body := rd.get("index.m3u8" + q)
		rd.count("multivariant", code)
		if code == 200 {
			rd.playlists200++
			if rd.cfg.Codec == "" || rd.cfg.Codec == "h264" {
				rd.violate(checkMultivariant(body, knownParams), "GET index.m3u8"+q+"\n"+body)
			}
		}
	case 1: // media playlist, plain
		rd.playlist(sid, "", "playlist")
	case 2: // delta update
		if ll {
			rd.playlist(sid, "?_HLS_skip=YES", "playlist-delta")
		} else {
			rd.playlist(sid, "", "playlist")
		}
	case 3: // blocking reload
		if !ll {
			rd.playlist(sid, "", "playlist")
			return
		}
		p := rd.last[sid]
		if p == nil {
			rd.playlist(sid, "", "playlist")
			return
		}
		msn := p.MediaSeq + p.Skipped + int64(len(p.Segs)) // the open segment
		part := int64(len(p.OpenParts))
		switch r.Intn(6) {
		case 0:
			msn += 5 // far future: 400
		case 1:
			msn -= 1
			part = 0
		case 2:
			part++
		}
		rd.playlist(sid, fmt.Sprintf("?_HLS_msn=%d&_HLS_part=%d", msn, part), "playlist-blocking")
	case 4: // init
		if p := rd.last[sid]; p != nil && p.Map != "" {
			code, _, _ := rd.get(p.Map)
			rd.count("init", code)
		}
	case 5: // segment
		if p := rd.last[sid]; p != nil && len(p.Segs) > 0 {
			s := p.Segs[r.Intn(len(p.Segs))]
			if !s.Gap {
				code, _, _ := rd.get(s.URI)
				rd.count("segment", code)
			}
		}
	case 6: // part
		if p := rd.last[sid]; p != nil {
			var all []plPart
			for _, s := range p.Segs {
				all = append(all, s.Parts...)
			}
			all = append(all, p.OpenParts...)
			if len(all) > 0 {
				u := all[r.Intn(len(all))].URI
				code, _, body := rd.get(u)
				rd.count("part", code)
				rd.checkPartBody(u, code, body, "part")
			}
		}
	case 7: // preload hint (blocks until the part is complete)
		if p := rd.last[sid]; p != nil && p.PreloadHint != "" {
			code, _, body := rd.get(p.PreloadHint)
			rd.count("preload-hint", code)
			rd.checkPartBody(p.PreloadHint, code, body, "preload-hint")
		}
	case 8: // unknown
		u := "nope.mp4"
		if r.Bool(1, 2) {
			u = "abcdef_" + sid + "_seg999999.mp4"
		}
		code, _, body := rd.get(u)
		rd.count("unknown", code)
		if code == 200 && len(body) > 0 {
			rd.violate([]violation{{"C08:snapshot:unknown-uri-served", "unknown URI " + u + " returned media bytes"}}, "GET "+u)
		}
	}
}

func (rd *reader) playlist(sid, query, kind string) {
	uri := sid + "_stream.m3u8" + query
	code, _, body := rd.get(uri)
	rd.count(kind, code)
	if code != 200 {
		return
	}
	rd.playlists200++
	p, err := parseMedia(body)
	input := "GET " + uri + "\n" + body
	if err != nil {
		rd.violate([]violation{{"C08:snapshot:unparsable-playlist", err.Error()}}, input)
		return
	}
	rd.violate(checkMedia(p, rd.cfg.Variant, rd.segCount), input)
	h := rd.hist[sid]
	if h == nil {
		h = &history{}
		rd.hist[sid] = h
	}
	rd.violate(h.checkMonotone(p), input)
	if !p.HasSkip {
		rd.last[sid] = p
	}
	if len(p.Segs) >= 2 {
		sum := sha256.Sum256([]byte(body))
		hs := hex.EncodeToString(sum[:8])
		if !rd.hashes[hs] {
			rd.hashes[hs] = true
			if rd.steps < 64 && len(rd.samples) < 1 {
				rd.samples = append(rd.samples, input)
			}
		}
	}
	if rd.validator && rd.r.Bool(1, 3) {
		rd.validate(sid, p, input)
	}
}

// validate fetches what the playlist lists.  The playlist was obtained while the writer ran; the
// gate then stops the writer, a second (quiescent) playlist tells which media sequence numbers
// are still inside the window, and everything the first playlist listed that is still inside
// the window must be fetchable with the proper content type.
func (rd *reader) validate(sid string, p *mediaPL, input string) {
	rd.gate.Lock()
	defer rd.gate.Unlock()
	if rd.closing.Load() {
		return // Close removes everything; what was listed before it need not be there any more
	}
	code, _, body := rd.get(sid + "_stream.m3u8")
	if code != 200 {
		return
	}
	p2, err := parseMedia(body)
	if err != nil {
		return
	}
	rd.validated++
	want := "video/mp4"
	if rd.cfg.Variant == "mpegts" {
		want = "video/MP2T"
	}
	fetch := func(u, what, ct string) {
		code, got, _ := rd.get(u)
		rd.fetches++
		if code == 200 && got != ct {
			rd.violate([]violation{{"C08:snapshot:listed-uri-content-type", fmt.Sprintf("%s %s has content type %q", what, u, got)}}, input)
		}
		if code != 200 {
			rd.violate([]violation{{"C08:snapshot:listed-uri-not-fetchable:" + what,
				fmt.Sprintf("%s %s, listed by the playlist and still inside the window (media sequence now %d), returned %d", what, u, p2.MediaSeq, code)}}, input)
		}
	}
	if p.Map != "" {
		fetch(p.Map, "init", "video/mp4")
	}
	for _, s := range p.Segs {
		if s.Gap || s.MSN < p2.MediaSeq {
			continue
		}
		fetch(s.URI, "segment", want)
		for _, pt := range s.Parts {
			fetch(pt.URI, "part", "video/mp4")
		}
	}
	for _, pt := range p.OpenParts {
		fetch(pt.URI, "part", "video/mp4")
	}
}
