// Command race is the C08 stress harness.  The parent process (this file) runs seeded stress
// scenarios of the real Muxer in CHILD processes built with -race and GORACE="halt_on_error=0
// log_path=...", collects every race report and panic, normalises each race to
// (field, function of the write, function of the other access) through the translator's site
// table, and writes result.json + cases_0.v (the observed races, for the comparison with the
// generated access table).
package main

import (
	"bufio"
	"encoding/json"
	"flag"
	"fmt"
	"os"
	"os/exec"
	"path/filepath"
	"regexp"
	"sort"
	"strconv"
	"strings"
	"sync"
	"time"

	"verifharness/internal/coqfmt"
)

type siteRec struct {
	File  string `json:"file"`
	Line  int    `json:"line"`
	Fn    string `json:"fn"`
	Field string `json:"field"`
	Write bool   `json:"write"`
	Role  string `json:"role"`
}

type frame struct {
	Fn   string `json:"fn"`
	File string `json:"file"`
	Line int    `json:"line"`
}

type raceStack struct {
	Kind   string  `json:"kind"` // "Write", "Read", "Previous write", "Previous read"
	Frames []frame `json:"frames"`
}

type raceRep struct {
	Stacks []raceStack `json:"stacks"`
	Raw    string      `json:"raw"`
}

type failure struct {
	Signature string      `json:"signature"`
	What      string      `json:"what"`
	Input     interface{} `json:"input"`
}

var reAccess = regexp.MustCompile(`^(Write|Read|Previous write|Previous read|Atomic write|Atomic read|Previous atomic write|Previous atomic read) at 0x[0-9a-f]+ by `)
var reLoc = regexp.MustCompile(`^\s+(\S+\.go):(\d+)(?: \+0x[0-9a-f]+)?$`)

func parseRaceLog(path string) []raceRep {
	f, err := os.Open(path)
	if err != nil {
		return nil
	}
	defer f.Close()
	var reps []raceRep
	var cur *raceRep
	var curStack *raceStack
	var raw []string
	sc := bufio.NewScanner(f)
	sc.Buffer(make([]byte, 1<<20), 1<<24)
	var pendingFn string
	flush := func() {
		if cur != nil {
			if curStack != nil {
				cur.Stacks = append(cur.Stacks, *curStack)
			}
			cur.Raw = strings.Join(raw, "\n")
			if len(cur.Raw) > 6000 {
				cur.Raw = cur.Raw[:6000] + "\n[...]"
			}
			reps = append(reps, *cur)
		}
		cur, curStack, raw = nil, nil, nil
	}
	for sc.Scan() {
		ln := sc.Text()
		if strings.HasPrefix(ln, "WARNING: DATA RACE") {
			flush()
			cur = &raceRep{}
			continue
		}
		if cur == nil {
			continue
		}
		if strings.HasPrefix(ln, "==================") {
			flush()
			continue
		}
		raw = append(raw, ln)
		if m := reAccess.FindStringSubmatch(ln); m != nil {
			if curStack != nil {
				cur.Stacks = append(cur.Stacks, *curStack)
			}
			curStack = &raceStack{Kind: m[1]}
			continue
		}
		if strings.HasPrefix(ln, "Goroutine ") {
			if curStack != nil {
				cur.Stacks = append(cur.Stacks, *curStack)
				curStack = nil
			}
			continue
		}
		if curStack == nil {
			continue
		}
		if m := reLoc.FindStringSubmatch(ln); m != nil {
			n, _ := strconv.Atoi(m[2])
			curStack.Frames = append(curStack.Frames, frame{Fn: pendingFn, File: m[1], Line: n})
			pendingFn = ""
		} else if strings.HasPrefix(ln, "  ") {
			pendingFn = strings.TrimSpace(ln)
		}
	}
	flush()
	return reps
}

func shortFn(fn string) string {
	fn = strings.TrimSuffix(fn, "()")
	if i := strings.LastIndex(fn, "/"); i >= 0 {
		fn = fn[i+1:]
	}
	fn = strings.TrimPrefix(fn, "v2.")
	fn = strings.NewReplacer("(*", "", ")", "").Replace(fn)
	return fn
}

type siteIndex struct {
	repo  string
	byLoc map[string][]siteRec
}

func (si *siteIndex) rel(file string) (string, bool) {
	p := strings.TrimSuffix(si.repo, "/") + "/"
	if strings.HasPrefix(file, p) {
		return file[len(p):], true
	}
	return "", false
}

// locate returns the sites of the first frame of the stack that is an access site of the table.
func (si *siteIndex) locate(st raceStack) ([]siteRec, *frame) {
	for i := range st.Frames {
		fr := &st.Frames[i]
		rel, ok := si.rel(fr.File)
		if !ok {
			continue
		}
		if ss := si.byLoc[fmt.Sprintf("%s:%d", rel, fr.Line)]; len(ss) > 0 {
			return ss, fr
		}
		// the first frame inside the repository decides: a deeper frame is a caller, not the access
		return nil, fr
	}
	return nil, nil
}

func roleOf(st raceStack) string {
	for _, fr := range st.Frames {
		switch {
		case strings.Contains(fr.Fn, ".(*Muxer).Close"):
			return "closer"
		case strings.Contains(fr.Fn, ".(*Muxer).Write"):
			return "writer"
		case strings.Contains(fr.Fn, ".(*Muxer).Handle"):
			return "reader"
		case strings.Contains(fr.Fn, ".(*Muxer).Start"):
			return "init"
		}
	}
	return "?"
}

type normRace struct {
	Sig     string
	Field   string
	WFn     string
	OFn     string
	Tracked bool
	Harness bool // both accesses inside the harness itself
	Roles   string
}

func (si *siteIndex) normalise(r raceRep) normRace {
	if len(r.Stacks) < 2 {
		return normRace{Sig: "C08:race:unparsed-report"}
	}
	a, b := r.Stacks[0], r.Stacks[1]
	isW := func(k string) bool { return strings.Contains(strings.ToLower(k), "write") }
	sa, fa := si.locate(a)
	sb, fb := si.locate(b)
	if fa == nil && fb == nil {
		return normRace{Sig: "C08:race:outside-repository", Harness: true}
	}
	name := func(fr *frame, st raceStack) string {
		if fr != nil {
			return shortFn(fr.Fn)
		}
		if len(st.Frames) > 0 {
			return shortFn(st.Frames[0].Fn)
		}
		return "?"
	}
	roles := roleOf(a) + "/" + roleOf(b)
	pick := func(ss []siteRec, w bool) map[string]siteRec {
		m := map[string]siteRec{}
		for _, s := range ss {
			if s.Write == w {
				m[s.Field] = s
			}
		}
		if len(m) == 0 {
			for _, s := range ss {
				m[s.Field] = s
			}
		}
		return m
	}
	ma, mb := pick(sa, isW(a.Kind)), pick(sb, isW(b.Kind))
	var common []string
	for f := range ma {
		if _, ok := mb[f]; ok {
			common = append(common, f)
		}
	}
	sort.Strings(common)
	if len(common) == 0 {
		x, y := name(fa, a), name(fb, b)
		if !isW(a.Kind) && isW(b.Kind) {
			x, y = y, x
		}
		return normRace{Sig: "C08:race:untracked:" + x + "-vs-" + y, WFn: x, OFn: y, Roles: roles}
	}
	field := common[0]
	wfn, ofn := ma[field].Fn, mb[field].Fn
	if !isW(a.Kind) && isW(b.Kind) {
		wfn, ofn = ofn, wfn
	}
	return normRace{Sig: "C08:race:" + field + ":" + wfn + "-vs-" + ofn, Field: field, WFn: wfn, OFn: ofn, Tracked: true, Roles: roles}
}

type runSpec struct {
	Cfg childCfg
	Idx int
}

type runOut struct {
	Spec   runSpec
	Res    *childResult
	Races  []raceRep
	Stderr string
	Exit   int
	Err    string
}

func runOne(self string, sp runSpec, out string, timeout time.Duration) runOut {
	dir := filepath.Join(out, fmt.Sprintf("run%d", sp.Idx))
	os.RemoveAll(dir)
	os.MkdirAll(dir, 0o755)
	sp.Cfg.Dir = filepath.Join(dir, "segments")
	cj, _ := json.Marshal(sp.Cfg)
	resPath := filepath.Join(dir, "child.json")
	cmd := exec.Command(self, "-child", string(cj), "-child-result", resPath)
	cmd.Env = append(os.Environ(), "GORACE=halt_on_error=0 history_size=3 log_path="+filepath.Join(dir, "race"))
	var eb strings.Builder
	cmd.Stderr = &eb
	cmd.Stdout = &eb
	ro := runOut{Spec: sp}
	if err := cmd.Start(); err != nil {
		ro.Err = err.Error()
		return ro
	}
	donec := make(chan error, 1)
	go func() { donec <- cmd.Wait() }()
	select {
	case err := <-donec:
		if err != nil {
			if ee, ok := err.(*exec.ExitError); ok {
				ro.Exit = ee.ExitCode()
			} else {
				ro.Err = err.Error()
			}
		}
	case <-time.After(timeout):
		cmd.Process.Kill()
		<-donec
		ro.Err = "child timed out"
	}
	ro.Stderr = eb.String()
	if b, err := os.ReadFile(resPath); err == nil {
		var cr childResult
		if json.Unmarshal(b, &cr) == nil {
			ro.Res = &cr
		}
	}
	logs, _ := filepath.Glob(filepath.Join(dir, "race.*"))
	for _, l := range logs {
		ro.Races = append(ro.Races, parseRaceLog(l)...)
	}
	os.RemoveAll(sp.Cfg.Dir)
	return ro
}

var rePanicNorm = regexp.MustCompile(`[^a-z0-9]+`)

func panicSig(msg string, stack []string, repo string) (string, string) {
	m := strings.ToLower(msg)
	m = strings.TrimPrefix(m, "runtime error: ")
	if i := strings.Index(m, "\n"); i >= 0 {
		m = m[:i]
	}
	m = strings.Trim(rePanicNorm.ReplaceAllString(m, "-"), "-")
	if len(m) > 60 {
		m = m[:60]
	}
	// first frame inside the repository after the panic call
	top := "?"
	seenPanic := false
	for i := 0; i+1 < len(stack); i++ {
		if strings.HasPrefix(stack[i], "panic(") {
			seenPanic = true
			continue
		}
		if !seenPanic {
			continue
		}
		if strings.Contains(stack[i+1], strings.TrimSuffix(repo, "/")+"/") && !strings.HasPrefix(stack[i], "\t") {
			fn := stack[i]
			if j := strings.LastIndex(fn, "("); j >= 0 {
				fn = fn[:j]
			}
			top = shortFn(fn)
			break
		}
	}
	return "C08:panic:" + m + ":" + top, top
}

func main() {
	child := flag.String("child", "", "(internal) run one stress with this JSON configuration")
	childRes := flag.String("child-result", "", "(internal) where the child writes its result")
	seed := flag.Uint64("seed", 0, "seed")
	tier := flag.String("tier", "quick", "quick|thorough")
	out := flag.String("out", "", "output directory")
	sites := flag.String("sites", "", "sites.json written by tools/lockset")
	repo := flag.String("repo", "/repo", "path of the repository the binary was built from")
	replay := flag.String("replay", "", "replay file")
	widen := flag.Bool("widen", false, "bigger search")
	jobs := flag.Int("j", 3, "children in parallel")
	flag.Parse()

	if *child != "" {
		var cfg childCfg
		if err := json.Unmarshal([]byte(*child), &cfg); err != nil {
			panic(err)
		}
		if cfg.Scenario == "closeleg" {
			runCloseLeg(cfg, *childRes)
		} else {
			runChild(cfg, *childRes)
		}
		return
	}
	if *out == "" || *sites == "" {
		fmt.Fprintln(os.Stderr, "need -out and -sites")
		os.Exit(2)
	}
	os.MkdirAll(*out, 0o755)
	si := &siteIndex{repo: *repo, byLoc: map[string][]siteRec{}}
	{
		b, err := os.ReadFile(*sites)
		if err != nil {
			panic(err)
		}
		var sj struct {
			Sites []siteRec `json:"sites"`
		}
		if err := json.Unmarshal(b, &sj); err != nil {
			panic(err)
		}
		for _, s := range sj.Sites {
			k := fmt.Sprintf("%s:%d", s.File, s.Line)
			si.byLoc[k] = append(si.byLoc[k], s)
		}
	}
	self, _ := os.Executable()

	// the schedule of runs
	var specs []runSpec
	add := func(v, st, sc string, sd uint64, dur int) {
		specs = append(specs, runSpec{Cfg: childCfg{Variant: v, Storage: st, Seed: sd, DurMS: dur, Scenario: sc, Readers: 8}, Idx: len(specs)})
	}
	rounds, dur, ddur := 1, 3000, 2000
	if *tier == "thorough" {
		rounds, dur, ddur = 5, 8000, 5000
	}
	if *widen {
		rounds, dur = rounds*2, dur*3/2
	}
	maxTries := 1
	if *replay != "" {
		b, err := os.ReadFile(*replay)
		if err != nil {
			panic(err)
		}
		var rp struct {
			Signature string `json:"signature"`
			Input     struct {
				Cfg childCfg `json:"cfg"`
			} `json:"input"`
		}
		if err := json.Unmarshal(b, &rp); err != nil {
			panic(err)
		}
		c := rp.Input.Cfg
		if c.Variant == "" {
			fmt.Fprintln(os.Stderr, "replay file has no input.cfg")
			os.Exit(2)
		}
		// a schedule cannot be replayed exactly: the same configuration is run up to 6 times
		for k := 0; k < 6; k++ {
			specs = append(specs, runSpec{Cfg: c, Idx: k})
		}
		maxTries = 6
		_ = maxTries
	} else {
		for k := 0; k < rounds; k++ {
			sd := *seed*1000 + uint64(k)
			for _, v := range []string{"ll", "fmp4", "mpegts"} {
				for _, st := range []string{"dir", "ram"} {
					add(v, st, "normal", sd, dur)
				}
			}
			add("fmp4", "ram", "dupdts", sd, ddur)
			add("ll", "dir", "dupdts", sd, ddur)
			// requests overlapping Close on Directory storage (deterministic window, see closeleg.go)
			for _, v := range []string{"ll", "fmp4", "mpegts"} {
				add(v, "dir", "closeleg", sd, 0)
				add(v, "dir", "closeleg", sd+500, 0)
			}
			add("fmp4", "ram", "closeleg", sd, 0)
			// the other video codecs (their parameter fields are in the table too)
			for i, cd := range []string{"h265", "vp9", "av1"} {
				v, st := "fmp4", "ram"
				if (int(sd)+i)%2 == 1 {
					v, st = "ll", "dir"
				}
				specs = append(specs, runSpec{Cfg: childCfg{Variant: v, Storage: st, Seed: sd, DurMS: ddur, Scenario: "normal", Readers: 8, Codec: cd}, Idx: len(specs)})
			}
			if *tier == "thorough" {
				add("mpegts", "ram", "dupdts", sd, ddur)
				add("ll", "ram", "dupdts", sd, ddur)
			}
		}
	}

	outs := make([]runOut, len(specs))
	var wg sync.WaitGroup
	sem := make(chan struct{}, *jobs)
	for i := range specs {
		wg.Add(1)
		go func(i int) {
			defer wg.Done()
			sem <- struct{}{}
			defer func() { <-sem }()
			outs[i] = runOne(self, specs[i], *out, time.Duration(specs[i].Cfg.DurMS)*time.Millisecond+60*time.Second)
		}(i)
	}
	wg.Wait()

	// ---- collect
	var failures []failure
	seenSig := map[string]bool{}
	var errs []string
	dist := map[string]int{}
	hashes := map[string]bool{}
	var samples []string
	evaluations := 0
	traces := 0
	var observed [][3]string
	obsSeen := map[string]bool{}
	raceCount := map[string]int{}
	stuck := 0
	for _, ro := range outs {
		c := ro.Spec.Cfg
		cfgName := fmt.Sprintf("%s/%s/%s", c.Variant, c.Storage, c.Scenario)
		if c.Codec != "" {
			cfgName += "/" + c.Codec
		}
		repro := fmt.Sprintf("work/bin/race_race -child '%s' -child-result /dev/null  (GORACE=\"halt_on_error=0\"; several runs may be needed)", mustJSON(c))
		if ro.Err != "" {
			errs = append(errs, cfgName+": "+ro.Err+" "+tail(ro.Stderr, 1500))
			continue
		}
		if ro.Res == nil {
			// the child died: an unrecovered panic or a fatal runtime error
			msg, st := crashInfo(ro.Stderr)
			sig, top := panicSig(msg, st, *repo)
			sig = strings.Replace(sig, "C08:panic:", "C08:crash:", 1)
			if msg == "" {
				errs = append(errs, fmt.Sprintf("%s: child exited %d without a result: %s", cfgName, ro.Exit, tail(ro.Stderr, 1500)))
				continue
			}
			if !seenSig[sig] {
				seenSig[sig] = true
				failures = append(failures, failure{sig, "the process died: " + msg + " (first frame in the library: " + top + ")",
					map[string]interface{}{"cfg": c, "reproduce": repro, "stderr_tail": tail(ro.Stderr, 4000)}})
			}
			continue
		}
		traces++
		res := ro.Res
		if res.StuckReaders > 0 {
			stuck++
		}
		for k, v := range res.Requests {
			dist["request:"+k] += v
			evaluations += v
		}
		dist["writes"] += res.Writes
		dist["param_changes"] += res.ParamChanges
		dist["playlists_200"] += res.Playlists200
		dist["validated_playlists"] += res.Validated
		dist["fetches_of_listed_uris"] += res.Fetches
		dist["runs:"+cfgName]++
		for k, v := range res.WriteErrors {
			dist["write_error:"+k] += v
		}
		for _, h := range res.Hashes {
			hashes[h] = true
		}
		if len(samples) < 3 && len(res.Samples) > 0 {
			samples = append(samples, fmt.Sprintf("[%s seed %d] %s", cfgName, c.Seed, res.Samples[0]))
		}
		for _, v := range res.Violations {
			if !seenSig[v.Sig] {
				seenSig[v.Sig] = true
				failures = append(failures, failure{v.Sig, v.What + " [" + cfgName + "]",
					map[string]interface{}{"cfg": c, "reproduce": repro, "response": res.ViolationInput[v.Sig]}})
			}
		}
		for _, p := range res.Panics {
			sig, top := panicSig(p.Msg, p.Stack, *repo)
			dist["panic:"+sig]++
			if !seenSig[sig] {
				seenSig[sig] = true
				st := p.Stack
				if len(st) > 40 {
					st = st[:40]
				}
				failures = append(failures, failure{sig, fmt.Sprintf("panic in the %s goroutine: %s (first frame in the library: %s) [%s]", p.Where, p.Msg, top, cfgName),
					map[string]interface{}{"cfg": c, "reproduce": repro, "stack": st}})
			}
		}
		for _, rr := range ro.Races {
			n := si.normalise(rr)
			if n.Harness {
				errs = append(errs, "race report with both stacks outside the repository (harness bug?): "+tail(rr.Raw, 1500))
				continue
			}
			raceCount[n.Sig]++
			dist["race:"+n.Sig]++
			if n.Tracked {
				k := n.Field + "|" + n.WFn + "|" + n.OFn
				if !obsSeen[k] {
					obsSeen[k] = true
					observed = append(observed, [3]string{n.Field, n.WFn, n.OFn})
				}
			}
			if !seenSig[n.Sig] {
				seenSig[n.Sig] = true
				what := fmt.Sprintf("data race reported by the Go race detector (%s) between %s (write) and %s on %s [%s]", n.Roles, n.WFn, n.OFn, n.Field, cfgName)
				if !n.Tracked {
					what = fmt.Sprintf("data race reported by the Go race detector (%s) between %s and %s, not at an access site of the table [%s]", n.Roles, n.WFn, n.OFn, cfgName)
				}
				failures = append(failures, failure{n.Sig, what,
					map[string]interface{}{"cfg": c, "reproduce": repro, "stacks": rr.Stacks, "report": rr.Raw, "tracked": n.Tracked}})
			}
		}
	}
	sort.Slice(failures, func(i, j int) bool { return failures[i].Signature < failures[j].Signature })
	sort.Slice(observed, func(i, j int) bool { return strings.Join(observed[i][:], "|") < strings.Join(observed[j][:], "|") })

	// ---- cases_0.v: the observed (tracked) races
	{
		var sb strings.Builder
		sb.WriteString("From Coq Require Import List String.\n")
		sb.WriteString("From GoHls Require Import Model.LocksetFindings Tie.LocksetTie.\n")
		sb.WriteString("Import ListNotations. Open Scope string_scope.\n")
		var cs []string
		for _, o := range observed {
			cs = append(cs, fmt.Sprintf("(%s, %s, %s)", coqfmt.Str(o[0]), coqfmt.Str(o[1]), coqfmt.Str(o[2])))
		}
		sb.WriteString("Definition cases : list finding := " + coqfmt.List(cs) + ".\n")
		sb.WriteString("Definition M := Eval vm_compute in mismatches cases.\nPrint M.\n")
		os.WriteFile(filepath.Join(*out, "cases_0.v"), []byte(sb.String()), 0o644)
	}
	if stuck > 0 {
		dist["runs_with_readers_wedged_after_close(C07)"] = stuck
	}
	res := map[string]interface{}{
		"evaluations":         evaluations,
		"distinct_nontrivial": len(hashes),
		"rule": "one evaluation = one HTTP request handled by the real Muxer while the writer goroutine is running (kinds and statuses in the distribution); " +
			"distinct_nontrivial = distinct (SHA-256) bodies of 200 media-playlist responses listing >= 2 segments, each judged by the single-playlist oracle",
		"samples":         samples,
		"distribution":    dist,
		"oracle_failures": failures,
		"observed_races":  observed,
		"race_counts":     raceCount,
		"errors":          errs,
		"traces_validated_against_impl": traces,
	}
	j, _ := json.MarshalIndent(res, "", " ")
	os.WriteFile(filepath.Join(*out, "result.json"), j, 0o644)
	fmt.Printf("race harness: %d runs, %d requests, %d distinct non-trivial playlists, %d distinct failures, %d infrastructure errors\n",
		len(outs), evaluations, len(hashes), len(failures), len(errs))
	for _, f := range failures {
		fmt.Println("  " + f.Signature)
	}
}

func mustJSON(v interface{}) string {
	b, _ := json.Marshal(v)
	return string(b)
}

func tail(s string, n int) string {
	if len(s) > n {
		return "[...]" + s[len(s)-n:]
	}
	return s
}

// crashInfo extracts "panic: msg" / "fatal error: msg" and the stack of the crashing goroutine.
func crashInfo(stderr string) (string, []string) {
	lines := strings.Split(stderr, "\n")
	for i, l := range lines {
		if strings.HasPrefix(l, "panic: ") || strings.HasPrefix(l, "fatal error: ") {
			msg := strings.TrimPrefix(strings.TrimPrefix(l, "panic: "), "fatal error: ")
			st := []string{"panic("}
			for _, x := range lines[i+1:] {
				st = append(st, x)
				if len(st) > 60 {
					break
				}
			}
			return msg, st
		}
	}
	return "", nil
}
