// Command mux drives the real gohlslib.Muxer with generated configurations and write
// histories, prints the implementation's observable trace in the encoding of coq/Tie/MuxTie.v,
// runs the extracted Coq model on the same abstract histories, compares the two traces line by
// line (T leg) and applies the property oracles of C01-C05, C16, C18 (S leg).
package main

import (
	"bufio"
	"bytes"
	"crypto/sha256"
	"encoding/hex"
	"encoding/json"
	"flag"
	"fmt"
	"os"
	"os/exec"
	"path/filepath"
	"runtime"
	"sort"
	"strconv"
	"strings"
	"sync"

	gohlslib "github.com/bluenviron/gohlslib/v2"

	"verifharness/internal/rng"
)

func modelInput(h *history) string {
	var sb strings.Builder
	fmt.Fprintf(&sb, "CFG %d %d %d %d %d\n", h.Variant, h.SegCount, h.SegMin, h.PartMin, h.SegMax)
	for _, t := range h.Tracks {
		fmt.Fprintf(&sb, "T %d %d %d %d %d %d %d\n", t.Kind, t.Rate, t.SRate, t.Name, t.Lang, b2i(t.Default), t.Params0)
	}
	for _, a := range h.Ops {
		fmt.Fprintf(&sb, "W %d %d %d %d %d %d %d %d %d", a.Track, a.PTS, a.DTS, a.NTP, b2i(a.RA), b2i(a.NonIDR),
			b2i(a.HasParams), a.Params, len(a.Units))
		for _, u := range a.Units {
			fmt.Fprintf(&sb, " %d %d %d %d", u.ID, u.FSize, u.TSize, u.OpusDur)
		}
		sb.WriteByte('\n')
	}
	sb.WriteString("END\n")
	return sb.String()
}

func lineStr(l []int64) string {
	parts := make([]string, len(l))
	for i, v := range l {
		parts[i] = strconv.FormatInt(v, 10)
	}
	return strings.Join(parts, " ")
}

var lineProps = map[string][]string{
	"0": {"C16"},
	"1": {"C01", "C02", "C03", "C04", "C05", "C16", "C18"},
	"2": {"C01", "C02", "C03", "C04", "C05", "C16", "C18"},
	"3": {"C03", "C04"},
	"4": {"C16"},
	"5": {"C05", "C18"},
	"6": {"C01", "C02"},
	"7": {"C01", "C02"},
}

type mismatch struct {
	Case       int      `json:"case"`
	LineType   string   `json:"line_type"`
	Props      []string `json:"props"`
	Model      string   `json:"model"`
	Impl       string   `json:"impl"`
	LineNumber int      `json:"line_number"`
}

type caseOut struct {
	h     history
	res   *runResult
	fails []failure
	lines []string
}

func main() {
	seed := flag.Uint64("seed", 0, "seed")
	tier := flag.String("tier", "quick", "quick|thorough")
	out := flag.String("out", "", "output directory")
	replay := flag.String("replay", "", "replay file (JSON with .input = a history)")
	n := flag.Int("n", 0, "number of histories (0 = tier default)")
	model := flag.String("model", "", "path of the extracted model binary (empty = skip the T leg)")
	prop := flag.String("prop", "", "report only this property's oracle failures / mismatches (empty = all)")
	corpus := flag.String("corpus", "", "directory of minimised past failures (*.json with .input), run first")
	flag.Parse()
	if *out == "" {
		fmt.Fprintln(os.Stderr, "need -out")
		os.Exit(2)
	}
	os.MkdirAll(*out, 0o755)
	selfCheckCodecs()
	selfCheckH264()

	count := *n
	if count == 0 {
		count = 260
		if *tier == "thorough" {
			count = 4000
		}
	}
	var hs []history
	// histories of the search-only legs, outside the model (no T leg): injected storage faults (C18
	// retention and C04 playlist-history oracles), init-file regeneration failures (C04), slow readers (C05)
	var fhs []history
	var shs []history // slow-reader leg: run one after the other on a single P
	if *replay != "" {
		raw, err := os.ReadFile(*replay)
		if err != nil {
			panic(err)
		}
		var rp struct {
			Input history `json:"input"`
		}
		if err := json.Unmarshal(raw, &rp); err != nil {
			panic(err)
		}
		hs = []history{rp.Input}
		if rp.Input.outsideModel() {
			hs, fhs = nil, []history{rp.Input}
		}
		if rp.Input.Leg == "slow-reader" {
			fhs, shs = nil, []history{rp.Input}
		}
	} else {
		// corpus first
		var files []string
		if *corpus != "" {
			files, _ = filepath.Glob(filepath.Join(*corpus, "*.json"))
		}
		sort.Strings(files)
		for _, f := range files {
			raw, err := os.ReadFile(f)
			if err != nil {
				continue
			}
			var rp struct {
				Input history `json:"input"`
			}
			if json.Unmarshal(raw, &rp) == nil && len(rp.Input.Tracks) > 0 {
				hs = append(hs, rp.Input)
			}
		}
		for i := 0; i < count; i++ {
			r := rng.New(*seed, uint64(i))
			long := (*tier == "thorough" && i%40 == 0) || (*tier == "quick" && i%65 == 0)
			hs = append(hs, genHistory(r, long))
		}
	}
	if *replay == "" && (*prop == "" || *prop == "C18" || *prop == "C04" || *prop == "C01" || *prop == "C05") {
		// (C01: the write-fault histories in which every Write returned nil all the same)
		// Storage faults are outside C18's quantifier; this leg exercises the error paths of a rotation
		// on single-stream MPEG-TS / fMP4 muxers, where the unchanged code recovers from a failed file
		// creation (with several streams or in Low-Latency mode it panics: DESIGN.md 12.3, observation O1).
		nf := count / 5
		for i := 0; i < nf; i++ {
			var h history
			var r *rng.R
			for try := 0; try < 40; try++ {
				r = rng.New(*seed^0xFA17FA17, uint64(i*40+try))
				h = genHistory(r, *tier == "thorough" && i%25 == 0)
				if len(h.Tracks) == 1 {
					break
				}
			}
			if len(h.Tracks) != 1 {
				continue
			}
			if i%3 == 2 && h.Variant == 1 {
				// MPEG-TS, Directory: a disk that is full now and then - Write calls on the segment file fail (the
				// flush when a segment is closed among them); the segment that could not be closed must not stay
				// behind in Directory
				h.Disk = true
				for k := 3; k < 4000; k++ {
					if r.Bool(1, 25) {
						h.WriteFaults = append(h.WriteFaults, k)
					}
				}
				fhs = append(fhs, h)
				continue
			}
			// each NewFile call after the first two fails with probability 1/6; one history in three also loses the
			// second call (the segment the first rotation opens)
			if r.Fork(0xF1257).Bool(1, 3) {
				h.Faults = append(h.Faults, 1)
			}
			for k := 2; k < 600; k++ {
				if r.Bool(1, 6) {
					h.Faults = append(h.Faults, k)
				}
			}
			fhs = append(fhs, h)
		}
	}
	if *replay == "" && (*prop == "" || *prop == "C04" || *prop == "C18") {
		// (C18: retention - segments, Directory, URL table - stays bounded across the failed rotation)
		// Init-file regeneration failures (a malformed in-band SPS) are outside the model as well; on
		// single-stream fMP4 muxers the unchanged code recovers, and the playlist-history oracle of C04
		// must keep holding across the failed rotation.
		nf := count / 5
		for i := 0; i < nf; i++ {
			for try := 0; try < 40; try++ {
				r := rng.New(*seed^0x1417FA11, uint64(i*40+try))
				h := genHistory(r, false)
				if genInitFailure(r, &h) {
					h.Disk = r.Fork(0xD15C).Bool(1, 2)
					fhs = append(fhs, h)
					break
				}
			}
		}
	}
	if *replay == "" && (*prop == "" || *prop == "C05") {
		// Requests that overlap the writer (slow.go): Low-Latency histories, two in three with Directory
		ns := count / 5
		for i := 0; i < ns; i++ {
			for try := 0; try < 40; try++ {
				r := rng.New(*seed^0x5108EAD, uint64(i*40+try))
				h := genHistory(r, false)
				if h.Variant == 3 {
					h.Disk = r.Bool(2, 3)
					h.Leg = "slow-reader"
					shs = append(shs, h)
					break
				}
			}
		}
	}
	for i := range shs {
		annotate(&shs[i])
	}
	for i := range hs {
		annotate(&hs[i])
	}
	for i := range fhs {
		annotate(&fhs[i])
	}

	installHookDispatcher()
	outs := make([]caseOut, len(hs))
	var wg sync.WaitGroup
	sem := make(chan struct{}, 14)
	for i := range hs {
		wg.Add(1)
		sem <- struct{}{}
		go func(i int) {
			defer wg.Done()
			defer func() { <-sem }()
			dir := filepath.Join(*out, "disk", strconv.Itoa(i))
			res := runImpl(&hs[i], dir)
			os.RemoveAll(dir)
			co := caseOut{h: hs[i], res: res}
			for _, l := range res.lines {
				co.lines = append(co.lines, lineStr(l))
			}
			co.fails = runOracles(&hs[i], res)
			outs[i] = co
		}(i)
	}
	fouts := make([]caseOut, len(fhs))
	for i := range fhs {
		wg.Add(1)
		sem <- struct{}{}
		go func(i int) {
			defer wg.Done()
			defer func() { <-sem }()
			dir := filepath.Join(*out, "disk", "f"+strconv.Itoa(i))
			res := runImpl(&fhs[i], dir)
			os.RemoveAll(dir)
			fouts[i] = caseOut{h: fhs[i], res: res, fails: runOracles(&fhs[i], res)}
		}(i)
	}
	wg.Wait()
	if len(shs) > 0 {
		// one P: a request woken by the writer runs only when the writer's goroutine blocks (slow.go)
		procs := runtime.GOMAXPROCS(1)
		hintEntered := make(chan struct{}, 16)
		gohlslib.VerifSetHook(func(point string) {
			if point == "wait:preload-hint" {
				select {
				case hintEntered <- struct{}{}:
				default:
				}
			}
		})
		for i := range shs {
			dir := filepath.Join(*out, "disk", "s"+strconv.Itoa(i))
			res := runSlow(&shs[i], dir, hintEntered)
			os.RemoveAll(dir)
			fouts = append(fouts, caseOut{h: shs[i], res: res, fails: runOracles(&shs[i], res)})
		}
		gohlslib.VerifSetHook(nil)
		runtime.GOMAXPROCS(procs)
	}
	os.RemoveAll(filepath.Join(*out, "disk"))

	{
		var tb bytes.Buffer
		for _, co := range outs {
			for _, l := range co.lines {
				tb.WriteString(l)
				tb.WriteByte('\n')
			}
			tb.WriteString("#\n")
		}
		os.WriteFile(filepath.Join(*out, "impl_trace.txt"), tb.Bytes(), 0o644)
	}

	// T leg
	var mismatches []mismatch
	modelRan := false
	if *model != "" {
		var in bytes.Buffer
		for i := range hs {
			in.WriteString(modelInput(&hs[i]))
		}
		os.WriteFile(filepath.Join(*out, "model_input.txt"), in.Bytes(), 0o644)
		cmd := exec.Command(*model)
		cmd.Stdin = &in
		var mo bytes.Buffer
		cmd.Stdout = &mo
		cmd.Stderr = os.Stderr
		if err := cmd.Run(); err != nil {
			fmt.Fprintln(os.Stderr, "model run failed:", err)
			os.Exit(3)
		}
		modelRan = true
		sc := bufio.NewScanner(&mo)
		sc.Buffer(make([]byte, 1<<20), 1<<28)
		ci := 0
		var cur []string
		flush := func() {
			if ci >= len(outs) {
				return
			}
			impl := outs[ci].lines
			nl := len(cur)
			if len(impl) > nl {
				nl = len(impl)
			}
			for j := 0; j < nl; j++ {
				a, b := "<missing>", "<missing>"
				if j < len(cur) {
					a = cur[j]
				}
				if j < len(impl) {
					b = impl[j]
				}
				if a != b {
					lt := strings.SplitN(a, " ", 2)[0]
					if a == "<missing>" {
						lt = strings.SplitN(b, " ", 2)[0]
					}
					mismatches = append(mismatches, mismatch{Case: ci, LineType: lt, Props: lineProps[lt], Model: a, Impl: b, LineNumber: j})
					break
				}
			}
			ci++
			cur = nil
		}
		for sc.Scan() {
			l := sc.Text()
			if l == "#" {
				flush()
				continue
			}
			cur = append(cur, l)
		}
		if ci != len(outs) {
			fmt.Fprintf(os.Stderr, "model produced %d traces for %d histories\n", ci, len(outs))
			os.Exit(3)
		}
	}

	// report
	seen := map[string]bool{}
	distinct := 0
	dist := map[string]int{}
	var samples []json.RawMessage
	type failOut struct {
		Signature string          `json:"signature"`
		What      string          `json:"what"`
		Input     json.RawMessage `json:"input"`
		Prop      string          `json:"prop"`
	}
	var fails []failOut
	type mmOut struct {
		Observable string          `json:"observable"`
		Detail     string          `json:"detail"`
		Input      json.RawMessage `json:"input"`
		Props      []string        `json:"props"`
	}
	var mms []mmOut
	inputs := make([]json.RawMessage, len(outs))
	traces := 0
	for i, co := range outs {
		j, _ := json.Marshal(co.h)
		inputs[i] = j
		sum := sha256.Sum256(j)
		hs := hex.EncodeToString(sum[:8])
		segs := 0
		for _, rot := range co.res.rotations {
			if rot.segRotated {
				segs++
			}
		}
		nontrivial := segs >= 2 && len(co.res.rotations) >= 3
		if !seen[hs] {
			seen[hs] = true
			if nontrivial {
				distinct++
				if len(samples) < 2 && len(co.h.Ops) < 60 {
					samples = append(samples, j)
				}
			}
		}
		traces += len(co.lines)
		dist["variant:"+variantName(co.h.Variant)]++
		dist[fmt.Sprintf("tracks:%d", len(co.h.Tracks))]++
		{
			vk := "video:none"
			for _, t := range co.h.Tracks {
				dist["track-codec:"+kindLabel(t.Kind)]++
				if isVideoKind(t.Kind) {
					vk = "video:" + kindLabel(t.Kind)
				}
			}
			dist[vk+"/"+variantName(co.h.Variant)]++
			if nontrivial {
				dist["nontrivial-"+vk]++
			}
		}
		for k, v := range co.h.Stats {
			dist["gen:"+k] += v
		}
		for _, t := range co.h.Tracks {
			if t.Kind == kAV1 {
				ids := map[int64]bool{t.Params0: true}
				for _, a := range co.h.Ops {
					if a.HasParams && co.h.Tracks[a.Track].Kind == kAV1 {
						ids[a.Params] = true
					}
				}
				for id := range ids {
					if av1Gs[pg(id)].colorDesc {
						dist["av1:sequence-header-with-colour-description"]++
					} else {
						dist["av1:sequence-header-without-colour-description"]++
					}
				}
			}
		}
		if co.h.H264Reorder {
			dist["h264:slice-headers-and-poc-type-0/"+variantName(co.h.Variant)]++
		}
		if co.h.Disk {
			dist["storage:disk"]++
		} else {
			dist["storage:ram"]++
		}
		if co.res.startErr {
			dist["start:rejected"]++
		}
		if co.h.VariantUnset {
			dist["start:variant-left-unset"]++
		}
		dist[fmt.Sprintf("segments_published:%s", bucket(segs))]++
		dist[fmt.Sprintf("rotations:%s", bucket(len(co.res.rotations)))]++
		for _, rc := range co.res.results {
			if rc == 12 {
				dist["write:max-size-error"]++
			} else if rc != 0 {
				dist["write:other-error"]++
			}
		}
		for _, f := range co.fails {
			if *prop != "" && f.Prop != *prop {
				continue
			}
			fails = append(fails, failOut{Signature: f.Signature, What: f.What, Input: j, Prop: f.Prop})
		}
	}
	faultWrites := 0
	for _, co := range fouts {
		j, _ := json.Marshal(co.h)
		if co.h.Leg == "slow-reader" {
			for _, s := range co.res.slow {
				switch {
				case s.kind == "download" && s.listedEnd:
					dist["slow-reader:download-across-writes:"+kindName(s.ukind)]++
				case s.kind == "download":
					dist["slow-reader:download-unlisted-before-release"]++
				case s.kind == "hint" && s.status == 200:
					dist[fmt.Sprintf("slow-reader:hint-request-resumed-after-%d-rotations", s.rotations)]++
				}
			}
			if co.h.Disk {
				dist["slow-reader-histories:disk"]++
			} else {
				dist["slow-reader-histories:ram"]++
			}
		}
		if co.h.Leg != "" {
			dist[co.h.Leg+"-histories"]++
			for _, rc := range co.res.results {
				if rc == 11 {
					dist[co.h.Leg+"-writes-failed"]++
				}
			}
		} else {
			dist["storage-fault-histories"]++
			for _, rc := range co.res.results {
				if rc == 11 {
					faultWrites++
				}
			}
		}
		for _, f := range co.fails {
			if *prop != "" && f.Prop != *prop {
				continue
			}
			fails = append(fails, failOut{Signature: f.Signature, What: f.What, Input: j, Prop: f.Prop})
		}
	}
	if dist["storage-fault-histories"] > 0 {
		dist["storage-fault-writes-failed"] = faultWrites
	}
	for _, m := range mismatches {
		if *prop != "" {
			ok := false
			for _, p := range m.Props {
				if p == *prop {
					ok = true
				}
			}
			if !ok {
				continue
			}
		}
		mms = append(mms, mmOut{Observable: "mux-trace-line-" + m.LineType,
			Detail: fmt.Sprintf("history %d, trace line %d: model `%s` vs implementation `%s`", m.Case, m.LineNumber, trunc(m.Model), trunc(m.Impl)),
			Input:  inputs[m.Case], Props: m.Props})
	}
	// smallest failing inputs first
	sort.SliceStable(fails, func(a, b int) bool { return len(fails[a].Input) < len(fails[b].Input) })
	sort.SliceStable(mms, func(a, b int) bool { return len(mms[a].Input) < len(mms[b].Input) })
	if len(samples) == 0 && len(inputs) > 0 {
		samples = append(samples, inputs[0])
	}
	res := map[string]interface{}{
		"evaluations":         len(outs),
		"distinct_nontrivial": distinct,
		"rule": "configurations and write histories from splitmix64(seed, index): variant x track set (0-1 video: H264 / H265 / VP9 / AV1 on the fMP4 variants, H264 on MPEG-TS plus rejected MPEG-TS configurations with the other three; 0-3 AAC/Opus audio, any order) x SegmentCount x SegmentMinDuration x PartMinDuration x SegmentMaxSize x RAM/disk; " +
			"30-230 writes (long histories: 1500-3000) with jitter, equal DTS, mid-GOP and negative starts, multi-AU audio, parameter changes (H264/H265 on any unit, VP9/AV1 on key frames / sequence headers), H265 picture reordering (pts - dts of 0-4 frame ticks), " +
			"H264 picture reordering (two in three H264 histories: real slice headers, pic_order_cnt_type 0 parameter sets with 0-3 B pictures between anchors, POC wrap, frame / field-style POC numbering; the abstract dts is what mediacommon's h264.DTSExtractor returns for the concrete units), " +
			"AV1 sequence headers with and without an explicit colour description, boundary aiming (one history in three: random-access units of the leading track exactly at / one tick before / one tick after the tick at which SegmentMinDuration is reached, Low-Latency also at the frozen part duration, segment starts on arbitrary ticks), cross-track skew; " +
			"a video track with a 1 MHz / 10 MHz (MPEG-TS also 1 GHz) clock in one history with video in five, three in four of those with the rounding aim (random-access units, on Low-Latency also plain units after a frozen picture, placed so that segment / part durations fall within 7 us below, at or above a whole number of seconds or of tenths of a second; counted under gen:fine-clock:*); " +
			"audio renditions with colliding names in one multi-audio fMP4 / Low-Latency configuration in three (the same user-given Name on two or all audio tracks; a user-given Name equal to the fallback name audio<n> of another track without one); distinct by SHA-256 of the history; " +
			"non-trivial = at least 2 segments published and at least 3 rotations; " +
			"C18 and C04 only: in addition evaluations/5 single-stream MPEG-TS / fMP4 histories in which each storage NewFile call fails with probability 1/6 (retention oracle of C18 and playlist-history oracle of C04 only, outside the model; counted under storage-fault-histories, not under evaluations); " +
			"C04 only: in addition evaluations/5 single-stream fMP4 H264 histories with 1-3 windows that open with a lone malformed SPS and continue with IDR units without in-band parameter sets, so that one init-file regeneration fails and that WriteH264 returns an error (playlist-history oracle only, outside the model; counted under init-failure-histories); " +
			"C05 only: in addition evaluations/5 Low-Latency histories (two in three with Directory) driven on one P with requests that overlap the writer: downloads of listed parts / segments / init files whose ResponseWriter blocks in its first Write until the segment has been completed and 1-3 further parts written, and (RAM storage) requests for the preload-hint URI that wait for the part and resume after two part rotations; required: same bytes as when first fetched while still listed, fragment sequence number = part number (outside the model; counted under slow-reader-histories)",
		"samples":                       samples,
		"distribution":                  dist,
		"oracle_failures":               fails,
		"mismatches":                    mms,
		"model_ran":                     modelRan,
		"traces_validated_against_impl": traces,
	}
	jj, _ := json.MarshalIndent(res, "", " ")
	os.WriteFile(filepath.Join(*out, "result.json"), jj, 0o644)
	fmt.Printf("mux harness: %d histories, %d distinct non-trivial, %d oracle failures, %d model mismatches\n",
		len(outs), distinct, len(fails), len(mms))
}

func trunc(s string) string {
	if len(s) > 400 {
		return s[:400] + "..."
	}
	return s
}

func kindLabel(k int) string {
	return map[int]string{kH264: "h264", kH265: "h265", kVP9: "vp9", kAV1: "av1", kAAC: "aac", kOpus: "opus"}[k]
}

func bucket(n int) string {
	switch {
	case n == 0:
		return "0"
	case n < 3:
		return "1-2"
	case n < 10:
		return "3-9"
	case n < 50:
		return "10-49"
	case n < 300:
		return "50-299"
	}
	return "300+"
}
