package main

import (
	"net/url"
	"bytes"
	"crypto/sha256"
	"encoding/hex"
	"fmt"
	"math/big"
	"sort"
	"strconv"
	"strings"

	"github.com/bluenviron/mediacommon/v2/pkg/codecs/h264"
	"github.com/bluenviron/mediacommon/v2/pkg/formats/fmp4"
)

// The S leg: every check below is written from the property text over what the harness wrote
// (res.written, the configuration) and what it got back through Muxer.Handle. Nothing here uses
// the Coq model or the muxer's internals (the snapshot is used only where a property speaks about
// retention on disk / in the URL table).

type failure struct {
	Prop      string `json:"prop"`
	Signature string `json:"signature"`
	What      string `json:"what"`
}

type oracleCtx struct {
	h     *history
	r     *runResult
	fails []failure
	seen  map[string]bool
}

func (o *oracleCtx) fail(prop, sig, what string, args ...interface{}) {
	key := prop + "|" + sig
	if o.seen[key] {
		return
	}
	o.seen[key] = true
	o.fails = append(o.fails, failure{Prop: prop, Signature: prop + ":" + sig, What: fmt.Sprintf(what, args...)})
}

func variantName(v int) string { return map[int]string{1: "mpegts", 2: "fmp4", 3: "ll"}[v] }

func effSegCount(h *history) int {
	if h.SegCount == 0 {
		return 7
	}
	return h.SegCount
}
func effSegMin(h *history) int64 {
	if h.SegMin == 0 {
		return 1e9
	}
	return h.SegMin
}
func effSegMax(h *history) int64 {
	if h.SegMax == 0 {
		return 50 * 1024 * 1024
	}
	return h.SegMax
}

func leadingTrack(h *history) int {
	for i, t := range h.Tracks {
		if isVideoKind(t.Kind) {
			return i
		}
	}
	return 0
}

// exact rational media time: ticks * 1e9 / rate, as a big.Rat
func ticksToNs(ticks, rate int64) *big.Rat {
	return new(big.Rat).SetFrac(new(big.Int).Mul(big.NewInt(ticks), big.NewInt(1e9)), big.NewInt(rate))
}
func ratAbsDiffLE(a *big.Rat, b int64, tol int64) bool {
	d := new(big.Rat).Sub(a, new(big.Rat).SetInt64(b))
	d.Abs(d)
	return d.Cmp(new(big.Rat).SetInt64(tol)) <= 0
}

// eligible units of a track: those the property counts as written access units
func eligible(h *history, r *runResult, t int) []written {
	var out []written
	rate := h.Tracks[t].Rate
	for _, w := range r.written[t] {
		if !w.sliced {
			continue // a unit without picture data (parameter sets / SEI only)
		}
		if h.Variant != 1 && w.dts+10*rate < 0 {
			continue // fMP4: earlier than -10 s, silently rejected by design
		}
		out = append(out, w)
	}
	return out
}

type trackDecoded struct {
	ids      []int64
	payloads [][]byte
	// fMP4: absolute sample time (track clock, with the +10 s), duration, pts offset, nonsync
	time, dur, ptsoff []int64
	nonsync           []bool
	// MPEG-TS: 90 kHz pts / dts, ra
	pts90, dts90 []int64
	ra           []bool
	segOf        []int // index of the published segment (0-based, in publication order)
	partOf       []int // index of the finalized part
}

// per-stream list of finalized parts with the segment they belong to
type partRec struct {
	rot   int
	seg   int
	p     dpart
	first bool // first part of its segment
}

func collectParts(r *runResult, si int) []partRec {
	var out []partRec
	firstSeg := int64(-1)
	for ri, rot := range r.rotations {
		if si >= len(rot.newParts) {
			continue
		}
		for _, rec := range rot.newParts[si] {
			if firstSeg < 0 {
				firstSeg = rec.segID
			}
			out = append(out, partRec{rot: ri, seg: int(rec.segID - firstSeg), p: rec.p, first: rec.firstInSeg})
		}
	}
	return out
}

func decodedOfTrack(h *history, r *runResult, t int) trackDecoded {
	var d trackDecoded
	if h.Variant == 1 {
		seg := 0
		for _, rot := range r.rotations {
			if !rot.segRotated || len(rot.newTS) == 0 {
				continue
			}
			for _, u := range rot.newTS[0] {
				if u.track != t {
					continue
				}
				for j := range u.ids {
					d.ids = append(d.ids, u.ids[j])
					d.payloads = append(d.payloads, u.payloads[j])
					d.pts90 = append(d.pts90, u.pts)
					d.dts90 = append(d.dts90, u.dts)
					d.ra = append(d.ra, u.ra)
					d.segOf = append(d.segOf, seg)
				}
			}
			seg++
		}
		return d
	}
	for pi, pr := range collectParts(r, t) {
		tm := pr.p.base
		for _, s := range pr.p.samples {
			d.ids = append(d.ids, s.id)
			d.payloads = append(d.payloads, s.payload)
			d.time = append(d.time, tm)
			d.dur = append(d.dur, s.dur)
			d.ptsoff = append(d.ptsoff, s.ptsoff)
			d.nonsync = append(d.nonsync, s.nonsync)
			d.segOf = append(d.segOf, pr.seg)
			d.partOf = append(d.partOf, pi)
			tm += s.dur
		}
	}
	return d
}

func mulDivGo(v, m, d int64) int64 { return (v/d)*m + (v%d)*m/d }

// does the written unit carry parameter sets for its (video) track? H264 / H265: any unit with
// in-band SPS/PPS(/VPS) NALUs; VP9: a key frame (its header is the parameter set); AV1: a temporal
// unit with a sequence header, which is also what makes it random access.
func carriesParams(kind int, a *auA) bool {
	switch kind {
	case kH264, kH265:
		return a.HasParams
	case kVP9, kAV1:
		return a.RA
	}
	return false
}

// does the decoded init track describe parameter id p of a track of this kind?
// second result: the init's codec is of the track's kind at all
func initCarries(h *history, kind int, c fmp4.Codec, p int64) (bool, bool) {
	switch kind {
	case kH264:
		c, ok := c.(*fmp4.CodecH264)
		return ok && bytes.Equal(c.SPS, spsOf(h, p)) && bytes.Equal(c.PPS, ppsOf(p)), ok
	case kH265:
		c, ok := c.(*fmp4.CodecH265)
		return ok && bytes.Equal(c.VPS, h265VPSOf(p)) && bytes.Equal(c.SPS, h265SPSOf(p)) && bytes.Equal(c.PPS, h265PPSOf(p)), ok
	case kVP9:
		c, ok := c.(*fmp4.CodecVP9)
		v := vp9ParamsOf(p)
		return ok && c.Width == v.w && c.Height == v.h && c.Profile == v.profile && c.BitDepth == v.bitDepth &&
			c.ChromaSubsampling == v.subsampling && c.ColorRange == v.colorRange, ok
	case kAV1:
		c, ok := c.(*fmp4.CodecAV1)
		// av1C carries the configuration OBUs in the low-overhead format (with obu_size)
		return ok && bytes.Equal(av1WithSize(c.SequenceHeader), av1WithSize(av1SeqHdrOf(p))), ok
	case kAAC:
		_, ok := c.(*fmp4.CodecMPEG4Audio)
		return ok, ok
	case kOpus:
		_, ok := c.(*fmp4.CodecOpus)
		return ok, ok
	}
	return false, false
}

// ---------------------------------------------------------------- C01
func (o *oracleCtx) c01() {
	h, r := o.h, o.r
	vn := variantName(h.Variant)
	lead := leadingTrack(h)
	// the decoded units below are read from what the muxer RETAINS (snapshot); a unit is preserved for a client only
	// if its segment is ADVERTISED: the playlist of the same instant lists every retained segment (round 10: C01-m14,
	// playlist generators skipping segments whose duration is not positive)
	if len(h.Faults) == 0 && len(h.WriteFaults) == 0 && h.Leg == "" {
		for _, rot := range r.rotations {
			for si, pm := range rot.playlists {
				if pm == nil || pm.err != "" || si >= len(rot.snap.Streams) {
					continue
				}
				if n := rot.snap.Streams[si].SegmentCount; len(pm.segs) != n {
					o.fail("C01", vn+":retained-segment-not-advertised", "stream %d after write %d: the muxer retains %d segments, the playlist of the same instant lists %d", si, rot.k, n, len(pm.segs))
				}
			}
		}
	}
	for t := range h.Tracks {
		W := eligible(h, r, t)
		D := decodedOfTrack(h, r, t)
		if len(D.ids) == 0 {
			continue
		}
		kind := h.Tracks[t].Kind
		rate := h.Tracks[t].Rate
		// locate the start
		s := -1
		for i, w := range W {
			if w.id == D.ids[0] {
				s = i
				break
			}
		}
		if s < 0 {
			o.fail("C01", vn+":invented-unit", "track %d: first decoded unit id %d was never written", t, D.ids[0])
			continue
		}
		// start point
		want := -1
		switch {
		case t == lead && isVideoKind(kind):
			for i, w := range W {
				if w.ra {
					want = i
					break
				}
			}
		case t == lead:
			want = 0
		default:
			for i := range W {
				if h.Variant == 1 {
					if W[i].op > r.firstOpen {
						want = i
						break
					}
				} else if i+1 < len(W) && W[i+1].op > r.firstOpen {
					want = i
					break
				}
			}
		}
		if want >= 0 && s != want {
			o.fail("C01", vn+":start-point", "track %d (kind %d): decoded run starts at written unit #%d (id %d), the stream's start point is unit #%d (id %d)",
				t, kind, s, W[s].id, want, W[want].id)
		}
		for i := range D.ids {
			if s+i >= len(W) {
				o.fail("C01", vn+":invented-unit", "track %d: more units decoded than written", t)
				break
			}
			w := W[s+i]
			if D.ids[i] != w.id {
				o.fail("C01", vn+":order-loss-dup", "track %d: decoded unit %d has id %d, expected id %d (gap, duplicate or reorder)", t, i, D.ids[i], w.id)
				break
			}
			if !bytes.Equal(D.payloads[i], w.payload) {
				o.fail("C01", vn+":bytes", "track %d: unit id %d is not byte-identical (%d vs %d bytes)", t, w.id, len(D.payloads[i]), len(w.payload))
				break
			}
			if h.Variant == 1 {
				if D.pts90[i] != mulDivGo(w.pts, 90000, rate)&0x1ffffffff || D.dts90[i] != mulDivGo(w.dts, 90000, rate)&0x1ffffffff {
					// multi-AU audio writes carry one PES timestamp for the whole write
					if !(kind == kAAC) {
						o.fail("C01", vn+":timestamps", "track %d unit id %d: pts/dts %d/%d, written %d/%d at rate %d", t, w.id, D.pts90[i], D.dts90[i], w.pts, w.dts, rate)
						break
					}
				}
				if isVideoKind(kind) && D.ra[i] != w.ra {
					o.fail("C01", vn+":sync-flag", "track %d unit id %d: random-access flag %v, written %v", t, w.id, D.ra[i], w.ra)
					break
				}
				continue
			}
			if D.time[i] != w.dts+10*rate {
				o.fail("C01", vn+":decode-time", "track %d unit id %d: decode time %d, written dts %d + 10 s = %d", t, w.id, D.time[i], w.dts, w.dts+10*rate)
				break
			}
			if D.ptsoff[i] != w.pts-w.dts {
				o.fail("C01", vn+":pts-offset", "track %d unit id %d: pts offset %d, written %d", t, w.id, D.ptsoff[i], w.pts-w.dts)
				break
			}
			if s+i+1 < len(W) && D.dur[i] != (W[s+i+1].dts-w.dts)&0xffffffff {
				o.fail("C01", vn+":duration", "track %d unit id %d: duration %d, next written dts - dts = %d", t, w.id, D.dur[i], W[s+i+1].dts-w.dts)
				break
			}
			wantNS := false
			if isVideoKind(kind) {
				wantNS = !w.ra
			}
			if D.nonsync[i] != wantNS {
				o.fail("C01", vn+":sync-flag", "track %d unit id %d: non-sync %v, written random access %v", t, w.id, D.nonsync[i], w.ra)
				break
			}
		}
		// contiguous base times between consecutive fragments
		if h.Variant != 1 {
			var end int64
			have := false
			for _, pr := range collectParts(r, t) {
				if !pr.p.hasTrack {
					continue
				}
				if have && pr.p.base != end {
					o.fail("C01", vn+":base-time-contiguity", "track %d: fragment seq %d has base time %d, previous fragment ended at %d", t, pr.p.seq, pr.p.base, end)
					break
				}
				end = pr.p.base
				for _, sm := range pr.p.samples {
					end += sm.dur
				}
				have = true
			}
		}
	}
}

// ---------------------------------------------------------------- C02
type boundaryPrediction struct {
	ids       []int64 // id of the leading unit that starts each segment (first = stream start)
	ambiguous map[int64]bool
	forced    map[int64]bool
}

// predicted segment starts from the write log alone
func predictBoundaries(h *history, r *runResult, observedStarts map[int64]bool) boundaryPrediction {
	lead := leadingTrack(h)
	kind := h.Tracks[lead].Kind
	rate := h.Tracks[lead].Rate
	bp := boundaryPrediction{ambiguous: map[int64]bool{}, forced: map[int64]bool{}}
	cur := h.Tracks[lead].Params0
	pending := false
	started := false
	var segStart int64
	segMin := effSegMin(h)
	audioWrites := 0
	lastOp := -1
	for _, w := range r.written[lead] {
		changed := false
		if isVideoKind(kind) {
			if w.hasPar && w.params != cur {
				pending = true
				cur = w.params
			}
			if w.ra && pending {
				pending = false
				changed = true
			}
		}
		if !w.sliced {
			continue
		}
		if h.Variant != 1 && w.dts+10*rate < 0 {
			continue
		}
		if !started {
			if isVideoKind(kind) && !w.ra {
				continue
			}
			started = true
			segStart = w.dts
			bp.ids = append(bp.ids, w.id)
			audioWrites = 0
			lastOp = w.op
			if !isVideoKind(kind) {
				audioWrites = 1
			}
			continue
		}
		elapsed := ticksToNs(w.dts-segStart, rate)
		reached := elapsed.Cmp(new(big.Rat).SetInt64(segMin)) >= 0
		near := ratAbsDiffLE(elapsed, segMin, 2)
		due := false
		if h.Variant == 1 && !isVideoKind(kind) {
			// audio-only MPEG-TS: needs 100 writes in the open segment as well; evaluated once per write call
			if w.op != lastOp {
				due = audioWrites >= 100 && reached
				if due {
					audioWrites = 0
				}
				audioWrites++
				lastOp = w.op
			}
		} else {
			due = w.ra && (changed || reached)
			if w.ra && !changed && near {
				bp.ambiguous[w.id] = true
				due = observedStarts[w.id] // sub-nanosecond rounding at the exact boundary: follow the implementation
			}
		}
		if due {
			segStart = w.dts
			bp.ids = append(bp.ids, w.id)
			if changed {
				bp.forced[w.id] = true
			}
		}
	}
	return bp
}

func (o *oracleCtx) c02() {
	h, r := o.h, o.r
	vn := variantName(h.Variant)
	lead := leadingTrack(h)
	D := decodedOfTrack(h, r, lead)
	if len(D.ids) == 0 {
		return
	}
	// observed starts: first leading unit of each published segment
	var obs []int64
	obsSet := map[int64]bool{}
	lastSeg := -1
	for i := range D.ids {
		if D.segOf[i] != lastSeg {
			lastSeg = D.segOf[i]
			obs = append(obs, D.ids[i])
			obsSet[D.ids[i]] = true
			ra := false
			if h.Variant == 1 {
				ra = D.ra[i]
			} else {
				ra = !D.nonsync[i]
			}
			if isVideoKind(h.Tracks[lead].Kind) && !ra {
				o.fail("C02", vn+":segment-not-starting-with-random-access", "published segment #%d starts with leading unit id %d which is not random access", lastSeg, D.ids[i])
			}
		}
	}
	if h.Variant == 1 {
		for _, rot := range r.rotations {
			if rot.segRotated && len(rot.tablesOK) > 0 && len(rot.newTS[0]) > 0 && !rot.tablesOK[0] {
				o.fail("C02", "mpegts:no-pat-pmt-at-start", "a published .ts segment does not begin with PAT/PMT (write %d)", rot.k)
			}
		}
	}
	bp := predictBoundaries(h, r, obsSet)
	for i, id := range obs {
		if i >= len(bp.ids) {
			o.fail("C02", vn+":cut-not-due", "segment #%d starts at leading unit id %d although no cut was due there", i, id)
			break
		}
		if bp.ids[i] != id {
			what := "cut-skipped-or-misplaced"
			o.fail("C02", vn+":"+what, "segment #%d starts at leading unit id %d; by SegmentMinDuration / parameter changes it is due at unit id %d", i, id, bp.ids[i])
			break
		}
	}
	// a cut that is due and whose segment should be complete by now must have happened:
	// predicted starts strictly before the last observed one are covered above; the number of
	// published segments must be at least predicted-1 (the last predicted one may still be open)
	if len(obs) < len(bp.ids)-1 {
		o.fail("C02", vn+":cut-skipped", "%d segments published but %d cuts were due", len(obs), len(bp.ids)-1)
	}

	// init segment contents
	if h.Variant != 1 {
		cur := make([]int64, len(h.Tracks))
		pending := false
		for i, t := range h.Tracks {
			cur[i] = t.Params0
		}
		opAt := 0
		// the segment most recently published at each rotation (leading stream) and its first unit
		segFirstID := map[int]int64{}
		lastSegAt := map[int]int{}
		{
			lastSeen := -1
			byRot := map[int]int{}
			for _, pr := range collectParts(r, lead) {
				if _, ok := segFirstID[pr.seg]; !ok && len(pr.p.samples) > 0 {
					segFirstID[pr.seg] = pr.p.samples[0].id
				}
				byRot[pr.rot] = pr.seg
			}
			for ri, rot := range r.rotations {
				if sg, ok := byRot[ri]; ok && rot.segRotated {
					lastSeen = sg
				}
				if lastSeen >= 0 {
					lastSegAt[ri] = lastSeen
				}
			}
		}
		for ri, rot := range r.rotations {
			for ; opAt <= rot.k && opAt < len(h.Ops); opAt++ {
				a := h.Ops[opAt]
				if k := h.Tracks[a.Track].Kind; isVideoKind(k) {
					if carriesParams(k, &a) && a.Params != cur[a.Track] {
						cur[a.Track] = a.Params
						pending = true
					}
					if a.RA && pending {
						pending = false
					}
				}
			}
			for si, pm := range rot.playlists {
				if pm == nil || pm.err != "" || pm.mapURI == "" {
					continue
				}
				var body []byte
				for _, p := range rot.probes {
					if p.uri == pm.mapURI {
						body = p.resp.body
					}
				}
				var init fmp4.Init
				if err := init.Unmarshal(bytes.NewReader(body)); err != nil {
					o.fail("C02", vn+":init-undecodable", "stream %d: init segment does not decode: %v", si, err)
					continue
				}
				t := h.Tracks[si]
				wantTS := int64(90000)
				if t.Kind == kAAC {
					wantTS = t.SRate
				} else if t.Kind == kOpus {
					wantTS = 48000
				}
				if len(init.Tracks) != 1 || init.Tracks[0].ID != 1 || int64(init.Tracks[0].TimeScale) != wantTS {
					o.fail("C02", vn+":init-tracks", "stream %d: init declares %d tracks (id/timescale mismatch, want id 1 timescale %d)", si, len(init.Tracks), wantTS)
					continue
				}
				carries, sameKind := initCarries(h, t.Kind, init.Tracks[0].Codec, cur[si])
				if !sameKind {
					o.fail("C02", vn+":init-codec", "stream %d: the init segment declares a %T for a track of kind %d", si, init.Tracks[0].Codec, t.Kind)
					continue
				}
				// the same question for a reader scheduled right after the rotation released the mutex (the init
				// must already be the new one there: the playlist it reads lists the segment)
				for _, wo := range rot.window {
					if wo.si != si || !isVideoKind(t.Kind) || !rot.segRotated || pending {
						continue
					}
					var wi fmp4.Init
					if err := wi.Unmarshal(bytes.NewReader(wo.init)); err != nil || len(wi.Tracks) != 1 {
						o.fail("C02", vn+":init-undecodable:in-rotation-window", "stream %d: the init segment served right after the rotation does not decode", si)
						continue
					}
					wc, _ := initCarries(h, t.Kind, wi.Tracks[0].Codec, cur[si])
					startsForced := false
					if sg, ok := lastSegAt[ri]; ok {
						startsForced = bp.forced[segFirstID[sg]]
					}
					if !wc && startsForced && len(wo.pm.segs) == len(pm.segs) && wo.pm.msn == pm.msn {
						o.fail("C02", vn+":init-stale-parameters:in-rotation-window", "stream %d: right after the rotation of write %d released the mutex the playlist lists the complete segment with changed parameters, but the init segment served does not carry the current parameters (id %d)", si, rot.k, cur[si])
					}
				}
				if isVideoKind(t.Kind) && rot.segRotated && !pending {
					// the newest listed segment: was it encoded with parameters that differ from the init's?
					if !carries {
						// only required once a complete segment with the new parameters is listed: the
						// segment published now starts at a unit carrying them iff its start was forced
						startsForced := false
						if sg, ok := lastSegAt[ri]; ok {
							startsForced = bp.forced[segFirstID[sg]]
						}
						if startsForced {
							o.fail("C02", vn+":init-stale-parameters", "stream %d: a complete segment with changed parameters is listed (write %d) and no change is pending, but the init segment does not carry the current parameters (id %d) of the kind-%d track", si, rot.k, cur[si], t.Kind)
						}
					}
				}
			}
		}
	}
}

// ---------------------------------------------------------------- C03
func roundHalfUpSeconds(ns int64) int64 { return (ns + 5e8) / 1e9 }

// durTextTol (ns): how far the five-decimal text of a duration may be from the exact media span (a rational
// number of ns). The text is the span rounded to 10 us, so at most 5000 ns away, plus less than 1 ns for the
// two tick -> ns conversions (each truncated) whose difference the muxer prints; a span exactly half-way
// between two texts may go either way (the muxer rounds the binary float64 of the seconds). A text that is
// the truncated value, or a fraction that rounds up to 100000 and is not carried, is further away.
const durTextTol = 5001

func (o *oracleCtx) c03() {
	h, r := o.h, o.r
	vn := variantName(h.Variant)
	lead := leadingTrack(h)
	rate := h.Tracks[lead].Rate
	D := decodedOfTrack(h, r, lead)
	W := eligible(h, r, lead)
	idxOf := map[int64]int{}
	for i, w := range W {
		idxOf[w.id] = i
	}
	firstSegID := int64(0)
	if h.Variant == 3 {
		firstSegID = 7
	}
	// media span and first-unit ntp of each published segment, from decoded data and the write log
	type span struct {
		ticks int64
		ntp   int64
		ok    bool
	}
	spans := map[int64]span{}
	partSpan := map[int64]int64{} // LL: leading part seq -> ticks
	if len(D.ids) > 0 {
		nseg := D.segOf[len(D.segOf)-1] + 1
		firstIdx := make([]int, nseg)
		lastIdx := make([]int, nseg)
		for i := range firstIdx {
			firstIdx[i] = -1
		}
		for i := range D.ids {
			s := D.segOf[i]
			if firstIdx[s] < 0 {
				firstIdx[s] = i
			}
			lastIdx[s] = i
		}
		for s := 0; s < nseg; s++ {
			if firstIdx[s] < 0 {
				continue
			}
			wi, ok1 := idxOf[D.ids[firstIdx[s]]]
			wl, ok2 := idxOf[D.ids[lastIdx[s]]]
			if !ok1 || !ok2 || wl+1 >= len(W) {
				continue
			}
			spans[firstSegID+int64(s)] = span{ticks: W[wl+1].dts - W[wi].dts, ntp: W[wi].ntp, ok: true}
		}
	}
	if h.Variant == 3 {
		for _, pr := range collectParts(r, lead) {
			var t int64
			for _, s := range pr.p.samples {
				t += s.dur
			}
			partSpan[int64(pr.p.seq)] = t
		}
	}
	prevTarget := map[int]int64{}
	for _, rot := range r.rotations {
		for si, pm := range rot.playlists {
			if pm == nil || pm.err != "" {
				continue
			}
			for _, sg := range pm.segs {
				if sg.gap {
					continue
				}
				p, _ := stripQuery(sg.uri)
				key, ok := parsePath(r.streams, p)
				if !ok {
					continue
				}
				if sp, ok := spans[key.id]; ok && sp.ok {
					if !ratAbsDiffLE(ticksToNs(sp.ticks, rate), sg.durNs, durTextTol) {
						o.fail("C03", vn+":extinf", "stream %d segment %d: EXTINF %s but the leading track spans %d ticks at %d Hz", si, key.id, sg.durText, sp.ticks, rate)
					}
					if sg.hasDT && (sg.dtMs-sp.ntp/1e6 > 1 || sg.dtMs-sp.ntp/1e6 < -1) {
						o.fail("C03", vn+":program-date-time", "stream %d segment %d: PROGRAM-DATE-TIME %s, first unit was written with wall-clock %d ms", si, key.id, sg.dtText, sp.ntp/1e6)
					}
				}
				if roundHalfUpSeconds(sg.durNs) > pm.target {
					o.fail("C03", vn+":targetduration-too-small", "stream %d: TARGETDURATION %d < EXTINF %s rounded", si, pm.target, sg.durText)
				}
				if len(sg.parts) > 0 {
					var sum int64
					for _, pp := range sg.parts {
						sum += pp.durNs
					}
					tol := int64(len(sg.parts)+1)*5000 + 10
					if sum-sg.durNs > tol || sg.durNs-sum > tol {
						o.fail("C03", "ll:parts-do-not-sum-to-extinf", "stream %d segment %d: parts sum to %d ns, EXTINF %s", si, key.id, sum, sg.durText)
					}
				}
			}
			var allParts []pPart
			for _, sg := range pm.segs {
				allParts = append(allParts, sg.parts...)
			}
			allParts = append(allParts, pm.trailing...)
			for _, pp := range allParts {
				pth, _ := stripQuery(pp.uri)
				key, ok := parsePath(r.streams, pth)
				if ok {
					if t, ok := partSpan[key.id&0xffffffff]; ok {
						if !ratAbsDiffLE(ticksToNs(t, rate), pp.durNs, durTextTol) {
							o.fail("C03", "ll:part-duration", "stream %d part %d: DURATION %s but the leading track's part spans %d ticks at %d Hz", si, key.id, pp.durText, t, rate)
						}
					}
				}
				if pm.hasPartInf && pp.durNs > pm.partTarget {
					o.fail("C03", "ll:part-target-too-small", "stream %d: PART-TARGET %d ns < listed part DURATION %s", si, pm.partTarget, pp.durText)
				}
			}
			if pm.hasServerControl {
				if pm.holdBack < 2*pm.partTarget {
					o.fail("C03", "ll:part-hold-back", "stream %d: PART-HOLD-BACK %d < 2 x PART-TARGET %d", si, pm.holdBack, pm.partTarget)
				}
				if pm.skipUntil < 6*pm.target*1e9 {
					o.fail("C03", "ll:can-skip-until", "stream %d: CAN-SKIP-UNTIL %d < 6 x TARGETDURATION %d", si, pm.skipUntil, pm.target)
				}
			}
			if prev, ok := prevTarget[si]; ok && pm.target < prev {
				o.fail("C03", vn+":targetduration-decreased", "stream %d: TARGETDURATION went from %d to %d", si, prev, pm.target)
			}
			prevTarget[si] = pm.target
		}
	}
}

// ---------------------------------------------------------------- C04
func (o *oracleCtx) c04() {
	h, r := o.h, o.r
	vn := variantName(h.Variant)
	if len(h.Faults) > 0 {
		vn += ":storage-faults"
	}
	if h.Leg != "" {
		vn += ":" + h.Leg
	}
	type entry struct {
		uri, dur string
		gap      bool
	}
	byMSN := map[int]map[int64]entry{}
	prevPl := map[int]*parsedMedia{}
	lastPartID := map[int]int64{}
	// every URI of a response carries the pass-through query of the request it answers, nothing else
	ownQuery := func(si int, pm *parsedMedia, want string, who string, alt ...string) {
		var uris []string
		if pm.mapURI != "" {
			uris = append(uris, pm.mapURI)
		}
		for _, sg := range pm.segs {
			if !sg.gap {
				uris = append(uris, sg.uri)
			}
			for _, pp := range sg.parts {
				uris = append(uris, pp.uri)
			}
		}
		for _, pp := range pm.trailing {
			uris = append(uris, pp.uri)
		}
		if pm.hintURI != "" {
			uris = append(uris, pm.hintURI)
		}
		for _, u := range uris {
			_, qq := stripQuery(u)
			okq := qq == want
			for _, a := range alt {
				okq = okq || qq == a
			}
			if !okq {
				o.fail("C04", vn+":uri-carries-the-query-of-another-request", "stream %d: the playlist sent to %s (query %q) lists %s", si, who, want, u)
				return
			}
		}
	}
	for _, rot := range r.rotations {
		for _, ob := range rot.otherQuery {
			ownQuery(ob.si, ob.pm, ob.query, "the other client")
		}
		for si, pm := range rot.playlists {
			if pm == nil || pm.err != "" {
				if pm != nil {
					o.fail("C04", vn+":playlist-unreadable", "stream %d: %s", si, pm.err)
				}
				continue
			}
			// (the fMP4 variants re-encode the pass-through parameters - url.ParseQuery, Encode -, the MPEG-TS
			// playlist appends the raw query: both spellings are the request's own query)
			if hq, err := url.ParseQuery(h.Query); err == nil {
				ownQuery(si, pm, hq.Encode(), "the history's client", h.Query)
			}
			if byMSN[si] == nil {
				byMSN[si] = map[int64]entry{}
			}
			if len(pm.segs) > effSegCount(h) {
				o.fail("C04", vn+":more-than-segmentcount", "stream %d lists %d segments, SegmentCount is %d", si, len(pm.segs), effSegCount(h))
			}
			for i, sg := range pm.segs {
				msn := pm.msn + int64(i)
				p, _ := stripQuery(sg.uri)
				// the URI as listed, query included: every playlist of a history is requested with the same query
				e := entry{uri: sg.uri, dur: sg.durText, gap: sg.gap}
				if old, ok := byMSN[si][msn]; ok && old != e {
					o.fail("C04", vn+":msn-denotes-different-segment", "stream %d: media sequence number %d was (%s, %s, gap=%v), now (%s, %s, gap=%v)", si, msn, old.uri, old.dur, old.gap, e.uri, e.dur, e.gap)
				}
				byMSN[si][msn] = e
				if !sg.gap {
					key, ok := parsePath(r.streams, p)
					if !ok || key.kind != 3 || key.id != msn || key.si != si {
						o.fail("C04", vn+":uri-number-differs-from-msn", "stream %d: entry with media sequence number %d has URI %s", si, msn, p)
					}
				}
				if len(sg.parts) > 0 && len(pm.segs)-i > 2 {
					o.fail("C04", "ll:parts-listed-under-old-segment", "stream %d: parts listed under a segment that is not one of the last two", si)
				}
			}
			// the delta update of the same instant: the same media sequence number, and its listed entries are the
			// full playlist's entries from position SKIPPED-SEGMENTS on (same number -> same segment)
			if si < len(rot.deltas) && rot.deltas[si] != nil && rot.deltas[si].err == "" {
				pd := rot.deltas[si]
				if pd.msn != pm.msn {
					o.fail("C04", "ll:delta-media-sequence-differs", "stream %d: the delta update carries MEDIA-SEQUENCE %d, the full playlist of the same instant %d", si, pd.msn, pm.msn)
				}
				if pd.skipped < 0 || pd.skipped+int64(len(pd.segs)) != int64(len(pm.segs)) {
					o.fail("C04", "ll:delta-window-differs", "stream %d: delta update skips %d and lists %d segments, the full playlist lists %d", si, pd.skipped, len(pd.segs), len(pm.segs))
				} else {
					for i, sg := range pd.segs {
						f := pm.segs[int(pd.skipped)+i]
						pu, _ := stripQuery(sg.uri)
						fu, _ := stripQuery(f.uri)
						if pu != fu || sg.durText != f.durText || sg.gap != f.gap {
							o.fail("C04", "ll:delta-entry-differs", "stream %d: media sequence number %d is (%s, %s) in the delta update and (%s, %s) in the full playlist", si, pm.msn+pd.skipped+int64(i), pu, sg.durText, fu, f.durText)
						}
					}
				}
			}
			if prev := prevPl[si]; prev != nil {
				if pm.msn < prev.msn {
					o.fail("C04", vn+":media-sequence-decreased", "stream %d: MEDIA-SEQUENCE went from %d to %d", si, prev.msn, pm.msn)
				}
				// segments only appended at the tail and removed from the head
				prevEnd := prev.msn + int64(len(prev.segs))
				curEnd := pm.msn + int64(len(pm.segs))
				if curEnd < prevEnd {
					o.fail("C04", vn+":segment-removed-from-tail", "stream %d: last media sequence number went from %d to %d", si, prevEnd-1, curEnd-1)
				}
			}
			prevPl[si] = pm
			// part numbers increase by exactly one across the stream
			var ids []int64
			for _, sg := range pm.segs {
				for _, pp := range sg.parts {
					pth, _ := stripQuery(pp.uri)
					if key, ok := parsePath(r.streams, pth); ok && key.kind == 4 && key.si == si {
						ids = append(ids, key.id)
					} else {
						o.fail("C04", "ll:part-uri-malformed", "stream %d: part URI %s", si, pp.uri)
					}
				}
			}
			for _, pp := range pm.trailing {
				pth, _ := stripQuery(pp.uri)
				if key, ok := parsePath(r.streams, pth); ok && key.kind == 4 && key.si == si {
					ids = append(ids, key.id)
				}
			}
			for i := 1; i < len(ids); i++ {
				if ids[i] != ids[i-1]+1 {
					o.fail("C04", "ll:part-numbers-not-consecutive", "stream %d: part %d follows part %d", si, ids[i], ids[i-1])
				}
			}
			if h.Variant == 3 {
				pth, _ := stripQuery(pm.hintURI)
				key, ok := parsePath(r.streams, pth)
				if pm.hintURI == "" || !ok || key.kind != 4 || key.si != si {
					o.fail("C04", "ll:preload-hint-missing", "stream %d: no preload hint naming a part of this stream (%q)", si, pm.hintURI)
				} else {
					if len(ids) > 0 && key.id != ids[len(ids)-1]+1 {
						o.fail("C04", "ll:preload-hint-not-next-part", "stream %d: preload hint names part %d, the last listed part is %d", si, key.id, ids[len(ids)-1])
					}
					if last, ok := lastPartID[si]; ok && len(ids) > 0 && ids[len(ids)-1] < last {
						o.fail("C04", "ll:part-numbers-went-back", "stream %d", si)
					}
				}
				if len(ids) > 0 {
					lastPartID[si] = ids[len(ids)-1]
				}
			}
		}
		// all streams agree
		var ref *parsedMedia
		for si, pm := range rot.playlists {
			if pm == nil || pm.err != "" {
				continue
			}
			if ref == nil {
				ref = pm
				continue
			}
			same := pm.msn == ref.msn && len(pm.segs) == len(ref.segs)
			if same {
				for i := range pm.segs {
					if pm.segs[i].durText != ref.segs[i].durText || pm.segs[i].gap != ref.segs[i].gap {
						same = false
					}
				}
			}
			if !same {
				o.fail("C04", vn+":streams-disagree", "stream %d and stream 0 expose different media sequence numbers / durations at write %d", si, rot.k)
			}
		}
	}
}

// ---------------------------------------------------------------- C05
func (o *oracleCtx) c05() {
	h, r := o.h, o.r
	vn := variantName(h.Variant)
	hashes := map[string]string{}
	initHashAt := map[string]string{}
	for _, rot := range r.rotations {
		bodies := map[string][]byte{}
		for _, p := range rot.probes {
			pth, _ := stripQuery(p.uri)
			key, ok := parsePath(r.streams, pth)
			if p.listed {
				if p.resp.status != 200 {
					o.fail("C05", vn+":listed-uri-not-200", "listed URI %s answered status %d (write %d)", kindName(key.kind), p.resp.status, rot.k)
					continue
				}
				wantCT := "video/mp4"
				if strings.HasSuffix(pth, ".ts") {
					wantCT = "video/MP2T"
				}
				if p.resp.ctype != wantCT {
					o.fail("C05", vn+":content-type", "listed %s has Content-Type %q, want %q", kindName(key.kind), p.resp.ctype, wantCT)
				}
				// an empty body is not what C05 forbids; it is reported only while every write has returned nil (a
				// segment opened by a unit that SegmentMaxSize refused is legitimately empty, and the model agrees;
				// for histories of successful writes non-emptiness is c02_*_segments_start_with_random_access)
				failedBefore := false
				for k := 0; k <= rot.k && k < len(r.results); k++ {
					if r.results[k] != 0 {
						failedBefore = true
					}
				}
				if len(p.resp.body) == 0 && !failedBefore {
					o.fail("C05", vn+":listed-uri-empty", "listed %s returned an empty body", kindName(key.kind))
				}
				sum := sha256.Sum256(p.resp.body)
				hs := hex.EncodeToString(sum[:])
				if ok && key.kind == 2 {
					if old, seen := initHashAt[pth]; seen && old != hs && !rot.segRotated {
						o.fail("C05", vn+":init-changed-without-rotation", "init bytes changed at a part rotation")
					}
					initHashAt[pth] = hs
				} else {
					if old, seen := hashes[pth]; seen && old != hs {
						o.fail("C05", vn+":bytes-changed-while-listed", "%s returned different bytes while still listed (write %d, disk=%v)", kindName(key.kind), rot.k, h.Disk)
					}
					hashes[pth] = hs
				}
				bodies[pth] = p.resp.body
				for oi, ov := range p.overlap {
					if ov.status != 200 || !bytes.Equal(ov.body, p.resp.body) {
						o.fail("C05", vn+":overlapping-fetch-differs", "%s fetched by two overlapping requests: request %d of the two got status %d and %d bytes, a request on its own %d bytes (write %d, disk=%v)",
							kindName(key.kind), oi, ov.status, len(ov.body), len(p.resp.body), rot.k, h.Disk)
					}
				}
			} else {
				if ok && key.kind == 4 && retainedPart(rot, key) {
					continue // its parent segment is still in the window (parts are listed only under the last two)
				}
				if p.resp.status == 200 && len(p.resp.body) > 0 {
					o.fail("C05", vn+":unlisted-uri-returns-media", "URI %s (%s) is not listed any more / never existed but returned %d bytes", pth, kindName(key.kind), len(p.resp.body))
				}
			}
		}
		if h.Variant == 3 {
			for si, pm := range rot.playlists {
				if pm == nil || pm.err != "" {
					continue
				}
				for _, sg := range pm.segs {
					if sg.gap || len(sg.parts) == 0 {
						continue
					}
					sp, _ := stripQuery(sg.uri)
					var cat []byte
					for _, pp := range sg.parts {
						pth, _ := stripQuery(pp.uri)
						cat = append(cat, bodies[pth]...)
						key, _ := parsePath(r.streams, pth)
						if parts, err := decodeParts(bodies[pth], h.Tracks[si].Kind); err == nil && len(parts) == 1 {
							if int64(parts[0].seq) != key.id&0xffffffff {
								o.fail("C05", "ll:fragment-sequence-number", "stream %d: part %d carries fragment sequence number %d", si, key.id, parts[0].seq)
							}
						}
					}
					if !bytes.Equal(cat, bodies[sp]) {
						o.fail("C05", "ll:segment-is-not-concatenation-of-parts", "stream %d: segment %s is %d bytes, its parts concatenated are %d bytes (disk=%v)", si, sp, len(bodies[sp]), len(cat), h.Disk)
					}
				}
			}
		}
	}
}

// a part whose parent segment is still retained has not left the window
func retainedPart(rot *rotation, key skey) bool {
	if key.si < 0 || key.si >= len(rot.snap.Streams) {
		return false
	}
	s := rot.snap.Streams[key.si]
	for _, ids := range s.SegmentPartIDs {
		for _, id := range ids {
			if int64(id) == key.id {
				return true
			}
		}
	}
	for _, id := range s.NextSegmentPartIDs {
		if int64(id) == key.id {
			return true
		}
	}
	return false
}

func kindName(k int) string {
	return map[int]string{0: "index", 1: "playlist", 2: "init", 3: "segment", 4: "part", 9: "unknown"}[k]
}

// ---------------------------------------------------------------- C16
func expectedCodec(h *history, t int, params int64) string {
	switch h.Tracks[t].Kind {
	case kH264, kH265, kVP9, kAV1:
		// recomputed from the bytes of the parameter sets / headers in force (codecstr.go)
		return codecFromParamBytes(h, h.Tracks[t].Kind, params)
	case kAAC:
		return "mp4a.40.2"
	case kOpus:
		return "opus"
	}
	return "?"
}

// RESOLUTION and frames per second (0 = the parameter sets carry no timing) of a video track's parameters
func expectedVideoInfo(h *history, kind int, params int64) (string, float64) {
	switch kind {
	case kH264:
		var sps h264.SPS
		if err := sps.Unmarshal(spsOf(h, params)); err != nil {
			return "", 0
		}
		return strconv.Itoa(sps.Width()) + "x" + strconv.Itoa(sps.Height()), sps.FPS()
	case kH265:
		return strconv.Itoa(h265Width(params)) + "x" + strconv.Itoa(h265Height(params)), h265FPS(params)
	case kVP9, kAV1:
		w, hh := videoResolution(kind, params)
		return strconv.Itoa(w) + "x" + strconv.Itoa(hh), 0
	}
	return "", 0
}

func (o *oracleCtx) c16() {
	h, r := o.h, o.r
	vn := variantName(h.Variant)
	lead := leadingTrack(h)
	hasVideo := isVideoKind(h.Tracks[lead].Kind)
	cur := make([]int64, len(h.Tracks))
	for i, t := range h.Tracks {
		cur[i] = t.Params0
	}
	opAt := 0
	for _, rot := range r.rotations {
		for ; opAt <= rot.k && opAt < len(h.Ops); opAt++ {
			a := h.Ops[opAt]
			if carriesParams(h.Tracks[a.Track].Kind, &a) {
				cur[a.Track] = a.Params
			}
		}
		if rot.indexResp.status == -1 {
			o.fail("C16", vn+":index-panics", "GET index.m3u8 panicked: %s", string(rot.indexResp.body))
			continue
		}
		p := rot.index
		if p == nil {
			if rot.indexResp.status != 0 && rot.indexResp.status != 200 {
				o.fail("C16", vn+":index-not-200", "index.m3u8 answered %d once content is available", rot.indexResp.status)
			}
			continue
		}
		if p.err != "" {
			o.fail("C16", vn+":index-unreadable", "%s", p.err)
			continue
		}
		if p.variants != 1 {
			o.fail("C16", vn+":variant-count", "%d variants", p.variants)
		}
		leadID := "main"
		if h.Variant != 1 {
			leadID = r.streams[lead].id
		}
		wantURI := leadID + "_stream.m3u8"
		if h.Query != "" {
			wantURI += "?" + h.Query
		}
		if p.uri != wantURI {
			o.fail("C16", vn+":variant-uri", "variant URI %q, want %q", p.uri, wantURI)
		}
		var wantCodecs []string
		for t := range h.Tracks {
			c := expectedCodec(h, t, cur[t])
			dup := false
			for _, x := range wantCodecs {
				if x == c {
					dup = true
				}
			}
			if !dup {
				wantCodecs = append(wantCodecs, c)
			}
		}
		got := append([]string{}, p.codecs...)
		for i := range got {
			got[i] = strings.ToLower(normHvc1(got[i]))
		}
		sort.Strings(got)
		want := append([]string{}, wantCodecs...)
		for i := range want {
			want[i] = strings.ToLower(normHvc1(want[i]))
		}
		sort.Strings(want)
		// hexadecimal fields (avc1 profile/level bytes, hvc1 flag bytes) carry no case requirement
		if !strings.EqualFold(strings.Join(got, ","), strings.Join(want, ",")) {
			o.fail("C16", vn+":codecs", "CODECS %q, the tracks' current parameters give %q", strings.Join(p.codecs, ","), strings.Join(wantCodecs, ","))
		}
		if hasVideo {
			wantRes, wantFPS := expectedVideoInfo(h, h.Tracks[lead].Kind, cur[lead])
			if wantRes != "" && p.resolution != wantRes {
				o.fail("C16", vn+":resolution", "RESOLUTION %q, the current parameters (kind %d, id %d) say %q", p.resolution, h.Tracks[lead].Kind, cur[lead], wantRes)
			}
			// FRAME-RATE: only a value that contradicts the parameter sets is a violation (parameter sets
			// without timing information determine none; H264 was not checked before and stays so)
			if h.Tracks[lead].Kind != kH264 && p.frameRate != "" {
				got, err := strconv.ParseFloat(p.frameRate, 64)
				if err != nil || wantFPS == 0 || got-wantFPS > 0.0005000001 || wantFPS-got > 0.0005000001 {
					o.fail("C16", vn+":frame-rate", "FRAME-RATE %q, the current parameters (kind %d, id %d) give %v", p.frameRate, h.Tracks[lead].Kind, cur[lead], wantFPS)
				}
			}
		} else if p.resolution != "" {
			o.fail("C16", vn+":resolution", "RESOLUTION %q on an audio-only muxer", p.resolution)
		}
		// renditions
		type rwant struct {
			track int
			lead  bool
		}
		var wants []rwant
		if h.Variant != 1 {
			for t, tc := range h.Tracks {
				if isVideoKind(tc.Kind) {
					continue
				}
				if t != lead || len(h.Tracks) > 1 {
					wants = append(wants, rwant{t, t == lead})
				}
			}
		}
		if len(p.renditions) != len(wants) {
			o.fail("C16", vn+":rendition-count", "%d EXT-X-MEDIA entries, %d audio renditions expected", len(p.renditions), len(wants))
		} else {
			defaults := 0
			userDefault := -1
			for i, w := range wants {
				if h.Tracks[w.track].Default {
					userDefault = i
				}
			}
			for i, w := range wants {
				rd := p.renditions[i]
				tc := h.Tracks[w.track]
				if rd.typ != "AUDIO" || rd.group == "" || rd.group != p.audio {
					o.fail("C16", vn+":rendition-group", "rendition %d: TYPE %q GROUP-ID %q, variant AUDIO %q", i, rd.typ, rd.group, p.audio)
				}
				wantName := trackNameOf(tc.Name)
				if (wantName != "" && rd.name != wantName) || rd.name == "" {
					o.fail("C16", vn+":rendition-name", "rendition %d: NAME %q, track name %q", i, rd.name, wantName)
				}
				wantLang := ""
				if tc.Lang != 0 {
					wantLang = "l" + strconv.Itoa(tc.Lang)
				}
				if rd.language != wantLang {
					o.fail("C16", vn+":rendition-language", "rendition %d: LANGUAGE %q, track language %q", i, rd.language, wantLang)
				}
				wantRU := r.streams[w.track].id + "_stream.m3u8"
				if h.Query != "" {
					wantRU += "?" + h.Query
				}
				if w.lead {
					if rd.uri != "" {
						o.fail("C16", vn+":rendition-uri", "the leading stream's rendition carries URI %q", rd.uri)
					}
				} else if rd.uri != wantRU {
					o.fail("C16", vn+":rendition-uri", "rendition %d: URI %q, want %q", i, rd.uri, wantRU)
				}
				if rd.isDefault {
					defaults++
					if userDefault >= 0 && i != userDefault {
						o.fail("C16", vn+":default-rendition", "rendition %d is DEFAULT but the user marked rendition %d", i, userDefault)
					}
					if userDefault < 0 && i != 0 {
						o.fail("C16", vn+":default-rendition", "rendition %d is DEFAULT; without a user mark the first must be", i)
					}
				}
			}
			if len(wants) > 0 && defaults != 1 {
				o.fail("C16", vn+":default-rendition-count", "%d renditions are DEFAULT", defaults)
			}
		}
		if !(p.bandwidth >= p.avgBandwidth && p.avgBandwidth > 0) || !p.hasAvg {
			// a narrower signature for the one known way to get there: every listed segment of
			// streams[0] has a zero duration (forced rotation at an equal DTS)
			allZero := len(rot.snap.Streams) > 0
			if allZero {
				st := rot.snap.Streams[0]
				n := 0
				for i := range st.SegmentIDs {
					if st.SegmentIDs[i] >= 0 {
						n++
						if st.SegmentDurations[i] != 0 {
							allZero = false
						}
					}
				}
				if n == 0 {
					allZero = false
				}
			}
			if allZero && p.hasAvg && p.bandwidth == 0 && p.avgBandwidth == 0 {
				o.fail("C16", vn+":bandwidth-zero:all-listed-segments-zero-duration", "BANDWIDTH 0 AVERAGE-BANDWIDTH 0: every listed segment has a zero duration")
			} else {
				o.fail("C16", vn+":bandwidth-order", "BANDWIDTH %d AVERAGE-BANDWIDTH %d", p.bandwidth, p.avgBandwidth)
			}
		}
		if len(rot.snap.Streams) == 1 {
			s := rot.snap.Streams[0]
			var peak, sizes, durs int64
			ok := true
			for i := range s.SegmentIDs {
				if s.SegmentIDs[i] < 0 {
					continue
				}
				d := int64(s.SegmentDurations[i])
				if d <= 0 {
					ok = false
					break
				}
				// size = bytes of the served segment
				pth := ""
				if pm := rot.playlists[0]; pm != nil && i < len(pm.segs) {
					pth, _ = stripQuery(pm.segs[i].uri)
				}
				var sz int64 = -1
				for _, pb := range rot.probes {
					pp, _ := stripQuery(pb.uri)
					if pp == pth && pb.listed {
						sz = int64(len(pb.resp.body))
					}
				}
				if sz < 0 {
					ok = false
					break
				}
				b := 8 * sz * 1e9 / d
				if b > peak {
					peak = b
				}
				sizes += sz
				durs += d
			}
			if ok && durs > 0 {
				mean := 8 * sizes * 1e9 / durs
				if p.bandwidth != peak || p.avgBandwidth != mean {
					o.fail("C16", vn+":bandwidth-values", "BANDWIDTH %d / AVERAGE-BANDWIDTH %d, the listed segments give peak %d / mean %d", p.bandwidth, p.avgBandwidth, peak, mean)
				}
			}
		}
	}
}

// ---------------------------------------------------------------- C18
func (o *oracleCtx) c18() {
	o.c18Retention()
	o.c18Size()
}

// c18Retention: retained segments, files in Directory and the URL table stay bounded. It reads only
// snapshots and playlists, so it also applies to histories with injected storage faults.
func (o *oracleCtx) c18Retention() {
	h, r := o.h, o.r
	vn := variantName(h.Variant)
	if len(h.Faults) > 0 {
		vn += ":storage-faults"
	}
	if len(h.WriteFaults) > 0 {
		vn += ":write-faults"
	}
	for _, rot := range r.rotations {
		for si, pm := range rot.playlists {
			if pm != nil && pm.err == "" && len(pm.segs) > effSegCount(h) {
				o.fail("C18", vn+":window-exceeds-segmentcount", "stream %d lists %d segments", si, len(pm.segs))
			}
		}
		for si, s := range rot.snap.Streams {
			if s.SegmentCount > effSegCount(h) {
				o.fail("C18", vn+":retained-exceeds-segmentcount", "stream %d retains %d segments (+ the open one), SegmentCount %d", si, s.SegmentCount, effSegCount(h))
			}
		}
		if h.Disk {
			want := map[string]bool{}
			ext := ".mp4"
			if h.Variant == 1 {
				ext = ".ts"
			}
			for _, s := range rot.snap.Streams {
				for _, id := range s.SegmentIDs {
					if id >= 0 {
						want[fmt.Sprintf("%s_%s_seg%d%s", rot.snap.Prefix, s.ID, id, ext)] = true
					}
				}
				if s.HasNextSegment {
					want[fmt.Sprintf("%s_%s_seg%d%s", rot.snap.Prefix, s.ID, s.NextSegmentID, ext)] = true
				}
			}
			for _, f := range rot.dirFiles {
				if !want[f] {
					o.fail("C18", vn+":stale-file-on-disk", "file %s is still in Directory although its segment left the window (write %d)", f, rot.k)
				}
			}
			if len(rot.dirFiles) > len(rot.snap.Streams)*(effSegCount(h)+1) {
				o.fail("C18", vn+":too-many-files", "%d files on disk", len(rot.dirFiles))
			}
		}
		// the URL table holds nothing but: the index, and per stream its playlist, its init, its retained
		// segments, the parts of the retained and of the open segment, and the preload hint (the next
		// part). Everything else is a URI that should have stopped resolving. (The number of parts of
		// one segment is not bounded by any configuration value - a long GOP with a short part duration
		// gives hundreds - so a fixed count would demand more than the property.)
		{
			allowed := map[skey]bool{{0, 0, 0}: true}
			for si, s := range rot.snap.Streams {
				allowed[skey{1, si, 0}] = true
				allowed[skey{2, si, 0}] = true
				for _, id := range s.SegmentIDs {
					if id >= 0 {
						allowed[skey{3, si, id}] = true
					}
				}
				for _, ids := range s.SegmentPartIDs {
					for _, id := range ids {
						allowed[skey{4, si, int64(id)}] = true
					}
				}
				for _, id := range s.NextSegmentPartIDs {
					allowed[skey{4, si, int64(id)}] = true
				}
				allowed[skey{4, si, int64(s.NextPartID)}] = true
			}
			for _, pth := range rot.snap.Paths {
				key, ok := parsePath(r.streams, pth)
				if !ok || !allowed[key] {
					o.fail("C18", vn+":url-table-stale-entry", "path %s (%s) is still registered although it belongs to nothing the muxer retains (write %d, %d paths)", pth, kindName(key.kind), rot.k, len(rot.snap.Paths))
					break
				}
			}
		}
	}
}

// c18Size: published payload per segment never exceeds SegmentMaxSize
func (o *oracleCtx) c18Size() {
	h, r := o.h, o.r
	vn := variantName(h.Variant)
	max := effSegMax(h)
	if h.Variant == 1 {
		for _, rot := range r.rotations {
			if !rot.segRotated || len(rot.newTS) == 0 {
				continue
			}
			var total int64
			for _, u := range rot.newTS[0] {
				for _, s := range u.sizes {
					total += s
				}
			}
			if total > max {
				o.fail("C18", "mpegts:segment-exceeds-max-size", "a published segment holds %d payload bytes, SegmentMaxSize %d", total, max)
			}
		}
	} else {
		for si := range r.streams {
			perSeg := map[int]int64{}
			for _, pr := range collectParts(r, si) {
				for _, s := range pr.p.samples {
					perSeg[pr.seg] += s.size
				}
			}
			for sg, total := range perSeg {
				if total > max {
					o.fail("C18", vn+":segment-exceeds-max-size", "stream %d published segment #%d holds %d payload bytes, SegmentMaxSize %d", si, sg, total, max)
				}
			}
		}
	}
}

func runOracles(h *history, r *runResult) []failure {
	o := &oracleCtx{h: h, r: r, seen: map[string]bool{}}
	if r.startErr {
		// Start must reject exactly: no tracks, two videos, MPEG-TS restrictions, two default audios, too few segments
		return nil
	}
	if len(h.WriteFaults) > 0 {
		// a disk that is full now and then: the retention oracle (segments, Directory, URL table stay bounded) - and
		// when every Write returned nil all the same (the faults fell on calls that were never made, or an error
		// was swallowed), the write sequence is one "that all succeed" and C01 applies to what is advertised
		o.c18Retention()
		silent := true
		for _, rc := range r.results {
			if rc != 0 {
				silent = false
			}
		}
		if silent {
			o.c01()
		}
		return o.fails
	}
	if len(h.Faults) > 0 {
		// the oracles that read nothing but playlists and snapshots: retention (C18) and the playlist
		// history (C04), which the unchanged muxer keeps satisfying across a failed file creation
		o.c18Retention()
		o.c04()
		o.c05()
		return o.fails
	}
	if h.Leg == "init-failure" {
		o.c04()
		o.c18Retention()
		return o.fails
	}
	if h.Leg == "slow-reader" {
		for _, p := range r.panics {
			o.fail("C05", "ll:slow-reader:panic", "panic while driving the muxer with overlapping requests: %s", p)
		}
		o.c05Slow()
		return o.fails
	}
	for _, p := range r.panics {
		o.fail("C08", variantName(h.Variant)+":panic", "panic while driving the muxer: %s", p)
	}
	allOK := true
	for _, rc := range r.results {
		if rc != 0 {
			allOK = false
		}
	}
	for _, a := range h.Ops {
		// the quantifier allows start timestamps down to -10 s; earlier units are outside it
		// (observed: an fMP4 stream whose first key frame lies before -10 s starts on a non-key frame,
		// because firstRandomAccessReceived is set before the unit is rejected)
		if h.Variant != 1 && a.DTS+10*h.Tracks[a.Track].Rate < 0 {
			allOK = false
		}
	}
	if allOK { // C01-C03 quantify over write sequences that all succeed
		o.c01()
		o.c02()
		o.c03()
	}
	o.c04()
	o.c05()
	o.c16()
	o.c18()
	return o.fails
}
