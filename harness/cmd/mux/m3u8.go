package main

import (
	"strconv"
	"strings"
	"time"
)

// A small, independent M3U8 reader (shares nothing with pkg/playlist). It understands the
// tags a muxer emits and records everything else as an error, so that an unexpected line is
// never silently skipped.

type pPart struct {
	durNs       int64
	durText     string
	uri         string
	independent bool
}

type pSeg struct {
	durNs   int64
	durText string
	uri     string
	gap     bool
	hasDT   bool
	dtMs    int64
	dtText  string
	parts   []pPart
}

type parsedMedia struct {
	err              string
	version          int64
	target           int64
	msn              int64
	allowCache       string
	independent      bool
	hasServerControl bool
	canBlockReload   bool
	holdBack         int64
	skipUntil        int64
	hasPartInf       bool
	partTarget       int64
	mapURI           string
	skipped          int64
	hasSkip          bool
	segs             []pSeg
	trailing         []pPart
	hintURI          string
	hintType         string
	endlist          bool
	lines            []string
}

// decimal seconds -> ns, exact (no floats)
func parseDecimalNs(s string) (int64, bool) {
	if s == "" {
		return 0, false
	}
	neg := false
	if s[0] == '-' {
		neg = true
		s = s[1:]
	}
	ip, fp := s, ""
	if i := strings.IndexByte(s, '.'); i >= 0 {
		ip, fp = s[:i], s[i+1:]
	}
	if ip == "" {
		return 0, false
	}
	for _, c := range ip + fp {
		if c < '0' || c > '9' {
			return 0, false
		}
	}
	iv, err := strconv.ParseInt(ip, 10, 64)
	if err != nil {
		return 0, false
	}
	for len(fp) < 9 {
		fp += "0"
	}
	fv, _ := strconv.ParseInt(fp[:9], 10, 64)
	v := iv*1e9 + fv
	if neg {
		v = -v
	}
	return v, true
}

// attribute list: NAME=value[,NAME=value]*, values quoted or not
func parseAttrs(s string) (map[string]string, []string, bool) {
	out := map[string]string{}
	var order []string
	i := 0
	for i < len(s) {
		j := strings.IndexByte(s[i:], '=')
		if j <= 0 {
			return nil, nil, false
		}
		name := s[i : i+j]
		for _, c := range name {
			if !((c >= 'A' && c <= 'Z') || (c >= '0' && c <= '9') || c == '-') {
				return nil, nil, false
			}
		}
		i += j + 1
		var val string
		if i < len(s) && s[i] == '"' {
			k := strings.IndexByte(s[i+1:], '"')
			if k < 0 {
				return nil, nil, false
			}
			val = s[i+1 : i+1+k]
			i += k + 2
		} else {
			k := strings.IndexByte(s[i:], ',')
			if k < 0 {
				k = len(s) - i
			}
			val = s[i : i+k]
			i += k
		}
		if _, dup := out[name]; dup {
			return nil, nil, false
		}
		out[name] = val
		order = append(order, name)
		if i < len(s) {
			if s[i] != ',' {
				return nil, nil, false
			}
			i++
			if i == len(s) {
				return nil, nil, false
			}
		}
	}
	return out, order, true
}

func parseMedia(body string) *parsedMedia {
	p := &parsedMedia{}
	lines := strings.Split(body, "\n")
	if len(lines) > 0 && lines[len(lines)-1] == "" {
		lines = lines[:len(lines)-1]
	}
	p.lines = lines
	if len(lines) == 0 || lines[0] != "#EXTM3U" {
		p.err = "first line is not #EXTM3U"
		return p
	}
	var cur *pSeg
	newSeg := func() *pSeg {
		if cur == nil {
			cur = &pSeg{}
		}
		return cur
	}
	fail := func(l string) *parsedMedia { p.err = "unexpected line: " + l; return p }
	for _, l := range lines[1:] {
		switch {
		case l == "":
		case strings.HasPrefix(l, "#EXT-X-VERSION:"):
			p.version, _ = strconv.ParseInt(l[15:], 10, 64)
		case l == "#EXT-X-INDEPENDENT-SEGMENTS":
			p.independent = true
		case strings.HasPrefix(l, "#EXT-X-ALLOW-CACHE:"):
			p.allowCache = l[19:]
		case strings.HasPrefix(l, "#EXT-X-TARGETDURATION:"):
			v, err := strconv.ParseInt(l[22:], 10, 64)
			if err != nil {
				return fail(l)
			}
			p.target = v
		case strings.HasPrefix(l, "#EXT-X-MEDIA-SEQUENCE:"):
			v, err := strconv.ParseInt(l[22:], 10, 64)
			if err != nil {
				return fail(l)
			}
			p.msn = v
		case strings.HasPrefix(l, "#EXT-X-SERVER-CONTROL:"):
			a, _, ok := parseAttrs(l[22:])
			if !ok {
				return fail(l)
			}
			p.hasServerControl = true
			p.canBlockReload = a["CAN-BLOCK-RELOAD"] == "YES"
			if v, ok := a["PART-HOLD-BACK"]; ok {
				p.holdBack, ok = parseDecimalNs(v)
				if !ok {
					return fail(l)
				}
			}
			if v, ok := a["CAN-SKIP-UNTIL"]; ok {
				p.skipUntil, ok = parseDecimalNs(v)
				if !ok {
					return fail(l)
				}
			}
		case strings.HasPrefix(l, "#EXT-X-PART-INF:"):
			a, _, ok := parseAttrs(l[16:])
			if !ok {
				return fail(l)
			}
			p.hasPartInf = true
			p.partTarget, ok = parseDecimalNs(a["PART-TARGET"])
			if !ok {
				return fail(l)
			}
		case strings.HasPrefix(l, "#EXT-X-MAP:"):
			a, _, ok := parseAttrs(l[11:])
			if !ok {
				return fail(l)
			}
			p.mapURI = a["URI"]
		case strings.HasPrefix(l, "#EXT-X-SKIP:"):
			a, _, ok := parseAttrs(l[12:])
			if !ok {
				return fail(l)
			}
			p.hasSkip = true
			p.skipped, _ = strconv.ParseInt(a["SKIPPED-SEGMENTS"], 10, 64)
		case strings.HasPrefix(l, "#EXT-X-PROGRAM-DATE-TIME:"):
			s := newSeg()
			t, err := time.Parse(time.RFC3339Nano, l[25:])
			if err != nil {
				t, err = time.Parse("2006-01-02T15:04:05.999Z0700", l[25:])
				if err != nil {
					return fail(l)
				}
			}
			s.hasDT = true
			s.dtMs = t.UnixNano() / 1e6
			s.dtText = l[25:]
		case l == "#EXT-X-GAP":
			newSeg().gap = true
		case strings.HasPrefix(l, "#EXT-X-PART:"):
			a, _, ok := parseAttrs(l[12:])
			if !ok {
				return fail(l)
			}
			d, ok := parseDecimalNs(a["DURATION"])
			if !ok {
				return fail(l)
			}
			pp := pPart{durNs: d, durText: a["DURATION"], uri: a["URI"], independent: a["INDEPENDENT"] == "YES"}
			s := newSeg()
			s.parts = append(s.parts, pp)
		case strings.HasPrefix(l, "#EXTINF:"):
			v := l[8:]
			if i := strings.IndexByte(v, ','); i >= 0 {
				v = v[:i]
			} else {
				return fail(l)
			}
			d, ok := parseDecimalNs(v)
			if !ok {
				return fail(l)
			}
			s := newSeg()
			s.durNs, s.durText = d, v
		case strings.HasPrefix(l, "#EXT-X-PRELOAD-HINT:"):
			a, _, ok := parseAttrs(l[20:])
			if !ok {
				return fail(l)
			}
			p.hintURI, p.hintType = a["URI"], a["TYPE"]
		case l == "#EXT-X-ENDLIST":
			p.endlist = true
		case strings.HasPrefix(l, "#"):
			return fail(l)
		default:
			// URI line
			if cur == nil || cur.durText == "" {
				return fail("URI line without EXTINF: " + l)
			}
			cur.uri = l
			p.segs = append(p.segs, *cur)
			cur = nil
		}
	}
	if cur != nil {
		// parts of the segment being produced
		if cur.durText != "" || cur.gap || cur.hasDT {
			p.err = "dangling segment tags"
			return p
		}
		p.trailing = cur.parts
	}
	return p
}

type pRendition struct {
	typ, group, name, language, uri string
	isDefault, autoselect           bool
}

type parsedMulti struct {
	err          string
	version      int64
	independent  bool
	variants     int
	bandwidth    int64
	avgBandwidth int64
	hasAvg       bool
	codecs       []string
	resolution   string
	frameRate    string
	audio        string
	uri          string
	renditions   []pRendition
}

func parseMulti(body string) *parsedMulti {
	p := &parsedMulti{}
	lines := strings.Split(body, "\n")
	if len(lines) == 0 || lines[0] != "#EXTM3U" {
		p.err = "first line is not #EXTM3U"
		return p
	}
	expectURI := false
	for _, l := range lines[1:] {
		switch {
		case l == "":
		case strings.HasPrefix(l, "#EXT-X-VERSION:"):
			p.version, _ = strconv.ParseInt(l[15:], 10, 64)
		case l == "#EXT-X-INDEPENDENT-SEGMENTS":
			p.independent = true
		case strings.HasPrefix(l, "#EXT-X-MEDIA:"):
			a, _, ok := parseAttrs(l[13:])
			if !ok {
				p.err = "bad attribute list: " + l
				return p
			}
			p.renditions = append(p.renditions, pRendition{typ: a["TYPE"], group: a["GROUP-ID"], name: a["NAME"],
				language: a["LANGUAGE"], uri: a["URI"], isDefault: a["DEFAULT"] == "YES", autoselect: a["AUTOSELECT"] == "YES"})
		case strings.HasPrefix(l, "#EXT-X-STREAM-INF:"):
			a, _, ok := parseAttrs(l[18:])
			if !ok {
				p.err = "bad attribute list: " + l
				return p
			}
			p.variants++
			p.bandwidth, _ = strconv.ParseInt(a["BANDWIDTH"], 10, 64)
			if v, ok := a["AVERAGE-BANDWIDTH"]; ok {
				p.hasAvg = true
				p.avgBandwidth, _ = strconv.ParseInt(v, 10, 64)
			}
			if a["CODECS"] != "" {
				p.codecs = strings.Split(a["CODECS"], ",")
			}
			p.resolution = a["RESOLUTION"]
			p.frameRate = a["FRAME-RATE"]
			p.audio = a["AUDIO"]
			expectURI = true
		case strings.HasPrefix(l, "#"):
			p.err = "unexpected line: " + l
			return p
		default:
			if !expectURI {
				p.err = "URI line without EXT-X-STREAM-INF: " + l
				return p
			}
			p.uri = l
			expectURI = false
		}
	}
	return p
}
