package main

// The slow-reader leg of C05 (search only, outside the model). C05 says that a listed URI "keeps
// returning identical bytes for as long as it stays listed - including after a disk-backed segment has
// been finalized and its RAM copy dropped", and that "each fragment's sequence number equals its part
// number". The main run fetches every URI to completion between two writes; here the requests overlap
// the writer:
//
//   slow downloads   at some part rotations of a Low-Latency history a few listed URIs (parts of the open
//       segment, parts of complete segments, segments, the init file) are fetched normally (the reference)
//       and then requested again through Muxer.Handle with a ResponseWriter that blocks inside its first
//       Write - the handler has its reader, nothing has left the process yet - while the writer goes on:
//       the segment is completed (and, with Directory, finalized on disk) and further parts are written.
//       Then the writer is released; the bytes must equal the reference as long as the URI is still listed.
//   blocked hint requests   the preload-hint URI is requested while its part is still being written (the
//       handler waits on the muxer's condition variable); the writer completes that part AND the next one
//       before the request runs again. The response must be the fragment whose sequence number is the part
//       number in the URI, and equal to what the URI returns once it is listed.
//
// The whole leg runs on ONE P (runtime.GOMAXPROCS(1), after the parallel phase): a goroutine woken by
// cond.Broadcast only runs when the writer goroutine blocks, which makes "two rotations before the
// request resumes" the schedule that actually happens instead of a rare one, and makes sync.Pool-style
// reuse deterministic. No handler of a part, segment or init file holds the muxer mutex while it writes
// the response (muxer_stream.go: part / segment handlers copy without the mutex, playlist handlers write
// after unlocking), so a blocked reader cannot block the writer; every wait below still has a watchdog,
// and a handler that does not come back is reported under its own signature.

import (
	"bytes"
	"fmt"
	"net/http"
	"net/url"
	"os"
	"runtime"
	"strings"
	"time"

	gohlslib "github.com/bluenviron/gohlslib/v2"

	"verifharness/internal/rng"
)

const slowWatchdog = 20 * time.Second

type slowWriter struct {
	h       http.Header
	status  int
	block   bool
	entered chan struct{} // closed when the handler is inside its first Write
	release chan struct{}
	body    bytes.Buffer
	first   bool
}

func (w *slowWriter) Header() http.Header  { return w.h }
func (w *slowWriter) WriteHeader(code int) { w.status = code }
func (w *slowWriter) Write(p []byte) (int, error) {
	if w.block && !w.first {
		w.first = true
		close(w.entered)
		<-w.release // the socket is full: p is consumed later
	}
	return w.body.Write(p)
}

type slowObs struct {
	kind      string // "download" | "hint"
	uri       string
	ukind     int // skey kind of the URI
	startK    int
	endK      int
	status    int
	ref       []byte
	got       []byte
	listedEnd bool // still listed when the response was completed
	again     []byte
	hang      string
	partID    int64 // hint: the part number in the URI
	rotations int   // hint: part rotations between the request and its completion
}

type slowDownload struct {
	obs        *slowObs
	w          *slowWriter
	end        chan struct{}
	stream     int
	segAtStart uint64
	segRotSeen bool
	partAtRot  uint64
	need       uint64 // parts to be finalized after the segment rotation before the release
}

func slowGet(m *gohlslib.Muxer, uri string, w *slowWriter) chan struct{} {
	end := make(chan struct{})
	go func() {
		defer close(end)
		defer func() {
			if r := recover(); r != nil {
				w.status = -1
				w.body.WriteString(fmt.Sprint(r))
			}
		}()
		u, _ := url.Parse("http://localhost/" + uri)
		m.Handle(w, &http.Request{URL: u, Method: "GET"})
	}()
	return end
}

// runSlow drives the real muxer through the history with overlapping requests. Must be called on one P.
func runSlow(h *history, dir string, hintEntered chan struct{}) (res *runResult) {
	res = &runResult{firstOpen: -1, hashes: map[string][32]byte{}}
	defer func() {
		if r := recover(); r != nil {
			res.panics = append(res.panics, fmt.Sprint(r))
		}
	}()
	r := rng.New(uint64(len(h.Ops))*0x9E3779B97F4A7C15+uint64(h.SegMin), uint64(h.PartMin))
	tracks := mkTracks(h)
	m := &gohlslib.Muxer{
		Tracks:             tracks,
		Variant:            variantOf(h),
		SegmentCount:       h.SegCount,
		SegmentMinDuration: time.Duration(h.SegMin),
		PartMinDuration:    time.Duration(h.PartMin),
		SegmentMaxSize:     uint64(h.SegMax),
		OnEncodeError:      func(err error) {},
	}
	if h.Disk {
		os.MkdirAll(dir, 0o755)
		m.Directory = dir
	}
	if err := m.Start(); err != nil {
		res.startErr = true
		return res
	}
	var pending []*slowDownload
	var hint *slowDownload
	closed := false
	defer func() {
		if !closed {
			go m.Close()
		}
	}()
	snap := gohlslib.VerifSnapshot(m)
	for _, s := range snap.Streams {
		res.streams = append(res.streams, streamInfo{id: s.ID, isVideo: strings.HasPrefix(s.ID, "video")})
	}
	q := ""
	if h.Query != "" {
		q = "?" + h.Query
	}
	listed := func() map[string]bool {
		out := map[string]bool{}
		st := gohlslib.VerifSnapshot(m)
		for _, s := range st.Streams {
			if s.SegmentCount < 1 {
				continue
			}
			rp := fetch(m, s.ID+"_stream.m3u8"+q)
			if rp.status != 200 {
				continue
			}
			pm := parseMedia(string(rp.body))
			if pm == nil || pm.err != "" {
				continue
			}
			if pm.mapURI != "" {
				out[pm.mapURI] = true
			}
			for _, sg := range pm.segs {
				if !sg.gap {
					out[sg.uri] = true
				}
				for _, pp := range sg.parts {
					out[pp.uri] = true
				}
			}
			for _, pp := range pm.trailing {
				out[pp.uri] = true
			}
		}
		return out
	}
	waitFor := slowWatchdog
	wait := func(chs ...chan struct{}) int {
		// last-resort watchdog: none of the waits below can take long on a correct muxer
		t := time.NewTimer(waitFor)
		defer t.Stop()
		switch len(chs) {
		case 1:
			select {
			case <-chs[0]:
				return 0
			case <-t.C:
				return -1
			}
		default:
			select {
			case <-chs[0]:
				return 0
			case <-chs[1]:
				return 1
			case <-t.C:
				return -1
			}
		}
	}
	finish := func(d *slowDownload, k int) {
		close(d.w.release)
		if wait(d.end) < 0 {
			d.obs.hang = "the handler did not return after its ResponseWriter was released"
		}
		d.obs.endK = k
		d.obs.status = d.w.status
		d.obs.got = append([]byte{}, d.w.body.Bytes()...)
		d.obs.listedEnd = listed()[d.obs.uri]
		if d.obs.listedEnd {
			a := fetch(m, d.obs.uri)
			d.obs.again = a.body
		}
		res.slow = append(res.slow, *d.obs)
	}
	finishHint := func(k int, rotations int) {
		d := hint
		hint = nil
		if wait(d.end) < 0 {
			d.obs.hang = "the blocked preload-hint request did not return after its part was completed"
		}
		d.obs.endK = k
		d.obs.rotations = rotations
		d.obs.status = d.w.status
		d.obs.got = append([]byte{}, d.w.body.Bytes()...)
		d.obs.listedEnd = listed()[d.obs.uri]
		if d.obs.listedEnd {
			a := fetch(m, d.obs.uri)
			d.obs.again = a.body
		}
		res.slow = append(res.slow, *d.obs)
	}

	prev := snap
	for k := range h.Ops {
		a := &h.Ops[k]
		c := concretize(h, a)
		tr := tracks[a.Track]
		ntp := time.Unix(0, a.NTP)
		var err error
		switch h.Tracks[a.Track].Kind {
		case kH264:
			err = m.WriteH264(tr, ntp, a.PTS, c.au)
		case kH265:
			err = m.WriteH265(tr, ntp, a.PTS, c.au)
		case kVP9:
			err = m.WriteVP9(tr, ntp, a.PTS, c.au[0])
		case kAV1:
			err = m.WriteAV1(tr, ntp, a.PTS, c.au)
		case kAAC:
			err = m.WriteMPEG4Audio(tr, ntp, a.PTS, c.au)
		case kOpus:
			err = m.WriteOpus(tr, ntp, a.PTS, c.au)
		}
		rc := 0
		if err != nil {
			rc = 11
			if strings.Contains(err.Error(), "maximum segment size") {
				rc = 12
			}
		}
		res.results = append(res.results, rc)
		snap = gohlslib.VerifSnapshot(m)
		if len(snap.Streams) == 0 {
			break
		}
		s0, p0 := snap.Streams[0], prev.Streams[0]
		if s0.NextPartID == p0.NextPartID && s0.NextSegmentID == p0.NextSegmentID {
			prev = snap
			continue
		}
		res.rotations = append(res.rotations, &rotation{k: k, snap: snap, segRotated: s0.NextSegmentID != p0.NextSegmentID})
		// a blocked hint request: nothing below may block (the request would run) until two parts are done
		if hint != nil {
			done := snap.Streams[hint.stream].NextPartID
			last := k+1 == len(h.Ops)
			if done < uint64(hint.obs.partID)+2 && !(last && done > uint64(hint.obs.partID)) {
				prev = snap
				continue // (at the end of the history with the part still open: Close answers the request)
			}
			finishHint(k, int(done)-int(hint.obs.partID))
		}
		// slow downloads: release those whose segment has been completed and followed by further parts
		keep := pending[:0]
		for _, d := range pending {
			st := snap.Streams[d.stream]
			if !d.segRotSeen && st.NextSegmentID > d.segAtStart {
				d.segRotSeen, d.partAtRot = true, st.NextPartID
			}
			if d.segRotSeen && st.NextPartID >= d.partAtRot+d.need {
				finish(d, k)
			} else {
				keep = append(keep, d)
			}
		}
		pending = keep
		if s0.SegmentCount < 1 || k+3 >= len(h.Ops) {
			prev = snap
			continue
		}
		// new slow downloads
		if len(pending) < 4 && r.Bool(1, 2) {
			si := r.Intn(len(snap.Streams))
			st := snap.Streams[si]
			rp := fetch(m, st.ID+"_stream.m3u8"+q)
			if pm := parseMedia(string(rp.body)); rp.status == 200 && pm != nil && pm.err == "" {
				var cands []string
				for _, pp := range pm.trailing {
					cands = append(cands, pp.uri) // parts of the segment in progress: the ones a finalization hits
				}
				if r.Bool(1, 3) {
					for _, sg := range pm.segs {
						for _, pp := range sg.parts {
							cands = append(cands, pp.uri)
						}
					}
				}
				if r.Bool(1, 4) && len(pm.segs) > 0 && !pm.segs[len(pm.segs)-1].gap {
					cands = append(cands, pm.segs[len(pm.segs)-1].uri)
				}
				if r.Bool(1, 6) && pm.mapURI != "" {
					cands = append(cands, pm.mapURI)
				}
				for n := 0; n < 3 && len(cands) > 0 && len(pending) < 4; n++ {
					i := r.Intn(len(cands))
					uri := cands[i]
					cands = append(cands[:i], cands[i+1:]...)
					ref := fetch(m, uri)
					if ref.status != 200 {
						continue // the main run's oracle owns "listed => 200"
					}
					pth, _ := stripQuery(uri)
					key, _ := parsePath(res.streams, pth)
					d := &slowDownload{
						obs:    &slowObs{kind: "download", uri: uri, ukind: key.kind, startK: k, ref: ref.body},
						w:      &slowWriter{h: make(http.Header), block: true, entered: make(chan struct{}), release: make(chan struct{})},
						stream: si, segAtStart: st.NextSegmentID, need: uint64(1 + r.Intn(3)),
					}
					d.end = slowGet(m, uri, d.w)
					switch wait(d.w.entered, d.end) {
					case 0:
						pending = append(pending, d)
					case 1: // the handler returned without writing a body
						d.obs.status, d.obs.endK = d.w.status, k
						res.slow = append(res.slow, *d.obs)
					default:
						d.obs.hang = "the handler neither wrote nor returned"
						res.slow = append(res.slow, *d.obs)
					}
				}
			}
		}
		// a request for the preload hint (RAM storage: the writer makes no system call, so it keeps the P)
		if hint == nil && !h.Disk && r.Bool(1, 3) {
			si := r.Intn(len(snap.Streams))
			st := snap.Streams[si]
			rp := fetch(m, st.ID+"_stream.m3u8"+q)
			if pm := parseMedia(string(rp.body)); rp.status == 200 && pm != nil && pm.err == "" && pm.hintURI != "" {
				pth, _ := stripQuery(pm.hintURI)
				if key, ok := parsePath(res.streams, pth); ok && key.kind == 4 && uint64(key.id) == st.NextPartID {
					for len(hintEntered) > 0 {
						<-hintEntered
					}
					d := &slowDownload{
						obs:    &slowObs{kind: "hint", uri: pm.hintURI, ukind: 4, startK: k, partID: key.id},
						w:      &slowWriter{h: make(http.Header)},
						stream: si,
					}
					d.end = slowGet(m, pm.hintURI, d.w)
					switch wait(hintEntered, d.end) {
					case 0:
						// the handler is about to wait on the condition variable: let it get there
						for i := 0; i < 4; i++ {
							runtime.Gosched()
						}
						hint = d
					case 1:
						// answered at once: the part was completed in the meantime (cannot happen between two writes)
						d.obs.status, d.obs.endK = d.w.status, k
						d.obs.got = append([]byte{}, d.w.body.Bytes()...)
						res.slow = append(res.slow, *d.obs)
					default:
						d.obs.hang = "the preload-hint handler neither waited nor returned"
						res.slow = append(res.slow, *d.obs)
					}
				}
			}
		}
		prev = snap
	}
	for _, d := range pending {
		finish(d, len(h.Ops))
	}
	closed = true
	m.Close()
	if hint != nil {
		// never completed: Close wakes it up (status 500); what Close owes such a request is C07's subject
		waitFor = 200 * time.Millisecond
		wait(hint.end)
	}
	return res
}

// c05Slow: the clauses of C05 that an overlapping request can observe
func (o *oracleCtx) c05Slow() {
	h, r := o.h, o.r
	store := "ram"
	if h.Disk {
		store = "disk"
	}
	for _, s := range r.slow {
		what := kindName(s.ukind)
		if s.hang != "" {
			o.fail("C05", "ll:slow-reader:handler-hang", "%s %s (%s storage, requested after write %d): %s", s.kind, what, store, s.startK, s.hang)
			continue
		}
		if s.status == -1 {
			o.fail("C05", "ll:slow-reader:handler-panics", "%s %s: %s", s.kind, what, string(s.got))
			continue
		}
		switch s.kind {
		case "download":
			if !s.listedEnd {
				continue // it left the window while the download was blocked: outside "for as long as it stays listed"
			}
			if s.status != 200 {
				o.fail("C05", "ll:slow-reader:listed-uri-not-200", "a %s answered 200 when first fetched and %d to a request that overlapped writes %d..%d (%s storage)", what, s.status, s.startK, s.endK, store)
				continue
			}
			if !bytes.Equal(s.got, s.ref) {
				o.fail("C05", "ll:slow-reader:bytes-differ:"+what+":"+store, "a listed %s returned %d bytes when first fetched; a download of the same URI that was in progress during writes %d..%d (the handler blocked in its first Write) delivered %d bytes that differ (%s storage)",
					what, len(s.ref), s.startK, s.endK, len(s.got), store)
			}
			// (the init file is legitimately regenerated at a forced segment rotation: the main run's oracle owns that)
			if s.ukind != 2 && s.again != nil && !bytes.Equal(s.again, s.ref) {
				o.fail("C05", "ll:slow-reader:bytes-changed-while-listed:"+what+":"+store, "a listed %s returned different bytes after write %d than after write %d (%s storage)", what, s.endK, s.startK, store)
			}
		case "hint":
			if s.status != 200 || s.endK >= len(h.Ops) {
				continue // not completed by the writer (end of the history / Close): not a listed URI
			}
			parts, err := decodeParts(s.got, h.Tracks[0].Kind)
			if err != nil || len(parts) != 1 {
				o.fail("C05", "ll:slow-reader:hint-response-undecodable", "the request for part %d that waited for it got %d bytes that are not one fragment (%v)", s.partID, len(s.got), err)
				continue
			}
			if int64(parts[0].seq) != s.partID&0xffffffff {
				o.fail("C05", "ll:slow-reader:fragment-sequence-number", "the request for part %d, issued while the part was the preload hint and resumed after %d part rotations, got the fragment with sequence number %d (%s storage)",
					s.partID, s.rotations, parts[0].seq, store)
			}
			if s.listedEnd && s.again != nil && !bytes.Equal(s.again, s.got) {
				o.fail("C05", "ll:slow-reader:same-uri-different-bytes", "part %d: the request that waited for the part got %d bytes, a request for the same listed URI right after got %d different bytes (%s storage)",
					s.partID, len(s.got), len(s.again), store)
			}
		}
	}
}
