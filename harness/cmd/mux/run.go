package main

import (
	"bytes"
	"crypto/sha256"
	"fmt"
	"io"
	"net/http"
	"net/url"
	"os"
	"regexp"
	"sort"
	"strconv"
	"strings"
	"sync"
	"time"

	gohlslib "github.com/bluenviron/gohlslib/v2"
	"github.com/bluenviron/gohlslib/v2/pkg/codecs"
	"github.com/bluenviron/gohlslib/v2/pkg/storage"
	"github.com/bluenviron/mediacommon/v2/pkg/codecs/h264"
	"github.com/bluenviron/mediacommon/v2/pkg/codecs/h265"
	"github.com/bluenviron/mediacommon/v2/pkg/codecs/mpeg4audio"
	"github.com/bluenviron/mediacommon/v2/pkg/formats/fmp4"
)

func encID(id int64) []byte {
	b := make([]byte, 8)
	for i := 7; i >= 0; i-- {
		b[i] = byte(id%250) + 1
		id /= 250
	}
	return b
}
func decID(b []byte) int64 {
	if len(b) < 8 {
		return -1
	}
	var id int64
	for i := 0; i < 8; i++ {
		id = id*250 + int64(b[i]) - 1
	}
	return id
}

func fill(id int64, n int) []byte {
	// n bytes, none of them zero (no start-code emulation), deterministic from id
	if n < 8 {
		n = 8
	}
	out := append([]byte{}, encID(id)...)
	x := uint64(id)*0x9E3779B97F4A7C15 + 1
	for len(out) < n {
		x ^= x << 13
		x ^= x >> 7
		x ^= x << 17
		out = append(out, byte(x%255)+1)
	}
	return out
}

// written records what the harness itself handed to the muxer (the oracle's ground truth).
type written struct {
	op      int // index of the Write call
	track   int
	id      int64
	pts     int64
	dts     int64
	ntp     int64
	ra      bool
	sliced  bool   // video: carries an IDR or non-IDR slice
	payload []byte // bytes expected back from the container (AVCC for fMP4 video; raw AU / packet)
	nalus   [][]byte
	params  int64 // parameter id in force for this unit (video)
	hasPar  bool
}

type concrete struct {
	au      [][]byte
	units   []written
	fsize   int64
	tsize   int64
	opusdur []int64
}

func concretize(h *history, a *auA) concrete {
	t := h.Tracks[a.Track]
	var c concrete
	switch t.Kind {
	case kH264:
		var au [][]byte
		if a.HasParams {
			au = append(au, spsOf(h, a.Params), ppsOf(a.Params))
		}
		if a.BadSPS {
			au = append(au, []byte{0x67, 0xff}) // profile_idc only: no parser accepts it
		}
		u := a.Units[0]
		if (a.RA || a.NonIDR) && !h.H264Reorder && u.ID%3 == 1 {
			// a second NAL unit of comparable size in front of the slice (SEI): the access unit's size is the sum
			au = append(au, append([]byte{0x06}, fill(u.ID+7, 8+u.Len/2)...))
		}
		if a.RA {
			au = append(au, h264SliceNALU(h, a, u, true))
		}
		if a.NonIDR {
			au = append(au, h264SliceNALU(h, a, u, false))
		}
		if !a.RA && !a.NonIDR && !a.HasParams && !a.BadSPS {
			au = append(au, append([]byte{0x06}, fill(u.ID, 12)...)) // SEI only
		}
		var avcc []byte
		for _, n := range au {
			avcc = append(avcc, byte(len(n)>>24), byte(len(n)>>16), byte(len(n)>>8), byte(len(n)))
			avcc = append(avcc, n...)
			c.fsize += int64(4 + len(n))
			c.tsize += int64(len(n))
		}
		c.au = au
		c.units = []written{{track: a.Track, id: u.ID, pts: a.PTS, dts: a.DTS, ntp: a.NTP, ra: a.RA,
			sliced: a.RA || a.NonIDR, payload: avcc, nalus: au, params: a.Params, hasPar: a.HasParams}}
	case kH265:
		var au [][]byte
		if a.HasParams {
			au = append(au, h265VPSOf(a.Params), h265SPSOf(a.Params), h265PPSOf(a.Params))
		}
		u := a.Units[0]
		if a.RA {
			au = append(au, h265Slice(h265SliceType(u.ID, true), u.ID, u.Len, a.RpsArg))
		} else if a.NonIDR {
			au = append(au, h265Slice(h265SliceType(u.ID, false), u.ID, u.Len, a.RpsArg))
		}
		if !a.RA && !a.NonIDR {
			// no picture data; writeH265 has no "neither IDR nor non-IDR" filter, the unit becomes a sample,
			// so it carries its id in an SEI NALU
			au = append(au, h265NALU(h265SEI, fill(u.ID, 12)))
		}
		var avcc []byte
		for _, n := range au {
			avcc = append(avcc, byte(len(n)>>24), byte(len(n)>>16), byte(len(n)>>8), byte(len(n)))
			avcc = append(avcc, n...)
			c.fsize += int64(4 + len(n))
			c.tsize += int64(len(n))
		}
		c.au = au
		c.units = []written{{track: a.Track, id: u.ID, pts: a.PTS, dts: a.DTS, ntp: a.NTP, ra: a.RA,
			sliced: true, payload: avcc, nalus: au, params: a.Params, hasPar: a.HasParams}}
	case kVP9:
		u := a.Units[0]
		// non-key frames carry no parameters; their profile bits follow the id (the muxer does not look)
		frame := append(vp9FrameHeader(a.Params, a.RA), fill(u.ID, u.Len)...)
		if !a.RA {
			frame = append(vp9FrameHeader(u.ID%12, false), fill(u.ID, u.Len)...)
			if u.ID%7 == 3 {
				// show_existing_frame = 1 (profile 0, one-byte header 10 00 1 iii): the header parser stops there and
				// leaves every other field at its zero value; not a random-access unit
				frame = append([]byte{0x88 | byte(u.ID%8)}, fill(u.ID, u.Len)...)
			}
		}
		c.au = [][]byte{frame}
		c.fsize, c.tsize = int64(len(frame)), int64(len(frame))
		c.units = []written{{track: a.Track, id: u.ID, pts: a.PTS, dts: a.DTS, ntp: a.NTP, ra: a.RA,
			sliced: true, payload: frame, params: a.Params, hasPar: a.RA}}
	case kAV1:
		u := a.Units[0]
		var tu [][]byte
		if u.ID%3 == 0 {
			tu = append(tu, av1OBU(av1OBUTD, u.ID%2 == 0, nil))
		}
		if a.RA {
			tu = append(tu, av1SeqHdrOf(a.Params))
		}
		tu = append(tu, av1OBU(av1OBUFrame, u.ID%4 < 2, fill(u.ID, u.Len)))
		var bs []byte
		for _, o := range tu {
			bs = append(bs, av1WithSize(o)...) // low-overhead bitstream format: every OBU with its size
		}
		c.au = tu
		c.fsize, c.tsize = int64(len(bs)), int64(len(bs))
		c.units = []written{{track: a.Track, id: u.ID, pts: a.PTS, dts: a.DTS, ntp: a.NTP, ra: a.RA,
			sliced: true, payload: bs, nalus: tu, params: a.Params, hasPar: a.RA}}
	case kAAC:
		pts := a.PTS
		for i, u := range a.Units {
			p := fill(u.ID, u.Len)
			c.au = append(c.au, p)
			c.tsize += int64(len(p))
			upts := pts + int64(i)*1024*t.Rate/t.SRate
			untp := a.NTP + int64(i)*1024*1e9/t.SRate
			c.units = append(c.units, written{track: a.Track, id: u.ID, pts: upts, dts: upts, ntp: untp, ra: true,
				sliced: true, payload: p})
		}
	case kOpus:
		pts, ntp := a.PTS, a.NTP
		for _, u := range a.Units {
			toc := map[int64]byte{120: 0xE0, 240: 0xE8, 480: 0xF0, 960: 0xF8}[u.OpusDur]
			p := append([]byte{toc}, fill(u.ID, u.Len)...)
			c.au = append(c.au, p)
			c.units = append(c.units, written{track: a.Track, id: u.ID, pts: pts, dts: pts, ntp: ntp, ra: true,
				sliced: true, payload: p})
			pts += u.OpusDur
			ntp += u.OpusDur * 1e9 / 48000
		}
	}
	return c
}

// fills FSize / TSize of the abstract units from the concrete bytes (oracle values of the model)
func annotate(h *history) {
	// shadow DTS extractors (H265): the abstract dts is what the muxer's own extractor must return for
	// the concrete access units; a disagreement is a concretisation / history defect, reported loudly
	shadow := map[int]*h265.DTSExtractor{}
	shadow264 := map[int]*h264.DTSExtractor{}
	warned := false
	for i := range h.Ops {
		a := &h.Ops[i]
		c := concretize(h, a)
		t := h.Tracks[a.Track]
		if t.Kind == kH265 {
			ex := shadow[a.Track]
			if ex == nil && a.RA {
				ex = &h265.DTSExtractor{}
				ex.Initialize()
				shadow[a.Track] = ex
			}
			if ex != nil {
				if d, err := ex.Extract(c.au, a.PTS); (err != nil || d != a.DTS) && !warned {
					warned = true
					fmt.Fprintf(os.Stderr, "mux harness: H265 DTS extractor disagrees with the abstract history at write %d: got %d (%v), history says dts %d pts %d\n", i, d, err, a.DTS, a.PTS)
				}
			}
		}
		if t.Kind == kH264 && h.H264Reorder && (a.RA || a.NonIDR) {
			// the muxer feeds every unit with slices, from the first IDR on
			ex := shadow264[a.Track]
			if ex == nil && a.RA {
				ex = &h264.DTSExtractor{}
				ex.Initialize()
				shadow264[a.Track] = ex
			}
			if ex != nil {
				if d, err := ex.Extract(c.au, a.PTS); (err != nil || d != a.DTS) && !warned {
					warned = true
					fmt.Fprintf(os.Stderr, "mux harness: H264 DTS extractor disagrees with the abstract history at write %d: got %d (%v), history says dts %d pts %d\n", i, d, err, a.DTS, a.PTS)
				}
			}
		}
		if isVideoKind(t.Kind) {
			a.Units[0].FSize, a.Units[0].TSize = c.fsize, c.tsize
		} else {
			for j := range a.Units {
				a.Units[j].FSize = int64(len(c.au[j]))
				a.Units[j].TSize = int64(len(c.au[j]))
			}
		}
	}
}

// streamClosed: some stream has published something but has no open segment (a failed rotation left it so)
func streamClosed(st gohlslib.VerifMuxerState) bool {
	for _, s := range st.Streams {
		if !s.HasNextSegment && (s.SegmentCount > 0 || s.NextSegmentID > 0) {
			return true
		}
	}
	return false
}

// ---- HTTP plumbing ----

type respWriter struct {
	bytes.Buffer
	h      http.Header
	sent   http.Header // the headers as they were when the response started
	status int
}

func (w *respWriter) Header() http.Header { return w.h }

// net/http sends the header map as it is at the first WriteHeader / Write: later changes are lost
func (w *respWriter) freeze() {
	if w.sent == nil {
		w.sent = w.h.Clone()
	}
}
func (w *respWriter) WriteHeader(code int) {
	if w.sent == nil {
		w.status = code
	}
	w.freeze()
}
func (w *respWriter) Write(b []byte) (int, error) {
	w.freeze()
	return w.Buffer.Write(b)
}
func (w *respWriter) ReadFrom(r io.Reader) (int64, error) {
	w.freeze()
	return w.Buffer.ReadFrom(r)
}

// overlapWriter takes the body in pieces, like a network connection does: a first small piece, then - while this
// response is in flight - a complete second request (nested), then the rest
type overlapWriter struct {
	respWriter
	nested func()
	done   bool
}

func (w *overlapWriter) Write(b []byte) (int, error) {
	if !w.done {
		w.done = true
		w.nested()
	}
	return w.respWriter.Write(b)
}

func (w *overlapWriter) ReadFrom(r io.Reader) (int64, error) {
	w.freeze()
	buf := make([]byte, 7)
	k, err := r.Read(buf)
	w.Buffer.Write(buf[:k])
	n := int64(k)
	if !w.done {
		w.done = true
		w.nested()
	}
	if err == io.EOF {
		return n, nil
	}
	if err != nil {
		return n, err
	}
	m, err := w.Buffer.ReadFrom(r)
	return n + m, err
}

// fetchOverlap: two requests for the same URI, the second one made and completed while the first one has received
// its first bytes only
func fetchOverlap(m *gohlslib.Muxer, pathAndQuery string) (outer, inner response) {
	u, _ := url.Parse("http://localhost/" + pathAndQuery)
	w := &overlapWriter{respWriter: respWriter{h: make(http.Header)}}
	w.nested = func() { inner = fetch(m, pathAndQuery) }
	m.Handle(w, &http.Request{URL: u, Method: "GET"})
	return response{status: w.status, body: append([]byte{}, w.Bytes()...)}, inner
}

type response struct {
	status int
	ctype  string
	body   []byte
}

func fetch(m *gohlslib.Muxer, pathAndQuery string) response {
	u, _ := url.Parse("http://localhost/" + pathAndQuery)
	w := &respWriter{h: make(http.Header)}
	m.Handle(w, &http.Request{URL: u, Method: "GET"})
	hd := w.sent
	if hd == nil {
		hd = w.h
	}
	return response{status: w.status, ctype: hd.Get("Content-Type"), body: append([]byte{}, w.Bytes()...)}
}

// ---- structural URIs ----

var reSeg = regexp.MustCompile(`^([0-9a-f]{12})_(video|audio|main)(\d*)_seg(\d+)\.(mp4|ts)$`)
var rePart = regexp.MustCompile(`^([0-9a-f]{12})_(video|audio|main)(\d*)_part(\d+)\.mp4$`)
var reInit = regexp.MustCompile(`^([0-9a-f]{12})_(video|audio|main)(\d*)_init\.mp4$`)
var rePl = regexp.MustCompile(`^(video|audio|main)(\d*)_stream\.m3u8$`)

type skey struct {
	kind int // 0 index 1 playlist 2 init 3 seg 4 part
	si   int
	id   int64
}

type streamInfo struct {
	id      string
	isVideo bool
	num     int64
}

func streamIndex(streams []streamInfo, kind, num string) int {
	id := kind + num
	for i, s := range streams {
		if s.id == id {
			return i
		}
	}
	return -1
}

func parsePath(streams []streamInfo, p string) (skey, bool) {
	if p == "index.m3u8" {
		return skey{0, 0, 0}, true
	}
	if m := rePl.FindStringSubmatch(p); m != nil {
		return skey{1, streamIndex(streams, m[1], m[2]), 0}, true
	}
	if m := reInit.FindStringSubmatch(p); m != nil {
		return skey{2, streamIndex(streams, m[2], m[3]), 0}, true
	}
	if m := reSeg.FindStringSubmatch(p); m != nil {
		id, _ := strconv.ParseInt(m[4], 10, 64)
		return skey{3, streamIndex(streams, m[2], m[3]), id}, true
	}
	if m := rePart.FindStringSubmatch(p); m != nil {
		id, _ := strconv.ParseInt(m[4], 10, 64)
		return skey{4, streamIndex(streams, m[2], m[3]), id}, true
	}
	return skey{}, false
}

func stripQuery(u string) (string, string) {
	if i := strings.IndexByte(u, '?'); i >= 0 {
		return u[:i], u[i+1:]
	}
	return u, ""
}

// ---- decoded media ----

type dsample struct {
	dur, ptsoff int64
	nonsync     bool
	id          int64
	size        int64
	payload     []byte
}

type dpart struct {
	seq      uint32
	hasTrack bool
	trackID  int
	base     int64
	samples  []dsample
	nTracks  int
}

func videoID(payload []byte, sliceHdr bool) int64 {
	// AVCC: find the slice NALU (type 5 or 1), else any NALU carrying an id (SEI)
	off := h264IDOffset(sliceHdr)
	pos := 0
	best := int64(-1)
	for pos+4 <= len(payload) {
		n := int(payload[pos])<<24 | int(payload[pos+1])<<16 | int(payload[pos+2])<<8 | int(payload[pos+3])
		pos += 4
		if n <= 0 || pos+n > len(payload) {
			break
		}
		nalu := payload[pos : pos+n]
		typ := nalu[0] & 0x1F
		if typ == 5 || typ == 1 {
			if len(nalu) < off {
				return -1
			}
			return decID(nalu[off:])
		}
		if typ == 6 && best < 0 {
			best = decID(nalu[1:])
		}
		pos += n
	}
	return best
}

func decodeParts(body []byte, kind int) ([]dpart, error) {
	var parts fmp4.Parts
	if err := parts.Unmarshal(body); err != nil {
		return nil, err
	}
	var out []dpart
	for _, p := range parts {
		d := dpart{seq: p.SequenceNumber, nTracks: len(p.Tracks)}
		if len(p.Tracks) >= 1 {
			tr := p.Tracks[0]
			d.hasTrack = true
			d.trackID = tr.ID
			d.base = int64(tr.BaseTime)
			for _, s := range tr.Samples {
				ds := dsample{dur: int64(s.Duration), ptsoff: int64(s.PTSOffset), nonsync: s.IsNonSyncSample,
					size: int64(len(s.Payload)), payload: s.Payload}
				switch kind {
				case kH264:
					ds.id = videoID(s.Payload, false)
				case kH264R:
					ds.id = videoID(s.Payload, true)
				case kH265:
					ds.id = h265SampleID(s.Payload)
				case kVP9:
					ds.id = vp9FrameID(s.Payload)
				case kAV1:
					ds.id = av1SampleID(s.Payload)
				case kOpus:
					if len(s.Payload) > 1 {
						ds.id = decID(s.Payload[1:])
					}
				default:
					ds.id = decID(s.Payload)
				}
				d.samples = append(d.samples, ds)
			}
		}
		out = append(out, d)
	}
	return out, nil
}

type dpartRec struct {
	p          dpart
	segID      int64
	firstInSeg bool
}

type dunit struct {
	track    int
	pts, dts int64
	ra       bool
	ids      []int64
	sizes    []int64
	payloads [][]byte
}

// decodeTS is a small independent MPEG-TS demuxer (mediacommon's Reader cannot open a segment in
// which one of the PMT's streams has no packet). Assumes the PIDs mediacommon assigns: 256 + track index.
func decodeTS(body []byte, ntracks int, kinds []int) ([]dunit, bool, error) {
	// PAT/PMT first: the first packet must be PID 0 and the second the PMT (PID 4096)
	pid := func(off int) int { return int(body[off+1]&0x1f)<<8 | int(body[off+2]) }
	tablesFirst := len(body) >= 376 && body[0] == 0x47 && pid(0) == 0 && body[188] == 0x47 && pid(188) == 4096
	if len(body)%188 != 0 {
		return nil, tablesFirst, fmt.Errorf("length %d is not a multiple of 188", len(body))
	}
	type pes struct {
		data []byte
		ra   bool
	}
	cur := map[int]*pes{}
	var order []struct {
		pid int
		p   *pes
	}
	for off := 0; off+188 <= len(body); off += 188 {
		pk := body[off : off+188]
		if pk[0] != 0x47 {
			return nil, tablesFirst, fmt.Errorf("lost sync at %d", off)
		}
		p := int(pk[1]&0x1f)<<8 | int(pk[2])
		if p < 256 || p >= 256+ntracks {
			continue
		}
		pusi := pk[1]&0x40 != 0
		afc := (pk[3] >> 4) & 3
		pos := 4
		ra := false
		if afc&2 != 0 {
			afl := int(pk[4])
			if afl > 0 {
				ra = pk[5]&0x40 != 0
			}
			pos = 5 + afl
		}
		if afc&1 == 0 || pos > 188 {
			continue
		}
		if pusi {
			np := &pes{ra: ra}
			cur[p] = np
			order = append(order, struct {
				pid int
				p   *pes
			}{p, np})
		}
		if cur[p] != nil {
			cur[p].data = append(cur[p].data, pk[pos:]...)
		}
	}
	var out []dunit
	for _, e := range order {
		d := e.p.data
		if len(d) < 9 || d[0] != 0 || d[1] != 0 || d[2] != 1 {
			return nil, tablesFirst, fmt.Errorf("bad PES start")
		}
		flags := d[7] >> 6
		hl := int(d[8])
		rd := func(b []byte) int64 {
			return int64(b[0]>>1&7)<<30 | int64(b[1])<<22 | int64(b[2]>>1)<<15 | int64(b[3])<<7 | int64(b[4]>>1)
		}
		var pts, dts int64
		if flags&2 != 0 {
			pts = rd(d[9:14])
			dts = pts
		}
		if flags == 3 {
			dts = rd(d[14:19])
		}
		pl := d[9+hl:]
		if l := int(d[4])<<8 | int(d[5]); l != 0 && l-3-hl <= len(pl) {
			pl = pl[:l-3-hl]
		}
		ti := e.pid - 256
		u := dunit{track: ti, pts: pts, dts: dts}
		if kinds[ti] == kH264 || kinds[ti] == kH264R {
			idOff := h264IDOffset(kinds[ti] == kH264R)
			// Annex-B
			var nalus [][]byte
			i, start := 0, -1
			for i+3 <= len(pl) {
				if pl[i] == 0 && pl[i+1] == 0 && pl[i+2] == 1 {
					if start >= 0 {
						end := i
						for end > start && pl[end-1] == 0 {
							end--
						}
						nalus = append(nalus, pl[start:end])
					}
					start = i + 3
					i += 3
				} else {
					i++
				}
			}
			if start >= 0 {
				nalus = append(nalus, pl[start:])
			}
			var id int64 = -1
			var total int64
			var pay []byte
			for _, n := range nalus {
				if len(n) == 0 || n[0]&0x1f == 9 {
					continue // AUD added by the writer
				}
				total += int64(len(n))
				pay = append(pay, byte(len(n)>>24), byte(len(n)>>16), byte(len(n)>>8), byte(len(n)))
				pay = append(pay, n...)
				t := n[0] & 0x1f
				if t == 5 {
					u.ra = true
				}
				if (t == 5 || t == 1) && len(n) > 7+idOff {
					id = decID(n[idOff:])
				}
				if t == 6 && id < 0 && len(n) > 8 {
					id = decID(n[1:])
				}
			}
			u.ids, u.sizes, u.payloads = []int64{id}, []int64{total}, [][]byte{pay}
		} else {
			u.ra = true
			for len(pl) >= 7 {
				if pl[0] != 0xff || pl[1]&0xf0 != 0xf0 {
					return nil, tablesFirst, fmt.Errorf("bad ADTS sync")
				}
				fl := int(pl[3]&3)<<11 | int(pl[4])<<3 | int(pl[5]>>5)
				hdr := 7
				if pl[1]&1 == 0 {
					hdr = 9
				}
				if fl < hdr || fl > len(pl) {
					return nil, tablesFirst, fmt.Errorf("bad ADTS length")
				}
				a := pl[hdr:fl]
				u.ids = append(u.ids, decID(a))
				u.sizes = append(u.sizes, int64(len(a)))
				u.payloads = append(u.payloads, a)
				pl = pl[fl:]
			}
		}
		out = append(out, u)
	}
	return out, tablesFirst, nil
}

// ---- one run of the real muxer ----

type rotation struct {
	k          int // write index
	playlists  []*parsedMedia
	deltas     []*parsedMedia // Low-Latency: the same playlists requested with _HLS_skip=YES, same instant
	window     []winObs       // what a reader sees right after the rotation released the mutex, before Write returns
	plRaw      []string
	index      *parsedMulti
	indexRaw   string
	indexResp  response
	snap       gohlslib.VerifMuxerState
	newParts   [][]dpartRec // per stream: parts finalized by this write (decoded), with their segment
	newTS      [][]dunit    // per stream (mpegts): the segment published by this rotation
	tablesOK   []bool
	segRotated bool
	dirFiles   []string
	probes     []probe
	otherQuery []otherObs // the same playlists as requested by another client with another pass-through query
}

type otherObs struct {
	si    int
	query string
	pm    *parsedMedia
}

// winObs: a stream's media playlist and the init segment it names, fetched from inside the rotation's
// "mutex released" yield point (build tag verif), i.e. by a reader scheduled between the rotation and whatever
// the writer still does before Write returns
type winObs struct {
	si   int
	pm   *parsedMedia
	init []byte
}

type probe struct {
	uri     string
	listed  bool
	resp    response
	overlap []response // the same URI fetched by two overlapping requests (outer, inner), when tried
}

type runResult struct {
	startErr  bool
	streams   []streamInfo
	lines     [][]int64
	results   []int // per write: 0 ok, 12 max size, 1 other error
	rotations []*rotation
	written   [][]written // per track
	encErrors []string
	prefix    string
	firstOpen int // index of the write that created the first segment (-1 if none)
	hashes    map[string][32]byte
	panics    []string
	slow      []slowObs // slow-reader leg
}

func mkTracks(h *history) []*gohlslib.Track {
	var out []*gohlslib.Track
	for _, t := range h.Tracks {
		tr := &gohlslib.Track{ClockRate: int(t.Rate), IsDefault: t.Default}
		tr.Name = trackNameOf(t.Name)
		if t.Lang != 0 {
			tr.Language = "l" + strconv.Itoa(t.Lang)
		}
		switch t.Kind {
		case kH264:
			tr.Codec = &codecs.H264{SPS: spsOf(h, t.Params0), PPS: ppsOf(t.Params0)}
		case kH265:
			tr.Codec = &codecs.H265{VPS: h265VPSOf(t.Params0), SPS: h265SPSOf(t.Params0), PPS: h265PPSOf(t.Params0)}
		case kVP9:
			v := vp9ParamsOf(t.Params0)
			tr.Codec = &codecs.VP9{Width: v.w, Height: v.h, Profile: v.profile, BitDepth: v.bitDepth,
				ChromaSubsampling: v.subsampling, ColorRange: v.colorRange}
		case kAV1:
			tr.Codec = &codecs.AV1{SequenceHeader: av1SeqHdrOf(t.Params0)}
		case kAAC:
			cfg := mpeg4audio.Config{Type: 2, SampleRate: int(t.SRate), ChannelCount: 2}
			if (t.Name+t.Lang+len(h.Tracks))%3 == 1 && t.SRate <= 48000 {
				// explicit SBR signalling (HE-AAC): the extension sample rate is NOT the track's time scale
				cfg.ExtensionType = mpeg4audio.ObjectTypeSBR
				cfg.ExtensionSampleRate = int(2 * t.SRate)
			}
			tr.Codec = &codecs.MPEG4Audio{Config: cfg}
		case kOpus:
			tr.Codec = &codecs.Opus{ChannelCount: 2}
		}
		out = append(out, tr)
	}
	return out
}

func b2i(b bool) int64 {
	if b {
		return 1
	}
	return 0
}

func nameCode(s string, id string) int64 {
	if s == "" || s == id {
		return 0
	}
	if strings.HasPrefix(s, "name") {
		v, _ := strconv.ParseInt(s[4:], 10, 64)
		return v
	}
	if strings.HasPrefix(s, "audio") {
		// a user-given name that is another stream's fallback name (nameAudioBase in gen.go)
		if v, err := strconv.ParseInt(s[5:], 10, 64); err == nil {
			return nameAudioBase + v
		}
	}
	return -1
}
func langCode(s string) int64 {
	if s == "" {
		return 0
	}
	v, _ := strconv.ParseInt(strings.TrimPrefix(s, "l"), 10, 64)
	return v
}

func variantOf(h *history) gohlslib.MuxerVariant {
	if h.VariantUnset && h.Variant == 3 {
		return 0
	}
	switch h.Variant {
	case 1:
		return gohlslib.MuxerVariantMPEGTS
	case 2:
		return gohlslib.MuxerVariantFMP4
	}
	return gohlslib.MuxerVariantLowLatency
}

// faultFactory fails the NewFile calls whose ordinal is listed, like os.Create does on a transient
// EMFILE / ENOSPC, and forwards the others.
type faultFactory struct {
	inner storage.Factory
	fail  map[int]bool
	wfail map[int]bool
	n, wn int
	mu    sync.Mutex
}

func (f *faultFactory) NewFile(fileName string) (storage.File, error) {
	f.mu.Lock()
	k := f.n
	f.n++
	f.mu.Unlock()
	if f.fail[k] {
		return nil, fmt.Errorf("open %s: too many open files (injected)", fileName)
	}
	fl, err := f.inner.NewFile(fileName)
	if err != nil || len(f.wfail) == 0 {
		return fl, err
	}
	return &faultFile{File: fl, f: f}, nil
}

// write faults: the listed Write calls on part writers fail like a write on a full disk
type faultFile struct {
	storage.File
	f *faultFactory
}

func (ff *faultFile) NewPart() storage.Part { return &faultPart{Part: ff.File.NewPart(), f: ff.f} }

type faultPart struct {
	storage.Part
	f *faultFactory
}

func (fp *faultPart) Writer() io.WriteSeeker { return &faultWriter{WriteSeeker: fp.Part.Writer(), f: fp.f} }

type faultWriter struct {
	io.WriteSeeker
	f *faultFactory
}

func (fw *faultWriter) Write(b []byte) (int, error) {
	fw.f.mu.Lock()
	k := fw.f.wn
	fw.f.wn++
	fw.f.mu.Unlock()
	if fw.f.wfail[k] {
		return 0, fmt.Errorf("write: no space left on device (injected)")
	}
	return fw.WriteSeeker.Write(b)
}

func runImpl(h *history, dir string) (res *runResult) {
	res = &runResult{firstOpen: -1, hashes: map[string][32]byte{}}
	defer func() {
		if r := recover(); r != nil {
			res.panics = append(res.panics, fmt.Sprint(r))
		}
	}()
	tracks := mkTracks(h)
	m := &gohlslib.Muxer{
		Tracks:             tracks,
		Variant:            variantOf(h),
		SegmentCount:       h.SegCount,
		SegmentMinDuration: time.Duration(h.SegMin),
		PartMinDuration:    time.Duration(h.PartMin),
		SegmentMaxSize:     uint64(h.SegMax),
		OnEncodeError:      func(err error) { res.encErrors = append(res.encErrors, err.Error()) },
	}
	if h.Disk {
		os.MkdirAll(dir, 0o755)
		m.Directory = dir
	}
	if err := m.Start(); err != nil {
		res.startErr = true
		res.lines = append(res.lines, []int64{0, 11})
		return res
	}
	defer func() {
		// a panic inside a Write leaves the muxer's mutex locked: Close would block forever
		if r := recover(); r != nil {
			res.panics = append(res.panics, fmt.Sprint(r))
			go m.Close()
			return
		}
		m.Close()
	}()
	if len(h.Faults) > 0 || len(h.WriteFaults) > 0 {
		fail, wfail := map[int]bool{}, map[int]bool{}
		for _, f := range h.Faults {
			fail[f] = true
		}
		for _, f := range h.WriteFaults {
			wfail[f] = true
		}
		gohlslib.VerifWrapStorage(m, func(inner storage.Factory) storage.Factory {
			return &faultFactory{inner: inner, fail: fail, wfail: wfail}
		})
	}

	snap := gohlslib.VerifSnapshot(m)
	res.prefix = snap.Prefix
	line0 := []int64{0, 0}
	for _, s := range snap.Streams {
		si := streamInfo{id: s.ID, isVideo: strings.HasPrefix(s.ID, "video")}
		if s.ID != "main" {
			v, _ := strconv.ParseInt(strings.TrimLeft(s.ID, "videoaudio"), 10, 64)
			si.num = v
		}
		res.streams = append(res.streams, si)
		line0 = append(line0, b2i(si.isVideo), si.num, b2i(s.IsLeading), b2i(s.IsRendition), b2i(s.IsDefault),
			nameCode(s.Name, s.ID), langCode(s.Language))
	}
	res.lines = append(res.lines, line0)
	res.written = make([][]written, len(h.Tracks))

	counters := func(st gohlslib.VerifMuxerState) string {
		var sb strings.Builder
		for _, s := range st.Streams {
			fmt.Fprintf(&sb, "%d/%d;", s.NextSegmentID, s.NextPartID)
		}
		return sb.String()
	}
	segCounters := func(st gohlslib.VerifMuxerState) string {
		var sb strings.Builder
		for _, s := range st.Streams {
			fmt.Fprintf(&sb, "%d;", s.NextSegmentID)
		}
		return sb.String()
	}
	prev := snap
	q := ""
	if h.Query != "" {
		q = "?" + h.Query
	}
	streamKinds := make([]int, len(snap.Streams)) // codec kind of the stream's (first) track
	for i := range snap.Streams {
		if h.Variant == 1 {
			streamKinds[i] = 0
		} else {
			streamKinds[i] = decKind(h, h.Tracks[i].Kind)
		}
	}
	tsKinds := make([]int, len(h.Tracks))
	for i, t := range h.Tracks {
		tsKinds[i] = decKind(h, t.Kind)
	}
	everListed := map[string]bool{}
	lastFetched := "" // the URI of the last request of the previous round (see the end of the loop)

	var window []winObs
	unhook := setLocalHook(func(point string) {
		if point != "rotateSegments:unlocked" || h.Variant == 1 {
			return
		}
		st := gohlslib.VerifSnapshot(m)
		if len(h.Faults) > 0 && h.Variant == 3 && streamClosed(st) {
			return
		}
		for si, s := range st.Streams {
			if s.SegmentCount < 1 || (h.Variant == 2 && s.SegmentCount < 2) {
				continue // the request would block
			}
			r := fetch(m, s.ID+"_stream.m3u8"+q)
			if r.status != 200 {
				continue
			}
			pm := parseMedia(string(r.body))
			if pm.err != "" || pm.mapURI == "" {
				continue
			}
			window = append(window, winObs{si: si, pm: pm, init: fetch(m, pm.mapURI).body})
		}
	})
	defer unhook()
	ntpLoc := []*time.Location{time.UTC, time.FixedZone("east", 2*3600), time.FixedZone("west", -(5*3600 + 1800))}[(len(h.Ops)+h.SegCount)%3]
	for k := range h.Ops {
		a := &h.Ops[k]
		c := concretize(h, a)
		tr := tracks[a.Track]
		// the same instant, in a location that is not UTC for two histories in three (PROGRAM-DATE-TIME must not
		// depend on the location of the time.Time the application passes)
		ntp := time.Unix(0, a.NTP).In(ntpLoc)
		window = nil
		var err error
		switch h.Tracks[a.Track].Kind {
		case kH264:
			err = m.WriteH264(tr, ntp, a.PTS, c.au)
		case kH265:
			err = m.WriteH265(tr, ntp, a.PTS, c.au)
		case kVP9:
			err = m.WriteVP9(tr, ntp, a.PTS, c.au[0])
		case kAV1:
			err = m.WriteAV1(tr, ntp, a.PTS, c.au)
		case kAAC:
			err = m.WriteMPEG4Audio(tr, ntp, a.PTS, c.au)
		case kOpus:
			err = m.WriteOpus(tr, ntp, a.PTS, c.au)
		}
		rc := int64(0)
		if err != nil {
			if strings.Contains(err.Error(), "maximum segment size") {
				rc = 12
			} else {
				rc = 11
				if os.Getenv("MUXDEBUG") != "" {
					fmt.Fprintf(os.Stderr, "write error (leg %q, write %d): %v\n", h.Leg, k, err)
				}
			}
		}
		res.results = append(res.results, int(rc))
		for _, u := range c.units {
			u.op = k
			res.written[a.Track] = append(res.written[a.Track], u)
		}
		res.lines = append(res.lines, []int64{1, int64(k), rc})

		if h.Disk && k == len(h.Ops)/2 && len(h.Faults) == 0 && len(h.WriteFaults) == 0 {
			// a second muxer session comes and goes on the same Directory (file names start with a per-muxer random
			// prefix so that sessions can share one): nothing this muxer lists may be affected (round 10: C05-m14,
			// NewFactoryDisk removing the "leftover" segment files it finds in the directory)
			nb := &gohlslib.Muxer{Tracks: mkTracks(h), Variant: variantOf(h), SegmentCount: h.SegCount, Directory: dir}
			if nb.Start() == nil {
				nb.Close()
			}
		}
		snap = gohlslib.VerifSnapshot(m)
		if res.firstOpen < 0 && len(snap.Streams) > 0 && snap.Streams[0].HasNextSegment {
			res.firstOpen = k
		}
		l2 := []int64{2, int64(k), b2i(snap.PendingParamsChange), int64(snap.AdjustedPartDuration),
			b2i(snap.FreezeAdjustedPartDuration), int64(len(snap.Paths))}
		for _, s := range snap.Streams {
			l2 = append(l2, int64(s.NextSegmentID), int64(s.NextPartID), int64(s.SegmentDeleteCount),
				int64(s.SegmentCount), int64(s.Gaps), int64(s.TargetDuration), int64(s.PartTargetDuration),
				b2i(s.InitFilePresent), b2i(s.HasNextSegment), int64(s.NextSegmentParts))
		}
		res.lines = append(res.lines, l2)

		if counters(snap) == counters(prev) {
			prev = snap
			continue
		}
		if len(h.Faults) > 0 && h.Variant == 3 && streamClosed(snap) {
			// Low-Latency, after a rotation that could not create the next segment: until the next write opens a
			// segment again a media playlist request panics in the unchanged code (DESIGN.md 12.3, observation O1;
			// storage faults are outside the properties' quantifiers) - nothing is requested in that window, and
			// the next round is compared with the last one that was observed
			continue
		}
		rot := &rotation{k: k, snap: snap, segRotated: segCounters(snap) != segCounters(prev), window: window}
		if lastFetched != "" {
			pth, _ := stripQuery(lastFetched)
			still := false
			for _, p := range snap.Paths {
				if p == pth {
					still = true
				}
			}
			if !still {
				rot.probes = append(rot.probes, probe{uri: lastFetched, listed: false, resp: fetch(m, lastFetched)})
			}
		}
		// playlists
		for si, s := range snap.Streams {
			var pm *parsedMedia
			line := []int64{3, int64(k), int64(si)}
			avail := s.SegmentCount >= 1
			if h.Variant == 2 {
				avail = s.SegmentCount >= 2
			}
			if !avail {
				// the request would block: not issued
				line = append(line, 0)
				rot.playlists = append(rot.playlists, nil)
				if h.Variant == 3 {
					rot.deltas = append(rot.deltas, nil)
				}
				rot.plRaw = append(rot.plRaw, "")
				res.lines = append(res.lines, line)
				continue
			}
			// another client of the same playlist, with its own pass-through query (or none), asks FIRST: what the
			// history's own client is told afterwards must not depend on it (round 10: C04-m14, playlist entries of
			// older segments cached with the query of whichever request built them)
			{
				oq := "?tok=other" + strconv.Itoa(k%3)
				if k%2 == 1 {
					oq = ""
				}
				if ro := fetch(m, s.ID+"_stream.m3u8"+oq); ro.status == 200 {
					if po := parseMedia(string(ro.body)); po.err == "" {
						rot.otherQuery = append(rot.otherQuery, otherObs{si: si, query: strings.TrimPrefix(oq, "?"), pm: po})
					}
				}
			}
			r := fetch(m, s.ID+"_stream.m3u8"+q)
			if r.status == 200 {
				pm = parseMedia(string(r.body))
			}
			rot.playlists = append(rot.playlists, pm)
			rot.plRaw = append(rot.plRaw, string(r.body))
			if h.Variant == 3 {
				sep := "?"
				if q != "" {
					sep = "&"
				}
				var pd *parsedMedia
				if rd := fetch(m, s.ID+"_stream.m3u8"+q+sep+"_HLS_skip=YES"); rd.status == 200 {
					pd = parseMedia(string(rd.body))
				}
				rot.deltas = append(rot.deltas, pd)
			}
			if pm == nil || pm.err != "" {
				line = append(line, -1, int64(r.status))
				res.lines = append(res.lines, line)
				continue
			}
			line = append(line, 1, pm.version, pm.msn, pm.target, b2i(pm.hasServerControl), pm.partTarget,
				pm.holdBack, pm.skipUntil, b2i(pm.mapURI != ""), int64(len(pm.segs)))
			for i, sg := range pm.segs {
				// exact durations come from the snapshot; the text form is checked by the C03 oracle
				dur := int64(-1)
				if i < len(s.SegmentDurations) {
					dur = int64(s.SegmentDurations[i])
				}
				id := int64(-1)
				if !sg.gap {
					p, _ := stripQuery(sg.uri)
					if key, ok := parsePath(res.streams, p); ok && key.kind == 3 {
						id = key.id
					} else {
						id = -2
					}
				}
				line = append(line, b2i(sg.gap), id, dur, b2i(sg.hasDT), sg.dtMs, int64(len(sg.parts)))
				for j, pp := range sg.parts {
					pd := int64(-1)
					if i < len(s.SegmentPartDurs) && j < len(s.SegmentPartDurs[i]) {
						pd = int64(s.SegmentPartDurs[i][j])
					}
					pid := int64(-2)
					p, _ := stripQuery(pp.uri)
					if key, ok := parsePath(res.streams, p); ok && key.kind == 4 {
						pid = key.id
					}
					line = append(line, pid, pd, b2i(pp.independent))
				}
			}
			line = append(line, int64(len(pm.trailing)))
			for j, pp := range pm.trailing {
				pd := int64(-1)
				if j < len(s.NextSegmentPartDurs) {
					pd = int64(s.NextSegmentPartDurs[j])
				}
				pid := int64(-2)
				p, _ := stripQuery(pp.uri)
				if key, ok := parsePath(res.streams, p); ok && key.kind == 4 {
					pid = key.id
				}
				line = append(line, pid, pd, b2i(pp.independent))
			}
			hint := int64(-1)
			if pm.hintURI != "" {
				p, _ := stripQuery(pm.hintURI)
				if key, ok := parsePath(res.streams, p); ok && key.kind == 4 {
					hint = key.id
				} else {
					hint = -2
				}
			}
			line = append(line, hint)
			res.lines = append(res.lines, line)
		}
		// multivariant
		{
			line := []int64{4, int64(k)}
			avail := snap.Streams[0].SegmentCount >= 1
			if h.Variant == 2 {
				avail = snap.Streams[0].SegmentCount >= 2
			}
			if !avail {
				line = append(line, 0, 0)
			} else {
				var r response
				func() {
					defer func() {
						if rec := recover(); rec != nil {
							r.status = -1
							r.body = []byte(fmt.Sprint(rec))
						}
					}()
					r = fetch(m, "index.m3u8"+q)
				}()
				rot.indexResp = r
				rot.indexRaw = string(r.body)
				switch {
				case r.status == -1:
					line = append(line, 21)
					if !gohlslib.VerifMutexFree(m) {
						// the panic unwound through the deferred unlock; nothing else to do
						_ = 0
					}
				case r.status != 200:
					line = append(line, 11)
				default:
					pmv := parseMulti(string(r.body))
					rot.index = pmv
					line = append(line, 0, 1, pmv.version, 0, 0)
					line = append(line, encodeMultiStructure(h, res, pmv)...)
				}
			}
			res.lines = append(res.lines, line)
		}
		// paths
		{
			line := []int64{5, int64(k)}
			var keys []skey
			for _, p := range snap.Paths {
				if key, ok := parsePath(res.streams, p); ok {
					keys = append(keys, key)
				} else {
					keys = append(keys, skey{9, 0, 0})
				}
			}
			sort.Slice(keys, func(i, j int) bool {
				a, b := keys[i], keys[j]
				if a.kind != b.kind {
					return a.kind < b.kind
				}
				if a.si != b.si {
					return a.si < b.si
				}
				return a.id < b.id
			})
			for _, key := range keys {
				line = append(line, int64(key.kind), int64(key.si), key.id)
			}
			res.lines = append(res.lines, line)
		}
		// newly finalized media
		rot.newParts = make([][]dpartRec, len(snap.Streams))
		rot.newTS = make([][]dunit, len(snap.Streams))
		rot.tablesOK = make([]bool, len(snap.Streams))
		for si, s := range snap.Streams {
			switch h.Variant {
			case 1:
				if !rot.segRotated || s.SegmentCount == 0 {
					continue
				}
				segID := s.SegmentIDs[len(s.SegmentIDs)-1]
				r := fetch(m, fmt.Sprintf("%s_%s_seg%d.ts", snap.Prefix, s.ID, segID))
				units, tables, err := decodeTS(r.body, len(h.Tracks), tsKinds)
				line := []int64{7, int64(k), int64(si), segID}
				if err != nil || r.status != 200 {
					if os.Getenv("MUXDEBUG") != "" {
						fmt.Fprintf(os.Stderr, "TS decode failed: write %d seg %d status %d len %d err %v pids:", k, segID, r.status, len(r.body), err)
						for off := 0; off+188 <= len(r.body); off += 188 {
							fmt.Fprintf(os.Stderr, " %d", int(r.body[off+1]&0x1f)<<8|int(r.body[off+2]))
						}
						fmt.Fprintln(os.Stderr)
					}
					line = append(line, -1)
				} else {
					line = append(line, int64(len(units)))
					sort.SliceStable(units, func(i, j int) bool { return units[i].track < units[j].track })
					for _, u := range units {
						line = append(line, int64(u.track), u.pts, u.dts, b2i(u.ra), int64(len(u.ids)))
						for j := range u.ids {
							line = append(line, u.ids[j], u.sizes[j])
						}
					}
				}
				rot.newTS[si] = units
				rot.tablesOK[si] = tables
				res.lines = append(res.lines, line)
			default:
				// every part finalized by this write: ids prev.NextPartID .. NextPartID-1
				segOfPart := map[int64]int64{}
				firstOfSeg := map[int64]bool{}
				for i, ids := range s.SegmentPartIDs {
					for j, id := range ids {
						segOfPart[int64(id)] = s.SegmentIDs[i]
						firstOfSeg[int64(id)] = j == 0
					}
				}
				for j, id := range s.NextSegmentPartIDs {
					segOfPart[int64(id)] = int64(s.NextSegmentID)
					firstOfSeg[int64(id)] = j == 0
				}
				lo, hi := int64(prev.Streams[si].NextPartID), int64(s.NextPartID)
				if h.Variant == 3 {
					for pid := lo; pid < hi; pid++ {
						r := fetch(m, fmt.Sprintf("%s_%s_part%d.mp4", snap.Prefix, s.ID, pid))
						line := []int64{6, int64(k), int64(si)}
						parts, err := decodeParts(r.body, streamKinds[si])
						if r.status != 200 || err != nil || len(parts) != 1 {
							line = append(line, -1, int64(r.status), int64(len(parts)))
						} else {
							p := parts[0]
							line = append(line, int64(p.seq), b2i(p.hasTrack), p.base, int64(len(p.samples)))
							for _, sm := range p.samples {
								line = append(line, sm.dur, sm.ptsoff, b2i(sm.nonsync), sm.id, sm.size)
							}
							rot.newParts[si] = append(rot.newParts[si], dpartRec{p: p, segID: segOfPart[pid], firstInSeg: firstOfSeg[pid]})
						}
						res.lines = append(res.lines, line)
					}
				} else {
					for sid := int64(prev.Streams[si].NextSegmentID); sid < int64(s.NextSegmentID); sid++ {
						r := fetch(m, fmt.Sprintf("%s_%s_seg%d.mp4", snap.Prefix, s.ID, sid))
						line := []int64{6, int64(k), int64(si)}
						parts, err := decodeParts(r.body, streamKinds[si])
						if r.status != 200 || err != nil || len(parts) != 1 {
							line = append(line, -1, int64(r.status), int64(len(parts)))
						} else {
							p := parts[0]
							line = append(line, int64(p.seq), b2i(p.hasTrack), p.base, int64(len(p.samples)))
							for _, sm := range p.samples {
								line = append(line, sm.dur, sm.ptsoff, b2i(sm.nonsync), sm.id, sm.size)
							}
							rot.newParts[si] = append(rot.newParts[si], dpartRec{p: p, segID: sid, firstInSeg: true})
						}
						res.lines = append(res.lines, line)
					}
				}
			}
		}
		// probes for the C05 / C18 oracles: every listed URI, plus everything that was ever listed
		for si, pm := range rot.playlists {
			if pm == nil || pm.err != "" {
				continue
			}
			_ = si
			var uris []string
			if pm.mapURI != "" {
				uris = append(uris, pm.mapURI)
			}
			for _, sg := range pm.segs {
				if !sg.gap {
					uris = append(uris, sg.uri)
				}
				for _, pp := range sg.parts {
					uris = append(uris, pp.uri)
				}
			}
			for _, pp := range pm.trailing {
				uris = append(uris, pp.uri)
			}
			for ui, u := range uris {
				r := fetch(m, u)
				pb := probe{uri: u, listed: true, resp: r}
				if len(uris) > 0 && ui == (k+si)%len(uris) {
					// one listed URI per playlist and round is also fetched by two overlapping requests
					o1, o2 := fetchOverlap(m, u)
					pb.overlap = []response{o1, o2}
				}
				rot.probes = append(rot.probes, pb)
				everListed[u] = true
			}
		}
		listedNow := map[string]bool{}
		for _, p := range rot.probes {
			listedNow[p.uri] = true
		}
		for u := range everListed {
			if !listedNow[u] {
				rot.probes = append(rot.probes, probe{uri: u, listed: false, resp: fetch(m, u)})
			}
		}
		rot.probes = append(rot.probes, probe{uri: snap.Prefix + "_video1_seg999999.mp4", resp: fetch(m, snap.Prefix+"_video1_seg999999.mp4")},
			probe{uri: "nonexistent.mp4", resp: fetch(m, "nonexistent.mp4")})
		if h.Disk {
			ents, _ := os.ReadDir(dir)
			for _, e := range ents {
				rot.dirFiles = append(rot.dirFiles, e.Name())
			}
			sort.Strings(rot.dirFiles)
		}
		// the very last request of this round is for the oldest listed segment of the first stream that lists one: if
		// the next rotation evicts it, it is also the very first request after that rotation (a server that remembers
		// its last lookup must forget it when the path is unregistered)
		lastFetched = ""
		for _, pm := range rot.playlists {
			if pm == nil || pm.err != "" || lastFetched != "" {
				continue
			}
			for _, sg := range pm.segs {
				if !sg.gap {
					lastFetched = sg.uri
					fetch(m, sg.uri)
					break
				}
			}
		}
		res.rotations = append(res.rotations, rot)
		prev = snap
	}
	_ = sha256.Sum256
	return res
}

func encodeMultiStructure(h *history, res *runResult, p *parsedMulti) []int64 {
	// codecs are compared as (kind, parameter id) recovered from the codec strings
	var out []int64
	out = append(out, int64(len(p.codecs)))
	for _, c := range p.codecs {
		k, par := classifyCodec(c)
		out = append(out, k, par)
	}
	// resolution / frame rate present <=> a video track exists; its parameter id comes from the codec string
	vk, vp := int64(0), int64(0)
	has := int64(0)
	for _, c := range p.codecs {
		k, par := classifyCodec(c)
		if k >= 1 && k <= 4 {
			has, vk, vp = 1, k, par
		}
	}
	if p.resolution == "" {
		has, vk, vp = 0, 0, 0
	}
	out = append(out, has, vk, vp)
	pth, _ := stripQuery(p.uri)
	if m := rePl.FindStringSubmatch(pth); m != nil {
		num, _ := strconv.ParseInt(m[2], 10, 64)
		out = append(out, b2i(m[1] == "video"), num)
	} else {
		out = append(out, -1, -1)
	}
	out = append(out, b2i(p.audio != ""), int64(len(p.renditions)))
	for _, r := range p.renditions {
		isv, num := int64(0), int64(-1)
		sid := ""
		if r.uri != "" {
			pth, _ := stripQuery(r.uri)
			if m := rePl.FindStringSubmatch(pth); m != nil {
				num, _ = strconv.ParseInt(m[2], 10, 64)
				isv = b2i(m[1] == "video")
				sid = m[1] + m[2]
			}
		} else {
			// the leading stream's rendition carries no URI: identify it by position
			for _, s := range res.streams {
				_ = s
			}
			lead := leadingStreamInfo(h, res)
			isv, num, sid = b2i(lead.isVideo), lead.num, lead.id
		}
		out = append(out, isv, num, nameCode(r.name, sid), langCode(r.language), b2i(r.isDefault), b2i(r.uri != ""))
	}
	return out
}

func leadingStreamInfo(h *history, res *runResult) streamInfo {
	hasVideo := false
	for _, t := range h.Tracks {
		if isVideoKind(t.Kind) {
			hasVideo = true
		}
	}
	if h.Variant == 1 {
		return res.streams[0]
	}
	for i, t := range h.Tracks {
		if isVideoKind(t.Kind) || (!hasVideo && i == 0) {
			return res.streams[i]
		}
	}
	return res.streams[0]
}

// classifyCodec maps an RFC 6381 string back to (kind code, parameter id) for the comparison with
// the model; the strings themselves are checked by the C16 oracle.
func classifyCodec(c string) (int64, int64) {
	switch {
	case strings.HasPrefix(c, "avc1."):
		// level byte distinguishes SPS variants: 28 / 29 / 2a; the PPS does not show
		lvl := c[len(c)-2:]
		return 1, map[string]int64{"28": 0, "29": 1, "2a": 2}[strings.ToLower(lvl)]
	case strings.HasPrefix(c, "hvc1."), strings.HasPrefix(c, "vp09."), strings.HasPrefix(c, "av01."):
		// the three variants g = (id / 4) mod 3 of each kind have distinct strings (level / profile /
		// tier / bit depth): recover g by comparing with the expected literals (case-insensitive hex)
		kind := map[string]int{"hvc1.": kH265, "vp09.": kVP9, "av01.": kAV1}[c[:5]]
		for g := int64(0); g < 3; g++ {
			for q := int64(0); q < 4; q++ { // the H265 string also carries the source flags of variant q
				if sameCodecString(c, videoCodecString(kind, 4*g+q)) {
					return int64(kind), g
				}
			}
		}
		return int64(kind), -1
	case strings.HasPrefix(c, "mp4a."):
		return 5, 2
	case c == "opus":
		return 6, 0
	}
	return 0, -1
}
