package main

import (
	"fmt"
	"strconv"

	"github.com/bluenviron/mediacommon/v2/pkg/codecs/h264"

	"verifharness/internal/rng"
)

// ---- abstract histories (mirror of Model/Mux.v cfg / au) ----

const (
	kH264 = 1
	kH265 = 2
	kVP9  = 3
	kAV1  = 4
	kAAC  = 5
	kOpus = 6
)

type tcfgA struct {
	Kind    int   `json:"kind"`
	Rate    int64 `json:"rate"`
	SRate   int64 `json:"srate"`
	Name    int   `json:"name"`
	Lang    int   `json:"lang"`
	Default bool  `json:"default"`
	Params0 int64 `json:"params0"`
}

type unitA struct {
	ID      int64 `json:"id"`
	Len     int   `json:"len"` // payload length chosen by the generator (bytes of the slice NALU / AU / packet)
	FSize   int64 `json:"fsize"`
	TSize   int64 `json:"tsize"`
	OpusDur int64 `json:"opusdur"`
}

type auA struct {
	Track     int   `json:"track"`
	PTS       int64 `json:"pts"`
	DTS       int64 `json:"dts"`
	NTP       int64 `json:"ntp"`
	RA        bool  `json:"ra"`
	NonIDR    bool  `json:"nonidr"`
	HasParams bool  `json:"hasparams"`
	Params    int64 `json:"params"`
	RpsArg    int   `json:"rpsarg,omitempty"` // H265 only, not seen by the model: slice-header argument that fixes pts - dts
	// BadSPS (init-failure leg only, outside the model): the access unit is a lone malformed H264 SPS
	BadSPS bool    `json:"badsps,omitempty"`
	Poc    int     `json:"poc,omitempty"`    // H264 in a reorder history, not seen by the model: pic_order_cnt_lsb of the slice header
	BSlice bool    `json:"bslice,omitempty"` // H264 in a reorder history: the slice is a B slice
	Units  []unitA `json:"units"`
}

type history struct {
	Variant  int     `json:"variant"` // 1 mpegts 2 fmp4 3 ll
	SegCount int     `json:"segcount"`
	// VariantUnset (not seen by the model, which runs Low-Latency): Muxer.Variant is left at its zero value
	VariantUnset bool `json:"variantunset,omitempty"`
	SegMin   int64   `json:"segmin"`
	PartMin  int64   `json:"partmin"`
	SegMax   int64   `json:"segmax"`
	Disk     bool    `json:"disk"`
	Query    string  `json:"query"`
	Tracks   []tcfgA `json:"tracks"`
	Ops      []auA   `json:"ops"`
	// Faults lists the ordinals (0-based, in call order) of storage NewFile calls that fail. A
	// history with faults is outside the model (no T leg); only the retention oracle of C18 runs on it.
	Faults []int `json:"faults,omitempty"`
	// WriteFaults lists the ordinals (0-based, in call order) of Write calls on storage part writers that fail
	// (disk full); same status as Faults: outside the model, retention oracle only.
	WriteFaults []int `json:"writefaults,omitempty"`
	// H264Reorder selects the H264 concretisation with real slice headers and pic_order_cnt_type 0
	// parameter sets (h264.go); histories recorded before it existed replay with the legacy layout.
	H264Reorder bool `json:"h264reorder,omitempty"`
	// Leg names a search-only leg outside the model (no T leg): "init-failure" (C04: histories whose
	// init-file regeneration fails once, see genInitFailure), "slow-reader" (C05). Empty for model histories
	// and for the storage-fault histories (those are recognised by Faults).
	Leg string `json:"leg,omitempty"`
	// Stats: counters of the generator (what it produced), reported in the distribution; not an input
	Stats map[string]int `json:"stats,omitempty"`
}

func (h *history) stat(k string) {
	if h.Stats == nil {
		h.Stats = map[string]int{}
	}
	h.Stats[k]++
}

// kH264R: decoder-side kind of an H264 track whose slice NAL units carry a slice header (payload id offset)
const kH264R = 7

func decKind(h *history, kind int) int {
	if kind == kH264 && h.H264Reorder {
		return kH264R
	}
	return kind
}

func isVideoKind(k int) bool { return k >= kH264 && k <= kAV1 }

// Track names are small integers on the abstract side (tcfgA.Name, t_name in Model/Mux.v): 0 = no Name given,
// n < nameAudioBase = the user-given name "name<n>", nameAudioBase + k = the user-given name "audio<k>" (which
// is the fallback name of the audio track at index k-1 when that one has no Name).
const nameAudioBase = 1000

func trackNameOf(id int) string {
	switch {
	case id == 0:
		return ""
	case id >= nameAudioBase:
		return "audio" + strconv.Itoa(id-nameAudioBase)
	}
	return "name" + strconv.Itoa(id)
}

var aacRates = []int64{8000, 16000, 22050, 32000, 44100, 48000, 96000}

// genHistory draws a configuration and a well-formed write sequence.
func genHistory(r *rng.R, long bool) history {
	var h history
	h.Variant = 1 + r.Pick(2, 3, 4)
	switch h.Variant {
	case 3:
		h.SegCount = 7 + r.Intn(3)
	default:
		h.SegCount = 3 + r.Intn(4)
	}
	if r.Bool(1, 8) {
		h.SegCount = 0 // default
	}
	if h.Variant == 3 {
		// Variant left at its zero value: the documented default is Low-Latency, with every check of that variant
		rv := r.Fork(0x7A2)
		h.VariantUnset = rv.Bool(1, 4)
		if rv.Bool(1, 12) {
			h.SegCount = 3 + rv.Intn(4) // too few for Low-Latency: Start refuses
		}
	}
	segMins := []int64{100e6, 200e6, 250e6, 500e6, 1000e6, 1500e6, 2000e6, 4000e6}
	h.SegMin = segMins[r.Intn(len(segMins))]
	if long {
		h.SegMin = segMins[r.Intn(3)]
	}
	partMins := []int64{50e6, 100e6, 200e6, 300e6, 500e6}
	h.PartMin = partMins[r.Intn(len(partMins))]
	if r.Bool(1, 10) {
		h.PartMin = 0
	}
	h.SegMax = 0
	if r.Bool(1, 6) {
		h.SegMax = int64(600 + r.Intn(3000)) // small limit: some writes will hit it
	}
	h.Disk = r.Bool(1, 3)
	if r.Bool(1, 5) {
		// preserved verbatim: keys not in alphabetical order, a key without a value, a lower-case escape (none of
		// which survives a url.ParseQuery / Encode round trip)
		h.Query = []string{"token=abc&x=1", "x=1&token=abc&flag", "p=%2fq&a=1", "b=2&a=1&b=3"}[r.Intn(4)]
	}

	// track set
	hasVideo := r.Bool(3, 4)
	nAudio := 0
	if h.Variant == 1 {
		nAudio = r.Intn(2)
		if !hasVideo {
			nAudio = 1
		}
	} else {
		nAudio = r.Pick(3, 4, 2, 1)
		if !hasVideo && nAudio == 0 {
			nAudio = 1
		}
	}
	var tracks []tcfgA
	for i := 0; i < nAudio; i++ {
		t := tcfgA{Kind: kAAC, Params0: 2}
		if h.Variant != 1 && r.Bool(1, 3) {
			t.Kind = kOpus
			t.Rate, t.SRate = 48000, 48000
			t.Params0 = 0
		} else {
			t.SRate = aacRates[r.Intn(len(aacRates))]
			t.Rate = t.SRate
		}
		if r.Bool(1, 2) {
			t.Name = 1 + i
		}
		if r.Bool(1, 2) {
			t.Lang = 1 + i
		}
		tracks = append(tracks, t)
	}
	if r.Bool(1, 3) && nAudio > 0 {
		tracks[r.Intn(nAudio)].Default = true
		if r.Bool(1, 12) && nAudio > 1 { // two defaults: Start must reject
			for i := range tracks {
				tracks[i].Default = true
			}
		}
	}
	if hasVideo {
		v := tcfgA{Kind: kH264, Rate: 90000, Params0: 1}
		// video codec: fMP4 variants take all four; MPEG-TS takes H264 only (Start must reject the others)
		if h.Variant != 1 {
			v.Kind = []int{kH264, kH265, kVP9, kAV1}[r.Intn(4)]
		} else if r.Bool(1, 8) {
			v.Kind = []int{kH265, kVP9, kAV1}[r.Intn(3)]
		}
		v.Params0 = int64(r.Intn(12))
		if v.Kind == kH264 {
			// two in three H264 histories use real slice headers and, for parameter ids with q >= 2,
			// pic_order_cnt_type 0 parameter sets with B pictures (decode time < presentation time)
			h.H264Reorder = r.Bool(2, 3)
			if !h.H264Reorder {
				v.Params0 = 1
			}
		}
		if r.Bool(1, 5) { // IsDefault on the video track is legal and must not count as a default audio rendition
			v.Default = true
		}
		pos := r.Intn(len(tracks) + 1) // any order of video / audio
		tracks = append(tracks[:pos], append([]tcfgA{v}, tracks[pos:]...)...)
	}
	// audio renditions whose names collide (one multi-audio configuration in three, fMP4 variants; the draws come
	// from a fork): two or all of the audio tracks carry the same user-given Name, or one carries, as its
	// user-given Name, the fallback name ("audio<index+1>") of another one that has none. Every track keeps its
	// own EXT-X-MEDIA entry, and the DEFAULT one stays where it was.
	if rn := r.Fork(0xA0D10); h.Variant != 1 && nAudio >= 2 && rn.Bool(1, 3) {
		var au []int
		for i, t := range tracks {
			if !isVideoKind(t.Kind) {
				au = append(au, i)
			}
		}
		ai := rn.Intn(len(au))
		bi := (ai + 1 + rn.Intn(len(au)-1)) % len(au)
		a, b := au[ai], au[bi]
		switch rn.Intn(3) {
		case 0:
			// (a track named after its own fallback name would be indistinguishable from one without a name)
			tracks[a].Name, tracks[b].Name = nameAudioBase+b+1, 0
			h.stat("audio-renditions-with-equal-names:user-given-name-equals-a-fallback-name")
		default:
			name := tracks[a].Name
			if name == 0 || name >= nameAudioBase {
				name = 1 + rn.Intn(3)
			}
			tracks[a].Name, tracks[b].Name = name, name
			if len(au) > 2 && rn.Bool(1, 3) {
				for _, i := range au {
					tracks[i].Name = name
				}
			}
			h.stat("audio-renditions-with-equal-names:same-user-given-name")
		}
	}
	// a video track with a finer clock than 90 kHz (one history with video in five; fork): 1 MHz, 10 MHz, on
	// MPEG-TS (which rescales to 90 kHz itself) also 1 GHz - above that the segmenter's (v % rate) * 10^9 leaves
	// int64, and on the fMP4 variants 1 GHz leaves 4.29 s to a sample's 32-bit duration. Durations a few
	// microseconds away from a whole number of seconds / tenths exist only with such a clock (see the rounding
	// aim below).
	rf := r.Fork(0xF17EC10C)
	fineClock := false
	// MPEG-TS only: on the fMP4 variants the init's time scale of a video track is 90000 whatever Track.ClockRate says
	// (fmp4TimeScale), so a finer video clock there is outside the ties' stated assumption "Track.ClockRate equals the init
	// time scale of the codec" (DESIGN.md 12.3, observation O4); the draws are made all the same (seeds stay stable).
	if fc := rf.Bool(1, 5); hasVideo && fc {
		rate := []int64{1e6, 1e6, 1e6, 1e7}[rf.Intn(4)]
		if h.Variant == 1 {
			rate = []int64{1e6, 1e6, 1e7, 1e9}[rf.Intn(4)]
		}
		if h.Variant == 1 {
			for i := range tracks {
				if isVideoKind(tracks[i].Kind) {
					tracks[i].Rate = rate
				}
			}
			fineClock = true
			h.stat(fmt.Sprintf("video-clock-rate:%d", rate))
		}
	}
	h.Tracks = tracks

	// write sequence
	nWrites := 30 + r.Intn(200)
	if long {
		nWrites = 1500 + r.Intn(1500)
	}
	type tstate struct {
		dts      int64
		frameDur int64
		jitter   bool
		gop      int
		sinceKey int
		started  bool
		params   int64
		ahead    int
		// H264 under pic_order_cnt_type 0 (reorder histories): display-order bookkeeping and the
		// generator's own instance of the DTS extractor
		ex          *h264.DTSExtractor
		bf          int   // at most this many B pictures between two anchors
		pocStep     int   // pic_order_cnt_lsb per displayed picture (2 frame / 1 field-style numbering)
		pocBase     int   // pic_order_cnt_lsb of the GOP's IDR picture
		gopBase     int64 // presentation time of the GOP's IDR picture
		disp        int   // display index of the last anchor in the GOP
		pendB       []int // display indices of the B pictures still to be sent (decode order: after their anchor)
		lastPTS     int64
		havePTS     bool
		prevReorder bool
		forceKey    bool // boundary aiming: the next unit is a random-access one
		gopHold     int  // rounding aim: the GOP length while the aim decides where random-access units go
	}
	st := make([]tstate, len(tracks))
	startSec := r.Range(-9, 30) // negative starts down to -10 s
	if r.Bool(1, 6) {
		startSec = -12 // some units are rejected (dts + 10 s < 0)
	} else if r.Bool(1, 7) {
		// a stream that has been running for a long time (or a large first PTS): the ticks -> ns conversions
		// must not lose precision or overflow (a plain int64 product does beyond 28.5 h at 90 kHz, a float64
		// beyond 2^53 ns = 104 days)
		startSec = []int64{110000, 900000, 5000000, 20000000}[r.Intn(4)]
		if r.Bool(2, 3) {
			// a few seconds before the leading track's ticks x 10^9 leaves int64 (2^63 / 10^9 ticks), or before
			// its time in ns leaves the 53-bit mantissa of a float64: the history straddles the threshold
			leadRate := tracks[0].Rate
			for _, t := range tracks {
				if isVideoKind(t.Kind) {
					leadRate = t.Rate
				}
			}
			off := int64(10)
			if h.Variant == 1 {
				off = 0
			}
			th := int64(9223372036) / leadRate
			if r.Bool(1, 3) {
				th = 9007199 // 2^53 ns
			}
			startSec = th - off - r.Range(0, 4)
			h.stat("long-running-histories:straddling-a-conversion-threshold")
		}
		h.stat("long-running-histories")
	}
	ntpBase := int64(1700000000)*1e9 + int64(r.Intn(1000))*1e6
	// MPEG-TS, one history in five with a video track: the stream starts a whole number of seconds below zero and a
	// random-access unit lands on DTS 0 exactly, where a segment is cut (a zero end time must not be read as "none")
	aimZero := h.Variant == 1 && startSec >= -9 && startSec <= 30 && r.Bool(1, 5)
	if aimZero {
		startSec = -int64(1 + r.Intn(3))
		if h.SegMin > 1e9 {
			h.SegMin = 1e9
		}
		h.stat("mpegts-cut-at-dts-zero")
	}
	// rounding aim (three fine-clock histories in four; draws from the fork): the leading video track's
	// random-access units (Low-Latency: also plain units, for parts) are placed so that segment and part
	// durations fall within 7 us below / at / above a whole number of seconds or of tenths of a second - where
	// the five decimals of EXTINF / EXT-X-PART DURATION / PART-TARGET round up into the next digit, the next
	// tenth, the next second. SegmentMinDuration stays at or below 1.5 s and the history gets more writes, so
	// that several such segments fit in.
	roundAim := fineClock && !aimZero && rf.Bool(3, 4)
	if roundAim {
		if h.SegMin > 1500e6 {
			h.SegMin = []int64{100e6, 250e6, 500e6, 1000e6, 1500e6}[rf.Intn(5)]
		}
		if !long {
			nWrites += 150
		}
		h.stat("rounding-aimed-histories")
	}
	for i, t := range tracks {
		s := &st[i]
		s.params = t.Params0
		switch t.Kind {
		case kH264, kH265, kVP9, kAV1:
			fps := []int64{10, 15, 24, 25, 30, 50, 60}[r.Intn(7)]
			s.frameDur = t.Rate / fps
			if r.Bool(1, 4) {
				s.frameDur = 3003 * t.Rate / 90000 // 29.97
			}
			s.jitter = r.Bool(1, 3)
			s.gop = []int{1, 2, 5, 10, 25, 30, 60, 100}[r.Intn(8)]
			if aimZero {
				s.frameDur, s.jitter, s.gop = t.Rate/fps, false, int(fps)
			}
			s.bf = r.Intn(4)
			s.pocStep = 2
			if r.Bool(1, 5) {
				s.pocStep = 1
			}
			s.sinceKey = r.Intn(s.gop + 1) // may start mid-GOP
			if s.sinceKey == 0 {
				s.sinceKey = s.gop
			}
			if aimZero {
				s.sinceKey = s.gop // starts on a random-access unit: every gop-th unit is one, DTS 0 included
			}
			if t.Kind == kAV1 && r.Bool(1, 2) {
				// writeAV1 has no "wait for the first random-access unit" gate: keep half of the AV1
				// histories starting on a sequence header so that the rest of C01 / C02 stays observable
				s.sinceKey = s.gop
			}
			s.dts = startSec * t.Rate
			if roundAim {
				// starts on a random-access unit; once the first segment is open the aim places the next ones (the
				// GOP length is then what it takes to get 3 s past SegmentMinDuration: a fallback)
				s.sinceKey = s.gop
				s.gopHold = int((h.SegMin/1000+3e6)*(t.Rate/1e6)/s.frameDur) + 1
			}
		case kAAC:
			s.frameDur = 1024
			s.dts = startSec * t.Rate
		case kOpus:
			s.frameDur = 960
			s.dts = startSec * 48000
		}
	}
	// boundary aiming (one history in three): the leading track's random-access units are placed exactly
	// at / one tick before / one tick after the tick at which the open segment reaches SegmentMinDuration
	// (Low-Latency, once the part duration is frozen: also units at the part boundary), with segments
	// starting on arbitrary ticks. gensim.go keeps track of where the open segment and part started.
	lead := 0
	for i, t := range tracks {
		if isVideoKind(t.Kind) {
			lead = i
		}
	}
	var sim *leadSim
	if simOn := r.Bool(1, 3) && !aimZero; simOn || roundAim {
		sim = &leadSim{variant: h.Variant, rate: tracks[lead].Rate, segMin: h.SegMin, partMin: h.PartMin}
		if sim.partMin == 0 {
			sim.partMin = 200e6
		}
		if h.Variant != 1 {
			sim.off = 10 * sim.rate
		}
		st[lead].dts += int64(r.Intn(int(st[lead].frameDur)))
		if !roundAim {
			h.stat("boundary-aimed-histories")
		}
	}
	var simCur = tracks[lead].Params0
	simPend, simStarted := false, false
	aimSet, aimKey, aimGen, aimTick, aimDelta, aimMin, aimWhat := false, false, -1, int64(0), int64(0), int64(-1), ""
	// the rounding aim's state: the tick aimed at, whether a random-access unit goes there (segment) or any unit
	// (part), whether the unit before it lasts until then (a frozen picture) or frames go on until it is in reach
	raSet, raGen, raTick, raKey, raJump, raWhat := false, -1, int64(0), false, false, ""
	aimRound := func(s *tstate, x int64, reorder bool) {
		tpu := sim.rate / 1e6 // ticks per microsecond
		if raSet && (raGen != sim.gen || raTick <= x) {
			raSet = false // the open segment / part changed, or the tick was passed: aim again
		}
		if !raSet {
			part := h.Variant == 3 && sim.frozen && sim.adj > 0 && rf.Bool(1, 3)
			start, least := sim.segStart, sim.segMin
			if part {
				start, least = sim.prtStart, sim.adj
			}
			// the whole second / tenth T (ns, from the start of the open segment / part) at or after both the
			// least duration at which a cut happens and what has elapsed already
			if el := (x-start)/tpu*1000 + 1000; el > least {
				least = el
			}
			var T int64
			if rf.Bool(2, 3) {
				T = ceilDiv(least, 1e9) * 1e9
				if rf.Bool(1, 4) {
					T += 1e9
				}
				raWhat = "second"
			} else {
				T = (ceilDiv(least, 1e8) + int64(rf.Intn(4))) * 1e8
				raWhat = "tenth"
			}
			delta := int64(rf.Intn(int(14*tpu+1))) - 7*tpu
			raTick = start + T/1000*tpu + delta
			raKey, raJump = !part, part || rf.Bool(1, 3)
			if part {
				raWhat = "part:" + raWhat
			} else {
				raWhat = "segment:" + raWhat
			}
			raSet, raGen = true, sim.gen
		}
		lo := x + 1
		if reorder {
			// under pic_order_cnt_type 0 the B pictures of the last anchor come first, and a random-access unit
			// is presented after everything sent so far
			if len(s.pendB) > 0 {
				return
			}
			if s.havePTS && s.lastPTS+s.frameDur > lo {
				lo = s.lastPTS + s.frameDur
			}
		}
		if raTick < lo || (!raJump && raTick > s.dts+s.frameDur/2) {
			return
		}
		s.dts = raTick
		s.forceKey = raKey
		h.stat("rounding-aimed:" + raWhat)
	}
	aim := func(s *tstate, x int64, video bool) {
		if sim == nil || !sim.open {
			return
		}
		if roundAim {
			aimRound(s, x, video && s.prevReorder)
			return
		}
		if aimGen != sim.gen {
			aimSet, aimMin = false, -1
		}
		if !aimSet {
			aimDelta = aimMin + int64(r.Intn(int(2-aimMin)))
			if h.Variant == 3 && sim.frozen && sim.adj > 0 && r.Bool(1, 2) {
				aimTick, aimKey, aimWhat = sim.partTarget(aimDelta), false, "part"
			} else {
				aimTick, aimKey, aimWhat = sim.segTarget(aimDelta), video, "segment"
			}
			aimSet, aimGen = true, sim.gen
		}
		if aimTick <= x || aimTick > s.dts+s.frameDur/2 {
			return // already passed (wait until the open segment / part changes), or not within reach yet
		}
		s.dts = aimTick
		s.forceKey = aimKey
		h.stat(fmt.Sprintf("aimed-%s-boundary%+d-tick", aimWhat, aimDelta))
		if aimDelta < 1 && r.Bool(1, 2) {
			aimSet, aimMin = false, aimDelta+1 // and again, a tick or two later
		}
	}
	nextID := int64(1)
	stallAt, stallSec := -1, int64(0)
	if rs := r.Fork(0x57A11); rs.Bool(1, 5) {
		stallAt, stallSec = nWrites/10+rs.Intn(nWrites/3+1), int64(2+rs.Intn(3))
	}
	for w := 0; w < nWrites; w++ {
		// choose the track whose media time is earliest, with some randomness (bursts, one ahead)
		ti := 0
		best := int64(1) << 62
		for i, t := range tracks {
			ns := st[i].dts * 1e9 / t.Rate
			if t.Rate > 96000 {
				ns = mulDivGo(st[i].dts, 1e9, t.Rate) // (the product above wraps around after 2.5 h at 1 MHz, 9 s at 1 GHz)
			}
			if r.Bool(1, 5) {
				ns -= int64(r.Intn(400)) * 1e6
			}
			if ns < best {
				best, ti = ns, i
			}
		}
		t := tracks[ti]
		s := &st[ti]
		a := auA{Track: ti}
		switch t.Kind {
		case kH264, kH265, kVP9, kAV1:
			reoStream := t.Kind == kH264 && h.H264Reorder
			gop := s.gop
			if roundAim && sim.open {
				gop = s.gopHold
			}
			key := s.sinceKey >= gop || s.forceKey
			s.forceKey = false
			if reoStream && len(s.pendB) > 0 {
				key = false // the B pictures of the last anchor come first
			}
			if key {
				s.sinceKey = 0
			}
			s.sinceKey++
			a.RA = key
			a.NonIDR = !key
			prevParams := s.params
			nalBased := t.Kind == kH264 || t.Kind == kH265
			if nalBased && r.Bool(1, 40) { // a unit with neither IDR nor non-IDR slices (e.g. only parameter sets)
				a.RA, a.NonIDR = false, false
				if key {
					s.sinceKey = gop // the key frame is still due
				}
			}
			if nalBased {
				if a.RA {
					a.HasParams, a.Params = true, s.params
				}
				if r.Bool(1, 25) { // parameter change, on IDR or non-IDR units
					np := 1 + (s.params % 11)
					if reoStream && !a.RA {
						// between two IDR pictures the picture-order-count type stays what it is
						for h264ReorderID(&h, np) != h264ReorderID(&h, s.params) {
							np = 1 + (np % 11)
						}
					}
					s.params = np
					a.HasParams, a.Params = true, s.params
				}
			} else if a.RA {
				// VP9: the key frame's header IS the parameter set; AV1: the sequence header both marks
				// random access and carries the parameters. Changes can only happen there.
				if r.Bool(1, 5) {
					s.params = 1 + (s.params % 11)
					if r.Bool(1, 3) {
						s.params = int64(r.Intn(12))
					}
				}
				a.HasParams, a.Params = true, s.params
			}
			a.DTS = s.dts
			a.PTS = s.dts
			if t.Kind == kH265 {
				// picture reordering: under an SPS with reorder pictures and VUI timing the muxer's DTS
				// extractor computes dts = pts - samplesDiff * tick from the slice header; choose the header
				// argument, then the pts that makes the extractor return exactly a.DTS
				ro, tick := h265ReorderOf(s.params)
				if ro > 0 && !a.RA && !a.NonIDR {
					a.NonIDR = true // the extractor rejects a unit without slices under such an SPS
				}
				typ := h265SliceType(nextID, a.RA)
				a.RpsArg = r.Intn(h265MaxRpsArg(typ, ro) + 1)
				a.PTS = a.DTS + int64(h265SamplesDiff(typ, ro, a.RpsArg))*tick
			}
			d := s.frameDur
			if s.jitter {
				d += int64(r.Intn(int(s.frameDur/2)+1)) - s.frameDur/4
			}
			if r.Bool(1, 50) {
				d = 0 // equal consecutive DTS
			}
			s.dts += d
			if stallAt >= 0 && w >= stallAt && !reoStream {
				// a frozen picture: one unit lasts seconds, so one segment is much longer than its neighbours (the
				// target duration grows there, and stays when that segment has left the window)
				s.dts += stallSec * t.Rate
				stallAt = -1
				h.stat("video-stall")
			}
			ln := 10 + r.Intn(120)
			if r.Bool(1, 30) {
				ln = 300 + r.Intn(900)
			}
			a.Units = []unitA{{ID: nextID, Len: ln}}
			nextID++
			if reoStream {
				sliced := a.RA || a.NonIDR
				if h264ReorderID(&h, s.params) {
					// presentation times follow the display order, units are written in decode order:
					// I0 P(k+1) B1 .. Bk P.. ; pic_order_cnt_lsb = pocBase + pocStep * display index
					fd := s.frameDur
					switch {
					case !sliced:
						if s.havePTS && s.lastPTS > a.PTS {
							a.PTS = s.lastPTS
						}
					case a.RA:
						base := a.PTS
						if s.havePTS && s.lastPTS+fd > base {
							base = s.lastPTS + fd
						}
						s.gopBase, s.disp = base, 0
						s.pocBase = 0
						if r.Bool(1, 4) {
							s.pocBase = 2 * r.Intn(32)
						}
						a.PTS, a.Poc = base, s.pocBase
					case len(s.pendB) > 0:
						dsp := s.pendB[0]
						s.pendB = s.pendB[1:]
						a.BSlice = true
						a.PTS, a.Poc = s.gopBase+int64(dsp)*fd, (s.pocBase+s.pocStep*dsp)%64
					default:
						dsp := s.disp + 1 + r.Intn(s.bf+1)
						for i := s.disp + 1; i < dsp; i++ {
							s.pendB = append(s.pendB, i)
						}
						s.disp = dsp
						a.PTS, a.Poc = s.gopBase+int64(dsp)*fd, (s.pocBase+s.pocStep*dsp)%64
					}
					if sliced {
						s.prevReorder = true
					}
				} else {
					// a baseline SPS inside a reorder history: pts = dts, after everything presented so far
					if s.prevReorder && s.havePTS && a.PTS <= s.lastPTS {
						shift := s.lastPTS + s.frameDur - a.PTS
						a.PTS += shift
						s.dts += shift
					}
					s.pendB = nil
					if sliced {
						s.prevReorder = false
					}
				}
				a.DTS = a.PTS
				if sliced && (s.ex != nil || a.RA) {
					// the muxer feeds every unit with slices, from the first IDR on, to its DTS extractor;
					// this instance sees the same units. A unit the extractor rejects is not written:
					// it degenerates to a unit without slices.
					fresh := s.ex == nil
					if fresh {
						s.ex = &h264.DTSExtractor{}
						s.ex.Initialize()
					}
					saved := *s.ex
					c := concretize(&h, &a)
					dts, err := s.ex.Extract(c.au, a.PTS)
					if err != nil {
						*s.ex = saved
						if fresh {
							s.ex = nil
						}
						if a.RA {
							s.sinceKey = gop
						}
						s.params = prevParams
						a.RA, a.NonIDR, a.HasParams, a.Params, a.BSlice, a.Poc = false, false, false, 0, false, 0
						h.stat("h264-unit-rejected-by-dts-extractor")
					} else {
						a.DTS = dts
						if dts < a.PTS {
							h.stat("h264-unit-dts-below-pts")
						}
					}
				}
				if !s.havePTS || a.PTS > s.lastPTS {
					s.lastPTS, s.havePTS = a.PTS, true
				}
			}
			if sim != nil && ti == lead {
				// the front end's parameter bookkeeping, then the segmenter's decision
				if a.HasParams && (nalBased || a.RA) && a.Params != simCur {
					simCur, simPend = a.Params, true
				}
				if t.Kind != kH264 || a.RA || a.NonIDR {
					changed := a.RA && simPend
					if changed {
						simPend = false
					}
					if simStarted || a.RA {
						simStarted = true
						cuts, pcuts := sim.cuts, sim.pcuts
						if h.Variant == 1 {
							sim.tsUnit(a.DTS, a.RA, changed, false)
						} else {
							sim.sample(a.DTS, a.RA, changed)
						}
						if fineClock {
							// what the cuts produced (as far as the generator's replica of the segmenter can tell)
							if sim.cuts != cuts {
								h.stat("fine-clock:segment-duration:" + nearRound(sim.cutDur, sim.rate))
							}
							if sim.pcuts != pcuts {
								h.stat("fine-clock:part-duration:" + nearRound(sim.pcutDur, sim.rate))
							}
						}
					}
				}
				aim(s, a.DTS, true)
			}
		case kAAC:
			n := 1
			if r.Bool(1, 4) {
				n = 2 + r.Intn(3)
			}
			if !hasVideo && ti == 0 { // leading audio: keep one Write from spanning several segments
				if maxN := int(h.SegMin / (1024 * 1e9 / t.SRate)); n > maxN {
					n = maxN
				}
				if n < 1 {
					n = 1
				}
			}
			a.DTS, a.PTS = s.dts, s.dts
			a.RA = true
			for j := 0; j < n; j++ {
				a.Units = append(a.Units, unitA{ID: nextID, Len: 9 + r.Intn(60)})
				nextID++
			}
			s.dts += int64(n) * 1024 * t.Rate / t.SRate
			if sim != nil && ti == lead {
				if h.Variant == 1 {
					sim.tsUnit(a.DTS, true, false, true)
				} else {
					for j := 0; j < n; j++ {
						sim.sample(a.DTS+int64(j)*1024*t.Rate/t.SRate, true, false)
					}
				}
				aim(s, a.DTS+int64(n-1)*1024*t.Rate/t.SRate, false)
			}
		case kOpus:
			n := 1
			if r.Bool(1, 4) {
				n = 2 + r.Intn(3)
			}
			if !hasVideo && ti == 0 {
				if maxN := int(h.SegMin / 20e6); n > maxN {
					n = maxN
				}
				if n < 1 {
					n = 1
				}
			}
			a.DTS, a.PTS = s.dts, s.dts
			a.RA = true
			for j := 0; j < n; j++ {
				durs := []int64{120, 240, 480, 960}
				d := int64(960)
				if r.Bool(1, 5) {
					d = durs[r.Intn(4)]
				}
				a.Units = append(a.Units, unitA{ID: nextID, Len: 10 + r.Intn(60), OpusDur: d})
				nextID++
				if sim != nil && ti == lead {
					sim.sample(s.dts, true, false)
				}
				s.dts += d
			}
			if sim != nil && ti == lead {
				aim(s, s.dts-a.Units[len(a.Units)-1].OpusDur, false)
			}
		}
		a.NTP = ntpBase + a.DTS*1e9/t.Rate
		if t.Rate > 96000 {
			a.NTP = ntpBase + mulDivGo(a.DTS, 1e9, t.Rate)
		}
		h.Ops = append(h.Ops, a)
	}
	return h
}

// nearRound classifies a duration (ticks of a clock that is a multiple of 1 MHz) by where it lies with respect
// to the whole seconds and the whole tenths of a second: within 5 us below one (five decimals round up into the
// next tenth / second), on one, within 5 us above, elsewhere.
func nearRound(ticks, rate int64) string {
	ns := mulDivGo(ticks, 1e9, rate)
	for _, u := range []struct {
		n    int64
		name string
	}{{1e9, "whole-second"}, {1e8, "whole-tenth"}} {
		switch f := ns % u.n; {
		case ns < 99e6:
		case f == 0:
			return "on-a-" + u.name
		case f >= u.n-5000:
			return "at-most-5us-below-a-" + u.name
		case f <= 5000:
			return "at-most-5us-above-a-" + u.name
		}
	}
	return "elsewhere"
}

// outsideModel: histories of the search-only legs (storage faults, init failure, slow reader) have no T leg
func (h *history) outsideModel() bool { return len(h.Faults) > 0 || len(h.WriteFaults) > 0 || h.Leg != "" }

// genInitFailure turns a generated history into one of the init-failure leg (C04, outside the model):
// a single-stream fMP4 muxer with an H264 track that receives, at a few places, a parameter-set-only
// access unit with a malformed SPS (WriteH264 accepts it: it carries no slices) followed by IDR units
// without in-band parameter sets. The parameter change forces a rotation; when the segment opened by it
// is published the init file has to be regenerated, that fails, and that one WriteH264 returns an
// error; the writer goes on, and later units carry valid parameter sets again. Returns false when the
// history has no H264 track to work with.
func genInitFailure(r *rng.R, h *history) bool {
	vt := -1
	for i, t := range h.Tracks {
		if t.Kind == kH264 {
			vt = i
		}
	}
	if vt < 0 || h.Variant == 1 {
		return false
	}
	// single stream, plain fMP4: the configurations in which the unchanged muxer recovers from a failed
	// rotation (DESIGN.md 12.6, observation O1)
	h.Variant = 2
	h.Tracks = []tcfgA{h.Tracks[vt]}
	var ops []auA
	for _, a := range h.Ops {
		if a.Track == vt {
			a.Track = 0
			// legacy H264 layout (dts = pts): with parameter sets withheld the picture-order bookkeeping
			// of a reorder history would no longer describe what the muxer's extractor sees
			a.PTS, a.Poc, a.BSlice = a.DTS, 0, false
			ops = append(ops, a)
		}
	}
	h.Ops = ops
	h.H264Reorder = false
	h.Leg = "init-failure"
	// a window opens shortly after an IDR unit that carried parameter sets (the muxer's DTS extractor
	// needs one SPS before anything else) and lasts for at least two IDR units and two and a half
	// SegmentMinDuration, so that the forced rotation and the failing one both fall into it
	var ras []int
	for i, a := range ops {
		if a.RA && a.HasParams {
			ras = append(ras, i)
		}
	}
	if len(ras) == 0 {
		return false
	}
	windows := 1 + r.Intn(3)
	n := 0
	from := 0
	for w := 0; w < windows; w++ {
		var cand []int
		for _, i := range ras {
			if i >= from {
				cand = append(cand, i)
			}
		}
		if len(cand) == 0 {
			break
		}
		pos := cand[r.Intn((len(cand)+1)/2)] + 1 + r.Intn(3)
		if pos >= len(ops) {
			break
		}
		keys := 2 + r.Intn(4)
		start := ops[pos].DTS
		ops[pos].RA, ops[pos].NonIDR, ops[pos].HasParams, ops[pos].Params, ops[pos].BadSPS = false, false, false, 0, true
		n++
		for pos++; pos < len(ops) && (keys > 0 || (ops[pos].DTS-start)*1e9/h.Tracks[0].Rate < 5*h.SegMin/2); pos++ {
			ops[pos].HasParams, ops[pos].Params = false, 0
			if ops[pos].RA {
				keys--
			}
		}
		from = pos + 1
	}
	return n > 0
}
