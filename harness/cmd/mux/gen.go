package main

import (
	"verifharness/internal/rng"
)

// ---- abstract histories (mirror of Model/Mux.v cfg / au) ----

const (
	kH264 = 1
	kH265 = 2
	kVP9  = 3
	kAV1  = 4
	kAAC  = 5
	kOpus = 6
)

type tcfgA struct {
	Kind    int   `json:"kind"`
	Rate    int64 `json:"rate"`
	SRate   int64 `json:"srate"`
	Name    int   `json:"name"`
	Lang    int   `json:"lang"`
	Default bool  `json:"default"`
	Params0 int64 `json:"params0"`
}

type unitA struct {
	ID      int64 `json:"id"`
	Len     int   `json:"len"` // payload length chosen by the generator (bytes of the slice NALU / AU / packet)
	FSize   int64 `json:"fsize"`
	TSize   int64 `json:"tsize"`
	OpusDur int64 `json:"opusdur"`
}

type auA struct {
	Track     int     `json:"track"`
	PTS       int64   `json:"pts"`
	DTS       int64   `json:"dts"`
	NTP       int64   `json:"ntp"`
	RA        bool    `json:"ra"`
	NonIDR    bool    `json:"nonidr"`
	HasParams bool    `json:"hasparams"`
	Params    int64   `json:"params"`
	RpsArg    int     `json:"rpsarg,omitempty"` // H265 only, not seen by the model: slice-header argument that fixes pts - dts
	Units     []unitA `json:"units"`
}

type history struct {
	Variant  int     `json:"variant"` // 1 mpegts 2 fmp4 3 ll
	SegCount int     `json:"segcount"`
	SegMin   int64   `json:"segmin"`
	PartMin  int64   `json:"partmin"`
	SegMax   int64   `json:"segmax"`
	Disk     bool    `json:"disk"`
	Query    string  `json:"query"`
	Tracks   []tcfgA `json:"tracks"`
	Ops      []auA   `json:"ops"`
	// Faults lists the ordinals (0-based, in call order) of storage NewFile calls that fail. A
	// history with faults is outside the model (no T leg); only the retention oracle of C18 runs on it.
	Faults []int `json:"faults,omitempty"`
}

func isVideoKind(k int) bool { return k >= kH264 && k <= kAV1 }

var aacRates = []int64{8000, 16000, 22050, 32000, 44100, 48000, 96000}

// genHistory draws a configuration and a well-formed write sequence.
func genHistory(r *rng.R, long bool) history {
	var h history
	h.Variant = 1 + r.Pick(2, 3, 4)
	switch h.Variant {
	case 3:
		h.SegCount = 7 + r.Intn(3)
	default:
		h.SegCount = 3 + r.Intn(4)
	}
	if r.Bool(1, 8) {
		h.SegCount = 0 // default
	}
	segMins := []int64{100e6, 200e6, 250e6, 500e6, 1000e6, 1500e6, 2000e6, 4000e6}
	h.SegMin = segMins[r.Intn(len(segMins))]
	if long {
		h.SegMin = segMins[r.Intn(3)]
	}
	partMins := []int64{50e6, 100e6, 200e6, 300e6, 500e6}
	h.PartMin = partMins[r.Intn(len(partMins))]
	if r.Bool(1, 10) {
		h.PartMin = 0
	}
	h.SegMax = 0
	if r.Bool(1, 6) {
		h.SegMax = int64(600 + r.Intn(3000)) // small limit: some writes will hit it
	}
	h.Disk = r.Bool(1, 3)
	if r.Bool(1, 5) {
		h.Query = "token=abc&x=1"
	}

	// track set
	hasVideo := r.Bool(3, 4)
	nAudio := 0
	if h.Variant == 1 {
		nAudio = r.Intn(2)
		if !hasVideo {
			nAudio = 1
		}
	} else {
		nAudio = r.Pick(3, 4, 2, 1)
		if !hasVideo && nAudio == 0 {
			nAudio = 1
		}
	}
	var tracks []tcfgA
	for i := 0; i < nAudio; i++ {
		t := tcfgA{Kind: kAAC, Params0: 2}
		if h.Variant != 1 && r.Bool(1, 3) {
			t.Kind = kOpus
			t.Rate, t.SRate = 48000, 48000
			t.Params0 = 0
		} else {
			t.SRate = aacRates[r.Intn(len(aacRates))]
			t.Rate = t.SRate
		}
		if r.Bool(1, 2) {
			t.Name = 1 + i
		}
		if r.Bool(1, 2) {
			t.Lang = 1 + i
		}
		tracks = append(tracks, t)
	}
	if r.Bool(1, 3) && nAudio > 0 {
		tracks[r.Intn(nAudio)].Default = true
		if r.Bool(1, 12) && nAudio > 1 { // two defaults: Start must reject
			for i := range tracks {
				tracks[i].Default = true
			}
		}
	}
	if hasVideo {
		v := tcfgA{Kind: kH264, Rate: 90000, Params0: 1}
		// video codec: fMP4 variants take all four; MPEG-TS takes H264 only (Start must reject the others)
		if h.Variant != 1 {
			v.Kind = []int{kH264, kH265, kVP9, kAV1}[r.Intn(4)]
		} else if r.Bool(1, 8) {
			v.Kind = []int{kH265, kVP9, kAV1}[r.Intn(3)]
		}
		v.Params0 = int64(r.Intn(12))
		if v.Kind == kH264 {
			v.Params0 = 1
		}
		if r.Bool(1, 5) { // IsDefault on the video track is legal and must not count as a default audio rendition
			v.Default = true
		}
		pos := r.Intn(len(tracks) + 1) // any order of video / audio
		tracks = append(tracks[:pos], append([]tcfgA{v}, tracks[pos:]...)...)
	}
	h.Tracks = tracks

	// write sequence
	nWrites := 30 + r.Intn(200)
	if long {
		nWrites = 1500 + r.Intn(1500)
	}
	type tstate struct {
		dts      int64
		frameDur int64
		jitter   bool
		gop      int
		sinceKey int
		started  bool
		params   int64
		ahead    int
	}
	st := make([]tstate, len(tracks))
	startSec := r.Range(-9, 30) // negative starts down to -10 s
	if r.Bool(1, 6) {
		startSec = -12 // some units are rejected (dts + 10 s < 0)
	}
	ntpBase := int64(1700000000)*1e9 + int64(r.Intn(1000))*1e6
	for i, t := range tracks {
		s := &st[i]
		s.params = t.Params0
		switch t.Kind {
		case kH264, kH265, kVP9, kAV1:
			fps := []int64{10, 15, 24, 25, 30, 50, 60}[r.Intn(7)]
			s.frameDur = 90000 / fps
			if r.Bool(1, 4) {
				s.frameDur = 3003 // 29.97
			}
			s.jitter = r.Bool(1, 3)
			s.gop = []int{1, 2, 5, 10, 25, 30, 60, 100}[r.Intn(8)]
			s.sinceKey = r.Intn(s.gop + 1) // may start mid-GOP
			if s.sinceKey == 0 {
				s.sinceKey = s.gop
			}
			if t.Kind == kAV1 && r.Bool(1, 2) {
				// writeAV1 has no "wait for the first random-access unit" gate: keep half of the AV1
				// histories starting on a sequence header so that the rest of C01 / C02 stays observable
				s.sinceKey = s.gop
			}
			s.dts = startSec * 90000
		case kAAC:
			s.frameDur = 1024
			s.dts = startSec * t.Rate
		case kOpus:
			s.frameDur = 960
			s.dts = startSec * 48000
		}
	}
	nextID := int64(1)
	for w := 0; w < nWrites; w++ {
		// choose the track whose media time is earliest, with some randomness (bursts, one ahead)
		ti := 0
		best := int64(1) << 62
		for i, t := range tracks {
			ns := st[i].dts * 1e9 / t.Rate
			if r.Bool(1, 5) {
				ns -= int64(r.Intn(400)) * 1e6
			}
			if ns < best {
				best, ti = ns, i
			}
		}
		t := tracks[ti]
		s := &st[ti]
		a := auA{Track: ti}
		switch t.Kind {
		case kH264, kH265, kVP9, kAV1:
			key := s.sinceKey >= s.gop
			if key {
				s.sinceKey = 0
			}
			s.sinceKey++
			a.RA = key
			a.NonIDR = !key
			nalBased := t.Kind == kH264 || t.Kind == kH265
			if nalBased && r.Bool(1, 40) { // a unit with neither IDR nor non-IDR slices (e.g. only parameter sets)
				a.RA, a.NonIDR = false, false
				if key {
					s.sinceKey = s.gop // the key frame is still due
				}
			}
			if nalBased {
				if a.RA {
					a.HasParams, a.Params = true, s.params
				}
				if r.Bool(1, 25) { // parameter change, on IDR or non-IDR units
					s.params = 1 + (s.params % 11)
					a.HasParams, a.Params = true, s.params
				}
			} else if a.RA {
				// VP9: the key frame's header IS the parameter set; AV1: the sequence header both marks
				// random access and carries the parameters. Changes can only happen there.
				if r.Bool(1, 5) {
					s.params = 1 + (s.params % 11)
					if r.Bool(1, 3) {
						s.params = int64(r.Intn(12))
					}
				}
				a.HasParams, a.Params = true, s.params
			}
			a.DTS = s.dts
			a.PTS = s.dts
			if t.Kind == kH265 {
				// picture reordering: under an SPS with reorder pictures and VUI timing the muxer's DTS
				// extractor computes dts = pts - samplesDiff * tick from the slice header; choose the header
				// argument, then the pts that makes the extractor return exactly a.DTS
				ro, tick := h265ReorderOf(s.params)
				if ro > 0 && !a.RA && !a.NonIDR {
					a.NonIDR = true // the extractor rejects a unit without slices under such an SPS
				}
				typ := h265SliceType(nextID, a.RA)
				a.RpsArg = r.Intn(h265MaxRpsArg(typ, ro) + 1)
				a.PTS = a.DTS + int64(h265SamplesDiff(typ, ro, a.RpsArg))*tick
			}
			d := s.frameDur
			if s.jitter {
				d += int64(r.Intn(int(s.frameDur/2)+1)) - s.frameDur/4
			}
			if r.Bool(1, 50) {
				d = 0 // equal consecutive DTS
			}
			s.dts += d
			ln := 10 + r.Intn(120)
			if r.Bool(1, 30) {
				ln = 300 + r.Intn(900)
			}
			a.Units = []unitA{{ID: nextID, Len: ln}}
			nextID++
		case kAAC:
			n := 1
			if r.Bool(1, 4) {
				n = 2 + r.Intn(3)
			}
			if !hasVideo && ti == 0 { // leading audio: keep one Write from spanning several segments
				if maxN := int(h.SegMin / (1024 * 1e9 / t.SRate)); n > maxN {
					n = maxN
				}
				if n < 1 {
					n = 1
				}
			}
			a.DTS, a.PTS = s.dts, s.dts
			a.RA = true
			for j := 0; j < n; j++ {
				a.Units = append(a.Units, unitA{ID: nextID, Len: 9 + r.Intn(60)})
				nextID++
			}
			s.dts += int64(n) * 1024 * t.Rate / t.SRate
		case kOpus:
			n := 1
			if r.Bool(1, 4) {
				n = 2 + r.Intn(3)
			}
			if !hasVideo && ti == 0 {
				if maxN := int(h.SegMin / 20e6); n > maxN {
					n = maxN
				}
				if n < 1 {
					n = 1
				}
			}
			a.DTS, a.PTS = s.dts, s.dts
			a.RA = true
			for j := 0; j < n; j++ {
				durs := []int64{120, 240, 480, 960}
				d := int64(960)
				if r.Bool(1, 5) {
					d = durs[r.Intn(4)]
				}
				a.Units = append(a.Units, unitA{ID: nextID, Len: 10 + r.Intn(60), OpusDur: d})
				nextID++
				s.dts += d
			}
		}
		a.NTP = ntpBase + a.DTS*1e9/t.Rate
		h.Ops = append(h.Ops, a)
	}
	return h
}
