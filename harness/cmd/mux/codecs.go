package main

// Concretisation of the H265 / VP9 / AV1 video kinds: parameter sets, frame headers and OBUs are
// built bit by bit here (from the codec specifications, not with mediacommon's writers), so that the
// muxer's front ends (writeH265 / writeVP9 / writeAV1) derive exactly the abstract flags of a history.
//
// Convention shared with coq/Tie/MuxTie.v (codec_obs): a parameter id p (0..11) is split into
//   g = (p / 4) mod 3   what the RFC 6381 codec string shows (level / profile / bit depth)
//   q =  p mod 4        what it does not show (resolution, frame rate, colour range, subsampling, ...)
// Distinct ids give distinct parameter bytes (H265: the SPS alone; VP9: the compared field tuple;
// AV1: the sequence header OBU), so "id changed" <=> "the front end sees a change".
//
// selfCheckCodecs() parses every variant with mediacommon's parsers and panics on any disagreement
// with the literal expectations below: a concretisation bug must not show up as a muxer failure.

import (
	"bytes"
	"fmt"

	"github.com/bluenviron/mediacommon/v2/pkg/codecs/av1"
	"github.com/bluenviron/mediacommon/v2/pkg/codecs/h265"
	"github.com/bluenviron/mediacommon/v2/pkg/codecs/vp9"
)

// ---- bit writer ----

type bitw struct {
	b []byte
	n int // bits written
}

func (w *bitw) put(v uint64, nbits int) {
	for i := nbits - 1; i >= 0; i-- {
		if w.n%8 == 0 {
			w.b = append(w.b, 0)
		}
		if (v>>uint(i))&1 != 0 {
			w.b[len(w.b)-1] |= 0x80 >> uint(w.n%8)
		}
		w.n++
	}
}
func (w *bitw) flag(b bool) {
	if b {
		w.put(1, 1)
	} else {
		w.put(0, 1)
	}
}

// unsigned Exp-Golomb
func (w *bitw) ue(v uint64) {
	v++
	nb := 0
	for x := v; x > 1; x >>= 1 {
		nb++
	}
	w.put(0, nb)
	w.put(v, nb+1)
}

// rbsp_trailing_bits / AV1 trailing_bits: a one, then zeros up to the byte boundary
func (w *bitw) trailing() {
	w.put(1, 1)
	for w.n%8 != 0 {
		w.put(0, 1)
	}
}
func (w *bitw) padTo(nbytes int) {
	for w.n < 8*nbytes {
		w.put(0, 1)
	}
}

// emulation prevention (H.264 7.4.1 / H.265 7.4.2): 00 00 0x with x <= 3 becomes 00 00 03 0x
func emulationPrevent(rbsp []byte) []byte {
	var out []byte
	zeros := 0
	for _, b := range rbsp {
		if zeros >= 2 && b <= 3 {
			out = append(out, 3)
			zeros = 0
		}
		out = append(out, b)
		if b == 0 {
			zeros++
		} else {
			zeros = 0
		}
	}
	return out
}

func pg(p int64) int { return int((p / 4) % 3) }
func pq(p int64) int { return int(p % 4) }

// ================================================================ H265

type h265Var struct {
	w, h          int // coded size
	cropBottom    int // conformance window bottom offset (chroma units)
	reorder       int
	timing        bool
	ticks, tscale uint32
	// general_progressive_source / interlaced_source / non_packed_constraint / frame_only_constraint flags, as the
	// high nibble of the first constraint byte of the CODECS string (0: source scan type unknown, no constraint)
	src uint8
}

var h265Levels = []int{90, 93, 120}
var h265Q = []h265Var{
	// 50/3 fps: FRAME-RATE must be the value ROUNDED to three decimals (16.667, not 16.666)
	{w: 1280, h: 720, timing: true, ticks: 3, tscale: 50, src: 0xB0},
	// picture reordering with VUI timing: the DTS extractor reads the slice headers, dts < pts
	{w: 1920, h: 1080, timing: true, ticks: 1, tscale: 50, reorder: 2, src: 0xB0},
	{w: 1280, h: 720, cropBottom: 8, reorder: 2, src: 0x00}, // no VUI: the DTS extractor returns pts without reading slices
	{w: 640, h: 360, timing: true, ticks: 1001, tscale: 30000, src: 0x90},
}

// h265ReorderOf: (sps_max_num_reorder_pics, 90 kHz ticks per picture) when the DTS extractor derives
// dts = pts - samplesDiff * tick from the slice headers under parameter id p; (0, 0) when it returns pts
func h265ReorderOf(p int64) (int, int64) {
	v := h265Q[pq(p)]
	if v.reorder == 0 || !v.timing {
		return 0, 0
	}
	return v.reorder, 90000 * int64(v.ticks) / int64(v.tscale)
}

func h265Width(p int64) int  { return h265Q[pq(p)].w }
func h265Height(p int64) int { v := h265Q[pq(p)]; return v.h - 2*v.cropBottom }
func h265FPS(p int64) float64 {
	v := h265Q[pq(p)]
	if !v.timing {
		return 0
	}
	return float64(v.tscale) / float64(v.ticks)
}

// hvc1.<profile_idc>.<compatibility flags, reversed bit order, hex>.<tier><level>.<constraint bytes>
// Main profile (1), compatibility flags 1 and 2 -> 6, main tier, progressive + non-packed + frame-only -> B0,
// progressive + frame-only -> 90, none of the four -> 0
func h265CodecString(p int64) string {
	return fmt.Sprintf("hvc1.1.6.L%d.%X", h265Levels[pg(p)], h265Q[pq(p)].src)
}

func h265SPSOf(p int64) []byte {
	v := h265Q[pq(p)]
	var w bitw
	w.put(0, 4) // sps_video_parameter_set_id
	w.put(0, 3) // sps_max_sub_layers_minus1
	w.put(1, 1) // sps_temporal_id_nesting_flag
	// profile_tier_level(1, 0)
	w.put(0, 2) // general_profile_space
	w.put(0, 1) // general_tier_flag
	w.put(1, 5) // general_profile_idc: Main
	for j := 0; j < 32; j++ {
		w.flag(j == 1 || j == 2) // general_profile_compatibility_flag[j]
	}
	w.put(uint64(v.src>>7)&1, 1) // general_progressive_source_flag
	w.put(uint64(v.src>>6)&1, 1) // general_interlaced_source_flag
	w.put(uint64(v.src>>5)&1, 1) // general_non_packed_constraint_flag
	w.put(uint64(v.src>>4)&1, 1) // general_frame_only_constraint_flag
	w.put(0, 43) // general_reserved_zero_43bits
	w.put(0, 1)  // general_inbld_flag / reserved
	w.put(uint64(h265Levels[pg(p)]), 8)
	w.ue(0) // sps_seq_parameter_set_id
	w.ue(1) // chroma_format_idc 4:2:0
	w.ue(uint64(v.w))
	w.ue(uint64(v.h))
	w.flag(v.cropBottom != 0) // conformance_window_flag
	if v.cropBottom != 0 {
		w.ue(0)
		w.ue(0)
		w.ue(0)
		w.ue(uint64(v.cropBottom))
	}
	w.ue(0)                     // bit_depth_luma_minus8
	w.ue(0)                     // bit_depth_chroma_minus8
	w.ue(4)                     // log2_max_pic_order_cnt_lsb_minus4
	w.put(1, 1)                 // sps_sub_layer_ordering_info_present_flag
	w.ue(uint64(v.reorder + 1)) // sps_max_dec_pic_buffering_minus1
	w.ue(uint64(v.reorder))     // sps_max_num_reorder_pics
	w.ue(0)                     // sps_max_latency_increase_plus1
	w.ue(0)                     // log2_min_luma_coding_block_size_minus3
	w.ue(3)                     // log2_diff_max_min_luma_coding_block_size
	w.ue(0)                     // log2_min_luma_transform_block_size_minus2
	w.ue(3)                     // log2_diff_max_min_luma_transform_block_size
	w.ue(0)                     // max_transform_hierarchy_depth_inter
	w.ue(0)                     // max_transform_hierarchy_depth_intra
	w.put(0, 1)                 // scaling_list_enabled_flag
	w.put(0, 1)                 // amp_enabled_flag
	w.put(1, 1)                 // sample_adaptive_offset_enabled_flag
	w.put(0, 1)                 // pcm_enabled_flag
	w.ue(0)                     // num_short_term_ref_pic_sets
	w.put(0, 1)                 // long_term_ref_pics_present_flag
	w.put(1, 1)                 // sps_temporal_mvp_enabled_flag
	w.put(1, 1)                 // strong_intra_smoothing_enabled_flag
	w.flag(v.timing)            // vui_parameters_present_flag
	if v.timing {
		w.put(0, 1) // aspect_ratio_info_present_flag
		w.put(0, 1) // overscan_info_present_flag
		w.put(0, 1) // video_signal_type_present_flag
		w.put(0, 1) // chroma_loc_info_present_flag
		w.put(0, 1) // neutral_chroma_indication_flag
		w.put(0, 1) // field_seq_flag
		w.put(0, 1) // frame_field_info_present_flag
		w.put(0, 1) // default_display_window_flag
		w.put(1, 1) // vui_timing_info_present_flag
		w.put(uint64(v.ticks), 32)
		w.put(uint64(v.tscale), 32)
		w.put(0, 1) // vui_poc_proportional_to_timing_flag
		w.put(0, 1) // vui_hrd_parameters_present_flag
		w.put(0, 1) // bitstream_restriction_flag
	}
	w.put(0, 1) // sps_extension_present_flag
	w.trailing()
	return append([]byte{0x42, 0x01}, emulationPrevent(w.b)...)
}

// pps_pic_parameter_set_id 0, pps_seq_parameter_set_id 0, no dependent slices, no output flag, no extra
// slice header bits; the tail (not parsed by anyone here) varies with the id
func h265PPSOf(p int64) []byte {
	return []byte{0x44, 0x01, 0xc1, 0x72, 0xb4, 0x20 + byte(p%3), 0x40}
}

// the VPS is never parsed by the muxer (compared bytewise, copied into hvcC)
func h265VPSOf(p int64) []byte {
	return []byte{0x40, 0x01, 0x0c, 0x01, 0xff, 0xff, 0x01, 0x60, 0x00, 0x00, 0x03, 0x00, 0xb0, 0x00, 0x00, 0x03,
		0x00, 0x00, 0x03, 0x00, byte(h265Levels[pg(p)]), 0x95, 0x98, 0x09 + byte(p%2)}
}

// NAL unit header: forbidden_zero_bit, nal_unit_type(6), nuh_layer_id(6) = 0, nuh_temporal_id_plus1(3) = 1
func h265NALU(typ byte, payload []byte) []byte {
	return append([]byte{typ << 1, 0x01}, payload...)
}

var h265RATypes = []byte{19, 20, 21}          // IDR_W_RADL, IDR_N_LP, CRA_NUT
var h265NonRATypes = []byte{1, 0, 1, 9, 1, 8} // TRAIL_R, TRAIL_N, RASL_R, RASL_N

const h265SEI = 39 // PREFIX_SEI_NUT

func h265SliceType(id int64, ra bool) byte {
	if ra {
		return h265RATypes[id%3]
	}
	return h265NonRATypes[id%6]
}

// what h265.DTSExtractor makes of a slice under a reordering SPS (reorder = sps_max_num_reorder_pics):
// samplesDiff = (pts - dts) / tick, as a function of the NAL type and the header argument rpsArg
func h265SamplesDiff(typ byte, reorder, rpsArg int) int {
	switch typ {
	case 19, 20: // IDR: not parsed, always the full reordering depth
		return reorder
	case 0, 8: // TRAIL_N / RASL_N B slice: reorder - num_positive_pics
		return reorder - rpsArg
	}
	return reorder + rpsArg // CRA (I slice), TRAIL_R / RASL_R P slice: -DeltaPocS0[0] - 1 + reorder
}
func h265MaxRpsArg(typ byte, reorder int) int {
	switch typ {
	case 0, 8:
		return reorder
	}
	return 2
}

const h265SliceHdrLen = 6

// slice_segment_header() as far as the DTS extractor reads it (H.265 7.3.6.1), for the SPS / PPS
// variants above (8-bit pic_order_cnt_lsb, no short-term RPS in the SPS, no extra header bits):
// padded with one bits to h265SliceHdrLen bytes
func h265SliceHeader(typ byte, id int64, rpsArg int) []byte {
	var w bitw
	w.put(1, 1) // first_slice_segment_in_pic_flag
	if typ >= 16 && typ <= 23 {
		w.put(0, 1) // no_output_of_prior_pics_flag
	}
	w.ue(0) // slice_pic_parameter_set_id
	switch typ {
	case 19, 20:
		w.ue(2) // slice_type I; IDR pictures carry neither pic_order_cnt_lsb nor a reference picture set
	default:
		st := uint64(1) // P
		if typ == 21 {
			st = 2 // I
		} else if typ == 0 || typ == 8 {
			st = 0 // B
		}
		w.ue(st)
		w.put(uint64(id%255)+1, 8) // slice_pic_order_cnt_lsb (never 0: no start-code emulation)
		w.put(0, 1)                // short_term_ref_pic_set_sps_flag: the set follows inline
		if st == 0 {
			w.ue(1)              // num_negative_pics
			w.ue(uint64(rpsArg)) // num_positive_pics
			w.ue(0)              // delta_poc_s0_minus1
			w.put(1, 1)          // used_by_curr_pic_s0_flag
			for i := 0; i < rpsArg; i++ {
				w.ue(0)     // delta_poc_s1_minus1
				w.put(1, 1) // used_by_curr_pic_s1_flag
			}
		} else {
			w.ue(1)              // num_negative_pics
			w.ue(0)              // num_positive_pics
			w.ue(uint64(rpsArg)) // delta_poc_s0_minus1
			w.flag(typ != 21)    // used_by_curr_pic_s0_flag (a CRA picture references nothing)
		}
	}
	for w.n < 8*h265SliceHdrLen {
		w.put(1, 1)
	}
	return w.b
}

func h265Slice(typ byte, id int64, ln int, rpsArg int) []byte {
	return h265NALU(typ, append(h265SliceHeader(typ, id, rpsArg), fill(id, ln)...))
}

// id carried by an H265 sample (length-prefixed NALUs): the VCL NALU's, else the SEI's
func h265SampleID(payload []byte) int64 {
	pos := 0
	best := int64(-1)
	for pos+4 <= len(payload) {
		n := int(payload[pos])<<24 | int(payload[pos+1])<<16 | int(payload[pos+2])<<8 | int(payload[pos+3])
		pos += 4
		if n < 2 || pos+n > len(payload) {
			break
		}
		nalu := payload[pos : pos+n]
		typ := (nalu[0] >> 1) & 0x3f
		if typ < 32 {
			if len(nalu) < 2+h265SliceHdrLen {
				return -1
			}
			return decID(nalu[2+h265SliceHdrLen:])
		}
		if typ == h265SEI && best < 0 {
			best = decID(nalu[2:])
		}
		pos += n
	}
	return best
}

// ================================================================ VP9

type vp9Params struct {
	w, h        int
	profile     uint8
	bitDepth    uint8
	subsampling uint8 // vpcC value: 1 = 4:2:0, 2 = 4:2:2, 3 = 4:4:4
	ssx, ssy    bool
	colorRange  bool
}

func vp9ParamsOf(p int64) vp9Params {
	var v vp9Params
	switch pq(p) {
	case 0:
		v.w, v.h = 640, 360
	case 1:
		v.w, v.h = 1280, 720
	case 2:
		v.w, v.h, v.colorRange = 640, 360, true
	case 3:
		v.w, v.h = 640, 480
	}
	v.ssx, v.ssy, v.subsampling = true, true, 1
	switch pg(p) {
	case 0:
		v.profile, v.bitDepth = 0, 8
	case 1:
		v.profile, v.bitDepth = 1, 8
		switch pq(p) { // profile 1 carries explicit subsampling (never 4:2:0)
		case 0, 2:
			v.ssx, v.ssy, v.subsampling = false, false, 3
		case 1:
			v.ssx, v.ssy, v.subsampling = true, false, 2
		case 3:
			v.ssx, v.ssy, v.subsampling = false, true, 1 // 4:4:0 has no vpcC code of its own: reported as 1
		}
	case 2:
		v.profile, v.bitDepth = 2, 12
	}
	return v
}

// vp09.<profile>.<level>.<bitDepth>; the muxer always declares level 1.0 ("10")
func vp9CodecString(p int64) string {
	v := vp9ParamsOf(p)
	return fmt.Sprintf("vp09.%02d.10.%02d", v.profile, v.bitDepth)
}

const vp9KeyHdrLen = 12
const vp9InterHdrLen = 2

func vp9FrameHeader(p int64, key bool) []byte {
	v := vp9ParamsOf(p)
	var w bitw
	w.put(2, 2)                    // frame_marker
	w.put(uint64(v.profile&1), 1)  // profile_low_bit
	w.put(uint64(v.profile>>1), 1) // profile_high_bit
	if v.profile == 3 {
		w.put(0, 1) // reserved_zero
	}
	w.put(0, 1)  // show_existing_frame
	w.flag(!key) // frame_type: 0 = KEY_FRAME
	w.put(1, 1)  // show_frame
	w.put(0, 1)  // error_resilient_mode
	if !key {
		w.padTo(vp9InterHdrLen)
		return w.b
	}
	w.put(0x49, 8)
	w.put(0x83, 8)
	w.put(0x42, 8) // frame_sync_code
	if v.profile >= 2 {
		w.flag(v.bitDepth == 12) // ten_or_twelve_bit
	}
	w.put(2, 3) // color_space: CS_BT_709
	w.flag(v.colorRange)
	if v.profile == 1 || v.profile == 3 {
		w.flag(v.ssx)
		w.flag(v.ssy)
		w.put(0, 1) // reserved_zero
	}
	w.put(uint64(v.w-1), 16)
	w.put(uint64(v.h-1), 16)
	w.padTo(vp9KeyHdrLen)
	return w.b
}

func vp9FrameID(frame []byte) int64 {
	if len(frame) < 1 {
		return -1
	}
	// profile < 3 in every variant: frame_type is bit 5 of the first byte
	off := vp9KeyHdrLen
	if frame[0]&0x04 != 0 {
		off = vp9InterHdrLen
	}
	if frame[0]&0x08 != 0 {
		off = 1 // show_existing_frame
	}
	if len(frame) < off {
		return -1
	}
	return decID(frame[off:])
}

// ================================================================ AV1

type av1Var struct {
	w, h      int
	cdef      bool
	filmGrain bool
}

var av1Q = []av1Var{
	{w: 640, h: 360, cdef: true},
	{w: 1280, h: 720, cdef: true},
	{w: 640, h: 360, cdef: false, filmGrain: true},
	{w: 854, h: 480, cdef: true},
}

func av1Width(p int64) int  { return av1Q[pq(p)].w }
func av1Height(p int64) int { return av1Q[pq(p)].h }

type av1G struct {
	level  int
	tier   bool
	highBD bool
	// color_config: an explicit colour description (color_description_present_flag = 1) with three
	// DIFFERENT code points, so that a CODECS string that mixes the fields up is not the same string
	colorDesc  bool
	cp, tc, mc int  // color_primaries, transfer_characteristics, matrix_coefficients (ISO/IEC 23091-4 code points)
	fullRange  bool // color_range
	chromaPos  int  // chroma_sample_position (0 unknown, 1 vertical, 2 colocated)
}

var av1Gs = []av1G{
	{level: 8},
	{level: 9, tier: true, colorDesc: true, cp: 1, tc: 13, mc: 6, chromaPos: 1},                     // BT.709 primaries, sRGB transfer, BT.601 matrix
	{level: 8, highBD: true, colorDesc: true, cp: 12, tc: 16, mc: 9, fullRange: true, chromaPos: 2}, // P3-D65, PQ, BT.2020 NCL, full range
}

// av01.<profile>.<level><tier>.<bitDepth>.<monochrome>.<subsamplingX subsamplingY chromaSamplePosition>.
// <colour primaries>.<transfer>.<matrix>.<full range>; no colour description -> the defaults 01.01.01.0
// (literal expectations per variant; the C16 oracle recomputes the string from the header bytes, codecstr.go)
func av1CodecString(p int64) string {
	g := av1Gs[pg(p)]
	tier, bd := "M", 8
	if g.tier {
		tier = "H"
	}
	if g.highBD {
		bd = 10
	}
	colour := "01.01.01.0"
	if g.colorDesc {
		colour = fmt.Sprintf("%02d.%02d.%02d.%d", g.cp, g.tc, g.mc, b2i(g.fullRange))
	}
	return fmt.Sprintf("av01.0.%02d%s.%02d.0.11%d.%s", g.level, tier, bd, g.chromaPos, colour)
}

// sequence header OBU; ids with an odd id are handed over WITHOUT the obu_size field (the muxer adds it)
func av1HasSize(p int64) bool { return p%2 == 0 }

func av1SeqHdrPayload(p int64) []byte {
	g, v := av1Gs[pg(p)], av1Q[pq(p)]
	var w bitw
	w.put(0, 3)  // seq_profile: Main
	w.put(0, 1)  // still_picture
	w.put(0, 1)  // reduced_still_picture_header
	w.put(0, 1)  // timing_info_present_flag
	w.put(0, 1)  // initial_display_delay_present_flag
	w.put(0, 5)  // operating_points_cnt_minus_1
	w.put(0, 12) // operating_point_idc[0]
	w.put(uint64(g.level), 5)
	if g.level > 7 {
		w.flag(g.tier)
	}
	w.put(10, 4) // frame_width_bits_minus_1
	w.put(10, 4) // frame_height_bits_minus_1
	w.put(uint64(v.w-1), 11)
	w.put(uint64(v.h-1), 11)
	w.put(0, 1) // frame_id_numbers_present_flag
	w.put(0, 1) // use_128x128_superblock
	w.put(1, 1) // enable_filter_intra
	w.put(1, 1) // enable_intra_edge_filter
	w.put(1, 1) // enable_interintra_compound
	w.put(1, 1) // enable_masked_compound
	w.put(1, 1) // enable_warped_motion
	w.put(1, 1) // enable_dual_filter
	w.put(1, 1) // enable_order_hint
	w.put(1, 1) // enable_jnt_comp
	w.put(1, 1) // enable_ref_frame_mvs
	w.put(1, 1) // seq_choose_screen_content_tools
	w.put(1, 1) // seq_choose_integer_mv
	w.put(6, 3) // order_hint_bits_minus_1
	w.put(0, 1) // enable_superres
	w.flag(v.cdef)
	w.put(1, 1) // enable_restoration
	// color_config
	w.flag(g.highBD)
	w.put(0, 1)         // mono_chrome
	w.flag(g.colorDesc) // color_description_present_flag
	if g.colorDesc {
		w.put(uint64(g.cp), 8) // color_primaries
		w.put(uint64(g.tc), 8) // transfer_characteristics
		w.put(uint64(g.mc), 8) // matrix_coefficients
	}
	// (mono_chrome = 0 and not the sRGB / identity special case: color_range is coded; Main profile:
	// subsampling_x = subsampling_y = 1, so chroma_sample_position follows)
	w.flag(g.fullRange)           // color_range
	w.put(uint64(g.chromaPos), 2) // chroma_sample_position
	w.put(0, 1)                   // separate_uv_delta_q
	w.flag(v.filmGrain)
	w.trailing()
	return w.b
}

func leb128(v int) []byte {
	var out []byte
	for {
		b := byte(v & 0x7f)
		v >>= 7
		if v != 0 {
			out = append(out, b|0x80)
		} else {
			return append(out, b)
		}
	}
}

// one OBU: obu_header (type, no extension) [+ obu_size] + payload
func av1OBU(typ byte, hasSize bool, payload []byte) []byte {
	if hasSize {
		out := append([]byte{typ<<3 | 0x02}, leb128(len(payload))...)
		return append(out, payload...)
	}
	return append([]byte{typ << 3}, payload...)
}

func av1SeqHdrOf(p int64) []byte { return av1OBU(1, av1HasSize(p), av1SeqHdrPayload(p)) }

// the same OBU in the low-overhead bitstream format (obu_has_size_field = 1), as an MP4 sample / av1C
// carries it
func av1WithSize(obu []byte) []byte {
	if len(obu) == 0 || obu[0]&0x02 != 0 {
		return obu
	}
	return av1OBU(obu[0]>>3, true, obu[1:])
}

const (
	av1OBUSeqHdr = 1
	av1OBUTD     = 2
	av1OBUFrame  = 6
)

func av1SampleID(payload []byte) int64 {
	pos := 0
	for pos < len(payload) {
		hdr := payload[pos]
		pos++
		if hdr&0x02 == 0 {
			return -1
		}
		size, shift := 0, uint(0)
		for {
			if pos >= len(payload) {
				return -1
			}
			b := payload[pos]
			pos++
			size |= int(b&0x7f) << shift
			shift += 7
			if b&0x80 == 0 {
				break
			}
		}
		if pos+size > len(payload) {
			return -1
		}
		if hdr>>3 == av1OBUFrame {
			return decID(payload[pos : pos+size])
		}
		pos += size
	}
	return -1
}

// ================================================================ shared views used by run.go / oracles.go

func videoCodecString(kind int, p int64) string {
	switch kind {
	case kH265:
		return h265CodecString(p)
	case kVP9:
		return vp9CodecString(p)
	case kAV1:
		return av1CodecString(p)
	}
	return "?"
}

func videoResolution(kind int, p int64) (int, int) {
	switch kind {
	case kH265:
		return h265Width(p), h265Height(p)
	case kVP9:
		v := vp9ParamsOf(p)
		return v.w, v.h
	case kAV1:
		return av1Width(p), av1Height(p)
	}
	return 0, 0
}

// ---- self check against mediacommon's parsers ----

func selfCheckCodecs() {
	must := func(ok bool, f string, a ...interface{}) {
		if !ok {
			panic("concretisation self-check: " + fmt.Sprintf(f, a...))
		}
	}
	seen := map[string]int64{}
	uniq := func(kind string, p int64, b []byte) {
		k := kind + string(b)
		if o, dup := seen[k]; dup {
			must(false, "%s: ids %d and %d give identical parameters", kind, o, p)
		}
		seen[k] = p
	}
	for p := int64(0); p < 12; p++ {
		// H265
		var sps h265.SPS
		must(sps.Unmarshal(h265SPSOf(p)) == nil, "h265 SPS %d does not parse", p)
		must(sps.Width() == h265Width(p) && sps.Height() == h265Height(p), "h265 SPS %d: %dx%d", p, sps.Width(), sps.Height())
		must(int(sps.ProfileTierLevel.GeneralLevelIdc) == h265Levels[pg(p)] && sps.ProfileTierLevel.GeneralProfileIdc == 1 &&
			sps.ProfileTierLevel.GeneralTierFlag == 0 &&
			sps.ProfileTierLevel.GeneralProgressiveSourceFlag == (h265Q[pq(p)].src&0x80 != 0) &&
			sps.ProfileTierLevel.GeneralInterlacedSourceFlag == (h265Q[pq(p)].src&0x40 != 0) &&
			sps.ProfileTierLevel.GeneralNonPackedConstraintFlag == (h265Q[pq(p)].src&0x20 != 0) &&
			sps.ProfileTierLevel.GeneralFrameOnlyConstraintFlag == (h265Q[pq(p)].src&0x10 != 0), "h265 SPS %d: profile_tier_level", p)
		must(sps.FPS() == h265FPS(p), "h265 SPS %d: fps %v", p, sps.FPS())
		ro, tick := h265ReorderOf(p)
		must(len(sps.MaxNumReorderPics) == 1 && (ro != 0) == (sps.MaxNumReorderPics[0] != 0 && sps.VUI != nil && sps.VUI.TimingInfo != nil) &&
			(ro == 0 || int(sps.MaxNumReorderPics[0]) == ro), "h265 SPS %d: reordering", p)
		var pps h265.PPS
		must(pps.Unmarshal(h265PPSOf(p)) == nil && pps.NumExtraSliceHeaderBits == 0 && !pps.OutputFlagPresentFlag, "h265 PPS %d", p)
		must((h265VPSOf(p)[0]>>1)&0x3f == 32 && (h265SPSOf(p)[0]>>1)&0x3f == 33 && (h265PPSOf(p)[0]>>1)&0x3f == 34, "h265 NALU types %d", p)
		uniq("h265", p, h265SPSOf(p))
		// DTS extractor: dts = pts - samplesDiff * tick for every NAL type and header argument
		ex := &h265.DTSExtractor{}
		ex.Initialize()
		dts := int64(-5000)
		for i, typ := range []byte{19, 1, 0, 21, 9, 8, 20, 1, 0, 21} {
			arg := i % (h265MaxRpsArg(typ, ro) + 1)
			id := int64(i + 1)
			au := [][]byte{h265Slice(typ, id, 20, arg)}
			must(!bytes.Contains(au[0][2:], []byte{0, 0}), "h265 slice header with two zero bytes")
			if i == 0 {
				au = [][]byte{h265VPSOf(p), h265SPSOf(p), h265PPSOf(p), au[0]}
			}
			pts := dts + int64(h265SamplesDiff(typ, ro, arg))*tick
			d, err := ex.Extract(au, pts)
			must(err == nil && d == dts, "h265 DTS extractor, id %d unit %d type %d: got %v want %v err %v", p, i, typ, d, dts, err)
			var avcc []byte
			for _, n := range au {
				avcc = append(avcc, byte(len(n)>>24), byte(len(n)>>16), byte(len(n)>>8), byte(len(n)))
				avcc = append(avcc, n...)
			}
			must(h265SampleID(avcc) == id, "h265 sample id")
			dts += 1000
		}
		// VP9
		v := vp9ParamsOf(p)
		var hd vp9.Header
		kf := vp9FrameHeader(p, true)
		must(len(kf) == vp9KeyHdrLen && hd.Unmarshal(append(kf, fill(1, 20)...)) == nil, "vp9 key header %d", p)
		must(!hd.NonKeyFrame && hd.Width() == v.w && hd.Height() == v.h && hd.Profile == v.profile &&
			hd.ColorConfig.BitDepth == v.bitDepth && hd.ChromaSubsampling() == v.subsampling &&
			hd.ColorConfig.ColorRange == v.colorRange, "vp9 key header %d: %+v %+v", p, hd, hd.ColorConfig)
		var hi vp9.Header
		nf := vp9FrameHeader(p, false)
		must(len(nf) == vp9InterHdrLen && hi.Unmarshal(append(nf, fill(1, 20)...)) == nil && hi.NonKeyFrame && !hi.ShowExistingFrame, "vp9 inter header %d", p)
		must(vp9FrameID(append(kf, fill(77, 20)...)) == 77 && vp9FrameID(append(nf, fill(78, 20)...)) == 78, "vp9 id %d", p)
		uniq("vp9", p, []byte(fmt.Sprintf("%+v", v)))
		// AV1
		var sh av1.SequenceHeader
		must(sh.Unmarshal(av1SeqHdrOf(p)) == nil, "av1 sequence header %d does not parse", p)
		g := av1Gs[pg(p)]
		must(sh.Width() == av1Width(p) && sh.Height() == av1Height(p) && sh.SeqProfile == 0 &&
			int(sh.SeqLevelIdx[0]) == g.level && sh.SeqTier[0] == g.tier && sh.ColorConfig.HighBitDepth == g.highBD &&
			!sh.ColorConfig.MonoChrome && sh.ColorConfig.SubsamplingX && sh.ColorConfig.SubsamplingY &&
			sh.ColorConfig.ColorDescriptionPresentFlag == g.colorDesc && sh.ColorConfig.ColorRange == g.fullRange &&
			int(sh.ColorConfig.ChromaSamplePosition) == g.chromaPos &&
			(!g.colorDesc || (int(sh.ColorConfig.ColorPrimaries) == g.cp && int(sh.ColorConfig.TransferCharacteristics) == g.tc &&
				int(sh.ColorConfig.MatrixCoefficients) == g.mc && g.cp != g.mc && g.cp != g.tc && g.tc != g.mc)) &&
			sh.EnableCdef == av1Q[pq(p)].cdef, "av1 sequence header %d: %+v", p, sh)
		var sh2 av1.SequenceHeader
		must(sh2.Unmarshal(av1WithSize(av1SeqHdrOf(p))) == nil && sh2.Width() == sh.Width(), "av1 sequence header %d with size", p)
		var oh av1.OBUHeader
		must(oh.Unmarshal(av1SeqHdrOf(p)) == nil && oh.Type == av1.OBUTypeSequenceHeader && oh.HasSize == av1HasSize(p), "av1 OBU header %d", p)
		uniq("av1", p, av1WithSize(av1SeqHdrOf(p)))
		// the literal strings (used to classify the served CODECS for the trace) agree with the strings
		// recomputed from the bytes (used by the C16 oracle), and the three classes g are distinct
		for _, kind := range []int{kH265, kVP9, kAV1} {
			must(sameCodecString(videoCodecString(kind, p), codecFromParamBytes(&history{}, kind, p)), "codec string of kind %d id %d: literal %q, from bytes %q",
				kind, p, videoCodecString(kind, p), codecFromParamBytes(&history{}, kind, p))
			must(videoCodecString(kind, p) != videoCodecString(kind, (p+4)%12), "codec strings of kind %d ids %d / %d coincide", kind, p, (p+4)%12)
		}
	}
	// the bitstream the muxer builds from size-less OBUs is the one the harness expects
	tu := [][]byte{av1OBU(av1OBUTD, false, nil), av1SeqHdrOf(1), av1OBU(av1OBUFrame, false, fill(5, 300))}
	bs, err := av1.Bitstream(tu).Marshal()
	var want []byte
	for _, o := range tu {
		want = append(want, av1WithSize(o)...)
	}
	must(err == nil && bytes.Equal(bs, want) && av1SampleID(bs) == 5, "av1 bitstream form")
}
