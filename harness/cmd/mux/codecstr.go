package main

// RFC 6381 "codecs" strings recomputed from the BYTES of a track's parameters, for the C16 oracle.
// Written from the specifications that define the strings (ISO/IEC 14496-15 annex E for avc1 / hvc1,
// the VP9 and AV1 ISOBMFF bindings for vp09 / av01); gohlslib's pkg/codecparams is not used. Header
// fields of VP9 / AV1 are read with mediacommon's parsers; H264 / H265 are read from the raw bytes.

import (
	"encoding/hex"
	"fmt"
	"strings"

	"github.com/bluenviron/mediacommon/v2/pkg/codecs/av1"
	"github.com/bluenviron/mediacommon/v2/pkg/codecs/vp9"
)

// remove emulation prevention bytes (00 00 03 -> 00 00)
func unescapeRBSP(b []byte) []byte {
	var out []byte
	zeros := 0
	for _, x := range b {
		if zeros >= 2 && x == 3 {
			zeros = 0
			continue
		}
		out = append(out, x)
		if x == 0 {
			zeros++
		} else {
			zeros = 0
		}
	}
	return out
}

// avc1.PPCCLL: profile_idc, constraint_set flags byte, level_idc = bytes 1..3 of the SPS NAL unit
func h264CodecFromSPS(sps []byte) string {
	if len(sps) < 4 {
		return "?"
	}
	return "avc1." + hex.EncodeToString(sps[1:4])
}

// hvc1.<general_profile_space letter><general_profile_idc>.<general_profile_compatibility_flags in
// reverse bit order, hex>.<L|H><general_level_idc>.<the six constraint bytes, hex, trailing zero bytes
// dropped> (ISO/IEC 14496-15 E.3), read from the profile_tier_level() at the start of the SPS
func h265CodecFromSPS(sps []byte) string {
	if len(sps) < 2+13 {
		return "?"
	}
	r := unescapeRBSP(sps[2:])
	if len(r) < 13 {
		return "?"
	}
	// r[0]: sps_video_parameter_set_id(4) sps_max_sub_layers_minus1(3) sps_temporal_id_nesting_flag(1)
	space := r[1] >> 6
	tier := (r[1] >> 5) & 1
	profile := r[1] & 0x1f
	compat := uint32(r[2])<<24 | uint32(r[3])<<16 | uint32(r[4])<<8 | uint32(r[5])
	var rev uint32
	for i := 0; i < 32; i++ {
		if compat&(1<<uint(31-i)) != 0 {
			rev |= 1 << uint(i)
		}
	}
	constraint := r[6:12]
	level := r[12]
	s := "hvc1."
	if space >= 1 {
		s += string(rune('A' + space - 1))
	}
	s += fmt.Sprintf("%d.%x.", profile, rev)
	if tier != 0 {
		s += "H"
	} else {
		s += "L"
	}
	s += fmt.Sprintf("%d", level)
	n := len(constraint)
	for n > 0 && constraint[n-1] == 0 {
		n--
	}
	for i := 0; i < n; i++ {
		s += fmt.Sprintf(".%x", constraint[i])
	}
	return s
}

// vp09.<profile, 2 digits>.<level, 2 digits>.<bit depth, 2 digits>; the level is not coded in the
// bitstream: the muxer declares level 1.0 ("10") for every stream, which is what has been required so far
func vp9CodecFromKeyFrame(frame []byte) string {
	var h vp9.Header
	if err := h.Unmarshal(frame); err != nil || h.NonKeyFrame || h.ColorConfig == nil {
		return "?"
	}
	return fmt.Sprintf("vp09.%02d.10.%02d", h.Profile, h.ColorConfig.BitDepth)
}

// av01.<seq_profile>.<seq_level_idx[0], 2 digits><M|H>.<bit depth, 2 digits>.<mono_chrome>.
// <subsampling_x><subsampling_y><chroma_sample_position>.<color_primaries>.<transfer_characteristics>.
// <matrix_coefficients>.<color_range> (AV1 Codec ISO Media File Format Binding, section 5). Without a
// colour description the optional tail takes the values a reader infers when it is omitted: 01.01.01.0
func av1CodecFromSequenceHeader(obu []byte) string {
	var sh av1.SequenceHeader
	if err := sh.Unmarshal(obu); err != nil || len(sh.SeqLevelIdx) == 0 || len(sh.SeqTier) == 0 {
		return "?"
	}
	bit := func(b bool) int {
		if b {
			return 1
		}
		return 0
	}
	tier := "M"
	if sh.SeqTier[0] {
		tier = "H"
	}
	cc := sh.ColorConfig
	s := fmt.Sprintf("av01.%d.%02d%s.%02d.%d.%d%d%d.", sh.SeqProfile, sh.SeqLevelIdx[0], tier, cc.BitDepth,
		bit(cc.MonoChrome), bit(cc.SubsamplingX), bit(cc.SubsamplingY), cc.ChromaSamplePosition)
	if cc.ColorDescriptionPresentFlag {
		s += fmt.Sprintf("%02d.%02d.%02d.%d", cc.ColorPrimaries, cc.TransferCharacteristics, cc.MatrixCoefficients, bit(cc.ColorRange))
	} else {
		s += "01.01.01.0"
	}
	return s
}

// codecFromParamBytes: the codecs string of a video track whose current parameters have id p, computed
// from the very bytes the harness hands to the muxer for that id
func codecFromParamBytes(h *history, kind int, p int64) string {
	switch kind {
	case kH264:
		return h264CodecFromSPS(spsOf(h, p))
	case kH265:
		return h265CodecFromSPS(h265SPSOf(p))
	case kVP9:
		return vp9CodecFromKeyFrame(append(vp9FrameHeader(p, true), fill(1, 16)...))
	case kAV1:
		return av1CodecFromSequenceHeader(av1SeqHdrOf(p))
	}
	return "?"
}

// Equal as RFC 6381 strings: hexadecimal digits in either case; for hvc1, "trailing bytes that are zero may be
// omitted" (ISO/IEC 14496-15 E.3), so constraint bytes that are zero at the end do not count - an empty component
// (a dangling period) is not a byte and is never dropped.
func sameCodecString(a, b string) bool { return strings.EqualFold(normHvc1(a), normHvc1(b)) }

func normHvc1(s string) string {
	f := strings.Split(s, ".")
	if len(f) < 4 || !(strings.EqualFold(f[0], "hvc1") || strings.EqualFold(f[0], "hev1")) {
		return s
	}
	for len(f) > 4 && (f[len(f)-1] == "0" || f[len(f)-1] == "00") {
		f = f[:len(f)-1]
	}
	return strings.Join(f, ".")
}
