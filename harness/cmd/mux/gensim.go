package main

import (
	"time"

	gohlslib "github.com/bluenviron/gohlslib/v2"
)

// leadSim is the generator's rough replica of the segmenter's cut decisions for the leading track. It
// exists only to AIM: it tells the generator where the open segment / open part started, so that the
// next random-access unit (or, in Low-Latency mode, the next unit) can be placed exactly at, one tick
// before and one tick after the tick at which SegmentMinDuration (the adjusted part duration) is reached.
// Nothing is ever checked against it; when it is wrong the generator merely misses the boundary.
type leadSim struct {
	variant  int
	rate     int64
	segMin   int64 // ns
	partMin  int64 // ns
	off      int64 // +10 s in ticks for the fMP4 variants
	open     bool
	segStart int64 // ticks (without the offset)
	prtStart int64
	prev     int64
	havePrev bool
	durs     []time.Duration
	adj      int64 // ns
	frozen   bool
	writes   int // MPEG-TS, audio leading: writes into the open segment
	gen      int // bumped whenever segStart / prtStart move
	// what the last cuts closed (ticks), for the generator's statistics and the rounding aim (gen.go)
	cuts, pcuts     int
	cutDur, pcutDur int64
}

func (m *leadSim) ttd(ticks int64) int64 { return mulDivGo(ticks+m.off, 1e9, m.rate) }

// MPEG-TS: a leading unit (video: carrying slices, past the first IDR; audio: one write) with dts d
func (m *leadSim) tsUnit(d int64, ra, changed, audio bool) {
	switch {
	case !m.open:
		m.open, m.segStart, m.writes = true, d, 0
		m.gen++
	case audio:
		if m.writes >= 100 && m.ttd(d)-m.ttd(m.segStart) >= m.segMin {
			m.cuts, m.cutDur = m.cuts+1, d-m.segStart
			m.segStart, m.writes = d, 0
			m.gen++
		}
	case ra && (changed || m.ttd(d)-m.ttd(m.segStart) >= m.segMin):
		m.cuts, m.cutDur = m.cuts+1, d-m.segStart
		m.segStart = d
		m.gen++
	}
	if audio {
		m.writes++
	}
}

// fMP4 variants: a leading sample with dts d enters the one-sample look-ahead
func (m *leadSim) sample(d int64, ra, changed bool) {
	if d+m.off < 0 {
		return
	}
	if !m.havePrev {
		m.prev, m.havePrev = d, true
		return
	}
	if !m.open {
		m.open, m.segStart, m.prtStart = true, m.prev, m.prev
		m.gen++
	}
	if dur := time.Duration(mulDivGo(d-m.prev, 1e9, m.rate)); m.variant == 3 && !m.frozen && dur != 0 {
		seen := false
		for _, x := range m.durs {
			if x == dur {
				seen = true
			}
		}
		if !seen {
			m.durs = append(m.durs, dur)
			m.adj = int64(gohlslib.VerifFindCompatiblePartDuration(time.Duration(m.partMin), m.durs))
			m.gen++
		}
	}
	switch {
	case ra && (changed || m.ttd(d)-m.ttd(m.segStart) >= m.segMin):
		m.cuts, m.cutDur = m.cuts+1, d-m.segStart
		if m.variant == 3 {
			m.pcuts, m.pcutDur = m.pcuts+1, d-m.prtStart
		}
		m.segStart, m.prtStart = d, d
		if changed {
			m.frozen, m.durs = false, nil
		} else {
			m.frozen = true
		}
		m.gen++
	case m.variant == 3 && m.ttd(d)-m.ttd(m.prtStart) >= m.adj:
		m.pcuts, m.pcutDur = m.pcuts+1, d-m.prtStart
		m.prtStart = d
		m.gen++
	}
	m.prev = d
}

func ceilDiv(a, b int64) int64 { return (a + b - 1) / b }

// segTarget: the first tick at which the open segment has lasted SegmentMinDuration, + delta
func (m *leadSim) segTarget(delta int64) int64 {
	return m.segStart + ceilDiv(m.segMin*m.rate, 1e9) + delta
}

// partTarget: the same for the open part and the (frozen) adjusted part duration
func (m *leadSim) partTarget(delta int64) int64 {
	return m.prtStart + ceilDiv(m.adj*m.rate, 1e9) + delta
}
